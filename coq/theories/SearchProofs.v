(* C17 — proofs about the model in SearchModel.v, for all finite collections of sound schedules and all
   adversary inputs. *)
From Coq Require Import List Bool ZArith Lia Arith Permutation.
Require Import GT.BoundsSpec GT.SearchSpec GT.SearchModel.
Import ListNotations.
Open Scope Z_scope.

(* ------------------------------------------------------------------ order facts on rv / range *)

Ltac brk :=
  unfold separated, dominates, contains, range_ok, range_eqb, range_ltb, range_leb, definitive, finite, point,
         full_range, rv_leb, rv_min in *; simpl in *.
Ltac bools :=
  rewrite ?orb_true_iff, ?andb_true_iff, ?orb_false_iff, ?andb_false_iff, ?negb_true_iff, ?negb_false_iff,
          ?Z.ltb_lt, ?Z.eqb_eq, ?Z.ltb_ge, ?Z.eqb_neq, ?Z.leb_le, ?Z.leb_gt in *.
Ltac rv_solve :=
  brk;
  repeat match goal with r : range |- _ => destruct r end; simpl in *;
  repeat match goal with x : rv |- _ => destruct x end; simpl in *; bools;
  try discriminate; try tauto; try (intuition (try discriminate; try lia; try congruence)).

Definition rle (a b : rv) : Prop := rv_leb a b = true.

Lemma rle_refl a : rle a a. Proof. unfold rle; rv_solve. Qed.
Lemma rle_trans a b c : rle a b -> rle b c -> rle a c. Proof. unfold rle; rv_solve. Qed.
Lemma rle_total a b : rle a b \/ rle b a. Proof. unfold rle; rv_solve. Qed.
Lemma rle_fin x y : rle (Fin x) (Fin y) <-> x <= y. Proof. unfold rle; rv_solve. Qed.
Lemma rv_ltb_nle a b : rv_ltb a b = negb (rv_leb b a). Proof. rv_solve. Qed.
Lemma rv_ltb_false a b : rv_ltb a b = false <-> rle b a. Proof. unfold rle; rv_solve. Qed.
Lemma rv_ltb_true a b : rv_ltb a b = true -> rle a b. Proof. unfold rle; rv_solve. Qed.
Lemma rle_antisym a b : rle a b -> rle b a -> a = b.
Proof. unfold rle; rv_solve; f_equal; lia. Qed.
Lemma rv_min_le_l a b : rle (rv_min a b) a.
Proof. unfold rv_min. destruct (rv_ltb b a) eqn:E; [now apply rv_ltb_true | apply rle_refl]. Qed.
Lemma rv_min_le_r a b : rle (rv_min a b) b.
Proof. unfold rv_min. destruct (rv_ltb b a) eqn:E; [apply rle_refl | now apply rv_ltb_false]. Qed.
Lemma rv_min_glb a b c : rle c a -> rle c b -> rle c (rv_min a b).
Proof. unfold rv_min. destruct (rv_ltb b a); auto. Qed.
Lemma rv_eqb_eq a b : rv_eqb a b = true <-> a = b.
Proof. split; [rv_solve; f_equal; lia | intros ->; destruct b; simpl; auto using Z.eqb_refl]. Qed.
Lemma range_eqb_eq a b : range_eqb a b = true <-> a = b.
Proof.
  unfold range_eqb. rewrite andb_true_iff, !rv_eqb_eq. destruct a, b; simpl. split; [intros [-> ->]; auto | intros H; inversion H; auto].
Qed.
Lemma dominates_iff a b : dominates a b = true <-> rle (hi a) (lo b). Proof. reflexivity. Qed.
Lemma contains_iff a b : contains a b = true <-> rle (lo a) (lo b) /\ rle (hi b) (hi a).
Proof. unfold contains, rle. now rewrite andb_true_iff. Qed.
Lemma range_ok_iff r : range_ok r = true <-> rle (lo r) (hi r).
Proof. unfold range_ok. rewrite negb_true_iff. apply rv_ltb_false. Qed.
Lemma definitive_iff r : definitive r = true <-> exists z, r = point z.
Proof.
  split.
  - destruct r as [l h]; rv_solve. exists z; f_equal; f_equal; lia.
  - intros [z ->]. unfold definitive, point; simpl. now rewrite Z.eqb_refl.
Qed.
Lemma contains_refl r : contains r r = true. Proof. apply contains_iff; split; apply rle_refl. Qed.
Lemma contains_trans a b c : contains a b = true -> contains b c = true -> contains a c = true.
Proof. rewrite !contains_iff. intros [? ?] [? ?]; split; eapply rle_trans; eauto. Qed.

Lemma rv_lt_le_trans x y z w : rle x y -> rv_ltb y z = true -> rle z w -> rv_ltb x w = true.
Proof. unfold rle; rv_solve. Qed.
Lemma contains_point z r : contains (point z) r = true -> range_ok r = true -> r = point z.
Proof. destruct r as [l h]; rv_solve; f_equal; f_equal; lia. Qed.

(* separation survives sound tightening of both sides *)
Lemma separated_shrink a b a' b' :
  separated a b = true -> contains a a' = true -> contains b b' = true ->
  range_ok a' = true -> range_ok b' = true -> separated a' b' = true.
Proof.
  unfold separated. rewrite !orb_true_iff, !andb_true_iff, !contains_iff.
  intros [[H|H]|[H1 H2]] [A1 A2] [B1 B2] Oa Ob.
  - left; left. eapply rv_lt_le_trans; eauto.
  - left; right. eapply rv_lt_le_trans; eauto.
  - right. apply definitive_iff in H1 as [x ->]. apply definitive_iff in H2 as [y ->].
    rewrite (contains_point x a'), (contains_point y b'); auto; try (apply contains_iff; auto).
    split; apply definitive_iff; eauto.
Qed.
Lemma separated_sym a b : separated a b = separated b a.
Proof. unfold separated. rewrite (andb_comm (definitive a)). destruct (rv_ltb (hi a) (lo b)), (rv_ltb (hi b) (lo a)); auto. Qed.

(* ------------------------------------------------------------------ schedules *)

Lemma wf_sched_cons r r2 rest :
  wf_sched (r :: r2 :: rest) = true ->
  range_ok r = true /\ contains r r2 = true /\ wf_sched (r2 :: rest) = true.
Proof. simpl. rewrite !andb_true_iff. tauto. Qed.
Lemma wf_sched_single r : wf_sched [r] = true -> range_ok r = true /\ definitive r = true.
Proof. simpl. rewrite !andb_true_iff. tauto. Qed.
Lemma final_cons r r2 rest : final (r :: r2 :: rest) = final (r2 :: rest).
Proof. reflexivity. Qed.
Lemma wf_sched_ok s : wf_sched s = true -> range_ok (cur s) = true.
Proof. destruct s as [|r [|r2 rest]]; simpl; try discriminate; rewrite !andb_true_iff; tauto. Qed.

(* the current range of a sound schedule contains its final value *)
Lemma wf_sched_inrange s :
  wf_sched s = true -> rle (lo (cur s)) (Fin (final s)) /\ rle (Fin (final s)) (hi (cur s)).
Proof.
  induction s as [|r s IH]; [discriminate|].
  destruct s as [|r2 rest].
  - intros H. apply wf_sched_single in H as [_ H]. apply definitive_iff in H as [z ->].
    unfold final, final_range; simpl. split; apply rle_refl.
  - intros H. apply wf_sched_cons in H as (_ & Hc & Hw). specialize (IH Hw).
    rewrite final_cons. apply contains_iff in Hc as [H1 H2]. simpl in *. destruct IH as [I1 I2].
    split; eapply rle_trans; eauto.
Qed.
Lemma wf_sched_single_final r : wf_sched [r] = true -> r = point (final [r]).
Proof.
  intros H. apply wf_sched_single in H as [_ H]. apply definitive_iff in H as [z ->]. reflexivity.
Qed.
Lemma definitive_final s : wf_sched s = true -> definitive (cur s) = true -> cur s = point (final s).
Proof.
  intros Hw Hd. apply definitive_iff in Hd as [z Hz]. destruct (wf_sched_inrange s Hw) as [A B].
  rewrite Hz in *. simpl in *. apply rle_fin in A, B. f_equal; f_equal; lia.
Qed.

(* ------------------------------------------------------------------ item states *)

Definition wf_ms (m : ms) : Prop := Forall (fun s => wf_sched s = true) (its m).
Definition nitems (m : ms) : nat := length (its m).
Definition rem (m : ms) : nat := total_len (its m).
Definition fin (m : ms) (i : nat) : Z := fin_at (its m) i.

(* m' is reachable from m by tighten_bounds() calls *)
Record evolves (m m' : ms) : Prop := {
  ev_len : nitems m' = nitems m;
  ev_fin : finals (its m') = finals (its m);
  ev_rem : (rem m' <= rem m)%nat;
  ev_wf : wf_ms m -> wf_ms m';
  ev_shrink : wf_ms m -> forall i, contains (bounds m i) (bounds m' i) = true
}.

Lemma evolves_refl m : evolves m m.
Proof. constructor; auto. intros; apply contains_refl. Qed.
Lemma evolves_trans a b c : evolves a b -> evolves b c -> evolves a c.
Proof.
  intros [] []; constructor; try congruence; try lia; auto.
  intros W i. eapply contains_trans; eauto.
Qed.
Lemma evolves_fin m m' i : evolves m m' -> fin m' i = fin m i.
Proof. intros []. unfold fin, fin_at. now rewrite ev_fin0. Qed.

Lemma nth_upd_eq {A} i (x d : A) l : (i < length l)%nat -> nth i (upd i x l) d = x.
Proof. revert i; induction l; intros [|i] H; simpl in *; try lia; auto. apply IHl; lia. Qed.
Lemma nth_upd_neq {A} i j (x d : A) l : i <> j -> nth j (upd i x l) d = nth j l d.
Proof. revert i j; induction l; intros [|i] [|j] H; simpl in *; try lia; auto. Qed.
Lemma length_upd {A} i (x : A) l : length (upd i x l) = length l.
Proof. revert i; induction l; intros [|i]; simpl; auto. Qed.
Lemma Forall_upd {A} (P : A -> Prop) i x l : Forall P l -> P x -> Forall P (upd i x l).
Proof. intros H; revert i; induction H; intros [|i] Hx; simpl; auto. Qed.
Lemma map_upd_same {A B} (f : A -> B) i x l d : f x = f (nth i l d) -> map f (upd i x l) = map f l.
Proof. revert i; induction l; intros [|i] H; simpl in *; auto; f_equal; auto. Qed.
Lemma total_len_upd i x l :
  (i < length l)%nat -> (total_len (upd i x l) + length (nth i l []) = total_len l + length x)%nat.
Proof. revert i; induction l; intros [|i] H; simpl in *; try lia. specialize (IHl i). lia. Qed.

Lemma sched_nil_out m i : (nitems m <= i)%nat -> sched_of m i = [].
Proof. intros. unfold sched_of. apply nth_overflow. exact H. Qed.

Lemma wf_ms_sched m i : wf_ms m -> (i < nitems m)%nat -> wf_sched (sched_of m i) = true.
Proof. intros H Hi. unfold wf_ms in H. rewrite Forall_forall in H. apply H. apply nth_In. exact Hi. Qed.

Lemma fin_sched m i : (i < nitems m)%nat -> fin m i = final (sched_of m i).
Proof.
  intros Hi. unfold fin, fin_at, finals, sched_of.
  rewrite (nth_indep _ 0 (final [])) by (rewrite map_length; exact Hi). apply map_nth.
Qed.

Lemma inrange m i : wf_ms m -> (i < nitems m)%nat ->
  rle (lo (bounds m i)) (Fin (fin m i)) /\ rle (Fin (fin m i)) (hi (bounds m i)).
Proof. intros H Hi. rewrite fin_sched by auto. apply wf_sched_inrange. now apply wf_ms_sched. Qed.
Lemma bounds_ok m i : wf_ms m -> (i < nitems m)%nat -> range_ok (bounds m i) = true.
Proof. intros. apply wf_sched_ok. now apply wf_ms_sched. Qed.
Lemma definitive_bounds m i : wf_ms m -> (i < nitems m)%nat -> definitive (bounds m i) = true ->
  bounds m i = point (fin m i).
Proof. intros. rewrite fin_sched by auto. apply definitive_final; auto. now apply wf_ms_sched. Qed.

(* tighten_bounds() of one item *)
Lemma tighten_spec m i t m' :
  tighten m i = (t, m') ->
  evolves m m' /\ (rem m' + (if t then 1 else 0) = rem m)%nat /\
  (forall j, j <> i -> sched_of m' j = sched_of m j) /\
  (t = false -> its m' = its m /\ (wf_ms m -> (i < nitems m)%nat -> definitive (bounds m i) = true)).
Proof.
  unfold tighten. destruct (sched_of m i) as [|r [|r2 rest]] eqn:E; intros H; inversion H; subst; clear H.
  - repeat split; simpl; auto using contains_refl; try (unfold rem; simpl; lia).
    intros Hw Hi. pose proof (wf_ms_sched m i Hw Hi) as W. rewrite E in W. discriminate.
  - repeat split; simpl; auto using contains_refl; try (unfold rem; simpl; lia).
    intros Hw Hi. pose proof (wf_ms_sched m i Hw Hi) as W. rewrite E in W.
    unfold bounds. rewrite E. simpl. now apply wf_sched_single in W.
  - assert (Hi : (i < nitems m)%nat).
    { destruct (Nat.lt_ge_cases i (nitems m)); auto. rewrite sched_nil_out in E by auto. discriminate. }
    assert (W : wf_ms m -> wf_sched (r :: r2 :: rest) = true).
    { intros Hw. rewrite <- E. now apply wf_ms_sched. }
    unfold sched_of in E.
    assert (T : (total_len (upd i (r2 :: rest) (its m)) + 1 = total_len (its m))%nat).
    { pose proof (total_len_upd i (r2 :: rest) (its m) Hi) as T. rewrite E in T. cbn [length] in T. lia. }
    split; [|split; [|split]].
    + constructor; simpl.
      * unfold nitems; simpl. apply length_upd.
      * unfold finals. apply map_upd_same with (d := @nil range). rewrite E. reflexivity.
      * unfold rem; simpl. lia.
      * intros Hw. unfold wf_ms; simpl. apply Forall_upd; auto.
        specialize (W Hw). now apply wf_sched_cons in W.
      * intros Hw j. unfold bounds, sched_of; simpl. destruct (Nat.eq_dec i j) as [<-|N].
        -- rewrite nth_upd_eq by exact Hi. rewrite E. simpl.
           specialize (W Hw). now apply wf_sched_cons in W.
        -- rewrite nth_upd_neq by exact N. apply contains_refl.
    + unfold rem; simpl. lia.
    + intros j N. unfold sched_of; simpl. apply nth_upd_neq. auto.
    + discriminate.
Qed.

Lemma bounds_its m m' i : its m' = its m -> bounds m' i = bounds m i.
Proof. unfold bounds, sched_of. now intros ->. Qed.

Lemma dom_fin m a b : wf_ms m -> (a < nitems m)%nat -> (b < nitems m)%nat ->
  dominates (bounds m a) (bounds m b) = true -> fin m a <= fin m b.
Proof.
  intros Hw Ha Hb D. apply dominates_iff in D.
  destruct (inrange m a Hw Ha) as [_ A]. destruct (inrange m b Hw Hb) as [B _].
  apply rle_fin. eapply rle_trans; [exact A|]. eapply rle_trans; eauto.
Qed.

Lemma dom_total_points x y : dominates (point x) (point y) || dominates (point y) (point x) = true.
Proof. unfold dominates, point; simpl. apply orb_true_iff. destruct (rle_total (Fin x) (Fin y)); auto. Qed.

(* ------------------------------------------------------------------ BoundedComparator *)

Lemma cmp_loop_spec fuel : forall m a b,
  wf_ms m -> (a < nitems m)%nat -> (b < nitems m)%nat -> (rem m < fuel)%nat ->
  exists m', cmp_loop fuel m a b = Done m' /\ evolves m m' /\
             dominates (bounds m' a) (bounds m' b) || dominates (bounds m' b) (bounds m' a) = true.
Proof.
  induction fuel; intros m a b Hw Ha Hb Hf; [lia|].
  simpl. destruct (dominates (bounds m a) (bounds m b) || dominates (bounds m b) (bounds m a)) eqn:D.
  - exists m; auto using evolves_refl.
  - destruct (tighten m a) as [ta m1] eqn:Ta. destruct (tighten_spec _ _ _ _ Ta) as (E1 & R1 & _ & F1).
    destruct ta.
    + destruct (IHfuel m1 a b) as (m' & ? & ? & ?);
        try (rewrite (ev_len _ _ E1); auto); [apply E1; auto | lia |].
      exists m'; split; auto; split; auto. eapply evolves_trans; eauto.
    + destruct (tighten m1 b) as [tb m2] eqn:Tb. destruct (tighten_spec _ _ _ _ Tb) as (E2 & R2 & _ & F2).
      assert (W1 : wf_ms m1) by (apply E1; auto).
      assert (L1 : nitems m1 = nitems m) by apply E1.
      destruct tb.
      * destruct (IHfuel m2 a b) as (m' & ? & ? & ?);
          try (rewrite (ev_len _ _ E2), L1; auto); [apply E2; auto | lia |].
        exists m'; split; auto; split; auto. eapply evolves_trans; [|eauto]. eapply evolves_trans; eauto.
      * exists m2; split; auto; split; [eapply evolves_trans; eauto|].
        destruct (F1 eq_refl) as [I1 D1]. destruct (F2 eq_refl) as [I2 D2].
        rewrite !(bounds_its m1 m2) by auto. rewrite !(bounds_its m m1) by auto.
        specialize (D1 Hw Ha). rewrite L1 in D2. specialize (D2 W1 Hb). rewrite (bounds_its m m1) in D2 by auto.
        apply definitive_iff in D1 as [x ->]. apply definitive_iff in D2 as [y ->]. apply dom_total_points.
Qed.

Lemma cmp_lt_spec fuel m a b tie :
  wf_ms m -> (a < nitems m)%nat -> (b < nitems m)%nat -> (rem m < fuel)%nat ->
  exists r m', cmp_lt fuel m a b tie = Done (r, m') /\ evolves m m' /\
               (if r then fin m a <= fin m b else fin m b <= fin m a).
Proof.
  intros Hw Ha Hb Hf. destruct (cmp_loop_spec fuel m a b Hw Ha Hb Hf) as (m' & C & E & D).
  unfold cmp_lt. rewrite C. simpl.
  assert (W : wf_ms m') by (apply E; auto).
  assert (Ha' : (a < nitems m')%nat) by (rewrite (ev_len _ _ E); auto).
  assert (Hb' : (b < nitems m')%nat) by (rewrite (ev_len _ _ E); auto).
  eexists _, m'. split; [reflexivity|]. split; auto.
  rewrite <- !(evolves_fin m m') by auto.
  destruct (dominates (bounds m' a) (bounds m' b)) eqn:D1; simpl.
  - apply dom_fin; auto.
  - simpl in D. destruct (range_eqb (bounds m' a) (bounds m' b) && tie) eqn:Q.
    + apply andb_true_iff in Q as [Q _]. apply range_eqb_eq in Q. rewrite Q in D1, D. congruence.
    + apply dom_fin; auto.
Qed.

Lemma drain_spec fuel : forall m a b,
  wf_ms m -> (a < nitems m)%nat -> (b < nitems m)%nat -> (rem m < fuel)%nat ->
  exists m', drain fuel m a b = Done m' /\ evolves m m' /\
             definitive (bounds m' a) = true /\ definitive (bounds m' b) = true.
Proof.
  induction fuel; intros m a b Hw Ha Hb Hf; [lia|].
  simpl. destruct (tighten m a) as [ta m1] eqn:Ta. destruct (tighten_spec _ _ _ _ Ta) as (E1 & R1 & _ & F1).
  assert (W1 : wf_ms m1) by (apply E1; auto).
  assert (L1 : nitems m1 = nitems m) by apply E1.
  destruct ta.
  - destruct (IHfuel m1 a b) as (m' & ? & ? & ?); try (rewrite L1; auto); auto; [lia|].
    exists m'; split; auto; split; auto. eapply evolves_trans; eauto.
  - destruct (tighten m1 b) as [tb m2] eqn:Tb. destruct (tighten_spec _ _ _ _ Tb) as (E2 & R2 & _ & F2).
    destruct tb.
    + destruct (IHfuel m2 a b) as (m' & ? & ? & ?);
        try (rewrite (ev_len _ _ E2), L1; auto); [apply E2; auto | lia |].
      exists m'; split; auto; split; auto. eapply evolves_trans; [|eauto]. eapply evolves_trans; eauto.
    + exists m2; split; auto; split; [eapply evolves_trans; eauto|].
      destruct (F1 eq_refl) as [I1 D1]. destruct (F2 eq_refl) as [I2 D2].
      rewrite !(bounds_its m1 m2) by auto. rewrite !(bounds_its m m1) by auto.
      specialize (D1 Hw Ha). rewrite L1 in D2. specialize (D2 W1 Hb). rewrite (bounds_its m m1) in D2 by auto.
      auto.
Qed.

Lemma cmp_le_spec fuel m a b tie :
  wf_ms m -> (a < nitems m)%nat -> (b < nitems m)%nat -> (rem m < fuel)%nat ->
  exists r m', cmp_le fuel m a b tie = Done (r, m') /\ evolves m m' /\ r = (fin m a <=? fin m b).
Proof.
  intros Hw Ha Hb Hf. destruct (cmp_lt_spec fuel m a b tie Hw Ha Hb Hf) as (r & m1 & C & E & P).
  unfold cmp_le. rewrite C. simpl. destruct r.
  - exists true, m1. split; [reflexivity|]. split; [auto|]. symmetry. now apply Z.leb_le.
  - assert (W : wf_ms m1) by (apply E; auto).
    assert (L1 : nitems m1 = nitems m) by apply E.
    destruct (drain_spec fuel m1 a b) as (m2 & Dr & E2 & Da & Db); auto; try lia.
    { pose proof (ev_rem _ _ E). lia. }
    rewrite Dr. simpl. eexists _, m2. split; [reflexivity|]. split; [eapply evolves_trans; eauto|].
    assert (W2 : wf_ms m2) by (apply E2; auto).
    assert (L2 : nitems m2 = nitems m) by (rewrite (ev_len _ _ E2); auto).
    rewrite (definitive_bounds m2 a), (definitive_bounds m2 b) by (auto; lia).
    rewrite !(evolves_fin m1 m2), !(evolves_fin m m1) by auto.
    unfold range_eqb, point; simpl. rewrite andb_diag.
    destruct (Z.eqb_spec (fin m a) (fin m b)); symmetry; [apply Z.leb_le | apply Z.leb_gt]; lia.
Qed.

Theorem C17_lt_model s1 s2 tie fuel :
  wf_sched s1 = true -> wf_sched s2 = true -> (fuel_for [s1; s2] <= fuel)%nat ->
  exists r m', cmp_lt fuel (mkMs [s1; s2] []) 0 1 tie = Done (r, m') /\ holds_lt [s1; s2] (OBool r) = true.
Proof.
  intros W1 W2 Hf.
  destruct (cmp_lt_spec fuel (mkMs [s1; s2] []) 0 1 tie) as (r & m' & C & _ & P);
    try (unfold nitems; simpl; lia).
  - repeat constructor; auto.
  - unfold rem, fuel_for in *; simpl in *; lia.
  - exists r, m'. split; auto. unfold holds_lt. destruct r; apply Z.leb_le; exact P.
Qed.

Theorem C17_le_model s1 s2 tie fuel :
  wf_sched s1 = true -> wf_sched s2 = true -> (fuel_for [s1; s2] <= fuel)%nat ->
  exists r m', cmp_le fuel (mkMs [s1; s2] []) 0 1 tie = Done (r, m') /\ holds_le [s1; s2] (OBool r) = true.
Proof.
  intros W1 W2 Hf.
  destruct (cmp_le_spec fuel (mkMs [s1; s2] []) 0 1 tie) as (r & m' & C & _ & P);
    try (unfold nitems; simpl; lia).
  - repeat constructor; auto.
  - unfold rem, fuel_for in *; simpl in *; lia.
  - exists r, m'. split; auto. unfold holds_le. rewrite P. apply eqb_reflx.
Qed.

(* ------------------------------------------------------------------ min_bounded *)

Lemma minb_loop_spec fuel : forall rest m best ties,
  wf_ms m -> (best < nitems m)%nat -> Forall (fun j => (j < nitems m)%nat) rest -> (rem m < fuel)%nat ->
  exists i m', minb_loop fuel m best rest ties = Done (i, m') /\ evolves m m' /\ (i < nitems m)%nat /\
               fin m i <= fin m best /\ Forall (fun j => fin m i <= fin m j) rest.
Proof.
  induction rest as [|b rest IH]; intros m best ties Hw Hb Hr Hf; simpl.
  - exists best, m. repeat split; auto using evolves_refl; try lia. apply evolves_refl.
  - inversion Hr; subst.
    destruct (cmp_lt_spec fuel m b best (hd false ties) Hw H1 Hb Hf) as (r & m1 & C & E & P).
    rewrite C. simpl.
    assert (L1 : nitems m1 = nitems m) by apply E.
    destruct (IH m1 (if r then b else best) (tl ties)) as (i & m' & R & E' & Hi & Pb & Pr).
    + apply E; auto.
    + rewrite L1. destruct r; auto.
    + rewrite L1. auto.
    + pose proof (ev_rem _ _ E). lia.
    + exists i, m'. split; auto. split; [eapply evolves_trans; eauto|]. split; [lia|].
      rewrite !(evolves_fin m m1) in * by auto.
      assert (Pr' : Forall (fun j => fin m i <= fin m j) rest).
      { eapply Forall_impl; [|exact Pr]. simpl. intros j. rewrite !(evolves_fin m m1) by auto. auto. }
      destruct r; repeat split; auto; try constructor; auto; lia.
Qed.

Lemma Forall_seq_lt a n : Forall (fun j => (j < a + n)%nat) (seq a n).
Proof. apply Forall_forall. intros x H. apply in_seq in H. lia. Qed.

Lemma is_min_final_intro items i :
  (i < length items)%nat -> (forall j, (j < length items)%nat -> fin_at items i <= fin_at items j) ->
  is_min_final items i = true.
Proof.
  intros Hi H. unfold is_min_final. apply andb_true_iff. split; [now apply Nat.ltb_lt|].
  apply forallb_forall. intros f Hf. apply Z.leb_le.
  destruct (In_nth _ _ 0 Hf) as (j & Hj & <-). unfold finals in Hj. rewrite map_length in Hj.
  apply (H j Hj).
Qed.

Theorem C17_min_model items ties fuel :
  Forall (fun s => wf_sched s = true) items -> (fuel_for items <= fuel)%nat ->
  exists r m', min_bounded fuel (mkMs items []) (seq 0 (length items)) ties = Done (r, m') /\
               holds_min items (OItem r) = true.
Proof.
  intros W Hf. destruct items as [|s items].
  - simpl. eexists _, _. split; reflexivity.
  - set (m := mkMs (s :: items) []).
    change (seq 0 (length (s :: items))) with (0%nat :: seq 1 (length items)).
    unfold min_bounded.
    destruct (minb_loop_spec fuel (seq 1 (length items)) m 0%nat ties) as (i & m' & R & E & Hi & Pb & Pr).
    + exact W.
    + unfold nitems; simpl; lia.
    + unfold nitems; simpl. apply (Forall_seq_lt 1).
    + unfold rem, fuel_for in *; simpl in *; lia.
    + rewrite R. simpl. exists (Some i), m'. split; auto. unfold holds_min.
      apply is_min_final_intro; [exact Hi|]. intros j Hj.
      destruct j; [exact Pb|]. rewrite Forall_forall in Pr. apply (Pr (S j)). apply in_seq. simpl in *. lia.
Qed.

(* ------------------------------------------------------------------ sort *)

Lemma mem_In i l : mem i l = true <-> In i l.
Proof.
  unfold mem. rewrite existsb_exists. split.
  - intros (x & Hx & E). apply Nat.eqb_eq in E. now subst.
  - intros H. exists i. split; auto. apply Nat.eqb_refl.
Qed.

Lemma remove1_perm i l : In i l -> Permutation (i :: remove1 i l) l.
Proof.
  induction l as [|h t IH]; simpl; [tauto|]. intros H.
  destruct (Nat.eqb_spec i h) as [->|N]; [reflexivity|].
  destruct H as [H|H]; [congruence|]. rewrite perm_swap. constructor. auto.
Qed.
Lemma remove1_In i j l : In j (remove1 i l) -> In j l.
Proof.
  induction l as [|h t IH]; simpl; auto. destruct (Nat.eqb i h); simpl; intuition.
Qed.

Lemma nondecreasing_snoc l x :
  nondecreasing l = true -> (forall y, In y l -> y <= x) -> nondecreasing (l ++ [x]) = true.
Proof.
  induction l as [|a [|b t] IH]; intros H P; simpl in *; auto.
  - rewrite andb_true_r. apply Z.leb_le. apply P; auto.
  - apply andb_true_iff in H as [H1 H2]. rewrite H1. simpl. apply IH; auto.
Qed.

Section Sort.
  Variable F : nat -> Z.

  Definition edges_sound (edges : list (nat * nat)) : Prop := forall a b, In (a, b) edges -> F a <= F b.

  Lemma reach_sound edges i : edges_sound edges -> forall n s,
    (forall j, In j s -> F i <= F j) -> forall j, In j (reach_iter n edges s) -> F i <= F j.
  Proof.
    intros Es. induction n; intros s Hs j Hj; simpl in *; auto.
    apply (IHn (reach_step edges s)); auto. intros k Hk. unfold reach_step in Hk.
    apply in_app_or in Hk as [Hk|Hk]; auto.
    apply in_map_iff in Hk as ([a b] & <- & Hk). apply filter_In in Hk as [Hk M]. simpl in *.
    apply mem_In in M. specialize (Hs a M). specialize (Es a b Hk). lia.
  Qed.

  Lemma justified_sound edges live i :
    edges_sound edges -> justified edges live i = true -> forall j, In j live -> F i <= F j.
  Proof.
    intros Es J j Hj. unfold justified in J. rewrite forallb_forall in J. specialize (J j Hj).
    apply mem_In in J. eapply reach_sound; eauto. simpl. intros k [<-|[]]. lia.
  Qed.

  Lemma sort_run_spec fuel : forall ops m live edges out,
    wf_ms m -> (forall i, fin m i = F i) -> Forall (fun j => (j < nitems m)%nat) live ->
    edges_sound edges -> (rem m < fuel)%nat ->
    nondecreasing (map F (rev out)) = true -> (forall x y, In x out -> In y live -> F x <= F y) ->
    match sort_run fuel m live edges ops out with
    | Done (l, m') => Permutation l (rev out ++ live) /\ nondecreasing (map F l) = true /\ evolves m m'
    | BadTrace => True
    | _ => False
    end.
  Proof.
    induction ops as [|o ops IH]; intros m live edges out Hw HF Hl Es Hf Hn Ho; simpl.
    - destruct live; auto. rewrite app_nil_r. auto using evolves_refl.
    - destruct o as [a b tie|i].
      + destruct (mem a live && mem b live) eqn:M; auto.
        apply andb_true_iff in M as [Ma Mb]. apply mem_In in Ma, Mb.
        rewrite Forall_forall in Hl.
        destruct (cmp_lt_spec fuel m a b tie Hw (Hl a Ma) (Hl b Mb) Hf) as (r & m1 & C & E & P).
        rewrite C. simpl.
        assert (L1 : nitems m1 = nitems m) by apply E.
        assert (IHm := IH m1 live ((if r then (a, b) else (b, a)) :: edges) out).
        assert (G : match sort_run fuel m1 live ((if r then (a, b) else (b, a)) :: edges) ops out with
                    | Done (l, m') => Permutation l (rev out ++ live) /\ nondecreasing (map F l) = true /\ evolves m1 m'
                    | BadTrace => True | _ => False end).
        { apply IHm; auto.
          - apply E; auto.
          - intros k; rewrite (evolves_fin m m1) by auto; auto.
          - apply Forall_forall; intros k Hk; rewrite L1; auto.
          - intros x y [Q|Q]; [|apply Es; auto]. rewrite !HF in P. destruct r; inversion Q; subst; auto.
          - pose proof (ev_rem _ _ E); lia. }
        destruct (sort_run fuel m1 live ((if r then (a, b) else (b, a)) :: edges) ops out) as [[l m']| | | | |]; auto.
        destruct G as (? & ? & ?). split; [auto|split; [auto|eapply evolves_trans; eauto]].
      + destruct (mem i live && justified edges live i) eqn:M; auto.
        apply andb_true_iff in M as [Mi J]. apply mem_In in Mi.
        pose proof (justified_sound edges live i Es J) as Jm.
        assert (G := IH m (remove1 i live) edges (i :: out) Hw HF).
        assert (G' : match sort_run fuel m (remove1 i live) edges ops (i :: out) with
                    | Done (l, m') => Permutation l (rev (i :: out) ++ remove1 i live) /\ nondecreasing (map F l) = true /\ evolves m m'
                    | BadTrace => True | _ => False end).
        { apply G; auto.
          - apply Forall_forall; intros k Hk; rewrite Forall_forall in Hl; apply Hl; eapply remove1_In; eauto.
          - simpl; rewrite map_app; simpl; apply nondecreasing_snoc; auto.
            intros y Hy; apply in_map_iff in Hy as (x & <- & Hx); apply in_rev in Hx; apply Ho; auto.
          - intros x y [<-|Hx] Hy; [apply Jm | apply Ho; auto]; eapply remove1_In; eauto. }
        destruct (sort_run fuel m (remove1 i live) edges ops (i :: out)) as [[l m']| | | | |]; auto.
        destruct G' as (P1 & P2 & P3). split; [|split; auto]. rewrite P1. simpl. rewrite <- app_assoc.
        apply Permutation_app_head. simpl. now apply remove1_perm.
  Qed.
End Sort.

Lemma perm_seq_bool n l : Permutation l (seq 0 n) -> is_perm_of_seq n l = true.
Proof.
  intros P. unfold is_perm_of_seq. apply andb_true_iff. split.
  - apply Nat.eqb_eq. rewrite (Permutation_length P). apply seq_length.
  - apply forallb_forall. intros i Hi. apply (mem_In i l). eapply Permutation_in; [symmetry; exact P|exact Hi].
Qed.

(* partial: the Fibonacci heap inside bounds.sort is a validated oracle here.  For every sequence of key
   comparisons and pops (ops) the heap may perform - each pop being accepted only when the comparison outcomes
   so far imply that the popped item is a minimum of what is left - the result is a permutation of the input in
   non-decreasing final order, and the comparisons never run out of fuel.  The full statement - the real
   graphtage.fibonacci.FibonacciHeap driven by the auto-tightening comparator, no heap oracle - is
   SortProofs.C17_sort_model; this lemma is kept because corr_C17 still validates the observed trace with it
   (BadTrace fails corr_C17). *)
Theorem C17_sort_partial_model items ops fuel :
  Forall (fun s => wf_sched s = true) items -> (fuel_for items <= fuel)%nat ->
  match sort_model fuel (mkMs items []) (seq 0 (length items)) ops with
  | Done (l, m') => holds_sort items (OList l) = true
  | BadTrace => True
  | _ => False
  end.
Proof.
  intros W Hf. unfold sort_model.
  pose proof (sort_run_spec (fin_at items) fuel ops (mkMs items []) (seq 0 (length items)) [] []) as S.
  destruct (sort_run fuel (mkMs items []) (seq 0 (length items)) [] ops []) as [[l m']| | | | |];
    try (apply S; auto; try (apply (Forall_seq_lt 0)); try (intros a b []); try (intros x y []);
         unfold rem, fuel_for in *; simpl in *; lia).
  destruct S as (P & N & _); auto.
  - apply (Forall_seq_lt 0).
  - intros a b [].
  - unfold rem, fuel_for in *; simpl in *; lia.
  - intros x y [].
  - unfold holds_sort. simpl in P. rewrite (perm_seq_bool _ _ P), N. reflexivity.
Qed.

(* ------------------------------------------------------------------ IterativeTighteningSearch: heaps *)

Definition ids (h : heap) : list nat := map fst h.

Lemma In_hpush h x y : In y (hpush h x) <-> y = x \/ In y h.
Proof.
  unfold hpush. destruct h as [|z r]; simpl; [intuition|].
  destruct (range_ltb (snd x) (snd z)); simpl; intuition.
Qed.
Lemma ids_hpush_perm h x : Permutation (ids (hpush h x)) (fst x :: ids h).
Proof.
  unfold hpush. destruct h as [|z r]; simpl; auto.
  destruct (range_ltb (snd x) (snd z)); simpl; auto. apply perm_swap.
Qed.
Lemma ids_hremove i h : ids (hremove i h) = remove1 i (ids h).
Proof.
  induction h as [|y r IH]; simpl; auto. rewrite Nat.eqb_sym.
  destruct (Nat.eqb i (fst y)); simpl; auto. now rewrite IH.
Qed.
Lemma In_hremove i h y : In y (hremove i h) -> In y h.
Proof. induction h as [|z r IH]; simpl; auto. destruct (Nat.eqb (fst z) i); simpl; intuition. Qed.

Lemma pick_min_cases h c : pick_min h c = h \/ exists y, In y h /\ pick_min h c = y :: hremove (fst y) h.
Proof.
  unfold pick_min.
  set (d := find (fun y => range_eqb (snd y) (min_key h)) h).
  assert (D : forall o, o = d -> match o with Some y => y :: hremove (fst y) h | None => h end = h \/
            exists y, In y h /\ match o with Some y => y :: hremove (fst y) h | None => h end = y :: hremove (fst y) h).
  { intros [y|] E; auto. right. exists y. split; auto. symmetry in E. now apply find_some in E. }
  destruct c as [c|]; [|now apply D].
  destruct (find (fun y => Nat.eqb (fst y) c && range_eqb (snd y) (min_key h)) h) as [y|] eqn:E; [|now apply D].
  right. exists y. split; auto. now apply find_some in E.
Qed.
Lemma In_pick_min h c y : In y (pick_min h c) -> In y h.
Proof.
  destruct (pick_min_cases h c) as [->|(z & Hz & ->)]; auto.
  intros [<-|H]; auto. eapply In_hremove; eauto.
Qed.
Lemma ids_pick_min_perm h c : Permutation (ids (pick_min h c)) (ids h).
Proof.
  destruct (pick_min_cases h c) as [->|(z & Hz & ->)]; auto.
  simpl. rewrite ids_hremove. apply remove1_perm. unfold ids. now apply in_map.
Qed.

Lemma pop_unt_spec s x rest :
  unt s = x :: rest ->
  unp (pop_unt s) = unp s /\ tig (pop_unt s) = tig s /\
  (forall y, In y (unt (pop_unt s)) -> In y rest) /\ Permutation (ids (unt (pop_unt s))) (ids rest).
Proof.
  intros E. unfold pop_unt. rewrite E. destruct rest as [|z r]; simpl; auto.
  repeat split; auto. - intros y. apply In_pick_min. - apply ids_pick_min_perm.
Qed.

(* fold of min over key lower bounds, as in bounds() *)
Lemma fold_min_le l : forall init y, In y l ->
  rle (fold_left (fun lb (y : nat * range) => rv_min (lo (snd y)) lb) l init) (lo (snd y)).
Proof.
  assert (M : forall l init, rle (fold_left (fun lb (y : nat * range) => rv_min (lo (snd y)) lb) l init) init).
  { induction l0 as [|z r IH]; intros init; simpl; [apply rle_refl|].
    eapply rle_trans; [apply IH|apply rv_min_le_r]. }
  induction l as [|z r IH]; intros init y H; simpl in *; [tauto|].
  destruct H as [<-|H]; auto.
  eapply rle_trans; [apply M|apply rv_min_le_l].
Qed.
Lemma fold_min_glb c l : forall init, rle c init -> (forall y, In y l -> rle c (lo (snd y))) ->
  rle c (fold_left (fun lb (y : nat * range) => rv_min (lo (snd y)) lb) l init).
Proof.
  induction l as [|z r IH]; intros init Hi H; simpl; auto.
  apply IH; [apply rv_min_glb; auto; apply H; simpl; auto | intros; apply H; simpl; auto].
Qed.

Lemma range_ltb_point a b : range_ltb (point a) (point b) = (a <? b).
Proof. unfold range_ltb, point; simpl. destruct (a <? b); simpl; auto. apply andb_false_r. Qed.

Lemma tighten_true m i t m' :
  wf_ms m -> (i < nitems m)%nat -> definitive (bounds m i) = false -> tighten m i = (t, m') -> t = true.
Proof.
  intros W Hi D T. destruct t; auto. destruct (tighten_spec _ _ _ _ T) as (_ & _ & _ & Hf).
  destruct (Hf eq_refl) as [_ H]. rewrite H in D by auto. discriminate.
Qed.
Lemma tighten_other m i t m' j : tighten m i = (t, m') -> j <> i -> bounds m' j = bounds m j.
Proof. intros T N. destruct (tighten_spec _ _ _ _ T) as (_ & _ & H & _). unfold bounds. rewrite H by auto. reflexivity. Qed.

Lemma nodup_app_r {A} (l1 l2 : list A) : NoDup (l1 ++ l2) -> NoDup l2.
Proof. induction l1; simpl; auto. intros H. inversion H; auto. Qed.

Section Search.
  Variable F : nat -> Z.
  Variable n : nat.

  Definition unp_ids (s : sst) : list nat := match unp s with Some l => l | None => [] end.
  Definition live (s : sst) : list nat := unp_ids s ++ ids (unt s) ++ ids (tig s).

  (* every input item is dominated (in final value) by an item still in play *)
  Record linv (L : list nat) : Prop := {
    l_lt : forall i, In i L -> (i < n)%nat;
    l_nd : NoDup L;
    l_dom : forall i, (i < n)%nat -> exists j, In j L /\ F j <= F i
  }.

  Lemma linv_perm L L' : Permutation L L' -> linv L -> linv L'.
  Proof.
    intros P [A B C]. constructor.
    - intros i Hi. apply A. eapply Permutation_in; [symmetry; exact P|exact Hi].
    - eapply Permutation_NoDup; eauto.
    - intros i Hi. destruct (C i Hi) as (j & Hj & Le). exists j. split; auto. eapply Permutation_in; eauto.
  Qed.

  Lemma linv_drop L1 i L2 :
    linv (L1 ++ i :: L2) -> (exists b, In b (L1 ++ L2) /\ F b <= F i) -> linv (L1 ++ L2).
  Proof.
    intros [A B C] (b & Hb & Le). constructor.
    - intros j Hj. apply A. apply in_app_or in Hj. apply in_or_app. simpl. tauto.
    - eapply NoDup_remove_1; eauto.
    - intros k Hk. destruct (C k Hk) as (j & Hj & Lj).
      apply in_app_or in Hj as [Hj|[<-|Hj]].
      + exists j. split; auto. apply in_or_app; auto.
      + exists b. split; auto. lia.
      + exists j. split; auto. apply in_or_app; auto.
  Qed.

  Record minv (m : ms) : Prop := { m_wf : wf_ms m; m_n : nitems m = n; m_F : forall i, fin m i = F i }.

  Lemma minv_evolves m m' : minv m -> evolves m m' -> minv m'.
  Proof.
    intros [A B C] E. constructor.
    - apply E; auto.
    - rewrite (ev_len _ _ E); auto.
    - intros i. rewrite (evolves_fin m m') by auto. auto.
  Qed.

  Record hinv (m : ms) (U T : heap) : Prop := {
    h_key : forall x, In x (U ++ T) -> rle (lo (snd x)) (Fin (F (fst x)));
    h_tig : forall x, In x T -> snd x = point (F (fst x)) /\ bounds m (fst x) = point (F (fst x));
    h_tmin : forall x r y, T = x :: r -> In y T -> F (fst x) <= F (fst y);
    h_unt : forall x, In x U -> definitive (bounds m (fst x)) = false
  }.

  Definition sinv (s : sst) (m : ms) : Prop := linv (live s) /\ minv m /\ hinv m (unt s) (tig s).

  Lemma hinv_nil m : hinv m [] [].
  Proof. constructor; simpl; try tauto; intros; discriminate. Qed.

  (* U' may contain, besides entries of U, one sound non-definitive entry y *)
  Lemma hinv_unt_ext m U T U' y :
    hinv m U T -> (forall x, In x U' -> x = y \/ In x U) ->
    rle (lo (snd y)) (Fin (F (fst y))) -> definitive (bounds m (fst y)) = false -> hinv m U' T.
  Proof.
    intros [A B C D] S Ky Dy. constructor; auto.
    - intros x Hx. apply in_app_or in Hx as [Hx|Hx]; [|apply A; apply in_or_app; auto].
      destruct (S x Hx) as [->|Hx']; auto. apply A; apply in_or_app; auto.
    - intros x Hx. destruct (S x Hx) as [->|Hx']; auto.
  Qed.
  Lemma hinv_unt_sub m U T U' : hinv m U T -> (forall x, In x U' -> In x U) -> hinv m U' T.
  Proof.
    intros [A B C D] S. constructor; auto.
    intros x Hx. apply A. apply in_app_or in Hx as [Hx|Hx]; apply in_or_app; auto.
  Qed.

  Lemma hinv_tig_push m U T i :
    minv m -> hinv m U T -> (i < n)%nat -> definitive (bounds m i) = true ->
    hinv m U (hpush T (i, bounds m i)).
  Proof.
    intros [W N Fm] [A B C D] Hi Df.
    assert (P : bounds m i = point (F i)).
    { rewrite <- Fm. apply definitive_bounds; auto. lia. }
    constructor; auto.
    - intros x Hx. apply in_app_or in Hx as [Hx|Hx]; [apply A; apply in_or_app; auto|].
      apply In_hpush in Hx as [->|Hx]; [|apply A; apply in_or_app; auto].
      simpl. rewrite P. simpl. apply rle_refl.
    - intros x Hx. apply In_hpush in Hx as [->|Hx]; auto.
    - intros x r y E Hy. rewrite P in *. unfold hpush in E, Hy. destruct T as [|z t].
      + inversion E; subst. destruct Hy as [<-|[]]. lia.
      + destruct (B z (or_introl eq_refl)) as [Kz _].
        simpl in E, Hy. rewrite Kz, range_ltb_point in E, Hy.
        assert (Cz : forall y, In y (z :: t) -> F (fst z) <= F (fst y)) by (intros; eapply C; eauto).
        destruct (Z.ltb_spec (F i) (F (fst z))); inversion E; subst; simpl in *.
        * destruct Hy as [<-|Hy]; simpl; [lia|]. specialize (Cz y Hy). lia.
        * destruct Hy as [<-|[<-|Hy]]; simpl; try lia; apply Cz; auto.
  Qed.

  Lemma hinv_unt_push m U T i :
    minv m -> hinv m U T -> (i < n)%nat -> definitive (bounds m i) = false ->
    hinv m (hpush U (i, bounds m i)) T.
  Proof.
    intros [W N Fm] H Hi Df. eapply hinv_unt_ext with (y := (i, bounds m i)); eauto.
    - intros x Hx. now apply In_hpush in Hx.
    - simpl. rewrite <- Fm. apply inrange; auto. lia.
  Qed.

  Definition mu (s : sst) (m : ms) : nat :=
    (rem m + match unp s with Some l => S (length l) | None => 0 end)%nat.

  Lemma push_item_inv s m x rest :
    sinv s m -> unp s = Some (x :: rest) ->
    sinv (push_item (mkS (Some rest) (unt s) (tig s) (hints s)) m x) m.
  Proof.
    intros (L & M & H) E.
    assert (Lx : live s = x :: rest ++ ids (unt s) ++ ids (tig s))
      by (unfold live, unp_ids; rewrite E; reflexivity).
    assert (Hx : (x < n)%nat) by (apply L; rewrite Lx; left; auto).
    unfold push_item. destruct (definitive (bounds m x)) eqn:D; (split; [|split; auto]).
    - eapply linv_perm; [|exact L]. rewrite Lx. unfold live, unp_ids; simpl.
      rewrite !app_assoc. etransitivity; [apply Permutation_middle|]. apply Permutation_app_head.
      symmetry. apply ids_hpush_perm.
    - simpl. apply hinv_tig_push; auto.
    - eapply linv_perm; [|exact L]. rewrite Lx. unfold live, unp_ids; simpl.
      etransitivity; [apply Permutation_middle|]. apply Permutation_app_head.
      change (x :: ids (unt s) ++ ids (tig s)) with ((x :: ids (unt s)) ++ ids (tig s)).
      apply Permutation_app_tail. symmetry. apply (ids_hpush_perm (unt s) (x, bounds m x)).
    - simpl. apply hinv_unt_push; auto.
  Qed.

  Lemma unp_done_inv s m : sinv s m -> unp s = Some [] -> sinv (mkS None (unt s) (tig s) (hints s)) m.
  Proof. unfold sinv, live, unp_ids. intros H E. rewrite E in H. exact H. Qed.

  Lemma hinv_tighten_head m m' t i k rest T :
    hinv m ((i, k) :: rest) T -> NoDup (i :: ids rest ++ ids T) -> tighten m i = (t, m') ->
    hinv m' rest T /\ rle (lo k) (Fin (F i)).
  Proof.
    intros [A B C D] ND Tg. split; [|apply (A (i, k)); left; auto].
    inversion ND as [|? ? Ni ND']; subst. constructor; auto.
    - intros x Hx. apply A. right. auto.
    - intros x Hx. destruct (B x Hx) as [K Bd]. split; auto.
      rewrite (tighten_other _ _ _ _ _ Tg); auto.
      intros Q. apply Ni. rewrite <- Q. apply in_or_app. right. unfold ids. now apply in_map.
    - intros x Hx. rewrite (tighten_other _ _ _ _ _ Tg); [apply D; right; auto|].
      intros Q. apply Ni. rewrite <- Q. apply in_or_app. left. unfold ids. now apply in_map.
  Qed.

  Lemma not_init_dominates m i : minv m -> (i < n)%nat -> dominates init_bounds (bounds m i) = false.
  Proof.
    intros [W N Fm] Hi. destruct (dominates init_bounds (bounds m i)) eqn:D; auto.
    apply dominates_iff in D. simpl in D. destruct (inrange m i W) as [A _]; [lia|].
    pose proof (rle_trans _ _ _ D A) as X. unfold rle in X. discriminate.
  Qed.

  Lemma update_bounds_inv s m m' t i k rest :
    sinv s m -> unt s = (i, k) :: rest -> tighten m i = (t, m') ->
    sinv (update_bounds s m' i k) m' /\ unp (update_bounds s m' i k) = unp s.
  Proof.
    intros (L & M & H) E Tg.
    destruct (tighten_spec _ _ _ _ Tg) as (Ev & _).
    assert (M' : minv m') by (eapply minv_evolves; eauto).
    set (L1 := unp_ids s).
    assert (Lx : live s = L1 ++ i :: ids rest ++ ids (tig s))
      by (unfold live, L1; rewrite E; reflexivity).
    assert (Hi : (i < n)%nat) by (apply L; rewrite Lx; apply in_or_app; right; left; auto).
    assert (ND : NoDup (i :: ids rest ++ ids (tig s))).
    { pose proof (l_nd _ L) as X. rewrite Lx in X. apply nodup_app_r in X. exact X. }
    rewrite E in H. destruct (hinv_tighten_head _ _ _ _ _ _ _ H ND Tg) as (H' & Kk).
    destruct (pop_unt_spec s (i, k) rest E) as (P1 & P2 & P3 & P4).
    assert (Lpop : linv (L1 ++ i :: ids (unt (pop_unt s)) ++ ids (tig s))).
    { eapply linv_perm; [|exact L]. rewrite Lx. apply Permutation_app_head. constructor.
      apply Permutation_app_tail. symmetry. exact P4. }
    assert (Hpop : hinv m' (unt (pop_unt s)) (tig s)) by (eapply hinv_unt_sub; eauto).
    assert (Upop : unp_ids (pop_unt s) = L1) by (unfold unp_ids, L1; rewrite P1; auto).
    unfold update_bounds.
    destruct (match best_match s m' with
              | Some b => negb (Nat.eqb b i) && dominates (bounds m' b) (bounds m' i)
              | None => false end) eqn:Dm.
    - (* dominated by the current best match: the node is deleted *)
      split; [|rewrite P1; auto]. split; [|split; auto; rewrite P2; auto].
      unfold live. rewrite Upop, P2.
      apply (linv_drop L1 i). { exact Lpop. }
      destruct (best_match s m') as [b|] eqn:Bm; [|discriminate].
      apply andb_true_iff in Dm as [Nb Db]. apply negb_true_iff in Nb. apply Nat.eqb_neq in Nb.
      unfold best_match in Bm. destruct (unp s) eqn:Eu; [discriminate|]. rewrite E in Bm.
      destruct (tig s) as [|[t0 k0] tr] eqn:Et; [inversion Bm; congruence|].
      assert (b = t0) by (destruct (range_ltb (bounds m' i) (bounds m' t0)); inversion Bm; congruence). subst b.
      exists t0. split; [apply in_or_app; right; apply in_or_app; right; simpl; auto|].
      assert (Ht : (t0 < n)%nat).
      { apply L; rewrite Lx; apply in_or_app; right; right; apply in_or_app; right; simpl; auto. }
      destruct M' as [W' N' F']. rewrite <- !F'. apply dom_fin; auto; lia.
    - rewrite not_init_dominates by auto.
      destruct (definitive (bounds m' i)) eqn:Df; [|destruct (rv_ltb (lo k) (lo (bounds m' i))) eqn:Lw].
      + (* became definitive: moved to _tightened *)
        split; [|simpl; rewrite P1; auto]. split; [|split; auto].
        * unfold live, unp_ids. cbn [unp unt tig]. rewrite P1, P2. fold (unp_ids s). fold L1.
          eapply linv_perm; [|exact Lpop]. apply Permutation_app_head.
          etransitivity; [apply Permutation_middle|].
          apply Permutation_app_head. symmetry. apply (ids_hpush_perm (tig s) (i, bounds m' i)).
        * simpl. rewrite P2. apply hinv_tig_push; auto.
      + (* lower bound increased: re-pushed with a fresh key *)
        split; [|simpl; rewrite P1; auto]. split; [|split; auto].
        * unfold live, unp_ids. cbn [unp unt tig]. rewrite P1, P2. fold (unp_ids s). fold L1.
          eapply linv_perm; [|exact Lpop]. apply Permutation_app_head.
          change (i :: ids (unt (pop_unt s)) ++ ids (tig s)) with ((i :: ids (unt (pop_unt s))) ++ ids (tig s)).
          apply Permutation_app_tail. symmetry.
          apply (ids_hpush_perm (unt (pop_unt s)) (i, bounds m' i)).
        * simpl. rewrite P2. apply hinv_unt_push; auto.
      + (* key left as it is *)
        split; auto. split; [exact L|split; auto]. rewrite E.
        apply (hinv_unt_ext m' rest (tig s) ((i, k) :: rest) (i, k) H'); auto.
        simpl. intros x [<-|Hx]; auto.
  Qed.

  Lemma live_none s : unp s = None -> live s = ids (unt s ++ tig s).
  Proof. intros E. unfold live, unp_ids, ids. rewrite E, map_app. reflexivity. Qed.

  Lemma rle_neginf a : rle NegInf a. Proof. unfold rle; destruct a; reflexivity. Qed.

  Lemma best_match_live s m b : best_match s m = Some b -> unp s = None /\ In b (live s).
  Proof.
    unfold best_match. destruct (unp s) eqn:Eu; [discriminate|]. intros H. split; auto.
    unfold live, unp_ids. rewrite Eu. simpl.
    destruct (unt s) as [|[u ku] ur], (tig s) as [|[t kt] tr]; try discriminate; simpl.
    - inversion H; auto.
    - inversion H; auto.
    - destruct (range_ltb (bounds m u) (bounds m t)); inversion H; subst; auto.
      right. apply in_or_app. right. simpl; auto.
  Qed.

  (* goal_test is sound: the best match is a minimum of everything still in play *)
  Lemma goal_sound s m :
    sinv s m -> goal_test s m = true ->
    exists b, best_match s m = Some b /\ unp s = None /\ In b (live s) /\ forall j, In j (live s) -> F b <= F j.
  Proof.
    intros (L & M & H) G. unfold goal_test in G. destruct (unp s) eqn:Eu; [discriminate|].
    destruct (best_match s m) as [b|] eqn:Bm; [|discriminate].
    destruct (best_match_live _ _ _ Bm) as [_ Hb].
    exists b. repeat split; auto. intros j Hj.
    unfold sbounds in G. rewrite Bm in G.
    set (lb0 := fold_left (fun lb (y : nat * range) => rv_min (lo (snd y)) lb) (unt s ++ tig s) PosInf) in *.
    set (lb := if rv_eqb lb0 PosInf || rv_ltb lb0 (lo init_bounds) then lo init_bounds else lb0) in *.
    apply dominates_iff in G. simpl in G.
    assert (G1 : rle (hi (bounds m b)) lb) by (eapply rle_trans; [exact G|apply rv_min_le_l]).
    rewrite live_none in Hj by auto. unfold ids in Hj. apply in_map_iff in Hj as (y & <- & Hy).
    assert (G2 : rle lb (lo (snd y))).
    { unfold lb. destruct (rv_eqb lb0 PosInf || rv_ltb lb0 (lo init_bounds)); [apply rle_neginf|].
      unfold lb0. now apply fold_min_le. }
    destruct M as [W N Fm]. destruct (inrange m b W) as [_ B]; [rewrite N; apply L; auto|].
    rewrite Fm in B. apply rle_fin.
    eapply rle_trans; [exact B|]. eapply rle_trans; [exact G1|]. eapply rle_trans; [exact G2|].
    apply H. exact Hy.
  Qed.

  Lemma goal_state_inv s m b ret m3 h :
    sinv s m -> In b (live s) -> (forall j, In j (live s) -> F b <= F j) -> tighten m b = (ret, m3) ->
    sinv (push_item (mkS None [] [] h) m3 b) m3.
  Proof.
    intros (L & M & H) Hb Mn Tg.
    destruct (tighten_spec _ _ _ _ Tg) as (Ev & _).
    assert (M3 : minv m3) by (eapply minv_evolves; eauto).
    assert (Hn : (b < n)%nat) by (apply L; auto).
    assert (L1 : linv [b]).
    { constructor.
      - intros i [<-|[]]; auto.
      - repeat constructor. simpl; tauto.
      - intros i Hi. destruct (l_dom _ L i Hi) as (j & Hj & Le). exists b. split; [left; auto|].
        specialize (Mn j Hj). lia. }
    unfold push_item. destruct (definitive (bounds m3 b)) eqn:D; (split; [|split; auto]); simpl; auto.
    - apply (hinv_tig_push m3 [] [] b); auto using hinv_nil.
    - apply (hinv_unt_push m3 [] [] b); auto using hinv_nil.
  Qed.

  Lemma len1_inv s m u k t m' :
    sinv s m -> unp s = None -> unt s = [(u, k)] -> tighten m u = (t, m') ->
    sinv (if t && definitive (bounds m' u)
          then mkS (unp s) [] (hpush (tig s) (u, bounds m' u)) (hints s) else s) m'.
  Proof.
    intros (L & M & H) Eu E Tg.
    destruct (tighten_spec _ _ _ _ Tg) as (Ev & _ & _ & Tf).
    assert (M' : minv m') by (eapply minv_evolves; eauto).
    assert (Lx : live s = u :: ids (tig s)) by (unfold live, unp_ids; rewrite Eu, E; reflexivity).
    assert (Hu : (u < n)%nat) by (apply L; rewrite Lx; left; auto).
    assert (Du : definitive (bounds m u) = false) by (apply (h_unt _ _ _ H (u, k)); rewrite E; left; auto).
    rewrite E in H.
    destruct (hinv_tighten_head _ _ _ _ _ _ _ H ltac:(simpl; rewrite <- Lx; apply L) Tg) as (H' & Kk).
    destruct (t && definitive (bounds m' u)) eqn:C.
    - apply andb_true_iff in C as [_ Df]. split; [|split; auto].
      + unfold live, unp_ids. simpl. rewrite Eu. simpl. eapply linv_perm; [|exact L]. rewrite Lx.
        symmetry. apply (ids_hpush_perm (tig s) (u, bounds m' u)).
      + simpl. apply hinv_tig_push; auto.
    - split; [exact L|split; auto]. rewrite E.
      apply (hinv_unt_ext m' [] (tig s) [(u, k)] (u, k) H'); auto.
      + simpl. intros x [<-|[]]; auto.
      + simpl. apply andb_false_iff in C as [->|C]; auto.
        destruct (Tf eq_refl) as [I _]. rewrite (bounds_its m m') by auto. exact Du.
  Qed.

  Lemma goal_when_unt_empty s m x r :
    sinv s m -> unp s = None -> unt s = [] -> tig s = x :: r -> goal_test s m = true.
  Proof.
    intros (L & M & H) Eu E Et. unfold goal_test. rewrite Eu.
    assert (Bm : best_match s m = Some (fst x)).
    { unfold best_match. rewrite Eu, E, Et. destruct x; reflexivity. }
    rewrite Bm. unfold sbounds. rewrite Bm, E. simpl.
    destruct (h_tig _ _ _ H x) as [Kx Bx]; [rewrite Et; left; auto|]. rewrite Bx.
    set (lb0 := fold_left (fun lb (y : nat * range) => rv_min (lo (snd y)) lb) (tig s) PosInf).
    assert (A : rle lb0 (Fin (F (fst x)))).
    { replace (Fin (F (fst x))) with (lo (snd x)) by (rewrite Kx; reflexivity).
      apply fold_min_le. rewrite Et; left; auto. }
    assert (B : rle (Fin (F (fst x))) lb0).
    { apply fold_min_glb; [reflexivity|]. intros y Hy. destruct (h_tig _ _ _ H y Hy) as [Ky _].
      rewrite Ky. simpl. apply rle_fin. eapply (h_tmin _ _ _ H); eauto. }
    rewrite (rle_antisym _ _ A B). simpl. apply dominates_iff. simpl.
    unfold rv_min. simpl. rewrite Z.ltb_irrefl. apply rle_refl.
  Qed.

  Definition stb_post (start : range) (s : sst) (m : ms) (res : stb_result) : Prop :=
    exists r s' m', res = Done (r, s', m') /\ sinv s' m' /\ evolves m m' /\ (mu s' m' <= mu s m)%nat /\
      (r = true -> (mu s' m' < mu s m)%nat \/ start <> sbounds s m \/ (unp s' = None /\ unt s' = [])) /\
      (r = false -> unp s' = None /\ unt s' = []).

  Lemma rv_ltb_irrefl a : rv_ltb a a = false.
  Proof. destruct a; simpl; auto. apply Z.ltb_irrefl. Qed.

  Lemma stb_finish_spec k start s0 m0 s' m' tightened :
    sinv s' m' -> evolves m0 m' -> (mu s' m' <= mu s0 m0)%nat ->
    ((mu s' m' < mu s0 m0)%nat \/ (s' = s0 /\ m' = m0)) ->
    (tightened = true \/ unp s' <> None -> (mu s' m' < mu s0 m0)%nat) ->
    (tightened = false -> unt s' = []) ->
    ((mu s' m' < mu s0 m0)%nat -> stb_post start s' m' (k s' m')) ->
    stb_post start s0 m0 (stb_finish k start s' m' tightened).
  Proof.
    intros I E Le Pr Hp Hu Hk. unfold stb_finish.
    destruct (rv_ltb (lo start) (lo (sbounds s' m')) || rv_ltb (hi (sbounds s' m')) (hi start)) eqn:C1.
    - exists true, s', m'. split; [reflexivity|]. split; [auto|]. split; [auto|]. split; [auto|].
      split; [|discriminate].
      intros _. destruct Pr as [Pr|[E1 E2]]; auto. right. left. intros X. subst.
      rewrite !rv_ltb_irrefl in C1. discriminate.
    - destruct (is_none (unp s') && negb tightened) eqn:C2.
      + apply andb_true_iff in C2 as [N T]. apply negb_true_iff in T.
        exists false, s', m'. split; [reflexivity|]. split; [auto|]. split; [auto|]. split; [auto|].
        split; [discriminate|]. intros _. split; auto.
        destruct (unp s'); [discriminate|reflexivity].
      + assert (Lt : (mu s' m' < mu s0 m0)%nat).
        { apply Hp. apply andb_false_iff in C2 as [C2|C2].
          - right. intros X. rewrite X in C2. discriminate.
          - left. destruct tightened; auto. }
        destruct (Hk Lt) as (r & s'' & m'' & R & I' & E' & Le' & Pt & Pf).
        exists r, s'', m''. split; auto. split; auto. split; [eapply evolves_trans; eauto|].
        split; [lia|]. split; auto. intros _. left. lia.
  Qed.

  Lemma unp_push_item s m x : unp (push_item s m x) = unp s.
  Proof. unfold push_item. destruct (definitive (bounds m x)); reflexivity. Qed.

  Lemma stb_pull_spec s m :
    sinv s m ->
    sinv (stb_pull s m) m /\ (unp s = None -> stb_pull s m = s) /\
    (unp s <> None -> (mu (stb_pull s m) m < mu s m)%nat) /\
    (unp (stb_pull s m) <> None -> unp s <> None).
  Proof.
    intros I. unfold stb_pull. destruct (unp s) as [[|x rest]|] eqn:Eu.
    - split; [apply unp_done_inv; auto|]. split; [discriminate|]. split; [|intros _; discriminate].
      intros _. unfold mu. rewrite Eu. simpl. lia.
    - split; [apply push_item_inv; auto|]. split; [discriminate|]. split; [|intros _; discriminate].
      intros _. unfold mu. rewrite unp_push_item, Eu. simpl. lia.
    - split; [auto|]. split; [auto|]. split; [congruence|]. rewrite Eu. auto.
  Qed.

  Lemma stb_len1_spec s1 m :
    sinv s1 m -> unp s1 = None -> unt s1 <> [] ->
    sinv (fst (stb_len1 s1 m)) (snd (stb_len1 s1 m)) /\ evolves m (snd (stb_len1 s1 m)) /\
    unp (fst (stb_len1 s1 m)) = None /\ (unt (fst (stb_len1 s1 m)) = [] -> tig (fst (stb_len1 s1 m)) <> []).
  Proof.
    intros I Eu Ne. unfold stb_len1. destruct (unt s1) as [|[u k] [|z r]] eqn:E; [congruence| |].
    - destruct (tighten m u) as [t m'] eqn:Tg.
      pose proof (len1_inv s1 m u k t m' I Eu E Tg) as I'.
      destruct (tighten_spec _ _ _ _ Tg) as (Ev & _).
      destruct (t && definitive (bounds m' u)); simpl in *.
      + split; [auto|]. split; [auto|]. split; [auto|].
        intros _. unfold hpush. destruct (tig s1) as [|y q]; [discriminate|]. simpl.
        destruct (range_ltb (bounds m' u) (snd y)); discriminate.
      + split; [auto|]. split; [auto|]. split; [auto|]. rewrite E. discriminate.
    - simpl. split; [auto|]. split; [apply evolves_refl|]. split; [auto|]. rewrite E. discriminate.
  Qed.

  Lemma mu_none s m : unp s = None -> mu s m = rem m.
  Proof. intros E. unfold mu. rewrite E. lia. Qed.

  Lemma stb_body_spec k start s m :
    sinv s m ->
    (forall s' m', sinv s' m' -> (mu s' m' < mu s m)%nat -> stb_post start s' m' (k s' m')) ->
    stb_post start s m (stb_body k start s m).
  Proof.
    intros I Hk. unfold stb_body. cbv zeta.
    destruct (stb_pull_spec s m I) as (I1 & Psame & Plt & Pnn).
    set (s1 := stb_pull s m) in *.
    assert (Le1 : (mu s1 m <= mu s m)%nat).
    { destruct (unp s) eqn:Eu; [apply Nat.lt_le_incl, Plt; discriminate|]. rewrite Psame; auto. }
    destruct (unt s1) as [|[u ku] urest] eqn:Eu1.
    - (* nothing left to tighten *)
      apply stb_finish_spec; [exact I1 | apply evolves_refl | exact Le1 | | | auto | ].
      + destruct (unp s) eqn:Eu; [left; apply Plt; discriminate|right; split; auto].
      + intros [X|X]; [discriminate|]. apply Plt. apply Pnn. exact X.
      + intros Lt. apply Hk; auto.
    - destruct (unp s1) eqn:Ep; cbn [is_none andb].
      + (* still pulling from the input: tighten heap._min *)
        assert (Lt1 : (mu s1 m < mu s m)%nat) by (apply Plt, Pnn; discriminate).
        rewrite Eu1. destruct (tighten m u) as [t m3] eqn:Tg.
        destruct I1 as (L1 & M1 & H1).
        assert (Hu : (u < n)%nat).
        { apply L1. unfold live. rewrite Eu1. apply in_or_app. right. simpl. auto. }
        assert (Tt : t = true).
        { apply (tighten_true m u t m3); [apply M1 | rewrite (m_n _ M1); auto | | exact Tg].
          apply (h_unt _ _ _ H1 (u, ku)). rewrite Eu1. simpl; auto. }
        subst t. destruct (tighten_spec _ _ _ _ Tg) as (Ev & Rm & _).
        destruct (update_bounds_inv s1 m m3 true u ku urest (conj L1 (conj M1 H1)) Eu1 Tg) as (I3 & U3).
        assert (Mu3 : (mu (update_bounds s1 m3 u ku) m3 < mu s1 m)%nat).
        { unfold mu. rewrite U3. lia. }
        apply stb_finish_spec; [exact I3 | exact Ev | lia | left; lia | intros _; lia | discriminate | ].
        intros Lt. apply Hk; auto.
      + (* input exhausted *)
        destruct (stb_len1_spec s1 m I1 Ep ltac:(rewrite Eu1; discriminate)) as (I2 & E2 & U2 & T2).
        destruct (stb_len1 s1 m) as [s2 m2]. simpl in I2, E2, U2, T2.
        assert (Le2 : (mu s2 m2 <= mu s1 m)%nat).
        { rewrite !mu_none by auto. apply E2. }
        destruct (goal_test s2 m2) eqn:G.
        * (* goal reached: everything else is discarded *)
          destruct (goal_sound s2 m2 I2 G) as (b & Bm & _ & Hb & Mn). rewrite Bm.
          destruct (tighten m2 b) as [ret m3] eqn:Tg. rewrite U2.
          destruct (tighten_spec _ _ _ _ Tg) as (Ev & Rm & _ & Tf).
          pose proof (goal_state_inv s2 m2 b ret m3 (hints s2) I2 Hb Mn Tg) as I3.
          assert (U3 : unp (push_item (mkS None [] [] (hints s2)) m3 b) = None) by apply unp_push_item.
          assert (Fs : ret = false -> unt (push_item (mkS None [] [] (hints s2)) m3 b) = []).
          { intros ->. destruct I2 as (L2 & M2 & H2).
            destruct (Tf eq_refl) as [Ie Df]. unfold push_item.
            rewrite (bounds_its m2 m3) by auto. rewrite Df; auto; try apply M2.
            rewrite (m_n _ M2). apply L2. exact Hb. }
          cbv zeta. eexists _, (push_item (mkS None [] [] (hints s2)) m3 b), m3.
          split; [reflexivity|]. split; auto. split; [eapply evolves_trans; eauto|].
          rewrite (mu_none _ m3 U3). rewrite (mu_none s2 m2 U2) in Le2.
          split; [destruct ret; lia|]. split.
          -- intros Hr. destruct ret; [left; lia|]. right. right. auto.
          -- intros Hr. destruct ret; [discriminate|]. auto.
        * destruct (unt s2) as [|[i k0] rest] eqn:Eu2.
          -- exfalso. destruct (tig s2) as [|x r] eqn:Et; [now apply T2|].
             rewrite (goal_when_unt_empty s2 m2 x r) in G; auto. discriminate.
          -- destruct (tighten m2 i) as [t m3] eqn:Tg.
             destruct I2 as (L2 & M2 & H2).
             assert (Hi : (i < n)%nat).
             { apply L2. unfold live. rewrite Eu2. apply in_or_app. right. simpl. auto. }
             assert (Tt : t = true).
             { apply (tighten_true m2 i t m3); [apply M2 | rewrite (m_n _ M2); auto | | exact Tg].
               apply (h_unt _ _ _ H2 (i, k0)). rewrite Eu2. simpl; auto. }
             subst t. destruct (tighten_spec _ _ _ _ Tg) as (Ev & Rm & _).
             destruct (update_bounds_inv s2 m2 m3 true i k0 rest (conj L2 (conj M2 H2)) Eu2 Tg) as (I3 & U3).
             assert (Mu3 : (mu (update_bounds s2 m3 i k0) m3 < mu s2 m2)%nat).
             { unfold mu. rewrite U3. lia. }
             apply stb_finish_spec;
               [exact I3 | eapply evolves_trans; eauto | lia | left; lia | intros _; lia | discriminate | ].
             intros Lt. apply Hk; auto.
  Qed.

  Lemma stb_loop_spec fuel : forall start s m,
    sinv s m -> (mu s m < fuel)%nat -> stb_post start s m (stb_loop fuel start s m).
  Proof.
    induction fuel; intros start s m I Lt; [lia|]. simpl. apply stb_body_spec; auto.
    intros s' m' I' Lt'. apply IHfuel; auto. lia.
  Qed.

  Lemma stb_final_state fuel s m :
    unp s = None -> unt s = [] -> stb_loop (S fuel) (sbounds s m) s m = Done (false, s, m).
  Proof.
    intros Eu E. simpl. unfold stb_body, stb_pull. rewrite Eu. cbv zeta. rewrite E.
    unfold stb_finish. rewrite !rv_ltb_irrefl, Eu. reflexivity.
  Qed.

  Lemma search_loop_spec inner : forall fuel s m rets,
    sinv s m -> (mu s m + 1 < fuel)%nat -> (mu s m < inner)%nat ->
    exists s' m' rets', search_loop fuel inner s m rets = Done (s', m', rets') /\ sinv s' m' /\ evolves m m' /\
                  unp s' = None /\ unt s' = [].
  Proof.
    induction fuel; intros s m rets I Lf Li; [lia|]. simpl. unfold search_tighten.
    destruct (stb_loop_spec inner (sbounds s m) s m I Li) as (r & s1 & m1 & R & I1 & E1 & Le & Pt & Pf).
    rewrite R. simpl. destruct r.
    - destruct (Pt eq_refl) as [Lt|[Ne|[U1 U2]]]; [|congruence|].
      + destruct (IHfuel s1 m1 (rets ++ [true]) I1) as (s' & m' & rets' & R' & I' & E' & U'); try lia.
        exists s', m', rets'. split; auto. split; auto. split; auto. eapply evolves_trans; eauto.
      + destruct fuel as [|fuel]; [lia|]. destruct inner as [|inner]; [lia|].
        simpl. unfold search_tighten. rewrite (stb_final_state inner s1 m1 U1 U2). simpl.
        exists s1, m1, ((rets ++ [true]) ++ [false]). auto.
    - exists s1, m1, (rets ++ [false]). destruct (Pf eq_refl). auto.
  Qed.

  Lemma final_result s m :
    sinv s m -> unp s = None -> unt s = [] -> (0 < n)%nat ->
    exists b, best_match s m = Some b /\ (b < n)%nat /\ (forall i, (i < n)%nat -> F b <= F i) /\
              sbounds s m = point (F b).
  Proof.
    intros (L & M & H) Eu E Hn.
    assert (Lv : live s = ids (tig s)) by (unfold live, unp_ids; rewrite Eu, E; reflexivity).
    destruct (l_dom _ L 0%nat Hn) as (j0 & Hj0 & _). rewrite Lv in Hj0.
    destruct (tig s) as [|x r] eqn:Et; [destruct Hj0|].
    assert (Bm : best_match s m = Some (fst x)).
    { unfold best_match. rewrite Eu, E, Et. destruct x; reflexivity. }
    exists (fst x). split; auto. split; [apply L; rewrite Lv; simpl; auto|]. split.
    - intros i Hi. destruct (l_dom _ L i Hi) as (j & Hj & Le). rewrite Lv in Hj.
      unfold ids in Hj. apply in_map_iff in Hj as (y & <- & Hy).
      pose proof (h_tmin _ _ _ H x r y eq_refl Hy) as T. lia.
    - unfold sbounds. rewrite Bm, E, Et. simpl app.
      destruct (h_tig _ _ _ H x) as [Kx Bx]; [left; auto|]. rewrite Bx.
      set (lb0 := fold_left (fun lb (y : nat * range) => rv_min (lo (snd y)) lb) (x :: r) PosInf).
      assert (A : rle lb0 (Fin (F (fst x)))).
      { replace (Fin (F (fst x))) with (lo (snd x)) by (rewrite Kx; reflexivity).
        apply fold_min_le. left; auto. }
      assert (B : rle (Fin (F (fst x))) lb0).
      { apply fold_min_glb; [reflexivity|]. intros y Hy.
        destruct (h_tig _ _ _ H y Hy) as [Ky _].
        rewrite Ky. simpl. apply rle_fin. apply (h_tmin _ _ _ H x r y eq_refl Hy). }
      rewrite (rle_antisym _ _ A B). simpl. unfold rv_min. simpl. rewrite Z.ltb_irrefl. reflexivity.
  Qed.
End Search.

Theorem C17_search_model items hints fuel :
  Forall (fun s => wf_sched s = true) items -> items <> [] -> (fuel_for items <= fuel)%nat ->
  exists b r rets m', search fuel (mkMs items []) (seq 0 (length items)) hints = Done (Some b, r, rets, m') /\
                 evolves (mkMs items []) m' /\ holds_search items (OSearch (Some b) r rets) = true.
Proof.
  intros W Ne Hf.
  set (F := fin_at items). set (n := length items). set (m0 := mkMs items []).
  set (s0 := mkS (Some (seq 0 n)) [] [] hints).
  assert (I0 : sinv F n s0 m0).
  { split; [|split].
    - unfold live, unp_ids; simpl. rewrite app_nil_r. constructor.
      + intros i Hi. apply in_seq in Hi. lia.
      + apply seq_NoDup.
      + intros i Hi. exists i. split; [apply in_seq; lia|lia].
    - constructor; [exact W | reflexivity | intros; reflexivity].
    - constructor; simpl; try tauto; intros; discriminate. }
  assert (Mu : (mu s0 m0 + 1 < fuel)%nat).
  { unfold mu, rem, s0, m0, fuel_for in *. simpl. rewrite seq_length. fold n. lia. }
  destruct (search_loop_spec F n fuel fuel s0 m0 [] I0 Mu ltac:(lia)) as (s' & m' & rets & R & I' & E' & U1 & U2).
  assert (Hn : (0 < n)%nat) by (unfold n; destruct items; simpl; [congruence|lia]).
  destruct (final_result F n s' m' I' U1 U2 Hn) as (b & Bm & Hb & Mn & Sb).
  unfold search. fold n. fold s0. fold m0. rewrite R. simpl. rewrite Bm, Sb.
  exists b, (point (F b)), rets, m'. split; auto. split; auto.
  unfold holds_search. destruct items as [|s items]; [congruence|].
  apply andb_true_iff. split; [|apply range_eqb_eq; reflexivity].
  apply is_min_final_intro; auto.
Qed.


(* -- `for node in list(min_node)`: modelling only its first node is without loss of generality.  Whatever the loop
   does after a first node whose tighten_bounds() returned False (`alt`, an arbitrary function of the state at that
   point), a run of the specialised model that ends in Done is also the run of the general one: the continuation is
   never entered. *)
Lemma stb_finish_refines k kg start s' m' t x :
  (forall s m y, k s m = Done y -> kg s m = Done y) ->
  stb_finish k start s' m' t = Done x -> stb_finish kg start s' m' t = Done x.
Proof.
  intros Hk. unfold stb_finish. cbv zeta.
  destruct (rv_ltb (lo start) (lo (sbounds s' m')) || rv_ltb (hi (sbounds s' m')) (hi start)); auto.
  destruct (is_none (unp s') && negb t); auto.
Qed.

Lemma stb_body_g_refines alt k kg start s m x :
  (forall s m y, k s m = Done y -> kg s m = Done y) ->
  stb_body k start s m = Done x -> stb_body_g alt kg start s m = Done x.
Proof.
  intros Hk. unfold stb_body, stb_body_g. cbv zeta.
  destruct (unt (stb_pull s m)) as [|p r]; [apply stb_finish_refines; auto|].
  destruct (if is_none (unp (stb_pull s m)) then stb_len1 (stb_pull s m) m else (stb_pull s m, m)) as [s2 m2].
  destruct (is_none (unp (stb_pull s m)) && goal_test s2 m2); [auto|].
  destruct (unt s2) as [|[i k0] r2]; [auto|].
  destruct (tighten m2 i) as [[|] m3]; [apply stb_finish_refines; auto|discriminate].
Qed.

Lemma stb_loop_g_refines alt : forall fuel start s m x,
  stb_loop fuel start s m = Done x -> stb_loop_g alt fuel start s m = Done x.
Proof.
  induction fuel; intros start s m x H; simpl in *; [discriminate|].
  eapply stb_body_g_refines; [|exact H]. intros s' m' y. apply IHfuel.
Qed.

Lemma search_loop_g_refines alt inner : forall fuel s m rets x,
  search_loop fuel inner s m rets = Done x -> search_loop_g alt fuel inner s m rets = Done x.
Proof.
  induction fuel; intros s m rets x H; simpl in *; [discriminate|].
  unfold search_tighten in H. unfold search_tighten_g.
  destruct (stb_loop inner (sbounds s m) s m) as [[[r s'] m']| | | | |] eqn:E; simpl in H; try discriminate.
  rewrite (stb_loop_g_refines alt _ _ _ _ _ E). simpl. destruct r; auto.
Qed.

Lemma search_g_refines alt fuel m ids hints x :
  search fuel m ids hints = Done x -> search_g alt fuel m ids hints = Done x.
Proof.
  unfold search, search_g. intros H.
  destruct (search_loop fuel fuel (mkS (Some ids) [] [] hints) m []) as [[[s m'] rets]| | | | |] eqn:E;
    simpl in H; try discriminate.
  rewrite (search_loop_g_refines alt _ _ _ _ _ _ E). exact H.
Qed.

Theorem C17_search_general alt items hints fuel :
  Forall (fun s => wf_sched s = true) items -> items <> [] -> (fuel_for items <= fuel)%nat ->
  exists b r rets m', search_g alt fuel (mkMs items []) (seq 0 (length items)) hints = Done (Some b, r, rets, m') /\
                 search fuel (mkMs items []) (seq 0 (length items)) hints = Done (Some b, r, rets, m') /\
                 evolves (mkMs items []) m' /\ holds_search items (OSearch (Some b) r rets) = true.
Proof.
  intros W Ne Hf. destruct (C17_search_model items hints fuel W Ne Hf) as (b & r & rets & m' & S & E & H).
  exists b, r, rets, m'. split; [apply search_g_refines; exact S|]. auto.
Qed.

(* ------------------------------------------------------------------ make_distinct *)

(* -- ranges *)

Lemma md_finite_fin r : finite r = true -> exists a b, r = mkR (Fin a) (Fin b).
Proof. destruct r as [[| a |] [| b |]]; unfold finite; simpl; try discriminate. eauto. Qed.

Lemma md_finite_contains a b :
  contains a b = true -> range_ok b = true -> finite a = true -> finite b = true.
Proof. intros C O F. apply md_finite_fin in F as (x & y & ->). destruct b as [l h]. rv_solve. Qed.

Lemma md_finite_evolves m m' i :
  wf_ms m -> (i < nitems m)%nat -> evolves m m' -> finite (bounds m i) = true -> finite (bounds m' i) = true.
Proof.
  intros Hw Hi E F. eapply md_finite_contains; [apply (ev_shrink _ _ E Hw i) | | exact F].
  apply bounds_ok; [apply E; auto | rewrite (ev_len _ _ E); auto].
Qed.

Definition md_sz (r : range) : Z := rv_z (hi r) + 1 - rv_z (lo r).
Definition md_ov (r1 r2 : range) : bool :=
  (rv_z (lo r2) <? rv_z (hi r1) + 1) && (rv_z (lo r1) <? rv_z (hi r2) + 1).

Lemma md_sz_pos r : finite r = true -> range_ok r = true -> 0 < md_sz r.
Proof. intros F O. apply md_finite_fin in F as (x & y & ->). unfold md_sz. rv_solve. Qed.
Lemma md_sz_def r : definitive r = true -> md_sz r = 1.
Proof. intros D. apply definitive_iff in D as [z ->]. unfold md_sz, point; simpl. lia. Qed.
Lemma md_sz_le1 r : finite r = true -> range_ok r = true -> md_sz r <= 1 -> definitive r = true.
Proof. intros F O. apply md_finite_fin in F as (x & y & ->). unfold md_sz. rv_solve. Qed.
Lemma md_def_sep a b : definitive a = true -> definitive b = true -> separated a b = true.
Proof. intros A B. unfold separated. rewrite A, B. apply orb_true_r. Qed.
Lemma md_ov_false a b : finite a = true -> finite b = true -> md_ov a b = false -> separated a b = true.
Proof.
  intros A B. apply md_finite_fin in A as (x & y & ->). apply md_finite_fin in B as (u & v & ->).
  unfold md_ov, separated; simpl. bools. intros [H|H]; [left; left | left; right]; lia.
Qed.
Lemma md_ov_true a b :
  finite a = true -> finite b = true -> md_ov a b = true -> definitive a = false -> separated a b = false.
Proof.
  intros A B. apply md_finite_fin in A as (x & y & ->). apply md_finite_fin in B as (u & v & ->).
  unfold md_ov, separated; simpl. intros H D. rewrite D. simpl. bools. lia.
Qed.

Lemma md_exit_sep a b :
  (definitive a && definitive b) || rv_ltb (hi a) (lo b) || rv_ltb (hi b) (lo a) = separated a b.
Proof.
  unfold separated.
  destruct (definitive a && definitive b), (rv_ltb (hi a) (lo b)), (rv_ltb (hi b) (lo a)); reflexivity.
Qed.

(* -- the pairwise tightening loop *)

Lemma md_pair_loop_spec fuel : forall m a b,
  wf_ms m -> (a < nitems m)%nat -> (b < nitems m)%nat -> (rem m < fuel)%nat ->
  exists m', pair_loop fuel m a b = Done m' /\ evolves m m' /\
    (forall j, j <> a -> j <> b -> sched_of m' j = sched_of m j) /\
    separated (bounds m' a) (bounds m' b) = true /\
    (separated (bounds m a) (bounds m b) = false -> (rem m' < rem m)%nat).
Proof.
  induction fuel; intros m a b Hw Ha Hb Hf; [lia|].
  simpl. rewrite md_exit_sep. destruct (separated (bounds m a) (bounds m b)) eqn:S.
  - exists m. split; [reflexivity|]. split; [apply evolves_refl|]. split; [auto|]. split; [exact S|discriminate].
  - destruct (tighten m a) as [ta m1] eqn:Ta. destruct (tighten_spec _ _ _ _ Ta) as (E1 & R1 & O1 & F1).
    destruct (tighten m1 b) as [tb m2] eqn:Tb. destruct (tighten_spec _ _ _ _ Tb) as (E2 & R2 & O2 & F2).
    assert (W1 : wf_ms m1) by (apply E1; auto).
    assert (L1 : nitems m1 = nitems m) by apply E1.
    assert (W2 : wf_ms m2) by (apply E2; auto).
    assert (L2 : nitems m2 = nitems m) by (rewrite (ev_len _ _ E2); auto).
    assert (D : (rem m2 < rem m)%nat).
    { destruct ta; [lia|]. destruct tb; [lia|]. exfalso.
      destruct (F1 eq_refl) as [I1 D1]. destruct (F2 eq_refl) as [I2 D2].
      specialize (D1 Hw Ha). rewrite L1 in D2. specialize (D2 W1 Hb). rewrite (bounds_its m m1) in D2 by auto.
      unfold separated in S. rewrite D1, D2 in S. rewrite orb_true_r in S. discriminate. }
    destruct (IHfuel m2 a b) as (m' & P & E & O & Sp & _); auto; try lia.
    exists m'. split; [exact P|]. split; [eapply evolves_trans; [|exact E]; eapply evolves_trans; eauto|].
    split; [|split; [exact Sp|]].
    + intros j Na Nb. rewrite O, O2, O1; auto.
    + intros _. pose proof (ev_rem _ _ E). lia.
Qed.

(* -- building the interval tree *)

Lemma md_admissible_step m i :
  (i < nitems m)%nat -> md_admissible_sched (sched_of m i) = true -> finite (bounds m i) = false ->
  forall t m1, tighten m i = (t, m1) -> finite (bounds m1 i) = true.
Proof.
  intros Hi A F t m1 T. unfold tighten in T. unfold bounds in F.
  destruct (sched_of m i) as [|r [|r2 rest]] eqn:E; simpl in A, F.
  - discriminate.
  - rewrite F in A. discriminate.
  - rewrite F in A. simpl in A. inversion T; subst. unfold bounds, sched_of. simpl.
    rewrite nth_upd_eq by exact Hi. exact A.
Qed.

Lemma md_iv_of_same m m' k : sched_of m' k = sched_of m k -> iv_of m' k = iv_of m k.
Proof. intros H. unfold iv_of, bounds. now rewrite H. Qed.
Lemma md_bounds_same m m' k : sched_of m' k = sched_of m k -> bounds m' k = bounds m k.
Proof. intros H. unfold bounds. now rewrite H. Qed.

Lemma md_init_spec : forall idl m tree,
  wf_ms m -> NoDup idl ->
  (forall i, In i idl -> (i < nitems m)%nat /\ md_admissible_sched (sched_of m i) = true) ->
  exists m1 tr, md_init m idl tree = Done (m1, tree ++ tr) /\ evolves m m1 /\
    map iv_id tr = idl /\ (forall x, In x tr -> x = iv_of m1 (iv_id x)) /\
    (forall i, In i idl -> finite (bounds m1 i) = true) /\
    (forall j, ~ In j idl -> sched_of m1 j = sched_of m j).
Proof.
  induction idl as [|i rest IH]; intros m tree Hw Nd Hi.
  - exists m, []. simpl. rewrite app_nil_r. split; [reflexivity|]. split; [apply evolves_refl|].
    split; [reflexivity|]. split; [intros x []|]. split; [intros x []|auto].
  - inversion Nd as [|? ? Ni Nd']; subst.
    destruct (Hi i (or_introl eq_refl)) as [Li Ai].
    assert (S0 : exists m0, md_init m (i :: rest) tree = md_init m0 rest (tree ++ [iv_of m0 i]) /\
                   evolves m m0 /\ finite (bounds m0 i) = true /\
                   forall j, j <> i -> sched_of m0 j = sched_of m j).
    { simpl. destruct (finite (bounds m i)) eqn:F.
      - exists m. split; [reflexivity|]. split; [apply evolves_refl|]. split; auto.
      - destruct (tighten m i) as [t m1] eqn:T.
        pose proof (md_admissible_step m i Li Ai F t m1 T) as F1. rewrite F1.
        destruct (tighten_spec _ _ _ _ T) as (E1 & _ & O1 & _).
        exists m1. split; [reflexivity|]. split; [exact E1|]. split; auto. }
    destruct S0 as (m0 & R0 & E0 & F0 & O0).
    destruct (IH m0 (tree ++ [iv_of m0 i])) as (m1 & tr & R1 & E1 & Mp & Cu & Fi & O1).
    + apply E0; auto.
    + exact Nd'.
    + intros j Hj. destruct (Hi j (or_intror Hj)) as [Lj Aj].
      assert (j <> i) by (intros ->; contradiction).
      rewrite (ev_len _ _ E0), O0 by auto. auto.
    + assert (Si : sched_of m1 i = sched_of m0 i) by (apply O1; exact Ni).
      exists m1, (iv_of m0 i :: tr). rewrite R0, R1, <- app_assoc. simpl.
      split; [reflexivity|]. split; [eapply evolves_trans; eauto|].
      split; [f_equal; exact Mp|].
      split; [|split].
      * intros x [<-|Hx]; [|auto]. symmetry. apply md_iv_of_same. exact Si.
      * intros j [<-|Hj]; [|auto]. rewrite (md_bounds_same m0 m1) by exact Si. exact F0.
      * intros j Hj. rewrite O1 by tauto. apply O0. intros ->. tauto.
Qed.

(* -- the interval tree as a list *)

Lemma md_remove_In i x t : In x (tree_remove i t) <-> In x t /\ iv_id x <> i.
Proof.
  unfold tree_remove. rewrite filter_In, negb_true_iff, Nat.eqb_neq. tauto.
Qed.
Lemma md_in_remove i k t : In k (map iv_id (tree_remove i t)) <-> In k (map iv_id t) /\ k <> i.
Proof.
  rewrite !in_map_iff. split.
  - intros (x & <- & H). apply md_remove_In in H as [H N]. split; eauto.
  - intros [(x & <- & H) N]. exists x; split; auto. apply md_remove_In. auto.
Qed.
Lemma md_NoDup_filter {A B} (f : A -> B) p l : NoDup (map f l) -> NoDup (map f (filter p l)).
Proof.
  induction l as [|a l IH]; simpl; intros H; [constructor|]. inversion H as [|? ? Na Nl]; subst.
  destruct (p a); simpl; auto. constructor; auto.
  intros Q. apply Na. apply in_map_iff in Q as (x & E & Hx). apply filter_In in Hx as [Hx _].
  apply in_map_iff. eauto.
Qed.
Lemma md_filter_length_le {A} p (l : list A) : (length (filter p l) <= length l)%nat.
Proof. induction l as [|a l IH]; simpl; auto. destruct (p a); simpl; lia. Qed.
Lemma md_filter_length_lt {A} p (x : A) l : In x l -> p x = false -> (length (filter p l) < length l)%nat.
Proof.
  induction l as [|a l IH]; simpl; [tauto|]. intros [->|H] Px.
  - rewrite Px. pose proof (md_filter_length_le p l). lia.
  - specialize (IH H Px). destruct (p a); simpl; lia.
Qed.
Lemma md_remove_length_lt x t : In x t -> (length (tree_remove (iv_id x) t) < length t)%nat.
Proof.
  intros H. unfold tree_remove. apply md_filter_length_lt with (x := x); auto.
  rewrite Nat.eqb_refl. reflexivity.
Qed.
Lemma md_filter_nil {A} p (l : list A) : filter p l = [] -> forall x, In x l -> p x = false.
Proof.
  intros E x Hx. destruct (p x) eqn:P; auto.
  assert (In x (filter p l)) by (apply filter_In; auto). rewrite E in H. destruct H.
Qed.
Lemma md_two_in (i j : nat) l : In i l -> In j l -> i <> j -> (2 <= length l)%nat.
Proof.
  destruct l as [|a [|b l]]; simpl; [tauto | | lia].
  intros [->|[]] [->|[]] N. congruence.
Qed.

(* -- choosing a biggest interval *)

Lemma md_max_size_ge t x : In x t -> iv_size x <= max_size t.
Proof. induction t as [|a t IH]; simpl; [tauto|]. intros [->|H]; [lia|]. specialize (IH H). lia. Qed.
Lemma md_max_attained t :
  t <> [] -> (forall y, In y t -> 0 < iv_size y) -> exists x, In x t /\ iv_size x = max_size t.
Proof.
  induction t as [|a t IH]; [congruence|]. intros _ P. destruct t as [|b t].
  - exists a. split; [left; auto|]. simpl. specialize (P a (or_introl eq_refl)). lia.
  - destruct IH as (x & Hx & Ex); [discriminate | intros y Hy; apply P; right; exact Hy |].
    change (max_size (a :: b :: t)) with (Z.max (iv_size a) (max_size (b :: t))).
    destruct (Z.max_spec (iv_size a) (max_size (b :: t))) as [[_ ->]|[_ ->]].
    + exists x. split; [right; exact Hx | exact Ex].
    + exists a. split; [left; auto | reflexivity].
Qed.
Lemma md_choose_big_some t h x : choose_big t h = Some x -> In x t /\ iv_size x = max_size t.
Proof.
  unfold choose_big. intros H.
  assert (D : find (fun x => iv_size x =? max_size t) t = Some x -> In x t /\ iv_size x = max_size t).
  { intros F. apply find_some in F as [F1 F2]. apply Z.eqb_eq in F2. auto. }
  destruct h as [h|]; auto.
  destruct (find (fun x => Nat.eqb (iv_id x) h && (iv_size x =? max_size t)) t) eqn:F; auto.
  inversion H; subst. apply find_some in F as [F1 F2]. apply andb_true_iff in F2 as [_ F2].
  apply Z.eqb_eq in F2. auto.
Qed.
Lemma md_choose_big_none t h : (forall y, In y t -> 0 < iv_size y) -> choose_big t h = None -> t = [].
Proof.
  intros P H. destruct t as [|a t]; auto. exfalso.
  destruct (md_max_attained (a :: t)) as (x & Hx & Ex); [discriminate | exact P |].
  assert (F : find (fun x => iv_size x =? max_size (a :: t)) (a :: t) = None).
  { unfold choose_big in H. destruct h as [h|]; auto.
    destruct (find (fun x => Nat.eqb (iv_id x) h && (iv_size x =? max_size (a :: t))) (a :: t)); auto.
    discriminate. }
  pose proof (find_none _ _ F x Hx) as Q. simpl in Q. apply Z.eqb_neq in Q. auto.
Qed.

(* -- intervals of items *)

Lemma md_size_of m x : x = iv_of m (iv_id x) -> iv_size x = md_sz (bounds m (iv_id x)).
Proof.
  destruct x as [[i b] e]. unfold iv_of, iv_id, iv_size, iv_b, iv_e, md_sz. simpl.
  intros H. injection H as Hb He. lia.
Qed.
Lemma md_ov_of m x y :
  x = iv_of m (iv_id x) -> y = iv_of m (iv_id y) ->
  iv_overlap (iv_b x) (iv_e x) y = md_ov (bounds m (iv_id x)) (bounds m (iv_id y)).
Proof.
  destruct x as [[i b] e], y as [[j c] f]. unfold iv_of, iv_id, iv_overlap, iv_b, iv_e, md_ov. simpl.
  intros H1 H2. injection H1 as Hb He. injection H2 as Hc Hf. rewrite <- Hb, <- He, <- Hc, <- Hf. reflexivity.
Qed.

(* the elements of the tree are the current intervals of distinct items *)
Definition md_tree_ok (m : ms) (t : list ivl) : Prop :=
  NoDup (map iv_id t) /\ forall x, In x t -> x = iv_of m (iv_id x) /\ (iv_id x < nitems m)%nat.

Lemma md_tree_in m t k : md_tree_ok m t -> In k (map iv_id t) -> In (iv_of m k) t /\ (k < nitems m)%nat.
Proof.
  intros [_ C] H. apply in_map_iff in H as (x & <- & Hx). destruct (C x Hx) as [E L].
  split; [rewrite <- E; exact Hx | exact L].
Qed.

Lemma md_readd_incl m k t j : In j (map iv_id t) -> In j (map iv_id (readd m k t)).
Proof.
  unfold readd. destruct (existsb _ t); auto. rewrite map_app. intros H. apply in_or_app. auto.
Qed.
Lemma md_readd_ids m k t j : In j (map iv_id (readd m k t)) -> j = k \/ In j (map iv_id t).
Proof.
  unfold readd. destruct (existsb _ t); auto. rewrite map_app. intros H. apply in_app_or in H as [H|H]; auto.
  simpl in H. destruct H as [H|[]]. left. rewrite <- H. reflexivity.
Qed.
Lemma md_readd_length m k t : (length (readd m k t) <= S (length t))%nat.
Proof. unfold readd. destruct (existsb _ t); [rewrite app_length; simpl; lia | lia]. Qed.
Lemma md_NoDup_snoc {A} (k : A) l : NoDup l -> ~ In k l -> NoDup (l ++ [k]).
Proof.
  intros N H. eapply Permutation_NoDup; [apply Permutation_cons_append|]. constructor; auto.
Qed.
Lemma md_readd_ok m k t :
  md_tree_ok m t -> (k < nitems m)%nat -> ~ In k (map iv_id t) -> md_tree_ok m (readd m k t).
Proof.
  intros [Nd C] Lk Nk. unfold readd. destruct (existsb _ t); [|split; auto]. split.
  - rewrite map_app. simpl. apply md_NoDup_snoc; auto.
  - intros x H. apply in_app_or in H as [H|[<-|[]]]; auto.
Qed.
Lemma md_readd_sep m k t j :
  (forall i, (i < nitems m)%nat -> finite (bounds m i) = true) ->
  md_tree_ok m t -> (k < nitems m)%nat -> In j (map iv_id t) ->
  In k (map iv_id (readd m k t)) \/ separated (bounds m k) (bounds m j) = true.
Proof.
  intros Fi Ok Lk Hj. destruct (md_tree_in m t j Ok Hj) as [Xj Lj].
  unfold readd. destruct (existsb _ t) eqn:Ex.
  - left. rewrite map_app. apply in_or_app. right. left. reflexivity.
  - right. apply md_ov_false; auto.
    change (md_ov (bounds m k) (bounds m j))
      with (iv_overlap (iv_b (iv_of m k)) (iv_e (iv_of m k)) (iv_of m j)).
    destruct (iv_overlap (iv_b (iv_of m k)) (iv_e (iv_of m k)) (iv_of m j)) eqn:O; auto.
    assert (existsb (iv_overlap (iv_b (iv_of m k)) (iv_e (iv_of m k))) t = true)
      by (apply existsb_exists; eauto).
    congruence.
Qed.

(* -- the invariant of the main loop: every item is finite, the tree holds the current intervals of distinct
      items, and two items that are not both in the tree are separated *)
Record md_inv (m : ms) (T : list ivl) : Prop := {
  md_i_wf : wf_ms m;
  md_i_fin : forall i, (i < nitems m)%nat -> finite (bounds m i) = true;
  md_i_ok : md_tree_ok m T;
  md_i_sep : forall i j, (i < nitems m)%nat -> (j < nitems m)%nat -> i <> j ->
             (In i (map iv_id T) /\ In j (map iv_id T)) \/ separated (bounds m i) (bounds m j) = true
}.

Lemma md_inv_pos m T x : md_inv m T -> In x T -> 0 < iv_size x.
Proof.
  intros I H. destruct (md_i_ok _ _ I) as [_ C]. destruct (C x H) as [E L].
  rewrite (md_size_of m x E). apply md_sz_pos; [apply I; auto | apply bounds_ok; [apply I|auto]].
Qed.

Lemma md_exit_small m T : md_inv m T -> (length T <= 1)%nat ->
  forall i j, (i < nitems m)%nat -> (j < nitems m)%nat -> i <> j ->
    separated (bounds m i) (bounds m j) = true.
Proof.
  intros I L i j Hi Hj N. destruct (md_i_sep _ _ I i j Hi Hj N) as [[A B]|S]; auto.
  pose proof (md_two_in i j _ A B N) as Q. rewrite map_length in Q. lia.
Qed.

Lemma md_exit_def m T big :
  md_inv m T -> In big T -> iv_size big = max_size T -> definitive (bounds m (iv_id big)) = true ->
  forall i j, (i < nitems m)%nat -> (j < nitems m)%nat -> i <> j ->
    separated (bounds m i) (bounds m j) = true.
Proof.
  intros I Bin Bmax D i j Hi Hj N. destruct (md_i_sep _ _ I i j Hi Hj N) as [[A B]|S]; auto.
  destruct (md_i_ok _ _ I) as [_ C]. destruct (C big Bin) as [Eb _].
  assert (M1 : max_size T = 1).
  { rewrite <- Bmax, (md_size_of m big Eb). apply md_sz_def. exact D. }
  assert (K : forall k, In k (map iv_id T) -> definitive (bounds m k) = true).
  { intros k Hk. destruct (md_tree_in m T k (md_i_ok _ _ I) Hk) as [Xk Lk].
    apply md_sz_le1; [apply I; auto | apply bounds_ok; [apply I | auto] |].
    pose proof (md_max_size_ge T _ Xk) as G.
    change (iv_size (iv_of m k)) with (md_sz (bounds m k)) in G. lia. }
  apply md_def_sep; auto.
Qed.

(* the biggest interval overlaps nothing: it leaves the tree *)
Lemma md_step_drop m T big :
  md_inv m T -> In big T ->
  (forall x, In x (tree_remove (iv_id big) T) -> iv_overlap (iv_b big) (iv_e big) x = false) ->
  md_inv m (tree_remove (iv_id big) T).
Proof.
  intros I Bin NO. destruct (md_i_ok _ _ I) as [Nd C]. destruct (C big Bin) as [Eb Lb].
  assert (Ok1 : md_tree_ok m (tree_remove (iv_id big) T)).
  { split; [unfold tree_remove; apply md_NoDup_filter; auto|].
    intros x Hx. apply md_remove_In in Hx as [Hx _]. auto. }
  assert (Sb : forall j, In j (map iv_id T) -> j <> iv_id big ->
                         separated (bounds m (iv_id big)) (bounds m j) = true).
  { intros j Hj Nj.
    assert (Hj1 : In j (map iv_id (tree_remove (iv_id big) T))) by (apply md_in_remove; auto).
    destruct (md_tree_in m _ j Ok1 Hj1) as [Xj Lj].
    apply md_ov_false; try (apply I; auto).
    specialize (NO _ Xj). rewrite (md_ov_of m big (iv_of m j) Eb eq_refl) in NO. exact NO. }
  constructor; try apply I; auto.
  intros i j Hi Hj N. destruct (md_i_sep _ _ I i j Hi Hj N) as [[A B]|S]; auto.
  destruct (Nat.eq_dec i (iv_id big)) as [->|Ni].
  - right. apply Sb; auto.
  - destruct (Nat.eq_dec j (iv_id big)) as [->|Nj].
    + right. rewrite separated_sym. apply Sb; auto.
    + left. split; apply md_in_remove; auto.
Qed.

(* two items leave the tree, are tightened until separated, and come back if they overlap something *)
Lemma md_step_pair m m' T a b :
  md_inv m T -> In a (map iv_id T) -> In b (map iv_id T) -> a <> b -> evolves m m' ->
  (forall j, j <> a -> j <> b -> sched_of m' j = sched_of m j) ->
  separated (bounds m' a) (bounds m' b) = true ->
  md_inv m' (readd m' b (readd m' a (tree_remove b (tree_remove a T)))).
Proof.
  intros I Ha Hb Nab E O Sab.
  pose proof (md_i_wf _ _ I) as W. assert (W' : wf_ms m') by (apply E; auto).
  pose proof (ev_len _ _ E) as Ln.
  destruct (md_i_ok _ _ I) as [Nd C].
  destruct (md_tree_in m T a (md_i_ok _ _ I) Ha) as [_ La].
  destruct (md_tree_in m T b (md_i_ok _ _ I) Hb) as [_ Lb].
  assert (Fi' : forall i, (i < nitems m')%nat -> finite (bounds m' i) = true).
  { intros i Hi. rewrite Ln in Hi. apply (md_finite_evolves m m' i W Hi E). apply (md_i_fin _ _ I); auto. }
  set (t2 := tree_remove b (tree_remove a T)).
  assert (In2 : forall k, In k (map iv_id t2) <-> In k (map iv_id T) /\ k <> a /\ k <> b).
  { intros k. unfold t2. rewrite !md_in_remove. tauto. }
  assert (Ok2 : md_tree_ok m' t2).
  { split.
    - unfold t2, tree_remove. apply md_NoDup_filter, md_NoDup_filter. exact Nd.
    - intros x Hx. unfold t2 in Hx. apply md_remove_In in Hx as [Hx Nb]. apply md_remove_In in Hx as [Hx Na].
      destruct (C x Hx) as [Ex Lx]. split; [|rewrite Ln; exact Lx].
      rewrite (md_iv_of_same m m') by (apply O; auto). exact Ex. }
  set (ta := readd m' a t2).
  assert (Oka : md_tree_ok m' ta).
  { apply md_readd_ok; auto; [lia|]. rewrite In2. tauto. }
  assert (Okb : md_tree_ok m' (readd m' b ta)).
  { apply md_readd_ok; auto; [lia|]. intros Q. apply md_readd_ids in Q as [Q|Q]; [congruence|].
    apply In2 in Q. tauto. }
  assert (Pa : forall j, In j (map iv_id T) -> j <> a -> j <> b ->
            (In a (map iv_id (readd m' b ta)) /\ In j (map iv_id (readd m' b ta))) \/
            separated (bounds m' a) (bounds m' j) = true).
  { intros j Hj Na Nb. assert (J2 : In j (map iv_id t2)) by (apply In2; auto).
    destruct (md_readd_sep m' a t2 j Fi' Ok2) as [Q|Q]; auto; [lia|].
    left. split; apply md_readd_incl; auto. apply md_readd_incl; auto. }
  assert (Pb : forall j, In j (map iv_id T) -> j <> a -> j <> b ->
            (In b (map iv_id (readd m' b ta)) /\ In j (map iv_id (readd m' b ta))) \/
            separated (bounds m' b) (bounds m' j) = true).
  { intros j Hj Na Nb. assert (J2 : In j (map iv_id ta)) by (apply md_readd_incl, In2; auto).
    destruct (md_readd_sep m' b ta j Fi' Oka) as [Q|Q]; auto; [lia|].
    left. split; auto. apply md_readd_incl; auto. }
  constructor; auto.
  intros i j Hi Hj N. rewrite Ln in Hi, Hj.
  destruct (md_i_sep _ _ I i j Hi Hj N) as [[A B]|S].
  2: { right. eapply separated_shrink; [exact S | apply E; auto | apply E; auto | |];
       apply bounds_ok; auto; lia. }
  destruct (Nat.eq_dec i a) as [->|Nia];
    [destruct (Nat.eq_dec j b) as [->|Njb]; [right; exact Sab | apply Pa; auto]|].
  destruct (Nat.eq_dec i b) as [->|Nib];
    [destruct (Nat.eq_dec j a) as [->|Nja]; [right; rewrite separated_sym; exact Sab | apply Pb; auto]|].
  destruct (Nat.eq_dec j a) as [->|Nja].
  { destruct (Pa i A Nia Nib) as [[P Q]|P]; [left; auto | right; rewrite separated_sym; exact P]. }
  destruct (Nat.eq_dec j b) as [->|Njb].
  { destruct (Pb i A Nia Nib) as [[P Q]|P]; [left; auto | right; rewrite separated_sym; exact P]. }
  left. split; apply md_readd_incl, md_readd_incl, In2; auto.
Qed.

Lemma md_loop_spec fuel : forall m T hints,
  md_inv m T -> (rem m + length T < fuel)%nat ->
  exists m', md_loop fuel m T hints = Done m' /\ evolves m m' /\
    forall i j, (i < nitems m)%nat -> (j < nitems m)%nat -> i <> j ->
      separated (bounds m' i) (bounds m' j) = true.
Proof.
  induction fuel; intros m T hints I Hf; [lia|].
  cbn [md_loop].
  destruct (length T <=? 1)%nat eqn:L.
  { apply Nat.leb_le in L. exists m. split; [reflexivity|]. split; [apply evolves_refl|].
    apply (md_exit_small m T I L). }
  apply Nat.leb_gt in L.
  destruct (choose_big T (hd_error hints)) as [big|] eqn:CB.
  2: { exfalso. apply md_choose_big_none in CB; [subst; simpl in L; lia|].
       intros y Hy. apply (md_inv_pos m T y I Hy). }
  destruct (md_choose_big_some _ _ _ CB) as [Bin Bmax].
  destruct (definitive (bounds m (iv_id big))) eqn:Dbig.
  { exists m. split; [reflexivity|]. split; [apply evolves_refl|].
    apply (md_exit_def m T big I Bin Bmax Dbig). }
  pose proof (md_remove_length_lt big T Bin) as Len1.
  destruct (md_i_ok _ _ I) as [Nd C]. destruct (C big Bin) as [Eb Lb].
  destruct (choose_big (filter (iv_overlap (iv_b big) (iv_e big)) (tree_remove (iv_id big) T))
                       (hd_error (tl hints))) as [sec|] eqn:CS.
  - destruct (md_choose_big_some _ _ _ CS) as [Sin _].
    apply filter_In in Sin as [Sin1 Ov]. pose proof Sin1 as Sin2.
    apply md_remove_In in Sin2 as [SinT Nab].
    destruct (C sec SinT) as [Es Ls].
    pose proof (md_remove_length_lt sec _ Sin1) as Len2.
    rewrite (md_ov_of m big sec Eb Es) in Ov.
    assert (NS : separated (bounds m (iv_id big)) (bounds m (iv_id sec)) = false).
    { apply md_ov_true; auto; apply (md_i_fin _ _ I); auto. }
    destruct (md_pair_loop_spec (S fuel) m (iv_id big) (iv_id sec) (md_i_wf _ _ I) Lb Ls)
      as (m1 & P & E & O & Sp & Dec); [lia|].
    rewrite P. cbn [obind]. specialize (Dec NS).
    assert (I1 := md_step_pair m m1 T (iv_id big) (iv_id sec) I (in_map iv_id _ _ Bin) (in_map iv_id _ _ SinT)
                    (fun H => Nab (eq_sym H)) E O Sp).
    destruct (IHfuel m1 _ (tl (tl hints)) I1) as (m' & R & E' & Sep).
    + pose proof (md_readd_length m1 (iv_id sec)
                    (readd m1 (iv_id big) (tree_remove (iv_id sec) (tree_remove (iv_id big) T)))).
      pose proof (md_readd_length m1 (iv_id big) (tree_remove (iv_id sec) (tree_remove (iv_id big) T))).
      lia.
    + exists m'. split; [exact R|]. split; [eapply evolves_trans; eauto|].
      intros i j Hi Hj N. apply Sep; auto; rewrite (ev_len _ _ E); auto.
  - assert (Mt : filter (iv_overlap (iv_b big) (iv_e big)) (tree_remove (iv_id big) T) = []).
    { apply md_choose_big_none in CS; auto. intros y Hy. apply filter_In in Hy as [Hy _].
      apply md_remove_In in Hy as [Hy _]. apply (md_inv_pos m T y I Hy). }
    assert (I1 := md_step_drop m T big I Bin (md_filter_nil _ _ Mt)).
    destruct (IHfuel m _ (tl hints) I1) as (m' & R & E' & Sep); [lia|].
    exists m'. auto.
Qed.

(* -- the result *)

Lemma md_pairwise l d :
  (forall i j, (i < j < length l)%nat -> separated (nth i l d) (nth j l d) = true) ->
  pairwise_separated l = true.
Proof.
  induction l as [|a l IH]; intros H; [reflexivity|]. simpl. apply andb_true_iff. split.
  - apply forallb_forall. intros y Hy. destruct (In_nth _ _ d Hy) as (k & Hk & <-).
    apply (H 0%nat (S k)). simpl. lia.
  - apply IH. intros i j Hij. apply (H (S i) (S j)). simpl. lia.
Qed.

Theorem C17_distinct_model items hints fuel :
  Forall (fun s => wf_sched s = true) items ->
  forallb md_admissible_sched items = true ->
  (fuel_for items <= fuel)%nat ->
  exists m', make_distinct fuel (mkMs items []) (seq 0 (length items)) hints = Done m' /\
             evolves (mkMs items []) m' /\
             holds_distinct items (ORanges (map cur (its m'))) = true.
Proof.
  intros W A Hf. set (m := mkMs items []).
  assert (Ln : nitems m = length items) by reflexivity.
  destruct (md_init_spec (seq 0 (length items)) m [] W (seq_NoDup _ _)) as (m1 & tr & R1 & E1 & Mp & Cu & Fi & _).
  { intros i Hi. apply in_seq in Hi. split; [rewrite Ln; lia|].
    rewrite forallb_forall in A. apply A. apply nth_In. lia. }
  simpl app in R1. pose proof (ev_len _ _ E1) as L1.
  assert (I1 : md_inv m1 tr).
  { constructor.
    - apply E1; exact W.
    - intros i Hi. apply Fi. apply in_seq. lia.
    - split; [rewrite Mp; apply seq_NoDup|]. intros x Hx. split; [auto|].
      assert (Q : In (iv_id x) (seq 0 (length items))) by (rewrite <- Mp; apply in_map; exact Hx).
      apply in_seq in Q. lia.
    - intros i j Hi Hj N. left. rewrite Mp. split; apply in_seq; lia. }
  destruct (md_loop_spec fuel m1 tr hints I1) as (m' & R & E' & Sep).
  { assert (length tr = length items) by (rewrite <- (map_length iv_id), Mp; apply seq_length).
    pose proof (ev_rem _ _ E1). unfold fuel_for in Hf. unfold rem at 2 in H0. simpl in H0. lia. }
  exists m'. unfold make_distinct. rewrite R1. cbn [obind]. split; [exact R|].
  assert (E : evolves m m') by (eapply evolves_trans; eauto). split; [exact E|].
  unfold holds_distinct. rewrite A. apply andb_true_iff.
  pose proof (ev_len _ _ E) as L'. unfold nitems in L'. simpl in L'. split.
  - apply Nat.eqb_eq. rewrite map_length. exact L'.
  - apply md_pairwise with (d := full_range). rewrite map_length. intros i j Hij.
    change full_range with (cur []). rewrite !map_nth. apply (Sep i j); lia.
Qed.

(* the hypotheses are satisfiable by a non-trivial collection: three sound, admissible items whose first ranges
   overlap pairwise and are not definitive; the model tightens them (4 tighten_bounds() calls) down to 2, 3, 1 *)
Example C17_distinct_example :
  let items := [ [mkR (Fin 0) (Fin 3); mkR (Fin 1) (Fin 2); mkR (Fin 2) (Fin 2)];
                 [mkR (Fin 0) (Fin 3); mkR (Fin 3) (Fin 3)];
                 [mkR (Fin 1) (Fin 2); mkR (Fin 1) (Fin 1)] ] in
  forallb wf_sched items = true /\ forallb md_admissible_sched items = true /\
  forallb (fun s => negb (definitive (cur s))) items = true /\
  pairwise_separated (map cur items) = false /\
  match make_distinct (fuel_for items) (mkMs items []) (seq 0 (length items)) [] with
  | Done m' => map cur (its m') = [point 2; point 3; point 1] /\ length (evs m') = 4%nat /\
               holds_distinct items (ORanges (map cur (its m'))) = true
  | _ => False
  end.
Proof. vm_compute. repeat split; reflexivity. Qed.


(* ------------------------------------------------------------------ hypotheses are satisfiable: examples *)

Definition ex_items : list schedule :=
  [ [mkR (Fin 0) (Fin 3); mkR (Fin 1) (Fin 3); mkR (Fin 2) (Fin 2)];
    [mkR (Fin 0) (Fin 3); mkR (Fin 0) (Fin 2); mkR (Fin 1) (Fin 1)];
    [mkR (Fin 1) (Fin 3); mkR (Fin 3) (Fin 3)];
    [mkR (Fin 0) (Fin 2); mkR (Fin 1) (Fin 2); mkR (Fin 1) (Fin 1)] ].

Example C17_lt_example :
  wf_sched (nth 0 ex_items []) = true /\ wf_sched (nth 1 ex_items []) = true /\
  cmp_lt (fuel_for ex_items) (mkMs ex_items []) 0 1 true = cmp_lt (fuel_for ex_items) (mkMs ex_items []) 0 1 false /\
  match cmp_lt (fuel_for ex_items) (mkMs ex_items []) 0 1 true with
  | Done (r, m') => r = false /\ length (evs m') = 4%nat | _ => False end.
Proof. vm_compute. repeat split; reflexivity. Qed.

Example C17_min_example :
  Forall (fun s => wf_sched s = true) ex_items /\
  match min_bounded (fuel_for ex_items) (mkMs ex_items []) (seq 0 4) [true; false; true] with
  | Done (Some i, m') => (i = 1%nat \/ i = 3%nat) /\ holds_min ex_items (OItem (Some i)) = true /\ evs m' <> []
  | _ => False end.
Proof. split; [repeat constructor|]. vm_compute. repeat split; auto; discriminate. Qed.

(* the trace graphtage's FibonacciHeap really performs on these four items (tie between items 1 and 3) is accepted *)
Example C17_sort_example :
  match sort_model (fuel_for ex_items) (mkMs ex_items []) (seq 0 4)
          [HCmp 1 0 false; HCmp 2 1 false; HCmp 3 1 true; HCmp 0 3 false; HCmp 2 0 false; HCmp 3 0 true; HPop 1;
           HCmp 0 2 true; HCmp 0 0 false; HPop 3; HCmp 2 2 false; HPop 0; HPop 2] with
  | Done (l, m') => l = [1; 3; 0; 2]%nat /\ holds_sort ex_items (OList l) = true
  | _ => False end.
Proof. vm_compute. split; reflexivity. Qed.

Example C17_search_example :
  Forall (fun s => wf_sched s = true) ex_items /\ ex_items <> [] /\
  match search (fuel_for ex_items) (mkMs ex_items []) (seq 0 4) [] with
  | Done (Some b, r, rets, m') => fin_at ex_items b = 1 /\ r = point 1 /\ holds_search ex_items (OSearch (Some b) r rets) = true
                            /\ (3 <= length (evs m'))%nat
  | _ => False end.
Proof. split; [repeat constructor|]. split; [discriminate|]. vm_compute. repeat split; auto; discriminate. Qed.
