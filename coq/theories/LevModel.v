(* graphtage.levenshtein.levenshtein_distance: the dynamic programme, column by column as the code
   fills it, and the value the function RETURNS (dist[row][col] with the loop variables as they are
   left by the loops). *)
From Coq Require Import ZArith List Bool Lia.
Require Import GT.Data.
Import ListNotations.
Open Scope Z_scope.

(* one more column: prev = dist[.][col-1]; result = dist[.][col] *)
Fixpoint lev_col_rest (tc : Z) (s : str) (prev : list Z) (diag above : Z) : list Z :=
  match s, prev with
  | sc :: s', p :: prev' =>
      let v := Z.min (Z.min (above + 1) (p + 1)) (diag + (if sc =? tc then 0 else 1)) in
      v :: lev_col_rest tc s' prev' p v
  | _, _ => []
  end.

Definition lev_next_col (tc : Z) (s : str) (prev : list Z) : list Z :=
  match prev with
  | [] => []
  | p0 :: prev' => let v0 := p0 + 1 in v0 :: lev_col_rest tc s prev' p0 v0
  end.

Definition lev_col0 (s : str) : list Z := map Z.of_nat (seq 0 (S (length s))).

Definition lev_last_col (s t : str) : list Z := fold_left (fun col tc => lev_next_col tc s col) t (lev_col0 s).

(* the correct distance: the lower right cell dist[len s][len t] *)
Definition lev_dp (s t : str) : Z := last (lev_last_col s t) 0.
