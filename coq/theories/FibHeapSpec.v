(* C16 - the priority queue always yields a minimum.
   Data types of a case (an operation history run on the real FibonacciHeap / MaxFibonacciHeap together
   with everything observed after each operation) and the executable statement of the property on the
   IMPLEMENTATION's observed outputs alone: `holds_C16` replays a tiny reference multiset (an association
   list item-id -> current key) and never looks at the heap structure or at the model.
   Numbers are Z (ids are assigned 0,1,2,... in push order). *)
From Coq Require Import List Bool ZArith Lia.
Import ListNotations.
Open Scope Z_scope.

(* pointer structure of the implementation, read by reflection: sibling rings are lists starting at the
   `_root` / `child` pointer and following `.right` *)
Inductive hnode := HNode (id : Z) (key : Z) (mark deleted : bool) (kids : list hnode).

Definition nid (t : hnode) : Z := match t with HNode i _ _ _ _ => i end.
Definition nkey (t : hnode) : Z := match t with HNode _ k _ _ _ => k end.
Definition nmark (t : hnode) : bool := match t with HNode _ _ m _ _ => m end.
Definition ndel (t : hnode) : bool := match t with HNode _ _ _ d _ => d end.
Definition nkids (t : hnode) : list hnode := match t with HNode _ _ _ _ ks => ks end.

Record heap := { roots : list hnode; minp : option Z (* id of _min *); hn : Z (* _n *) }.

Inductive op := Push (k : Z) | Pop | Peek | DecreaseKey (id : Z) (k : Z) | Remove (id : Z).

Inductive exc := ValueError | AttributeError | OtherExc.
(* what the call returned: nothing, an item (its id and the key its node carried), or an exception *)
Inductive ret := RNone | RItem (id : Z) (key : Z) | RExc (e : exc).

(* observed after one operation: return value, len(heap), pointer structure, and per node in pre-order
   (id, degree field, id of .parent) *)
Record obs := { o_ret : ret; o_len : Z; o_heap : heap; o_aux : list (Z * Z * option Z) }.

Record case := { c_max : bool (* MaxFibonacciHeap / ReversedComparator *); c_ops : list (op * obs) }.

(* the key order of the heap under test: ReversedComparator.__lt__ is `>` *)
Definition key_lt (mx : bool) (a b : Z) : bool := if mx then Z.ltb b a else Z.ltb a b.

(* ---- reference multiset: live items as (id, current key) ---- *)
Definition live := list (Z * Z).

Fixpoint lookup (i : Z) (l : live) : option Z :=
  match l with [] => None | (j, k) :: r => if Z.eqb i j then Some k else lookup i r end.
Fixpoint delete (i : Z) (l : live) : live :=
  match l with [] => [] | (j, k) :: r => if Z.eqb i j then r else (j, k) :: delete i r end.
Fixpoint update (i k : Z) (l : live) : live :=
  match l with [] => [] | (j, k') :: r => if Z.eqb i j then (j, k) :: r else (j, k') :: update i k r end.

(* k is the key of live item i and no live key is smaller *)
Definition is_min (lt : Z -> Z -> bool) (i k : Z) (l : live) : bool :=
  match lookup i l with Some k' => Z.eqb k k' | None => false end &&
  forallb (fun e => negb (lt (snd e) k)) l.

Definition ret_is_exc (r : ret) (e : exc) : bool :=
  match r, e with RExc ValueError, ValueError => true | RExc AttributeError, AttributeError => true | _, _ => false end.

(* one step of the reference: (verdict, live items afterwards, next id). Ill-formed operations (an id that
   is not live: the real code documents this as undefined behaviour and does not check) are outside the
   domain; `wf_step` flags them and `holds` is vacuous from there on. *)
Definition ref_step (lt : Z -> Z -> bool) (l : live) (next : Z) (o : op) (r : ret) : bool * live * Z :=
  match o with
  | Push k => (match r with RItem i k' => Z.eqb i next && Z.eqb k' k | _ => false end, (next, k) :: l, next + 1)
  | Peek => (match l with
             | [] => ret_is_exc r AttributeError
             | _ => match r with RItem i k => is_min lt i k l | _ => false end end, l, next)
  | Pop => match l with
           | [] => (ret_is_exc r AttributeError, l, next)
           | _ => match r with RItem i k => (is_min lt i k l, delete i l, next) | _ => (false, l, next) end end
  | DecreaseKey i k =>
      match lookup i l with
      | None => (true, l, next)
      | Some old => if lt old k then (ret_is_exc r ValueError, l, next)
                    else (match r with RNone => true | _ => false end, update i k l, next) end
  | Remove i =>
      match lookup i l with
      | None => (true, l, next)
      | Some _ => (match r with RNone => true | _ => false end, delete i l, next) end
  end.

Definition wf_step (l : live) (o : op) : bool :=
  match o with
  | DecreaseKey i _ | Remove i => match lookup i l with Some _ => true | None => false end
  | _ => true end.

(* `chk`: count the verdicts; `vac`: the value at an ill-formed operation *)
Fixpoint ref_run (lt : Z -> Z -> bool) (chk vac : bool) (l : live) (next : Z) (h : list (op * obs)) : bool :=
  match h with
  | [] => true
  | (o, ob) :: rest =>
      if wf_step l o then
        match ref_step lt l next o (o_ret ob) with
        | (ok, l', next') =>
            (negb chk || (ok && Z.eqb (o_len ob) (Z.of_nat (length l')))) && ref_run lt chk vac l' next' rest
        end
      else vac
  end.

(* the property on the implementation's outputs: every reported length is the number of live items, every
   peek / pop returns a live item whose key is minimal among the live keys (w.r.t. the heap's order),
   empty heaps raise, key increases raise ValueError and change nothing *)
Definition holds_C16 (c : case) : bool := ref_run (key_lt (c_max c)) true true [] 0 (c_ops c).
(* the history only names live items (harness sanity; not a verdict about the implementation) *)
Definition wf_C16 (c : case) : bool := ref_run (key_lt (c_max c)) false false [] 0 (c_ops c).

(* ---- smallest / largest (graphtage/utils.py): the n items with the smallest (largest) keys ----
   A case: the keys of the input sequence in order (item i = (key_i, i)), n, and the items the real
   generator yielded, as (key, id). *)
Record scase := { s_max : bool (* largest() *); s_keys : list Z; s_n : Z; s_out : list (Z * Z) }.

Fixpoint kitems (i : Z) (keys : list Z) : list (Z * Z) :=
  match keys with [] => [] | k :: r => (k, i) :: kitems (i + 1) r end.
Definition pair_eqb (p q : Z * Z) : bool := Z.eqb (fst p) (fst q) && Z.eqb (snd p) (snd q).
Fixpoint rm1 (p : Z * Z) (l : list (Z * Z)) : option (list (Z * Z)) :=
  match l with
  | [] => None
  | q :: r => if pair_eqb p q then Some r
              else match rm1 p r with Some r' => Some (q :: r') | None => None end
  end.
(* remove the yielded items one by one from the input items: what is left over, if they all were there *)
Fixpoint take_out (l out : list (Z * Z)) : option (list (Z * Z)) :=
  match out with [] => Some l | p :: r => match rm1 p l with Some l' => take_out l' r | None => None end end.
Fixpoint sorted_by (lt : Z -> Z -> bool) (l : list Z) : bool :=
  match l with
  | a :: (b :: _) as r => negb (lt b a) && sorted_by lt r
  | _ => true
  end.

(* min(max(n,0), len) items are yielded, they are input items (as a multiset), no left-over item has a key
   below a yielded one, and - when the heap is used at all (len > n) - they come in key order *)
Definition holds_small (lt : Z -> Z -> bool) (keys : list Z) (n : Z) (out : list (Z * Z)) : bool :=
  Z.eqb (Z.of_nat (length out)) (Z.min (Z.max n 0) (Z.of_nat (length keys))) &&
  match take_out (kitems 0 keys) out with
  | None => false
  | Some rest => forallb (fun a => forallb (fun b => negb (lt (fst b) (fst a))) rest) out
  end &&
  (Z.leb (Z.of_nat (length keys)) n || sorted_by lt (map fst out)).

Definition holds_C16s (c : scase) : bool := holds_small (key_lt (s_max c)) (s_keys c) (s_n c) (s_out c).
