(* Code-dependent parameters of the script model that are NOT (yet) produced by the translator:
   hand-written mirrors of the current source, tied by the exact script correspondence.
   Each definition names the source lines it mirrors. *)
From Coq Require Import ZArith List Bool Lia.
Require Import GT.PyBase GT.Data GT.LevModel.
Import ListNotations.
Open Scope Z_scope.

(* levenshtein.py:55-66  `col = row = 0; for col in range(1, cols): for row in range(1, rows): ...;
   return dist[row][col]`: when t is empty the outer loop never runs and dist[0][0] = 0 is returned;
   when s is empty row stays 0 and dist[0][len t] = len t is returned (which is correct). *)
Definition lev (s t : str) : Z :=
  match t with
  | [] => 0
  | _ => lev_dp s t
  end.

(* graphtage.py:340-342  ListNode.edits: FixedLengthSequenceEdit is used when ... *)
Definition list_dispatch_fixed (ale alsl : bool) (lf lt : Z) : bool :=
  negb ale || ((lf =? lt) && (negb alsl || (lf =? 1))).

(* sequences.py:70-75  surplus slice `children()[-len(longer) - len(shorter):]`: Python slice start *)
Definition py_slice_start (start len : Z) : Z :=
  if start <? 0 then Z.max 0 (len + start) else Z.min start len.
Definition surplus_start (longer shorter : nat) : nat :=
  Z.to_nat (py_slice_start (- Z.of_nat longer - Z.of_nat shorter) (Z.of_nat longer)).

(* sum of the n largest values (utils.largest) *)
Fixpoint insert_desc (x : Z) (l : list Z) : list Z :=
  match l with [] => [x] | y :: l' => if y <=? x then x :: l else y :: insert_desc x l' end.
Definition sum_largest (n : nat) (l : list Z) : Z := zsum (firstn n (fold_right insert_desc [] l)).

(* multiset.py:110-128  MultiSetEdit.bounds: the removal/insertion part of the own cost.
   all_r / all_i: costs of Remove/Insert for every element of to_remove / to_insert;
   left_r / left_i: those of the elements left unmatched (what edits() emits). *)
Definition multiset_leftover_cost (all_r all_i left_r left_i : list Z) : Z :=
  if Nat.ltb (length all_i) (length all_r) then sum_largest (length all_r - length all_i) all_r
  else if Nat.ltb (length all_r) (length all_i) then sum_largest (length all_i - length all_r) all_i
  else 0.

(* graphtage.py:603  `unshared_kvps = set()`: removals are emitted in hash order *)
Definition fixed_dict_removals_in_hash_order : bool := true.
