(* Code-dependent parameters of the script model, assembled from what the translator extracts from the
   current source (GTgen.EdGen) on every run. *)
From Coq Require Import ZArith List Bool Lia.
Require Import GT.PyBase GT.Data GT.LevModel GT.EdTypes GTgen.EdGen.
Import ListNotations.
Open Scope Z_scope.

(* levenshtein_distance as it RETURNS: with `return dist[row][col]` the loop variables are still 0 when t is
   empty (the loops never run), so dist[0][0] = 0 is returned; when s is empty row stays 0 and col ends at
   len t, so dist[0][len t] = len t is returned, which is the right cell. *)
Definition lev (s t : str) : Z :=
  if lev_returns_loop_var_cell then match t with [] => 0 | _ => lev_dp s t end else lev_dp s t.

(* LeafNode.edits: cost of Match(self, node, ...) for two leaves *)
Definition leaf_match_cost_raw (x y : leaf) : Z :=
  let d := lev (ltext x) (ltext y) in
  if leaf_zero_cost_adjusted && (d =? 0) && negb (py_eqb x y) then 1 else d.
(* ... capped (if the source does so) by the cost of replacing one leaf with the other: max(total_size) + 1 *)
Definition leaf_cap (x y : leaf) (c : Z) : Z :=
  if leaf_match_cost_capped then Z.min c (Z.max (leaf_size x) (leaf_size y) + 1) else c.
Definition leaf_match_cost (x y : leaf) : Z := leaf_cap x y (leaf_match_cost_raw x y).

Lemma leaf_size_nonneg0 : forall x, 0 <= leaf_size x.
Proof. intros x. unfold leaf_size, zlen. destruct (lk x); lia. Qed.
(* the cap never raises a cost, keeps it non-negative, and turns no positive cost into 0 *)
Lemma leaf_cap_spec : forall x y c, 0 <= c -> 0 <= leaf_cap x y c <= c /\ (leaf_cap x y c = 0 <-> c = 0).
Proof.
  intros x y c Hc. unfold leaf_cap. pose proof (leaf_size_nonneg0 x). pose proof (leaf_size_nonneg0 y).
  destruct leaf_match_cost_capped; lia.
Qed.
Lemma leaf_cap_zero : forall x y, leaf_cap x y 0 = 0.
Proof. intros x y. apply (leaf_cap_spec x y 0); lia. Qed.
Lemma leaf_cap_le_replace : forall x y c, leaf_match_cost_capped = true -> leaf_cap x y c <= Z.max (leaf_size x) (leaf_size y) + 1.
Proof. intros x y c H. unfold leaf_cap. rewrite H. lia. Qed.

(* Python slice start l[start:] on a list of length len *)
Definition py_slice_start (start len : Z) : Z :=
  if start <? 0 then Z.max 0 (len + start) else Z.min start len.
(* first removed position of the source / first inserted position of the target (FixedLengthSequenceEdit) *)
Definition remove_from_pos (lf lt : nat) : nat :=
  Z.to_nat (py_slice_start (to_remove_start (Z.of_nat lf) (Z.of_nat lt)) (Z.of_nat lf)).
Definition insert_from_pos (lf lt : nat) : nat :=
  Z.to_nat (py_slice_start (to_insert_start (Z.of_nat lf) (Z.of_nat lt)) (Z.of_nat lt)).

(* sum of the n largest values (utils.largest) *)
Fixpoint insert_desc (x : Z) (l : list Z) : list Z :=
  match l with [] => [x] | y :: l' => if y <=? x then x :: l else y :: insert_desc x l' end.
Definition sum_largest (n : nat) (l : list Z) : Z := zsum (firstn n (fold_right insert_desc [] l)).

(* MultiSetEdit.bounds once the matching is known: the removal/insertion part of the own cost.
   all_r / all_i: costs of Remove/Insert for every element of to_remove / to_insert;
   left_r / left_i: those of the elements the matching leaves unmatched (what edits() emits). *)
Definition multiset_leftover_cost (all_r all_i left_r left_i : list Z) : Z :=
  if multiset_counts_actual_leftovers then zsum left_r + zsum left_i
  else if Nat.ltb (length all_i) (length all_r) then sum_largest (length all_r - length all_i) all_r
  else if Nat.ltb (length all_r) (length all_i) then sum_largest (length all_i - length all_r) all_i
  else 0.

Definition replace_cost (a b : tree) : Z := replace_cost_gen (size a) (size b).
Definition remove_cost (x : tree) (penalty : Z) : Z := remove_cost_gen (size x) penalty.
Definition insert_cost (x : tree) (penalty : Z) : Z := insert_cost_gen (size x) penalty.
