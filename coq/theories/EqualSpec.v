(* C02 - "no edits are reported exactly when the two documents are equal": the executable vocabulary of the
   direction  cost 0 -> equal  and its proof AT THE LEVEL OF SCRIPTS, independent of the model of the code
   (nothing translated from the code is imported here):

     priced a b e   every sub-edit of the script e for (a, b) is priced at least as the edit classes price it:
                    a Match costs >= 0 and costs 0 only between nodes that are == ; Replace and string edits cost
                    > 0; Remove / Insert of x cost >= size x + penalty, the penalty being 0 only for EditDistance
                    over two lists of leaves, 1 otherwise.
     zsim a b       "equal up to the findings D4 and D16": scalars are Python-==, lists are equal element-wise -
                    or, if both consist of leaves only, after dropping the zero-size leaves ("" and null) -,
                    mappings have the same number of members and every member of a has a similar member in b.

   Theorem spec_sound: a valid (C01), additive (C03), priced script has cost >= 0, and cost 0 only if zsim a b.
   The harness evaluates valid / additive / priced / (cost 0 -> zsim) on the IMPLEMENTATION's scripts. *)
From Coq Require Import ZArith List Bool Lia Permutation.
Require Import GT.Data GT.ScriptSpec GT.ListAux.
Import ListNotations.
Open Scope Z_scope.

(* ---------------------------------------------------------------- vocabulary *)
Definition empty_leaf (t : tree) : bool :=
  match t with
  | Leaf l => match lk l with
              | KNull => true
              | KStr => match ltext l with [] => true | _ => false end
              | _ => false
              end
  | _ => false
  end.
Definition nonempty (t : tree) : bool := negb (empty_leaf t).

Definition leaf_sim (x y : tree) : bool :=
  match x, y with Leaf p, Leaf q => py_eqb p q | _, _ => false end.

(* the insert/remove penalty the edit classes use *)
Definition pen_of (k : kind) (a b : tree) : Z :=
  match k with
  | KEditDist => if all_leaves (children a) && all_leaves (children b) then 0 else 1
  | _ => 1
  end.

Fixpoint priced (a b : tree) (e : edit) {struct e} : bool :=
  match e with
  | EMatch c => (0 <=? c) && (if c =? 0 then node_eqb a b else true)
  | EReplace c => 0 <? c
  | EStr c _ => 0 <? c
  | EComp k _ subs =>
      (fix all (ss : list sub) : bool :=
         match ss with
         | [] => true
         | SPair i j e' :: ss' =>
             match nth_error (children a) i, nth_error (children b) j with
             | Some x, Some y => priced x y e' && all ss'
             | _, _ => false
             end
         | SRem i c :: ss' =>
             match nth_error (children a) i with
             | Some x => (size x + pen_of k a b <=? c) && all ss'
             | None => false
             end
         | SIns j c :: ss' =>
             match nth_error (children b) j with
             | Some y => (size y + pen_of k a b <=? c) && all ss'
             | None => false
             end
         end) subs
  end.

Fixpoint zsim (a b : tree) {struct a} : bool :=
  match a, b with
  | Leaf x, Leaf y => py_eqb x y
  | Lst _ _ xs, Lst _ _ ys =>
      list_eqb zsim xs ys ||
      (all_leaves xs && all_leaves ys && list_eqb leaf_sim (filter nonempty xs) (filter nonempty ys))
  | Kvp _ k v, Kvp _ k' v' => zsim k k' && zsim v v'
  | MSet _ xs, MSet _ ys | FDict xs, FDict ys =>
      Nat.eqb (length xs) (length ys) && forallb (fun x => existsb (fun y => zsim x y) ys) xs
  | _, _ => false
  end.

(* every numeric leaf has a non-empty str() (true of every int, float and bool) *)
Definition leaf_numtext (l : leaf) : bool :=
  negb (is_numeric (lk l)) || match ltext l with [] => false | _ => true end.
Definition numtext_ok (t : tree) : bool := forallb leaf_numtext (leaves t).

(* the carve-out of D4: no two scalars (one from each document) are Python-== without being equal as data *)
Definition typed (a b : tree) : bool :=
  forallb (fun x => forallb (fun y => implb (py_eqb x y) (leaf_data_eqb x y)) (leaves b)) (leaves a).

(* the carve-out of D16: no list consisting of leaves only contains a zero-size leaf *)
Fixpoint nozero (t : tree) : bool :=
  match t with
  | Leaf _ => true
  | Lst _ _ cs => negb (all_leaves cs && existsb empty_leaf cs) && forallb nozero cs
  | Kvp _ k v => nozero k && nozero v
  | MSet _ cs | FDict cs => forallb nozero cs
  end.

(* what the harness evaluates on the implementation's scripts *)
Definition spec_ok (c : script_case) : bool :=
  valid (sc_a c) (sc_b c) (sc_edit c) && additive (sc_edit c) && priced (sc_a c) (sc_b c) (sc_edit c) &&
  (0 <=? cost (sc_edit c)) && implb (cost (sc_edit c) =? 0) (zsim (sc_a c) (sc_b c)).

Definition holds_C02_lib (c : script_case) : bool := holds_C02 c && spec_ok c.

(* command-line half: one run of graphtage.__main__.main --no-color on the two documents written to files.
   cl_mode: 0 = default (the rendered diff), 1 = -e (list of edits), 2 = -d (edit digest); cl_out: the standard output
   (code points).  "Marked": the rendered diff contains one of the renderer's change marks (combining strike-through
   U+0336, combining plus-below U+031F, "~~", "++", " -> "); the edit list / digest is not blank. *)
Record cli_case := {
  cl_lib : script_case;        (* the library result for the same pair and options *)
  cl_mode : Z;
  cl_exit : Z;                 (* return value of main() *)
  cl_out : str;
}.
Fixpoint prefix_of (p s : str) : bool :=
  match p, s with
  | [], _ => true
  | x :: p', y :: s' => (x =? y) && prefix_of p' s'
  | _ :: _, [] => false
  end.
Fixpoint has_sub (p s : str) : bool :=
  prefix_of p s || match s with [] => false | _ :: s' => has_sub p s' end.
Definition mark_tokens : list str := [[822]; [799]; [126; 126]; [43; 43]; [32; 45; 62; 32]].
Definition blank (c : Z) : bool := (c =? 32) || (c =? 10) || (c =? 13) || (c =? 9).
Definition cl_marked (c : cli_case) : bool :=
  if cl_mode c =? 0 then existsb (fun t => has_sub t (cl_out c)) mark_tokens else negb (forallb blank (cl_out c)).
Definition cli_exit_ok (c : cli_case) : bool :=
  cl_exit c =? (if cost (sc_edit (cl_lib c)) =? 0 then 0 else 1).
Definition cli_marks_ok (c : cli_case) : bool :=
  Bool.eqb (cl_marked c) (negb (cost (sc_edit (cl_lib c)) =? 0)).
Definition holds_C02_cli (c : cli_case) : bool := cli_exit_ok c && cli_marks_ok c.

(* ---------------------------------------------------------------- induction principles *)
Section TreeInd.
  Variable P : tree -> Prop.
  Hypothesis Hleaf : forall l, P (Leaf l).
  Hypothesis Hlst : forall a b cs, Forall P cs -> P (Lst a b cs).
  Hypothesis Hkvp : forall a k v, P k -> P v -> P (Kvp a k v).
  Hypothesis Hmset : forall a cs, Forall P cs -> P (MSet a cs).
  Hypothesis Hfd : forall cs, Forall P cs -> P (FDict cs).
  Fixpoint tree_ind' (t : tree) : P t :=
    match t with
    | Leaf l => Hleaf l
    | Lst a b cs => Hlst a b cs ((fix go (l : list tree) : Forall P l :=
                                    match l with [] => Forall_nil P | x :: l' => Forall_cons x (tree_ind' x) (go l') end) cs)
    | Kvp a k v => Hkvp a k v (tree_ind' k) (tree_ind' v)
    | MSet a cs => Hmset a cs ((fix go (l : list tree) : Forall P l :=
                                  match l with [] => Forall_nil P | x :: l' => Forall_cons x (tree_ind' x) (go l') end) cs)
    | FDict cs => Hfd cs ((fix go (l : list tree) : Forall P l :=
                             match l with [] => Forall_nil P | x :: l' => Forall_cons x (tree_ind' x) (go l') end) cs)
    end.
End TreeInd.

Section EditInd.
  Variable P : edit -> Prop.
  Hypothesis Hm : forall c, P (EMatch c).
  Hypothesis Hr : forall c, P (EReplace c).
  Hypothesis Hs : forall c ops, P (EStr c ops).
  Hypothesis Hc : forall k c subs, Forall (fun s => match s with SPair _ _ e => P e | _ => True end) subs -> P (EComp k c subs).
  Fixpoint edit_ind' (e : edit) : P e :=
    match e with
    | EMatch c => Hm c
    | EReplace c => Hr c
    | EStr c ops => Hs c ops
    | EComp k c subs =>
        Hc k c subs ((fix go (ss : list sub) : Forall (fun s => match s with SPair _ _ e => P e | _ => True end) ss :=
                        match ss with
                        | [] => Forall_nil _
                        | SPair i j e' :: ss' => Forall_cons (SPair i j e') (edit_ind' e') (go ss')
                        | SRem i c' :: ss' => Forall_cons (SRem i c') I (go ss')
                        | SIns j c' :: ss' => Forall_cons (SIns j c') I (go ss')
                        end) subs)
    end.
End EditInd.

(* ---------------------------------------------------------------- small facts *)
Lemma zsum_nonneg' : forall l, Forall (fun x => 0 <= x) l -> 0 <= zsum l.
Proof. induction 1 as [|x l Hx Hl IH]; [cbn; lia|]. change (0 <= x + zsum l). lia. Qed.

Lemma zsum_zero_all : forall l, Forall (fun x => 0 <= x) l -> zsum l = 0 -> Forall (fun x => x = 0) l.
Proof.
  induction 1 as [|x l Hx Hl IH]; intro H; constructor; change (x + zsum l = 0) in H;
    pose proof (zsum_nonneg' l Hl); [lia|apply IH; lia].
Qed.

Lemma size_nonneg : forall t, 0 <= size t.
Proof.
  assert (Hs : forall cs, Forall (fun t => 0 <= size t) cs -> 0 <= zsum (map (fun c => size c + 1) cs)).
  { induction 1 as [|t cs Ht Hcs IH]; [cbn; lia|]. change (0 <= size t + 1 + zsum (map (fun c => size c + 1) cs)). lia. }
  apply tree_ind'; intros; cbn [size]; try (apply Hs; assumption); try lia.
  unfold leaf_size, zlen. destruct (lk l); lia.
Qed.

Lemma leaves_child : forall t c, In c (children t) -> incl (leaves c) (leaves t).
Proof.
  intros t c Hin x Hx. destruct t as [l|? ? cs|? k v|? cs|cs]; cbn in *.
  - destruct Hin.
  - apply in_flat_map. eauto.
  - destruct Hin as [<-|[<-|[]]]; apply in_or_app; auto.
  - apply in_flat_map. eauto.
  - apply in_flat_map. eauto.
Qed.

Lemma numtext_child : forall t c, numtext_ok t = true -> In c (children t) -> numtext_ok c = true.
Proof.
  intros t c H Hin. unfold numtext_ok in *. rewrite forallb_forall in *. intros l Hl. apply H.
  eapply leaves_child; eauto.
Qed.

Lemma str_eqb_true_eq : forall a b, str_eqb a b = true -> a = b.
Proof.
  induction a as [|x a IH]; intros [|y b] H; cbn in H; try discriminate; [reflexivity|].
  apply andb_prop in H as [H1 H2]. apply Z.eqb_eq in H1. f_equal; auto.
Qed.

Lemma py_eqb_empty : forall p q, py_eqb p q = true -> empty_leaf (Leaf p) = empty_leaf (Leaf q).
Proof.
  intros p q H. unfold py_eqb in H. unfold empty_leaf.
  destruct (lk p), (lk q); try discriminate; try reflexivity.
  apply str_eqb_true_eq in H. rewrite H. reflexivity.
Qed.

Lemma size0_empty : forall l, leaf_numtext l = true -> leaf_size l = 0 -> empty_leaf (Leaf l) = true.
Proof.
  intros l Hn Hs. unfold leaf_numtext, leaf_size, empty_leaf, zlen in *.
  destruct (lk l); cbn in *; try reflexivity; destruct (ltext l); cbn in *; try discriminate; try reflexivity; lia.
Qed.

Lemma skipn_nth_error : forall {A} (l : list A) i x, nth_error l i = Some x -> skipn i l = x :: skipn (S i) l.
Proof.
  induction l as [|y l IH]; intros [|i] x H; cbn in H; try discriminate.
  - inversion H. reflexivity.
  - cbn [skipn]. rewrite (IH i x H). reflexivity.
Qed.

Lemma all_leaves_nth : forall cs i x, all_leaves cs = true -> nth_error cs i = Some x -> exists l, x = Leaf l.
Proof.
  intros cs i x H Hn. unfold all_leaves in H. rewrite forallb_forall in H. specialize (H x (nth_error_In _ _ Hn)).
  destruct x; try discriminate. eauto.
Qed.

(* ---------------------------------------------------------------- == implies zsim *)
Lemma list_eqb_impl : forall (f g : tree -> tree -> bool) xs ys,
  Forall (fun x => forall y, f x y = true -> g x y = true) xs ->
  (fix go (xs ys : list tree) {struct xs} : bool :=
     match xs, ys with
     | [], [] => true
     | x :: xs', y :: ys' => f x y && go xs' ys'
     | _, _ => false
     end) xs ys = true -> list_eqb g xs ys = true.
Proof.
  intros f g xs ys H. revert ys. induction H as [|x xs Hx _ IH]; intros [|y ys] He; try discriminate; [reflexivity|].
  apply andb_prop in He as [H1 H2]. cbn. rewrite (Hx y H1). apply IH. exact H2.
Qed.

Lemma incl_exists_impl : forall (f g : tree -> tree -> bool) xs ys,
  Forall (fun x => forall y, f x y = true -> g x y = true) xs ->
  (fix all (xs : list tree) : bool :=
     match xs with [] => true | x :: xs' => existsb (fun y => f x y) ys && all xs' end) xs = true ->
  forallb (fun x => existsb (fun y => g x y) ys) xs = true.
Proof.
  intros f g xs ys H. induction H as [|x xs Hx _ IH]; intro He; [reflexivity|].
  apply andb_prop in He as [H1 H2]. cbn. rewrite (IH H2), andb_true_r.
  apply existsb_exists in H1. destruct H1 as [y [Hy Hf]]. apply existsb_exists. exists y. split; [exact Hy|apply Hx; exact Hf].
Qed.

Theorem node_zsim : forall a b, node_eqb a b = true -> zsim a b = true.
Proof.
  apply (tree_ind' (fun a => forall b, node_eqb a b = true -> zsim a b = true)).
  - intros x [y| | | |] H; try discriminate. exact H.
  - intros ale alsl cs IH [y|ale' alsl' ds| | |] H; try discriminate. cbn [node_eqb zsim] in *.
    rewrite (list_eqb_impl node_eqb zsim cs ds IH H). reflexivity.
  - intros ake k v IHk IHv [y| |ake' k' v'| |] H; try discriminate. cbn [node_eqb zsim] in *.
    apply andb_prop in H as [H1 H2]. rewrite (IHk _ H1), (IHv _ H2). reflexivity.
  - intros amk cs IH [y| | |amk' ds|] H; try discriminate. cbn [node_eqb zsim] in *.
    apply andb_prop in H as [H1 H2]. rewrite H1. cbn [andb]. exact (incl_exists_impl node_eqb zsim cs ds IH H2).
  - intros cs IH [y| | | |ds] H; try discriminate. cbn [node_eqb zsim] in *.
    apply andb_prop in H as [H1 H2]. rewrite H1. cbn [andb]. exact (incl_exists_impl node_eqb zsim cs ds IH H2).
Qed.

(* ---------------------------------------------------------------- reading the three script predicates together *)
Definition sinfo (a b : tree) (k : kind) (s : sub) : Prop :=
  match s with
  | SPair i j e => exists x y, nth_error (children a) i = Some x /\ nth_error (children b) j = Some y /\
                               valid x y e = true /\ additive e = true /\ priced x y e = true
  | SRem i c => exists x, nth_error (children a) i = Some x /\ size x + pen_of k a b <= c
  | SIns j c => exists y, nth_error (children b) j = Some y /\ size y + pen_of k a b <= c
  end.

Lemma sinfo_all : forall a b k subs,
  (fix all (ss : list sub) : bool :=
     match ss with
     | [] => true
     | SPair i j e' :: ss' =>
         match nth_error (children a) i, nth_error (children b) j with
         | Some x, Some y => valid x y e' && all ss'
         | _, _ => false
         end
     | _ :: ss' => all ss'
     end) subs = true ->
  (fix all (ss : list sub) : bool :=
     match ss with
     | [] => true
     | SPair _ _ e' :: ss' => additive e' && all ss'
     | _ :: ss' => all ss'
     end) subs = true ->
  (fix all (ss : list sub) : bool :=
     match ss with
     | [] => true
     | SPair i j e' :: ss' =>
         match nth_error (children a) i, nth_error (children b) j with
         | Some x, Some y => priced x y e' && all ss'
         | _, _ => false
         end
     | SRem i c :: ss' =>
         match nth_error (children a) i with
         | Some x => (size x + pen_of k a b <=? c) && all ss'
         | None => false
         end
     | SIns j c :: ss' =>
         match nth_error (children b) j with
         | Some y => (size y + pen_of k a b <=? c) && all ss'
         | None => false
         end
     end) subs = true ->
  Forall (sinfo a b k) subs.
Proof.
  intros a b k subs. induction subs as [|s ss IH]; intros Hv Ha Hp; [constructor|].
  destruct s as [i j e|i c|j c].
  - destruct (nth_error (children a) i) as [x|] eqn:Ex; [|discriminate].
    destruct (nth_error (children b) j) as [y|] eqn:Ey; [|discriminate].
    apply andb_prop in Hv as [Hv1 Hv2]. apply andb_prop in Ha as [Ha1 Ha2]. apply andb_prop in Hp as [Hp1 Hp2].
    constructor; [|apply IH; assumption]. cbn. rewrite Ex, Ey. exists x, y. auto.
  - destruct (nth_error (children a) i) as [x|] eqn:E; [|discriminate]. apply andb_prop in Hp as [Hp1 Hp2].
    constructor; [|apply IH; assumption]. cbn. rewrite E. exists x. split; [reflexivity|]. apply Z.leb_le. exact Hp1.
  - destruct (nth_error (children b) j) as [y|] eqn:E; [|discriminate]. apply andb_prop in Hp as [Hp1 Hp2].
    constructor; [|apply IH; assumption]. cbn. rewrite E. exists y. split; [reflexivity|]. apply Z.leb_le. exact Hp1.
Qed.

(* what a zero-cost sub-edit says about the children it names *)
Definition zfact (A B : list tree) (pen : Z) (s : sub) : Prop :=
  match s with
  | SPair i j _ => exists x y, nth_error A i = Some x /\ nth_error B j = Some y /\ zsim x y = true
  | SRem i _ => pen = 0 /\ exists x, nth_error A i = Some x /\ empty_leaf x = true
  | SIns j _ => pen = 0 /\ exists y, nth_error B j = Some y /\ empty_leaf y = true
  end.

Lemma pen_of_range : forall k a b, pen_of k a b = 0 \/ pen_of k a b = 1.
Proof. intros k a b. unfold pen_of. destruct k; auto. destruct (_ && _); auto. Qed.

Lemma pen_of_zero : forall k a b, pen_of k a b = 0 ->
  all_leaves (children a) = true /\ all_leaves (children b) = true.
Proof.
  intros k a b H. unfold pen_of in H. destruct k; try discriminate.
  destruct (all_leaves (children a)), (all_leaves (children b)); cbn in H; try discriminate. auto.
Qed.

(* ---------------------------------------------------------------- ordered containers *)
Lemma seq_cons_inv : forall i rest s n, i :: rest = seq s n -> exists n', n = S n' /\ i = s /\ rest = seq (S s) n'.
Proof. intros i rest s [|n'] H; cbn in H; [discriminate|]. inversion H. eauto. Qed.

Lemma ordered_zero : forall A B subs i0 j0,
  Forall (zfact A B 1) subs ->
  flat_map from_idx subs = seq i0 (length A - i0) -> flat_map to_idx subs = seq j0 (length B - j0) ->
  list_eqb zsim (skipn i0 A) (skipn j0 B) = true.
Proof.
  intros A B subs. induction subs as [|s ss IH]; intros i0 j0 HF Hf Ht.
  - cbn in Hf, Ht. destruct (length A - i0)%nat eqn:Ea; [|discriminate]. destruct (length B - j0)%nat eqn:Eb; [|discriminate].
    rewrite !skipn_all2 by lia. reflexivity.
  - inversion HF as [|? ? Hs HF']; subst. destruct s as [i j e|i c|j c]; cbn in Hs.
    + destruct Hs as [x [y [Hx [Hy Hz]]]]. cbn in Hf, Ht.
      apply seq_cons_inv in Hf. destruct Hf as [n' [En [-> Hf]]].
      apply seq_cons_inv in Ht. destruct Ht as [m' [Em [-> Ht]]].
      rewrite (skipn_nth_error A i0 x Hx), (skipn_nth_error B j0 y Hy). cbn [list_eqb]. rewrite Hz. cbn [andb].
      apply IH; [exact HF'| |].
      * rewrite Hf. f_equal. lia.
      * rewrite Ht. f_equal. lia.
    + destruct Hs as [Hs _]. discriminate.
    + destruct Hs as [Hs _]. discriminate.
Qed.

Lemma ordered_zero_leaves : forall A B, all_leaves A = true -> all_leaves B = true ->
  forall subs i0 j0,
  Forall (zfact A B 0) subs ->
  flat_map from_idx subs = seq i0 (length A - i0) -> flat_map to_idx subs = seq j0 (length B - j0) ->
  list_eqb leaf_sim (filter nonempty (skipn i0 A)) (filter nonempty (skipn j0 B)) = true.
Proof.
  intros A B HA HB subs. induction subs as [|s ss IH]; intros i0 j0 HF Hf Ht.
  - cbn in Hf, Ht. destruct (length A - i0)%nat eqn:Ea; [|discriminate]. destruct (length B - j0)%nat eqn:Eb; [|discriminate].
    rewrite !skipn_all2 by lia. reflexivity.
  - inversion HF as [|? ? Hs HF']; subst. destruct s as [i j e|i c|j c]; cbn in Hs.
    + destruct Hs as [x [y [Hx [Hy Hz]]]]. cbn in Hf, Ht.
      apply seq_cons_inv in Hf. destruct Hf as [n' [En [-> Hf]]].
      apply seq_cons_inv in Ht. destruct Ht as [m' [Em [-> Ht]]].
      rewrite (skipn_nth_error A i0 x Hx), (skipn_nth_error B j0 y Hy).
      destruct (all_leaves_nth A i0 x HA Hx) as [p ->]. destruct (all_leaves_nth B j0 y HB Hy) as [q ->].
      cbn [zsim] in Hz. pose proof (py_eqb_empty p q Hz) as He.
      assert (Hrest : list_eqb leaf_sim (filter nonempty (skipn (S i0) A)) (filter nonempty (skipn (S j0) B)) = true).
      { apply IH; [exact HF'| |]; [rewrite Hf|rewrite Ht]; f_equal; lia. }
      assert (Hn : nonempty (Leaf p) = nonempty (Leaf q)) by (unfold nonempty; rewrite He; reflexivity).
      cbn [filter]. rewrite Hn. destruct (nonempty (Leaf q)); [|exact Hrest].
      cbn [list_eqb leaf_sim]. rewrite Hz. exact Hrest.
    + destruct Hs as [_ [x [Hx He]]]. cbn in Hf, Ht.
      apply seq_cons_inv in Hf. destruct Hf as [n' [En [-> Hf]]].
      assert (Hn : nonempty x = false) by (unfold nonempty; rewrite He; reflexivity).
      rewrite (skipn_nth_error A i0 x Hx). cbn [filter]. rewrite Hn.
      apply IH; [exact HF'| |exact Ht]. rewrite Hf. f_equal. lia.
    + destruct Hs as [_ [y [Hy He]]]. cbn in Hf, Ht.
      apply seq_cons_inv in Ht. destruct Ht as [m' [Em [-> Ht]]].
      assert (Hn : nonempty y = false) by (unfold nonempty; rewrite He; reflexivity).
      rewrite (skipn_nth_error B j0 y Hy). cbn [filter]. rewrite Hn.
      apply IH; [exact HF'|exact Hf|]. rewrite Ht. f_equal. lia.
Qed.

(* ---------------------------------------------------------------- unordered containers *)
Lemma sort_nat_length : forall l, length (sort_nat l) = length l.
Proof. intro l. symmetry. apply Permutation_length. apply sort_nat_perm. Qed.

Lemma unordered_zero : forall A B subs,
  Forall (zfact A B 1) subs ->
  sort_nat (flat_map from_idx subs) = seq 0 (length A) -> sort_nat (flat_map to_idx subs) = seq 0 (length B) ->
  Nat.eqb (length A) (length B) && forallb (fun x => existsb (fun y => zsim x y) B) A = true.
Proof.
  intros A B subs HF Hf Ht.
  assert (Hpairs : forall s, In s subs -> exists i j e, s = SPair i j e).
  { rewrite Forall_forall in HF. intros s Hs. specialize (HF s Hs). destruct s as [i j e|i c|j c]; cbn in HF.
    - eauto.
    - destruct HF as [HF _]. discriminate.
    - destruct HF as [HF _]. discriminate. }
  assert (Hlen : length (flat_map from_idx subs) = length (flat_map to_idx subs)).
  { clear -Hpairs. induction subs as [|s ss IH]; [reflexivity|].
    destruct (Hpairs s (or_introl eq_refl)) as [i [j [e ->]]]. cbn. f_equal. apply IH. intros s Hs. apply Hpairs. right. exact Hs. }
  apply andb_true_intro. split.
  - apply Nat.eqb_eq. rewrite <- (seq_length (length A) 0), <- Hf, <- (seq_length (length B) 0), <- Ht.
    rewrite !sort_nat_length. exact Hlen.
  - apply forallb_forall. intros x Hx. apply In_nth_error in Hx. destruct Hx as [i Hi].
    assert (Hin : In i (flat_map from_idx subs)).
    { apply (Permutation_in i (Permutation_sym (sort_nat_perm _))). rewrite Hf. apply in_seq.
      assert (i < length A)%nat by (apply nth_error_Some; congruence). lia. }
    apply in_flat_map in Hin. destruct Hin as [s [Hs Hi']].
    rewrite Forall_forall in HF. specialize (HF s Hs). destruct s as [i' j e|i' c|j c]; cbn in HF, Hi'.
    + destruct Hi' as [<-|[]]. destruct HF as [x' [y [Hx' [Hy Hz]]]]. rewrite Hi in Hx'. inversion Hx'; subst x'.
      apply existsb_exists. exists y. split; [eapply nth_error_In; exact Hy|exact Hz].
    + destruct HF as [HF _]. discriminate.
    + destruct Hi'.
Qed.

(* ---------------------------------------------------------------- the theorem *)
Definition Pspec (e : edit) : Prop := forall a b,
  numtext_ok a = true -> numtext_ok b = true ->
  valid a b e = true -> additive e = true -> priced a b e = true ->
  0 <= cost e /\ (cost e = 0 -> zsim a b = true).

Theorem spec_sound : forall e, Pspec e.
Proof.
  apply edit_ind'.
  - intros c a b _ _ _ _ Hp. cbn in *. apply andb_prop in Hp as [H0 H1]. apply Z.leb_le in H0. split; [exact H0|].
    intro Hc. subst c. cbn in H1. apply node_zsim. exact H1.
  - intros c a b _ _ _ _ Hp. cbn in *. apply Z.ltb_lt in Hp. split; lia.
  - intros c ops a b _ _ _ _ Hp. cbn in *. apply Z.ltb_lt in Hp. split; lia.
  - intros k c subs IH a b Hna Hnb Hv Ha Hp. cbn [cost].
    cbn [valid] in Hv. apply andb_prop in Hv as [Hv Hvall]. apply andb_prop in Hv as [Hfit Hidx].
    cbn [additive] in Ha. apply andb_prop in Ha as [Hc Haall]. apply Z.eqb_eq in Hc.
    cbn [priced] in Hp.
    pose proof (sinfo_all a b k subs Hvall Haall Hp) as Hinfo. clear Hvall Haall Hp.
    set (pen := pen_of k a b) in *.
    assert (Hsub : Forall (fun s => 0 <= sub_cost s /\ (sub_cost s = 0 -> zfact (children a) (children b) pen s)) subs).
    { rewrite Forall_forall in *. intros s Hs. specialize (IH s Hs). specialize (Hinfo s Hs).
      destruct s as [i j e|i c'|j c']; cbn [sub_cost sinfo zfact] in *.
      - destruct Hinfo as [x [y [Hx [Hy [Hv' [Ha' Hp']]]]]].
        destruct (IH x y) as [H0 Hz]; auto.
        + eapply numtext_child; [exact Hna|eapply nth_error_In; exact Hx].
        + eapply numtext_child; [exact Hnb|eapply nth_error_In; exact Hy].
        + split; [exact H0|]. intro Hz0. exists x, y. auto.
      - destruct Hinfo as [x [Hx Hle]]. pose proof (size_nonneg x) as Hsz. fold pen in Hle.
        destruct (pen_of_range k a b) as [Hpen|Hpen]; fold pen in Hpen; (split; [lia|]); intro Hc0; [|lia].
        split; [exact Hpen|]. exists x. split; [exact Hx|].
        destruct (pen_of_zero k a b Hpen) as [HA _]. destruct (all_leaves_nth _ _ _ HA Hx) as [l ->].
        apply size0_empty; [|cbn in Hsz; cbn [size] in Hle; lia].
        unfold numtext_ok in Hna. rewrite forallb_forall in Hna. apply Hna.
        apply (leaves_child a (Leaf l) (nth_error_In _ _ Hx)). left. reflexivity.
      - destruct Hinfo as [y [Hy Hle]]. pose proof (size_nonneg y) as Hsz. fold pen in Hle.
        destruct (pen_of_range k a b) as [Hpen|Hpen]; fold pen in Hpen; (split; [lia|]); intro Hc0; [|lia].
        split; [exact Hpen|]. exists y. split; [exact Hy|].
        destruct (pen_of_zero k a b Hpen) as [_ HB]. destruct (all_leaves_nth _ _ _ HB Hy) as [l ->].
        apply size0_empty; [|cbn in Hsz; cbn [size] in Hle; lia].
        unfold numtext_ok in Hnb. rewrite forallb_forall in Hnb. apply Hnb.
        apply (leaves_child b (Leaf l) (nth_error_In _ _ Hy)). left. reflexivity. }
    assert (Hnn : Forall (fun x => 0 <= x) (map sub_cost subs)).
    { apply Forall_forall. intros z Hz. apply in_map_iff in Hz. destruct Hz as [s [<- Hs]].
      rewrite Forall_forall in Hsub. apply (Hsub s Hs). }
    split; [rewrite Hc; apply zsum_nonneg'; exact Hnn|]. intro Hc0.
    assert (Hz : Forall (zfact (children a) (children b) pen) subs).
    { rewrite Hc0 in Hc. symmetry in Hc. pose proof (zsum_zero_all _ Hnn Hc) as Hall.
      rewrite Forall_forall in *. intros s Hs. apply (Hsub s Hs). apply Hall. apply in_map. exact Hs. }
    clear Hsub Hnn Hinfo IH.
    destruct k; destruct a as [x|ale alsl cs|ake ka va|amk cs|cs]; try discriminate Hfit;
      destruct b as [y|ale' alsl' ds|ake' kb vb|amk' ds|ds]; try discriminate Hfit;
      cbn [ordered_kind children] in *; apply andb_prop in Hidx as [Hf Ht];
      apply nat_list_eqb_eq in Hf; apply nat_list_eqb_eq in Ht.
    + (* EditDistance on two lists *)
      assert (Hf0 : flat_map from_idx subs = seq 0 (length cs - 0)) by (rewrite Nat.sub_0_r; exact Hf).
      assert (Ht0 : flat_map to_idx subs = seq 0 (length ds - 0)) by (rewrite Nat.sub_0_r; exact Ht).
      cbn [zsim]. unfold pen, pen_of in Hz. cbn [children] in Hz.
      destruct (all_leaves cs) eqn:HA; [destruct (all_leaves ds) eqn:HB|]; cbn [andb] in *.
      * pose proof (ordered_zero_leaves cs ds HA HB subs 0 0 Hz Hf0 Ht0) as H. cbn [skipn] in H. rewrite H. apply orb_true_r.
      * pose proof (ordered_zero cs ds subs 0 0 Hz Hf0 Ht0) as H. cbn [skipn] in H. rewrite H. reflexivity.
      * pose proof (ordered_zero cs ds subs 0 0 Hz Hf0 Ht0) as H. cbn [skipn] in H. rewrite H. reflexivity.
    + (* FixedLengthSequenceEdit *)
      assert (Hf0 : flat_map from_idx subs = seq 0 (length cs - 0)) by (rewrite Nat.sub_0_r; exact Hf).
      assert (Ht0 : flat_map to_idx subs = seq 0 (length ds - 0)) by (rewrite Nat.sub_0_r; exact Ht).
      cbn [zsim]. pose proof (ordered_zero cs ds subs 0 0 Hz Hf0 Ht0) as H. cbn [skipn] in H. rewrite H. reflexivity.
    + (* MultiSetEdit *)
      cbn [zsim]. apply (unordered_zero cs ds subs Hz); assumption.
    + (* FixedKeyDictNodeEdit *)
      cbn [zsim]. apply (unordered_zero cs ds subs Hz); assumption.
    + (* KeyValuePairEdit *)
      cbn [zsim]. pose proof (ordered_zero [ka; va] [kb; vb] subs 0 0 Hz Hf Ht) as H. cbn in H.
      rewrite andb_true_r in H. exact H.
Qed.

(* the same, as the harness states it for one observed case *)
Corollary spec_ok_sound : forall c,
  numtext_ok (sc_a c) = true -> numtext_ok (sc_b c) = true ->
  valid (sc_a c) (sc_b c) (sc_edit c) = true -> additive (sc_edit c) = true ->
  priced (sc_a c) (sc_b c) (sc_edit c) = true -> spec_ok c = true.
Proof.
  intros c Hna Hnb Hv Ha Hp. destruct (spec_sound (sc_edit c) _ _ Hna Hnb Hv Ha Hp) as [H0 Hz].
  unfold spec_ok. rewrite Hv, Ha, Hp. cbn [andb]. apply Z.leb_le in H0. rewrite H0. cbn [andb].
  destruct (Z.eqb_spec (cost (sc_edit c)) 0) as [E|E]; [cbn; apply Hz; exact E|reflexivity].
Qed.
