(* C17 — executable model of graphtage/bounds.py:285-441 (BoundedComparator, sort, min_bounded, make_distinct)
   and graphtage/search.py (IterativeTighteningSearch), definitions only.

   Items are schedules (SearchSpec.v); the state of all items is `its`, indexed by position in the input, and
   every tighten_bounds() call is logged in `evs` (most recent first).

   Adversary (address-/hash-/heap-structure-dependent) inputs, never computed by the model:
   * tie     : id(self) < id(other) inside BoundedComparator.__lt__
   * hops    : bounds.sort — the key comparisons the Fibonacci heap performs and the items it pops.  (This
               trace-validating model is kept for the correspondence; the heap is modelled in full in SortModel.v
               and the ordering theorem is proved there without any heap oracle.)  Here the heap is
               abstracted as a validated oracle: a pop of item i is accepted only when the outcomes of the
               comparisons performed so far imply (by transitivity) key i <= key j for every item j still inside;
               otherwise the model answers BadTrace.
   * hints   : make_distinct — which maximal interval the iteration over the interval tree / the matching set
               meets first (a hint that is not a maximal candidate is ignored: first maximal in list order);
               search — which minimal-key node heap._min points to after a pop() (a hint that is not a
               minimal-key node is ignored: first minimal in list order).  The head of a model heap is heap._min.

   Specialisations (stated, checked by the harness on every run): initial_bounds is the default Range(-inf, +inf),
   so `initial_bounds.lower_bound > NEGATIVE_INFINITY` is False; in tighten_bounds' `for node in list(min_node)`
   the first node (heap._min) is the one tightened - if its tighten_bounds() returns False the model answers
   Unmodelled (impossible for sound items: every item in _untightened is non-definitive, hence not exhausted;
   without loss of generality: see stb_body_g below, where the rest of that loop is an arbitrary continuation);
   `list(None)` on an empty _untightened heap is Crash (TypeError). *)
From Coq Require Import List Bool ZArith Lia.
Require Import GT.BoundsSpec GT.SearchSpec.
Import ListNotations.
Open Scope Z_scope.

Inductive outcome (A : Type) :=
| Done (a : A) | OutOfFuel | Crash | Unmodelled | BadTrace | ValueErr.
Arguments Done {A} a. Arguments OutOfFuel {A}. Arguments Crash {A}. Arguments Unmodelled {A}.
Arguments BadTrace {A}. Arguments ValueErr {A}.

Definition obind {A B} (o : outcome A) (f : A -> outcome B) : outcome B :=
  match o with
  | Done a => f a | OutOfFuel => OutOfFuel | Crash => Crash | Unmodelled => Unmodelled
  | BadTrace => BadTrace | ValueErr => ValueErr
  end.

(* ------------------------------------------------------------------ items *)

Record ms := mkMs { its : list schedule; evs : list ev }.

Definition cur (s : schedule) : range := hd full_range s.
Definition sched_of (m : ms) (i : nat) : schedule := nth i (its m) [].
Definition bounds (m : ms) (i : nat) : range := cur (sched_of m i).

Fixpoint upd {A} (i : nat) (x : A) (l : list A) : list A :=
  match l, i with
  | [], _ => []
  | _ :: t, O => x :: t
  | h :: t, S j => h :: upd j x t
  end.

(* item.tighten_bounds(): pop; True iff something was popped *)
Definition tighten (m : ms) (i : nat) : bool * ms :=
  match sched_of m i with
  | _ :: ((r2 :: _) as rest) => (true, mkMs (upd i rest (its m)) ((i, true, r2) :: evs m))
  | s => (false, mkMs (its m) ((i, false, cur s) :: evs m))
  end.

Definition mem (i : nat) (l : list nat) : bool := existsb (Nat.eqb i) l.
Fixpoint remove1 (i : nat) (l : list nat) : list nat :=
  match l with [] => [] | h :: t => if Nat.eqb i h then t else h :: remove1 i t end.

(* ------------------------------------------------------------------ BoundedComparator *)

(* the `while not (dominates or dominates) and (a.tighten_bounds() or b.tighten_bounds())` loop of __lt__ *)
Fixpoint cmp_loop (fuel : nat) (m : ms) (a b : nat) : outcome ms :=
  match fuel with
  | O => OutOfFuel
  | S f =>
      if dominates (bounds m a) (bounds m b) || dominates (bounds m b) (bounds m a) then Done m
      else let '(ta, m1) := tighten m a in
           if ta then cmp_loop f m1 a b
           else let '(tb, m2) := tighten m1 b in
                if tb then cmp_loop f m2 a b else Done m2
  end.

Definition cmp_lt (fuel : nat) (m : ms) (a b : nat) (tie : bool) : outcome (bool * ms) :=
  obind (cmp_loop fuel m a b) (fun m' =>
    Done (dominates (bounds m' a) (bounds m' b) || (range_eqb (bounds m' a) (bounds m' b) && tie), m')).

(* `while a.tighten_bounds() or b.tighten_bounds(): pass` of __le__ *)
Fixpoint drain (fuel : nat) (m : ms) (a b : nat) : outcome ms :=
  match fuel with
  | O => OutOfFuel
  | S f =>
      let '(ta, m1) := tighten m a in
      if ta then drain f m1 a b
      else let '(tb, m2) := tighten m1 b in
           if tb then drain f m2 a b else Done m2
  end.

Definition cmp_le (fuel : nat) (m : ms) (a b : nat) (tie : bool) : outcome (bool * ms) :=
  obind (cmp_lt fuel m a b tie) (fun '(r, m1) =>
    if r then Done (true, m1)
    else obind (drain fuel m1 a b) (fun m2 => Done (range_eqb (bounds m2 a) (bounds m2 b), m2))).

(* ------------------------------------------------------------------ min_bounded *)

Fixpoint minb_loop (fuel : nat) (m : ms) (best : nat) (rest : list nat) (ties : list bool)
  : outcome (nat * ms) :=
  match rest with
  | [] => Done (best, m)
  | b :: rest' =>
      obind (cmp_lt fuel m b best (hd false ties)) (fun '(r, m') =>
        minb_loop fuel m' (if r then b else best) rest' (tl ties))
  end.

Definition min_bounded (fuel : nat) (m : ms) (ids : list nat) (ties : list bool) : outcome (option nat * ms) :=
  match ids with
  | [] => Done (None, m)
  | b :: rest => obind (minb_loop fuel m b rest ties) (fun '(i, m') => Done (Some i, m'))
  end.

(* ------------------------------------------------------------------ sort: the heap as a validated oracle *)

(* (a, b) in edges: a comparison established key a <= key b (in final value) *)
Definition reach_step (edges : list (nat * nat)) (s : list nat) : list nat :=
  s ++ map snd (filter (fun e => mem (fst e) s) edges).
Fixpoint reach_iter (n : nat) (edges : list (nat * nat)) (s : list nat) : list nat :=
  match n with O => s | S k => reach_iter k edges (reach_step edges s) end.
Definition justified (edges : list (nat * nat)) (live : list nat) (i : nat) : bool :=
  let r := reach_iter (length live) edges [i] in forallb (fun j => mem j r) live.

Fixpoint sort_run (fuel : nat) (m : ms) (live : list nat) (edges : list (nat * nat)) (ops : list hop)
         (out : list nat) : outcome (list nat * ms) :=
  match ops with
  | [] => match live with [] => Done (rev out, m) | _ => BadTrace end
  | HCmp a b tie :: ops' =>
      if mem a live && mem b live then
        obind (cmp_lt fuel m a b tie) (fun '(r, m') =>
          sort_run fuel m' live ((if r then (a, b) else (b, a)) :: edges) ops' out)
      else BadTrace
  | HPop i :: ops' =>
      if mem i live && justified edges live i then sort_run fuel m (remove1 i live) edges ops' (i :: out)
      else BadTrace
  end.

Definition sort_model (fuel : nat) (m : ms) (ids : list nat) (ops : list hop) : outcome (list nat * ms) :=
  sort_run fuel m ids [] ops [].

(* ------------------------------------------------------------------ make_distinct *)

Definition ivl := (nat * Z * Z)%type.            (* Interval(begin, end, data = item) *)
Definition iv_id (x : ivl) : nat := fst (fst x).
Definition iv_b (x : ivl) : Z := snd (fst x).
Definition iv_e (x : ivl) : Z := snd x.
Definition iv_size (x : ivl) : Z := iv_e x - iv_b x.
Definition iv_of (m : ms) (i : nat) : ivl := (i, rv_z (lo (bounds m i)), rv_z (hi (bounds m i)) + 1).
Definition iv_overlap (b e : Z) (x : ivl) : bool := (iv_b x <? e) && (b <? iv_e x).
Definition tree_remove (i : nat) (t : list ivl) : list ivl := filter (fun x => negb (Nat.eqb (iv_id x) i)) t.
Definition max_size (t : list ivl) : Z := fold_right (fun x acc => Z.max (iv_size x) acc) 0 t.

(* `for m in ...: if biggest is None or m_size > biggest size: biggest = m`: the first interval of maximal size
   in iteration order; which one that is, is the adversary's hint *)
Definition choose_big (cands : list ivl) (hint : option nat) : option ivl :=
  let mx := max_size cands in
  let dflt := find (fun x => iv_size x =? mx) cands in
  match hint with
  | Some h => match find (fun x => Nat.eqb (iv_id x) h && (iv_size x =? mx)) cands with
              | Some x => Some x
              | None => dflt
              end
  | None => dflt
  end.

Fixpoint md_init (m : ms) (ids : list nat) (tree : list ivl) : outcome (ms * list ivl) :=
  match ids with
  | [] => Done (m, tree)
  | i :: rest =>
      if finite (bounds m i) then md_init m rest (tree ++ [iv_of m i])
      else let '(_, m1) := tighten m i in
           if finite (bounds m1 i) then md_init m1 rest (tree ++ [iv_of m1 i]) else ValueErr
  end.

Fixpoint pair_loop (fuel : nat) (m : ms) (a b : nat) : outcome ms :=
  match fuel with
  | O => OutOfFuel
  | S f =>
      let ra := bounds m a in
      let rb := bounds m b in
      if (definitive ra && definitive rb) || rv_ltb (hi ra) (lo rb) || rv_ltb (hi rb) (lo ra) then Done m
      else let '(_, m1) := tighten m a in
           let '(_, m2) := tighten m1 b in
           pair_loop f m2 a b
  end.

Definition readd (m : ms) (i : nat) (tree : list ivl) : list ivl :=
  let x := iv_of m i in
  if existsb (iv_overlap (iv_b x) (iv_e x)) tree then tree ++ [x] else tree.

Fixpoint md_loop (fuel : nat) (m : ms) (tree : list ivl) (hints : list nat) : outcome ms :=
  match fuel with
  | O => OutOfFuel
  | S f =>
      if (length tree <=? 1)%nat then Done m
      else match choose_big tree (hd_error hints) with
           | None => Crash
           | Some big =>
               if definitive (bounds m (iv_id big)) then Done m
               else
                 let tree1 := tree_remove (iv_id big) tree in
                 let matching := filter (iv_overlap (iv_b big) (iv_e big)) tree1 in
                 match choose_big matching (hd_error (tl hints)) with
                 | None => md_loop f m tree1 (tl hints)
                 | Some sec =>
                     let tree2 := tree_remove (iv_id sec) tree1 in
                     obind (pair_loop fuel m (iv_id big) (iv_id sec)) (fun m' =>
                       md_loop f m' (readd m' (iv_id sec) (readd m' (iv_id big) tree2)) (tl (tl hints)))
                 end
           end
  end.

Definition make_distinct (fuel : nat) (m : ms) (ids : list nat) (hints : list nat) : outcome ms :=
  obind (md_init m ids []) (fun '(m1, tree) => md_loop fuel m1 tree hints).

(* ------------------------------------------------------------------ IterativeTighteningSearch *)

Definition heap := list (nat * range).            (* (item, node.key); the head is heap._min *)

Definition hpush (h : heap) (x : nat * range) : heap :=
  match h with
  | [] => [x]
  | y :: r => if range_ltb (snd x) (snd y) then x :: y :: r else y :: x :: r      (* `node < self._min` *)
  end.

Definition min_key (h : heap) : range :=
  match h with
  | [] => full_range
  | x :: r => fold_left (fun acc y => if range_ltb (snd y) acc then snd y else acc) r (snd x)
  end.

Fixpoint hremove (i : nat) (h : heap) : heap :=
  match h with [] => [] | y :: r => if Nat.eqb (fst y) i then r else y :: hremove i r end.

(* heap._min after _extract_min()+_consolidate(): some node with a minimal key *)
Definition pick_min (h : heap) (hint : option nat) : heap :=
  let mk := min_key h in
  let dflt := find (fun y => range_eqb (snd y) mk) h in
  let chosen := match hint with
                | Some c => match find (fun y => Nat.eqb (fst y) c && range_eqb (snd y) mk) h with
                            | Some y => Some y
                            | None => dflt
                            end
                | None => dflt
                end in
  match chosen with
  | Some y => y :: hremove (fst y) h
  | None => h
  end.

Record sst := mkS { unp : option (list nat); unt : heap; tig : heap; hints : list nat }.

Definition init_bounds : range := full_range.

Definition push_item (s : sst) (m : ms) (i : nat) : sst :=
  if definitive (bounds m i) then mkS (unp s) (unt s) (hpush (tig s) (i, bounds m i)) (hints s)
  else mkS (unp s) (hpush (unt s) (i, bounds m i)) (tig s) (hints s).

(* decrease_key(node, Range(-inf, -inf)); pop()  for node = heap._min *)
Definition pop_unt (s : sst) : sst :=
  match unt s with
  | [] => s
  | _ :: [] => mkS (unp s) [] (tig s) (hints s)
  | _ :: rest => mkS (unp s) (pick_min rest (hd_error (hints s))) (tig s) (tl (hints s))
  end.

Definition best_match (s : sst) (m : ms) : option nat :=
  match unp s with
  | Some _ => None
  | None =>
      match unt s, tig s with
      | [], [] => None
      | (u, _) :: _, (t, _) :: _ => if range_ltb (bounds m u) (bounds m t) then Some u else Some t
      | [], (t, _) :: _ => Some t
      | (u, _) :: _, [] => Some u
      end
  end.

Definition sbounds (s : sst) (m : ms) : range :=
  match best_match s m with
  | None => init_bounds
  | Some b =>
      let lb0 := fold_left (fun lb y => rv_min (lo (snd y)) lb) (unt s ++ tig s) PosInf in
      let lb := if rv_eqb lb0 PosInf || rv_ltb lb0 (lo init_bounds) then lo init_bounds else lb0 in
      mkR (rv_min lb (hi (bounds m b))) (hi (bounds m b))
  end.

Definition goal_test (s : sst) (m : ms) : bool :=
  match unp s with
  | Some _ => false
  | None => match best_match s m with
            | Some b => dominates (bounds m b) (sbounds s m)
            | None => false
            end
  end.

(* _update_bounds(node) for node = (i, k) = the head of _untightened, just tightened *)
Definition update_bounds (s : sst) (m : ms) (i : nat) (k : range) : sst :=
  let dominated := match best_match s m with
                   | Some b => negb (Nat.eqb b i) && dominates (bounds m b) (bounds m i)
                   | None => false
                   end in
  if dominated then pop_unt s
  else if dominates init_bounds (bounds m i) then pop_unt s
  else if definitive (bounds m i) then
         let s1 := pop_unt s in mkS (unp s1) (unt s1) (hpush (tig s1) (i, bounds m i)) (hints s1)
  else if rv_ltb (lo k) (lo (bounds m i)) then
         let s1 := pop_unt s in mkS (unp s1) (hpush (unt s1) (i, bounds m i)) (tig s1) (hints s1)
  else s.

Definition is_none {A} (o : option A) : bool := match o with None => true | Some _ => false end.

(* one call of IterativeTighteningSearch.tighten_bounds(); `start` = starting_bounds; `k` = next iteration of
   its `while True` loop *)
Definition stb_result := outcome (bool * sst * ms).

(* the tail of the loop body: `if starting_bounds... return True / elif ... return False` / next iteration *)
Definition stb_finish (k : sst -> ms -> stb_result) (start : range) (s' : sst) (m' : ms) (tightened : bool)
  : stb_result :=
  let nb := sbounds s' m' in
  if rv_ltb (lo start) (lo nb) || rv_ltb (hi nb) (hi start) then Done (true, s', m')
  else if is_none (unp s') && negb tightened then Done (false, s', m')
  else k s' m'.

(* `if self._unprocessed is not None: try: next_best = next(...) ... except StopIteration: ... = None` *)
Definition stb_pull (s : sst) (m : ms) : sst :=
  match unp s with
  | Some (x :: rest) => push_item (mkS (Some rest) (unt s) (tig s) (hints s)) m x
  | Some [] => mkS None (unt s) (tig s) (hints s)
  | None => s
  end.

(* `if len(self._untightened) == 1: ...` *)
Definition stb_len1 (s1 : sst) (m : ms) : sst * ms :=
  match unt s1 with
  | [(u, _)] => let '(t, m') := tighten m u in
                if t && definitive (bounds m' u)
                then (mkS (unp s1) [] (hpush (tig s1) (u, bounds m' u)) (hints s1), m')
                else (s1, m')
  | _ => (s1, m)
  end.

Definition stb_body (k : sst -> ms -> stb_result) (start : range) (s : sst) (m : ms) : stb_result :=
  let s1 := stb_pull s m in
  match unt s1 with
  | [] => stb_finish k start s1 m false
  | _ :: _ =>
      let '(s2, m2) := if is_none (unp s1) then stb_len1 s1 m else (s1, m) in
      if is_none (unp s1) && goal_test s2 m2 then
        match best_match s2 m2 with
        | Some best =>
            let '(ret, m3) := tighten m2 best in
            let s3 := push_item (mkS (unp s2) [] [] (hints s2)) m3 best in
            let nb := sbounds s3 m3 in
            (* `return ret or starting_bounds.lower_bound < self.bounds().lower_bound or ... > ...upper_bound` *)
            Done (ret || rv_ltb (lo start) (lo nb) || rv_ltb (hi nb) (hi start), s3, m3)
        | None => Crash
        end
      else
        match unt s2 with
        | [] => Crash                                   (* list(None): TypeError *)
        | (i, k0) :: _ =>
            let '(t, m3) := tighten m2 i in
            if t then stb_finish k start (update_bounds s2 m3 i k0) m3 true else Unmodelled
        end
  end.

Fixpoint stb_loop (fuel : nat) (start : range) (s : sst) (m : ms) : stb_result :=
  match fuel with
  | O => OutOfFuel
  | S f => stb_body (stb_loop f start) start s m
  end.

Definition search_tighten (fuel : nat) (s : sst) (m : ms) : outcome (bool * sst * ms) :=
  stb_loop fuel (sbounds s m) s m.

Fixpoint search_loop (fuel inner : nat) (s : sst) (m : ms) (rets : list bool) : outcome (sst * ms * list bool) :=
  match fuel with
  | O => OutOfFuel
  | S f => obind (search_tighten inner s m) (fun '(r, s', m') =>
             if r then search_loop f inner s' m' (rets ++ [true]) else Done (s', m', rets ++ [false]))
  end.

(* search() followed by bounds(); rets = the values returned by the calls of tighten_bounds() inside search() *)
Definition search (fuel : nat) (m : ms) (ids : list nat) (hints : list nat)
  : outcome (option nat * range * list bool * ms) :=
  obind (search_loop fuel fuel (mkS (Some ids) [] [] hints) m []) (fun '(s, m', rets) =>
    Done (best_match s m', sbounds s m', rets, m')).

(* The same search with the remaining iterations of `for node in list(self._untightened.min_node)` left completely
   open: `alt s m` stands for whatever the loop does (with the later nodes of the pre-order walk) after the
   tighten_bounds() of its first node, heap._min, has returned False.  SearchProofs.C17_search_general: for sound
   items the result is the same for every `alt`, i.e. that continuation is dead code and modelling only the first
   node is without loss of generality. *)
Definition stb_body_g (alt : sst -> ms -> stb_result) (k : sst -> ms -> stb_result) (start : range) (s : sst) (m : ms)
  : stb_result :=
  let s1 := stb_pull s m in
  match unt s1 with
  | [] => stb_finish k start s1 m false
  | _ :: _ =>
      let '(s2, m2) := if is_none (unp s1) then stb_len1 s1 m else (s1, m) in
      if is_none (unp s1) && goal_test s2 m2 then
        match best_match s2 m2 with
        | Some best =>
            let '(ret, m3) := tighten m2 best in
            let s3 := push_item (mkS (unp s2) [] [] (hints s2)) m3 best in
            let nb := sbounds s3 m3 in
            Done (ret || rv_ltb (lo start) (lo nb) || rv_ltb (hi nb) (hi start), s3, m3)
        | None => Crash
        end
      else
        match unt s2 with
        | [] => Crash
        | (i, k0) :: _ =>
            let '(t, m3) := tighten m2 i in
            if t then stb_finish k start (update_bounds s2 m3 i k0) m3 true else alt s2 m3
        end
  end.

Fixpoint stb_loop_g (alt : sst -> ms -> stb_result) (fuel : nat) (start : range) (s : sst) (m : ms) : stb_result :=
  match fuel with
  | O => OutOfFuel
  | S f => stb_body_g alt (stb_loop_g alt f start) start s m
  end.

Definition search_tighten_g alt (fuel : nat) (s : sst) (m : ms) : outcome (bool * sst * ms) :=
  stb_loop_g alt fuel (sbounds s m) s m.

Fixpoint search_loop_g alt (fuel inner : nat) (s : sst) (m : ms) (rets : list bool)
  : outcome (sst * ms * list bool) :=
  match fuel with
  | O => OutOfFuel
  | S f => obind (search_tighten_g alt inner s m) (fun '(r, s', m') =>
             if r then search_loop_g alt f inner s' m' (rets ++ [true]) else Done (s', m', rets ++ [false]))
  end.

Definition search_g alt (fuel : nat) (m : ms) (ids : list nat) (hints : list nat)
  : outcome (option nat * range * list bool * ms) :=
  obind (search_loop_g alt fuel fuel (mkS (Some ids) [] [] hints) m []) (fun '(s, m', rets) =>
    Done (best_match s m', sbounds s m', rets, m')).

(* ------------------------------------------------------------------ correspondence *)

Definition total_len (items : list schedule) : nat := fold_right (fun s acc => (length s + acc)%nat) O items.
(* sufficient fuel for every loop above (SearchProofs.v): remaining schedule length plus a constant per item *)
Definition fuel_for (items : list schedule) : nat := (total_len items + 2 * length items + 4)%nat.

Definition ev_eqb (a b : ev) : bool :=
  Nat.eqb (fst (fst a)) (fst (fst b)) && Bool.eqb (snd (fst a)) (snd (fst b)) && range_eqb (snd a) (snd b).
Fixpoint list_eqb {A} (eqb : A -> A -> bool) (l1 l2 : list A) : bool :=
  match l1, l2 with
  | [], [] => true
  | a :: t1, b :: t2 => eqb a b && list_eqb eqb t1 t2
  | _, _ => false
  end.
Definition onat_eqb (a b : option nat) : bool :=
  match a, b with Some x, Some y => Nat.eqb x y | None, None => true | _, _ => false end.

Definition model_run (c : case) : outcome (obs * ms) :=
  let items := c_items c in
  let m := mkMs items [] in
  let ids := seq 0 (length items) in
  let fuel := fuel_for items in
  let o := c_oracle c in
  match c_op c with
  | OpLt => obind (cmp_lt fuel m 0 1 (hd false (o_ties o))) (fun '(r, m') => Done (OBool r, m'))
  | OpLe => obind (cmp_le fuel m 0 1 (hd false (o_ties o))) (fun '(r, m') => Done (OBool r, m'))
  | OpMin => obind (min_bounded fuel m ids (o_ties o)) (fun '(r, m') => Done (OItem r, m'))
  | OpSort => obind (sort_model fuel m ids (o_hops o)) (fun '(l, m') => Done (OList l, m'))
  | OpDistinct => match make_distinct fuel m ids (o_hints o) with
                  | Done m' => Done (ORanges (map cur (its m')), m')
                  | ValueErr => Done (OValueError, m)
                  | OutOfFuel => OutOfFuel | Crash => Crash | Unmodelled => Unmodelled | BadTrace => BadTrace
                  end
  | OpSearch => obind (search fuel m ids (o_hints o)) (fun '(b, r, rets, m') => Done (OSearch b r rets, m'))
  end.

Definition obs_eqb (a b : obs) : bool :=
  match a, b with
  | OBool x, OBool y => Bool.eqb x y
  | OItem x, OItem y => onat_eqb x y
  | OList x, OList y => list_eqb Nat.eqb x y
  | ORanges x, ORanges y => list_eqb range_eqb x y
  | OSearch x r a, OSearch y q b => onat_eqb x y && range_eqb r q && list_eqb Bool.eqb a b
  | OValueError, OValueError => true
  | _, _ => false
  end.

(* the implementation's result and (except after a ValueError, where the model keeps no log) its sequence of
   tighten_bounds() calls equal the model's, the model being given the adversary choices observed in the run *)
Definition corr_C17 (c : case) : bool :=
  match model_run c with
  | Done (r, m') =>
      obs_eqb r (c_obs c) &&
      match r with OValueError => true | _ => list_eqb ev_eqb (rev (evs m')) (c_events c) end
  | _ => false
  end.
