(* Vocabulary for the structural facts about the edit-distance engine (proved in EdEngineProofs.v,
   used by ScriptProofs.v). *)
From Coq Require Import ZArith List Bool Lia.
Require Import GT.Data GT.EdEngine.
Import ListNotations.
Open Scope Z_scope.

Definition dims_ok (rc ic : list Z) (mcs : list (list Z)) : Prop :=
  length mcs = length ic /\ Forall (fun row => length row = length rc) mcs.

Definition op_from (o : op) : list nat := match o with OMatch c _ | ORem c => [c] | OIns _ => [] end.
Definition op_to (o : op) : list nat := match o with OMatch _ r | OIns r => [r] | ORem _ => [] end.

Definition op_cost (rc ic : list Z) (mcs : list (list Z)) (o : op) : Z :=
  match o with
  | ORem c => nth c rc 0
  | OIns r => nth r ic 0
  | OMatch c r => nth c (nth r mcs []) 0
  end.

Definition op_in_range (rc ic : list Z) (o : op) : Prop :=
  match o with
  | OMatch c r => (c < length rc)%nat /\ (r < length ic)%nat
  | ORem c => (c < length rc)%nat
  | OIns r => (r < length ic)%nat
  end.
