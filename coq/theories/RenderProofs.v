(* C06: proofs about the model of the rendered diff (RenderModel.v), for all trees, scripts and layouts.
   Contents: the lexer and the tokens of a plain print; what each projection of a rendered script spells
   (redit_spells / jrender_spells); change marks (marks_jrender, qn_cost); ordered containers: the projections are the
   documents token for token (nproj_doc); reading back through C12 (reads_ttoks); mappings: the projections are the
   documents up to member order (sort_members_perm, nproj_same, C06_text_all); edit_ok from C01 (valid_edit_ok);
   well-priced scripts (node_alike, priced_fair, priced_pos, C06_priced_text_all / C06_priced_marks_all); the D33
   carve-out on documents (nomil_clean); the bridge to implementation cases (C06_bridge_all).
   The theorems about the MODEL's scripts are in RenderScriptProofs.v. *)
From Coq Require Import List Bool ZArith Lia Arith Permutation.
Require Import GT.PyBase GT.Data GT.ScriptSpec GT.ListAux GT.JsonSpec GT.JsonModel GT.JsonProofs GT.EqualSpec GT.RenderSpec GT.RenderModel.
Import ListNotations.
Open Scope Z_scope.

(* ------------------------------------------------------------------ induction on scripts *)
Section EditInd.
  Variable P : edit -> Prop.
  Hypothesis Hm : forall c, P (EMatch c).
  Hypothesis Hr : forall c, P (EReplace c).
  Hypothesis Hs : forall c ops, P (EStr c ops).
  Hypothesis Hc : forall k c subs, Forall (fun s => match s with SPair _ _ e => P e | _ => True end) subs -> P (EComp k c subs).
  Fixpoint edit_ind2 (e : edit) : P e :=
    match e with
    | EMatch c => Hm c
    | EReplace c => Hr c
    | EStr c ops => Hs c ops
    | EComp k c subs =>
        Hc k c subs ((fix go (ss : list sub) : Forall (fun s => match s with SPair _ _ e => P e | _ => True end) ss :=
                        match ss with
                        | [] => Forall_nil _
                        | SPair i j e' :: ss' => Forall_cons (SPair i j e') (edit_ind2 e') (go ss')
                        | SRem i c' :: ss' => Forall_cons (SRem i c') I (go ss')
                        | SIns j c' :: ss' => Forall_cons (SIns j c') I (go ss')
                        end) subs)
    end.
End EditInd.

(* ------------------------------------------------------------------ erase / marks on streams *)

Lemma erase_app : forall m s t, erase m (s ++ t) = erase m s ++ erase m t.
Proof. intros. unfold erase. rewrite filter_app, map_app. reflexivity. Qed.

Lemma erase_cons : forall m c x s, erase m ((c, x) :: s) = (if keeps m (c, x) then [c] else []) ++ erase m s.
Proof. intros. unfold erase. cbn [filter]. destruct (keeps m (c, x)); reflexivity. Qed.

Lemma erase_mk : forall m x s, erase m (mk x s) = if keeps m (0, x) then s else [].
Proof.
  intros m x s. unfold erase, keeps; cbn [snd]. induction s as [|c s IH]; cbn.
  - destruct (negb (mark_eqb x m) && negb (mark_eqb x Arrow)); reflexivity.
  - unfold keeps; cbn [snd]. destruct (negb (mark_eqb x m) && negb (mark_eqb x Arrow)); cbn; [f_equal|]; exact IH.
Qed.

Lemma erase_arrow : forall m, erase m arrow = [].
Proof. intro m. unfold arrow. rewrite erase_mk. unfold keeps; cbn. rewrite andb_false_r. reflexivity. Qed.

Lemma marks_app : forall s t, marks (s ++ t) = marks s ++ marks t.
Proof. intros. unfold marks. apply filter_app. Qed.

Lemma marks_mk_plain : forall s, marks (mk Plain s) = [].
Proof. induction s; cbn; auto. Qed.

Lemma marks_mk_other : forall m s, m <> Plain -> marks (mk m s) = mk m s.
Proof. intros m s H. induction s as [|c s IH]; cbn; [reflexivity|]. destruct m; try congruence; cbn; f_equal; exact IH. Qed.

(* ------------------------------------------------------------------ the lexer *)

Definition atomic (c : Z) : bool := negb (is_sepch c) && match punct c with None => true | Some _ => false end && negb (c =? 34).
Definition delim_start (r : list Z) : bool := match r with [] => true | c :: _ => negb (atomic c) end.

Lemma lex_sep : forall c r, is_sepch c = true -> lex LOut (c :: r) = lex LOut r.
Proof. intros c r H. cbn. rewrite H. reflexivity. Qed.

Lemma lex_seps : forall ws r, forallb is_sepch ws = true -> lex LOut (ws ++ r) = lex LOut r.
Proof.
  induction ws as [|c ws IH]; intros r H; [reflexivity|].
  cbn in H. apply andb_prop in H as [H1 H2]. cbn [app]. rewrite lex_sep by exact H1. apply IH. exact H2.
Qed.

Lemma ws_sepch : forall c, is_ws c = true -> is_sepch c = true.
Proof. intros c H. unfold is_sepch. rewrite H. reflexivity. Qed.

Lemma forallb_ws_sepch : forall l, forallb is_ws l = true -> forallb is_sepch l = true.
Proof.
  intros l H. rewrite forallb_forall in *. intros x Hx. apply ws_sepch. apply H. exact Hx.
Qed.

Lemma sep_sepch : forall b n, forallb is_sepch (sep b n) = true.
Proof. intros. apply forallb_ws_sepch. apply sep_ws. Qed.

Lemma lex_punct : forall c t r, punct c = Some t -> lex LOut (c :: r) = t :: lex LOut r.
Proof.
  intros c t r H. cbn.
  assert (Hs : is_sepch c = false).
  { unfold punct in H. unfold is_sepch, is_ws.
    repeat match type of H with context [if ?x =? ?y then _ else _] => destruct (Z.eqb_spec x y); [subst; reflexivity|] end.
    discriminate. }
  rewrite Hs, H. reflexivity.
Qed.

(* an open atom is closed by whatever cannot continue it *)
Lemma lex_at_close : forall acc r, delim_start r = true -> lex (LAt acc) r = TAtom acc :: lex LOut r.
Proof.
  intros acc [|c r] H; [reflexivity|].
  cbn in H. unfold atomic in H. cbn [lex lstep].
  destruct (is_sepch c) eqn:Es; [reflexivity|].
  destruct (punct c) eqn:Ep; [reflexivity|].
  destruct (c =? 34) eqn:Eq; [reflexivity|].
  cbn in H. discriminate.
Qed.

Lemma lex_at_run : forall s acc r, forallb atomic s = true -> delim_start r = true ->
  lex (LAt acc) (s ++ r) = TAtom (acc ++ s) :: lex LOut r.
Proof.
  induction s as [|c s IH]; intros acc r Hs Hr.
  - cbn [app]. rewrite app_nil_r. apply lex_at_close. exact Hr.
  - cbn in Hs. apply andb_prop in Hs as [Hc Hs]. unfold atomic in Hc.
    apply andb_prop in Hc as [Hc H34]. apply andb_prop in Hc as [Hsep Hp].
    cbn [app lex lstep].
    destruct (is_sepch c); [discriminate|]. destruct (punct c); [discriminate|].
    destruct (c =? 34); [discriminate|].
    cbn [app]. rewrite (IH (acc ++ [c]) r Hs Hr). rewrite <- app_assoc. reflexivity.
Qed.

Lemma lex_atom : forall s r, s <> [] -> forallb atomic s = true -> delim_start r = true ->
  lex LOut (s ++ r) = TAtom s :: lex LOut r.
Proof.
  intros [|c s] r Hne Hs Hr; [congruence|].
  cbn in Hs. apply andb_prop in Hs as [Hc Hs]. pose proof Hc as Hc'. unfold atomic in Hc.
  apply andb_prop in Hc as [Hc H34]. apply andb_prop in Hc as [Hsep Hp].
  cbn [app lex lstep].
  destruct (is_sepch c); [discriminate|]. destruct (punct c); [discriminate|].
  destruct (c =? 34); [discriminate|].
  cbn [app]. apply (lex_at_run s [c] r Hs Hr).
Qed.

(* string literals: the escaped form of any string of non-negative code points is read verbatim up to the
   closing quote *)
Lemma hexd_plain : forall d, 0 <= d -> (hexd d =? 34) = false /\ (hexd d =? 92) = false.
Proof. intros d H. unfold hexd. destruct (d <? 10) eqn:E; [apply Z.ltb_lt in E|apply Z.ltb_ge in E]; split; apply Z.eqb_neq; lia. Qed.

Lemma lex_str_plain : forall acc c r, (c =? 34) = false -> (c =? 92) = false ->
  lex (LStr acc) (c :: r) = lex (LStr (acc ++ [c])) r.
Proof. intros acc c r H1 H2. cbn. rewrite H1, H2. reflexivity. Qed.

Lemma lex_str_esc : forall acc e r, lex (LStr acc) (92 :: e :: r) = lex (LStr (acc ++ [92; e])) r.
Proof. intros. cbn. rewrite <- app_assoc. reflexivity. Qed.

Lemma lex_str_u4 : forall acc c r, 0 <= c -> lex (LStr acc) (u4 c ++ r) = lex (LStr (acc ++ u4 c)) r.
Proof.
  intros acc c r Hc. unfold u4. cbn [app]. rewrite lex_str_esc.
  assert (H1 : 0 <= c / 16 / 16 / 16) by (repeat apply Z.div_pos; lia).
  assert (H2 : 0 <= (c / 16 / 16) mod 16) by (apply Z.mod_pos_bound; lia).
  assert (H3 : 0 <= (c / 16) mod 16) by (apply Z.mod_pos_bound; lia).
  assert (H4 : 0 <= c mod 16) by (apply Z.mod_pos_bound; lia).
  destruct (hexd_plain _ H1), (hexd_plain _ H2), (hexd_plain _ H3), (hexd_plain _ H4).
  rewrite !lex_str_plain by assumption. rewrite <- !app_assoc. reflexivity.
Qed.

Lemma lex_escape_cp : forall acc c r, 0 <= c -> lex (LStr acc) (escape_cp c ++ r) = lex (LStr (acc ++ escape_cp c)) r.
Proof.
  intros acc c r Hc. unfold escape_cp.
  destruct (short_escape c) eqn:Es.
  - cbn [app]. apply lex_str_esc.
  - destruct (short_escape_none c Es) as [H34 H92].
    destruct ((32 <=? c) && (c <=? 126)).
    + cbn [app]. apply lex_str_plain; assumption.
    + destruct (c <? 65536) eqn:E.
      * apply lex_str_u4. exact Hc.
      * apply Z.ltb_ge in E. rewrite <- app_assoc.
        rewrite lex_str_u4 by (unfold sur_hi; assert (0 <= (c - 65536) / 1024) by (apply Z.div_pos; lia); lia).
        rewrite lex_str_u4 by (unfold sur_lo; assert (0 <= (c - 65536) mod 1024) by (apply Z.mod_pos_bound; lia); lia).
        rewrite <- app_assoc. reflexivity.
Qed.

Definition nonneg (s : list Z) : bool := forallb (fun c => 0 <=? c) s.

Lemma lex_escape_string : forall s acc r, nonneg s = true ->
  lex (LStr acc) (escape_string s ++ r) = lex (LStr (acc ++ escape_string s)) r.
Proof.
  induction s as [|c s IH]; intros acc r H.
  - cbn. rewrite app_nil_r. reflexivity.
  - cbn in H. apply andb_prop in H as [Hc Hs]. apply Z.leb_le in Hc.
    unfold escape_string. cbn [flat_map]. fold (escape_string s).
    rewrite <- app_assoc. rewrite lex_escape_cp by exact Hc. rewrite IH by exact Hs.
    rewrite <- app_assoc. reflexivity.
Qed.

Lemma lex_str_close : forall acc r, lex (LStr acc) (34 :: r) = TStr acc :: lex LOut r.
Proof. intros. reflexivity. Qed.

Lemma lex_open_quote : forall r, lex LOut (34 :: r) = lex (LStr []) r.
Proof. intros. reflexivity. Qed.

Lemma lex_jstring : forall s r, nonneg s = true -> lex LOut (jstring s ++ r) = TStr (escape_string s) :: lex LOut r.
Proof.
  intros s r H. unfold jstring. cbn [app]. rewrite lex_open_quote. rewrite <- app_assoc.
  rewrite lex_escape_string by exact H. cbn [app]. apply lex_str_close.
Qed.

(* ------------------------------------------------------------------ tokens of a plainly printed tree *)

Definition leaf_ok (l : leaf) : bool :=
  match lk l with
  | KStr => nonneg (ltext l)
  | KInt | KFloat => nonempty (ltext l) && forallb atomic (ltext l)
  | _ => true
  end.
Fixpoint tok_ok (t : tree) : bool :=
  match t with
  | Leaf l => leaf_ok l
  | Lst _ _ cs | MSet _ cs | FDict cs => forallb tok_ok cs
  | Kvp _ k v => tok_ok k && tok_ok v
  end.

Definition leaf_toks (l : leaf) : list tok :=
  match lk l with KStr => [TStr (escape_string (ltext l))] | _ => [TAtom (leaf_text l)] end.
Fixpoint ttoks (t : tree) : list tok :=
  match t with
  | Leaf l => leaf_toks l
  | Lst _ _ cs => TLB :: flat_map ttoks cs ++ [TRB]
  | Kvp _ k v => ttoks k ++ TCol :: ttoks v
  | MSet _ cs | FDict cs => TLC :: flat_map ttoks cs ++ [TRC]
  end.

Lemma lex_leaf : forall l r, leaf_ok l = true -> delim_start r = true ->
  lex LOut (leaf_text l ++ r) = leaf_toks l ++ lex LOut r.
Proof.
  intros l r Hok Hr. unfold leaf_toks, leaf_text, leaf_ok in *. destruct (lk l); cbn [app].
  - apply andb_prop in Hok as [Hne Ha]. apply lex_atom; auto. destruct (ltext l); [discriminate|congruence].
  - apply andb_prop in Hok as [Hne Ha]. apply lex_atom; auto. destruct (ltext l); [discriminate|congruence].
  - destruct (str_eqb (ltext l) s_True); apply lex_atom; auto; discriminate.
  - apply lex_jstring. exact Hok.
  - apply lex_atom; auto. discriminate.
Qed.

(* a value followed by something that cannot continue an atom *)
Definition spells_text (s : list Z) (ts : list tok) : Prop :=
  forall r, delim_start r = true -> lex LOut (s ++ r) = ts ++ lex LOut r.

(* the items of a printed sequence, each after a comma and the item newline *)
Lemma lex_items : forall (spi : list Z) (xs : list (list Z)) (tss : list (list tok)) r,
  forallb is_sepch spi = true -> Forall2 spells_text xs tss -> delim_start r = true ->
  lex LOut (flat_map (fun t => 44 :: spi ++ t) xs ++ r) = concat tss ++ lex LOut r.
Proof.
  intros spi xs tss r Hspi H Hr. induction H as [|x ts xs tss Hx Hxs IH]; [reflexivity|].
  cbn [flat_map concat]. cbn [app]. rewrite <- !app_assoc.
  rewrite lex_sep by reflexivity. rewrite lex_seps by exact Hspi.
  rewrite Hx.
  - rewrite IH. reflexivity.
  - destruct xs as [|y ys]; [exact Hr|reflexivity].
Qed.

Lemma lex_seq_text : forall o c topen tclose spi spc xs tss,
  punct o = Some topen -> punct c = Some tclose ->
  forallb is_sepch spi = true -> forallb is_sepch spc = true -> Forall2 spells_text xs tss ->
  spells_text (seq_text o c spi spc xs) (topen :: concat tss ++ [tclose]).
Proof.
  intros o c topen tclose spi spc xs tss Ho Hc Hspi Hspc H r Hr.
  unfold seq_text. destruct H as [|x ts xs tss Hx Hxs].
  - cbn [app concat]. rewrite (lex_punct o topen) by exact Ho. rewrite (lex_punct c tclose) by exact Hc. reflexivity.
  - cbn [app concat]. rewrite (lex_punct o topen) by exact Ho. rewrite <- !app_assoc.
    rewrite lex_seps by exact Hspi.
    assert (Hclose : forall r', lex LOut (spc ++ [c] ++ r') = tclose :: lex LOut r').
    { intro r'. rewrite lex_seps by exact Hspc. cbn [app]. apply lex_punct. exact Hc. }
    rewrite Hx.
    + f_equal. f_equal.
      rewrite (lex_items spi xs tss (spc ++ [c] ++ r) Hspi Hxs).
      * rewrite Hclose. cbn [app]. reflexivity.
      * destruct spc as [|w ws]; cbn.
        -- unfold atomic. rewrite Hc. rewrite andb_false_r. reflexivity.
        -- cbn in Hspc. apply andb_prop in Hspc as [Hw _]. unfold atomic. rewrite Hw. reflexivity.
    + destruct xs as [|y ys]; cbn [flat_map app]; [|reflexivity].
      destruct spc as [|w ws]; cbn.
      * unfold atomic. rewrite Hc. rewrite andb_false_r. reflexivity.
      * cbn in Hspc. apply andb_prop in Hspc as [Hw _]. unfold atomic. rewrite Hw. reflexivity.
Qed.

Lemma Forall2_map_spells : forall (f : tree -> list Z) (g : tree -> list tok) cs,
  Forall (fun c => spells_text (f c) (g c)) cs -> Forall2 spells_text (map f cs) (map g cs).
Proof. intros f g cs H. induction H; cbn; constructor; auto. Qed.

Lemma flat_map_concat_map : forall {A B} (f : A -> list B) l, flat_map f l = concat (map f l).
Proof. intros. induction l; cbn; [reflexivity|]. f_equal. assumption. Qed.

Section tree_induction.
  Variable P : tree -> Prop.
  Hypothesis HLeaf : forall l, P (Leaf l).
  Hypothesis HLst : forall x y cs, Forall P cs -> P (Lst x y cs).
  Hypothesis HKvp : forall x k v, P k -> P v -> P (Kvp x k v).
  Hypothesis HMSet : forall x cs, Forall P cs -> P (MSet x cs).
  Hypothesis HFDict : forall cs, Forall P cs -> P (FDict cs).
  Fixpoint tree_ind2 (t : tree) : P t :=
    let go := fix go (l : list tree) : Forall P l :=
      match l with [] => Forall_nil _ | x :: r => Forall_cons _ (tree_ind2 x) (go r) end in
    match t with
    | Leaf l => HLeaf l
    | Lst x y cs => HLst x y cs (go cs)
    | Kvp x k v => HKvp x k v (tree_ind2 k) (tree_ind2 v)
    | MSet x cs => HMSet x cs (go cs)
    | FDict cs => HFDict cs (go cs)
    end.
End tree_induction.

Lemma Forall_tok_ok : forall (P : tree -> Prop) cs,
  Forall (fun c => tok_ok c = true -> P c) cs -> forallb tok_ok cs = true -> Forall P cs.
Proof.
  intros P cs H Hok. induction H as [|c cs Hc Hcs IH]; [constructor|].
  cbn in Hok. apply andb_prop in Hok as [H1 H2]. constructor; auto.
Qed.

Theorem lex_tprint : forall lay t n, tok_ok t = true -> spells_text (tprint lay n t) (ttoks t).
Proof.
  intros lay t. induction t as [l|x y cs IH|x k v IHk IHv|x cs IH|cs IH] using tree_ind2; intros n Hok.
  - intros r Hr. cbn. apply lex_leaf; assumption.
  - cbn [tprint ttoks]. rewrite flat_map_concat_map.
    apply lex_seq_text; try reflexivity; try apply sep_sepch.
    apply Forall2_map_spells. cbn in Hok.
    apply (Forall_tok_ok (fun c => spells_text (tprint lay (S n) c) (ttoks c))); [|exact Hok].
    eapply Forall_impl; [|exact IH]. cbn. intros c Hc Hc'. apply Hc. exact Hc'.
  - cbn in Hok. apply andb_prop in Hok as [Hk Hv]. intros r Hr. cbn [tprint ttoks].
    rewrite <- !app_assoc. rewrite (IHk n Hk) by reflexivity.
    cbn [app]. rewrite (lex_punct 58 TCol) by reflexivity. rewrite lex_sep by reflexivity.
    rewrite (IHv n Hv r Hr). reflexivity.
  - cbn [tprint ttoks]. rewrite flat_map_concat_map.
    apply lex_seq_text; try reflexivity; try apply sep_sepch.
    apply Forall2_map_spells. cbn in Hok.
    apply (Forall_tok_ok (fun c => spells_text (tprint lay (S n) c) (ttoks c))); [|exact Hok].
    eapply Forall_impl; [|exact IH]. cbn. intros c Hc Hc'. apply Hc. exact Hc'.
  - cbn [tprint ttoks]. rewrite flat_map_concat_map.
    apply lex_seq_text; try reflexivity; try apply sep_sepch.
    apply Forall2_map_spells. cbn in Hok.
    apply (Forall_tok_ok (fun c => spells_text (tprint lay (S n) c) (ttoks c))); [|exact Hok].
    eapply Forall_impl; [|exact IH]. cbn. intros c Hc Hc'. apply Hc. exact Hc'.
Qed.

Corollary toks_tprint : forall lay n t, tok_ok t = true -> toks (tprint lay n t) = ttoks t.
Proof.
  intros lay n t H. unfold toks. pose proof (lex_tprint lay t n H [] eq_refl) as E.
  rewrite !app_nil_r in E. exact E.
Qed.

(* ------------------------------------------------------------------ what a projection of a stream spells *)

(* side = false: delete the inserted characters (first document); side = true: delete the removed ones *)
Definition em (side : bool) : mark := if side then Removed else Inserted.
Definition km (side : bool) : mark := if side then Inserted else Removed.

Definition spells (side : bool) (s : stream) (ts : list tok) : Prop := spells_text (erase (em side) s) ts.

Lemma erase_mk_plain : forall side s, erase (em side) (mk Plain s) = s.
Proof. intros [] s; rewrite erase_mk; reflexivity. Qed.
Lemma erase_mk_kept : forall side s, erase (em side) (mk (km side) s) = s.
Proof. intros [] s; rewrite erase_mk; reflexivity. Qed.
Lemma erase_mk_erased : forall side s, erase (em side) (mk (em side) s) = [].
Proof. intros [] s; rewrite erase_mk; reflexivity. Qed.

Lemma erase_from_to : forall side lay n a b,
  erase (em side) (from_to lay n a b) = tprint lay n (if side then b else a).
Proof.
  intros side lay n a b. unfold from_to. rewrite !erase_app, erase_arrow.
  destruct side; cbn [em]; rewrite !erase_mk; cbn; rewrite ?app_nil_r; reflexivity.
Qed.

Lemma spells_plain : forall side lay n t, tok_ok t = true -> spells side (mk Plain (tprint lay n t)) (ttoks t).
Proof. intros. unfold spells. rewrite erase_mk_plain. apply lex_tprint. assumption. Qed.

Lemma spells_from_to : forall side lay n a b, tok_ok a = true -> tok_ok b = true ->
  spells side (from_to lay n a b) (ttoks (if side then b else a)).
Proof. intros. unfold spells. rewrite erase_from_to. apply lex_tprint. destruct side; assumption. Qed.

(* strings *)
Lemma escape_string_app : forall x y, escape_string (x ++ y) = escape_string x ++ escape_string y.
Proof. intros. unfold escape_string. apply flat_map_app. Qed.

Definition sop_side (side : bool) : sop -> list Z := if side then sop_to else sop_from.

Lemma erase_rstr : forall side ops rs ad,
  erase (em side) (rstr rs ad ops) =
  escape_string ((if side then ad else rs) ++ flat_map (sop_side side) ops).
Proof.
  intros side ops. induction ops as [|o ops IH]; intros rs ad.
  - cbn [rstr flat_map]. rewrite app_nil_r, erase_app.
    destruct side; cbn [em]; rewrite !erase_mk; cbn; rewrite ?app_nil_r; reflexivity.
  - destruct o as [c|c d|c|d]; cbn [rstr flat_map].
    + rewrite !erase_app, IH, erase_mk_plain.
      destruct side; cbn [em sop_side sop_to sop_from app]; rewrite !erase_mk; cbn [keeps snd mark_eqb negb andb app];
        rewrite !escape_string_app; unfold escape_string at 2; cbn [flat_map]; rewrite ?app_nil_r; reflexivity.
    + rewrite IH. destruct side; cbn [sop_side sop_to sop_from]; rewrite <- app_assoc; reflexivity.
    + rewrite !erase_app, IH.
      destruct side; cbn [em sop_side sop_to sop_from app]; rewrite !erase_mk; cbn [keeps snd mark_eqb negb andb app];
        rewrite ?escape_string_app; rewrite ?app_nil_r; reflexivity.
    + rewrite !erase_app, IH.
      destruct side; cbn [em sop_side sop_to sop_from app]; rewrite !erase_mk; cbn [keeps snd mark_eqb negb andb app];
        rewrite ?escape_string_app; rewrite ?app_nil_r; reflexivity.
Qed.

Lemma erase_rstredit : forall side ops,
  erase (em side) (rstredit ops) = jstring (flat_map (sop_side side) ops).
Proof.
  intros side ops. unfold rstredit, jstring.
  change ((34, Plain) :: rstr [] [] ops ++ [(34, Plain)]) with (mk Plain [34] ++ rstr [] [] ops ++ mk Plain [34]).
  rewrite !erase_app, !erase_mk_plain, erase_rstr. destruct side; reflexivity.
Qed.

(* ------------------------------------------------------------------ the delimiter counters of print_SequenceNode *)

(* the reachable counter states: nothing pending, one removal pending, one insertion pending *)
Inductive pst := P0 | PR | PI.
Definition ptr (p : pst) : nat := match p with PR => 1%nat | _ => 0%nat end.
Definition pti (p : pst) : nat := match p with PI => 1%nat | _ => 0%nat end.

Definition survives (side : bool) (k : ikind) : bool :=
  match k with IKeep => true | IRem => negb side | IIns => side end.

Definition item_spec (side : bool) (it : ikind * stream) (ts : list tok) : Prop :=
  if survives side (fst it) then spells side (snd it) ts
  else erase (em side) (snd it) = [] /\ ts = [].

Lemma lead_sepch : forall m join n body, forallb is_sepch (erase m (item_lead join n body)) = true.
Proof.
  intros m join n body. unfold item_lead. destruct join; [reflexivity|].
  rewrite erase_cons. apply forallb_forall. intros x Hx. apply in_app_or in Hx as [Hx|Hx].
  - destruct (keeps m (10, Plain)); [|contradiction]. destruct Hx as [<-|[]]. reflexivity.
  - rewrite erase_mk in Hx. destruct (keeps m (0, first_mark body)); [|contradiction].
    apply ws_sepch. pose proof (indent_ws n) as Hi. rewrite forallb_forall in Hi. apply Hi. exact Hx.
Qed.

Lemma delim_start_sepch : forall ws r, forallb is_sepch ws = true -> delim_start r = true -> delim_start (ws ++ r) = true.
Proof.
  intros [|w ws] r H Hr; [exact Hr|]. cbn in *. apply andb_prop in H as [Hw _]. unfold atomic. rewrite Hw. reflexivity.
Qed.

Lemma delim_start_comma : forall r, delim_start (44 :: r) = true.
Proof. reflexivity. Qed.

Ltac step_items :=
  cbn [ritems ptr pti fst snd Nat.min Nat.sub];
  repeat (rewrite erase_cons || rewrite erase_app); cbn [keeps snd mark_eqb negb andb app em]; rewrite <- ?app_assoc.

Section Counters.
  Variable join : bool.
  Variable n : nat.

  (* first document: inserted text deleted.  Once an item that stays has been printed no insertion is pending
     at an item boundary, so the delimiter between two items that stay is never deleted with the insertions. *)
  Lemma ritems_first : forall items tss, Forall2 (item_spec false) items tss ->
    forall first p seen r,
      (first = true -> p = P0 /\ seen = false) -> (seen = true -> p <> PI) -> (seen = false -> p <> PR) ->
      delim_start r = true ->
      (seen = true -> delim_start (erase Inserted (ritems join n first (ptr p) (pti p) items) ++ r) = true) /\
      lex LOut (erase Inserted (ritems join n first (ptr p) (pti p) items) ++ r) = concat tss ++ lex LOut r.
  Proof.
    intros items tss H. induction H as [|[k body] ts items tss Hit Hits IH]; intros first p seen r Hf Hs Hn Hr.
    - cbn. split; [intros _; exact Hr|reflexivity].
    - unfold item_spec in Hit; cbn [fst snd] in Hit.
      pose proof (lead_sepch Inserted join n body) as Hl.
      assert (Stay : forall p' R, survives false k = true ->
                (delim_start (erase Inserted (ritems join n false (ptr p') (pti p') items) ++ r) = true /\
                 lex LOut (erase Inserted (ritems join n false (ptr p') (pti p') items) ++ r) = concat tss ++ lex LOut r) ->
                R = erase Inserted (ritems join n false (ptr p') (pti p') items) ++ r ->
                lex LOut (erase Inserted (item_lead join n body) ++ erase Inserted body ++ R) = concat (ts :: tss) ++ lex LOut r).
      { intros p' R Hsv [IA IB] ->. rewrite Hsv in Hit. unfold spells, spells_text in Hit; cbn [em] in Hit. rewrite lex_seps by exact Hl.
        rewrite (Hit _ IA). cbn [concat]. rewrite <- app_assoc. f_equal. exact IB. }
      assert (Next : forall p', p' <> PI ->
                delim_start (erase Inserted (ritems join n false (ptr p') (pti p') items) ++ r) = true /\
                lex LOut (erase Inserted (ritems join n false (ptr p') (pti p') items) ++ r) = concat tss ++ lex LOut r).
      { intros p' Hp. destruct (IH false p' true r) as [IA IB]; try congruence; try discriminate. split; auto. }
      destruct first.
      + destruct (Hf eq_refl) as [-> ->]. split; [discriminate|].
        destruct k; cbn [survives negb] in Hit; step_items.
        * apply (Stay P0); [reflexivity|apply Next; discriminate|reflexivity].
        * apply (Stay PR); [reflexivity|apply Next; discriminate|reflexivity].
        * destruct Hit as [He ->]. cbn [em] in He. destruct (IH false PI false r) as [IA IB]; try congruence; try discriminate.
          rewrite lex_seps by exact Hl. rewrite He. cbn [app concat]. exact IB.
      + destruct k; cbn [survives negb] in Hit.
        * (* keep *)
          destruct p; step_items.
          -- split; [reflexivity|]. rewrite lex_sep by reflexivity.
             apply (Stay P0); [reflexivity|apply Next; discriminate|reflexivity].
          -- split; [reflexivity|]. rewrite lex_sep by reflexivity.
             apply (Stay P0); [reflexivity|apply Next; discriminate|reflexivity].
          -- destruct seen; [exfalso; apply (Hs eq_refl); reflexivity|]. split; [discriminate|].
             apply (Stay P0); [reflexivity|apply Next; discriminate|reflexivity].
        * (* removed: stays *)
          destruct p; step_items.
          -- split; [reflexivity|]. rewrite lex_sep by reflexivity.
             apply (Stay P0); [reflexivity|apply Next; discriminate|reflexivity].
          -- split; [reflexivity|]. rewrite lex_sep by reflexivity.
             apply (Stay PR); [reflexivity|apply Next; discriminate|reflexivity].
          -- split; [reflexivity|]. rewrite lex_sep by reflexivity.
             apply (Stay P0); [reflexivity|apply Next; discriminate|reflexivity].
        * (* inserted: deleted *)
          destruct Hit as [He ->]. cbn [em] in He.
          destruct p; step_items; rewrite ?He; cbn [app concat].
          -- destruct (IH false P0 seen r) as [IA IB]; try congruence; try discriminate.
             cbn [ptr pti] in IA, IB. split.
             ++ intro Hseen. apply delim_start_sepch; [exact Hl|]. apply IA. exact Hseen.
             ++ rewrite lex_seps by exact Hl. exact IB.
          -- destruct (IH false P0 true r) as [IA IB]; try congruence; try discriminate.
             cbn [ptr pti] in IA, IB. split; [reflexivity|]. rewrite lex_sep by reflexivity.
             rewrite lex_seps by exact Hl. exact IB.
          -- destruct seen; [exfalso; apply (Hs eq_refl); reflexivity|].
             destruct (IH false PI false r) as [IA IB]; try congruence; try discriminate.
             cbn [ptr pti] in IA, IB. split; [discriminate|]. rewrite lex_seps by exact Hl. exact IB.
  Qed.
  (* second document: removed text deleted; symmetric *)
  Lemma ritems_second : forall items tss, Forall2 (item_spec true) items tss ->
    forall first p seen r,
      (first = true -> p = P0 /\ seen = false) -> (seen = true -> p <> PR) -> (seen = false -> p <> PI) ->
      delim_start r = true ->
      (seen = true -> delim_start (erase Removed (ritems join n first (ptr p) (pti p) items) ++ r) = true) /\
      lex LOut (erase Removed (ritems join n first (ptr p) (pti p) items) ++ r) = concat tss ++ lex LOut r.
  Proof.
    intros items tss H. induction H as [|[k body] ts items tss Hit Hits IH]; intros first p seen r Hf Hs Hn Hr.
    - cbn. split; [intros _; exact Hr|reflexivity].
    - unfold item_spec in Hit; cbn [fst snd] in Hit.
      pose proof (lead_sepch Removed join n body) as Hl.
      assert (Stay : forall p' R, survives true k = true ->
                (delim_start (erase Removed (ritems join n false (ptr p') (pti p') items) ++ r) = true /\
                 lex LOut (erase Removed (ritems join n false (ptr p') (pti p') items) ++ r) = concat tss ++ lex LOut r) ->
                R = erase Removed (ritems join n false (ptr p') (pti p') items) ++ r ->
                lex LOut (erase Removed (item_lead join n body) ++ erase Removed body ++ R) = concat (ts :: tss) ++ lex LOut r).
      { intros p' R Hsv [IA IB] ->. rewrite Hsv in Hit. unfold spells, spells_text in Hit; cbn [em] in Hit.
        rewrite lex_seps by exact Hl.
        rewrite (Hit _ IA). cbn [concat]. rewrite <- app_assoc. f_equal. exact IB. }
      assert (Next : forall p', p' <> PR ->
                delim_start (erase Removed (ritems join n false (ptr p') (pti p') items) ++ r) = true /\
                lex LOut (erase Removed (ritems join n false (ptr p') (pti p') items) ++ r) = concat tss ++ lex LOut r).
      { intros p' Hp. destruct (IH false p' true r) as [IA IB]; try congruence; try discriminate. split; auto. }
      destruct first.
      + destruct (Hf eq_refl) as [-> ->]. split; [discriminate|].
        destruct k; cbn [survives negb] in Hit; step_items.
        * apply (Stay P0); [reflexivity|apply Next; discriminate|reflexivity].
        * destruct Hit as [He ->]. cbn [em] in He. destruct (IH false PR false r) as [IA IB]; try congruence; try discriminate.
          rewrite lex_seps by exact Hl. rewrite He. cbn [app concat]. exact IB.
        * apply (Stay PI); [reflexivity|apply Next; discriminate|reflexivity].
      + destruct k; cbn [survives negb] in Hit.
        * (* keep *)
          destruct p; step_items.
          -- split; [reflexivity|]. rewrite lex_sep by reflexivity.
             apply (Stay P0); [reflexivity|apply Next; discriminate|reflexivity].
          -- destruct seen; [exfalso; apply (Hs eq_refl); reflexivity|]. split; [discriminate|].
             apply (Stay P0); [reflexivity|apply Next; discriminate|reflexivity].
          -- split; [reflexivity|]. rewrite lex_sep by reflexivity.
             apply (Stay P0); [reflexivity|apply Next; discriminate|reflexivity].
        * (* removed: deleted *)
          destruct Hit as [He ->]. cbn [em] in He.
          destruct p; step_items; rewrite ?He; cbn [app concat].
          -- destruct (IH false P0 seen r) as [IA IB]; try congruence; try discriminate.
             cbn [ptr pti] in IA, IB. split.
             ++ intro Hseen. apply delim_start_sepch; [exact Hl|]. apply IA. exact Hseen.
             ++ rewrite lex_seps by exact Hl. exact IB.
          -- destruct seen; [exfalso; apply (Hs eq_refl); reflexivity|].
             destruct (IH false PR false r) as [IA IB]; try congruence; try discriminate.
             cbn [ptr pti] in IA, IB. split; [discriminate|]. rewrite lex_seps by exact Hl. exact IB.
          -- destruct (IH false P0 true r) as [IA IB]; try congruence; try discriminate.
             cbn [ptr pti] in IA, IB. split; [reflexivity|]. rewrite lex_sep by reflexivity.
             rewrite lex_seps by exact Hl. exact IB.
        * (* inserted: stays *)
          destruct p; step_items.
          -- split; [reflexivity|]. rewrite lex_sep by reflexivity.
             apply (Stay P0); [reflexivity|apply Next; discriminate|reflexivity].
          -- split; [reflexivity|]. rewrite lex_sep by reflexivity.
             apply (Stay P0); [reflexivity|apply Next; discriminate|reflexivity].
          -- split; [reflexivity|]. rewrite lex_sep by reflexivity.
             apply (Stay PI); [reflexivity|apply Next; discriminate|reflexivity].
  Qed.
End Counters.

Lemma spells_rseq : forall side open close topen tclose join n ne items tss,
  punct open = Some topen -> punct close = Some tclose -> Forall2 (item_spec side) items tss ->
  spells side (rseq open close join n ne items) (topen :: concat tss ++ [tclose]).
Proof.
  intros side open close topen tclose join n ne items tss Ho Hc H r Hr.
  unfold rseq.
  match goal with |- context [ritems _ _ _ _ _ _ ++ ?t ++ _] =>
    assert (Ht : forallb is_sepch (erase (em side) t) = true);
      [destruct ne; [rewrite erase_mk_plain; apply sep_sepch|reflexivity]|generalize dependent t] end.
  intros tail Ht.
  rewrite erase_cons. replace (keeps (em side) (open, Plain)) with true by (destruct side; reflexivity).
  cbn [app]. rewrite (lex_punct open topen) by exact Ho. rewrite !erase_app, <- !app_assoc.
  remember (erase (em side) tail) as ws eqn:Ews. clear Ews.
  assert (Hclose : erase (em side) [(close, Plain)] = [close]) by (destruct side; reflexivity).
  rewrite Hclose.
  assert (Hd : delim_start (ws ++ [close] ++ r) = true).
  { apply delim_start_sepch; [exact Ht|]. cbn. unfold atomic. rewrite Hc. rewrite andb_false_r. reflexivity. }
  assert (Hend : lex LOut (ws ++ [close] ++ r) = tclose :: lex LOut r).
  { rewrite lex_seps by exact Ht. apply lex_punct. exact Hc. }
  f_equal. destruct side; cbn [em].
  - destruct (ritems_second join (S n) items tss H true P0 false (ws ++ [close] ++ r)) as [_ E];
      try discriminate; auto.
    cbn [ptr pti] in E. rewrite E, Hend. reflexivity.
  - destruct (ritems_first join (S n) items tss H true P0 false (ws ++ [close] ++ r)) as [_ E];
      try discriminate; auto.
    cbn [ptr pti] in E. rewrite E, Hend. reflexivity.
Qed.

(* ------------------------------------------------------------------ the projections of a rendered script *)

Definition sop_ok (o : sop) : bool := nonneg (sop_from o) && nonneg (sop_to o).
Fixpoint edit_ok (e : edit) : bool :=
  match e with
  | EStr _ ops => forallb sop_ok ops
  | EComp _ _ subs =>
      (fix all (ss : list sub) : bool :=
         match ss with
         | [] => true
         | SPair _ _ e' :: r => edit_ok e' && all r
         | _ :: r => all r
         end) subs
  | _ => true
  end.

Lemma nonneg_app : forall x y, nonneg (x ++ y) = nonneg x && nonneg y.
Proof. intros. unfold nonneg. apply forallb_app. Qed.

Lemma nonneg_ops : forall side ops, forallb sop_ok ops = true -> nonneg (flat_map (sop_side side) ops) = true.
Proof.
  intros side ops H. induction ops as [|o ops IH]; [reflexivity|].
  cbn in H. apply andb_prop in H as [Ho Hs]. cbn [flat_map]. rewrite nonneg_app, (IH Hs), andb_true_r.
  unfold sop_ok in Ho. apply andb_prop in Ho as [H1 H2]. destruct side; assumption.
Qed.

Lemma tok_ok_dummy : tok_ok dummy = true.
Proof. reflexivity. Qed.

Lemma tok_ok_child : forall a i, tok_ok a = true -> tok_ok (child a i) = true.
Proof.
  intros a i H. unfold child.
  assert (Hc : forallb tok_ok (children a) = true).
  { destruct a; cbn in *; auto. apply andb_prop in H as [H1 H2]. rewrite H1, H2. reflexivity. }
  clear H. revert i. induction (children a) as [|c cs IH]; intro i.
  - destruct i; reflexivity.
  - cbn in Hc. apply andb_prop in Hc as [H1 H2]. destruct i; cbn; auto.
Qed.


Lemma spells_from_to_in : forall side inl c lay n a b, tok_ok a = true -> tok_ok b = true ->
  clean inl a (EReplace c) = true ->
  spells side (if 0 <? c then from_to_in inl lay n a b else mk Plain (tprint lay n b))
              (ttoks (if 0 <? c then (if side then b else a) else b)).
Proof.
  intros side inl c lay n a b Ha Hb Hc. cbn [clean] in Hc. destruct (0 <? c); [|apply spells_plain; exact Hb].
  unfold from_to_in. cbn [andb] in Hc. destruct (inl && is_mapping a); [discriminate|].
  apply spells_from_to; assumption.
Qed.

Definition Pspells (side : bool) (e : edit) : Prop :=
  forall lay n inl a b, tok_ok a = true -> tok_ok b = true -> edit_ok e = true -> clean inl a e = true ->
    spells side (redit lay n inl a b e) (ttoks (proj side a b e)).

Lemma spells_erased : forall side s, item_spec side (if side then IRem else IIns, mk (em side) s) [].
Proof.
  intros side s. unfold item_spec. destruct side; cbn [fst snd survives negb]; split; auto; apply erase_mk_erased.
Qed.

Lemma items_spec : forall side lay n k a b subs,
  tok_ok a = true -> tok_ok b = true ->
  Forall (fun s => match s with SPair _ _ e => Pspells side e | _ => True end) subs ->
  edit_ok (EComp k 0 subs) = true ->
  (fix all (ss : list sub) : bool :=
     match ss with
     | [] => true
     | SPair i _ e' :: r => clean (is_lst a) (child a i) e' && all r
     | _ :: r => all r
     end) subs = true ->
  exists tss,
    Forall2 (item_spec side)
      ((fix items (ss : list sub) : list (ikind * stream) :=
          match ss with
          | [] => []
          | SPair i j e' :: r =>
              (IKeep,
               match k, e' with
               | KMultiSet, EMatch c => if 0 <? c then from_to lay (S n) (child a i) (child b j)
                                        else mk Plain (tprint lay (S n) (child a i))
               | _, _ => redit lay (S n) (is_lst a) (child a i) (child b j) e'
               end) :: items r
          | SRem i _ :: r => (IRem, mk Removed (tprint lay (S n) (child a i))) :: items r
          | SIns j _ :: r => (IIns, mk Inserted (tprint lay (S n) (child b j))) :: items r
          end) subs) tss /\
    concat tss =
    flat_map ttoks
      ((fix items (ss : list sub) : list tree :=
          match ss with
          | [] => []
          | SPair i j e' :: r =>
              match k, e' with
              | KMultiSet, EMatch c => if 0 <? c then (if side then child b j else child a i) else child a i
              | _, _ => proj side (child a i) (child b j) e'
              end :: items r
          | SRem i _ :: r => if side then items r else child a i :: items r
          | SIns j _ :: r => if side then child b j :: items r else items r
          end) subs).
Proof.
  intros side lay n k a b subs Ha Hb HF Hok Hcl.
  induction HF as [|s subs Hs HF IH].
  - exists []. split; [constructor|reflexivity].
  - destruct s as [i j e'|i c|j c].
    + cbn [edit_ok] in Hok. apply andb_prop in Hok as [Hoke Hok]. apply andb_prop in Hcl as [Hcle Hcl].
      destruct (IH Hok Hcl) as [tss [H1 H2]].
      pose proof (tok_ok_child a i Ha) as Hai. pose proof (tok_ok_child b j Hb) as Hbj.
      assert (Hgen : spells side (redit lay (S n) (is_lst a) (child a i) (child b j) e') (ttoks (proj side (child a i) (child b j) e'))).
      { apply Hs; assumption. }
      assert (Hms : forall c, spells side (if 0 <? c then from_to lay (S n) (child a i) (child b j)
                                            else mk Plain (tprint lay (S n) (child a i)))
                                 (ttoks (if 0 <? c then (if side then child b j else child a i) else child a i))).
      { intro c. destruct (0 <? c); [apply spells_from_to; assumption|apply spells_plain; assumption]. }
      exists (ttoks (match k, e' with
                     | KMultiSet, EMatch c => if 0 <? c then (if side then child b j else child a i) else child a i
                     | _, _ => proj side (child a i) (child b j) e'
                     end) :: tss). split.
      * constructor; [|exact H1]. unfold item_spec; cbn [fst snd survives].
        destruct k; try exact Hgen. destruct e'; try exact Hgen. apply Hms.
      * cbn [concat flat_map]. rewrite H2. destruct k; try reflexivity; destruct e'; reflexivity.
    + destruct (IH Hok Hcl) as [tss [H1 H2]]. pose proof (tok_ok_child a i Ha) as Hai.
      destruct side.
      * exists ([] :: tss). split; [constructor; [apply (spells_erased true)|exact H1]|]. cbn [concat app]. exact H2.
      * exists (ttoks (child a i) :: tss). split.
        -- constructor; [|exact H1]. unfold item_spec; cbn [fst snd survives negb]. unfold spells; cbn [em].
           rewrite erase_mk; cbn. apply lex_tprint. exact Hai.
        -- cbn [concat flat_map]. rewrite H2. reflexivity.
    + destruct (IH Hok Hcl) as [tss [H1 H2]]. pose proof (tok_ok_child b j Hb) as Hbj.
      destruct side.
      * exists (ttoks (child b j) :: tss). split.
        -- constructor; [|exact H1]. unfold item_spec; cbn [fst snd survives negb]. unfold spells; cbn [em].
           rewrite erase_mk; cbn. apply lex_tprint. exact Hbj.
        -- cbn [concat flat_map]. rewrite H2. reflexivity.
      * exists ([] :: tss). split; [constructor; [apply (spells_erased false)|exact H1]|]. cbn [concat app]. exact H2.
Qed.

Lemma spells_kvp : forall side K V tk tv, spells side K tk -> spells side V tv ->
  spells side (K ++ mk Plain [58; 32] ++ V) (tk ++ TCol :: tv).
Proof.
  intros side K V tk tv HK HV r Hr. rewrite !erase_app, erase_mk_plain, <- !app_assoc.
  cbn [app]. rewrite (HK (58 :: 32 :: erase (em side) V ++ r) eq_refl). rewrite (lex_punct 58 TCol) by reflexivity. rewrite lex_sep by reflexivity.
  rewrite (HV r Hr). reflexivity.
Qed.

Theorem redit_spells : forall side e, Pspells side e.
Proof.
  intro side. apply edit_ind2; unfold Pspells.
  - intros c lay n inl a b Ha Hb _ Hcl. cbn [redit proj]. apply spells_from_to_in; assumption.
  - intros c lay n inl a b Ha Hb _ Hcl. cbn [redit proj]. apply spells_from_to_in; assumption.
  - intros c ops lay n inl a b Ha Hb Hok _. cbn [redit proj]. unfold spells. rewrite erase_rstredit.
    intros r Hr. apply lex_jstring. apply nonneg_ops. exact Hok.
  - intros k c subs IH lay n inl a b Ha Hb Hok Hcl. cbn [redit proj]. cbn [clean] in Hcl.
    destruct (is_seq_kind k) eqn:Ek.
    + destruct (items_spec side lay n k a b subs Ha Hb IH Hok Hcl) as [tss [H1 H2]].
      destruct a as [l|x y cs|x ka va|x cs|cs]; cbn [brackets fst snd rebuild].
      * apply spells_plain. exact Ha.
      * cbn [ttoks]. rewrite <- H2. apply spells_rseq; [reflexivity|reflexivity|exact H1].
      * apply spells_plain. exact Ha.
      * cbn [ttoks]. rewrite <- H2. apply spells_rseq; [reflexivity|reflexivity|exact H1].
      * cbn [ttoks]. rewrite <- H2. apply spells_rseq; [reflexivity|reflexivity|exact H1].
    + destruct subs as [|[i j ke|i x|j x] [|[i' j' ve|i' x'|j' x'] [|s3 rest]]]; try (apply spells_plain; exact Ha).
      inversion IH as [|? ? Hke IH']; subst. inversion IH' as [|? ? Hve _]; subst.
      cbn [edit_ok] in Hok. apply andb_prop in Hok as [Hoke Hok]. apply andb_prop in Hok as [Hove _].
      apply andb_prop in Hcl as [Hclk Hclv].
      pose proof (tok_ok_child a 0 Ha) as Ha0. pose proof (tok_ok_child a 1 Ha) as Ha1.
      pose proof (tok_ok_child b 0 Hb) as Hb0. pose proof (tok_ok_child b 1 Hb) as Hb1.
      cbn [ttoks]. apply spells_kvp.
      * destruct ke; try (destruct (0 <? cost _); [apply Hke; assumption|apply spells_plain; assumption]).
        apply Hke; assumption.
      * destruct ve; try (destruct (0 <? cost _); [apply Hve; assumption|apply spells_plain; assumption]).
        apply Hve; assumption.
Qed.

Lemma nproj_eq : forall side a b e,
  nproj side a b e = match e with EComp _ _ _ => proj side a b e | _ => if 0 <? cost e then proj side a b e else a end.
Proof. reflexivity. Qed.

(* the rendering of a whole diff *)
Theorem jrender_spells : forall side lay a b e, tok_ok a = true -> tok_ok b = true -> edit_ok e = true ->
  clean false a e = true ->
  toks (erase (em side) (jrender lay a b e)) = ttoks (nproj side a b e).
Proof.
  intros side lay a b e Ha Hb He Hcl. unfold jrender, rnode, nproj.
  assert (G : forall s t, spells side s (ttoks t) -> toks (erase (em side) s) = ttoks t).
  { intros s t H. pose proof (H [] eq_refl) as E. rewrite !app_nil_r in E. exact E. }
  apply G.
  destruct e; try (destruct (0 <? cost _); [apply redit_spells; assumption|apply spells_plain; assumption]).
  apply redit_spells; assumption.
Qed.

(* ------------------------------------------------------------------ change marks *)

Definition is_keep (o : sop) : bool := match o with SKeep _ => true | _ => false end.

(* "nothing to show": the rendering of (a, b, e) through formatter.print(printer, EDIT) is unmarked *)
Fixpoint qe (a : tree) (e : edit) {struct e} : bool :=
  match e with
  | EMatch c | EReplace c => negb (0 <? c)
  | EStr _ ops => forallb is_keep ops
  | EComp k _ subs =>
      if is_seq_kind k then
        match brackets (false, false) a with
        | Some _ =>
            (fix all (ss : list sub) : bool :=
               match ss with
               | [] => true
               | SPair i _ e' :: r => qe (child a i) e' && all r
               | _ :: _ => false
               end) subs
        | None => true
        end
      else
        match subs with
        | [SPair _ _ ke; SPair _ _ ve] =>
            (match ke with EComp _ _ _ => qe (child a 0) ke | _ => negb (0 <? cost ke) || qe (child a 0) ke end) &&
            (match ve with EComp _ _ _ => qe (child a 1) ve | _ => negb (0 <? cost ve) || qe (child a 1) ve end)
        | _ => true
        end
  end.
(* ... through formatter.print(printer, NODE) *)
Definition qn (a : tree) (e : edit) : bool :=
  match e with EComp _ _ _ => qe a e | _ => negb (0 <? cost e) || qe a e end.

Lemma marks_nil_app : forall s t, marks (s ++ t) = [] <-> marks s = [] /\ marks t = [].
Proof. intros. rewrite marks_app. split; [apply app_eq_nil|intros [-> ->]; reflexivity]. Qed.

Lemma marks_mk_nil : forall m s, marks (mk m s) = [] <-> m = Plain \/ s = [].
Proof.
  intros m s. split.
  - intro H. destruct m; [left; reflexivity|right..]; (rewrite marks_mk_other in H by congruence; destruct s; [reflexivity|discriminate]).
  - intros [->| ->]; [apply marks_mk_plain|reflexivity].
Qed.

Lemma seq_text_nonempty : forall o c spi spc xs, seq_text o c spi spc xs <> [].
Proof. intros. unfold seq_text. destruct xs; discriminate. Qed.

Lemma tprint_nonempty : forall lay n t, tok_ok t = true -> tprint lay n t <> [].
Proof.
  intros lay n t. revert n. induction t as [l|x y cs IH|x k v IHk IHv|x cs IH|cs IH] using tree_ind2; intros n Hok;
    cbn [tprint]; try apply seq_text_nonempty.
  - cbn in Hok. unfold leaf_ok, leaf_text in *. destruct (lk l); try discriminate.
    + apply andb_prop in Hok as [H _]. destruct (ltext l); [discriminate|congruence].
    + apply andb_prop in Hok as [H _]. destruct (ltext l); [discriminate|congruence].
    + destruct (str_eqb _ _); discriminate.
  - intro H. apply app_eq_nil in H as [_ H]. discriminate.
Qed.

Lemma arrow_marked : marks arrow <> [].
Proof. discriminate. Qed.

Lemma from_to_marked : forall lay n a b, marks (from_to lay n a b) <> [].
Proof.
  intros. unfold from_to. intro H. apply marks_nil_app in H as [_ H]. apply marks_nil_app in H as [H _].
  exact (arrow_marked H).
Qed.

Lemma escape_cp_nonempty : forall c, escape_cp c <> [].
Proof.
  intro c. unfold escape_cp. destruct (short_escape c); [discriminate|].
  destruct ((32 <=? c) && (c <=? 126)); [discriminate|]. destruct (c <? 65536); discriminate.
Qed.

Lemma escape_string_nil : forall s, escape_string s = [] -> s = [].
Proof.
  intros [|c s] H; [reflexivity|]. unfold escape_string in H. cbn in H. apply app_eq_nil in H as [H _].
  exfalso. exact (escape_cp_nonempty c H).
Qed.

Lemma marks_runs : forall rs ad, marks (mk Removed (escape_string rs) ++ mk Inserted (escape_string ad)) = [] <-> rs = [] /\ ad = [].
Proof.
  intros rs ad. rewrite marks_nil_app, !marks_mk_nil. split.
  - intros [[H|H] [H'|H']]; try discriminate. split; apply escape_string_nil; assumption.
  - intros [-> ->]. split; right; reflexivity.
Qed.

Lemma marks_rstr : forall ops rs ad, marks (rstr rs ad ops) = [] <-> rs = [] /\ ad = [] /\ forallb is_keep ops = true.
Proof.
  induction ops as [|o ops IH]; intros rs ad.
  - cbn [rstr forallb]. rewrite marks_runs. tauto.
  - destruct o as [c|c d|c|d]; cbn [rstr forallb is_keep andb].
    + rewrite app_assoc, marks_nil_app, marks_runs, marks_nil_app, IH. rewrite marks_mk_plain. tauto.
    + rewrite IH. split; [intros [H _]|intros [_ [_ H]]; discriminate]. destruct rs; discriminate.
    + rewrite app_assoc, marks_nil_app, marks_runs, IH. split; [intros [_ [H _]]|intros [_ [_ H]]]; discriminate.
    + rewrite app_assoc, marks_nil_app, marks_runs, IH. split; [intros [_ [_ [H _]]]|intros [_ [_ H]]]; discriminate.
Qed.

Lemma marks_rstredit : forall ops, marks (rstredit ops) = [] <-> forallb is_keep ops = true.
Proof.
  intro ops. unfold rstredit.
  change ((34, Plain) :: rstr [] [] ops ++ [(34, Plain)]) with (mk Plain [34] ++ rstr [] [] ops ++ mk Plain [34]).
  rewrite !marks_nil_app, marks_rstr, !marks_mk_plain. tauto.
Qed.

Lemma first_mark_plain : forall s, marks s = [] -> first_mark s = Plain.
Proof. intros [|[c m] s] H; [reflexivity|]. cbn in *. destruct m; try discriminate. reflexivity. Qed.

Lemma marks_lead : forall join n body, marks body = [] -> marks (item_lead join n body) = [].
Proof.
  intros join n body H. unfold item_lead. destruct join; [reflexivity|].
  rewrite (first_mark_plain body H). cbn. apply marks_mk_plain.
Qed.

Lemma marks_ritems : forall join n items first,
  Forall (fun it => fst it <> IKeep -> marks (snd it) <> []) items ->
  (marks (ritems join n first 0 0 items) = [] <-> Forall (fun it => fst it = IKeep /\ marks (snd it) = []) items).
Proof.
  intros join n items. induction items as [|[k body] items IH]; intros first HF.
  - cbn. split; [constructor|reflexivity].
  - inversion HF as [|? ? Hk HF']; subst. cbn [fst snd] in Hk.
    destruct k.
    + assert (E : marks (ritems join n first 0 0 ((IKeep, body) :: items)) = [] <->
                  marks body = [] /\ marks (ritems join n false 0 0 items) = []).
      { destruct first; cbn [ritems Nat.min Nat.sub].
        - rewrite !marks_nil_app. split; [tauto|]. intros [H1 H2]. repeat split; auto. apply marks_lead. exact H1.
        - change ((44, Plain) :: item_lead join n body ++ body ++ ritems join n false 0 0 items)
            with (mk Plain [44] ++ item_lead join n body ++ body ++ ritems join n false 0 0 items).
          rewrite !marks_nil_app, marks_mk_plain. split; [tauto|]. intros [H1 H2]. repeat split; auto. apply marks_lead. exact H1. }
      rewrite E, (IH false HF'). split.
      * intros [H1 H2]. constructor; auto.
      * intro H. inversion H as [|? ? [_ H1] H2]; subst. auto.
    + split.
      * intro H. exfalso. apply Hk; [discriminate|].
        destruct first; cbn [ritems Nat.min Nat.sub] in H.
        -- apply marks_nil_app in H as [_ H]. apply marks_nil_app in H as [H _]. exact H.
        -- cbn in H. discriminate.
      * intro H. inversion H as [|? ? [H1 _] _]; discriminate.
    + split.
      * intro H. exfalso. apply Hk; [discriminate|].
        destruct first; cbn [ritems Nat.min Nat.sub] in H.
        -- apply marks_nil_app in H as [_ H]. apply marks_nil_app in H as [H _]. exact H.
        -- cbn in H. discriminate.
      * intro H. inversion H as [|? ? [H1 _] _]; discriminate.
Qed.

Lemma marks_rseq : forall open close join n ne items,
  Forall (fun it => fst it <> IKeep -> marks (snd it) <> []) items ->
  (marks (rseq open close join n ne items) = [] <-> Forall (fun it => fst it = IKeep /\ marks (snd it) = []) items).
Proof.
  intros open close join n ne items HF. unfold rseq.
  change ((open, Plain) :: ritems join (S n) true 0 0 items ++ (if ne then mk Plain (sep join n) else []) ++ [(close, Plain)])
    with (mk Plain [open] ++ ritems join (S n) true 0 0 items ++ (if ne then mk Plain (sep join n) else []) ++ mk Plain [close]).
  rewrite !marks_nil_app, !marks_mk_plain, (marks_ritems join (S n) items true HF).
  assert (marks (if ne then mk Plain (sep join n) else []) = []) by (destruct ne; [apply marks_mk_plain|reflexivity]).
  tauto.
Qed.

Definition Pmarks (e : edit) : Prop :=
  forall lay n inl a b, tok_ok a = true -> tok_ok b = true -> (marks (redit lay n inl a b e) = [] <-> qe a e = true).

Lemma marks_plain_iff : forall lay n t (P : Prop), P -> (marks (mk Plain (tprint lay n t)) = [] <-> P).
Proof. intros. rewrite marks_mk_plain. tauto. Qed.

Lemma from_to_in_marked : forall inl lay n a b, marks (from_to_in inl lay n a b) <> [].
Proof.
  intros. unfold from_to_in. destruct (inl && is_mapping a); [|apply from_to_marked].
  unfold from_to_twice. intro H. apply marks_nil_app in H as [_ H]. apply marks_nil_app in H as [H _]. discriminate.
Qed.

Lemma marks_mf : forall c inl lay n a b,
  marks (if 0 <? c then from_to_in inl lay n a b else mk Plain (tprint lay n b)) = [] <-> negb (0 <? c) = true.
Proof.
  intros. destruct (0 <? c); cbn [negb].
  - split; [intro H; exfalso; exact (from_to_in_marked _ _ _ _ _ H)|discriminate].
  - rewrite marks_mk_plain. tauto.
Qed.

Lemma marks_items : forall lay n k a b subs,
  tok_ok a = true -> tok_ok b = true ->
  Forall (fun s => match s with SPair _ _ e => Pmarks e | _ => True end) subs ->
  let items :=
      ((fix items (ss : list sub) : list (ikind * stream) :=
          match ss with
          | [] => []
          | SPair i j e' :: r =>
              (IKeep,
               match k, e' with
               | KMultiSet, EMatch c => if 0 <? c then from_to lay (S n) (child a i) (child b j)
                                        else mk Plain (tprint lay (S n) (child a i))
               | _, _ => redit lay (S n) (is_lst a) (child a i) (child b j) e'
               end) :: items r
          | SRem i _ :: r => (IRem, mk Removed (tprint lay (S n) (child a i))) :: items r
          | SIns j _ :: r => (IIns, mk Inserted (tprint lay (S n) (child b j))) :: items r
          end) subs) in
  Forall (fun it => fst it <> IKeep -> marks (snd it) <> []) items /\
  (Forall (fun it => fst it = IKeep /\ marks (snd it) = []) items <->
   (fix all (ss : list sub) : bool :=
      match ss with
      | [] => true
      | SPair i _ e' :: r => qe (child a i) e' && all r
      | _ :: _ => false
      end) subs = true).
Proof.
  intros lay n k a b subs Ha Hb HF. cbv zeta.
  induction HF as [|s subs Hs HF [IH1 IH2]].
  - split; [constructor|]. split; [reflexivity|constructor].
  - destruct s as [i j e'|i c|j c].
    + pose proof (tok_ok_child a i Ha) as Hai. pose proof (tok_ok_child b j Hb) as Hbj.
      split; [constructor; [cbn; congruence|exact IH1]|].
      assert (E : marks (match k, e' with
                         | KMultiSet, EMatch c => if 0 <? c then from_to lay (S n) (child a i) (child b j)
                                                  else mk Plain (tprint lay (S n) (child a i))
                         | _, _ => redit lay (S n) (is_lst a) (child a i) (child b j) e'
                         end) = [] <-> qe (child a i) e' = true).
      { pose proof (Hs lay (S n) (is_lst a) (child a i) (child b j) Hai Hbj) as G.
        destruct k; try exact G. destruct e'; try exact G. cbn [qe].
        destruct (0 <? c); cbn [negb].
        - split; [intro H; exfalso; exact (from_to_marked _ _ _ _ H)|discriminate].
        - rewrite marks_mk_plain. tauto. }
      split.
      * intro H. inversion H as [|? ? [_ H1] H2]; subst. cbn [snd] in H1.
        apply andb_true_intro. split; [apply E; exact H1|apply IH2; exact H2].
      * intro H. apply andb_prop in H as [H1 H2]. constructor; [split; [reflexivity|apply E; exact H1]|apply IH2; exact H2].
    + pose proof (tok_ok_child a i Ha) as Hai. split.
      * constructor; [|exact IH1]. intros _. cbn [snd]. rewrite marks_mk_other by discriminate.
        pose proof (tprint_nonempty lay (S n) _ Hai). destruct (tprint lay (S n) (child a i)); [congruence|discriminate].
      * split; [|discriminate]. intro H. inversion H as [|? ? [H1 _] _]. discriminate.
    + pose proof (tok_ok_child b j Hb) as Hbj. split.
      * constructor; [|exact IH1]. intros _. cbn [snd]. rewrite marks_mk_other by discriminate.
        pose proof (tprint_nonempty lay (S n) _ Hbj). destruct (tprint lay (S n) (child b j)); [congruence|discriminate].
      * split; [|discriminate]. intro H. inversion H as [|? ? [H1 _] _]. discriminate.
Qed.

Theorem marks_redit : forall e, Pmarks e.
Proof.
  apply edit_ind2; unfold Pmarks.
  - intros c lay n inl a b _ _. cbn [redit qe]. apply marks_mf.
  - intros c lay n inl a b _ _. cbn [redit qe]. apply marks_mf.
  - intros c ops lay n inl a b _ _. cbn [redit qe]. apply marks_rstredit.
  - intros k c subs IH lay n inl a b Ha Hb. cbn [redit qe].
    destruct (is_seq_kind k) eqn:Ek.
    + destruct (marks_items lay n k a b subs Ha Hb IH) as [H1 H2].
      destruct a as [l|x y cs|x ka va|x cs|cs]; cbn [brackets fst snd];
        try (rewrite marks_mk_plain; tauto);
        (rewrite marks_rseq by exact H1; exact H2).
    + destruct subs as [|[i j ke|i x|j x] [|[i' j' ve|i' x'|j' x'] [|s3 rest]]]; try (rewrite marks_mk_plain; tauto).
      inversion IH as [|? ? Hke IH']; subst. inversion IH' as [|? ? Hve _]; subst.
      pose proof (tok_ok_child a 0 Ha) as Ha0. pose proof (tok_ok_child a 1 Ha) as Ha1.
      pose proof (tok_ok_child b 0 Hb) as Hb0. pose proof (tok_ok_child b 1 Hb) as Hb1.
      rewrite !marks_nil_app, marks_mk_plain, andb_true_iff.
      assert (G : forall x y e', Pmarks e' -> tok_ok x = true -> tok_ok y = true ->
                 (marks (match e' with
                         | EComp _ _ _ => redit lay n false x y e'
                         | _ => if 0 <? cost e' then redit lay n false x y e' else mk Plain (tprint lay n x)
                         end) = [] <->
                  match e' with EComp _ _ _ => qe x e' | _ => negb (0 <? cost e') || qe x e' end = true)).
      { intros x y e' He' Hx Hy. pose proof (He' lay n false x y Hx Hy) as G.
        destruct e'; try exact G; destruct (0 <? cost _); cbn [negb orb]; try exact G; rewrite marks_mk_plain; tauto. }
      rewrite (G _ _ ke Hke Ha0 Hb0), (G _ _ ve Hve Ha1 Hb1). tauto.
Qed.

Theorem marks_jrender : forall lay a b e, tok_ok a = true -> tok_ok b = true ->
  (marks (jrender lay a b e) = [] <-> qn a e = true).
Proof.
  intros lay a b e Ha Hb. unfold jrender, rnode, qn.
  pose proof (marks_redit e lay 0%nat false a b Ha Hb) as G.
  destruct e; try exact G; destruct (0 <? cost _); cbn [negb orb]; try exact G; rewrite marks_mk_plain; tauto.
Qed.

(* ------------------------------------------------------------------ no marks <-> cost 0, for well-priced scripts *)

(* Match / Replace cost >= 0, every Remove / Insert costs > 0 (the pricing of edits.py with a positive
   penalty or a non-empty node; FALSE for the zero-size leaves of finding D16) *)
Fixpoint pos_costs (e : edit) : bool :=
  match e with
  | EMatch c | EReplace c => 0 <=? c
  | EStr _ _ => true
  | EComp _ _ subs =>
      (fix all (ss : list sub) : bool :=
         match ss with
         | [] => true
         | SPair _ _ e' :: r => pos_costs e' && all r
         | SRem _ c :: r | SIns _ c :: r => (0 <? c) && all r
         end) subs
  end.

(* a KeyValuePairEdit lists exactly its key edit and its value edit *)
Fixpoint kvp2 (e : edit) : bool :=
  match e with
  | EComp k _ subs =>
      (if is_seq_kind k then true else match subs with [SPair _ _ _; SPair _ _ _] => true | _ => false end) &&
      (fix all (ss : list sub) : bool :=
         match ss with
         | [] => true
         | SPair _ _ e' :: r => kvp2 e' && all r
         | _ :: r => all r
         end) subs
  | _ => true
  end.

Lemma zsum_cons : forall x l, zsum (x :: l) = x + zsum l.
Proof. reflexivity. Qed.

Lemma zsum_sop_nonneg : forall ops, 0 <= zsum (map sop_cost ops).
Proof.
  induction ops as [|o ops IH]; [cbn; lia|]. cbn [map]. rewrite zsum_cons. destruct o; cbn [sop_cost]; lia.
Qed.

Lemma keep_iff_zero : forall ops, forallb is_keep ops = true <-> zsum (map sop_cost ops) = 0.
Proof.
  induction ops as [|o ops IH]; [cbn; tauto|]. pose proof (zsum_sop_nonneg ops).
  cbn [map forallb]. rewrite zsum_cons.
  destruct o; cbn [is_keep sop_cost andb]; rewrite ?IH; split; intros; try lia; try discriminate.
Qed.

Definition Pnonneg (e : edit) : Prop := additive e = true -> pos_costs e = true -> 0 <= cost e.

Lemma cost_nonneg : forall e, Pnonneg e.
Proof.
  apply edit_ind2; unfold Pnonneg; cbn [cost additive pos_costs].
  - intros c _ H. apply Z.leb_le in H. exact H.
  - intros c _ H. apply Z.leb_le in H. exact H.
  - intros c ops H _. apply Z.eqb_eq in H. subst. apply zsum_sop_nonneg.
  - intros k c subs IH Ha Hp. apply andb_prop in Ha as [Hc Ha]. apply Z.eqb_eq in Hc. subst c.
    induction IH as [|s subs Hs IH IH']; [cbn; lia|]. cbn [map]. rewrite zsum_cons.
    destruct s as [i j e'|i x|j x]; cbn [sub_cost].
    + apply andb_prop in Ha as [Ha1 Ha2]. apply andb_prop in Hp as [Hp1 Hp2].
      pose proof (Hs Ha1 Hp1). pose proof (IH' Ha2 Hp2). lia.
    + apply andb_prop in Hp as [Hp1 Hp2]. apply Z.ltb_lt in Hp1. pose proof (IH' Ha Hp2). lia.
    + apply andb_prop in Hp as [Hp1 Hp2]. apply Z.ltb_lt in Hp1. pose proof (IH' Ha Hp2). lia.
Qed.

Definition Pqe (e : edit) : Prop :=
  forall a b, valid a b e = true -> kvp2 e = true -> additive e = true -> pos_costs e = true ->
    (qe a e = true <-> cost e = 0).

Lemma child_nth_error : forall a i x, nth_error (children a) i = Some x -> child a i = x.
Proof. intros a i x H. unfold child. apply nth_error_nth. exact H. Qed.

Lemma negb_pos_zero : forall c, 0 <= c -> (negb (0 <? c) = true <-> c = 0).
Proof. intros c H. destruct (Z.ltb_spec 0 c); cbn; split; intros; try lia; try discriminate; reflexivity. Qed.

Lemma qe_cost : forall e, Pqe e.
Proof.
  apply edit_ind2; unfold Pqe.
  - intros c a b _ _ _ Hp. cbn in *. apply Z.leb_le in Hp. apply negb_pos_zero. exact Hp.
  - intros c a b _ _ _ Hp. cbn in *. apply Z.leb_le in Hp. apply negb_pos_zero. exact Hp.
  - intros c ops a b _ _ Ha _. cbn in *. apply Z.eqb_eq in Ha. subst c. apply keep_iff_zero.
  - intros k c subs IH a b Hv Hk Ha Hp.
    cbn [valid] in Hv. apply andb_prop in Hv as [Hv Hall]. apply andb_prop in Hv as [Hfit Hidx].
    cbn [kvp2] in Hk. apply andb_prop in Hk as [Hshape Hk].
    cbn [additive] in Ha. apply andb_prop in Ha as [Hc Ha]. apply Z.eqb_eq in Hc.
    cbn [pos_costs] in Hp. cbn [cost]. subst c.
    (* the per-sub-edit statement, shared by both kinds *)
    assert (Hsubs : Forall (fun s => match s with
                                     | SPair i j e' => exists x, nth_error (children a) i = Some x /\
                                                        0 <= cost e' /\ (qe x e' = true <-> cost e' = 0)
                                     | SRem _ c' | SIns _ c' => 0 < c'
                                     end) subs).
    { clear Hshape Hidx. induction IH as [|s subs Hs IH IH']; [constructor|].
      destruct s as [i j e'|i x|j x].
      - destruct (nth_error (children a) i) as [x|] eqn:Ei; [|discriminate].
        destruct (nth_error (children b) j) as [y|] eqn:Ej; [|discriminate].
        apply andb_prop in Hall as [Hv1 Hall]. apply andb_prop in Hk as [Hk1 Hk].
        apply andb_prop in Ha as [Ha1 Ha]. apply andb_prop in Hp as [Hp1 Hp].
        constructor; [|apply IH'; assumption].
        exists x. split; [exact Ei|]. split; [apply cost_nonneg; assumption|apply (Hs x y); assumption].
      - apply andb_prop in Hp as [Hp1 Hp]. apply Z.ltb_lt in Hp1. constructor; [exact Hp1|apply IH'; assumption].
      - apply andb_prop in Hp as [Hp1 Hp]. apply Z.ltb_lt in Hp1. constructor; [exact Hp1|apply IH'; assumption]. }
    cbn [qe]. destruct (is_seq_kind k) eqn:Ek.
    + assert (Hb : exists p, brackets (false, false) a = Some p).
      { destruct k, a, b; try discriminate; cbn; eauto. }
      destruct Hb as [p ->].
      clear -Hsubs. induction Hsubs as [|s subs Hs Hsubs0 IH]; [cbn; tauto|]. cbn [map]. rewrite zsum_cons.
      destruct s as [i j e'|i x|j x]; cbn [sub_cost].
      * destruct Hs as [x [Ei [H0 Hq]]]. rewrite (child_nth_error a i x Ei).
        assert (0 <= zsum (map sub_cost subs)).
        { clear -Hsubs0. induction Hsubs0 as [|s subs Hs _ IH]; [cbn; lia|]. cbn [map]. rewrite zsum_cons.
          destruct s; cbn [sub_cost]; [destruct Hs as [? [_ [? _]]]|..]; lia. }
        rewrite andb_true_iff, Hq, IH. lia.
      * assert (0 <= zsum (map sub_cost subs)).
        { clear -Hsubs0. induction Hsubs0 as [|s subs Hs _ IH]; [cbn; lia|]. cbn [map]. rewrite zsum_cons.
          destruct s; cbn [sub_cost]; [destruct Hs as [? [_ [? _]]]|..]; lia. }
        split; [discriminate|lia].
      * assert (0 <= zsum (map sub_cost subs)).
        { clear -Hsubs0. induction Hsubs0 as [|s subs Hs _ IH]; [cbn; lia|]. cbn [map]. rewrite zsum_cons.
          destruct s; cbn [sub_cost]; [destruct Hs as [? [_ [? _]]]|..]; lia. }
        split; [discriminate|lia].
    + destruct subs as [|[i j ke|i x|j x] [|[i' j' ve|i' x'|j' x'] [|s3 rest]]]; try discriminate.
      destruct k; try discriminate. cbn [ordered_kind] in Hidx. apply andb_prop in Hidx as [Hfi _].
      cbn [flat_map from_idx app] in Hfi.
      destruct a as [l|? ? ?|ake ka va|? ?|?]; try discriminate. cbn [children length seq] in Hfi.
      cbn in Hfi. apply andb_prop in Hfi as [Hi Hfi]. apply andb_prop in Hfi as [Hi' _].
      apply Nat.eqb_eq in Hi, Hi'. subst i i'.
      pose proof (Forall_inv Hsubs) as H1. cbn beta iota in H1. destruct H1 as [x [Ex [H0 Hq]]].
      pose proof (Forall_inv (Forall_inv_tail Hsubs)) as H2. cbn beta iota in H2. destruct H2 as [x' [Ex' [H0' Hq']]].
      cbn in Ex, Ex'. inversion Ex; inversion Ex'; subst x x'.
      cbn [map sub_cost zsum fold_right]. unfold child; cbn [children nth].
      assert (G : forall x e', 0 <= cost e' -> (qe x e' = true <-> cost e' = 0) ->
                  (match e' with EComp _ _ _ => qe x e' | _ => negb (0 <? cost e') || qe x e' end = true <-> cost e' = 0)).
      { intros x e' Hn Hq0. destruct e'; try exact Hq0;
          (rewrite orb_true_iff, Hq0, (negb_pos_zero _ Hn); tauto). }
      rewrite andb_true_iff, (G ka ke H0 Hq), (G va ve H0' Hq'). lia.
Qed.

Theorem qn_cost : forall a b e, valid a b e = true -> kvp2 e = true -> additive e = true -> pos_costs e = true ->
  (qn a e = true <-> cost e = 0).
Proof.
  intros a b e Hv Hk Ha Hp. pose proof (qe_cost e a b Hv Hk Ha Hp) as Hq.
  pose proof (cost_nonneg e Ha Hp) as Hn. unfold qn.
  destruct e; try exact Hq; (rewrite orb_true_iff, Hq, (negb_pos_zero _ Hn); tauto).
Qed.

(* ------------------------------------------------------------------ the projections ARE the documents
   (ordered containers; for mappings the members appear in script order, see C06_first / C06_second) *)

(* what C01 does not say: a pair matched at cost 0 prints the same on both sides (false for finding D4), and a
   string edit is between two strings and costs something *)
Fixpoint Faithful (a b : tree) (e : edit) {struct e} : Prop :=
  match e with
  | EMatch c | EReplace c => 0 < c \/ ttoks a = ttoks b
  | EStr c _ => 0 < c /\ match a, b with Leaf x, Leaf y => lk x = KStr /\ lk y = KStr | _, _ => False end
  | EComp _ _ subs =>
      (fix all (ss : list sub) : Prop :=
         match ss with
         | [] => True
         | SPair i j e' :: r => Faithful (child a i) (child b j) e' /\ all r
         | _ :: r => all r
         end) subs
  end.

Fixpoint ordered_only (e : edit) : bool :=
  match e with
  | EComp k _ subs =>
      ordered_kind k &&
      (fix all (ss : list sub) : bool :=
         match ss with
         | [] => true
         | SPair _ _ e' :: r => ordered_only e' && all r
         | _ :: r => all r
         end) subs
  | _ => true
  end.

Lemma str_eqb_eq : forall a b, str_eqb a b = true -> a = b.
Proof.
  induction a as [|x a IH]; destruct b as [|y b]; cbn; intro H; try discriminate; [reflexivity|].
  apply andb_prop in H as [H1 H2]. apply Z.eqb_eq in H1. f_equal; auto.
Qed.

Lemma map_child_seq : forall a, map (child a) (seq 0 (length (children a))) = children a.
Proof.
  intro a. unfold child. generalize (children a) as l. intro l.
  apply nth_ext with (d := dummy) (d' := dummy).
  - rewrite map_length, seq_length. reflexivity.
  - intros n Hn. rewrite map_length, seq_length in Hn.
    rewrite (nth_indep _ dummy (nth 0 l dummy)) by (rewrite map_length, seq_length; exact Hn).
    rewrite (map_nth (fun i => nth i l dummy)). rewrite seq_nth by exact Hn. reflexivity.
Qed.

Definition Pdoc (side : bool) (e : edit) : Prop :=
  forall a b, valid a b e = true -> Faithful a b e -> ordered_only e = true -> kvp2 e = true ->
    ttoks (proj side a b e) = ttoks (if side then b else a).

Lemma proj_node_doc : forall side a b e, Pdoc side e -> valid a b e = true -> Faithful a b e -> ordered_only e = true ->
  kvp2 e = true ->
  ttoks (match e with
         | EComp _ _ _ => proj side a b e
         | _ => if 0 <? cost e then proj side a b e else a
         end) = ttoks (if side then b else a).
Proof.
  intros side a b e He Hv Hf Ho Hk2. pose proof (He a b Hv Hf Ho Hk2) as G.
  destruct e as [c|c|c ops|k c subs]; try exact G; cbn [cost]; destruct (0 <? c) eqn:Ec; try exact G.
  - cbn in Hf. apply Z.ltb_ge in Ec. destruct Hf as [Hf|Hf]; [lia|]. destruct side; [exact Hf|reflexivity].
  - cbn in Hf. apply Z.ltb_ge in Ec. destruct Hf as [Hf|Hf]; [lia|]. destruct side; [exact Hf|reflexivity].
  - cbn in Hf. apply Z.ltb_ge in Ec. destruct Hf as [Hf _]. lia.
Qed.

Lemma proj_items_first : forall k a b subs,
  is_seq_kind k = true -> ordered_kind k = true ->
  Forall (fun s => match s with SPair _ _ e => Pdoc false e | _ => True end) subs ->
  valid a b (EComp k 0 subs) = true -> Faithful a b (EComp k 0 subs) -> ordered_only (EComp k 0 subs) = true ->
  kvp2 (EComp k 0 subs) = true ->
  flat_map ttoks
    ((fix items (ss : list sub) : list tree :=
        match ss with
        | [] => []
        | SPair i j e' :: r =>
            match k, e' with
            | KMultiSet, EMatch c => if 0 <? c then child a i else child a i
            | _, _ => proj false (child a i) (child b j) e'
            end :: items r
        | SRem i _ :: r => child a i :: items r
        | SIns j _ :: r => items r
        end) subs) = flat_map ttoks (map (child a) (flat_map from_idx subs)).
Proof.
  intros k a b subs Hk Hord IH Hv Hf Ho Hk2.
  cbn [valid] in Hv. apply andb_prop in Hv as [_ Hv]. cbn [ordered_only] in Ho. apply andb_prop in Ho as [_ Ho].
  cbn [kvp2] in Hk2. apply andb_prop in Hk2 as [_ Hk2].
  cbn [Faithful] in Hf.
  induction IH as [|s subs Hs IH IH']; [reflexivity|].
  destruct s as [i j e'|i x|j x]; cbn [flat_map from_idx map app].
  - destruct (nth_error (children a) i) as [x|] eqn:Ei; [|discriminate].
    destruct (nth_error (children b) j) as [y|] eqn:Ej; [|discriminate].
    apply andb_prop in Hv as [Hv1 Hv]. apply andb_prop in Ho as [Ho1 Ho]. destruct Hf as [Hf1 Hf].
    apply andb_prop in Hk2 as [Hk21 Hk2].
    rewrite (IH' Hv Hf Ho Hk2). f_equal.
    rewrite <- (child_nth_error a i x Ei) in Hv1. rewrite <- (child_nth_error b j y Ej) in Hv1.
    pose proof (Hs _ _ Hv1 Hf1 Ho1 Hk21) as G. cbn [negb] in G.
    destruct k; try discriminate; exact G.
  - rewrite (IH' Hv Hf Ho Hk2). reflexivity.
  - apply (IH' Hv Hf Ho Hk2).
Qed.

Lemma proj_items_second : forall k a b subs,
  is_seq_kind k = true -> ordered_kind k = true ->
  Forall (fun s => match s with SPair _ _ e => Pdoc true e | _ => True end) subs ->
  valid a b (EComp k 0 subs) = true -> Faithful a b (EComp k 0 subs) -> ordered_only (EComp k 0 subs) = true ->
  kvp2 (EComp k 0 subs) = true ->
  flat_map ttoks
    ((fix items (ss : list sub) : list tree :=
        match ss with
        | [] => []
        | SPair i j e' :: r =>
            match k, e' with
            | KMultiSet, EMatch c => if 0 <? c then child b j else child a i
            | _, _ => proj true (child a i) (child b j) e'
            end :: items r
        | SRem i _ :: r => items r
        | SIns j _ :: r => child b j :: items r
        end) subs) = flat_map ttoks (map (child b) (flat_map to_idx subs)).
Proof.
  intros k a b subs Hk Hord IH Hv Hf Ho Hk2.
  cbn [valid] in Hv. apply andb_prop in Hv as [_ Hv]. cbn [ordered_only] in Ho. apply andb_prop in Ho as [_ Ho].
  cbn [kvp2] in Hk2. apply andb_prop in Hk2 as [_ Hk2].
  cbn [Faithful] in Hf.
  induction IH as [|s subs Hs IH IH']; [reflexivity|].
  destruct s as [i j e'|i x|j x]; cbn [flat_map to_idx map app].
  - destruct (nth_error (children a) i) as [x|] eqn:Ei; [|discriminate].
    destruct (nth_error (children b) j) as [y|] eqn:Ej; [|discriminate].
    apply andb_prop in Hv as [Hv1 Hv]. apply andb_prop in Ho as [Ho1 Ho]. destruct Hf as [Hf1 Hf].
    apply andb_prop in Hk2 as [Hk21 Hk2].
    rewrite (IH' Hv Hf Ho Hk2). f_equal.
    rewrite <- (child_nth_error a i x Ei) in Hv1. rewrite <- (child_nth_error b j y Ej) in Hv1.
    pose proof (Hs _ _ Hv1 Hf1 Ho1 Hk21) as G. cbn [negb] in G.
    destruct k; try discriminate; exact G.
  - apply (IH' Hv Hf Ho Hk2).
  - rewrite (IH' Hv Hf Ho Hk2). reflexivity.
Qed.

Theorem proj_doc : forall side e, Pdoc side e.
Proof.
  intro side. apply edit_ind2; unfold Pdoc.
  - intros c a b _ Hf _ _. cbn in *. destruct (0 <? c) eqn:Ec; [reflexivity|].
    apply Z.ltb_ge in Ec. destruct Hf as [Hf|Hf]; [lia|]. destruct side; [reflexivity|symmetry; exact Hf].
  - intros c a b _ Hf _ _. cbn in *. destruct (0 <? c) eqn:Ec; [reflexivity|].
    apply Z.ltb_ge in Ec. destruct Hf as [Hf|Hf]; [lia|]. destruct side; [reflexivity|symmetry; exact Hf].
  - intros c ops a b Hv Hf _ _. cbn in Hv, Hf. destruct Hf as [_ Hf].
    destruct a as [x| | | |]; try contradiction. destruct b as [y| | | |]; try contradiction.
    destruct Hf as [Hx Hy]. apply andb_prop in Hv as [H1 H2]. apply str_eqb_eq in H1, H2.
    destruct side; cbn [proj ttoks]; unfold str_leaf, leaf_toks; cbn [lk ltext];
      [rewrite Hy, H2|rewrite Hx, H1]; reflexivity.
  - intros k c subs IH a b Hv Hf Ho Hk2.
    assert (Hk20 : kvp2 (EComp k 0 subs) = true) by exact Hk2.
    cbn [kvp2] in Hk2. apply andb_prop in Hk2 as [Hshape Hk2].
    assert (Hv0 : valid a b (EComp k 0 subs) = true) by exact Hv.
    assert (Hf0 : Faithful a b (EComp k 0 subs)) by exact Hf.
    assert (Ho0 : ordered_only (EComp k 0 subs) = true) by exact Ho.
    cbn [valid] in Hv. apply andb_prop in Hv as [Hv Hall]. apply andb_prop in Hv as [Hfit Hidx].
    cbn [ordered_only] in Ho. apply andb_prop in Ho as [Hord Ho]. rewrite Hord in Hidx.
    apply andb_prop in Hidx as [Hfi Hti]. apply nat_list_eqb_eq in Hfi, Hti.
    cbn [proj]. destruct (is_seq_kind k) eqn:Ek.
    + destruct k; try discriminate; destruct a as [l|x y cs|x ka va|x cs|cs]; try discriminate;
        destruct b as [l'|x' y' ds|x' kb vb|x' ds|ds]; try discriminate; cbn [brackets rebuild ttoks];
        (destruct side;
         [ rewrite (proj_items_second _ _ _ subs Ek Hord IH Hv0 Hf0 Ho0 Hk20), Hti, map_child_seq; reflexivity
         | rewrite (proj_items_first _ _ _ subs Ek Hord IH Hv0 Hf0 Ho0 Hk20), Hfi, map_child_seq; reflexivity ]).
    + destruct k; try discriminate.
      destruct a as [l|x y cs|x ka va|x cs|cs]; try discriminate.
      destruct b as [l'|x' y' ds|x' kb vb|x' ds|ds]; try discriminate.
      cbn [children length seq] in Hfi, Hti.
      cbn [is_seq_kind] in Hshape.
      destruct subs as [|[i j ke|i z|j z] [|[i' j' ve|i' z'|j' z'] [|s3 rest]]]; try discriminate. cbn in Hfi, Hti.
      inversion Hfi; inversion Hti; subst i i' j j'.
      pose proof (Forall_inv IH) as Hke. pose proof (Forall_inv (Forall_inv_tail IH)) as Hve. cbn beta iota in Hke, Hve.
      cbn in Hall. apply andb_prop in Hall as [Hvk Hall]. apply andb_prop in Hall as [Hvv _].
      cbn in Hf. destruct Hf as [Hfk [Hfv _]].
      cbn in Ho. apply andb_prop in Ho as [Hok Ho]. apply andb_prop in Ho as [Hov _].
      apply andb_prop in Hk2 as [Hkk Hk2]. apply andb_prop in Hk2 as [Hkv _].
      unfold child in *; cbn [children nth] in *. cbn [ttoks].
      rewrite (proj_node_doc side ka kb ke Hke Hvk Hfk Hok Hkk), (proj_node_doc side va vb ve Hve Hvv Hfv Hov Hkv).
      destruct side; reflexivity.
Qed.

Theorem nproj_doc : forall side a b e, valid a b e = true -> Faithful a b e -> ordered_only e = true -> kvp2 e = true ->
  ttoks (nproj side a b e) = ttoks (if side then b else a).
Proof. intros side a b e Hv Hf Ho Hk. unfold nproj. apply proj_node_doc; auto. apply proj_doc. Qed.

(* ------------------------------------------------------------------ the statements of C06 *)

Definition lf (k : lkind) (s : list Z) (n : Z) : tree := Leaf {| lk := k; ltext := s; lnum := n; lexp := 0 |}.

(* (1),(2) for ALL trees, scripts and layouts: what is left after deleting the inserted (removed) characters is,
   token for token, the plain print of the document  nproj false (true) a b e  read off the script: a's (b's)
   children where they are matched at a cost or removed (inserted), in script order.  "~" forgets only commas
   and whitespace outside string literals (RenderSpec.toks); toks_tprint relates ttoks to tprint. *)
Theorem C06_first_all : forall lay a b e, tok_ok a = true -> tok_ok b = true -> edit_ok e = true ->
  clean false a e = true ->
  toks (erase Inserted (jrender lay a b e)) = ttoks (nproj false a b e).
Proof. intros. apply (jrender_spells false); assumption. Qed.

Theorem C06_second_all : forall lay a b e, tok_ok a = true -> tok_ok b = true -> edit_ok e = true ->
  clean false a e = true ->
  toks (erase Removed (jrender lay a b e)) = ttoks (nproj true a b e).
Proof. intros. apply (jrender_spells true); assumption. Qed.

(* (3) no change marks exactly when the script shows nothing; for well-priced scripts: exactly at cost 0 *)
Theorem C06_marks_all : forall lay a b e, tok_ok a = true -> tok_ok b = true ->
  (marks (jrender lay a b e) = [] <-> qn a e = true).
Proof. exact marks_jrender. Qed.

Theorem C06_marks_cost_all : forall lay a b e, tok_ok a = true -> tok_ok b = true ->
  valid a b e = true -> kvp2 e = true -> additive e = true -> pos_costs e = true ->
  (marks (jrender lay a b e) = [] <-> cost e = 0).
Proof.
  intros lay a b e Ha Hb Hv Hk Had Hp. rewrite (marks_jrender lay a b e Ha Hb). apply (qn_cost a b e); assumption.
Qed.

(* ordered containers (lists, leaves, strings, key/value pairs): both projections are "~" the documents *)
Theorem C06_ordered_partial_all : forall lay a b e,
  tok_ok a = true -> tok_ok b = true -> edit_ok e = true -> clean false a e = true ->
  valid a b e = true -> Faithful a b e -> ordered_only e = true -> kvp2 e = true ->
  sim (erase Inserted (jrender lay a b e)) (tprint lay 0 a) /\
  sim (erase Removed (jrender lay a b e)) (tprint lay 0 b).
Proof.
  intros lay a b e Ha Hb He Hc Hv Hf Ho Hk. unfold sim. split.
  - rewrite (C06_first_all lay a b e Ha Hb He Hc), (nproj_doc false a b e Hv Hf Ho Hk), toks_tprint by exact Ha. reflexivity.
  - rewrite (C06_second_all lay a b e Ha Hb He Hc), (nproj_doc true a b e Hv Hf Ho Hk), toks_tprint by exact Hb. reflexivity.
Qed.

(* finding D33: a mapping replaced as an element of a list is printed  from -> to -> to ; neither projection is
   the print of any document the script could spell *)
Theorem C06_mapping_replaced_refuted :
  exists lay a b e, tok_ok a = true /\ tok_ok b = true /\ edit_ok e = true /\ valid a b e = true /\
                    Faithful a b e /\ ordered_only e = true /\ kvp2 e = true /\ additive e = true /\
                    ~ sim (erase Inserted (jrender lay a b e)) (tprint lay 0 a) /\
                    ~ sim (erase Removed (jrender lay a b e)) (tprint lay 0 b) /\
                    jparse_lenient (erase Inserted (jrender lay a b e)) = None.
Proof.
  exists (true, true), (Lst true true [MSet true []]), (Lst true true [lf KInt [53] 5]),
         (EComp KFixedLen 2 [SPair 0 0 (EReplace 2)]).
  repeat split; try reflexivity; try (left; reflexivity); try (unfold sim; vm_compute; discriminate).
Qed.

(* the hypotheses are necessary: finding D4 (a zero-cost match of 1 and 1.0 is printed once) breaks Faithful,
   finding D16 (removing "" from a list of leaves costs 0) breaks pos_costs *)

Theorem C06_zero_cost_match_refuted :
  exists lay a b e, tok_ok a = true /\ tok_ok b = true /\ edit_ok e = true /\ valid a b e = true /\
                    ordered_only e = true /\ kvp2 e = true /\
                    ~ sim (erase Removed (jrender lay a b e)) (tprint lay 0 b).
Proof.
  exists (true, true), (Lst true true [lf KInt [49] 1]),
         (Lst true true [Leaf {| lk := KFloat; ltext := [49; 46; 48]; lnum := 1; lexp := 0 |}]), (EMatch 0).
  repeat split; try reflexivity. unfold sim. vm_compute. discriminate.
Qed.

Theorem C06_marks_cost_refuted :
  exists lay a b e, tok_ok a = true /\ tok_ok b = true /\ valid a b e = true /\ kvp2 e = true /\ additive e = true /\
                    cost e = 0 /\ marks (jrender lay a b e) <> [].
Proof.
  exists (true, true), (Lst true true [lf KStr [] 0; lf KInt [49] 1]), (Lst true true [lf KInt [49] 1]),
         (EComp KEditDist 0 [SRem 0 0; SPair 1 0 (EMatch 0)]).
  repeat split; try reflexivity. vm_compute. discriminate.
Qed.

(* the hypotheses are satisfiable by a non-trivial script: [1, "ab"] -> [1, "ac", 2] *)
Definition ex_a : tree := Lst true true [lf KInt [49] 1; lf KStr [97; 98] 0].
Definition ex_b : tree := Lst true true [lf KInt [49] 1; lf KStr [97; 99] 0; lf KInt [50] 2].
Definition ex_e : edit :=
  EComp KEditDist 4 [SPair 0 0 (EMatch 0); SPair 1 1 (EStr 2 [SKeep 97; SAdd 99; SDel 98]); SIns 2 2].

Example C06_hypotheses_inhabited :
  tok_ok ex_a = true /\ tok_ok ex_b = true /\ edit_ok ex_e = true /\ valid ex_a ex_b ex_e = true /\
  Faithful ex_a ex_b ex_e /\ ordered_only ex_e = true /\ kvp2 ex_e = true /\ additive ex_e = true /\
  pos_costs ex_e = true /\ clean false ex_a ex_e = true /\
  cost ex_e <> 0 /\ marks (jrender (false, false) ex_a ex_b ex_e) <> [].
Proof.
  repeat split; try reflexivity; try (vm_compute; discriminate); try (right; reflexivity); cbn; lia.
Qed.

Example C06_example : forall lay,
  sim (erase Inserted (jrender lay ex_a ex_b ex_e)) (tprint lay 0 ex_a) /\
  sim (erase Removed (jrender lay ex_a ex_b ex_e)) (tprint lay 0 ex_b).
Proof.
  intro lay. destruct C06_hypotheses_inhabited as [H1 [H2 [H3 [H4 [H5 [H6 [H7 [_ [_ [H8 _]]]]]]]]]].
  apply C06_ordered_partial_all; assumption.
Qed.

(* ------------------------------------------------------------------ reading a projection back (through C12) *)

Definition jj : layout := (true, true).

Lemma seq_text_join : forall o c xs,
  seq_text o c [] [] xs = o :: match xs with [] => [] | x :: r => x ++ flat_map (fun t => 44 :: t) r end ++ [c].
Proof. intros o c [|x r]; cbn; [reflexivity|]. rewrite <- app_assoc. reflexivity. Qed.

(* first / last token of a printed tree *)
Definition head_starts (ts : list tok) : bool := match ts with t :: _ => starts_value t | [] => false end.

Lemma untoks_app_closed : forall ts p rest,
  untoks p (ts ++ rest) = untoks p ts ++ untoks (match rev ts with t :: _ => ends_value t | [] => p end) rest.
Proof.
  induction ts as [|t ts IH]; intros p rest; [reflexivity|].
  cbn [app untoks]. rewrite IH, <- !app_assoc. f_equal. f_equal. f_equal.
  cbn [rev]. destruct (rev ts) as [|u us] eqn:E; cbn; [|reflexivity].
  reflexivity.
Qed.

Definition value_toks (ts : list tok) : Prop :=
  head_starts ts = true /\ match rev ts with t :: _ => ends_value t = true | [] => False end.

Lemma ttoks_value : forall t, value_toks (ttoks t).
Proof.
  induction t as [l|x y cs IH|x k v IHk IHv|x cs IH|cs IH] using tree_ind2; unfold value_toks in *.
  - cbn. unfold leaf_toks. destruct (lk l); cbn; auto.
  - cbn [ttoks]. split; [reflexivity|]. rewrite app_comm_cons, rev_app_distr. cbn. reflexivity.
  - cbn [ttoks]. destruct IHk as [Hk1 Hk2], IHv as [Hv1 Hv2]. split.
    + destruct (ttoks k); [discriminate|exact Hk1].
    + rewrite rev_app_distr. cbn [rev]. rewrite <- app_assoc.
      destruct (rev (ttoks v)) as [|u us]; [contradiction|]. cbn. exact Hv2.
  - cbn [ttoks]. split; [reflexivity|]. rewrite app_comm_cons, rev_app_distr. cbn. reflexivity.
  - cbn [ttoks]. split; [reflexivity|]. rewrite app_comm_cons, rev_app_distr. cbn. reflexivity.
Qed.

Lemma untoks_value : forall ts p rest, value_toks ts ->
  untoks p (ts ++ rest) = (if p then [44] else []) ++ untoks false ts ++ untoks true rest.
Proof.
  intros ts p rest [H1 H2]. rewrite untoks_app_closed.
  destruct (rev ts) as [|u us]; [contradiction|]. rewrite H2. rewrite app_assoc. f_equal.
  destruct ts as [|t ts]; [discriminate|]. cbn in H1. cbn [untoks]. rewrite H1. destruct p; reflexivity.
Qed.

Lemma untoks_items : forall (cs : list tree) (f : tree -> list Z),
  Forall (fun c => untoks false (ttoks c) = f c) cs ->
  forall p rest,
  untoks p (flat_map ttoks cs ++ rest) =
  match cs with
  | [] => untoks p rest
  | x :: r => (if p then [44] else []) ++ f x ++ flat_map (fun t => 44 :: t) (map f r) ++ untoks true rest
  end.
Proof.
  intros cs f H. induction H as [|c cs Hc Hcs IH]; intros p rest; [reflexivity|].
  cbn [flat_map]. rewrite <- app_assoc. rewrite (untoks_value _ p _ (ttoks_value c)). rewrite Hc.
  f_equal. f_equal. rewrite (IH true rest). destruct cs as [|d ds]; [reflexivity|].
  cbn [map flat_map app]. rewrite <- app_assoc. reflexivity.
Qed.

Theorem untoks_ttoks : forall t n, untoks false (ttoks t) = tprint jj n t.
Proof.
  induction t as [l|x y cs IH|x k v IHk IHv|x cs IH|cs IH] using tree_ind2; intro n.
  - cbn. unfold leaf_toks, leaf_text. destruct (lk l); cbn; rewrite ?app_nil_r; reflexivity.
  - cbn [ttoks tprint jj fst sep]. rewrite seq_text_join. cbn [untoks starts_value andb app tok_text ends_value].
    f_equal. rewrite (untoks_items cs (tprint jj (S n))).
    + destruct cs as [|c0 cs']; [reflexivity|]. cbn [map app untoks starts_value andb tok_text ends_value]. rewrite <- app_assoc. reflexivity.
    + eapply Forall_impl; [|exact IH]. cbn. intros c Hc. apply Hc.
  - cbn [ttoks tprint]. rewrite (untoks_value _ false _ (ttoks_value k)). cbn [app].
    rewrite (IHk n). f_equal. cbn [untoks starts_value andb app tok_text ends_value].
    f_equal. f_equal. rewrite <- (app_nil_r (ttoks v)). rewrite (untoks_value _ false _ (ttoks_value v)).
    cbn [app untoks]. rewrite app_nil_r. apply IHv.
  - cbn [ttoks tprint jj snd sep]. rewrite seq_text_join. cbn [untoks starts_value andb app tok_text ends_value].
    f_equal. rewrite (untoks_items cs (tprint jj (S n))).
    + destruct cs as [|c0 cs']; [reflexivity|]. cbn [map app untoks starts_value andb tok_text ends_value]. rewrite <- app_assoc. reflexivity.
    + eapply Forall_impl; [|exact IH]. cbn. intros c Hc. apply Hc.
  - cbn [ttoks tprint jj snd sep]. rewrite seq_text_join. cbn [untoks starts_value andb app tok_text ends_value].
    f_equal. rewrite (untoks_items cs (tprint jj (S n))).
    + destruct cs as [|c0 cs']; [reflexivity|]. cbn [map app untoks starts_value andb tok_text ends_value]. rewrite <- app_assoc. reflexivity.
    + eapply Forall_impl; [|exact IH]. cbn. intros c Hc. apply Hc.
Qed.


Lemma leaf_text_jp : forall lay n l, leaf_text l = jp lay n (leaf_value l).
Proof.
  intros lay n l. unfold leaf_text, leaf_value. destruct (lk l); cbn; try reflexivity;
    destruct (str_eqb (ltext l) s_True); reflexivity.
Qed.

Definition Pjp (lay : layout) (t : tree) : Prop :=
  forall n, jshape t = true ->
    match t with
    | Kvp _ _ v => tprint lay n v = jp lay n (value_of v)
    | _ => tprint lay n t = jp lay n (value_of t)
    end.

Lemma members_jp : forall lay n cs,
  Forall (Pjp lay) cs -> forallb (fun c => is_kvp c && jshape c) cs = true ->
  map (tprint lay (S n)) cs =
  map (fun kv : list Z * jvalue => let (k, x) := kv in jstring k ++ [58; 32] ++ jp lay (S n) x)
      (map (fun c => match c with Kvp _ (Leaf k) v => (ltext k, value_of v) | _ => ([], value_of c) end) cs).
Proof.
  intros lay n cs IH Hs. induction IH as [|c cs Hc IH IH']; [reflexivity|].
  cbn in Hs. apply andb_prop in Hs as [H1 H2]. apply andb_prop in H1 as [H1 H3].
  cbn [map]. rewrite (IH' H2). f_equal.
  destruct c as [|? ? ?|z kk vv|? ?|?]; try discriminate.
  pose proof (Hc (S n) H3) as G. cbn in G. cbn in H3.
  apply andb_prop in H3 as [H3 _]. apply andb_prop in H3 as [H3 _].
  destruct kk as [kl| | | |]; try discriminate. cbn [tprint]. rewrite G.
  unfold is_str_leaf in H3. unfold leaf_text. destruct (lk kl); try discriminate. reflexivity.
Qed.

Theorem tprint_jp_gen : forall lay t, Pjp lay t.
Proof.
  intros lay t. induction t as [l|x y cs IH|x k v IHk IHv|x cs IH|cs IH] using tree_ind2; intros n Hs.
  - cbn. apply leaf_text_jp.
  - cbn [tprint value_of jp]. f_equal. rewrite map_map. apply map_ext_in. intros c Hc.
    cbn in Hs. rewrite forallb_forall in Hs. pose proof (Hs c Hc) as H. apply andb_prop in H as [H1 H2].
    rewrite Forall_forall in IH. pose proof (IH c Hc (S n) H2) as G.
    destruct c; try exact G. discriminate.
  - cbn in Hs. apply andb_prop in Hs as [Hs H3]. apply andb_prop in Hs as [H1 H2].
    pose proof (IHv n H3) as G. destruct v; try exact G. discriminate.
  - cbn [tprint value_of jp]. f_equal. apply members_jp; assumption.
  - cbn [tprint value_of jp]. f_equal. apply members_jp; assumption.
Qed.

Corollary tprint_jp : forall lay n t, jshape t = true -> is_kvp t = false -> tprint lay n t = jp lay n (value_of t).
Proof.
  intros lay n t Hs Hk. pose proof (tprint_jp_gen lay t n Hs) as G. destruct t; try exact G. discriminate.
Qed.

(* reading the text of any token list that is the token list of a JSON-shaped, well-formed tree *)
Theorem reads_ttoks : forall s t, toks s = ttoks t -> jshape t = true -> is_kvp t = false ->
  jwfb false (value_of t) = true -> jparse_lenient s = Some (value_of t).
Proof.
  intros s t E Hs Hk Hw. unfold jparse_lenient. rewrite E, (untoks_ttoks t 0%nat), (tprint_jp jj 0 t Hs Hk).
  apply parse_print. exact Hw.
Qed.

(* the lenient reader on a projection of the rendering: the document the script spells for that side ... *)
Theorem C06_reads_all : forall side lay a b e, tok_ok a = true -> tok_ok b = true -> edit_ok e = true ->
  clean false a e = true ->
  jshape (nproj side a b e) = true -> is_kvp (nproj side a b e) = false ->
  jwfb false (value_of (nproj side a b e)) = true ->
  jparse_lenient (erase (em side) (jrender lay a b e)) = Some (value_of (nproj side a b e)).
Proof.
  intros side lay a b e Ha Hb He Hc Hs Hk Hw. apply reads_ttoks; auto. apply jrender_spells; assumption.
Qed.

(* ... which, for valid scripts over ordered containers, is the document itself (corollary through C12) *)
Theorem C06_reads_ordered_all : forall lay a b e,
  tok_ok a = true -> tok_ok b = true -> edit_ok e = true -> clean false a e = true ->
  valid a b e = true -> Faithful a b e -> ordered_only e = true -> kvp2 e = true ->
  (jshape a = true -> is_kvp a = false -> jwfb false (value_of a) = true ->
   jparse_lenient (erase Inserted (jrender lay a b e)) = Some (value_of a)) /\
  (jshape b = true -> is_kvp b = false -> jwfb false (value_of b) = true ->
   jparse_lenient (erase Removed (jrender lay a b e)) = Some (value_of b)).
Proof.
  intros lay a b e Ha Hb He Hc Hv Hf Ho Hk. split; intros Hs Hkv Hw; apply reads_ttoks; auto.
  - rewrite (C06_first_all lay a b e Ha Hb He Hc). apply (nproj_doc false a b e Hv Hf Ho Hk).
  - rewrite (C06_second_all lay a b e Ha Hb He Hc). apply (nproj_doc true a b e Hv Hf Ho Hk).
Qed.

Example C06_reads_example : forall lay,
  jparse_lenient (erase Inserted (jrender lay ex_a ex_b ex_e)) = Some (value_of ex_a) /\
  jparse_lenient (erase Removed (jrender lay ex_a ex_b ex_e)) = Some (value_of ex_b).
Proof.
  intro lay. destruct C06_hypotheses_inhabited as [H1 [H2 [H3 [H4 [H5 [H6 [H7 [_ [_ [H8 _]]]]]]]]]].
  destruct (C06_reads_ordered_all lay ex_a ex_b ex_e H1 H2 H3 H8 H4 H5 H6 H7) as [Ga Gb].
  split; [apply Ga|apply Gb]; reflexivity.
Qed.

(* ================================================================== mappings: documents up to the order of members *)

(* ------------------------------------------------------------------ the order on keys; sorting is insensitive to
   the order of members with different keys *)
Lemma zlist_eqb_refl : forall s, zlist_eqb s s = true.
Proof. induction s as [|x s IH]; cbn; [reflexivity|]. rewrite Z.eqb_refl. exact IH. Qed.

Lemma zlist_eqb_eq : forall a b, zlist_eqb a b = true -> a = b.
Proof.
  induction a as [|x a IH]; destruct b as [|y b]; cbn; intro H; try discriminate; [reflexivity|].
  apply andb_prop in H as [H1 H2]. apply Z.eqb_eq in H1. f_equal; auto.
Qed.

Lemma zlist_leb_total : forall a b, zlist_leb a b = true \/ zlist_leb b a = true.
Proof.
  induction a as [|x a IH]; destruct b as [|y b]; cbn; auto.
  destruct (Z.ltb_spec x y), (Z.ltb_spec y x), (Z.eqb_spec x y), (Z.eqb_spec y x); cbn; auto; lia.
Qed.

Lemma zlist_leb_trans : forall a b c, zlist_leb a b = true -> zlist_leb b c = true -> zlist_leb a c = true.
Proof.
  induction a as [|x a IH]; intros [|y b] [|z c] H1 H2; cbn in *; try discriminate; auto.
  destruct (Z.ltb_spec x y), (Z.eqb_spec x y), (Z.ltb_spec y z), (Z.eqb_spec y z), (Z.ltb_spec x z), (Z.eqb_spec x z);
    cbn in *; try lia; try discriminate; try reflexivity. eapply IH; eassumption.
Qed.

Lemma zlist_leb_antisym : forall a b, zlist_leb a b = true -> zlist_leb b a = true -> a = b.
Proof.
  induction a as [|x a IH]; intros [|y b] H1 H2; cbn in *; try discriminate; auto.
  destruct (Z.ltb_spec x y), (Z.eqb_spec x y), (Z.ltb_spec y x), (Z.eqb_spec y x);
    cbn in *; try lia; try discriminate. subst. f_equal. apply IH; assumption.
Qed.

Lemma ins_member_comm : forall x y l, fst x <> fst y ->
  ins_member x (ins_member y l) = ins_member y (ins_member x l).
Proof.
  intros x y l Hne.
  assert (Hxy : zlist_leb (fst x) (fst y) = negb (zlist_leb (fst y) (fst x))).
  { destruct (zlist_leb (fst x) (fst y)) eqn:E1, (zlist_leb (fst y) (fst x)) eqn:E2; try reflexivity.
    - exfalso. apply Hne. apply zlist_leb_antisym; assumption.
    - destruct (zlist_leb_total (fst x) (fst y)); congruence. }
  induction l as [|h t IH].
  - cbn. rewrite Hxy. destruct (zlist_leb (fst y) (fst x)); reflexivity.
  - cbn [ins_member].
    destruct (zlist_leb (fst y) (fst h)) eqn:Eyh, (zlist_leb (fst x) (fst h)) eqn:Exh; cbn [ins_member];
      rewrite ?Eyh, ?Exh.
    + rewrite Hxy. destruct (zlist_leb (fst y) (fst x)); cbn [negb]; rewrite ?Eyh, ?Exh; reflexivity.
    + assert (E : zlist_leb (fst x) (fst y) = false).
      { destruct (zlist_leb (fst x) (fst y)) eqn:E; [|reflexivity].
        rewrite (zlist_leb_trans _ _ _ E Eyh) in Exh. discriminate. }
      rewrite E. reflexivity.
    + assert (E : zlist_leb (fst y) (fst x) = false).
      { destruct (zlist_leb (fst y) (fst x)) eqn:E; [|reflexivity].
        rewrite (zlist_leb_trans _ _ _ E Exh) in Eyh. discriminate. }
      rewrite E. reflexivity.
    + rewrite IH. reflexivity.
Qed.

Lemma sort_members_perm : forall l l', Permutation l l' -> NoDup (map fst l) -> sort_members l = sort_members l'.
Proof.
  intros l l' H. induction H as [|x l l' H IH|x y l|l l' l'' H1 IH1 H2 IH2]; intro Hnd.
  - reflexivity.
  - unfold sort_members in *. cbn [fold_right]. f_equal. apply IH. inversion Hnd; assumption.
  - unfold sort_members. cbn [fold_right]. apply ins_member_comm.
    cbn in Hnd. inversion Hnd as [|? ? Hy _]; subst. intro E. apply Hy. left. symmetry. exact E.
  - rewrite IH1 by exact Hnd. apply IH2.
    apply (Permutation_NoDup (Permutation_map fst H1)). exact Hnd.
Qed.

Lemma jv_eqb_refl : forall v, jv_eqb v v = true.
Proof.
  induction v as [| b | t | s | l IHl | kvs IHk] using jvalue_ind2; cbn [jv_eqb]; try reflexivity.
  - destruct b; reflexivity.
  - apply zlist_eqb_refl.
  - apply zlist_eqb_refl.
  - induction IHl as [|x r Hx _ IH]; [reflexivity|]. rewrite Hx. exact IH.
  - induction IHk as [|[k x] r Hx _ IH]; [reflexivity|]. cbn [snd] in Hx. rewrite zlist_eqb_refl, Hx. exact IH.
Qed.

Lemma jwfb_canon_eq : forall j5 v, jwfb j5 (canon v) = jwfb j5 v.
Proof.
  intros j5. induction v as [| b | t | s | l IHl | kvs IHk] using jvalue_ind2; cbn [canon jwfb]; try reflexivity.
  - induction IHl as [|x r Hx _ IH]; [reflexivity|]. cbn [map forallb]. rewrite Hx, IH. reflexivity.
  - rewrite forallb_sort. induction IHk as [|[k x] r Hx _ IH]; [reflexivity|].
    cbn [map forallb snd] in *. rewrite Hx, IH. reflexivity.
Qed.

(* ------------------------------------------------------------------ a tree as a mapping member: its key and its
   document up to member order *)
Definition mkey (t : tree) : list Z := match t with Kvp _ (Leaf k) _ => ltext k | _ => [] end.
Definition cv (t : tree) : jvalue := canon (value_of t).
Definition cm (t : tree) : list Z * jvalue := (mkey t, cv t).

Lemma value_of_members : forall cs,
  map (fun c => match c with
                | Kvp _ (Leaf k) v => (ltext k, value_of v)
                | _ => ([], value_of c)
                end) cs = map (fun c => (mkey c, value_of c)) cs.
Proof. intro cs. apply map_ext. intros [l|x y cs'|x k v|x cs'|cs']; try reflexivity. destruct k; reflexivity. Qed.

Lemma value_of_mset : forall x cs, value_of (MSet x cs) = JObj (map (fun c => (mkey c, value_of c)) cs).
Proof. intros. cbn [value_of]. rewrite value_of_members. reflexivity. Qed.
Lemma value_of_fdict : forall cs, value_of (FDict cs) = JObj (map (fun c => (mkey c, value_of c)) cs).
Proof. intros. cbn [value_of]. rewrite value_of_members. reflexivity. Qed.

Lemma cv_members : forall cs,
  canon (JObj (map (fun c => (mkey c, value_of c)) cs)) = JObj (sort_members (map cm cs)).
Proof. intro cs. cbn [canon]. rewrite map_map. reflexivity. Qed.

Lemma cv_mset : forall x cs, cv (MSet x cs) = JObj (sort_members (map cm cs)).
Proof. intros. unfold cv. rewrite value_of_mset. apply cv_members. Qed.
Lemma cv_fdict : forall cs, cv (FDict cs) = JObj (sort_members (map cm cs)).
Proof. intros. unfold cv. rewrite value_of_fdict. apply cv_members. Qed.
Lemma cv_lst : forall x y cs, cv (Lst x y cs) = JArr (map cv cs).
Proof. intros. unfold cv. cbn [value_of canon]. rewrite map_map. reflexivity. Qed.
Lemma cv_kvp : forall x k v, cv (Kvp x k v) = cv v.
Proof. reflexivity. Qed.
Lemma cv_leaf : forall l, cv (Leaf l) = leaf_value l.
Proof. intro l. unfold cv. cbn [value_of]. unfold leaf_value. destruct (lk l); reflexivity. Qed.

(* JSON-shaped, and no mapping of the document has two members with the same key *)
Definition good (t : tree) : Prop := jshape t = true /\ keys_uniqueb (value_of t) = true.

Lemma keys_distinct_NoDup : forall ks, JsonSpec.keys_distinct ks = true -> NoDup ks.
Proof.
  induction ks as [|k r IH]; cbn; intro H; [constructor|]. apply andb_prop in H as [H1 H2].
  constructor; [|apply IH; exact H2]. intro Hin. apply negb_true_iff in H1.
  assert (existsb (zlist_eqb k) r = true) by (apply existsb_exists; exists k; split; [exact Hin|apply zlist_eqb_refl]).
  congruence.
Qed.

Lemma ku_members : forall cs, keys_uniqueb (JObj (map (fun c => (mkey c, value_of c)) cs)) = true ->
  NoDup (map mkey cs) /\ forall c, In c cs -> keys_uniqueb (value_of c) = true.
Proof.
  intros cs H. cbn [keys_uniqueb] in H. apply andb_prop in H as [H1 H2]. rewrite map_map in H1. cbn [fst] in H1. split.
  - apply keys_distinct_NoDup. exact H1.
  - intros c Hc. rewrite forallb_forall in H2. apply (H2 (mkey c, value_of c)). apply in_map_iff. exists c. auto.
Qed.

Lemma leaf_value_ku : forall l, keys_uniqueb (leaf_value l) = true.
Proof. intro l. unfold leaf_value. destruct (lk l); reflexivity. Qed.

Lemma good_in : forall a c, good a -> In c (children a) -> good c.
Proof.
  intros a c [Hs Hu] Hin. destruct a as [l|x y cs|x k v|x cs|cs]; cbn [children] in Hin.
  - destruct Hin.
  - cbn in Hs, Hu. rewrite forallb_forall in Hs, Hu. specialize (Hs c Hin). apply andb_prop in Hs as [_ Hs].
    split; [exact Hs|]. apply Hu. apply in_map. exact Hin.
  - cbn in Hs, Hu. apply andb_prop in Hs as [Hs H3]. apply andb_prop in Hs as [H1 H2].
    destruct Hin as [<-|[<-|[]]].
    + destruct k as [l|? ? ?|? ? ?|? ?|?]; try discriminate. split; [reflexivity|apply leaf_value_ku].
    + split; assumption.
  - rewrite value_of_mset in Hu. destruct (ku_members cs Hu) as [_ Hk]. cbn in Hs. rewrite forallb_forall in Hs.
    specialize (Hs c Hin). apply andb_prop in Hs as [_ Hs]. split; [exact Hs|apply Hk; exact Hin].
  - rewrite value_of_fdict in Hu. destruct (ku_members cs Hu) as [_ Hk]. cbn in Hs. rewrite forallb_forall in Hs.
    specialize (Hs c Hin). apply andb_prop in Hs as [_ Hs]. split; [exact Hs|apply Hk; exact Hin].
Qed.

Lemma good_child : forall a i, good a -> good (child a i).
Proof.
  intros a i H. unfold child. destruct (nth_in_or_default i (children a) dummy) as [Hin|Hd].
  - eapply good_in; eauto.
  - rewrite Hd. split; reflexivity.
Qed.

(* p spells the same member as d *)
Definition same (p d : tree) : Prop := is_kvp p = is_kvp d /\ cm p = cm d /\ jshape p = true.
Definition alike (a b : tree) : Prop := is_kvp a = is_kvp b /\ cm a = cm b.

Lemma same_refl : forall d, jshape d = true -> same d d.
Proof. intros d H. repeat split; auto. Qed.

Lemma same_of_alike : forall a b, alike a b -> jshape a = true -> same a b.
Proof. intros a b [H1 H2] H. repeat split; auto. Qed.

Lemma same_of_alike_sym : forall a b, alike a b -> jshape b = true -> same b a.
Proof. intros a b [H1 H2] H. repeat split; auto. Qed.

Lemma Forall2_same_cv : forall ps ds, Forall2 same ps ds -> map cv ps = map cv ds.
Proof.
  intros ps ds H. induction H as [|p d ps ds [_ [Hc _]] _ IH]; [reflexivity|]. cbn [map]. rewrite IH. f_equal.
  unfold cm in Hc. inversion Hc. reflexivity.
Qed.

Lemma Forall2_same_cm : forall ps ds, Forall2 same ps ds -> map cm ps = map cm ds.
Proof.
  intros ps ds H. induction H as [|p d ps ds [_ [Hc _]] _ IH]; [reflexivity|]. cbn [map]. rewrite IH, Hc. reflexivity.
Qed.

Lemma same_lst : forall x y x' y' ps ds, Forall2 same ps ds -> jshape (Lst x' y' ds) = true ->
  same (Lst x y ps) (Lst x' y' ds).
Proof.
  intros x y x' y' ps ds H Hs. split; [reflexivity|]. split.
  - unfold cm. cbn [mkey]. rewrite !cv_lst, (Forall2_same_cv ps ds H). reflexivity.
  - cbn [jshape] in *. rewrite forallb_forall in Hs. apply forallb_forall. intros p Hp.
    destruct (Forall2_in_l _ _ _ _ H Hp) as [d [Hd [Hk [_ Hj]]]]. specialize (Hs d Hd).
    apply andb_prop in Hs as [Hs _]. rewrite Hk, Hs, Hj. reflexivity.
Qed.

Lemma same_members : forall ps ds' ds, Forall2 same ps ds' -> Permutation ds' ds -> NoDup (map mkey ds) ->
  forallb (fun c => is_kvp c && jshape c) ds = true ->
  sort_members (map cm ps) = sort_members (map cm ds) /\ forallb (fun c => is_kvp c && jshape c) ps = true.
Proof.
  intros ps ds' ds H Hp Hnd Hs. split.
  - rewrite (Forall2_same_cm ps ds' H). symmetry. apply sort_members_perm.
    + apply Permutation_map. apply Permutation_sym. exact Hp.
    + rewrite map_map. exact Hnd.
  - rewrite forallb_forall in Hs. apply forallb_forall. intros p Hin.
    destruct (Forall2_in_l _ _ _ _ H Hin) as [d [Hd [Hk [_ Hj]]]].
    specialize (Hs d (Permutation_in d Hp Hd)). apply andb_prop in Hs as [Hs _]. rewrite Hk, Hs, Hj. reflexivity.
Qed.

Lemma same_mset : forall x x' ps ds' ds, Forall2 same ps ds' -> Permutation ds' ds -> good (MSet x' ds) ->
  same (MSet x ps) (MSet x' ds).
Proof.
  intros x x' ps ds' ds H Hp [Hs Hu]. rewrite value_of_mset in Hu. destruct (ku_members ds Hu) as [Hnd _].
  cbn [jshape] in Hs. destruct (same_members ps ds' ds H Hp Hnd Hs) as [E1 E2].
  split; [reflexivity|]. split; [|exact E2]. unfold cm. cbn [mkey]. rewrite !cv_mset, E1. reflexivity.
Qed.

Lemma same_fdict : forall ps ds' ds, Forall2 same ps ds' -> Permutation ds' ds -> good (FDict ds) ->
  same (FDict ps) (FDict ds).
Proof.
  intros ps ds' ds H Hp [Hs Hu]. rewrite value_of_fdict in Hu. destruct (ku_members ds Hu) as [Hnd _].
  cbn [jshape] in Hs. destruct (same_members ps ds' ds H Hp Hnd Hs) as [E1 E2].
  split; [reflexivity|]. split; [|exact E2]. unfold cm. cbn [mkey]. rewrite !cv_fdict, E1. reflexivity.
Qed.

(* a non-pair whose document is a string is a string leaf *)
Lemma cv_str_inv : forall p s, is_kvp p = false -> cv p = JStr s -> exists l, p = Leaf l /\ lk l = KStr /\ ltext l = s.
Proof.
  intros p s Hk H. destruct p as [l|x y cs|x k v|x cs|cs]; try discriminate.
  rewrite cv_leaf in H. unfold leaf_value in H. destruct (lk l) eqn:E; try discriminate. inversion H. eauto.
Qed.

Lemma same_kvp : forall x x' pk pv kd vd, same pk kd -> same pv vd -> jshape (Kvp x' kd vd) = true ->
  same (Kvp x pk pv) (Kvp x' kd vd).
Proof.
  intros x x' pk pv kd vd [Hk1 [Hk2 Hk3]] [Hv1 [Hv2 Hv3]] Hs. cbn [jshape] in Hs.
  apply andb_prop in Hs as [Hs H3]. apply andb_prop in Hs as [H1 H2].
  destruct kd as [l|? ? ?|? ? ?|? ?|?]; try discriminate. cbn in H1.
  assert (Hl : lk l = KStr) by (destruct (lk l); try discriminate; reflexivity).
  unfold cm in Hk2. inversion Hk2 as [[Hm Hc]]. rewrite (cv_leaf l) in Hc. unfold leaf_value in Hc. rewrite Hl in Hc.
  destruct (cv_str_inv pk (ltext l) Hk1 Hc) as [l' [-> [Hl' Ht]]].
  unfold cm in Hv2. inversion Hv2 as [[Hm' Hc']].
  split; [reflexivity|]. split.
  - unfold cm. cbn [mkey]. rewrite !cv_kvp, Hc', Ht. reflexivity.
  - cbn [jshape is_str_leaf]. rewrite Hl', Hv1, Hv3. apply negb_true_iff in H2. rewrite H2. reflexivity.
Qed.

(* ------------------------------------------------------------------ what C01 does not say, for all containers:
   a pair matched at cost 0 is the same member on both sides up to R, and a string edit is between two strings
   and costs something *)
Fixpoint FaithG (R : tree -> tree -> Prop) (a b : tree) (e : edit) {struct e} : Prop :=
  match e with
  | EMatch c | EReplace c => 0 < c \/ R a b
  | EStr c _ => 0 < c /\ match a, b with Leaf x, Leaf y => lk x = KStr /\ lk y = KStr | _, _ => False end
  | EComp _ _ subs =>
      (fix all (ss : list sub) : Prop :=
         match ss with
         | [] => True
         | SPair i j e' :: r => FaithG R (child a i) (child b j) e' /\ all r
         | _ :: r => all r
         end) subs
  end.

Definition Fair : tree -> tree -> edit -> Prop := FaithG alike.

Lemma Faithful_FaithG : forall e a b, Faithful a b e -> FaithG (fun x y => ttoks x = ttoks y) a b e.
Proof.
  apply (edit_ind2 (fun e => forall a b, Faithful a b e -> FaithG (fun x y => ttoks x = ttoks y) a b e)).
  - intros c a b H. exact H.
  - intros c a b H. exact H.
  - intros c ops a b H. exact H.
  - intros k c subs IH a b H. cbn [Faithful FaithG] in *.
    induction IH as [|s subs Hs _ IH']; [exact I|].
    destruct s as [i j e'|i x|j x]; [|apply IH'; exact H|apply IH'; exact H].
    destruct H as [H1 H2]. split; [apply Hs; exact H1|apply IH'; exact H2].
Qed.

(* (2) string edits spell non-negative code points: a consequence of C01 and the documents *)
Lemma nonneg_sop_ok : forall ops, nonneg (flat_map sop_from ops) = true -> nonneg (flat_map sop_to ops) = true ->
  forallb sop_ok ops = true.
Proof.
  induction ops as [|o ops IH]; intros H1 H2; [reflexivity|].
  cbn [flat_map] in H1, H2. rewrite nonneg_app in H1, H2.
  apply andb_prop in H1 as [H1 H1']. apply andb_prop in H2 as [H2 H2'].
  cbn [forallb]. unfold sop_ok at 1. rewrite H1, H2, (IH H1' H2'). reflexivity.
Qed.

Theorem valid_edit_ok : forall R e a b, tok_ok a = true -> tok_ok b = true -> valid a b e = true -> FaithG R a b e ->
  edit_ok e = true.
Proof.
  intro R.
  apply (edit_ind2 (fun e => forall a b, tok_ok a = true -> tok_ok b = true -> valid a b e = true -> FaithG R a b e ->
                                         edit_ok e = true)).
  - reflexivity.
  - reflexivity.
  - intros c ops a b Ha Hb Hv Hf. cbn [valid FaithG] in Hv, Hf. destruct Hf as [_ Hf].
    destruct a as [x| | | |]; try contradiction. destruct b as [y| | | |]; try contradiction. destruct Hf as [Hx Hy].
    apply andb_prop in Hv as [H1 H2]. apply str_eqb_eq in H1, H2.
    cbn in Ha, Hb. unfold leaf_ok in Ha, Hb. rewrite Hx in Ha. rewrite Hy in Hb.
    cbn [edit_ok]. apply nonneg_sop_ok; [rewrite H1; exact Ha|rewrite H2; exact Hb].
  - intros k c subs IH a b Ha Hb Hv Hf. cbn [valid] in Hv. apply andb_prop in Hv as [_ Hv].
    cbn [FaithG] in Hf. cbn [edit_ok].
    induction IH as [|s subs Hs _ IH']; [reflexivity|].
    destruct s as [i j e'|i x|j x]; [|apply IH'; assumption|apply IH'; assumption].
    destruct (nth_error (children a) i) as [x|] eqn:Ei; [|discriminate].
    destruct (nth_error (children b) j) as [y|] eqn:Ej; [|discriminate].
    apply andb_prop in Hv as [Hv1 Hv]. destruct Hf as [Hf1 Hf].
    rewrite (child_nth_error a i x Ei), (child_nth_error b j y Ej) in Hf1.
    rewrite (Hs x y); auto.
    + rewrite <- (child_nth_error a i x Ei). apply tok_ok_child. exact Ha.
    + rewrite <- (child_nth_error b j y Ej). apply tok_ok_child. exact Hb.
Qed.

(* ------------------------------------------------------------------ (1) the projections ARE the documents up to
   the order of mapping members *)
Definition Psame (side : bool) (e : edit) : Prop :=
  forall a b, good a -> good b -> valid a b e = true -> Fair a b e -> kvp2 e = true ->
    same (proj side a b e) (if side then b else a).

Lemma proj_node_same : forall side a b e, Psame side e -> good a -> good b -> valid a b e = true -> Fair a b e ->
  kvp2 e = true ->
  same (match e with
        | EComp _ _ _ => proj side a b e
        | _ => if 0 <? cost e then proj side a b e else a
        end) (if side then b else a).
Proof.
  intros side a b e He Ha Hb Hv Hf Hk2. pose proof (He a b Ha Hb Hv Hf Hk2) as G.
  destruct e as [c|c|c ops|k c subs]; try exact G; cbn [cost]; destruct (0 <? c) eqn:Ec; try exact G;
    apply Z.ltb_ge in Ec; cbn in Hf.
  - destruct Hf as [Hf|Hf]; [lia|]. destruct side; [apply same_of_alike; [exact Hf|apply Ha]|apply same_refl; apply Ha].
  - destruct Hf as [Hf|Hf]; [lia|]. destruct side; [apply same_of_alike; [exact Hf|apply Ha]|apply same_refl; apply Ha].
  - destruct Hf as [Hf _]. lia.
Qed.

Lemma proj_items_same : forall side k a b subs,
  good a -> good b ->
  Forall (fun s => match s with SPair _ _ e => Psame side e | _ => True end) subs ->
  valid a b (EComp k 0 subs) = true -> Fair a b (EComp k 0 subs) -> kvp2 (EComp k 0 subs) = true ->
  Forall2 same
    ((fix items (ss : list sub) : list tree :=
        match ss with
        | [] => []
        | SPair i j e' :: r =>
            match k, e' with
            | KMultiSet, EMatch c => if 0 <? c then (if side then child b j else child a i) else child a i
            | _, _ => proj side (child a i) (child b j) e'
            end :: items r
        | SRem i _ :: r => if side then items r else child a i :: items r
        | SIns j _ :: r => if side then child b j :: items r else items r
        end) subs)
    (map (child (if side then b else a)) (flat_map (if side then to_idx else from_idx) subs)).
Proof.
  intros side k a b subs Ha Hb IH Hv Hf Hk2.
  cbn [valid] in Hv. apply andb_prop in Hv as [_ Hv].
  cbn [kvp2] in Hk2. apply andb_prop in Hk2 as [_ Hk2].
  unfold Fair in Hf. cbn [FaithG] in Hf.
  induction IH as [|s subs Hs IH IH']; [destruct side; constructor|].
  destruct s as [i j e'|i x|j x].
  - destruct (nth_error (children a) i) as [x|] eqn:Ei; [|discriminate].
    destruct (nth_error (children b) j) as [y|] eqn:Ej; [|discriminate].
    apply andb_prop in Hv as [Hv1 Hv]. destruct Hf as [Hf1 Hf]. apply andb_prop in Hk2 as [Hk21 Hk2].
    specialize (IH' Hv Hf Hk2).
    rewrite <- (child_nth_error a i x Ei) in Hv1. rewrite <- (child_nth_error b j y Ej) in Hv1.
    pose proof (good_child a i Ha) as Gai. pose proof (good_child b j Hb) as Gbj.
    pose proof (Hs _ _ Gai Gbj Hv1 Hf1 Hk21) as G.
    assert (Hhead : same (match k, e' with
                          | KMultiSet, EMatch c => if 0 <? c then (if side then child b j else child a i) else child a i
                          | _, _ => proj side (child a i) (child b j) e'
                          end) (if side then child b j else child a i)).
    { destruct k; try exact G. destruct e' as [c| | |]; try exact G.
      destruct (0 <? c) eqn:Ec.
      - apply same_refl. destruct side; [apply Gbj|apply Gai].
      - apply Z.ltb_ge in Ec. cbn in Hf1. destruct Hf1 as [Hf1|Hf1]; [lia|].
        destruct side; [apply same_of_alike; [exact Hf1|apply Gai]|apply same_refl; apply Gai]. }
    destruct side; cbn [flat_map to_idx from_idx app map]; constructor; assumption.
  - specialize (IH' Hv Hf Hk2). destruct side; cbn [flat_map to_idx from_idx app map]; [exact IH'|].
    constructor; [|exact IH']. apply same_refl. apply (good_child a i Ha).
  - specialize (IH' Hv Hf Hk2). destruct side; cbn [flat_map to_idx from_idx app map]; [|exact IH'].
    constructor; [|exact IH']. apply same_refl. apply (good_child b j Hb).
Qed.

Lemma perm_of_sorted_seq : forall l n, sort_nat l = seq 0 n -> Permutation l (seq 0 n).
Proof. intros l n H. rewrite <- H. apply sort_nat_perm. Qed.

Lemma map_child_perm : forall d idx, Permutation idx (seq 0 (length (children d))) ->
  Permutation (map (child d) idx) (children d).
Proof.
  intros d idx H. eapply Permutation_trans; [apply Permutation_map; exact H|]. rewrite map_child_seq. apply Permutation_refl.
Qed.

Theorem proj_same : forall side e, Psame side e.
Proof.
  intro side. apply edit_ind2; unfold Psame.
  - intros c a b Ha Hb _ Hf _. cbn [proj]. cbn in Hf. destruct (0 <? c) eqn:Ec.
    + apply same_refl. destruct side; [apply Hb|apply Ha].
    + apply Z.ltb_ge in Ec. destruct Hf as [Hf|Hf]; [lia|].
      destruct side; [apply same_refl; apply Hb|apply same_of_alike_sym; [exact Hf|apply Hb]].
  - intros c a b Ha Hb _ Hf _. cbn [proj]. cbn in Hf. destruct (0 <? c) eqn:Ec.
    + apply same_refl. destruct side; [apply Hb|apply Ha].
    + apply Z.ltb_ge in Ec. destruct Hf as [Hf|Hf]; [lia|].
      destruct side; [apply same_refl; apply Hb|apply same_of_alike_sym; [exact Hf|apply Hb]].
  - intros c ops a b _ _ Hv Hf _. cbn in Hv, Hf. destruct Hf as [_ Hf].
    destruct a as [x| | | |]; try contradiction. destruct b as [y| | | |]; try contradiction.
    destruct Hf as [Hx Hy]. apply andb_prop in Hv as [H1 H2]. apply str_eqb_eq in H1, H2.
    cbn [proj]. destruct side; (split; [reflexivity|split; [|reflexivity]]);
      unfold cm, str_leaf; cbn [mkey]; rewrite !cv_leaf; unfold leaf_value; cbn [lk ltext];
      [rewrite Hy, H2|rewrite Hx, H1]; reflexivity.
  - intros k c subs IH a b Ha Hb Hv Hf Hk2.
    assert (Hk20 : kvp2 (EComp k 0 subs) = true) by exact Hk2.
    assert (Hv0 : valid a b (EComp k 0 subs) = true) by exact Hv.
    assert (Hf0 : Fair a b (EComp k 0 subs)) by exact Hf.
    pose proof (proj_items_same side k a b subs Ha Hb IH Hv0 Hf0 Hk20) as Hitems.
    cbn [kvp2] in Hk2. apply andb_prop in Hk2 as [Hshape Hk2].
    cbn [valid] in Hv. apply andb_prop in Hv as [Hv Hall]. apply andb_prop in Hv as [Hfit Hidx].
    cbn [proj]. destruct (is_seq_kind k) eqn:Ek.
    + destruct k; try discriminate; destruct a as [l|x y cs|x ka va|x cs|cs]; try discriminate;
        destruct b as [l'|x' y' ds|x' kb vb|x' ds|ds]; try discriminate; cbn [brackets rebuild];
        cbn [ordered_kind] in Hidx; apply andb_prop in Hidx as [Hfi Hti]; apply nat_list_eqb_eq in Hfi, Hti.
      * (* EditDistance *)
        destruct side; cbn [flat_map] in Hitems.
        -- rewrite Hti, map_child_seq in Hitems. apply same_lst; [exact Hitems|apply Hb].
        -- rewrite Hfi, map_child_seq in Hitems. apply same_lst; [exact Hitems|apply Ha].
      * (* FixedLength *)
        destruct side; cbn [flat_map] in Hitems.
        -- rewrite Hti, map_child_seq in Hitems. apply same_lst; [exact Hitems|apply Hb].
        -- rewrite Hfi, map_child_seq in Hitems. apply same_lst; [exact Hitems|apply Ha].
      * (* MultiSet *)
        destruct side.
        -- eapply same_mset; [exact Hitems| |exact Hb].
           apply (map_child_perm (MSet x' ds)). apply perm_of_sorted_seq. exact Hti.
        -- eapply same_mset; [exact Hitems| |exact Ha].
           apply (map_child_perm (MSet x cs)). apply perm_of_sorted_seq. exact Hfi.
      * (* FixedKeyDict *)
        destruct side.
        -- eapply same_fdict; [exact Hitems| |exact Hb].
           apply (map_child_perm (FDict ds)). apply perm_of_sorted_seq. exact Hti.
        -- eapply same_fdict; [exact Hitems| |exact Ha].
           apply (map_child_perm (FDict cs)). apply perm_of_sorted_seq. exact Hfi.
    + destruct k; try discriminate.
      destruct a as [l|x y cs|x ka va|x cs|cs]; try discriminate.
      destruct b as [l'|x' y' ds|x' kb vb|x' ds|ds]; try discriminate.
      cbn [ordered_kind] in Hidx. apply andb_prop in Hidx as [Hfi Hti]. apply nat_list_eqb_eq in Hfi, Hti.
      cbn [children length seq] in Hfi, Hti.
      cbn [is_seq_kind] in Hshape.
      destruct subs as [|[i j ke|i z|j z] [|[i' j' ve|i' z'|j' z'] [|s3 rest]]]; try discriminate. cbn in Hfi, Hti.
      inversion Hfi; inversion Hti; subst i i' j j'.
      pose proof (Forall_inv IH) as Hke. pose proof (Forall_inv (Forall_inv_tail IH)) as Hve. cbn beta iota in Hke, Hve.
      cbn in Hall. apply andb_prop in Hall as [Hvk Hall]. apply andb_prop in Hall as [Hvv _].
      unfold Fair in Hf. cbn in Hf. destruct Hf as [Hfk [Hfv _]].
      apply andb_prop in Hk2 as [Hkk Hk2]. apply andb_prop in Hk2 as [Hkv _].
      pose proof (good_child _ 0 Ha) as Gka. pose proof (good_child _ 1 Ha) as Gva.
      pose proof (good_child _ 0 Hb) as Gkb. pose proof (good_child _ 1 Hb) as Gvb.
      unfold child in *; cbn [children nth] in *.
      pose proof (proj_node_same side ka kb ke Hke Gka Gkb Hvk Hfk Hkk) as Sk.
      pose proof (proj_node_same side va vb ve Hve Gva Gvb Hvv Hfv Hkv) as Sv.
      destruct side; apply same_kvp; try assumption; [apply Hb|apply Ha].
Qed.

Theorem nproj_same : forall side a b e, good a -> good b -> valid a b e = true -> Fair a b e -> kvp2 e = true ->
  same (nproj side a b e) (if side then b else a).
Proof. intros side a b e Ha Hb Hv Hf Hk. unfold nproj. apply proj_node_same; auto. apply proj_same. Qed.

(* ------------------------------------------------------------------ reading the projections back: the documents *)

(* documents json.loads can produce: JSON-shaped, not a bare key/value pair, JSON-domain value *)
Definition jdoc (t : tree) : Prop :=
  jshape t = true /\ is_kvp t = false /\ json_domainb (value_of t) = true.

Lemma jdoc_good : forall t, jdoc t -> good t.
Proof.
  intros t [H1 [_ H3]]. unfold json_domainb in H3. apply andb_prop in H3 as [_ H3]. split; assumption.
Qed.

Lemma no_marks_iff : forall s, no_marks s = true <-> marks s = [].
Proof. intro s. unfold no_marks. destruct (marks s); split; intro H; try reflexivity; discriminate. Qed.

Theorem C06_text_all : forall lay a b e,
  tok_ok a = true -> tok_ok b = true -> clean false a e = true ->
  valid a b e = true -> Fair a b e -> kvp2 e = true -> jdoc a -> jdoc b ->
  reads_as (erase Inserted (jrender lay a b e)) a = true /\
  reads_as (erase Removed (jrender lay a b e)) b = true.
Proof.
  intros lay a b e Ha Hb Hc Hv Hf Hk Da Db.
  pose proof (valid_edit_ok alike e a b Ha Hb Hv Hf) as He.
  assert (G : forall side, reads_as (erase (em side) (jrender lay a b e)) (if side then b else a) = true).
  { intro side. pose proof (nproj_same side a b e (jdoc_good a Da) (jdoc_good b Db) Hv Hf Hk) as [S1 [S2 S3]].
    assert (Dd : jdoc (if side then b else a)) by (destruct side; assumption).
    destruct Dd as [D1 [D2 D3]]. unfold json_domainb in D3. apply andb_prop in D3 as [D3 _].
    pose proof (f_equal snd S2) as Hcv. unfold cm, cv in Hcv. cbn [snd] in Hcv.
    assert (Hw : jwfb false (value_of (nproj side a b e)) = true).
    { rewrite <- jwfb_canon_eq, Hcv, jwfb_canon_eq. exact D3. }
    unfold reads_as. rewrite (C06_reads_all side lay a b e Ha Hb He Hc S3 (eq_trans S1 D2) Hw).
    unfold jv_equiv. rewrite Hcv. apply jv_eqb_refl. }
  split; [exact (G false)|exact (G true)].
Qed.

(* ================================================================== (3) well-priced scripts
   Faithful / Fair and pos_costs are consequences of how the edit classes price their edits (EqualSpec.priced,
   proved of the model's scripts in EqualProofs.script_priced and evaluated on the implementation's scripts by
   C02) outside the classes of the open findings D4 (EqualSpec.typed) and D16 (EqualSpec.nozero). *)


Lemma shaped_kvp2 : forall e a b, shaped a b e = true -> kvp2 e = true.
Proof.
  apply (edit_ind2 (fun e => forall a b, shaped a b e = true -> kvp2 e = true)); try reflexivity.
  intros k c subs IH a b H. cbn [shaped] in H. apply andb_prop in H as [H1 H2]. cbn [kvp2]. rewrite H1. cbn [andb].
  clear H1. induction IH as [|s subs Hs _ IH']; [reflexivity|].
  destruct s as [i j e'|i x|j x]; [|apply IH'; exact H2|apply IH'; exact H2].
  destruct (nth_error (children a) i) as [x|]; [|discriminate]. destruct (nth_error (children b) j) as [y|]; [|discriminate].
  apply andb_prop in H2 as [H2 H3]. rewrite (Hs x y H2). apply IH'. exact H3.
Qed.

Lemma lkind_eqb_true : forall a b, lkind_eqb a b = true -> a = b.
Proof. intros [] []; cbn; intro H; try discriminate; reflexivity. Qed.

Lemma typed_in : forall a b c d, In c (children a) -> In d (children b) -> typed a b = true -> typed c d = true.
Proof.
  intros a b c d Hc Hd H. unfold typed in *. rewrite forallb_forall in *. intros x Hx.
  specialize (H x (leaves_child a c Hc x Hx)). rewrite forallb_forall in *. intros y Hy. apply H.
  apply (leaves_child b d Hd). exact Hy.
Qed.

(* nodes that are == are the same member of a mapping, unless two of their scalars are Python-equal without
   being equal as data (finding D4) *)
Definition Pna (a : tree) : Prop :=
  forall b, good a -> good b -> typed a b = true -> node_eqb a b = true -> alike a b.

Lemma members_alike : forall cs ds, Forall Pna cs ->
  (forall c, In c cs -> good c) -> (forall d, In d ds -> good d) ->
  (forall c d, In c cs -> In d ds -> typed c d = true) ->
  NoDup (map mkey cs) -> Nat.eqb (length cs) (length ds) = true ->
  (fix all (xs : list tree) : bool :=
     match xs with [] => true | x :: xs' => existsb (fun y => node_eqb x y) ds && all xs' end) cs = true ->
  sort_members (map cm cs) = sort_members (map cm ds).
Proof.
  intros cs ds IH Gc Gd Ht Hnd Hlen Hall.
  assert (Hincl : incl (map cm cs) (map cm ds)).
  { clear Hnd Hlen. intros m Hm. apply in_map_iff in Hm. destruct Hm as [c [<- Hc]].
    rewrite Forall_forall in IH.
    assert (Hex : existsb (fun y => node_eqb c y) ds = true).
    { clear -Hall Hc. induction cs as [|c0 cs IHc]; [destruct Hc|]. apply andb_prop in Hall as [H1 H2].
      destruct Hc as [->|Hc]; [exact H1|apply IHc; assumption]. }
    apply existsb_exists in Hex. destruct Hex as [d [Hd Hn]].
    destruct (IH c Hc d (Gc c Hc) (Gd d Hd) (Ht c d Hc Hd) Hn) as [_ E]. rewrite E. apply in_map. exact Hd. }
  assert (Hnd' : NoDup (map fst (map cm cs))) by (rewrite map_map; exact Hnd).
  apply sort_members_perm; [|exact Hnd'].
  apply NoDup_Permutation_bis; [eapply NoDup_map_inv; exact Hnd'| |exact Hincl].
  apply Nat.eqb_eq in Hlen. rewrite !map_length. lia.
Qed.

Theorem node_alike : forall a, Pna a.
Proof.
  apply tree_ind2; unfold Pna.
  - intros x [y| | | |] _ _ Ht Hn; try discriminate. split; [reflexivity|].
    unfold cm. cbn [mkey]. rewrite !cv_leaf. f_equal.
    cbn in Hn. unfold typed in Ht. cbn in Ht. rewrite Hn in Ht. cbn in Ht. rewrite !andb_true_r in Ht.
    unfold leaf_data_eqb in Ht. apply andb_prop in Ht as [Hk Hte]. apply lkind_eqb_true in Hk.
    unfold leaf_value. rewrite <- Hk. destruct (lk x); cbn in Hte; try (apply str_eqb_eq in Hte; rewrite Hte); reflexivity.
  - intros ale alsl cs IH [y|ale' alsl' ds| | |] Ga Gb Ht Hn; try discriminate. split; [reflexivity|].
    unfold cm. cbn [mkey]. rewrite !cv_lst. f_equal. f_equal. cbn [node_eqb] in Hn.
    assert (Hsub : forall c d, In c cs -> In d ds -> good c /\ good d /\ typed c d = true).
    { intros c d Hc Hd. split; [eapply good_in; [exact Ga|exact Hc]|]. split; [eapply good_in; [exact Gb|exact Hd]|].
      eapply typed_in; [| |exact Ht]; assumption. }
    clear Ga Gb Ht. revert ds Hn Hsub. induction IH as [|c cs Hpc _ IHcs]; intros [|d ds] Hn Hsub; try discriminate; [reflexivity|].
    apply andb_prop in Hn as [H1 H2]. cbn [map].
    destruct (Hsub c d (or_introl eq_refl) (or_introl eq_refl)) as [Gc [Gd Htcd]].
    destruct (Hpc d Gc Gd Htcd H1) as [_ E]. apply (f_equal snd) in E. cbn [cm snd] in E. rewrite E. f_equal.
    apply IHcs; [exact H2|]. intros c' d' Hc' Hd'. apply Hsub; right; assumption.
  - intros ake k v IHk IHv [y| |ake' k' v'| |] Ga Gb Ht Hn; try discriminate. split; [reflexivity|].
    cbn [node_eqb] in Hn. apply andb_prop in Hn as [Hnk Hnv].
    assert (Gv : good v) by (eapply good_in; [exact Ga|cbn; auto]).
    assert (Gv' : good v') by (eapply good_in; [exact Gb|cbn; auto]).
    assert (Htv : typed v v' = true) by (eapply typed_in; [| |exact Ht]; cbn; auto).
    destruct (IHv v' Gv Gv' Htv Hnv) as [_ Ev]. apply (f_equal snd) in Ev. cbn [cm snd] in Ev.
    destruct Ga as [Sa _], Gb as [Sb _]. cbn [jshape] in Sa, Sb.
    apply andb_prop in Sa as [Sa _]. apply andb_prop in Sa as [Sa _].
    apply andb_prop in Sb as [Sb _]. apply andb_prop in Sb as [Sb _].
    destruct k as [l| | | |]; try discriminate. destruct k' as [l'| | | |]; try discriminate.
    cbn in Sa, Sb, Hnk. unfold py_eqb in Hnk.
    destruct (lk l); try discriminate. destruct (lk l'); try discriminate. apply str_eqb_eq in Hnk.
    unfold cm. cbn [mkey]. rewrite !cv_kvp, Ev, Hnk. reflexivity.
  - intros amk cs IH [y| | |amk' ds|] Ga Gb Ht Hn; try discriminate. split; [reflexivity|].
    cbn [node_eqb] in Hn. apply andb_prop in Hn as [Hl Hall].
    unfold cm. cbn [mkey]. rewrite !cv_mset. f_equal. f_equal.
    apply members_alike; auto.
    + intros c Hc. eapply good_in; [exact Ga|exact Hc].
    + intros d Hd. eapply good_in; [exact Gb|exact Hd].
    + intros c d Hc Hd. eapply typed_in; [| |exact Ht]; assumption.
    + destruct Ga as [_ Hu]. rewrite value_of_mset in Hu. apply (ku_members cs Hu).
  - intros cs IH [y| | | |ds] Ga Gb Ht Hn; try discriminate. split; [reflexivity|].
    cbn [node_eqb] in Hn. apply andb_prop in Hn as [Hl Hall].
    unfold cm. cbn [mkey]. rewrite !cv_fdict. f_equal. f_equal.
    apply members_alike; auto.
    + intros c Hc. eapply good_in; [exact Ga|exact Hc].
    + intros d Hd. eapply good_in; [exact Gb|exact Hd].
    + intros c d Hc Hd. eapply typed_in; [| |exact Ht]; assumption.
    + destruct Ga as [_ Hu]. rewrite value_of_fdict in Hu. apply (ku_members cs Hu).
Qed.

(* priced + shaped scripts are Fair outside D4 *)
Definition Pfair (e : edit) : Prop :=
  forall a b, good a -> good b -> typed a b = true -> valid a b e = true -> priced a b e = true -> shaped a b e = true ->
    Fair a b e.

Theorem priced_fair : forall e, Pfair e.
Proof.
  apply edit_ind2; unfold Pfair, Fair.
  - intros c a b Ga Gb Ht _ Hp _. cbn [priced] in Hp. apply andb_prop in Hp as [H0 H1]. apply Z.leb_le in H0. cbn [FaithG].
    destruct (Z.eqb_spec c 0) as [->|Hne]; [right; apply node_alike; assumption|left; lia].
  - intros c a b _ _ _ _ Hp _. cbn in *. left. apply Z.ltb_lt. exact Hp.
  - intros c ops a b _ _ _ _ Hp Hs. cbn in *. split; [apply Z.ltb_lt; exact Hp|].
    destruct a as [x| | | |]; try discriminate. destruct b as [y| | | |]; try discriminate.
    apply andb_prop in Hs as [H1 H2]. split; apply lkind_eqb_true; assumption.
  - intros k c subs IH a b Ga Gb Ht Hv Hp Hs.
    cbn [valid] in Hv. apply andb_prop in Hv as [_ Hv]. cbn [priced] in Hp. cbn [shaped] in Hs. apply andb_prop in Hs as [_ Hs].
    cbn [FaithG]. induction IH as [|s subs Hsub _ IH']; [exact I|].
    destruct s as [i j e'|i x|j x].
    + destruct (nth_error (children a) i) as [x|] eqn:Ei; [|discriminate].
      destruct (nth_error (children b) j) as [y|] eqn:Ej; [|discriminate].
      apply andb_prop in Hv as [Hv1 Hv]. apply andb_prop in Hp as [Hp1 Hp]. apply andb_prop in Hs as [Hs1 Hs].
      rewrite (child_nth_error a i x Ei), (child_nth_error b j y Ej).
      pose proof (nth_error_In _ _ Ei) as Hxi. pose proof (nth_error_In _ _ Ej) as Hyi.
      split; [|apply IH'; assumption].
      assert (Gx : good x) by exact (good_in a x Ga Hxi). assert (Gy : good y) by exact (good_in b y Gb Hyi).
      assert (Txy : typed x y = true) by (eapply typed_in; [| |exact Ht]; assumption).
      apply Hsub; assumption.
    + destruct (nth_error (children a) i); [|discriminate]. apply andb_prop in Hp as [_ Hp]. apply IH'; assumption.
    + destruct (nth_error (children b) j); [|discriminate]. apply andb_prop in Hp as [_ Hp]. apply IH'; assumption.
Qed.

(* priced scripts have positive removals and insertions outside D16 *)
Lemma nozero_in : forall a c, nozero a = true -> In c (children a) -> nozero c = true.
Proof.
  intros a c H Hin. destruct a as [l|x y cs|x k v|x cs|cs]; cbn [children nozero] in *.
  - destruct Hin.
  - apply andb_prop in H as [_ H]. rewrite forallb_forall in H. apply H. exact Hin.
  - apply andb_prop in H as [H1 H2]. destruct Hin as [<-|[<-|[]]]; assumption.
  - rewrite forallb_forall in H. apply H. exact Hin.
  - rewrite forallb_forall in H. apply H. exact Hin.
Qed.

Lemma priced_leftover_pos : forall k a b x c, numtext_ok a = true -> nozero a = true ->
  (pen_of k a b = 0 -> exists x' y' cs, a = Lst x' y' cs /\ all_leaves cs = true) ->
  In x (children a) -> size x + pen_of k a b <= c -> 0 < c.
Proof.
  intros k a b x c Hn Hz Hlst Hin Hle. pose proof (size_nonneg x) as Hs.
  destruct (pen_of_range k a b) as [H0|H1]; [|lia].
  destruct (Hlst H0) as [x' [y' [cs [-> Hal]]]]. cbn [children] in Hin.
  destruct (Z.eq_dec (size x) 0) as [E|E]; [exfalso|lia].
  unfold all_leaves in Hal. rewrite forallb_forall in Hal. pose proof (Hal x Hin) as Hl.
  destruct x as [l| | | |]; try discriminate.
  assert (Hlt : leaf_numtext l = true).
  { unfold numtext_ok in Hn. rewrite forallb_forall in Hn. apply Hn.
    apply (leaves_child (Lst x' y' cs) (Leaf l) Hin). left. reflexivity. }
  pose proof (size0_empty l Hlt E) as He.
  cbn [nozero] in Hz. apply andb_prop in Hz as [Hz _]. apply negb_true_iff in Hz.
  assert (Hal' : all_leaves cs = true) by (apply forallb_forall; exact Hal).
  assert (Hex : existsb empty_leaf cs = true) by (apply existsb_exists; eauto).
  rewrite Hal', Hex in Hz. discriminate.
Qed.

Definition Ppos (e : edit) : Prop :=
  forall a b, numtext_ok a = true -> numtext_ok b = true -> nozero a = true -> nozero b = true ->
    valid a b e = true -> priced a b e = true -> pos_costs e = true.

Theorem priced_pos : forall e, Ppos e.
Proof.
  apply edit_ind2; unfold Ppos.
  - intros c a b _ _ _ _ _ Hp. cbn in *. apply andb_prop in Hp as [Hp _]. exact Hp.
  - intros c a b _ _ _ _ _ Hp. cbn in *. apply Z.ltb_lt in Hp. apply Z.leb_le. lia.
  - reflexivity.
  - intros k c subs IH a b Hna Hnb Hza Hzb Hv Hp.
    cbn [valid] in Hv. apply andb_prop in Hv as [Hv Hall]. apply andb_prop in Hv as [Hfit _].
    cbn [priced] in Hp. cbn [pos_costs].
    assert (HA : pen_of k a b = 0 -> exists x' y' cs, a = Lst x' y' cs /\ all_leaves cs = true).
    { intro H0. destruct (pen_of_zero k a b H0) as [H1 _]. unfold pen_of in H0.
      destruct k; try discriminate. destruct a; try discriminate. cbn [children] in H1. eauto. }
    assert (HB : pen_of k a b = 0 -> exists x' y' cs, b = Lst x' y' cs /\ all_leaves cs = true).
    { intro H0. destruct (pen_of_zero k a b H0) as [_ H1]. unfold pen_of in H0.
      destruct k; try discriminate. destruct a; try discriminate. destruct b; try discriminate. cbn [children] in H1. eauto. }
    clear Hfit. induction IH as [|s subs Hs _ IH']; [reflexivity|].
    destruct s as [i j e'|i x|j x].
    + destruct (nth_error (children a) i) as [x|] eqn:Ei; [|discriminate].
      destruct (nth_error (children b) j) as [y|] eqn:Ej; [|discriminate].
      apply andb_prop in Hall as [Hv1 Hall]. apply andb_prop in Hp as [Hp1 Hp].
      pose proof (nth_error_In _ _ Ei) as Hxi. pose proof (nth_error_In _ _ Ej) as Hyi.
      rewrite (Hs x y (numtext_child a x Hna Hxi) (numtext_child b y Hnb Hyi) (nozero_in a x Hza Hxi) (nozero_in b y Hzb Hyi) Hv1 Hp1).
      apply IH'; assumption.
    + destruct (nth_error (children a) i) as [y|] eqn:Ei; [|discriminate]. apply andb_prop in Hp as [Hp1 Hp].
      apply Z.leb_le in Hp1. pose proof (nth_error_In _ _ Ei) as Hyi.
      assert (0 < x) by (eapply (priced_leftover_pos k a b y x); eauto).
      apply andb_true_intro. split; [apply Z.ltb_lt; assumption|apply IH'; assumption].
    + destruct (nth_error (children b) j) as [y|] eqn:Ej; [|discriminate]. apply andb_prop in Hp as [Hp1 Hp].
      apply Z.leb_le in Hp1. pose proof (nth_error_In _ _ Ej) as Hyi.
      assert (0 < x).
      { destruct (pen_of_range k a b) as [H0|H1]; [|pose proof (size_nonneg y); lia].
        destruct (HB H0) as [x' [y' [cs [-> Hal]]]]. cbn [children] in Hyi.
        destruct (Z.eq_dec (size y) 0) as [E|E]; [exfalso|pose proof (size_nonneg y); lia].
        unfold all_leaves in Hal. rewrite forallb_forall in Hal. pose proof (Hal y Hyi) as Hl.
        destruct y as [l| | | |]; try discriminate.
        assert (Hlt : leaf_numtext l = true).
        { unfold numtext_ok in Hnb. rewrite forallb_forall in Hnb. apply Hnb.
          apply (leaves_child (Lst x' y' cs) (Leaf l) Hyi). left. reflexivity. }
        pose proof (size0_empty l Hlt E) as He.
        cbn [nozero] in Hzb. apply andb_prop in Hzb as [Hzb _]. apply negb_true_iff in Hzb.
        assert (Hal' : all_leaves cs = true) by (apply forallb_forall; exact Hal).
        assert (Hex : existsb empty_leaf cs = true) by (apply existsb_exists; eauto).
        rewrite Hal', Hex in Hzb. discriminate. }
      apply andb_true_intro. split; [apply Z.ltb_lt; assumption|apply IH'; assumption].
Qed.

(* the documents' tokens: a JSON-domain document prints numbers as atoms and strings of code points *)
Lemma numchar_atomic : forall c, is_numchar c = true -> atomic c = true.
Proof.
  intros c H. unfold is_numchar, is_digit in H.
  assert (Hc : 48 <= c <= 57 \/ c = 45 \/ c = 43 \/ c = 46 \/ c = 101 \/ c = 69).
  { repeat (apply orb_prop in H; destruct H as [H|H]); try (apply Z.eqb_eq in H; lia).
    apply andb_prop in H as [H1 H2]. apply Z.leb_le in H1, H2. lia. }
  unfold atomic, is_sepch, is_ws, punct.
  repeat match goal with |- context [?x =? ?y] => destruct (Z.eqb_spec x y); [lia|] end. reflexivity.
Qed.

Lemma num_ok_atoms : forall t, num_ok t = true -> nonempty t && forallb atomic t = true.
Proof.
  intros t H. destruct (num_ok_head t H) as [c [r [-> _]]]. cbn [nonempty andb].
  unfold num_ok in H. apply andb_prop in H as [H _]. rewrite forallb_forall in *. intros x Hx. apply numchar_atomic. apply H. exact Hx.
Qed.

Lemma str_ok_nonneg : forall s, str_okb false s = true -> nonneg s = true.
Proof.
  intros s H. cbn in H. apply andb_prop in H as [H _]. unfold nonneg. rewrite forallb_forall in *. intros c Hc.
  specialize (H c Hc). unfold cp_ok in H. apply andb_prop in H as [H _]. exact H.
Qed.

Definition Ptok (t : tree) : Prop :=
  jshape t = true -> jwfb false (value_of t) = true -> (is_kvp t = true -> str_okb false (mkey t) = true) -> tok_ok t = true.

Lemma members_tok_ok : forall cs, Forall Ptok cs -> forallb (fun c => is_kvp c && jshape c) cs = true ->
  jwfb false (JObj (map (fun c => (mkey c, value_of c)) cs)) = true -> forallb tok_ok cs = true.
Proof.
  intros cs IH Hs Hw. cbn [jwfb] in Hw. rewrite forallb_forall in *. rewrite Forall_forall in IH. intros c Hc.
  specialize (Hs c Hc). apply andb_prop in Hs as [_ Hs].
  assert (Hm : In (mkey c, value_of c) (map (fun c => (mkey c, value_of c)) cs)) by (apply in_map_iff; eauto).
  specialize (Hw _ Hm). cbn in Hw. apply andb_prop in Hw as [H1 H2]. apply (IH c Hc); auto.
Qed.

Theorem jshape_tok_ok : forall t, Ptok t.
Proof.
  apply tree_ind2; unfold Ptok.
  - intros l _ Hw _. cbn [tok_ok]. unfold leaf_ok. cbn [value_of] in Hw. unfold leaf_value in Hw.
    destruct (lk l); try reflexivity; cbn [jwfb] in Hw; [apply num_ok_atoms; exact Hw|apply num_ok_atoms; exact Hw|
                                                           apply str_ok_nonneg; exact Hw].
  - intros x y cs IH Hs Hw _. cbn [tok_ok jshape value_of jwfb] in *. rewrite forallb_forall in *. rewrite Forall_forall in IH.
    intros c Hc. specialize (Hs c Hc). apply andb_prop in Hs as [Hk Hs]. apply (IH c Hc); auto.
    + apply Hw. apply in_map. exact Hc.
    + intro E. rewrite E in Hk. discriminate.
  - intros x k v IHk IHv Hs Hw Hkey. cbn [tok_ok jshape value_of] in *.
    apply andb_prop in Hs as [Hs H3]. apply andb_prop in Hs as [H1 H2].
    destruct k as [l| | | |]; try discriminate. cbn in H1. cbn [mkey] in Hkey.
    apply andb_true_intro. split.
    + cbn [tok_ok]. unfold leaf_ok. destruct (lk l); try discriminate. apply str_ok_nonneg. apply Hkey. reflexivity.
    + apply IHv; auto. intro E. rewrite E in H2. discriminate.
  - intros x cs IH Hs Hw _. rewrite value_of_mset in Hw. cbn [tok_ok jshape] in *. apply members_tok_ok; assumption.
  - intros cs IH Hs Hw _. rewrite value_of_fdict in Hw. cbn [tok_ok jshape] in *. apply members_tok_ok; assumption.
Qed.

Lemma jdoc_tok_ok : forall t, jdoc t -> tok_ok t = true.
Proof.
  intros t [H1 [H2 H3]]. unfold json_domainb in H3. apply andb_prop in H3 as [H3 _].
  apply jshape_tok_ok; auto. intro E. congruence.
Qed.

(* ------------------------------------------------------------------ C06 for every well-priced script (the model's:
   RenderScriptProofs.C06_model; the implementation's: valid / additive / priced are evaluated by C01-C03) *)
Theorem C06_priced_text_all : forall lay a b e,
  jdoc a -> jdoc b -> valid a b e = true -> priced a b e = true -> shaped a b e = true ->
  typed a b = true (* D4 *) -> clean false a e = true (* D33 *) ->
  reads_as (erase Inserted (jrender lay a b e)) a = true /\
  reads_as (erase Removed (jrender lay a b e)) b = true.
Proof.
  intros lay a b e Da Db Hv Hp Hs Ht Hc.
  apply (C06_text_all lay a b e (jdoc_tok_ok a Da) (jdoc_tok_ok b Db) Hc Hv); auto.
  - apply priced_fair; auto using jdoc_good.
  - exact (shaped_kvp2 e a b Hs).
Qed.

Theorem C06_priced_marks_all : forall lay a b e,
  jdoc a -> jdoc b -> numtext_ok a = true -> numtext_ok b = true ->
  valid a b e = true -> additive e = true -> priced a b e = true -> shaped a b e = true ->
  nozero a = true -> nozero b = true (* D16 *) ->
  (no_marks (jrender lay a b e) = true <-> cost e = 0).
Proof.
  intros lay a b e Da Db Hna Hnb Hv Had Hp Hs Hza Hzb. rewrite no_marks_iff.
  apply (C06_marks_cost_all lay a b e (jdoc_tok_ok a Da) (jdoc_tok_ok b Db) Hv (shaped_kvp2 e a b Hs) Had).
  exact (priced_pos e a b Hna Hnb Hza Hzb Hv Hp).
Qed.

(* the ordered-container theorems without the hypothesis edit_ok (it follows from C01 and the documents) *)
Theorem C06_ordered_valid_all : forall lay a b e,
  tok_ok a = true -> tok_ok b = true -> clean false a e = true ->
  valid a b e = true -> Faithful a b e -> ordered_only e = true -> kvp2 e = true ->
  sim (erase Inserted (jrender lay a b e)) (tprint lay 0 a) /\
  sim (erase Removed (jrender lay a b e)) (tprint lay 0 b).
Proof.
  intros lay a b e Ha Hb Hc Hv Hf Ho Hk.
  pose proof (valid_edit_ok _ e a b Ha Hb Hv (Faithful_FaithG e a b Hf)) as He.
  apply C06_ordered_partial_all; assumption.
Qed.

Theorem C06_reads_ordered_valid_all : forall lay a b e,
  tok_ok a = true -> tok_ok b = true -> clean false a e = true ->
  valid a b e = true -> Faithful a b e -> ordered_only e = true -> kvp2 e = true ->
  (jshape a = true -> is_kvp a = false -> jwfb false (value_of a) = true ->
   jparse_lenient (erase Inserted (jrender lay a b e)) = Some (value_of a)) /\
  (jshape b = true -> is_kvp b = false -> jwfb false (value_of b) = true ->
   jparse_lenient (erase Removed (jrender lay a b e)) = Some (value_of b)).
Proof.
  intros lay a b e Ha Hb Hc Hv Hf Ho Hk.
  pose proof (valid_edit_ok _ e a b Ha Hb Hv (Faithful_FaithG e a b Hf)) as He.
  apply C06_reads_ordered_all; assumption.
Qed.

(* ------------------------------------------------------------------ the D33 carve-out on the document alone
   (RenderModel.nomil: no mapping is an element of a list of the first document) *)
Lemma nomil_child : forall a i, nomil a = true ->
  nomil (child a i) = true /\ (is_lst a = true -> is_mapping (child a i) = false).
Proof.
  intros a i H. unfold child. destruct (nth_in_or_default i (children a) dummy) as [Hin|Hd].
  - set (c := nth i (children a) dummy) in *. clearbody c.
    destruct a as [l|x y cs|x k v|x cs|cs]; cbn [children nomil is_lst] in *.
    + destruct Hin.
    + rewrite forallb_forall in H. specialize (H c Hin). apply andb_prop in H as [H1 H2]. apply negb_true_iff in H1. auto.
    + apply andb_prop in H as [H1 H2]. destruct Hin as [<-|[<-|[]]]; split; auto; discriminate.
    + rewrite forallb_forall in H. split; [apply H; exact Hin|discriminate].
    + rewrite forallb_forall in H. split; [apply H; exact Hin|discriminate].
  - rewrite Hd. split; reflexivity.
Qed.

Theorem nomil_clean : forall e a inl, nomil a = true -> (inl = true -> is_mapping a = false) -> clean inl a e = true.
Proof.
  apply (edit_ind2 (fun e => forall a inl, nomil a = true -> (inl = true -> is_mapping a = false) -> clean inl a e = true)).
  - intros c a inl _ H. cbn [clean]. destruct inl; [rewrite (H eq_refl)|]; cbn; rewrite andb_false_r; reflexivity.
  - intros c a inl _ H. cbn [clean]. destruct inl; [rewrite (H eq_refl)|]; cbn; rewrite andb_false_r; reflexivity.
  - reflexivity.
  - intros k c subs IH a inl Hn _. cbn [clean]. destruct (is_seq_kind k).
    + induction IH as [|s subs Hs _ IH']; [reflexivity|].
      destruct s as [i j e'|i x|j x]; try exact IH'.
      destruct (nomil_child a i Hn) as [H1 H2]. rewrite (Hs (child a i) (is_lst a) H1 H2). exact IH'.
    + destruct subs as [|[i j ke|i x|j x] [|[i' j' ve|i' x'|j' x'] [|s3 rest]]]; try reflexivity.
      pose proof (Forall_inv IH) as Hke. pose proof (Forall_inv (Forall_inv_tail IH)) as Hve. cbn beta iota in Hke, Hve.
      rewrite (Hke (child a 0) false), (Hve (child a 1) false); try reflexivity; try discriminate; apply nomil_child; exact Hn.
Qed.

(* ------------------------------------------------------------------ the bridge to the implementation: for a case
   whose decoded output equals the model's rendering of the implementation's own script (corr_C06, evaluated on every
   case) and which lies inside the evaluated hypotheses thm_C06, the clauses of holds_C06 are theorems *)
Lemma jdocb_jdoc : forall t, jdocb t = true -> jdoc t.
Proof.
  intros t H. unfold jdocb in H. apply andb_prop in H as [H H3]. apply andb_prop in H as [H1 H2].
  apply negb_true_iff in H2. repeat split; assumption.
Qed.

Lemma stream_eqb_eq : forall x y, stream_eqb x y = true -> x = y.
Proof.
  induction x as [|[c m] x IH]; intros [|[d m'] y] H; cbn in H; try discriminate; [reflexivity|].
  apply andb_prop in H as [H H3]. apply andb_prop in H as [H1 H2]. apply Z.eqb_eq in H1.
  assert (m = m') by (destruct m, m'; try discriminate; reflexivity). subst. f_equal. apply IH. exact H3.
Qed.

Theorem C06_bridge_all : forall c, thm_C06 c = true -> corr_C06 c = true ->
  holds_C06_first c = true /\ holds_C06_second c = true /\
  exists st, classify (rc_obs c) = Some st /\ (no_marks st = true <-> cost (sc_edit (rc_script c)) = 0).
Proof.
  intros c Ht Hc. unfold thm_C06 in Ht. cbv zeta in Ht.
  repeat match type of Ht with (_ && _) = true => let H' := fresh "T" in apply andb_prop in Ht as [Ht H'] end.
  apply jdocb_jdoc in Ht, T9.
  unfold corr_C06 in Hc. unfold holds_C06_first, holds_C06_second.
  destruct (classify (rc_obs c)) as [st|]; [|discriminate]. apply stream_eqb_eq in Hc. subst st.
  destruct (C06_priced_text_all (rc_lay c) _ _ _ Ht T9 T6 T4 T3 T2 T) as [H1 H2].
  split; [exact H1|]. split; [exact H2|]. eexists. split; [reflexivity|].
  apply C06_priced_marks_all; assumption.
Qed.
