(* C06: proofs about the model of the rendered diff (RenderModel.v), for all trees, scripts and layouts. *)
From Coq Require Import List Bool ZArith Lia Arith.
Require Import GT.PyBase GT.Data GT.ScriptSpec GT.JsonSpec GT.JsonModel GT.JsonProofs GT.RenderSpec GT.RenderModel.
Import ListNotations.
Open Scope Z_scope.

(* ------------------------------------------------------------------ induction on scripts *)
Section EditInd.
  Variable P : edit -> Prop.
  Hypothesis Hm : forall c, P (EMatch c).
  Hypothesis Hr : forall c, P (EReplace c).
  Hypothesis Hs : forall c ops, P (EStr c ops).
  Hypothesis Hc : forall k c subs, Forall (fun s => match s with SPair _ _ e => P e | _ => True end) subs -> P (EComp k c subs).
  Fixpoint edit_ind2 (e : edit) : P e :=
    match e with
    | EMatch c => Hm c
    | EReplace c => Hr c
    | EStr c ops => Hs c ops
    | EComp k c subs =>
        Hc k c subs ((fix go (ss : list sub) : Forall (fun s => match s with SPair _ _ e => P e | _ => True end) ss :=
                        match ss with
                        | [] => Forall_nil _
                        | SPair i j e' :: ss' => Forall_cons (SPair i j e') (edit_ind2 e') (go ss')
                        | SRem i c' :: ss' => Forall_cons (SRem i c') I (go ss')
                        | SIns j c' :: ss' => Forall_cons (SIns j c') I (go ss')
                        end) subs)
    end.
End EditInd.

(* ------------------------------------------------------------------ erase / marks on streams *)

Lemma erase_app : forall m s t, erase m (s ++ t) = erase m s ++ erase m t.
Proof. intros. unfold erase. rewrite filter_app, map_app. reflexivity. Qed.

Lemma erase_cons : forall m c x s, erase m ((c, x) :: s) = (if keeps m (c, x) then [c] else []) ++ erase m s.
Proof. intros. unfold erase. cbn [filter]. destruct (keeps m (c, x)); reflexivity. Qed.

Lemma erase_mk : forall m x s, erase m (mk x s) = if keeps m (0, x) then s else [].
Proof.
  intros m x s. unfold erase, keeps; cbn [snd]. induction s as [|c s IH]; cbn.
  - destruct (negb (mark_eqb x m) && negb (mark_eqb x Arrow)); reflexivity.
  - unfold keeps; cbn [snd]. destruct (negb (mark_eqb x m) && negb (mark_eqb x Arrow)); cbn; [f_equal|]; exact IH.
Qed.

Lemma erase_arrow : forall m, erase m arrow = [].
Proof. intro m. unfold arrow. rewrite erase_mk. unfold keeps; cbn. rewrite andb_false_r. reflexivity. Qed.

Lemma marks_app : forall s t, marks (s ++ t) = marks s ++ marks t.
Proof. intros. unfold marks. apply filter_app. Qed.

Lemma marks_mk_plain : forall s, marks (mk Plain s) = [].
Proof. induction s; cbn; auto. Qed.

Lemma marks_mk_other : forall m s, m <> Plain -> marks (mk m s) = mk m s.
Proof. intros m s H. induction s as [|c s IH]; cbn; [reflexivity|]. destruct m; try congruence; cbn; f_equal; exact IH. Qed.

(* ------------------------------------------------------------------ the lexer *)

Definition atomic (c : Z) : bool := negb (is_sepch c) && match punct c with None => true | Some _ => false end && negb (c =? 34).
Definition delim_start (r : list Z) : bool := match r with [] => true | c :: _ => negb (atomic c) end.

Lemma lex_sep : forall c r, is_sepch c = true -> lex LOut (c :: r) = lex LOut r.
Proof. intros c r H. cbn. rewrite H. reflexivity. Qed.

Lemma lex_seps : forall ws r, forallb is_sepch ws = true -> lex LOut (ws ++ r) = lex LOut r.
Proof.
  induction ws as [|c ws IH]; intros r H; [reflexivity|].
  cbn in H. apply andb_prop in H as [H1 H2]. cbn [app]. rewrite lex_sep by exact H1. apply IH. exact H2.
Qed.

Lemma ws_sepch : forall c, is_ws c = true -> is_sepch c = true.
Proof. intros c H. unfold is_sepch. rewrite H. reflexivity. Qed.

Lemma forallb_ws_sepch : forall l, forallb is_ws l = true -> forallb is_sepch l = true.
Proof.
  intros l H. rewrite forallb_forall in *. intros x Hx. apply ws_sepch. apply H. exact Hx.
Qed.

Lemma sep_sepch : forall b n, forallb is_sepch (sep b n) = true.
Proof. intros. apply forallb_ws_sepch. apply sep_ws. Qed.

Lemma lex_punct : forall c t r, punct c = Some t -> lex LOut (c :: r) = t :: lex LOut r.
Proof.
  intros c t r H. cbn.
  assert (Hs : is_sepch c = false).
  { unfold punct in H. unfold is_sepch, is_ws.
    repeat match type of H with context [if ?x =? ?y then _ else _] => destruct (Z.eqb_spec x y); [subst; reflexivity|] end.
    discriminate. }
  rewrite Hs, H. reflexivity.
Qed.

(* an open atom is closed by whatever cannot continue it *)
Lemma lex_at_close : forall acc r, delim_start r = true -> lex (LAt acc) r = TAtom acc :: lex LOut r.
Proof.
  intros acc [|c r] H; [reflexivity|].
  cbn in H. unfold atomic in H. cbn [lex lstep].
  destruct (is_sepch c) eqn:Es; [reflexivity|].
  destruct (punct c) eqn:Ep; [reflexivity|].
  destruct (c =? 34) eqn:Eq; [reflexivity|].
  cbn in H. discriminate.
Qed.

Lemma lex_at_run : forall s acc r, forallb atomic s = true -> delim_start r = true ->
  lex (LAt acc) (s ++ r) = TAtom (acc ++ s) :: lex LOut r.
Proof.
  induction s as [|c s IH]; intros acc r Hs Hr.
  - cbn [app]. rewrite app_nil_r. apply lex_at_close. exact Hr.
  - cbn in Hs. apply andb_prop in Hs as [Hc Hs]. unfold atomic in Hc.
    apply andb_prop in Hc as [Hc H34]. apply andb_prop in Hc as [Hsep Hp].
    cbn [app lex lstep].
    destruct (is_sepch c); [discriminate|]. destruct (punct c); [discriminate|].
    destruct (c =? 34); [discriminate|].
    cbn [app]. rewrite (IH (acc ++ [c]) r Hs Hr). rewrite <- app_assoc. reflexivity.
Qed.

Lemma lex_atom : forall s r, s <> [] -> forallb atomic s = true -> delim_start r = true ->
  lex LOut (s ++ r) = TAtom s :: lex LOut r.
Proof.
  intros [|c s] r Hne Hs Hr; [congruence|].
  cbn in Hs. apply andb_prop in Hs as [Hc Hs]. pose proof Hc as Hc'. unfold atomic in Hc.
  apply andb_prop in Hc as [Hc H34]. apply andb_prop in Hc as [Hsep Hp].
  cbn [app lex lstep].
  destruct (is_sepch c); [discriminate|]. destruct (punct c); [discriminate|].
  destruct (c =? 34); [discriminate|].
  cbn [app]. apply (lex_at_run s [c] r Hs Hr).
Qed.

(* string literals: the escaped form of any string of non-negative code points is read verbatim up to the
   closing quote *)
Lemma hexd_plain : forall d, 0 <= d -> (hexd d =? 34) = false /\ (hexd d =? 92) = false.
Proof. intros d H. unfold hexd. destruct (d <? 10) eqn:E; [apply Z.ltb_lt in E|apply Z.ltb_ge in E]; split; apply Z.eqb_neq; lia. Qed.

Lemma lex_str_plain : forall acc c r, (c =? 34) = false -> (c =? 92) = false ->
  lex (LStr acc) (c :: r) = lex (LStr (acc ++ [c])) r.
Proof. intros acc c r H1 H2. cbn. rewrite H1, H2. reflexivity. Qed.

Lemma lex_str_esc : forall acc e r, lex (LStr acc) (92 :: e :: r) = lex (LStr (acc ++ [92; e])) r.
Proof. intros. cbn. rewrite <- app_assoc. reflexivity. Qed.

Lemma lex_str_u4 : forall acc c r, 0 <= c -> lex (LStr acc) (u4 c ++ r) = lex (LStr (acc ++ u4 c)) r.
Proof.
  intros acc c r Hc. unfold u4. cbn [app]. rewrite lex_str_esc.
  assert (H1 : 0 <= c / 16 / 16 / 16) by (repeat apply Z.div_pos; lia).
  assert (H2 : 0 <= (c / 16 / 16) mod 16) by (apply Z.mod_pos_bound; lia).
  assert (H3 : 0 <= (c / 16) mod 16) by (apply Z.mod_pos_bound; lia).
  assert (H4 : 0 <= c mod 16) by (apply Z.mod_pos_bound; lia).
  destruct (hexd_plain _ H1), (hexd_plain _ H2), (hexd_plain _ H3), (hexd_plain _ H4).
  rewrite !lex_str_plain by assumption. rewrite <- !app_assoc. reflexivity.
Qed.

Lemma lex_escape_cp : forall acc c r, 0 <= c -> lex (LStr acc) (escape_cp c ++ r) = lex (LStr (acc ++ escape_cp c)) r.
Proof.
  intros acc c r Hc. unfold escape_cp.
  destruct (short_escape c) eqn:Es.
  - cbn [app]. apply lex_str_esc.
  - destruct (short_escape_none c Es) as [H34 H92].
    destruct ((32 <=? c) && (c <=? 126)).
    + cbn [app]. apply lex_str_plain; assumption.
    + destruct (c <? 65536) eqn:E.
      * apply lex_str_u4. exact Hc.
      * apply Z.ltb_ge in E. rewrite <- app_assoc.
        rewrite lex_str_u4 by (unfold sur_hi; assert (0 <= (c - 65536) / 1024) by (apply Z.div_pos; lia); lia).
        rewrite lex_str_u4 by (unfold sur_lo; assert (0 <= (c - 65536) mod 1024) by (apply Z.mod_pos_bound; lia); lia).
        rewrite <- app_assoc. reflexivity.
Qed.

Definition nonneg (s : list Z) : bool := forallb (fun c => 0 <=? c) s.

Lemma lex_escape_string : forall s acc r, nonneg s = true ->
  lex (LStr acc) (escape_string s ++ r) = lex (LStr (acc ++ escape_string s)) r.
Proof.
  induction s as [|c s IH]; intros acc r H.
  - cbn. rewrite app_nil_r. reflexivity.
  - cbn in H. apply andb_prop in H as [Hc Hs]. apply Z.leb_le in Hc.
    unfold escape_string. cbn [flat_map]. fold (escape_string s).
    rewrite <- app_assoc. rewrite lex_escape_cp by exact Hc. rewrite IH by exact Hs.
    rewrite <- app_assoc. reflexivity.
Qed.

Lemma lex_str_close : forall acc r, lex (LStr acc) (34 :: r) = TStr acc :: lex LOut r.
Proof. intros. reflexivity. Qed.

Lemma lex_open_quote : forall r, lex LOut (34 :: r) = lex (LStr []) r.
Proof. intros. reflexivity. Qed.

Lemma lex_jstring : forall s r, nonneg s = true -> lex LOut (jstring s ++ r) = TStr (escape_string s) :: lex LOut r.
Proof.
  intros s r H. unfold jstring. cbn [app]. rewrite lex_open_quote. rewrite <- app_assoc.
  rewrite lex_escape_string by exact H. cbn [app]. apply lex_str_close.
Qed.

(* ------------------------------------------------------------------ tokens of a plainly printed tree *)

Definition leaf_ok (l : leaf) : bool :=
  match lk l with
  | KStr => nonneg (ltext l)
  | KInt | KFloat => nonempty (ltext l) && forallb atomic (ltext l)
  | _ => true
  end.
Fixpoint tok_ok (t : tree) : bool :=
  match t with
  | Leaf l => leaf_ok l
  | Lst _ _ cs | MSet _ cs | FDict cs => forallb tok_ok cs
  | Kvp _ k v => tok_ok k && tok_ok v
  end.

Definition leaf_toks (l : leaf) : list tok :=
  match lk l with KStr => [TStr (escape_string (ltext l))] | _ => [TAtom (leaf_text l)] end.
Fixpoint ttoks (t : tree) : list tok :=
  match t with
  | Leaf l => leaf_toks l
  | Lst _ _ cs => TLB :: flat_map ttoks cs ++ [TRB]
  | Kvp _ k v => ttoks k ++ TCol :: ttoks v
  | MSet _ cs | FDict cs => TLC :: flat_map ttoks cs ++ [TRC]
  end.

Lemma lex_leaf : forall l r, leaf_ok l = true -> delim_start r = true ->
  lex LOut (leaf_text l ++ r) = leaf_toks l ++ lex LOut r.
Proof.
  intros l r Hok Hr. unfold leaf_toks, leaf_text, leaf_ok in *. destruct (lk l); cbn [app].
  - apply andb_prop in Hok as [Hne Ha]. apply lex_atom; auto. destruct (ltext l); [discriminate|congruence].
  - apply andb_prop in Hok as [Hne Ha]. apply lex_atom; auto. destruct (ltext l); [discriminate|congruence].
  - destruct (str_eqb (ltext l) s_True); apply lex_atom; auto; discriminate.
  - apply lex_jstring. exact Hok.
  - apply lex_atom; auto. discriminate.
Qed.

(* a value followed by something that cannot continue an atom *)
Definition spells_text (s : list Z) (ts : list tok) : Prop :=
  forall r, delim_start r = true -> lex LOut (s ++ r) = ts ++ lex LOut r.

(* the items of a printed sequence, each after a comma and the item newline *)
Lemma lex_items : forall (spi : list Z) (xs : list (list Z)) (tss : list (list tok)) r,
  forallb is_sepch spi = true -> Forall2 spells_text xs tss -> delim_start r = true ->
  lex LOut (flat_map (fun t => 44 :: spi ++ t) xs ++ r) = concat tss ++ lex LOut r.
Proof.
  intros spi xs tss r Hspi H Hr. induction H as [|x ts xs tss Hx Hxs IH]; [reflexivity|].
  cbn [flat_map concat]. cbn [app]. rewrite <- !app_assoc.
  rewrite lex_sep by reflexivity. rewrite lex_seps by exact Hspi.
  rewrite Hx.
  - rewrite IH. reflexivity.
  - destruct xs as [|y ys]; [exact Hr|reflexivity].
Qed.

Lemma lex_seq_text : forall o c topen tclose spi spc xs tss,
  punct o = Some topen -> punct c = Some tclose ->
  forallb is_sepch spi = true -> forallb is_sepch spc = true -> Forall2 spells_text xs tss ->
  spells_text (seq_text o c spi spc xs) (topen :: concat tss ++ [tclose]).
Proof.
  intros o c topen tclose spi spc xs tss Ho Hc Hspi Hspc H r Hr.
  unfold seq_text. destruct H as [|x ts xs tss Hx Hxs].
  - cbn [app concat]. rewrite (lex_punct o topen) by exact Ho. rewrite (lex_punct c tclose) by exact Hc. reflexivity.
  - cbn [app concat]. rewrite (lex_punct o topen) by exact Ho. rewrite <- !app_assoc.
    rewrite lex_seps by exact Hspi.
    assert (Hclose : forall r', lex LOut (spc ++ [c] ++ r') = tclose :: lex LOut r').
    { intro r'. rewrite lex_seps by exact Hspc. cbn [app]. apply lex_punct. exact Hc. }
    rewrite Hx.
    + f_equal. f_equal.
      rewrite (lex_items spi xs tss (spc ++ [c] ++ r) Hspi Hxs).
      * rewrite Hclose. cbn [app]. reflexivity.
      * destruct spc as [|w ws]; cbn.
        -- unfold atomic. rewrite Hc. rewrite andb_false_r. reflexivity.
        -- cbn in Hspc. apply andb_prop in Hspc as [Hw _]. unfold atomic. rewrite Hw. reflexivity.
    + destruct xs as [|y ys]; cbn [flat_map app]; [|reflexivity].
      destruct spc as [|w ws]; cbn.
      * unfold atomic. rewrite Hc. rewrite andb_false_r. reflexivity.
      * cbn in Hspc. apply andb_prop in Hspc as [Hw _]. unfold atomic. rewrite Hw. reflexivity.
Qed.

Lemma Forall2_map_spells : forall (f : tree -> list Z) (g : tree -> list tok) cs,
  Forall (fun c => spells_text (f c) (g c)) cs -> Forall2 spells_text (map f cs) (map g cs).
Proof. intros f g cs H. induction H; cbn; constructor; auto. Qed.

Lemma flat_map_concat_map : forall {A B} (f : A -> list B) l, flat_map f l = concat (map f l).
Proof. intros. induction l; cbn; [reflexivity|]. f_equal. assumption. Qed.

Section tree_induction.
  Variable P : tree -> Prop.
  Hypothesis HLeaf : forall l, P (Leaf l).
  Hypothesis HLst : forall x y cs, Forall P cs -> P (Lst x y cs).
  Hypothesis HKvp : forall x k v, P k -> P v -> P (Kvp x k v).
  Hypothesis HMSet : forall x cs, Forall P cs -> P (MSet x cs).
  Hypothesis HFDict : forall cs, Forall P cs -> P (FDict cs).
  Fixpoint tree_ind2 (t : tree) : P t :=
    let go := fix go (l : list tree) : Forall P l :=
      match l with [] => Forall_nil _ | x :: r => Forall_cons _ (tree_ind2 x) (go r) end in
    match t with
    | Leaf l => HLeaf l
    | Lst x y cs => HLst x y cs (go cs)
    | Kvp x k v => HKvp x k v (tree_ind2 k) (tree_ind2 v)
    | MSet x cs => HMSet x cs (go cs)
    | FDict cs => HFDict cs (go cs)
    end.
End tree_induction.

Lemma Forall_tok_ok : forall (P : tree -> Prop) cs,
  Forall (fun c => tok_ok c = true -> P c) cs -> forallb tok_ok cs = true -> Forall P cs.
Proof.
  intros P cs H Hok. induction H as [|c cs Hc Hcs IH]; [constructor|].
  cbn in Hok. apply andb_prop in Hok as [H1 H2]. constructor; auto.
Qed.

Theorem lex_tprint : forall lay t n, tok_ok t = true -> spells_text (tprint lay n t) (ttoks t).
Proof.
  intros lay t. induction t as [l|x y cs IH|x k v IHk IHv|x cs IH|cs IH] using tree_ind2; intros n Hok.
  - intros r Hr. cbn. apply lex_leaf; assumption.
  - cbn [tprint ttoks]. rewrite flat_map_concat_map.
    apply lex_seq_text; try reflexivity; try apply sep_sepch.
    apply Forall2_map_spells. cbn in Hok.
    apply (Forall_tok_ok (fun c => spells_text (tprint lay (S n) c) (ttoks c))); [|exact Hok].
    eapply Forall_impl; [|exact IH]. cbn. intros c Hc Hc'. apply Hc. exact Hc'.
  - cbn in Hok. apply andb_prop in Hok as [Hk Hv]. intros r Hr. cbn [tprint ttoks].
    rewrite <- !app_assoc. rewrite (IHk n Hk) by reflexivity.
    cbn [app]. rewrite (lex_punct 58 TCol) by reflexivity. rewrite lex_sep by reflexivity.
    rewrite (IHv n Hv r Hr). reflexivity.
  - cbn [tprint ttoks]. rewrite flat_map_concat_map.
    apply lex_seq_text; try reflexivity; try apply sep_sepch.
    apply Forall2_map_spells. cbn in Hok.
    apply (Forall_tok_ok (fun c => spells_text (tprint lay (S n) c) (ttoks c))); [|exact Hok].
    eapply Forall_impl; [|exact IH]. cbn. intros c Hc Hc'. apply Hc. exact Hc'.
  - cbn [tprint ttoks]. rewrite flat_map_concat_map.
    apply lex_seq_text; try reflexivity; try apply sep_sepch.
    apply Forall2_map_spells. cbn in Hok.
    apply (Forall_tok_ok (fun c => spells_text (tprint lay (S n) c) (ttoks c))); [|exact Hok].
    eapply Forall_impl; [|exact IH]. cbn. intros c Hc Hc'. apply Hc. exact Hc'.
Qed.

Corollary toks_tprint : forall lay n t, tok_ok t = true -> toks (tprint lay n t) = ttoks t.
Proof.
  intros lay n t H. unfold toks. pose proof (lex_tprint lay t n H [] eq_refl) as E.
  rewrite !app_nil_r in E. exact E.
Qed.

(* ------------------------------------------------------------------ what a projection of a stream spells *)

(* side = false: delete the inserted characters (first document); side = true: delete the removed ones *)
Definition em (side : bool) : mark := if side then Removed else Inserted.
Definition km (side : bool) : mark := if side then Inserted else Removed.

Definition spells (side : bool) (s : stream) (ts : list tok) : Prop := spells_text (erase (em side) s) ts.

Lemma erase_mk_plain : forall side s, erase (em side) (mk Plain s) = s.
Proof. intros [] s; rewrite erase_mk; reflexivity. Qed.
Lemma erase_mk_kept : forall side s, erase (em side) (mk (km side) s) = s.
Proof. intros [] s; rewrite erase_mk; reflexivity. Qed.
Lemma erase_mk_erased : forall side s, erase (em side) (mk (em side) s) = [].
Proof. intros [] s; rewrite erase_mk; reflexivity. Qed.

Lemma erase_from_to : forall side lay n a b,
  erase (em side) (from_to lay n a b) = tprint lay n (if side then b else a).
Proof.
  intros side lay n a b. unfold from_to. rewrite !erase_app, erase_arrow.
  destruct side; cbn [em]; rewrite !erase_mk; cbn; rewrite ?app_nil_r; reflexivity.
Qed.

Lemma spells_plain : forall side lay n t, tok_ok t = true -> spells side (mk Plain (tprint lay n t)) (ttoks t).
Proof. intros. unfold spells. rewrite erase_mk_plain. apply lex_tprint. assumption. Qed.

Lemma spells_from_to : forall side lay n a b, tok_ok a = true -> tok_ok b = true ->
  spells side (from_to lay n a b) (ttoks (if side then b else a)).
Proof. intros. unfold spells. rewrite erase_from_to. apply lex_tprint. destruct side; assumption. Qed.

(* strings *)
Lemma escape_string_app : forall x y, escape_string (x ++ y) = escape_string x ++ escape_string y.
Proof. intros. unfold escape_string. apply flat_map_app. Qed.

Definition sop_side (side : bool) : sop -> list Z := if side then sop_to else sop_from.

Lemma erase_rstr : forall side ops rs ad,
  erase (em side) (rstr rs ad ops) =
  escape_string ((if side then ad else rs) ++ flat_map (sop_side side) ops).
Proof.
  intros side ops. induction ops as [|o ops IH]; intros rs ad.
  - cbn [rstr flat_map]. rewrite app_nil_r, erase_app.
    destruct side; cbn [em]; rewrite !erase_mk; cbn; rewrite ?app_nil_r; reflexivity.
  - destruct o as [c|c d|c|d]; cbn [rstr flat_map].
    + rewrite !erase_app, IH, erase_mk_plain.
      destruct side; cbn [em sop_side sop_to sop_from app]; rewrite !erase_mk; cbn [keeps snd mark_eqb negb andb app];
        rewrite !escape_string_app; unfold escape_string at 2; cbn [flat_map]; rewrite ?app_nil_r; reflexivity.
    + rewrite IH. destruct side; cbn [sop_side sop_to sop_from]; rewrite <- app_assoc; reflexivity.
    + rewrite !erase_app, IH.
      destruct side; cbn [em sop_side sop_to sop_from app]; rewrite !erase_mk; cbn [keeps snd mark_eqb negb andb app];
        rewrite ?escape_string_app; rewrite ?app_nil_r; reflexivity.
    + rewrite !erase_app, IH.
      destruct side; cbn [em sop_side sop_to sop_from app]; rewrite !erase_mk; cbn [keeps snd mark_eqb negb andb app];
        rewrite ?escape_string_app; rewrite ?app_nil_r; reflexivity.
Qed.

Lemma erase_rstredit : forall side ops,
  erase (em side) (rstredit ops) = jstring (flat_map (sop_side side) ops).
Proof.
  intros side ops. unfold rstredit, jstring.
  change ((34, Plain) :: rstr [] [] ops ++ [(34, Plain)]) with (mk Plain [34] ++ rstr [] [] ops ++ mk Plain [34]).
  rewrite !erase_app, !erase_mk_plain, erase_rstr. destruct side; reflexivity.
Qed.

