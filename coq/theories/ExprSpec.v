(* C19 - match expressions cannot reach private attributes.
   Data types of the expression machine (tokens, abstract values, events), of a correspondence
   *case* (RPN produced by the real parser + tripwired environment + what the real evaluator was
   observed to do) and the executable statement of the property on the observation, holds_C19.
   Hand-written; independent of everything translated from /repo. *)
From Coq Require Import String List Bool ZArith Ascii.
Require Import GT.PyBase.
Import ListNotations.
Open Scope string_scope.

(* ------------------------------------------------------------------ abstract value universe *)
Inductive val :=
| VInt (z : Z)
| VFloat (repr : string)                 (* floats are carried by their repr; arithmetic on them is not modelled *)
| VStr (s : string)
| VBool (b : bool)
| VNone
| VList (l : list val)
| VTuple (l : list val)
| VDict (kvs : list (val * val))
| VObj (id : nat)                        (* an environment object: attributes live in the heap *)
| VBuiltin (name : string)               (* the built-in bound to a whitelisted global name *)
| VBoundMethod (self : val) (name : string)   (* attribute `name` of a built-in-typed value (usually a bound method) *)
| VOpaque                                (* result of a summarised built-in on clean arguments: some value we do not compute *)
| VForeign.                              (* anything else the environment may contain: Python functions, generators, frames... *)

(* ------------------------------------------------------------------ RPN tokens (a superset of what the parser emits) *)
Inductive coll_kind := CTuple | CList.
Inductive token :=
| TInt (z : Z)
| TFloat (repr : string)
| TStr (s : string)
| TId (name : string)
| TColl (size : nat) (k : coll_kind)      (* FixedSizeCollection *)
| TOp (name : string)                     (* OperatorToken, by Operator enum member name *)
| TOther.                                 (* any other Token subclass (Comma, parentheses, CloseBracket) *)

(* what an operator's `execute` lambda does (the translator maps each lambda body to one of these) *)
Inductive unop := UId (* lambda a: a *) | UPos | UNeg | UInvert | UNot.
Inductive binop := BMul | BDiv | BFloorDiv | BMod | BAdd | BSub | BLShift | BRShift | BBitAnd | BBitXor | BBitOr.
Inductive cmpop := CIn | CLt | CGt | CLe | CGe | CEq | CNe.
Inductive opsem :=
| SMember                 (* get_member(a, b) *)
| SGetitem                (* a[b] *)
| SCall                   (* a( *b ) *)
| SUn (u : unop)
| SBin (b : binop)
| SCmp (c : cmpop)
| SAnd | SOr              (* a and b / a or b -- on already evaluated operands *)
| SPair                   (* (a, b) *)
| STernary.               (* b[bool(a)] *)
Record opdef := { op_name : string; op_token : string; op_priority : Z; op_left : bool; op_arity : nat;
                  op_global : bool; op_expand : list bool; op_params : nat; op_sem : opsem }.

(* ------------------------------------------------------------------ events *)
Inductive origin := ByMember      (* getattr performed by get_member for a member-access operator *)
                  | ByOffset      (* the fixed-name read `member.offset` in get_member's error path *)
                  | ByFormat.     (* getattr performed inside str.format / str.format_map for a replacement field *)
Inductive event :=
| ReadAttr (o : origin) (v : val) (name : string)
| Resolve (name : string)               (* an identifier was resolved (found in locals or globals) *)
| Call (f : val) (args : list val)
| ReadAny.                              (* control reached code outside the model that can read any attribute *)

(* ------------------------------------------------------------------ environment *)
Definition heap := list (nat * list (string * val)).    (* object id -> its attributes, public and private *)
Definition env := list (string * val).                  (* locals *)

Inductive item := ITok (t : token) | IVal (v : val).    (* the evaluator's stack holds unexpanded tokens and values *)

(* ------------------------------------------------------------------ a correspondence case *)
Inductive obs := ObsVal (v : val) | ObsTok (t : token) | ObsExc (cls : string).
Record case := {
  c_rpn : list token;              (* Expression.tokens as produced by graphtage.expressions.parse *)
  c_heap : heap;                   (* the tripwired objects the harness built, with ALL planted attributes *)
  c_locals : env;
  c_reads : list (nat * string);   (* planted attributes the tripwires saw being read, in order: (object id, name) *)
  c_resolved : list string;        (* identifier names get_value resolved successfully, in order *)
  c_out : obs }.                   (* value (serialised into the value universe) or exception class *)

(* ------------------------------------------------------------------ the property, on the observation *)
Definition is_private (name : string) : bool := String.prefix "_" name.

(* the whitelist as DOCUMENTED in the module docstring of graphtage/expressions.py *)
Definition documented_whitelist : list string :=
  ["abs"; "all"; "any"; "ascii"; "bin"; "bool"; "bytearray"; "bytes"; "chr"; "complex"; "dict"; "enumerate";
   "filter"; "float"; "frozenset"; "hash"; "hex"; "id"; "int"; "iter"; "len"; "list"; "map"; "max"; "min";
   "oct"; "ord"; "round"; "set"; "slice"; "sorted"; "str"; "sum"; "tuple"; "zip"].

Definition mem_str (s : string) (l : list string) : bool := existsb (String.eqb s) l.
Definition dom {B} (e : list (string * B)) : list string := map fst e.

Definition holds_C19 (c : case) : bool :=
  forallb (fun r => negb (is_private (snd r))) (c_reads c) &&
  forallb (fun n => mem_str n (dom (c_locals c)) || mem_str n documented_whitelist) (c_resolved c).

(* ------------------------------------------------------------------ classes of the known findings *)
Fixpoint idents (rpn : list token) : list string :=
  match rpn with [] => [] | TId n :: r => n :: idents r | _ :: r => idents r end.

(* D12: the names of the built-in methods that read attributes named by data (see ExprModel.fmt_methods) *)
Definition format_names : list string := ["format"; "format_map"].
Definition mentions_format (rpn : list token) : bool := existsb (fun n => mem_str n format_names) (idents rpn).
Definition kf_format_reads_private (c : case) : bool :=
  mentions_format (c_rpn c) && existsb (fun r => is_private (snd r)) (c_reads c).

(* D20: public attributes of Python generators / frames / code objects / coroutines / tracebacks *)
Definition frame_names : list string :=
  ["gi_frame"; "gi_code"; "gi_yieldfrom"; "f_builtins"; "f_globals"; "f_locals"; "f_back"; "f_code";
   "cr_frame"; "cr_code"; "ag_frame"; "ag_code"; "tb_frame"; "tb_next"; "co_consts"; "co_names"].
Definition mentions_frame (rpn : list token) : bool := existsb (fun n => mem_str n frame_names) (idents rpn).
Definition kf_frame_escape (c : case) : bool :=
  mentions_frame (c_rpn c) && existsb (fun r => is_private (snd r)) (c_reads c).
