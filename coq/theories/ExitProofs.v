(* C02, command-line half: the exit status.
   graphtage.__main__ returns 1 iff `had_edits`, which (in --only-edits mode literally, in the other modes through the same
   has_non_zero_cost() test applied to the edits attached to the diffed tree) is
       any(edit.has_non_zero_cost() for edit in from_tree.get_all_edits(to_tree)).
   get_all_edits is the flat view of the script (ScriptSpec.flat_costs: the leaves of the nested script whose cost is not 0).
   Here: for every script the model produces - in fact for every additive, priced script - that flag is set exactly when the
   total cost is positive; together with C02_partial it is set exactly when the documents differ as data (outside the two
   open finding classes).  Proofs only. *)
From Coq Require Import ZArith List Bool Lia.
Require Import GT.Data GT.ScriptSpec GT.ScriptModel GT.EqualSpec GT.CostProofs GT.EqualProofs.
Import ListNotations.
Open Scope Z_scope.

Definition had_edits (e : edit) : bool := match flat_costs e with [] => false | _ :: _ => true end.
Definition exit_status (e : edit) : Z := if had_edits e then 1 else 0.

Lemma nz_pos : forall c, 0 <= c -> Forall (fun x => 0 < x) (nz c).
Proof.
  intros c Hc. unfold nz. destruct (Z.eqb_spec c 0) as [E|E]; [constructor|].
  constructor; [lia|constructor].
Qed.

Lemma pen_of_nonneg : forall k a b, 0 <= pen_of k a b.
Proof. intros k a b. unfold pen_of. destruct k; try lia. destruct (_ && _); lia. Qed.

(* every edit that get_all_edits lists has a positive cost *)
Theorem flat_costs_pos : forall e a b, priced a b e = true -> Forall (fun c => 0 < c) (flat_costs e).
Proof.
  apply (edit_rect' (fun e => forall a b, priced a b e = true -> Forall (fun c => 0 < c) (flat_costs e))).
  - intros c a b H. cbn in H. apply andb_prop in H as [H _]. apply Z.leb_le in H. apply nz_pos; exact H.
  - intros c a b H. cbn in H. apply Z.ltb_lt in H. apply nz_pos; lia.
  - intros c ops a b H. cbn in H. apply Z.ltb_lt in H. apply nz_pos; lia.
  - intros k c subs IH a b H. cbn [flat_costs]. cbn [priced] in H.
    induction subs as [|s ss IHs]; [constructor|].
    inversion IH as [|? ? IHhd IHtl]; subst.
    destruct s as [i j e|i c'|j c'].
    + destruct (nth_error (children a) i) as [x|]; [|discriminate].
      destruct (nth_error (children b) j) as [y|]; [|discriminate].
      apply andb_prop in H as [H1 H2]. apply Forall_app. split; [exact (IHhd x y H1)|exact (IHs IHtl H2)].
    + destruct (nth_error (children a) i) as [x|]; [|discriminate].
      apply andb_prop in H as [H1 H2]. apply Z.leb_le in H1.
      pose proof (EqualSpec.size_nonneg x). pose proof (pen_of_nonneg k a b).
      apply Forall_app. split; [apply nz_pos; lia|exact (IHs IHtl H2)].
    + destruct (nth_error (children b) j) as [y|]; [|discriminate].
      apply andb_prop in H as [H1 H2]. apply Z.leb_le in H1.
      pose proof (EqualSpec.size_nonneg y). pose proof (pen_of_nonneg k a b).
      apply Forall_app. split; [apply nz_pos; lia|exact (IHs IHtl H2)].
Qed.

Lemma zsum_pos : forall l, Forall (fun c => 0 < c) l -> l <> [] -> 0 < zsum l.
Proof.
  intros l H Hn. destruct l as [|x xs]; [congruence|]. inversion H as [|? ? Hx Hxs]; subst. cbn beta in Hx.
  assert (Hs : 0 <= zsum xs).
  { apply zsum_nonneg'. eapply Forall_impl; [|exact Hxs]. intros c Hc. cbn beta in *. lia. }
  change (0 < x + zsum xs). lia.
Qed.

(* for every additive, priced script: the flag is set exactly when the total cost is positive *)
Theorem had_edits_spec : forall a b e, priced a b e = true -> additive e = true ->
  0 <= cost e /\ (had_edits e = true <-> 0 < cost e) /\ (had_edits e = false <-> cost e = 0).
Proof.
  intros a b e Hp Ha. pose proof (flat_costs_pos e a b Hp) as Hpos. pose proof (flat_view_total e Ha) as Hsum.
  unfold had_edits. destruct (flat_costs e) as [|x xs] eqn:E.
  - cbn in Hsum. repeat split; intros; try lia; try discriminate; reflexivity.
  - assert (0 < zsum (x :: xs)) by (apply zsum_pos; [exact Hpos|discriminate]).
    repeat split; intros; try lia; try discriminate; reflexivity.
Qed.

(* ... hence for every script of the model *)
Theorem exit_status_cost : forall O pa pb a b e, wf a = true -> wf b = true -> script O pa pb a b = OK e ->
  (exit_status e = 0 <-> cost e = 0) /\ (exit_status e = 1 <-> 0 < cost e).
Proof.
  intros O pa pb a b e Wa Wb H.
  pose proof (script_priced a O pa pb b e Wa Wb H) as Hp. pose proof (script_additive a O pa pb b e H) as Ha.
  destruct (had_edits_spec a b e Hp Ha) as [H0 [H1 H2]]. unfold exit_status.
  destruct (had_edits e).
  - assert (Hpos : 0 < cost e) by (apply H1; reflexivity).
    split; split; intro X; try discriminate; try lia; try reflexivity.
  - assert (Hz : cost e = 0) by (apply H2; reflexivity).
    split; split; intro X; try discriminate; try lia; try reflexivity.
Qed.

(* ... and, where C02's equivalence is proved (outside the open finding classes D4 and D16), the command exits 0 exactly on
   documents that are equal as data *)
Theorem exit_status_equal : forall O pa pb a b e,
  wf a = true -> wf b = true -> numtext_ok a = true -> numtext_ok b = true -> consistent a b = true ->
  typed a b = true -> nozero a = true -> nozero b = true ->
  script O pa pb a b = OK e -> (exit_status e = 0 <-> data_eqb a b = true) /\ (exit_status e = 1 <-> data_eqb a b = false).
Proof.
  intros O pa pb a b e Wa Wb Na Nb Hc Ht Za Zb H.
  destruct (exit_status_cost O pa pb a b e Wa Wb H) as [E0 E1].
  pose proof (script_zero_iff O pa pb a b e Wa Wb Na Nb Hc Ht Za Zb H) as Hz.
  assert (Hd : exit_status e = 0 \/ exit_status e = 1) by (unfold exit_status; destruct (had_edits e); auto).
  split; split; intro X.
  - apply Hz, E0, X.
  - apply E0, Hz, X.
  - destruct (data_eqb a b) eqn:D; [|reflexivity]. assert (cost e = 0) by (apply Hz; reflexivity). apply E1 in X. lia.
  - destruct Hd as [Hd|Hd]; [|exact Hd]. assert (data_eqb a b = true) by (apply Hz, E0, Hd). congruence.
Qed.

(* the expression EqualSpec.cli_exit_ok compares the OBSERVED exit status of the command with *)
Theorem exit_status_cli : forall O pa pb a b e, wf a = true -> wf b = true -> script O pa pb a b = OK e ->
  exit_status e = (if cost e =? 0 then 0 else 1).
Proof.
  intros O pa pb a b e Wa Wb H. destruct (exit_status_cost O pa pb a b e Wa Wb H) as [E0 E1].
  destruct (Z.eqb_spec (cost e) 0) as [E|E]; [apply E0; exact E|].
  pose proof (script_priced a O pa pb b e Wa Wb H) as Hp. pose proof (script_additive a O pa pb b e H) as Ha.
  destruct (had_edits_spec a b e Hp Ha) as [H0 _]. apply E1. lia.
Qed.

(* non-vacuity: a script with a zero-cost and a positive-cost part *)
Example exit_example :
  had_edits (EComp KFixedLen 3 [SPair 0 0 (EMatch 0); SPair 1 1 (EMatch 3)]) = true /\
  had_edits (EComp KFixedLen 0 [SPair 0 0 (EMatch 0)]) = false.
Proof. split; reflexivity. Qed.
