(* C04, the budget guard of FixedKeyDictNodeEdit (EditCollection): when does  a.edits(b)  lie in the domain of initO?
   initO accepts a FixedKeyDictNodeEdit only if the sum of its children's initial upper bounds is at most its own
   cost_upper_bound  from.total_size + 1 + to.total_size  (otherwise EditCollection.bounds() finds a lower bound above
   cost_upper_bound, sets valid = False and answers Range() = (-inf, +inf)).
   Here: for documents WITHOUT multisets (dictionary strategy none: every mapping is a FixedKeyDictNode)
     guard_all        the initial upper bound of every edit  a.edits(b)  is at most  size a + size b + ex  and initO is total,
                      for (text slack dl of the target's leaves, excess ex) with 0 <= dl <= ex, 1 <= ex <= 4, provided
                        ex <= 2 or every list of the source has the default options, and
                        LeafNode.edits caps the cost of a Match of two leaves (GTgen.EdGen.leaf_match_cost_capped) or no
                        leaf of the target prints more than dl characters longer than its total_size;
     guard_none_capped / docs_none_contract_capped   (ex = 1, the cap): NO condition on the documents - the statement for the
                      current source (repair of defect D41); the flag is a hypothesis discharged in PropC04.v by reflexivity;
     guard_none_nonull, guard_none_default_lists, docs_none_contract   the two document conditions that suffice WITHOUT the
                      cap ((dl, ex) = (0, 1): no null in the target; (4, 4): default list options, null prints "None");
     guard_witness_repaired   the former counter-example {"": ["","","",""]} -> {"": [null,null,null,null]} with
                      allow_list_edits = False (outside both document conditions; before the repair the children cost 16
                      against cost_upper_bound 15 and `graphtage -k -l` raised ValueError) now initialises.
   Mappings under auto/match (MultiSetNodes) stay conditional: a MultiSetEdit's initial upper bound is the sum of the
   largest row maxima of its matcher, which is not bounded by the sizes of the two nodes. *)
From Coq Require Import ZArith List Bool Lia Permutation.
Require Import GT.PyBase GT.Data GT.EdTypes GT.EdEngine GT.EdEngineProofs GT.LevModel GT.LevProofs GTgen.EdGen GT.EdParams
               GT.ScriptSpec GT.ScriptModel GT.ListAux GT.ScriptProofs GT.KeyEq GT.MSetProofs GT.EqualSpec GT.EqualProofs
               GT.MachineSpec GT.MachineGuardSpec GT.MachineModel GT.MachinePlist GT.MachineColl GT.MachineMatch GT.MachineProofs.
Import ListNotations.
Open Scope Z_scope.

(* ---------------------------------------------------------------- levenshtein_distance(s, t) <= max(len s, len t) *)
Lemma lev_col0_nth : forall s i, (i <= length s)%nat -> nth i (lev_col0 s) 0 = Z.of_nat i.
Proof.
  intros s i H. unfold lev_col0. rewrite (nth_map_lt Z.of_nat _ i 0%nat 0) by (rewrite seq_length; lia).
  rewrite seq_nth by lia. reflexivity.
Qed.

Lemma lev_cols_ub : forall s t i, (i <= length s)%nat -> nth i (lev_cols s t) 0 <= Z.max (Z.of_nat i) (zlen t).
Proof.
  intros s t. induction t as [|tc t IH] using rev_ind; intros i Hi.
  - unfold lev_cols. cbn [fold_left]. rewrite lev_col0_nth by exact Hi. unfold zlen. cbn. lia.
  - rewrite lev_cols_snoc. unfold zlen in *. rewrite app_length. cbn [length].
    destruct i as [|i].
    + destruct (lev_next_col_nth0 tc s (lev_cols s t)) as [->|E].
      * specialize (IH 0%nat ltac:(lia)). lia.
      * pose proof (lev_cols_length s t) as L. rewrite E in L. discriminate.
    + rewrite lev_next_col_nthS by (try apply lev_cols_length; lia).
      specialize (IH i ltac:(lia)). destruct (nth i s 0 =? tc); lia.
Qed.

Lemma lev_dp_ub : forall s t, lev_dp s t <= Z.max (zlen s) (zlen t).
Proof.
  intros s t. unfold lev_dp, lev_last_col. change (fold_left _ t (lev_col0 s)) with (lev_cols s t).
  rewrite last_nth, lev_cols_length. replace (S (length s) - 1)%nat with (length s) by lia.
  apply lev_cols_ub. lia.
Qed.

Lemma lev_ub : forall s t, lev s t <= Z.max (zlen s) (zlen t).
Proof.
  intros s t. unfold lev. destruct lev_returns_loop_var_cell; [destruct t|]; try apply lev_dp_ub.
  unfold zlen; cbn; lia.
Qed.

(* the domain predicates no_mset, lists_default, text_slack, no_null, null_as_None are in MachineGuardSpec.v *)
Lemma forallb_impl : forall {A} (f g : A -> bool) l, Forall (fun x => f x = true -> g x = true) l ->
  forallb f l = true -> forallb g l = true.
Proof.
  intros A f g l H. induction H as [|x l Hx _ IH]; cbn; [auto|]. intro E. apply andb_prop in E as [E1 E2].
  rewrite (Hx E1), (IH E2). reflexivity.
Qed.

Lemma no_null_slack : forall t, no_null t = true -> text_slack 0 t = true.
Proof.
  apply (tree_rect' (fun t => no_null t = true -> text_slack 0 t = true)).
  - intros l H. cbn in *. unfold leaf_size. destruct (lk l); try discriminate; apply Z.leb_le; lia.
  - intros ? ? cs IH. cbn. apply forallb_impl. exact IH.
  - intros ? k v Hk Hv H. cbn in *. apply andb_prop in H as [H1 H2]. rewrite Hk, Hv by assumption. reflexivity.
  - intros ? cs IH. cbn. apply forallb_impl. exact IH.
  - intros cs IH. cbn. apply forallb_impl. exact IH.
Qed.

Lemma str_eqb_length : forall a b, str_eqb a b = true -> length a = length b.
Proof.
  induction a as [|x a IH]; intros [|y b] H; cbn in H; try discriminate; [reflexivity|].
  apply andb_prop in H as [_ H]. cbn. f_equal. apply IH. exact H.
Qed.

Lemma null_as_None_slack : forall t, null_as_None t = true -> text_slack 4 t = true.
Proof.
  apply (tree_rect' (fun t => null_as_None t = true -> text_slack 4 t = true)).
  - intros l H. cbn in *. unfold leaf_size. destruct (lk l); try (apply Z.leb_le; unfold zlen; lia).
    apply str_eqb_length in H. apply Z.leb_le. unfold zlen. rewrite H. cbn. lia.
  - intros ? ? cs IH. cbn. apply forallb_impl. exact IH.
  - intros ? k v Hk Hv H. cbn in *. apply andb_prop in H as [H1 H2]. rewrite Hk, Hv by assumption. reflexivity.
  - intros ? cs IH. cbn. apply forallb_impl. exact IH.
  - intros cs IH. cbn. apply forallb_impl. exact IH.
Qed.

(* ---------------------------------------------------------------- helpers *)
Lemma all_some_l_exists : forall {A B} (f : A -> option B) idx, (forall i, In i idx -> exists y, f i = Some y) ->
  exists l, all_some_l (map f idx) = Some l.
Proof.
  intros A B f. induction idx as [|i idx IH]; intro H; [exists []; reflexivity|].
  destruct (H i (or_introl eq_refl)) as [y Hy]. destruct IH as [l Hl]; [intros j Hj; apply H; right; exact Hj|].
  exists (y :: l). cbn [map all_some_l]. rewrite Hy, Hl. reflexivity.
Qed.

Lemma all_some_map_bound : forall {A} (f : A -> option st) (w : A -> Z) idx,
  (forall i, In i idx -> exists s, f i = Some s /\ snd (bndU s) <= w i) ->
  exists l, all_some_l (map f idx) = Some l /\ zsum (map (fun s => snd (bndU s)) l) <= zsum (map w idx).
Proof.
  intros A f w. induction idx as [|i idx IH]; intro H; [exists []; split; [reflexivity|cbn; lia]|].
  destruct (H i (or_introl eq_refl)) as (s & Hs & Bs).
  destruct IH as (l & Hl & Bl); [intros j Hj; apply H; right; exact Hj|].
  exists (s :: l). cbn [map all_some_l]. rewrite Hs, Hl. split; [reflexivity|]. unfold zsum in *. cbn [map fold_right] in *. lia.
Qed.

Lemma mget_init : forall orc cs ds i j, (i < length cs)%nat -> (j < length ds)%nat ->
  mget (map (fun c => map (fun d => initO orc c d) ds) cs) i j = Some (initO orc (nth i cs dummy) (nth j ds dummy)).
Proof.
  intros orc cs ds i j Hi Hj. unfold mget. rewrite nth_error_map, (nth_error_nth_lt cs i dummy Hi). cbn [option_map].
  rewrite nth_error_map, (nth_error_nth_lt ds j dummy Hj). reflexivity.
Qed.

Lemma zsum_map_add_c : forall {A} (f g : A -> Z) c l,
  zsum (map (fun i => f i + g i + c) l) = zsum (map f l) + zsum (map g l) + c * zlen l.
Proof.
  intros A f g c l. unfold zlen, zsum. induction l as [|x l IH]; [cbn; lia|].
  cbn [map fold_right length] in *. rewrite Nat2Z.inj_succ, Z.mul_succ_r. lia.
Qed.

Lemma size_seq : forall cs, zsum (map (fun i => size (nth i cs dummy) + 1) (seq 0 (length cs))) = zsum (map (fun c => size c + 1) cs).
Proof.
  intros cs. rewrite <- (map_map (fun i => nth i cs dummy) (fun c => size c + 1)).
  rewrite EdEngineProofs.map_nth_seq. reflexivity.
Qed.

Lemma ed_init_ub : forall {S} frc fic p q (kids : list (list S)), 0 <= zsum frc + zsum fic ->
  snd (ed_bnd (ed_init frc fic p q kids)) <= zsum frc + zsum fic.
Proof.
  intros S frc fic p q kids H. unfold ed_bnd. cbn [ed_init e_K e_U e_done e_d].
  destruct (_ && _ && _); cbn [snd]; [lia|]. cbn [Nat.leb orb snd]. lia.
Qed.

Lemma coll_init_ub : forall {S} (b : S -> zr) U kids, 0 <= U -> snd (coll_bnd b (coll_init b U kids)) <= U.
Proof.
  intros S b U kids H. unfold coll_init, coll_bnd, coll_bounds at 2. cbn [k_valid negb k_cost k_U k_pend coll_total k_subs map zsum fold_right fst snd].
  assert (E : (U <? 0) = false) by (apply Z.ltb_ge; lia). rewrite E. cbn [fst].
  unfold coll_bounds. cbn [k_valid negb k_cost k_U k_pend coll_total k_subs map zsum fold_right fst snd]. rewrite E. cbn [snd]. lia.
Qed.

Lemma rfp_eq : forall n m, remove_from_pos n m = Nat.min m n.
Proof. intros. unfold remove_from_pos, py_slice_start, to_remove_start. destruct (_ <? 0) eqn:E; lia. Qed.
Lemma ifp_eq : forall n m, insert_from_pos n m = Nat.min n m.
Proof. intros. unfold insert_from_pos, py_slice_start, to_insert_start. destruct (_ <? 0) eqn:E; lia. Qed.

Lemma seq_split_sum : forall (g : nat -> Z) n k, (k <= n)%nat ->
  zsum (map g (seq 0 n)) = zsum (map g (seq 0 k)) + zsum (map g (seq k (n - k))).
Proof. intros g n k H. replace n with (k + (n - k))%nat at 1 by lia. rewrite seq_app, map_app, zsum_app. reflexivity. Qed.

Lemma zsum_ones : forall (s : str), zsum (map (fun _ => 1) s) = zlen s.
Proof. intro s. unfold zlen, zsum. induction s as [|c s IH]; [reflexivity|]. cbn [map fold_right length]. rewrite Nat2Z.inj_succ. lia. Qed.

Lemma forallb_In : forall {A} (f : A -> bool) l x, forallb f l = true -> In x l -> f x = true.
Proof. intros A f l x H Hx. rewrite forallb_forall in H. auto. Qed.

Lemma leaf_size_nonneg : forall x, 0 <= leaf_size x.
Proof. intro x. unfold leaf_size, zlen. destruct (lk x); lia. Qed.

Lemma str_state_ub : forall s t, snd (bndU (str_state s t)) <= zlen s + zlen t.
Proof.
  intros s t. unfold str_state. destruct (trim Z.eqb s t) as [p q]. cbn [bndU].
  eapply Z.le_trans; [apply ed_init_ub|]; rewrite !zsum_ones; unfold zlen; lia.
Qed.

(* the only non-constant edit between a leaf and anything is the StringEdit of two strings *)
Lemma leaf_nonconst : forall x b, const_of (Leaf x) b = None -> exists y, b = Leaf y /\ lk x = KStr /\ lk y = KStr.
Proof.
  intros x b H. cbn [const_of] in H. unfold leaf_script in H.
  destruct b as [y| | | |]; [|destruct (lk x); discriminate..].
  destruct (lk x) eqn:Kx; try discriminate.
  - destruct (lk y) eqn:Ky; try discriminate. eauto.
  - destruct (lk y); discriminate.
Qed.

Section Guard.
Variable orc : MachineModel.oracle.
Variables dl ex : Z.
Hypothesis Hdl : 0 <= dl <= ex.
Hypothesis Hex : 1 <= ex <= 4.

Definition okA (a : tree) : Prop := wf a = true /\ no_mset a = true /\ (ex <= 2 \/ lists_default a = true).
(* the text condition on the target is needed only if LeafNode.edits does not cap the cost of a Match of two leaves by the
   cost of replacing one with the other (GTgen.EdGen.leaf_match_cost_capped, read off the source on every run) *)
Definition tsl (b : tree) : Prop := leaf_match_cost_capped = true \/ text_slack dl b = true.
Definition okB (b : tree) : Prop := wf b = true /\ no_mset b = true /\ tsl b.

(* a key/value pair edit between pairs with equal keys stays 4 below the general bound *)
Definition slackK (a b : tree) : Z :=
  match a, b with Kvp _ k _, Kvp _ k' _ => if node_eqb k k' then 4 else 0 | _, _ => 0 end.
Lemma slackK_nonneg : forall a b, 0 <= slackK a b.
Proof. intros [ | | ? k ? | | ] [ | | ? k' ? | | ]; cbn; try lia. destruct (node_eqb k k'); lia. Qed.

Definition PG (a : tree) : Prop := forall b, okA a -> okB b -> is_kvp a = is_kvp b ->
  exists s, initO orc a b = Some s /\ snd (bndU s) <= size a + size b + ex - slackK a b.

Lemma okA_lst : forall ale alsl cs c, okA (Lst ale alsl cs) -> In c cs -> okA c /\ is_kvp c = false.
Proof.
  intros ale alsl cs c (W & N & L) Hc. cbn in W, N.
  pose proof (forallb_In _ _ _ W Hc) as W1. apply andb_prop in W1 as [K W1]. apply negb_true_iff in K.
  split; [|exact K]. split; [exact W1|]. split; [apply (forallb_In _ _ _ N Hc)|].
  destruct L as [L|L]; [left; exact L|right]. cbn in L. apply andb_prop in L as [_ L]. apply (forallb_In _ _ _ L Hc).
Qed.
Lemma okB_lst : forall ale alsl ds d, okB (Lst ale alsl ds) -> In d ds -> okB d /\ is_kvp d = false.
Proof.
  intros ale alsl ds d (W & N & T) Hd. cbn in W, N. unfold tsl in T. cbn [text_slack] in T.
  pose proof (forallb_In _ _ _ W Hd) as W1. apply andb_prop in W1 as [K W1]. apply negb_true_iff in K.
  split; [|exact K]. split; [exact W1|]. split; [apply (forallb_In _ _ _ N Hd)|].
  destruct T as [T|T]; [left; exact T|right; apply (forallb_In _ _ _ T Hd)].
Qed.
Lemma okA_fd : forall cs c, okA (FDict cs) -> In c cs -> okA c /\ is_kvp c = true.
Proof.
  intros cs c (W & N & L) Hc. cbn in W, N. apply andb_prop in W as [W _].
  pose proof (forallb_In _ _ _ W Hc) as W1. apply andb_prop in W1 as [K W1].
  split; [|exact K]. split; [exact W1|]. split; [apply (forallb_In _ _ _ N Hc)|].
  destruct L as [L|L]; [left; exact L|right]. cbn in L. apply (forallb_In _ _ _ L Hc).
Qed.
Lemma okB_fd : forall ds d, okB (FDict ds) -> In d ds -> okB d /\ is_kvp d = true.
Proof.
  intros ds d (W & N & T) Hd. cbn in W, N. unfold tsl in T. cbn [text_slack] in T. apply andb_prop in W as [W _].
  pose proof (forallb_In _ _ _ W Hd) as W1. apply andb_prop in W1 as [K W1].
  split; [|exact K]. split; [exact W1|]. split; [apply (forallb_In _ _ _ N Hd)|].
  destruct T as [T|T]; [left; exact T|right; apply (forallb_In _ _ _ T Hd)].
Qed.
Lemma okA_kvp : forall ake k v, okA (Kvp ake k v) -> okA k /\ okA v /\ is_kvp k = false /\ is_kvp v = false.
Proof.
  intros ake k v (W & N & L). cbn in W, N.
  apply andb_prop in W as [W Wv]. apply andb_prop in W as [W Kv]. apply andb_prop in W as [Lk Wk].
  apply andb_prop in N as [Nk Nv]. apply negb_true_iff in Kv.
  assert (Kk : is_kvp k = false) by (destruct k; try discriminate; reflexivity).
  repeat split; auto; (destruct L as [L|L]; [left; exact L|right]; cbn in L; apply andb_prop in L as [L1 L2]; assumption).
Qed.
Lemma okB_kvp : forall ake k v, okB (Kvp ake k v) -> okB k /\ okB v /\ is_kvp k = false /\ is_kvp v = false.
Proof.
  intros ake k v (W & N & T). cbn in W, N. unfold tsl in T. cbn [text_slack] in T.
  apply andb_prop in W as [W Wv]. apply andb_prop in W as [W Kv]. apply andb_prop in W as [Lk Wk].
  apply andb_prop in N as [Nk Nv]. apply negb_true_iff in Kv.
  assert (Kk : is_kvp k = false) by (destruct k; try discriminate; reflexivity).
  assert (Tk : tsl k /\ tsl v).
  { destruct T as [T|T]; [split; left; exact T|]. apply andb_prop in T as [T1 T2]. split; right; assumption. }
  destruct Tk as [Tk Tv]. repeat split; auto.
Qed.

Lemma lmc_ub : forall x y, lk x <> KNull -> (leaf_match_cost_capped = true \/ zlen (ltext y) <= leaf_size y + dl) ->
  leaf_match_cost x y <= leaf_size x + leaf_size y + ex.
Proof.
  intros x y Nx [Hc|Hy].
  - pose proof (leaf_cap_le_replace x y (leaf_match_cost_raw x y) Hc). unfold leaf_match_cost.
    pose proof (leaf_size_nonneg x). pose proof (leaf_size_nonneg y). lia.
  - unfold leaf_match_cost. pose proof (lev_ub (ltext x) (ltext y)).
    assert (zlen (ltext x) = leaf_size x) by (unfold leaf_size; destruct (lk x); congruence).
    pose proof (leaf_size_nonneg x). pose proof (leaf_size_nonneg y). pose proof (lev_nonneg (ltext x) (ltext y)).
    assert (R : 0 <= leaf_match_cost_raw x y <= leaf_size x + leaf_size y + ex)
      by (unfold leaf_match_cost_raw; destruct (_ && _ && _); lia).
    pose proof (leaf_cap_spec x y _ (proj1 R)). lia.
Qed.

Lemma const_ub : forall a b c, tsl b -> const_of a b = Some c ->
  c <= size a + size b + ex - slackK a b.
Proof.
  intros a b c Hb H. pose proof (size_nonneg a) as Sa. pose proof (size_nonneg b) as Sb.
  assert (R : replace_cost a b <= size a + size b + ex) by (unfold replace_cost, replace_cost_gen; lia).
  destruct a as [x|ale alsl cs|ake k v|amk cs|cs]; cbn [const_of] in H.
  - cbn [slackK]. unfold leaf_script in H.
    destruct b as [y| | | |]; [|destruct (lk x); injection H as <-; lia..].
    assert (Hb' : leaf_match_cost_capped = true \/ zlen (ltext y) <= leaf_size y + dl).
    { destruct Hb as [Hb|Hb]; [left; exact Hb|right]. cbn [text_slack] in Hb. apply Z.leb_le in Hb. exact Hb. }
    clear Hb. rename Hb' into Hb. cbn [size] in *.
    pose proof (leaf_size_nonneg x). pose proof (leaf_size_nonneg y).
    destruct (lk x) eqn:Kx.
    + injection H as <-. pose proof (lmc_ub x y ltac:(congruence) Hb). lia.
    + injection H as <-. pose proof (lmc_ub x y ltac:(congruence) Hb). lia.
    + injection H as <-. pose proof (lmc_ub x y ltac:(congruence) Hb). lia.
    + destruct (lk y) eqn:Ky; try (injection H as <-; pose proof (lmc_ub x y ltac:(congruence) Hb); lia).
      destruct (str_eqb _ _); [injection H as <-; lia|].
      destruct (_ && _); [injection H as <-; lia|]. destruct (str_script _ _). discriminate.
    + destruct (lk y); injection H as <-; lia.
  - cbn [slackK]. destruct (list_dispatch _ _); try discriminate; injection H as <-; lia.
  - destruct b as [y| |ake' k' v'| |]; try discriminate.
    destruct (ake || node_eqb k k') eqn:E; [discriminate|]. apply orb_false_iff in E as [_ E].
    cbn [slackK]. rewrite E. injection H as <-. lia.
  - cbn [slackK]. destruct b as [y| | |amk' ds|]; try discriminate; try (injection H as <-; lia).
    destruct (_ || _); [injection H as <-; lia|discriminate].
  - cbn [slackK]. destruct b as [y| | | |ds]; try discriminate; try (injection H as <-; lia).
    destruct (_ || _); [injection H as <-; lia|discriminate].
Qed.

(* ---------------------------------------------------------------- lists *)
Lemma guard_list_fixed : forall ale alsl cs ale' alsl' ds, Forall PG cs ->
  okA (Lst ale alsl cs) -> okB (Lst ale' alsl' ds) -> (ex <= 2 \/ (length cs = 1 /\ length ds = 1)%nat) ->
  exists s,
  (let M := map (fun c => map (fun d => initO orc c d) ds) cs in
   let n := length cs in
   let m := length ds in
   let pairs := map (fun i => match mget M i i with Some (Some s) => Some s | _ => None end) (seq 0 (Nat.min n m)) in
   let extra :=
       (if Nat.ltb m n
        then zsum (map (fun i => remove_cost (nth i cs dummy) 1) (seq (remove_from_pos n m) (n - remove_from_pos n m)))
        else 0) +
       (if Nat.ltb n m
        then zsum (map (fun j => insert_cost (nth j ds dummy) 1) (seq (insert_from_pos n m) (m - insert_from_pos n m)))
        else 0) in
   match all_some_l pairs with
   | Some l => Some (SFixed l extra)
   | None => None
   end) = Some s /\ snd (bndU s) <= size (Lst ale alsl cs) + size (Lst ale' alsl' ds) + ex.
Proof.
  intros ale alsl cs ale' alsl' ds IH HA HB Hk. cbn zeta.
  destruct (all_some_map_bound
              (fun i => match mget (map (fun c => map (fun d => initO orc c d) ds) cs) i i with Some (Some s) => Some s | _ => None end)
              (fun i => (size (nth i cs dummy) + 1) + (size (nth i ds dummy) + 1) + (ex - 2))
              (seq 0 (Nat.min (length cs) (length ds)))) as (l & El & Bl).
  { intros i Hi. apply in_seq in Hi. rewrite mget_init by lia.
    assert (Hc : In (nth i cs dummy) cs) by (apply nth_In; lia).
    assert (Hd : In (nth i ds dummy) ds) by (apply nth_In; lia).
    destruct (okA_lst _ _ _ _ HA Hc) as [A1 K1]. destruct (okB_lst _ _ _ _ HB Hd) as [B1 K2].
    rewrite Forall_forall in IH. destruct (IH _ Hc (nth i ds dummy) A1 B1 ltac:(congruence)) as (s & Es & Bs).
    exists s. rewrite Es. split; [reflexivity|]. pose proof (slackK_nonneg (nth i cs dummy) (nth i ds dummy)). lia. }
  rewrite El. eexists. split; [reflexivity|].
  cbn [bndU snd]. rewrite zr_sum_snd, map_map. rewrite rfp_eq, ifp_eq.
  rewrite zsum_map_add_c in Bl. unfold zlen in Bl. rewrite seq_length in Bl.
  cbn [size]. rewrite <- (size_seq cs), <- (size_seq ds).
  set (k := Nat.min (length cs) (length ds)) in *.
  rewrite (seq_split_sum (fun i => size (nth i cs dummy) + 1) (length cs) k) by lia.
  rewrite (seq_split_sum (fun i => size (nth i ds dummy) + 1) (length ds) k) by lia.
  change (fun i => remove_cost (nth i cs dummy) 1) with (fun i => size (nth i cs dummy) + 1).
  change (fun j => insert_cost (nth j ds dummy) 1) with (fun j => size (nth j ds dummy) + 1).
  assert (Kx : (ex - 2) * Z.of_nat k <= ex).
  { destruct Hk as [Hk|[H1 H2]]; [nia|]. unfold k. rewrite H1, H2. cbn. lia. }
  assert (Z1 : forall (g : nat -> Z) j, zsum (map g (seq j 0)) = 0) by reflexivity.
  destruct (Nat.ltb (length ds) (length cs)) eqn:E1; [apply Nat.ltb_lt in E1|apply Nat.ltb_ge in E1];
    (destruct (Nat.ltb (length cs) (length ds)) eqn:E2; [apply Nat.ltb_lt in E2|apply Nat.ltb_ge in E2]); try lia.
  - replace (Nat.min (length ds) (length cs)) with k by lia.
    replace (length ds - k)%nat with O by lia. rewrite Z1. lia.
  - replace (Nat.min (length cs) (length ds)) with k by lia.
    replace (length cs - k)%nat with O by lia. rewrite Z1. lia.
  - replace (length cs - k)%nat with O by lia. replace (length ds - k)%nat with O by lia. rewrite !Z1. lia.
Qed.

Lemma guard_list_ed : forall ale alsl cs ale' alsl' ds pen, Forall PG cs ->
  okA (Lst ale alsl cs) -> okB (Lst ale' alsl' ds) -> 0 <= pen <= 1 ->
  exists s,
  (let M := map (fun c => map (fun d => initO orc c d) ds) cs in
   let '(p, q) := trim node_eqb cs ds in
   let nc := length (middle p q cs) in
   let nr := length (middle p q ds) in
   let kids := map (fun r => all_some_l (map (fun c => match mget M (p + c) (p + r) with
                                                       | Some (Some s) => Some s | _ => None end)
                                             (seq 0 nc))) (seq 0 nr) in
   match all_some_l kids with
   | Some ks => Some (SED (ed_init (map (fun c => remove_cost c pen) cs) (map (fun d => insert_cost d pen) ds) p q ks))
   | None => None
   end) = Some s /\ snd (bndU s) <= size (Lst ale alsl cs) + size (Lst ale' alsl' ds) + ex.
Proof.
  intros ale alsl cs ale' alsl' ds pen IH HA HB Hp. cbn zeta.
  destruct (trim node_eqb cs ds) as [p q] eqn:Et.
  destruct (trim_bounds node_eqb cs ds p q Et) as (_ & _ & B1 & B2).
  pose proof (middle_length p q cs B1) as Lc. pose proof (middle_length p q ds B2) as Lr.
  match goal with |- context [all_some_l (map ?f ?idx)] =>
    destruct (all_some_l_exists f idx) as [ks Eks] end.
  { intros r Hr. apply in_seq in Hr. apply all_some_l_exists. intros c Hc. apply in_seq in Hc.
    rewrite mget_init by lia.
    assert (Hc' : In (nth (p + c) cs dummy) cs) by (apply nth_In; lia).
    assert (Hd' : In (nth (p + r) ds dummy) ds) by (apply nth_In; lia).
    destruct (okA_lst _ _ _ _ HA Hc') as [A1 K1]. destruct (okB_lst _ _ _ _ HB Hd') as [B1' K2].
    rewrite Forall_forall in IH. destruct (IH _ Hc' _ A1 B1' ltac:(congruence)) as (s & Es & _).
    exists s. rewrite Es. reflexivity. }
  rewrite Eks. eexists. split; [reflexivity|]. cbn [bndU size].
  assert (Ra : zsum (map (fun c => remove_cost c pen) cs) <= zsum (map (fun c => size c + 1) cs)).
  { apply zsum_map_le. intros x _. rewrite remove_cost_eq. lia. }
  assert (Rb : zsum (map (fun d => insert_cost d pen) ds) <= zsum (map (fun c => size c + 1) ds)).
  { apply zsum_map_le. intros x _. rewrite insert_cost_eq. lia. }
  assert (Na : 0 <= zsum (map (fun c => remove_cost c pen) cs)).
  { apply zsum_map_nonneg. intro x. rewrite remove_cost_eq. pose proof (size_nonneg x). lia. }
  assert (Nb : 0 <= zsum (map (fun d => insert_cost d pen) ds)).
  { apply zsum_map_nonneg. intro x. rewrite insert_cost_eq. pose proof (size_nonneg x). lia. }
  eapply Z.le_trans; [apply ed_init_ub; lia|]. lia.
Qed.

(* ---------------------------------------------------------------- FixedKeyDictNodes: the guard passes *)
Lemma guard_fdict : forall cs ds, Forall PG cs -> okA (FDict cs) -> okB (FDict ds) ->
  exists s,
  (let a := FDict cs in let b := FDict ds in
   let M := map (fun c => map (fun d => initO orc c d) ds) cs in
   let partner := fun c => find_index (fun d => node_eqb (kvp_key c) (kvp_key d)) ds 0 in
   let shared := flat_map (fun i => match partner (nth i cs dummy) with Some j => [(i, j)] | None => [] end)
                          (seq 0 (length cs)) in
   let unshared := filter (fun i => match partner (nth i cs dummy) with Some _ => false | None => true end)
                          (seq 0 (length cs)) in
   let inserted := filter (fun j => negb (existsb (fun c => node_eqb (kvp_key c) (kvp_key (nth j ds dummy))) cs))
                          (seq 0 (length ds)) in
   let get := fun (ij : nat * nat) =>
       if node_eqb (nth (fst ij) cs dummy) (nth (snd ij) ds dummy) then Some (SConst 0)
       else match mget M (fst ij) (snd ij) with Some (Some s) => Some s | _ => None end in
   if fixed_dict_removals_in_hash_order || negb (forallb is_kvp cs && forallb is_kvp ds) then None
   else
     match all_some_l (map get shared) with
     | Some sh =>
         let kids := sh ++ map (fun i => SConst (remove_cost (nth i cs dummy) 1)) unshared
                        ++ map (fun j => SConst (insert_cost (nth j ds dummy) 1)) inserted in
         let U := size a + 1 + size b in
         if zsum (map (fun s => snd (bndU s)) kids) <=? U then Some (SColl (coll_init bndU U kids)) else None
     | None => None
     end) = Some s /\ snd (bndU s) <= size (FDict cs) + size (FDict ds) + ex.
Proof.
  intros cs ds IH HA HB. cbn zeta.
  destruct HA as (Wa & Na & La). destruct HB as (Wb & Nb & Tb).
  pose proof Wa as Wa'. pose proof Wb as Wb'. cbn [wf] in Wa', Wb'.
  apply andb_prop in Wa' as [Wcs Kcs]. apply andb_prop in Wb' as [Wds Kds].
  destruct (wf_mset_parts _ Wcs) as [Hcs Hwcs]. destruct (wf_mset_parts _ Wds) as [Hds Hwds].
  assert (Kc : forallb is_kvp cs = true).
  { apply forallb_forall. intros c Hc. pose proof (forallb_In _ _ _ Wcs Hc) as X. apply andb_prop in X as [X _]. exact X. }
  assert (Kd : forallb is_kvp ds = true).
  { apply forallb_forall. intros c Hc. pose proof (forallb_In _ _ _ Wds Hc) as X. apply andb_prop in X as [X _]. exact X. }
  rewrite Kc, Kd. unfold fixed_dict_removals_in_hash_order. cbn [orb andb negb].
  change (flat_map _ (seq 0 (length cs))) with (fd_shared cs ds).
  change (filter (fun i => match find_index _ ds 0 with Some _ => false | None => true end) (seq 0 (length cs))) with (fd_unshared cs ds).
  change (filter _ (seq 0 (length ds))) with (fd_inserted cs ds).
  match goal with |- context [all_some_l (map ?f (fd_shared cs ds))] =>
    destruct (all_some_map_bound f (fun ij => (size (nth (fst ij) cs dummy) + 1) + (size (nth (snd ij) ds dummy) + 1) + 0)
                                 (fd_shared cs ds)) as (sh & Esh & Bsh) end.
  { intros [i j] Hij. apply in_fd_shared in Hij as [Hi Hp].
    destruct (fd_partner_spec cs ds i j Hi Hp) as [Hj Hkey]. cbn [fst snd].
    pose proof (size_nonneg (nth i cs dummy)). pose proof (size_nonneg (nth j ds dummy)).
    destruct (node_eqb (nth i cs dummy) (nth j ds dummy)); [exists (SConst 0); split; [reflexivity|cbn; lia]|].
    rewrite mget_init by assumption.
    assert (Hc : In (nth i cs dummy) cs) by (apply nth_In; exact Hi).
    assert (Hd : In (nth j ds dummy) ds) by (apply nth_In; exact Hj).
    destruct (okA_fd cs _ (conj Wa (conj Na La)) Hc) as [A1 K1]. destruct (okB_fd ds _ (conj Wb (conj Nb Tb)) Hd) as [B1 K2].
    rewrite Forall_forall in IH. destruct (IH _ Hc _ A1 B1 ltac:(congruence)) as (s & Es & Bs).
    exists s. rewrite Es. split; [reflexivity|].
    unfold key_eqb in Hkey. destruct (nth i cs dummy) as [| |? k ?| |]; try discriminate.
    destruct (nth j ds dummy) as [| |? k' ?| |]; try discriminate. cbn [kvp_key] in Hkey. cbn [slackK] in Bs. rewrite Hkey in Bs. lia. }
  rewrite Esh.
  rewrite zsum_map_add_c in Bsh.
  pose proof (fd_from cs ds) as Pf. pose proof (fd_to cs ds Hcs Hds Kcs Kds) as Pt.
  assert (Sa : zsum (map (fun i => size (nth i cs dummy) + 1) (map fst (fd_shared cs ds))) +
               zsum (map (fun i => size (nth i cs dummy) + 1) (fd_unshared cs ds)) = size (FDict cs)).
  { cbn [size]. rewrite <- size_seq, <- zsum_app, <- map_app. apply MachineCore.zsum_perm. apply Permutation_map. exact Pf. }
  assert (Sb : zsum (map (fun j => size (nth j ds dummy) + 1) (map snd (fd_shared cs ds))) +
               zsum (map (fun j => size (nth j ds dummy) + 1) (fd_inserted cs ds)) = size (FDict ds)).
  { cbn [size]. rewrite <- size_seq, <- zsum_app, <- map_app. apply MachineCore.zsum_perm. apply Permutation_map. exact Pt. }
  rewrite !map_map in Sa, Sb.
  assert (G : zsum (map (fun s => snd (bndU s))
                        (sh ++ map (fun i => SConst (remove_cost (nth i cs dummy) 1)) (fd_unshared cs ds)
                            ++ map (fun j => SConst (insert_cost (nth j ds dummy) 1)) (fd_inserted cs ds)))
              <= size (FDict cs) + 1 + size (FDict ds)).
  { rewrite !map_app, !zsum_app, !map_map. cbn [bndU snd].
    change (fun x => remove_cost (nth x cs dummy) 1) with (fun i => size (nth i cs dummy) + 1).
    change (fun x => insert_cost (nth x ds dummy) 1) with (fun j => size (nth j ds dummy) + 1).
    lia. }
  apply Z.leb_le in G. rewrite G. eexists. split; [reflexivity|].
  change (bndU (SColl ?c)) with (coll_bnd bndU c).
  pose proof (size_nonneg (FDict cs)). pose proof (size_nonneg (FDict ds)).
  pose proof (coll_init_ub bndU (size (FDict cs) + 1 + size (FDict ds))
     (sh ++ map (fun i => SConst (remove_cost (nth i cs dummy) 1)) (fd_unshared cs ds)
         ++ map (fun j => SConst (insert_cost (nth j ds dummy) 1)) (fd_inserted cs ds)) ltac:(lia)). lia.
Qed.

(* ---------------------------------------------------------------- the induction over trees *)
Theorem guard_all : forall a, PG a.
Proof.
  apply tree_rect'.
  - (* leaves *)
    intros x b HA HB Hk. cbn [initO]. destruct (const_of (Leaf x) b) as [c|] eqn:Ec.
    + exists (SConst c). split; [reflexivity|]. cbn [bndU snd]. apply const_ub; [apply HB|exact Ec].
    + destruct (leaf_nonconst x b Ec) as (y & -> & Kx & Ky). rewrite Kx, Ky. eexists. split; [reflexivity|].
      cbn [slackK size]. unfold leaf_size. rewrite Kx, Ky. pose proof (str_state_ub (ltext x) (ltext y)). lia.
  - (* lists *)
    intros ale alsl cs IH b HA HB Hk. cbn [initO]. destruct (const_of (Lst ale alsl cs) b) as [c|] eqn:Ec.
    + exists (SConst c). split; [reflexivity|]. cbn [bndU snd]. apply const_ub; [apply HB|exact Ec].
    + cbn [const_of] in Ec. destruct (list_dispatch (Lst ale alsl cs) b) eqn:Ed; try discriminate.
      * destruct (dispatch_fixed _ _ _ _ Ed) as (ale' & alsl' & ds & ->). cbn [slackK].
        assert (Hn : ex <= 2 \/ (length cs = 1 /\ length ds = 1)%nat).
        { destruct HA as (_ & _ & [L|L]); [left; exact L|right]. cbn [lists_default] in L.
          apply andb_prop in L as [L _]. apply andb_prop in L as [-> ->].
          cbn [list_dispatch] in Ed. unfold list_dispatch_gen in Ed. destruct (children_eqb cs ds); [discriminate|].
          cbn [negb orb] in Ed. unfold zlen in Ed.
          destruct (Z.of_nat (length cs) =? Z.of_nat (length ds)) eqn:E1; [|discriminate].
          destruct (Z.of_nat (length cs) =? 1) eqn:E2; [|discriminate]. apply Z.eqb_eq in E1, E2. lia. }
        destruct (guard_list_fixed ale alsl cs ale' alsl' ds IH HA HB Hn) as (s & Es & Bs).
        exists s. split; [exact Es|lia].
      * destruct (MachineProofs.dispatch_penalty _ _ _ _ _ Ed) as (ale' & alsl' & ds & -> & Epen). cbn [slackK].
        assert (Hp : 0 <= penalty <= 1) by (rewrite Epen; destruct (_ && _); lia).
        destruct (guard_list_ed ale alsl cs ale' alsl' ds penalty IH HA HB Hp) as (s & Es & Bs).
        exists s. split; [exact Es|lia].
  - (* key/value pairs *)
    intros ake k v IHk IHv b HA HB Hk. destruct b as [y| |ake' k' v'| |]; try discriminate.
    destruct (okA_kvp _ _ _ HA) as (Ak & Av & Kk & Kv). destruct (okB_kvp _ _ _ HB) as (Bk & Bv & Kk' & Kv').
    cbn [initO]. destruct (const_of (Kvp ake k v) (Kvp ake' k' v')) as [c|] eqn:Ec.
    + exists (SConst c). split; [reflexivity|]. cbn [bndU snd]. apply const_ub; [apply HB|exact Ec].
    + pose proof (size_nonneg k). pose proof (size_nonneg k'). pose proof (size_nonneg v). pose proof (size_nonneg v').
      assert (Xk : exists x, (if node_eqb k k' then Some (SConst 0) else initO orc k k') = Some x /\
                             snd (bndU x) <= (if node_eqb k k' then 0 else size k + size k' + ex)).
      { destruct (node_eqb k k'); [exists (SConst 0); split; [reflexivity|cbn; lia]|].
        destruct (IHk k' Ak Bk ltac:(congruence)) as (x & Ex & Bx). exists x. split; [exact Ex|].
        pose proof (slackK_nonneg k k'). lia. }
      assert (Xv : exists y, (if node_eqb v v' then Some (SConst 0) else initO orc v v') = Some y /\
                             snd (bndU y) <= size v + size v' + ex).
      { destruct (node_eqb v v'); [exists (SConst 0); split; [reflexivity|cbn; lia]|].
        destruct (IHv v' Av Bv ltac:(congruence)) as (x & Ex & Bx). exists x. split; [exact Ex|].
        pose proof (slackK_nonneg v v'). lia. }
      destruct Xk as (x & Ex & Bx). destruct Xv as (y & Ey & By). rewrite Ex, Ey.
      eexists. split; [reflexivity|]. cbn [bndU map zr_sum fold_right zr_add fst snd slackK size].
      destruct (node_eqb k k'); lia.
  - (* multisets: outside the domain *)
    intros amk cs _ b (_ & N & _). discriminate.
  - (* FixedKeyDictNodes *)
    intros cs IH b HA HB Hk. cbn [initO]. destruct (const_of (FDict cs) b) as [c|] eqn:Ec.
    + exists (SConst c). split; [reflexivity|]. cbn [bndU snd]. apply const_ub; [apply HB|exact Ec].
    + cbn [const_of] in Ec. destruct b as [y| | |amk ds|ds]; try discriminate.
      * destruct HB as (_ & N & _). discriminate.
      * cbn [slackK]. destruct (guard_fdict cs ds IH HA HB) as (s & Es & Bs). exists s. split; [exact Es|lia].
Qed.
End Guard.

(* ---------------------------------------------------------------- the two sufficient conditions, stated plainly *)
(* (1) no leaf of the target prints longer than its total_size (i.e. the target holds no null), any list options *)
Theorem guard_none_nonull : forall orc a b, wf a = true -> wf b = true -> no_mset a = true -> no_mset b = true ->
  is_kvp a = is_kvp b -> text_slack 0 b = true ->
  exists s, initO orc a b = Some s /\ snd (bndU s) <= size a + size b + 1.
Proof.
  intros orc a b Wa Wb Na Nb K T.
  destruct (guard_all orc 0 1 ltac:(lia) ltac:(lia) a b) as (s & Es & Bs).
  - split; [exact Wa|]. split; [exact Na|left; lia].
  - split; [exact Wb|]. split; [exact Nb|right; exact T].
  - exact K.
  - exists s. split; [exact Es|]. pose proof (slackK_nonneg a b). lia.
Qed.

(* (2) every list of the source has the default options; a leaf of the target prints at most 4 characters longer than
       its total_size (null prints as "None") *)
Theorem guard_none_default_lists : forall orc a b, wf a = true -> wf b = true -> no_mset a = true -> no_mset b = true ->
  is_kvp a = is_kvp b -> lists_default a = true -> text_slack 4 b = true ->
  exists s, initO orc a b = Some s /\ snd (bndU s) <= size a + size b + 4.
Proof.
  intros orc a b Wa Wb Na Nb K L T.
  destruct (guard_all orc 4 4 ltac:(lia) ltac:(lia) a b) as (s & Es & Bs).
  - split; [exact Wa|]. split; [exact Na|right; exact L].
  - split; [exact Wb|]. split; [exact Nb|right; exact T].
  - exact K.
  - exists s. split; [exact Es|]. pose proof (slackK_nonneg a b). lia.
Qed.

(* (0) the repaired pricing (LeafNode.edits caps the cost of a Match of two leaves by max(total_size) + 1, the cost of a
       Replace): NO condition on the documents.  The flag is a hypothesis here; PropC04.v discharges it by reflexivity on
       the constant the translator extracts from the current source. *)
Theorem guard_none_capped : leaf_match_cost_capped = true ->
  forall orc a b, wf a = true -> wf b = true -> no_mset a = true -> no_mset b = true -> is_kvp a = is_kvp b ->
  exists s, initO orc a b = Some s /\ snd (bndU s) <= size a + size b + 1.
Proof.
  intros C orc a b Wa Wb Na Nb K.
  destruct (guard_all orc 0 1 ltac:(lia) ltac:(lia) a b) as (s & Es & Bs).
  - split; [exact Wa|]. split; [exact Na|left; lia].
  - split; [exact Wb|]. split; [exact Nb|left; exact C].
  - exact K.
  - exists s. split; [exact Es|]. pose proof (slackK_nonneg a b). lia.
Qed.

Theorem docs_none_contract_capped : leaf_match_cost_capped = true ->
  forall orc a b, wf a = true -> wf b = true -> no_mset a = true -> no_mset b = true -> is_kvp a = is_kvp b ->
  exists s, initO orc a b = Some s /\ Contract (UM (sheight s)) s /\ snd (bndU s) <= size a + size b + 1.
Proof.
  intros C orc a b Wa Wb Na Nb K. destruct (guard_none_capped C orc a b Wa Wb Na Nb K) as (s & Es & Bs).
  exists s. split; [exact Es|]. split; [apply (initO_contract orc a b s Es)|exact Bs].
Qed.

(* the leaf fact behind it: under the cap a Match of two leaves never costs more than replacing one with the other *)
Lemma leaf_match_cost_le_replace : leaf_match_cost_capped = true ->
  forall x y, leaf_match_cost x y <= Z.max (leaf_size x) (leaf_size y) + 1.
Proof. intros C x y. apply leaf_cap_le_replace. exact C. Qed.

(* C04 for documents whose mappings are all FixedKeyDictNodes: unconditional on the model's guard.
   budget_safe a b = text_slack 0 b || (lists_default a && text_slack 4 b)   (MachineGuardSpec.v) *)
Theorem docs_none_contract : forall orc a b, wf a = true -> wf b = true -> no_mset a = true -> no_mset b = true ->
  is_kvp a = is_kvp b -> budget_safe a b = true ->
  exists s, initO orc a b = Some s /\ Contract (UM (sheight s)) s /\ snd (bndU s) <= size a + size b + 4.
Proof.
  intros orc a b Wa Wb Na Nb K S. unfold budget_safe in S. apply orb_true_iff in S as [T|S].
  - destruct (guard_none_nonull orc a b Wa Wb Na Nb K T) as (s & Es & Bs).
    exists s. split; [exact Es|]. split; [apply (initO_contract orc a b s Es)|lia].
  - apply andb_prop in S as [L T]. destruct (guard_none_default_lists orc a b Wa Wb Na Nb K L T) as (s & Es & Bs).
    exists s. split; [exact Es|]. split; [apply (initO_contract orc a b s Es)|exact Bs].
Qed.

(* the hypotheses are satisfiable by non-trivial documents: {"a": "ab", "b": 1} -> {"a": "ac", "c": 1} (condition 1) and
   {"a": ["x", null]} -> {"a": [null, "y", 1]} with default list options (condition 2) *)
Example docs_none_instance1 :
  let a := FDict [ex_kvp false 97 (ex_str [97; 98]); ex_kvp false 98 ex_int] in
  let b := FDict [ex_kvp false 97 (ex_str [97; 99]); ex_kvp false 99 ex_int] in
  wf a = true /\ wf b = true /\ no_mset a = true /\ no_mset b = true /\ is_kvp a = is_kvp b /\ text_slack 0 b = true /\
  exists c, initO [] a b = Some (SColl c).
Proof. cbv zeta. repeat (split; [reflexivity|]). eexists. vm_compute. reflexivity. Qed.

Definition ex_null : tree := Leaf (Build_leaf KNull [78; 111; 110; 101] 0 0).
Example docs_none_instance2 :
  let a := FDict [ex_kvp false 97 (Lst true true [ex_str [120]; ex_null])] in
  let b := FDict [ex_kvp false 97 (Lst true true [ex_null; ex_str [121]; ex_int])] in
  wf a = true /\ wf b = true /\ no_mset a = true /\ no_mset b = true /\ is_kvp a = is_kvp b /\
  lists_default a = true /\ text_slack 4 b = true /\ text_slack 0 b = false /\
  exists c, initO [] a b = Some (SColl c).
Proof. cbv zeta. repeat (split; [reflexivity|]). eexists. vm_compute. reflexivity. Qed.

(* ---------------------------------------------------------------- the former counter-example (defect D41, repaired)
   {"": ["","","",""]} -> {"": [null,null,null,null]}, allow_list_edits = False, FixedKeyDictNodes, lies outside both
   document conditions (budget_safe = false).  Before the repair every Match("" -> null) cost levenshtein("", "None") = 4,
   the key/value pair edit 16 > cost_upper_bound = 7 + 1 + 7 = 15: the EditCollection invalidated itself and diff() raised
   ValueError.  With the cap each pair costs 1, the pair edit 4, and the documents initialise. *)
Definition ex_estr : tree := Leaf (Build_leaf KStr [] 0 0).
Definition ex_guard_a : tree := FDict [Kvp false ex_estr (Lst false true [ex_estr; ex_estr; ex_estr; ex_estr])].
Definition ex_guard_b : tree := FDict [Kvp false ex_estr (Lst false true [ex_null; ex_null; ex_null; ex_null])].

Theorem guard_witness_repaired : leaf_match_cost_capped = true ->
  wf ex_guard_a = true /\ wf ex_guard_b = true /\ no_mset ex_guard_a = true /\ no_mset ex_guard_b = true /\
  is_kvp ex_guard_a = is_kvp ex_guard_b /\ null_as_None ex_guard_b = true /\
  budget_safe ex_guard_a ex_guard_b = false /\
  size ex_guard_a + 1 + size ex_guard_b = 15 /\
  (forall orc, exists s, initO orc ex_guard_a ex_guard_b = Some s /\ Contract (UM (sheight s)) s /\ snd (bndU s) <= 15).
Proof.
  intro C. repeat (split; [reflexivity|]). intro orc.
  destruct (docs_none_contract_capped C orc ex_guard_a ex_guard_b) as (s & Es & Cs & Bs); try reflexivity.
  exists s. split; [exact Es|]. split; [exact Cs|]. exact Bs.
Qed.
(* ... and by evaluation on the current source: the pair edit now costs 4 *)
Example guard_witness_value :
  exists s, initO [] (Kvp false ex_estr (Lst false true [ex_estr; ex_estr; ex_estr; ex_estr]))
                     (Kvp false ex_estr (Lst false true [ex_null; ex_null; ex_null; ex_null])) = Some s /\ bndU s = (4, 4).
Proof. eexists. split; [vm_compute; reflexivity|reflexivity]. Qed.

Print Assumptions docs_none_contract.
Print Assumptions docs_none_contract_capped.
Print Assumptions guard_witness_repaired.

(* ---------------------------------------------------------------- Apple plist roots (MachinePlist.v):
   the EditCollection of two PLISTNodes over [Match 0; root edit], whenever the root pair is in the domain of initO and
   the root edit's initial upper bound fits cost_upper_bound *)
Theorem plist_contract : forall orc a b s, initP orc a b = Some s -> Contract (UM (sheight s)) s.
Proof.
  intros orc a b s H. unfold initP in H. destruct (initO orc a b) as [s0|] eqn:E; [|discriminate].
  cbv zeta in H. destruct (is_coll s0); [discriminate|].
  destruct (snd (bndU s0) <=? size a + 1 + size b) eqn:B; [|discriminate]. injection H as <-.
  apply Z.leb_le in B.
  assert (G : Good (SColl (coll_init bndU (size a + 1 + size b) [SConst 0; s0]))).
  { apply good_coll.
    - constructor; [apply good_const; lia|]. constructor; [apply (initO_good orc a b s0 E)|constructor].
    - cbn [map bndU snd zsum fold_right]. unfold zsum. cbn [fold_right]. lia. }
  destruct G as [_ Hc]. apply (Hc _ (le_n _)).
Qed.

Theorem plist_trace_holds : forall orc a b s, initP orc a b = Some s ->
  holds_events (trace_of (UM (sheight s)) (S (S (Z.to_nat (width (bndU s))))) s) = true.
Proof.
  intros orc a b s H. destruct (plist_contract orc a b s H) as [v Hv].
  apply (contract_trace_holds (UM (sheight s)) s v); [exact Hv|]. cbn [UM bnd]. lia.
Qed.

Theorem plist_root_contract : forall orc a b s, initP orc a b = Some s ->
  Contract (UM (sheight s)) s /\
  holds_events (trace_of (UM (sheight s)) (S (S (Z.to_nat (width (bndU s))))) s) = true.
Proof. intros orc a b s H. split; [exact (plist_contract orc a b s H)|exact (plist_trace_holds orc a b s H)]. Qed.

(* not empty: {"ab": "abc", "c": 1} -> {"abx": "abd", "c": 1} as plist documents (root edit: a MultiSetEdit) *)
Example plist_instance :
  exists c, initP [] (MSet true [Kvp true (ex_str [97; 98]) (ex_str [97; 98; 99]); ex_kvp true 99 ex_int])
                     (MSet true [Kvp true (ex_str [97; 98; 120]) (ex_str [97; 98; 100]); ex_kvp true 99 ex_int]) = Some (SColl c) /\
            length (match k_pend c with Some l => l | None => [] end) = 2%nat.
Proof. eexists. split; [vm_compute; reflexivity|reflexivity]. Qed.
Print Assumptions plist_contract.
