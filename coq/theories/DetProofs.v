(* C07 - independence of the script model from its declared adversaries.

   pi  (o_order, hash order of the removed pairs of a FixedKeyDictNode edit): on a source whose translated flag
       GTgen.EdGen.fixed_dict_removals_in_hash_order is false the script does not depend on it at all
       (C07_order_irrelevant, and unconditionally for the current source: C07_order_irrelevant_now, which stops
       compiling when a set is reintroduced); when the flag is true the dependence is real (C07_hash_order_refuted_if).
   tau (o_match, which assignment the matcher returns): the script does depend on it (C07_match_script_depends);
       the COST of the whole script - hence the exit status - does not, provided the two answers are equally good at
       every multiset edit (C07_match_cost_partial; "equally good" is what optimality of scipy's answer, the C15
       contract, gives for two optimal answers).
   Completeness of the declaration: C07_sites_audited (every syntactic site of the current source is classified). *)
From Coq Require Import ZArith List Bool Lia.
From Coq Require String.
Require Import GT.PyBase GT.Data GT.ScriptSpec GT.EdEngine GT.LevModel GT.EdTypes GTgen.EdGen GT.EdParams
               GT.ScriptModel GT.ListAux GT.EdFacts GT.EdEngineProofs GT.ScriptProofs GT.MSetProofs GT.DetSpec GTgen.DetGen GT.DetModel.
Import ListNotations.
Open Scope Z_scope.

(* ---------------------------------------------------------------- the matrix of sub-scripts *)
Lemma mapi_ext_in : forall {A B} (f g : nat -> A -> B) (l : list A),
  (forall i x, In x l -> f i x = g i x) -> mapi f l = mapi g l.
Proof.
  intros A B f g l. unfold mapi. generalize 0%nat.
  induction l as [|x l IH]; intros n H; cbn; [reflexivity|]. f_equal.
  - apply H. left. reflexivity.
  - apply IH. intros i y Hy. apply H. right. exact Hy.
Qed.

Lemma sub_matrix_ext : forall O O' pa pb cs ds,
  Forall (fun c => forall qa qb d, script O qa qb c d = script O' qa qb c d) cs ->
  sub_matrix O pa pb cs ds = sub_matrix O' pa pb cs ds.
Proof.
  intros O O' pa pb cs ds H. unfold sub_matrix. apply mapi_ext_in. intros i c Hc.
  apply mapi_ext_in. intros j d _. rewrite Forall_forall in H. apply H. exact Hc.
Qed.

(* ================================================================ pi: the set-order adversary *)
Section OrderIrrelevant.
  Hypothesis Hflag : fixed_dict_removals_in_hash_order = false.
  Variables O O' : oracle.
  Hypothesis Hm : o_match O = o_match O'.

  Definition Pord (a : tree) : Prop := forall pa pb b, script O pa pb a b = script O' pa pb a b.

  Lemma script_order_irrelevant : forall a, Pord a.
  Proof.
    apply tree_rect'.
    - intros l pa pb b. reflexivity.
    - intros ale alsl cs IH pa pb b.
      destruct b as [y|ale' alsl' ds|? ? ?|? ?|?]; try reflexivity.
      cbn [script]. fold (sub_matrix O pa pb cs ds). fold (sub_matrix O' pa pb cs ds).
      rewrite (sub_matrix_ext O O' pa pb cs ds IH). reflexivity.
    - intros ake k v IHk IHv pa pb b.
      destruct b as [y|? ? ?|ake' k' v'|? ?|?]; try reflexivity.
      cbn [script]. rewrite (IHk (pa ++ [0%nat]) (pb ++ [0%nat]) k'), (IHv (pa ++ [1%nat]) (pb ++ [1%nat]) v'). reflexivity.
    - intros amk cs IH pa pb b.
      destruct b as [y|? ? ?|? ? ?|amk' ds|?]; try reflexivity.
      cbn [script]. fold (sub_matrix O pa pb cs ds). fold (sub_matrix O' pa pb cs ds).
      rewrite (sub_matrix_ext O O' pa pb cs ds IH). unfold multiset_script. rewrite Hm. reflexivity.
    - intros cs IH pa pb b.
      destruct b as [y|? ? ?|? ? ?|? ?|ds]; try reflexivity.
      cbn [script]. fold (sub_matrix O pa pb cs ds). fold (sub_matrix O' pa pb cs ds).
      rewrite (sub_matrix_ext O O' pa pb cs ds IH). rewrite !fixed_dict_script_unfold. unfold fd_order.
      rewrite Hflag. reflexivity.
  Qed.
End OrderIrrelevant.

Theorem order_irrelevant :
  fixed_dict_removals_in_hash_order = false ->
  forall O O', o_match O = o_match O' -> forall pa pb a b, script O pa pb a b = script O' pa pb a b.
Proof. intros Hf O O' Hm pa pb a b. exact (script_order_irrelevant Hf O O' Hm a pa pb b). Qed.

(* the current source: the premise is discharged by computation on the TRANSLATED flag; this is the statement that
   breaks when `unshared_kvps` becomes a set again *)
Theorem order_irrelevant_now :
  forall O O', o_match O = o_match O' -> forall pa pb a b, script O pa pb a b = script O' pa pb a b.
Proof. exact (order_irrelevant eq_refl). Qed.

Corollary strip_order_same : forall O pa pb a b, script O pa pb a b = script (strip_order O) pa pb a b.
Proof. intros. apply order_irrelevant_now. reflexivity. Qed.

(* the scanner of gen_det.py and the recogniser of gen_ed.py agree on the container of the removed pairs *)
Lemma scanners_agree : child_edits_unshared_is_set = fixed_dict_removals_in_hash_order.
Proof. reflexivity. Qed.

(* witness documents: {"a":1,"b":2} -> {"d":4} with the 'none' dictionary strategy (two removed keys) *)
Definition lf_s (s : str) : tree := Leaf {| lk := KStr; ltext := s; lnum := 0; lexp := 0 |}.
Definition lf_i (t : str) (n : Z) : tree := Leaf {| lk := KInt; ltext := t; lnum := n; lexp := 0 |}.
Definition w_a : tree := FDict [Kvp false (lf_s [97]) (lf_i [49] 1); Kvp false (lf_s [98]) (lf_i [50] 2)].
Definition w_b : tree := FDict [Kvp false (lf_s [100]) (lf_i [52] 4)].
Definition w_O  : oracle := {| o_match := []; o_order := [([], [], [0; 1]%nat)] |}.
Definition w_O' : oracle := {| o_match := []; o_order := [([], [], [1; 0]%nat)] |}.

(* the hypotheses of order_irrelevant are satisfiable by oracles that really differ, on a pair with two removals *)
Example order_irrelevant_example :
  o_match w_O = o_match w_O' /\ o_order w_O <> o_order w_O' /\
  exists c c0 c1 c2, script w_O [] [] w_a w_b = OK (EComp KFixedDict c [SRem 0 c0; SRem 1 c1; SIns 0 c2]).
Proof.
  split; [reflexivity|]. split; [discriminate|].
  assert (H : script w_O [] [] w_a w_b =
              fixed_dict_script w_O [] [] w_a w_b (children w_a) (children w_b)
                                (sub_matrix w_O [] [] (children w_a) (children w_b))) by reflexivity.
  rewrite H, fixed_dict_script_unfold. unfold fd_order.
  destruct fixed_dict_removals_in_hash_order; vm_compute; eauto.
Qed.

Lemma witness_unfold : forall O,
  script O [] [] w_a w_b =
  fixed_dict_script O [] [] w_a w_b (children w_a) (children w_b) (sub_matrix O [] [] (children w_a) (children w_b)).
Proof. intro O. reflexivity. Qed.

(* if removals are emitted in hash order, two orders of two removed keys give two different scripts *)
Theorem hash_order_refuted_if :
  fixed_dict_removals_in_hash_order = true ->
  exists O O' a b, o_match O = o_match O' /\ script O [] [] a b <> script O' [] [] a b.
Proof.
  intro Hf. exists w_O, w_O', w_a, w_b. split; [reflexivity|].
  rewrite !witness_unfold, !fixed_dict_script_unfold. unfold fd_order. rewrite Hf.
  vm_compute. discriminate.
Qed.

(* ================================================================ tau: the matching adversary *)
(* the script itself depends on which assignment is returned: {"a":1,"b":2} -> {"c":1,"d":2}, match keys off ... *)
Definition kv (k : Z) (t : Z) (n : Z) : tree := Kvp true (lf_s [k]) (lf_i [t] n).
Definition m_a : tree := MSet false [kv 97 49 1; kv 98 49 1].          (* {"a": 1, "b": 1} *)
Definition m_b : tree := MSet false [kv 99 49 1; kv 100 49 1].         (* {"c": 1, "d": 1} *)
Definition m_O  : oracle := {| o_match := [([], [], [(0, 0); (1, 1)]%nat)]; o_order := [] |}.
Definition m_O' : oracle := {| o_match := [([], [], [(0, 1); (1, 0)]%nat)]; o_order := [] |}.

Example match_script_depends :
  script m_O [] [] m_a m_b <> script m_O' [] [] m_a m_b /\
  res_cost (script m_O [] [] m_a m_b) = res_cost (script m_O' [] [] m_a m_b) /\
  res_cost (script m_O [] [] m_a m_b) = Some 2.
Proof. vm_compute. repeat split; discriminate. Qed.

(* ---------------------------------------------------------------- costs of a matrix of sub-scripts *)
Definition costs_of (M : list (list res)) : list (list (option Z)) := map (map res_cost) M.

Definition mcost (M : list (list res)) (i j : nat) : option Z :=
  match mget M i j with Some r => res_cost r | None => None end.

Lemma mcost_ext : forall M M' i j, costs_of M = costs_of M' -> mcost M i j = mcost M' i j.
Proof.
  intros M M' i j H. unfold mcost, mget.
  assert (Hr : nth_error (costs_of M) i = nth_error (costs_of M') i) by (rewrite H; reflexivity).
  unfold costs_of in Hr. rewrite !nth_error_map in Hr.
  destruct (nth_error M i) as [row|], (nth_error M' i) as [row'|]; cbn in Hr; try discriminate; [|reflexivity].
  assert (Hc : nth_error (map res_cost row) j = nth_error (map res_cost row') j) by congruence.
  rewrite !nth_error_map in Hc.
  destruct (nth_error row j) as [r|], (nth_error row' j) as [r'|]; cbn in Hc; try discriminate; [|reflexivity].
  congruence.
Qed.

Lemma map_mapi : forall {A B C} (f : B -> C) (g : nat -> A -> B) (l : list A),
  map f (mapi g l) = mapi (fun i x => f (g i x)) l.
Proof.
  intros A B C f g l. unfold mapi. generalize 0%nat. induction l as [|x l IH]; intro n; cbn; [reflexivity|].
  rewrite IH. reflexivity.
Qed.

Lemma costs_of_sub_matrix : forall O O' pa pb cs ds,
  Forall (fun c => forall qa qb d, res_cost (script O qa qb c d) = res_cost (script O' qa qb c d)) cs ->
  costs_of (sub_matrix O pa pb cs ds) = costs_of (sub_matrix O' pa pb cs ds).
Proof.
  intros O O' pa pb cs ds H. unfold costs_of, sub_matrix. rewrite !map_mapi.
  apply mapi_ext_in. intros i c Hc. rewrite !map_mapi. apply mapi_ext_in. intros j d _.
  rewrite Forall_forall in H. apply H. exact Hc.
Qed.

(* a list of sub-edits read out of the matrix: only the costs matter for the sum *)
Definition sum_subs (o : option (list sub)) : option Z :=
  match o with Some subs => Some (zsum (map sub_cost subs)) | None => None end.

Lemma all_some_sum_ext : forall {A} (g g' : A -> option sub) (l : list A),
  (forall x, option_map sub_cost (g x) = option_map sub_cost (g' x)) ->
  sum_subs (all_some (map g l)) = sum_subs (all_some (map g' l)).
Proof.
  intros A g g' l H. induction l as [|x l IH]; cbn; [reflexivity|].
  specialize (H x). destruct (g x) as [s|], (g' x) as [s'|]; cbn in H; try discriminate; [|reflexivity].
  destruct (all_some (map g l)) as [r|], (all_some (map g' l)) as [r'|]; cbn [sum_subs] in IH |- *; try discriminate;
    [|reflexivity].
  cbn [map]. unfold zsum in *. cbn [fold_right]. inversion H. inversion IH. congruence.
Qed.

Definition pair_get (M : list (list res)) (ij : nat * nat) : option sub :=
  match mget M (fst ij) (snd ij) with Some (OK e) => Some (SPair (fst ij) (snd ij) e) | _ => None end.

Lemma pair_get_cost : forall M ij, option_map sub_cost (pair_get M ij) = mcost M (fst ij) (snd ij).
Proof.
  intros M ij. unfold pair_get, mcost. destruct (mget M (fst ij) (snd ij)) as [[e|x]|]; reflexivity.
Qed.

Lemma pair_get_ext : forall M M' ij, costs_of M = costs_of M' ->
  option_map sub_cost (pair_get M ij) = option_map sub_cost (pair_get M' ij).
Proof. intros. rewrite !pair_get_cost. apply mcost_ext. assumption. Qed.

(* ---------------------------------------------------------------- each compound: own cost from sub-costs only *)
Lemma fixed_len_cost_ext : forall cs ds M M', costs_of M = costs_of M' ->
  sum_subs (fixed_len_subs cs ds M) = sum_subs (fixed_len_subs cs ds M').
Proof.
  intros cs ds M M' H. unfold fixed_len_subs.
  pose proof (all_some_sum_ext (fun i => pair_get M (i, i)) (fun i => pair_get M' (i, i))
                (seq 0 (Nat.min (length cs) (length ds))) (fun i => pair_get_ext M M' (i, i) H)) as Hs.
  unfold pair_get in Hs. cbn [fst snd] in Hs.
  destruct (all_some (map (fun i => match mget M i i with Some (OK e) => Some (SPair i i e) | _ => None end) _)) as [ps|],
           (all_some (map (fun i => match mget M' i i with Some (OK e) => Some (SPair i i e) | _ => None end) _)) as [ps'|];
    cbn in Hs; try discriminate; [|reflexivity].
  cbn. rewrite !map_app, !zsum_app. inversion Hs. congruence.
Qed.

Lemma ed_costs_ext : forall M M' p nc nr, costs_of M = costs_of M' ->
  ed_costs (ed_cells M p nc nr) = ed_costs (ed_cells M' p nc nr).
Proof.
  intros M M' p nc nr H. unfold ed_costs, ed_cells. rewrite !map_map. f_equal.
  apply map_ext. intro r. rewrite !map_map. f_equal. apply map_ext. intro c.
  exact (mcost_ext M M' (p + c) (p + r) H).
Qed.

Lemma edit_dist_cost_ext : forall penalty cs ds M M', costs_of M = costs_of M' ->
  res_cost (edit_dist_script penalty cs ds M) = res_cost (edit_dist_script penalty cs ds M').
Proof.
  intros penalty cs ds M M' H. destruct (trim node_eqb cs ds) as [p q] eqn:Et.
  rewrite !(edit_dist_script_unfold _ _ _ _ _ _ Et). cbv zeta.
  rewrite (ed_costs_ext M M' p _ _ H). destruct (ed_costs _); reflexivity.
Qed.

Lemma multiset_cost_ext : forall O pa pb amk cs ds M M', costs_of M = costs_of M' ->
  res_cost (multiset_script O pa pb amk cs ds M) = res_cost (multiset_script O pa pb amk cs ds M').
Proof.
  intros O pa pb amk cs ds M M' H. rewrite !multiset_script_unfold.
  destruct (ms_matching O pa pb amk cs ds) as [mt|]; [|reflexivity].
  pose proof (all_some_sum_ext (pair_get M) (pair_get M') (ms_pre amk cs ds) (fun ij => pair_get_ext M M' ij H)) as Hp.
  pose proof (all_some_sum_ext (pair_get M) (pair_get M') mt (fun ij => pair_get_ext M M' ij H)) as Hq.
  change (pair_get M) with (ms_get M) in Hp, Hq. change (pair_get M') with (ms_get M') in Hp, Hq.
  destruct (all_some (map (ms_get M) (ms_pre amk cs ds))) as [ps|],
           (all_some (map (ms_get M') (ms_pre amk cs ds))) as [ps'|]; cbn in Hp; try discriminate; [|reflexivity].
  destruct (all_some (map (ms_get M) mt)) as [qs|], (all_some (map (ms_get M') mt)) as [qs'|]; cbn in Hq;
    try discriminate; [|reflexivity].
  cbn. inversion Hp. inversion Hq. congruence.
Qed.

Lemma fd_get_cost_ext : forall cs ds M M' ij, costs_of M = costs_of M' ->
  option_map sub_cost (fd_get cs ds M ij) = option_map sub_cost (fd_get cs ds M' ij).
Proof.
  intros cs ds M M' ij H. unfold fd_get. destruct (node_eqb _ _); [reflexivity|]. exact (pair_get_ext M M' ij H).
Qed.

Lemma fixed_dict_cost_ext : forall O O' pa pb a b cs ds M M',
  o_order O = o_order O' -> costs_of M = costs_of M' ->
  res_cost (fixed_dict_script O pa pb a b cs ds M) = res_cost (fixed_dict_script O' pa pb a b cs ds M').
Proof.
  intros O O' pa pb a b cs ds M M' Ho H. rewrite !fixed_dict_script_unfold.
  assert (Hord : fd_order O pa pb cs ds = fd_order O' pa pb cs ds) by (unfold fd_order; rewrite Ho; reflexivity).
  rewrite Hord, Ho.
  pose proof (all_some_sum_ext (fd_get cs ds M) (fd_get cs ds M') (fd_shared cs ds)
                (fun ij => fd_get_cost_ext cs ds M M' ij H)) as Hs.
  destruct (fd_order O' pa pb cs ds) as [ord|];
    [|destruct (lookup pa pb (o_order O')); reflexivity].
  destruct (all_some (map (fd_get cs ds M) (fd_shared cs ds))) as [sh|],
           (all_some (map (fd_get cs ds M') (fd_shared cs ds))) as [sh'|]; cbn in Hs; try discriminate; [|reflexivity].
  cbv zeta. rewrite !map_app, !zsum_app. inversion Hs as [Hs']. rewrite Hs'.
  destruct (_ <=? _); reflexivity.
Qed.

(* ---------------------------------------------------------------- the lifting theorem *)
(* Two oracles are EQUALLY GOOD when, at every multiset edit and for the same costs of the candidate sub-edits, the
   own cost of the edit (= pre-matched pairs + matched pairs + leftover removals and insertions, CostProofs.
   multiset_additive) is the same under both answers.  Two optimal answers of the assignment solver are equally
   good; optimality is the C15 contract and is not provable here. *)
Definition equally_good (O O' : oracle) : Prop :=
  forall pa pb amk cs ds M,
    res_cost (multiset_script O pa pb amk cs ds M) = res_cost (multiset_script O' pa pb amk cs ds M).

Section MatchCost.
  Variables O O' : oracle.
  Hypothesis Hord : o_order O = o_order O'.
  Hypothesis Hgood : equally_good O O'.

  Definition Pcost (a : tree) : Prop :=
    forall pa pb b, res_cost (script O pa pb a b) = res_cost (script O' pa pb a b).

  Lemma script_cost_same : forall a, Pcost a.
  Proof.
    apply tree_rect'.
    - intros l pa pb b. reflexivity.
    - intros ale alsl cs IH pa pb b.
      destruct b as [y|ale' alsl' ds|? ? ?|? ?|?]; try reflexivity.
      cbn [script]. fold (sub_matrix O pa pb cs ds). fold (sub_matrix O' pa pb cs ds).
      pose proof (costs_of_sub_matrix O O' pa pb cs ds IH) as HM.
      destruct (list_dispatch_gen _ _ _ _ _ _ _ _) as [| |penalty|]; try reflexivity.
      + pose proof (fixed_len_cost_ext cs ds _ _ HM) as Hf.
        destruct (fixed_len_subs cs ds (sub_matrix O pa pb cs ds)) as [s|],
                 (fixed_len_subs cs ds (sub_matrix O' pa pb cs ds)) as [s'|]; cbn in Hf |- *; congruence.
      + apply edit_dist_cost_ext. exact HM.
    - intros ake k v IHk IHv pa pb b.
      destruct b as [y|? ? ?|ake' k' v'|? ?|?]; try reflexivity.
      cbn [script]. destruct (ake || node_eqb k k'); [|reflexivity].
      specialize (IHk (pa ++ [0%nat]) (pb ++ [0%nat]) k'). specialize (IHv (pa ++ [1%nat]) (pb ++ [1%nat]) v').
      destruct (node_eqb k k'), (node_eqb v v');
        repeat match goal with
               | |- context [script O ?p ?q ?x ?y] => destruct (script O p q x y)
               | |- context [script O' ?p ?q ?x ?y] => destruct (script O' p q x y)
               end; cbn in *; congruence.
    - intros amk cs IH pa pb b.
      destruct b as [y|? ? ?|? ? ?|amk' ds|?]; try reflexivity.
      cbn [script]. fold (sub_matrix O pa pb cs ds). fold (sub_matrix O' pa pb cs ds).
      destruct (_ || _); [reflexivity|].
      rewrite (multiset_cost_ext O pa pb amk cs ds _ _ (costs_of_sub_matrix O O' pa pb cs ds IH)). apply Hgood.
    - intros cs IH pa pb b.
      destruct b as [y|? ? ?|? ? ?|? ?|ds]; try reflexivity.
      cbn [script]. fold (sub_matrix O pa pb cs ds). fold (sub_matrix O' pa pb cs ds).
      destruct (_ || _); [reflexivity|].
      apply fixed_dict_cost_ext; [exact Hord|]. apply costs_of_sub_matrix. exact IH.
  Qed.
End MatchCost.

Theorem match_cost_partial :
  forall O O', o_order O = o_order O' -> equally_good O O' ->
  forall pa pb a b, res_cost (script O pa pb a b) = res_cost (script O' pa pb a b).
Proof. intros O O' Ho Hg pa pb a b. exact (script_cost_same O O' Ho Hg a pa pb b). Qed.

(* the exit status of the command line is a function of the cost *)
Definition model_status (r : res) : option Z := option_map status_of_cost (res_cost r).

Corollary match_status_partial :
  forall O O', o_order O = o_order O' -> equally_good O O' ->
  forall a b, model_status (script O [] [] a b) = model_status (script O' [] [] a b).
Proof. intros O O' Ho Hg a b. unfold model_status. rewrite (match_cost_partial O O' Ho Hg). reflexivity. Qed.

(* the hypothesis is satisfiable by oracles whose answers differ: an answer listed twice for the same pair of
   positions is shadowed by the first (lookup takes the first row), so the o_match components differ while every
   multiset edit sees the same answer *)
Example equally_good_example :
  let O1 := {| o_match := [([], [], [(0, 0); (1, 1)]%nat)]; o_order := [] |} in
  let O2 := {| o_match := [([], [], [(0, 0); (1, 1)]%nat); ([], [], [(1, 0); (0, 1)]%nat)]; o_order := [] |} in
  o_match O1 <> o_match O2 /\ o_order O1 = o_order O2 /\ equally_good O1 O2.
Proof.
  cbv zeta. split; [discriminate|]. split; [reflexivity|].
  intros pa pb amk cs ds M. unfold multiset_script. cbn [o_match lookup].
  destruct (path_eqb pa [] && path_eqb pb []); reflexivity.
Qed.

(* ================================================================ completeness of the declared adversaries *)
(* regenerated on every run: every site gen_det.py finds in the current source has a row in the audited table, and
   every adversary a row names is one the models declare *)
Theorem sites_audited : forallb site_is_audited nondeterminism_sites = true.
Proof. vm_compute. reflexivity. Qed.

Lemma sites_audited_spec : forall s, In s nondeterminism_sites ->
  exists c, classify audit_table s = Some c /\
            match c with Adversary n => In n (map fst declared_adversaries) | Benign r => r <> String.EmptyString end.
Proof.
  intros s Hs. pose proof sites_audited as H. rewrite forallb_forall in H. specialize (H s Hs).
  unfold site_is_audited, site_is_audited_in in H. destruct (classify audit_table s) as [[n|r]|]; [| |discriminate].
  - exists (Adversary n). split; [reflexivity|]. apply existsb_exists in H. destruct H as [x [Hx He]].
    apply String.eqb_eq in He. subst x. exact Hx.
  - exists (Benign r). split; [reflexivity|]. intro E. subst r. discriminate.
Qed.

Example sites_nonempty : (4 <= length nondeterminism_sites)%nat /\ unaudited_sites = [].
Proof. vm_compute. split; [repeat constructor|reflexivity]. Qed.

(* ================================================================ the executable statement *)
Lemma holds_C07_spec : forall c, holds_C07 c = true ->
  forall r r', In r (dc_runs c) -> In r' (dc_runs c) ->
    ro_status r = ro_status r' /\ ro_len r = ro_len r' /\ ro_digest r = ro_digest r'.
Proof.
  intros c H r r' Hr Hr'. unfold holds_C07 in H. repeat (apply andb_prop in H as [H ?]).
  unfold outputs_equal, all_same in H. destruct (dc_runs c) as [|r0 l]; [destruct Hr|].
  rewrite forallb_forall in H.
  assert (Hs : forall x, In x (r0 :: l) -> ro_status r0 = ro_status x /\ ro_len r0 = ro_len x /\ ro_digest r0 = ro_digest x).
  { intros x [<-|Hx]; [auto|]. specialize (H x Hx). unfold same_output in H.
    repeat (apply andb_prop in H as [H ?]). repeat split; apply Z.eqb_eq; assumption. }
  destruct (Hs r Hr) as [? [? ?]]. destruct (Hs r' Hr') as [? [? ?]]. repeat split; congruence.
Qed.
