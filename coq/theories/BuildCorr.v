(* C08: correspondence between the implementation's observations and the models (definitions only).
   For every variant of a case the tree json.build_tree built must equal the model's `build` of the permuted document,
   the recorded final cost must equal the model's (script model, with the matching oracle extracted from the run of
   the first variant: under the DictNode strategies all variants build the same tree, under 'none' no oracle is used),
   the first variant's complete nested script must equal the model's, and the recorded == of a document and its
   key-permuted copy must equal the model's node_eqb. *)
From Coq Require Import ZArith List Bool Lia.
Require Import GT.PyBase GT.Data GT.ScriptSpec GT.BuildModel GT.BuildSpec GT.ScriptModel.
Import ListNotations.
Open Scope Z_scope.

Record corr_case08 := { k_case : c08_case; k_oracle : oracle }.

Definition ocost_eqb (r : res) (c : Z) : bool := match r with OK e => cost e =? c | Err _ => false end.
Definition empty_oracle : oracle := {| o_match := []; o_order := [] |}.

Definition corr_variant (o : bopts) (O : oracle) (ta0 tb0 : tree) (v : variant) : bool :=
  tree_exact_eqb (build o (v_a v)) (v_ta v) && tree_exact_eqb (build o (v_b v)) (v_tb v) &&
  ocost_eqb (script O [] [] (v_ta v) (v_tb v)) (cost (v_edit v)) &&
  Bool.eqb (node_eqb ta0 (v_ta v)) (v_eq_a v) && ocost_eqb (script empty_oracle [] [] ta0 (v_ta v)) (v_cost_a v) &&
  Bool.eqb (node_eqb tb0 (v_tb v)) (v_eq_b v) && ocost_eqb (script empty_oracle [] [] tb0 (v_tb v)) (v_cost_b v).

Definition corr_C08 (k : corr_case08) : bool :=
  match k_case k with
  | CPerm c =>
      let o := pc_opts c in
      let ta0 := build o (pc_a c) in
      let tb0 := build o (pc_b c) in
      forallb (corr_variant o (k_oracle k) ta0 tb0) (pc_vars c) &&
      match pc_vars c with
      | v0 :: _ => match script (k_oracle k) [] [] (v_ta v0) (v_tb v0) with OK e => edit_eqb e (v_edit v0) | Err _ => false end
      | [] => true
      end
  | CSwap c =>
      let o := sw_opts c in
      tree_exact_eqb (build o (DArr (sw_l c))) (sw_ta c) &&
      tree_exact_eqb (build o (DArr (swap (sw_i c) (sw_j c) (sw_l c) (DArr [])))) (sw_tb c) &&
      ocost_eqb (script (k_oracle k) [] [] (sw_ta c) (sw_tb c)) (sw_cost c)
  end.
