(* C04: EditCollection / FixedKeyDictNodeEdit (MachineModel.collM) satisfies the strict contract of the Bounded protocol
   over children that satisfy it, provided the children's initial upper bounds fit the edit's cost_upper_bound (so that
   the edit never declares itself invalid) and their lower bounds are not negative.
   The incremental bound while the iterator is alive:  [ sum of the expanded children's lower bounds ,
   cost_upper_bound - sum of (initial upper bound - current upper bound) of the expanded children ];
   once the iterator is known to be exhausted: the sum of the children's bounds (capped by cost_upper_bound). *)
From Coq Require Import ZArith List Bool Lia.
Require Import GT.PyBase GT.Data GT.EdEngineProofs GT.MachineSpec GT.MachineModel GT.MachineCore.
Import ListNotations.
Open Scope Z_scope.

Section CollContract.
  Variable C : machine.

  Definition LBs (l : list (St C * Z)) : Z := zsum (map (fun p => fst (bnd C (fst p))) l).
  Definition UBs (l : list (St C * Z)) : Z := zsum (map (fun p => snd (bnd C (fst p))) l).
  Definition IUs (l : list (St C * Z)) : Z := zsum (map snd l).
  Definition PUs (l : list (St C)) : Z := zsum (map (fun x => snd (bnd C x)) l).

  Definition kid_okc (x : St C) (v : Z) : Prop := ContractV true C x v /\ 0 <= fst (bnd C x).
  Definition sub_ok (p : St C * Z) (v : Z) : Prop :=
    ContractV true C (fst p) v /\ 0 <= fst (bnd C (fst p)) /\ snd (bnd C (fst p)) <= snd p.

  Definition pend_l (s : coll (St C)) : list (St C) := match k_pend s with Some l => l | None => [] end.
  Definition plen (s : coll (St C)) : nat := match k_pend s with Some l => S (length l) | None => O end.

  Definition tot (s : coll (St C)) : zr :=
    match k_pend s with
    | None => (LBs (k_subs s), UBs (k_subs s))
    | Some _ => (LBs (k_subs s), k_U s - (IUs (k_subs s) - UBs (k_subs s)))
    end.

  Lemma LBs_app : forall l1 l2, LBs (l1 ++ l2) = LBs l1 + LBs l2.
  Proof. intros. unfold LBs. rewrite map_app, zsum_app. reflexivity. Qed.
  Lemma UBs_app : forall l1 l2, UBs (l1 ++ l2) = UBs l1 + UBs l2.
  Proof. intros. unfold UBs. rewrite map_app, zsum_app. reflexivity. Qed.
  Lemma IUs_app : forall l1 l2, IUs (l1 ++ l2) = IUs l1 + IUs l2.
  Proof. intros. unfold IUs. rewrite map_app, zsum_app. reflexivity. Qed.

  Lemma LBs_cons : forall p l, LBs (p :: l) = fst (bnd C (fst p)) + LBs l.
  Proof. reflexivity. Qed.
  Lemma UBs_cons : forall p l, UBs (p :: l) = snd (bnd C (fst p)) + UBs l.
  Proof. reflexivity. Qed.
  Lemma IUs_cons : forall (p : St C * Z) l, IUs (p :: l) = snd p + IUs l.
  Proof. reflexivity. Qed.
  Lemma PUs_cons : forall x l, PUs (x :: l) = snd (bnd C x) + PUs l.
  Proof. reflexivity. Qed.
  Lemma zsum_cons' : forall x l, zsum (x :: l) = x + zsum l.
  Proof. reflexivity. Qed.

  Lemma zr_sum_subs : forall l, zr_sum (map (fun p : St C * Z => bnd C (fst p)) l) = (LBs l, UBs l).
  Proof.
    induction l as [|p l IH]; [reflexivity|]. cbn [map]. rewrite zr_sum_cons, IH. unfold zr_add, LBs, UBs. reflexivity.
  Qed.

  Lemma zsum_slack : forall l, zsum (map (fun p : St C * Z => snd p - snd (bnd C (fst p))) l) = IUs l - UBs l.
  Proof.
    induction l as [|p l IH]; [reflexivity|].
    change (snd p - snd (bnd C (fst p)) + zsum (map (fun p : St C * Z => snd p - snd (bnd C (fst p))) l)
            = (snd p + IUs l) - (snd (bnd C (fst p)) + UBs l)). rewrite IH. lia.
  Qed.

  Lemma coll_total_eq : forall s, coll_total (bnd C) s = tot s.
  Proof.
    intros s. unfold coll_total, tot. destruct (k_pend s).
    - rewrite zsum_slack. reflexivity.
    - apply zr_sum_subs.
  Qed.

  Lemma tot_ext : forall s s', k_pend s' = k_pend s -> k_subs s' = k_subs s -> k_U s' = k_U s -> tot s' = tot s.
  Proof. intros s s' H1 H2 H3. unfold tot. rewrite H1, H2, H3. reflexivity. Qed.

  Section Inv.
  Variables (U fin : Z).

  Record CInv (s : coll (St C)) : Prop := {
    ci_valid : k_valid s = true;
    ci_U : k_U s = U;
    ci_kids : exists vp vs, Forall2 kid_okc (pend_l s) vp /\ Forall2 sub_ok (k_subs s) vs /\ fin = zsum vp + zsum vs;
    ci_budget : PUs (pend_l s) + IUs (k_subs s) <= U;
    ci_memo : forall r, k_cost s = Some r -> k_pend s = None /\ r = tot s /\ zdefinitive r
  }.

  Lemma subs_facts : forall l vs, Forall2 sub_ok l vs -> 0 <= LBs l /\ LBs l <= zsum vs /\ zsum vs <= UBs l /\ UBs l <= IUs l.
  Proof.
    induction 1 as [|p v l vs (Hc & H0 & Hu) _ IH]; [unfold LBs, UBs, IUs; simpl; lia|].
    pose proof (cv_sound _ _ _ _ Hc). rewrite LBs_cons, UBs_cons, IUs_cons, zsum_cons'. lia.
  Qed.

  Lemma pend_facts : forall l vp, Forall2 kid_okc l vp -> 0 <= zsum vp /\ zsum vp <= PUs l.
  Proof.
    induction 1 as [|x v l vp (Hc & H0) _ IH]; [unfold PUs; simpl; lia|].
    pose proof (cv_sound _ _ _ _ Hc). rewrite PUs_cons, zsum_cons'. lia.
  Qed.

  Lemma inv_facts : forall s, CInv s ->
    0 <= fst (tot s) /\ fst (tot s) <= fin /\ fin <= snd (tot s) /\ snd (tot s) <= U.
  Proof.
    intros s [Hv HU (vp & vs & Hp & Hs & Hf) Hb Hm].
    pose proof (subs_facts _ _ Hs) as (S1 & S2 & S3 & S4). pose proof (pend_facts _ _ Hp) as (P1 & P2).
    unfold tot, pend_l in *. destruct (k_pend s) as [l|]; cbn [fst snd].
    - rewrite HU. lia.
    - inversion Hp; subst vp. unfold PUs in Hb. simpl in *. lia.
  Qed.

  Lemma set_subs_eta : forall s : coll (St C), set_subs s (k_subs s) = s.
  Proof. intros []. reflexivity. Qed.

  (* bounds(): returns the total; may memoise it *)
  Lemma bounds_spec : forall s, CInv s ->
    snd (coll_bounds (bnd C) s) = tot s /\ CInv (fst (coll_bounds (bnd C) s)) /\
    k_pend (fst (coll_bounds (bnd C) s)) = k_pend s /\ k_subs (fst (coll_bounds (bnd C) s)) = k_subs s /\
    k_U (fst (coll_bounds (bnd C) s)) = k_U s.
  Proof.
    intros s I. pose proof (inv_facts s I) as (F0 & F1 & F2 & F3).
    pose proof (ci_valid s I) as Hv. pose proof (ci_U s I) as HU. pose proof (ci_memo s I) as Hm.
    unfold coll_bounds. rewrite Hv. cbn [negb]. destruct (k_cost s) as [r|] eqn:Ec.
    - destruct (Hm r eq_refl) as (_ & -> & _). cbn [fst snd]. split; [reflexivity|]. split; [exact I|]. auto.
    - rewrite coll_total_eq. rewrite HU.
      assert (G : (U <? fst (tot s)) = false) by (apply Z.ltb_ge; lia). rewrite G.
      assert (E : (fst (tot s), Z.min U (snd (tot s))) = tot s) by (apply zr_eq; cbn [fst snd]; lia). rewrite E.
      destruct (k_pend s) as [l|] eqn:Ep; cbn [fst snd].
      + split; [reflexivity|]. split; [exact I|]. auto.
      + destruct (zdefb (tot s)) eqn:D; cbn [fst snd].
        * split; [reflexivity|]. split; [|cbn [set_memo k_pend k_subs k_U]; auto].
          destruct I as [_ _ Hk Hb _].
          constructor; cbn [set_memo k_valid k_U k_pend k_subs k_cost]; try assumption.
          intros r Hr. injection Hr as <-. split; [exact Ep|]. split; [|apply zdefb_spec; exact D].
          symmetry. apply tot_ext; reflexivity.
        * split; [reflexivity|]. split; [exact I|]. auto.
  Qed.

  Lemma bnd_tot : forall s, CInv s -> coll_bnd (bnd C) s = tot s.
  Proof. intros s I. unfold coll_bnd. apply (bounds_spec s I). Qed.

  Lemma tot_bounds : forall s, CInv s -> tot (fst (coll_bounds (bnd C) s)) = tot s.
  Proof. intros s I. destruct (bounds_spec s I) as (_ & _ & E1 & E2 & E3). apply tot_ext; assumption. Qed.

  (* _expand_edits() *)
  Lemma expand_spec : forall s, CInv s ->
    let e := coll_expand (bnd C) s in
    CInv (fst e) /\ zcontains (tot s) (tot (fst e)) /\
    (k_pend s <> None -> (plen (fst e) < plen s)%nat) /\
    (snd e = false -> k_pend (fst e) = None) /\ (k_pend s = None -> fst e = s).
  Proof.
    intros s I. pose proof (inv_facts s I) as (F0 & F1 & F2 & F3). pose proof I as I0.
    destruct I as [Hv HU (vp & vs & Hp & Hs & Hf) Hb Hm].
    pose proof (subs_facts _ _ Hs) as (S1 & S2 & S3 & S4).
    unfold coll_expand. cbn zeta. unfold pend_l, plen, tot in *. destruct (k_pend s) as [[|x rest]|] eqn:Ep; cbn [fst snd].
    - (* StopIteration *)
      split.
      + constructor; cbn [k_valid k_U k_pend k_subs k_cost]; try assumption.
        * exists vp, vs. auto.
        * intros r Hr. destruct (Hm r Hr) as (N & _). discriminate.
      + cbn [k_pend k_subs k_U]. unfold PUs in Hb. simpl in Hb. split; [split; cbn [fst snd]; lia|].
        split; [intros _; lia|]. split; [reflexivity|discriminate].
    - (* one more edit *)
      inversion Hp as [|x' v l' vp' (Hc & H0) Hrest]; subst.
      pose proof (cv_sound _ _ _ _ Hc) as Sx.
      split.
      + constructor; cbn [k_valid k_U k_pend k_subs k_cost]; try assumption; try reflexivity.
        * exists vp', (vs ++ [v]). split; [exact Hrest|]. split.
          -- apply Forall2_app; [exact Hs|]. constructor; [|constructor]. unfold sub_ok. cbn [fst snd]. split; [exact Hc|]. split; [exact H0|lia].
          -- rewrite zsum_app. simpl. simpl in Hf. lia.
        * unfold pend_l. cbn [k_pend]. rewrite IUs_app, IUs_cons. rewrite PUs_cons in Hb. change (IUs []) with 0.
          cbn [fst snd]. lia.
        * discriminate.
      + cbn [k_pend k_subs k_U]. rewrite LBs_app, IUs_app, UBs_app, LBs_cons, IUs_cons, UBs_cons.
        change (LBs []) with 0. change (IUs []) with 0. change (UBs []) with 0.
        cbn [fst snd]. split; [split; cbn [fst snd]; lia|].
        split; [intros _; cbn [length]; lia|]. split; [discriminate|discriminate].
    - rewrite !Ep. split; [exact I0|].
      split; [split; lia|].
      split; [intros N; exfalso; apply N; reflexivity|]. split; [intros _; reflexivity|reflexivity].
  Qed.

  (* replacing one expanded child by a state with the same or tighter bounds keeps the invariant *)
  Lemma replace_sub : forall s pre x iu rest x' v,
    CInv (set_subs s (pre ++ (x, iu) :: rest)) ->
    ContractV true C x v -> ContractV true C x' v -> zcontains (bnd C x) (bnd C x') ->
    k_cost s = None \/ bnd C x' = bnd C x ->
    CInv (set_subs s (pre ++ (x', iu) :: rest)) /\
    tot (set_subs s (pre ++ (x', iu) :: rest)) =
      (fst (tot (set_subs s (pre ++ (x, iu) :: rest))) + (fst (bnd C x') - fst (bnd C x)),
       snd (tot (set_subs s (pre ++ (x, iu) :: rest))) - (snd (bnd C x) - snd (bnd C x'))).
  Proof.
    intros s pre x iu rest x' v [Hv HU (vp & vs & Hp & Hs & Hf) Hb Hm] Hc Hc' [Z1 Z2] Hmemo.
    cbn [set_subs k_valid k_U k_pend k_subs k_cost] in *.
    assert (T : tot (set_subs s (pre ++ (x', iu) :: rest)) =
      (fst (tot (set_subs s (pre ++ (x, iu) :: rest))) + (fst (bnd C x') - fst (bnd C x)),
       snd (tot (set_subs s (pre ++ (x, iu) :: rest))) - (snd (bnd C x) - snd (bnd C x')))).
    { unfold tot. cbn [set_subs k_pend k_subs k_U]. rewrite !LBs_app, !UBs_app, !IUs_app, !LBs_cons, !UBs_cons, !IUs_cons.
      cbn [fst snd]. destruct (k_pend s); apply zr_eq; cbn [fst snd]; lia. }
    split; [|exact T].
    apply Forall2_app_inv_l in Hs. destruct Hs as (vs1 & vs2 & H1 & H2 & ->).
    inversion H2 as [|p v0 l vs2' (Hc0 & H00 & Hu0) H2']; subst. cbn [fst snd] in *.
    assert (v0 = v) by (rewrite <- (finv_spec _ _ _ _ Hc0), <- (finv_spec _ _ _ _ Hc); reflexivity). subst v0.
    constructor; cbn [set_subs k_valid k_U k_pend k_subs k_cost]; try assumption.
    - exists vp, (vs1 ++ v :: vs2'). split; [exact Hp|]. split; [|exact Hf].
      apply Forall2_app; [exact H1|]. constructor; [|exact H2']. unfold sub_ok. cbn [fst snd].
      split; [exact Hc'|]. split; lia.
    - unfold pend_l in *. cbn [set_subs k_pend] in *. rewrite IUs_app, IUs_cons in *. exact Hb.
    - intros r Hr. destruct Hmemo as [N|E]; [congruence|].
      destruct (Hm r Hr) as (M1 & M2 & M3). split; [exact M1|]. split; [|exact M3].
      rewrite M2. rewrite T. rewrite E. apply zr_eq; cbn [fst snd]; lia.
  Qed.

  Definition all_def (l : list (St C * Z)) : Prop := Forall (fun p => zdefinitive (bnd C (fst p))) l.

  Lemma set_subs_memo_none : forall (s : coll (St C)) l,
    set_memo (set_subs s l) None = set_subs (set_memo s None) l.
  Proof. intros [] l. reflexivity. Qed.

  Lemma cinv_drop_memo : forall s, CInv s -> CInv (set_memo s None) /\ tot (set_memo s None) = tot s.
  Proof.
    intros s [Hv HU Hk Hb Hm]. split; [|apply tot_ext; reflexivity].
    constructor; cbn [set_memo k_valid k_U k_pend k_subs k_cost]; try assumption. discriminate.
  Qed.

  (* the for loop over the expanded children *)
  Lemma for_spec : forall start post pre s,
    CInv (set_subs s (pre ++ post)) -> zcontains start (tot (set_subs s (pre ++ post))) -> all_def pre ->
    match coll_for (bnd C) (tig C) s start pre post false with
    | ForExit s3 => CInv s3 /\ zcontains start (tot s3) /\ tot s3 <> start
    | ForDone s3 tg => tg = false /\ CInv s3 /\ tot s3 = tot (set_subs s (pre ++ post)) /\ k_pend s3 = k_pend s /\
                       all_def (k_subs s3)
    end.
  Proof.
    intros start post. induction post as [|[x iu] rest IH]; intros pre s I Hc Hd.
    - cbn [coll_for]. rewrite app_nil_r in *. split; [reflexivity|]. split; [exact I|]. split; [reflexivity|].
      split; [reflexivity|exact Hd].
    - cbn [coll_for].
      assert (Hx : exists v, ContractV true C x v).
      { destruct I as [_ _ (vp & vs & _ & Hs & _) _ _]. cbn [set_subs k_subs] in Hs.
        apply Forall2_app_inv_l in Hs. destruct Hs as (vs1 & vs2 & _ & H2 & _).
        inversion H2 as [|p v0 l vs2' (Hc0 & _) _]; subst. exists v0. exact Hc0. }
      destruct Hx as [v Hv].
      pose proof (cv_step true C x v Hv) as (N1 & N2 & N3 & N4 & N5).
      destruct (snd (tig C x)) eqn:R.
      + (* the child reports progress: the collection's bounds are strictly tighter *)
        rewrite set_subs_memo_none.
        assert (I0 : CInv (set_subs (set_memo s None) (pre ++ (x, iu) :: rest))).
        { rewrite <- set_subs_memo_none. apply cinv_drop_memo. exact I. }
        destruct (replace_sub (set_memo s None) pre x iu rest (fst (tig C x)) v I0 Hv N1 N3 (or_introl eq_refl)) as [I1 T1].
        assert (T0 : tot (set_subs (set_memo s None) (pre ++ (x, iu) :: rest)) = tot (set_subs s (pre ++ (x, iu) :: rest)))
          by (apply tot_ext; reflexivity).
        rewrite T0 in T1.
        destruct (bounds_spec _ I1) as (B1 & B2 & B3 & B4 & B5). rewrite B1.
        pose proof (tot_bounds _ I1) as B6.
        destruct N3 as [C1 C2]. destruct Hc as [D1 D2].
        destruct (contained_neq_tighter _ _ (conj C1 C2) (N4 eq_refl)) as [L|L].
        * assert (Tt : tighter (tot (set_subs (set_memo s None) (pre ++ (fst (tig C x), iu) :: rest))) start = true).
          { apply tighter_spec. rewrite T1. cbn [fst snd]. lia. }
          rewrite Tt. split; [exact B2|]. rewrite B6, T1. cbn [fst snd]. split; [split; cbn [fst snd]; lia|].
          intros E. rewrite <- E in D1. cbn [fst] in D1. lia.
        * assert (Tt : tighter (tot (set_subs (set_memo s None) (pre ++ (fst (tig C x), iu) :: rest))) start = true).
          { apply tighter_spec. rewrite T1. cbn [fst snd]. lia. }
          rewrite Tt. split; [exact B2|]. rewrite B6, T1. cbn [fst snd]. split; [split; cbn [fst snd]; lia|].
          intros E. rewrite <- E in D2. cbn [snd] in D2. lia.
      + destruct (N5 eq_refl) as [Df Eq]. specialize (Eq eq_refl).
        destruct (replace_sub s pre x iu rest (fst (tig C x)) v I Hv N1 N3 (or_intror Eq)) as [I1 T1].
        assert (T2 : tot (set_subs s (pre ++ (fst (tig C x), iu) :: rest)) = tot (set_subs s (pre ++ (x, iu) :: rest))).
        { rewrite T1, Eq. apply zr_eq; cbn [fst snd]; lia. }
        specialize (IH (pre ++ [(fst (tig C x), iu)]) s). rewrite <- app_assoc in IH. cbn [app] in IH.
        rewrite <- T2 in Hc. specialize (IH I1 Hc).
        assert (Hd' : all_def (pre ++ [(fst (tig C x), iu)])).
        { apply Forall_app. split; [exact Hd|]. constructor; [exact Df|constructor]. }
        specialize (IH Hd'). rewrite T2 in IH. exact IH.
  Qed.

  Lemma all_def_tot : forall l, all_def l -> LBs l = UBs l.
  Proof.
    induction 1 as [|p l D _ IH]; [reflexivity|]. rewrite LBs_cons, UBs_cons. unfold zdefinitive in D. lia.
  Qed.

  (* the while loop of tighten_bounds() *)
  Lemma loop_spec : forall start fuel s, CInv s -> tot s = start -> (plen s < fuel)%nat ->
    let r := coll_loop (bnd C) (tig C) fuel start s in
    CInv (fst r) /\ zcontains start (tot (fst r)) /\
    (snd r = true -> tot (fst r) <> start) /\ (snd r = false -> tot (fst r) = start /\ zdefinitive start).
  Proof.
    intros start fuel. induction fuel as [|fuel IH]; intros s I Ht Hf; [lia|].
    cbn zeta. cbn [coll_loop].
    pose proof (expand_spec s I) as (E1 & E2 & E3 & E4 & E5). cbn zeta in *.
    set (e := coll_expand (bnd C) s) in *.
    unfold coll_is_tightened.
    destruct (bounds_spec _ E1) as (B1 & B2 & B3 & B4 & B5). pose proof (tot_bounds _ E1) as B6.
    rewrite B1. rewrite (ci_valid _ B2). cbn [negb orb fst snd].
    rewrite Ht in E2.
    destruct (snd e) eqn:Se; cbn [andb].
    - destruct (tighter (tot (fst e)) start) eqn:Tt.
      + cbn [fst snd]. split; [exact B2|]. rewrite B6. split; [exact E2|]. split; [|discriminate].
        intros _ E. rewrite E in Tt. apply tighter_spec in Tt. lia.
      + pose proof (contained_not_tighter_eq _ _ E2 Tt) as Eq.
        set (s2 := fst (coll_bounds (bnd C) (fst e))) in *.
        assert (I2 : CInv (set_subs s2 ([] ++ k_subs s2))) by (cbn [app]; rewrite set_subs_eta; exact B2).
        assert (C2 : zcontains start (tot (set_subs s2 ([] ++ k_subs s2)))).
        { cbn [app]. rewrite set_subs_eta, B6, Eq. apply contains_refl. }
        pose proof (for_spec start (k_subs s2) [] s2 I2 C2 (Forall_nil _)) as F.
        destruct (coll_for (bnd C) (tig C) s2 start [] (k_subs s2) false) as [s3|s3 tg].
        * destruct F as (F1 & F2 & F3). cbn [fst snd]. split; [exact F1|]. split; [exact F2|]. split; [intros _; exact F3|discriminate].
        * destruct F as (-> & F1 & F2 & F3 & F4). cbn [app] in F2. rewrite set_subs_eta, B6, Eq in F2.
          assert (Pn : k_pend s <> None).
          { intros N. unfold e, coll_expand in Se. rewrite N in Se. discriminate. }
          assert (Pl : (plen s3 < fuel)%nat).
          { specialize (E3 Pn). assert (Q : plen s3 = plen (fst e)) by (unfold plen; rewrite F3, B3; reflexivity).
            rewrite Q. lia. }
          destruct (k_pend s3) eqn:P3.
          -- apply IH; assumption.
          -- unfold coll_is_tightened. destruct (bounds_spec _ F1) as (G1 & G2 & _). pose proof (tot_bounds _ F1) as G6.
             rewrite G1. rewrite (ci_valid _ G2). cbn [negb orb fst snd].
             split; [exact G2|]. rewrite G6, F2. split; [apply contains_refl|].
             assert (Tf : tighter start start = false) by (apply tighter_false; lia). rewrite Tf.
             split; [discriminate|]. intros _. split; [reflexivity|].
             rewrite <- F2. unfold tot. rewrite P3. unfold zdefinitive. cbn [fst snd]. apply all_def_tot. exact F4.
    - (* nothing was expanded: the iterator is (now) known to be exhausted *)
      specialize (E4 eq_refl).
      set (s2 := fst e) in *.
      assert (I2 : CInv (set_subs s2 ([] ++ k_subs s2))) by (cbn [app]; rewrite set_subs_eta; exact E1).
      assert (C2 : zcontains start (tot (set_subs s2 ([] ++ k_subs s2)))) by (cbn [app]; rewrite set_subs_eta; exact E2).
      pose proof (for_spec start (k_subs s2) [] s2 I2 C2 (Forall_nil _)) as F.
      destruct (coll_for (bnd C) (tig C) s2 start [] (k_subs s2) false) as [s3|s3 tg].
      + destruct F as (F1 & F2 & F3). cbn [fst snd]. split; [exact F1|]. split; [exact F2|]. split; [intros _; exact F3|discriminate].
      + destruct F as (-> & F1 & F2 & F3 & F4). cbn [app] in F2. rewrite set_subs_eta in F2.
        rewrite E4 in F3. rewrite F3.
        unfold coll_is_tightened. destruct (bounds_spec _ F1) as (G1 & G2 & _). pose proof (tot_bounds _ F1) as G6.
        rewrite G1. rewrite (ci_valid _ G2). cbn [negb orb fst snd].
        split; [exact G2|]. rewrite G6, F2. split; [exact E2|].
        destruct (tighter (tot s2) start) eqn:Tt.
        * split; [|discriminate]. intros _ E. rewrite E in Tt. apply tighter_spec in Tt. lia.
        * pose proof (contained_not_tighter_eq _ _ E2 Tt) as Eq. split; [discriminate|]. intros _. split; [exact Eq|].
          rewrite <- Eq, <- F2. unfold tot. rewrite F3. unfold zdefinitive. cbn [fst snd]. apply all_def_tot. exact F4.
  Qed.

  Lemma coll_step : forall s, CInv s -> step_ok true (collM C) CInv fin s.
  Proof.
    intros s I. unfold step_ok. cbn [collM St bnd tig]. cbn zeta.
    pose proof (inv_facts s I) as (F0 & F1 & F2 & F3).
    rewrite (bnd_tot s I). unfold coll_tig. rewrite (ci_valid s I). cbn [negb].
    destruct (bounds_spec s I) as (B1 & B2 & B3 & B4 & B5). pose proof (tot_bounds s I) as B6.
    rewrite B1.
    assert (Pf : (plen (fst (coll_bounds (bnd C) s)) < S (S (length (match k_pend s with Some l => l | None => [] end))))%nat).
    { unfold plen. rewrite B3. destruct (k_pend s); simpl; lia. }
    pose proof (loop_spec (tot s) _ _ B2 B6 Pf) as (L1 & L2 & L3 & L4). cbn zeta in *.
    set (r := coll_loop (bnd C) (tig C) _ (tot s) (fst (coll_bounds (bnd C) s))) in *. cbn [fst snd].
    destruct (bounds_spec _ L1) as (_ & G2 & _). pose proof (tot_bounds _ L1) as G6.
    rewrite (bnd_tot _ G2), G6.
    split; [exact G2|]. split; [lia|]. split; [exact L2|]. split; [exact L3|].
    intros R. destruct (L4 R) as [E D]. rewrite E. split; [exact D|reflexivity].
  Qed.
  End Inv.

  (* EditCollection over children under the contract: the strict contract, final value = the sum of the children's *)
  Theorem coll_contract : forall U kids vs, Forall2 kid_okc kids vs -> PUs kids <= U ->
    ContractV true (collM C) (coll_init (bnd C) U kids) (zsum vs).
  Proof.
    intros U kids vs Hk Hb. exists (CInv U (zsum vs)). split; [|apply coll_step].
    unfold coll_init. apply bounds_spec.
    constructor; cbn [k_valid k_U k_pend k_subs k_cost]; try reflexivity.
    - exists vs, []. unfold pend_l. cbn [k_pend]. split; [exact Hk|]. split; [constructor|simpl; lia].
    - unfold pend_l, IUs. cbn [k_pend k_subs]. simpl. lia.
    - discriminate.
  Qed.

  (* what bounds() shows initially: [0, cost_upper_bound] *)
  Lemma coll_init_bnd : forall U kids vs, Forall2 kid_okc kids vs -> PUs kids <= U ->
    coll_bnd (bnd C) (coll_init (bnd C) U kids) = (0, U).
  Proof.
    intros U kids vs Hk Hb.
    assert (I : CInv U (zsum vs) (mk_coll U (Some kids) [] None true)).
    { constructor; cbn [k_valid k_U k_pend k_subs k_cost]; try reflexivity.
      - exists vs, []. unfold pend_l. cbn [k_pend]. split; [exact Hk|]. split; [constructor|simpl; lia].
      - unfold pend_l, IUs. cbn [k_pend k_subs]. simpl. lia.
      - discriminate. }
    unfold coll_init. destruct (bounds_spec _ _ _ I) as (_ & I' & _). rewrite (bnd_tot _ _ _ I').
    rewrite (tot_bounds _ _ _ I). unfold tot, LBs, IUs, UBs. cbn [k_pend k_subs k_U]. simpl. apply zr_eq; cbn [fst snd]; lia.
  Qed.
End CollContract.

(* the hypotheses are satisfiable: a collection over a constant and a fixed-length sequence edit *)
Example coll_instance :
  ContractV true (collM (fixedM constM)) (coll_init (bnd (fixedM constM)) 20 [([1; 0; 2], 3); ([], 4)]) 10.
Proof.
  apply (coll_contract (fixedM constM) 20 [([1; 0; 2], 3); ([], 4)] [6; 4]).
  - constructor; [split; [apply fixed_instance|simpl; lia]|].
    constructor; [|constructor]. split; [|simpl; lia].
    apply (fixed_contract true constM [] [] 4). constructor.
  - vm_compute. discriminate.
Qed.

Example coll_instance_trace :
  trace_of (collM (fixedM constM)) 6 (coll_init (bnd (fixedM constM)) 20 [([1; 0; 2], 3); ([], 4)]) =
  [EB (Fin 0, Fin 20); ET true; EB (Fin 6, Fin 20); EB (Fin 6, Fin 20); ET true; EB (Fin 10, Fin 20);
   EB (Fin 10, Fin 20); ET true; EB (Fin 10, Fin 10); EB (Fin 10, Fin 10); ET false; EB (Fin 10, Fin 10)].
Proof. vm_compute. reflexivity. Qed.
