(* C05: the machines of MachineModel.v extended with the other public operations of an edit, at the granularity of
   single method calls.  Definitions only (no proofs).
   What is new with respect to MachineModel.v (whose EditDistance state record `ed`, setters, `diag`, `add_border`,
   `cell_value`, `ed_bnd`, `ed_init` are REUSED by import):
     - bounds() and is_complete() are operations that may change the state: EditDistance.bounds() on a completed matrix
       calls edits(), which tightens the lower right cell, back-traces, records the cost and frees the matrix
       (_cleanup); the state "matrix complete, not yet finalised" (F2: e_d = m + n + 1, e_done = None), which the
       tighten-then-bounds observer of C04 never sees, is a state here;
     - every read of a child's bounds() made by the code is a step of the child (levenshtein.py:245,260,278-302,370);
     - DEFAULT_PRINTER.quiet selects whether tighten_bounds() reads the bounds of the fringe cells before and between
       their refinements (levenshtein.py:273-301);
     - edits() (memoised in __edits = e_done), is_complete(), valid, has_non_zero_cost(), the listing of sub-edits,
       addressing of sub-edits by their position in a listing, the library's completion idiom and the serialisation of
       the final nested script.
   Errors: an `assert` of the code that fails, or a loop of the model that runs out of fuel, sets a sticky error flag
   (e_err of the EditDistance state / the flag of AFixed); an operation that leaves a flag set is reported as RErr. *)
From Coq Require Import ZArith List Bool Lia.
Require Import GT.PyBase GT.Data GT.EdTypes GT.EdEngine GT.LevModel GTgen.EdGen GT.EdParams GT.ScriptSpec GT.ScriptModel
               GT.MachineSpec GT.MachineModel GT.ApiSpec.
Import ListNotations.
Open Scope Z_scope.

(* the operations of a child as its parent uses them *)
Record cops (X : Type) := mk_cops {
  k_bnd : X -> X * zr;
  k_tig : X -> X * bool;
  k_cmp : X -> X * bool;
  k_err : X -> bool;
  k_mu : X -> nat
}.
Arguments mk_cops {X}. Arguments k_bnd {X}. Arguments k_tig {X}. Arguments k_cmp {X}. Arguments k_err {X}. Arguments k_mu {X}.

(* apply a state-changing read to every element, left to right *)
Fixpoint thread {X R} (f : X -> X * R) (l : list X) : list X * list R :=
  match l with
  | [] => ([], [])
  | x :: l' => let p := f x in let r := thread f l' in (fst p :: fst r, snd p :: snd r)
  end.

(* all(f(x) for x in l): stops at the first False *)
Fixpoint thread_all {X} (f : X -> X * bool) (l : list X) : list X * bool :=
  match l with
  | [] => ([], true)
  | x :: l' => let p := f x in
               if snd p then let r := thread_all f l' in (fst p :: fst r, snd r)
               else (fst p :: l', false)
  end.

Definition nat_sum (l : list nat) : nat := fold_right Nat.add O l.

(* `a.tighten_bounds() or b.tighten_bounds() or ...` (MachineModel.first_true, sharing the evaluation of each call) *)
Fixpoint first_true {X} (t : X -> X * bool) (l : list X) : list X * bool :=
  match l with
  | [] => ([], false)
  | s :: l' => let p := t s in
               if snd p then (fst p :: l', true)
               else let r := first_true t l' in (fst p :: fst r, snd r)
  end.

(* ---------------------------------------------------------------- EditDistance, call by call *)
Section FED.
  Context {X : Type}.
  Variable C : cops X.
  Variable quiet : bool.                        (* DEFAULT_PRINTER.quiet *)

  Definition fempty (s : ed X) : bool := Nat.eqb (en s) 0 && Nat.eqb (em s) 0.
  Definition finner (s : ed X) : bool := Nat.leb 1 (em s) && Nat.leb 1 (en s).
  (* is_complete(): edit_matrix is None or edit_matrix[-1][-1] is not None *)
  Definition fcomplete (s : ed X) : bool :=
    match e_done s with Some _ => true | None => Nat.eqb (e_d s) (S (em s + en s)) end.

  (* self.edit_matrix[r+1][c+1].bounds() *)
  Definition read_kid (s : ed X) (r c : nat) : ed X * zr :=
    match kid_at s r c with
    | None => (set_err s, (0, 1))
    | Some x => let p := k_bnd C x in (set_kid s r c (fst p), snd p)
    end.

  (* while x.tighten_bounds(): [x.bounds()] *)
  Fixpoint kid_run (ft : bool) (fuel : nat) (x : X) : option X :=
    match fuel with
    | O => None
    | S f => let p := k_tig C x in
             if snd p
             then kid_run ft f (if ft then fst (k_bnd C (fst p)) else fst p)
             else Some (fst p)
    end.

  (* while not x.bounds().definitive() and x.tighten_bounds(): pass *)
  Fixpoint kid_run_def (fuel : nat) (x : X) : option X :=
    let p := k_bnd C x in
    if zdefb (snd p) then Some (fst p) else
    match fuel with
    | O => None
    | S f => let t := k_tig C (fst p) in
             if snd t then kid_run_def f (fst t) else Some (fst t)
    end.

  (* edits() on a complete matrix whose __edits is None: tighten the lower right cell until it is a single value,
     back-trace (_best_match(m, n) fills its cost; the cells of the path are recomputed from unchanged neighbours),
     _cleanup() *)
  Definition finalize_last (s : ed X) : ed X :=
    let m := em s in
    let n := en s in
    if finner s then
      match kid_at s (m - 1) (n - 1) with
      | None => set_err s
      | Some x =>
          match kid_run_def (S (k_mu C x)) x with
          | None => set_err s
          | Some x2 =>
              let p := k_bnd C x2 in
              let x3 := fst p in
              let b := snd p in
              if zdefb b then
                let s2 := set_kid s (m - 1) (n - 1) x3 in
                let cl := cell_value s2 m n (fst b) in
                set_done (set_cost s2 m n cl) (ccost cl)
              else set_err (set_kid s (m - 1) (n - 1) x3)
          end
      end
    else set_done s (ccost (cell_at (e_cost s) m n)).

  (* bounds() *)
  Definition fed_bnd (s : ed X) : ed X * zr :=
    if fempty s && (e_K s =? 0) then (s, (0, 0))
    else if fcomplete s then
      match e_done s with
      | Some c => (s, (c, c))
      | None => let s' := finalize_last s in
                (s', match e_done s' with Some c => (c, c) | None => (e_K s, e_U s) end)
      end
    else (s, ed_bnd s).

  (* tighten_bounds() on a complete matrix that is still there (levenshtein.py:245-251) *)
  Definition tig_complete (s : ed X) : ed X * bool :=
    if finner s then
      match kid_at s (em s - 1) (en s - 1) with
      | None => (set_err s, false)
      | Some x =>
          let p := k_bnd C x in
          let x1 := fst p in
          if zdefb (snd p) then (finalize_last (set_kid s (em s - 1) (en s - 1) x1), false)
          else let t := k_tig C x1 in (set_kid s (em s - 1) (en s - 1) (fst t), snd t)
      end
    else (finalize_last s, false).

  (* one inner cell of the fringe: while cell.tighten_bounds(): [cell.bounds()]; assert cell.bounds().definitive();
     _best_match(row, col) *)
  Definition fproc_cell (ft : bool) (s : ed X) (r c : nat) : ed X :=
    match kid_at s (r - 1) (c - 1) with
    | None => set_err s
    | Some x =>
        match kid_run ft (S (k_mu C x)) x with
        | None => set_err s
        | Some x1 =>
            let p := k_bnd C x1 in
            let x2 := fst p in
            let b := snd p in
            if zdefb b then set_cost (set_kid s (r - 1) (c - 1) x2) r c (cell_value s r c (fst b))
            else set_err (set_kid s (r - 1) (c - 1) x2)
        end
    end.

  (* fringe_ranges: upper_bound - lower_bound of every cell of the diagonal, two bounds() reads each (status on) *)
  Definition read_widths (s : ed X) (k : nat) : ed X * Z :=
    fold_left (fun acc p =>
                 if Nat.leb 1 (fst p) && Nat.leb 1 (snd p)
                 then let r1 := read_kid (fst acc) (fst p - 1) (snd p - 1) in
                      let r2 := read_kid (fst r1) (fst p - 1) (snd p - 1) in
                      (fst r2, snd acc + (snd (snd r1) - fst (snd r2)))
                 else acc)
              (diag (em s) (en s) k) (s, 0).

  Definition fproc_diag (s : ed X) (k : nat) : ed X :=
    let rw := if quiet then (s, 0) else read_widths s k in
    let s1 := fst rw in
    let ft := negb (snd rw =? 0) in
    fold_left (fun s p => if Nat.leb 1 (fst p) && Nat.leb 1 (snd p) then fproc_cell ft s (fst p) (snd p) else s)
              (diag (em s) (en s) k) s1.

  (* _next_fringe() returned False: the lower right cell has just been added (levenshtein.py:258-270) *)
  Definition fed_finalize (initial : zr) (s : ed X) : ed X * bool :=
    let k := (em s + en s)%nat in
    let s1 := add_border (set_d s (S k)) k in
    let sr :=
        if finner s1 then
          match kid_at s1 (em s - 1) (en s - 1) with
          | None => (set_err s1, false)
          | Some x =>
              let p := k_bnd C x in
              let s1' := set_kid s1 (em s - 1) (en s - 1) (fst p) in
              if zdefb (snd p) then (s1', false) else tig_complete s1'
          end
        else (s1, false) in
    if snd sr then (fst sr, true)
    else let fb := fed_bnd (fst sr) in (fst fb, tighter (snd fb) initial).

  (* the `while True` loop of tighten_bounds() while the matrix is being built *)
  Fixpoint fed_loop (fuel : nat) (initial : zr) (s : ed X) : ed X * bool :=
    match fuel with
    | O => (set_err s, false)
    | S f =>
        let k := e_d s in
        if Nat.leb (em s + en s) k then fed_finalize initial s
        else
          let s1 := add_border (set_d s (S k)) k in
          let s2 := if Nat.eqb k 0 then s1 else fproc_diag s1 k in
          if e_err s2 then (s2, false)
          else if tighter (ed_bnd s2) initial then (s2, true)
          else fed_loop f initial s2
    end.

  (* tighten_bounds() *)
  Definition fed_tig (s : ed X) : ed X * bool :=
    if fempty s then (s, false)
    else match e_done s with
         | Some _ => (s, false)                                  (* edit_matrix is None *)
         | None =>
             if e_err s then (s, false)
             else if fcomplete s then tig_complete s
             else fed_loop (S (em s + en s)) (ed_bnd s) s
         end.

  (* while not self.is_complete() and self.tighten_bounds(): pass *)
  Fixpoint drive_complete (fuel : nat) (s : ed X) : ed X :=
    if fcomplete s then s else
    match fuel with
    | O => set_err s
    | S f => let t := fed_tig s in if snd t then drive_complete f (fst t) else fst t
    end.

  (* edits() (the state change; the listing is read off the state afterwards) *)
  Definition fed_edits (s : ed X) : ed X :=
    match e_done s with
    | Some _ => s
    | None =>
        if fempty s then set_done s 0
        else
          let s1 := drive_complete (S (S (em s + en s))) s in
          if e_err s1 then s1
          else if fcomplete s1 then match e_done s1 with Some _ => s1 | None => finalize_last s1 end
          else set_err s1
    end.

  Definition fed_mu (s : ed X) : nat :=
    match e_done s with
    | Some _ => O
    | None => (S (S (em s + en s)) - e_d s) + nat_sum (map (fun row => nat_sum (map (k_mu C) row)) (e_kids s))
    end.

  Definition fed_err (s : ed X) : bool :=
    e_err s || existsb (fun row => existsb (k_err C) row) (e_kids s).

  (* the alignment the finalised state holds (positions in the trimmed sequences), in listing order *)
  Definition fed_alignment (s : ed X) : list op :=
    rev (backtrace (em s + en s) (e_cost s) (em s) (en s)).
End FED.

(* ---------------------------------------------------------------- repeat_until_tightened with a state-changing bounds() *)
Section ARut.
  Context {S : Type}.
  Variables (b : S -> S * zr) (f : S -> S).
  Fixpoint arut_loop (fuel : nat) (start : zr) (s : S) : S * bool * bool :=       (* state, result, fuel exhausted *)
    match fuel with
    | O => (s, false, true)
    | Datatypes.S fuel' =>
        let p := b (f s) in
        let s1 := fst p in
        let nb := snd p in
        if widened nb start then arut_loop fuel' start s1
        else if zdefb nb || tighter nb start then (s1, true, false)
        else arut_loop fuel' start s1
    end.
  Definition arut (fuel : nat) (s : S) : S * bool * bool :=
    let p := b s in
    if zdefb (snd p) then (fst p, false, false) else arut_loop fuel (snd p) (fst p).
End ARut.

(* ---------------------------------------------------------------- the universal machine *)
Inductive ast :=
  | AConst (c : Z) (t : tag)                                   (* ConstantCostEdit: Match / Replace / Remove / Insert *)
  | ASum (l : list ast)                                        (* KeyValuePairEdit: [key_edit; value_edit] *)
  | AFixed (l : list ast) (rems inss : list Z) (err : bool)    (* FixedLengthSequenceEdit: _sub_edits, costs of the surplus *)
  | AED (sk : option (str * str)) (p q : nat) (e : ed ast).    (* EditDistance (sk = None) / StringEdit over one (Some (s, t)) *)

Definition tag_of (s : ast) : tag :=
  match s with
  | AConst _ t => t
  | ASum _ => TKvp
  | AFixed _ _ _ _ => TFixed
  | AED None _ _ _ => TEditDist
  | AED (Some _) _ _ _ => TString
  end.

Fixpoint muA (s : ast) : nat :=
  match s with
  | AConst _ _ => O
  | ASum l => nat_sum (map muA l)
  | AFixed l _ _ _ => nat_sum (map muA l)
  | AED _ _ _ e =>
      match e_done e with
      | Some _ => O
      | None => (S (S (length (e_ic e) + length (e_rc e))) - e_d e) + nat_sum (map (fun row => nat_sum (map muA row)) (e_kids e))
      end
  end.

Fixpoint errA (s : ast) : bool :=
  match s with
  | AConst _ _ => false
  | ASum l => existsb errA l
  | AFixed l _ _ err => err || existsb errA l
  | AED _ _ _ e => e_err e || existsb (fun row => existsb errA row) (e_kids e)
  end.

Definition sum_bnd {X} (C : cops X) (l : list X) : list X * zr :=
  let t := thread (k_bnd C) l in (fst t, zr_sum (snd t)).

Section Universal.
  Variable quiet : bool.

  (* operations on states of nesting depth <= d *)
  Fixpoint opsA (d : nat) : cops ast :=
    match d with
    | O => mk_cops (fun s => match s with AConst c _ => (s, (c, c)) | _ => (s, (0, 0)) end)
                   (fun s => (s, false)) (fun s => (s, true)) errA muA
    | S d' =>
        let C := opsA d' in
        let bnd := fun s =>
          match s with
          | AConst c _ => (s, (c, c))
          | ASum l => let sb := sum_bnd C l in (ASum (fst sb), snd sb)
          | AFixed l rems inss err =>
              let sb := sum_bnd C l in
              let r := snd sb in
              (AFixed (fst sb) rems inss err, (fst r + zsum rems + zsum inss, snd r + zsum rems + zsum inss))
          | AED sk p q e => let fb := fed_bnd C e in (AED sk p q (fst fb), snd fb)
          end in
        let fixed_bnd := fun rems inss (l : list ast) =>
          let sb := sum_bnd C l in
          let r := snd sb in
          (fst sb, (fst r + zsum rems + zsum inss, snd r + zsum rems + zsum inss)) in
        let tig := fun s =>
          match s with
          | AConst _ _ => (s, false)
          | ASum l => let ft := first_true (k_tig C) l in (ASum (fst ft), snd ft)
          | AFixed l rems inss err =>
              let r := arut (fixed_bnd rems inss) (fun l => fst (first_true (k_tig C) l)) (S (nat_sum (map (k_mu C) l))) l in
              (AFixed (fst (fst r)) rems inss (err || snd r), snd (fst r))
          | AED sk p q e => let ft := fed_tig C quiet e in (AED sk p q (fst ft), snd ft)
          end in
        let cmp := fun s =>
          match s with
          | AConst _ _ => (s, true)
          | ASum _ => let bs := bnd s in (fst bs, zdefb (snd bs))                (* AbstractEdit.is_complete *)
          | AFixed l rems inss err => let ta := thread_all (k_cmp C) l in (AFixed (fst ta) rems inss err, snd ta)
          | AED None _ _ e => (s, fcomplete e)
          | AED (Some _) _ _ _ => let bs := bnd s in (fst bs, zdefb (snd bs))    (* StringEdit: AbstractEdit.is_complete *)
          end in
        mk_cops bnd tig cmp errA muA
    end.

  Fixpoint nat_max_list (l : list nat) : nat := match l with [] => O | x :: l' => Nat.max x (nat_max_list l') end.
  Fixpoint aheight (s : ast) : nat :=
    match s with
    | AConst _ _ => O
    | ASum l => S (nat_max_list (map aheight l))
    | AFixed l _ _ _ => S (nat_max_list (map aheight l))
    | AED _ _ _ e => S (nat_max_list (map (fun row => nat_max_list (map aheight row)) (e_kids e)))
    end.

  (* ---------------------------------------------------------------- the public operations on one object *)
  Section Ops.
    Variable d : nat.
    Let C := opsA d.

    (* Edit.has_non_zero_cost (tree.py:100-108) *)
    Fixpoint hnz (fuel : nat) (s : ast) : ast * bool :=
      let p1 := k_bnd C s in
      let p2 := k_bnd C (fst p1) in
      if zdefb (snd p1) then (fst p2, 0 <? fst (snd p2))
      else
        let s2 := fst p2 in
        if fst (snd p2) <=? 0 then
          match fuel with
          | O => (s2, false)
          | S f => let t := k_tig C s2 in
                   if snd t then hnz f (fst t)
                   else let p3 := k_bnd C (fst t) in (fst p3, 0 <? fst (snd p3))
          end
        else let p3 := k_bnd C s2 in (fst p3, 0 <? fst (snd p3)).

    (* list(e.edits()) of a CompoundEdit: new state, classes of the listed edits *)
    Definition listing (s : ast) : ast * option (list tag) :=
      match s with
      | AConst _ _ => (s, None)
      | ASum l => (s, Some (map tag_of l))
      | AFixed l rems inss _ => (s, Some (map tag_of l ++ map (fun _ => TRemove) rems ++ map (fun _ => TInsert) inss))
      | AED (Some _) _ _ _ => (s, None)                       (* StringEdit is not a CompoundEdit *)
      | AED None p q e =>
          let e' := fed_edits (opsA (d - 1)) quiet e in
          (AED None p q e',
           Some (repeat TMatch p ++
                 map (fun o => match o with
                               | OMatch c r => match kid_at e' r c with Some x => tag_of x | None => TOther end
                               | ORem _ => TRemove
                               | OIns _ => TInsert
                               end) (fed_alignment e') ++
                 repeat TMatch q))
      end.

    Definition apply_op (o : bop) (s : ast) : ast * outcome :=
      let r :=
        match o with
        | OBounds => let p := k_bnd C s in (fst p, RRange (rng_of (snd p)))
        | OTighten => let p := k_tig C s in (fst p, RBool (snd p))
        | OIsComplete => let p := k_cmp C s in (fst p, RBool (snd p))
        | OValid => (s, RBool true)
        | OEdits => let p := listing s in (fst p, match snd p with Some l => REdits l | None => RNA end)
        | OHasNonZero => let p := hnz (S (muA s)) s in (fst p, RBool (snd p))
        end in
      if errA (fst r) then (fst r, RErr 2) else r.

    (* the i-th edit of the listing of s *)
    Definition sub_get (s : ast) (i : nat) : option ast :=
      match s with
      | AConst _ _ => None
      | ASum l => nth_error l i
      | AFixed l rems inss _ =>
          if Nat.ltb i (length l) then nth_error l i
          else if Nat.ltb i (length l + length rems) then Some (AConst (nth (i - length l) rems 0) TRemove)
          else if Nat.ltb i (length l + length rems + length inss)
               then Some (AConst (nth (i - length l - length rems) inss 0) TInsert)
               else None
      | AED (Some _) _ _ _ => None
      | AED None p q e =>
          match e_done e with
          | None => None
          | Some _ =>
              if Nat.ltb i p then Some (AConst 0 TMatch)
              else match nth_error (fed_alignment e) (i - p) with
                   | Some (OMatch c r) => kid_at e r c
                   | Some (ORem c) => Some (AConst (nth c (e_rc e) 0) TRemove)
                   | Some (OIns r) => Some (AConst (nth r (e_ic e) 0) TInsert)
                   | None => if Nat.ltb (i - p - length (fed_alignment e)) q then Some (AConst 0 TMatch) else None
                   end
          end
      end.

    Definition sub_put (s : ast) (i : nat) (x : ast) : ast :=
      match s with
      | ASum l => ASum (set_nth i x l)
      | AFixed l rems inss err => if Nat.ltb i (length l) then AFixed (set_nth i x l) rems inss err else s
      | AED None p q e =>
          match e_done e with
          | None => s
          | Some _ =>
              if Nat.ltb i p then s
              else match nth_error (fed_alignment e) (i - p) with
                   | Some (OMatch c r) => AED None p q (set_kid e r c x)
                   | _ => s
                   end
          end
      | _ => s
      end.

    (* while edit.valid and not edit.is_complete() and edit.tighten_bounds(): pass   (TreeNode.diff) *)
    Fixpoint idiom (fuel : nat) (s : ast) : ast :=
      let p := k_cmp C s in
      if snd p then fst p else
      match fuel with
      | O => fst p
      | S f => let t := k_tig C (fst p) in if snd t then idiom f (fst t) else fst t
      end.

    (* while not e.bounds().definitive() and e.tighten_bounds(): pass *)
    Fixpoint tighten_def (fuel : nat) (s : ast) : ast :=
      let p := k_bnd C s in
      if zdefb (snd p) then fst p else
      match fuel with
      | O => fst p
      | S f => let t := k_tig C (fst p) in if snd t then tighten_def f (fst t) else fst t
      end.

    (* the final cost: completion idiom, then tighten until single-valued, then bounds() *)
    Definition final_cost_of (s : ast) : option Z :=
      let s1 := tighten_def (S (muA s)) s in
      let p := k_bnd C s1 in
      let b := snd p in
      if errA (fst p) then None else if zdefb b then Some (fst b) else None.
  End Ops.

  (* a call addressed to a sub-edit: the sub-edit is one nesting level down, where its parent operates it, too *)
  Fixpoint nav (path : list nat) (d : nat) (o : bop) (s : ast) : ast * outcome :=
    match path with
    | [] => apply_op d o s
    | i :: rest =>
        match sub_get s i with
        | None => (s, RNoSub)
        | Some x => let p := nav rest (d - 1) o x in (sub_put s i (fst p), snd p)
        end
    end.

  Definition step (d : nat) (s : ast) (c : call) : ast * outcome := nav (fst c) d (snd c) s.

  (* the history; execution stops at the first call that raises *)
  Fixpoint run_hist (d : nat) (h : history) (s : ast) : ast * list outcome :=
    match h with
    | [] => (s, [])
    | c :: h' =>
        let p := step d s c in
        let s1 := fst p in
        let o := snd p in
        if is_err o then (s1, [o]) else let r := run_hist d h' s1 in (fst r, o :: snd r)
    end.

  (* the universal machine at depth d as an API machine (ApiSpec.amachine) *)
  Definition AM (d : nat) : amachine :=
    {| ASt := ast; a_bnd := k_bnd (opsA d); a_tig := k_tig (opsA d); a_cmp := k_cmp (opsA d);
       a_eds := fun s => fst (listing d s); a_err := errA; a_mu := muA |}.

  (* ---------------------------------------------------------------- the final nested script (scriptlib.ser_edit):
     sub-edits are listed (which finalises an EditDistance), serialised recursively, then the edit itself is tightened
     until its bounds are a single value, which is its own cost *)
  Fixpoint all_some_e (l : list (option edit)) : option (list edit) :=
    match l with
    | [] => Some []
    | Some x :: l' => match all_some_e l' with Some r => Some (x :: r) | None => None end
    | None :: _ => None
    end.

  Fixpoint serA (d : nat) (s : ast) : ast * option edit :=
    match d with
    | O => (s, match s with
               | AConst c t => Some (match t with TReplace => EReplace c | _ => EMatch c end)
               | _ => None
               end)
    | S d' =>
        let own := fun s1 => let s2 := tighten_def d (S (muA s1)) s1 in
                             let p := k_bnd (opsA d) s2 in
                             (fst p, if errA (fst p) then None else if zdefb (snd p) then Some (fst (snd p)) else None) in
        match s with
        | AConst c t => (s, Some (match t with TReplace => EReplace c | _ => EMatch c end))
        | ASum l =>
            let th := thread (serA d') l in
            let l' := fst th in
            let es := snd th in
            let s1 := ASum l' in
            let ow := own s1 in
            (fst ow,
             match all_some_e es, snd ow with
             | Some es', Some c => Some (EComp KKvp c (mapi (fun i e => SPair i i e) es'))
             | _, _ => None
             end)
        | AFixed l rems inss err =>
            let th := thread (serA d') l in
            let l' := fst th in
            let es := snd th in
            let s1 := AFixed l' rems inss err in
            let k := length l in
            let ow := own s1 in
            (fst ow,
             match all_some_e es, snd ow with
             | Some es', Some c =>
                 Some (EComp KFixedLen c (mapi (fun i e => SPair i i e) es' ++
                                          mapi (fun i c => SRem (k + i) c) rems ++ mapi (fun j c => SIns (k + j) c) inss))
             | _, _ => None
             end)
        | AED None p q e =>
            let e' := fed_edits (opsA d') quiet e in
            let nf := (p + length (e_rc e) + q)%nat in
            let mf := (p + length (e_ic e) + q)%nat in
            let subs := map (fun o => match o with
                                      | OMatch c r =>
                                          match kid_at e' r c with
                                          | Some x => match snd (serA d' x) with
                                                      | Some ed => Some (SPair (p + c) (p + r) ed)
                                                      | None => None
                                                      end
                                          | None => None
                                          end
                                      | ORem c => Some (SRem (p + c) (nth c (e_rc e) 0))
                                      | OIns r => Some (SIns (p + r) (nth r (e_ic e) 0))
                                      end) (fed_alignment e') in
            let s1 := AED None p q e' in
            let ow := own s1 in
            (fst ow,
             match all_some subs, snd ow with
             | Some ss, Some c =>
                 Some (EComp KEditDist c (map (fun i => SPair i i (EMatch 0)) (seq 0 p) ++ ss ++
                                          map (fun k => SPair (nf - q + k) (mf - q + k) (EMatch 0)) (seq 0 q)))
             | _, _ => None
             end)
        | AED (Some (u, t)) p q e =>
            let e' := fed_edits (opsA d') quiet e in
            let u' := middle p q u in
            let t' := middle p q t in
            let sops := map (fun o => match o with
                                      | OMatch c r => let x := nth c u' 0 in let y := nth r t' 0 in
                                                      if x =? y then SKeep x else SSub x y
                                      | ORem c => SDel (nth c u' 0)
                                      | OIns r => SAdd (nth r t' 0)
                                      end) (fed_alignment e') in
            let s1 := AED (Some (u, t)) p q e' in
            let ow := own s1 in
            (fst ow,
             match snd ow with
             | Some c => Some (EStr c (map SKeep (firstn p u) ++ sops ++ map SKeep (skipn (length u - q) u)))
             | None => None
             end)
        end
    end.

  (* one run: the history, then the completion idiom, then the script *)
  Definition finish (d : nat) (s : ast) : option edit :=
    snd (serA d (idiom d (S (muA s)) s)).

  Definition finish_cost (d : nat) (s : ast) : option Z :=
    final_cost_of d (idiom d (S (muA s)) s).

  Definition run_model (s0 : ast) (h : history) : list outcome * option edit :=
    let d := aheight s0 in
    let r := run_hist d h s0 in
    (snd r, if existsb is_err (snd r) then None else finish d (fst r)).
End Universal.

(* ---------------------------------------------------------------- a.edits(b) for the modelled fragment *)
Definition const_tag_of (a b : tree) : option (Z * tag) :=
  match a with
  | Leaf x => match leaf_script x a b with
              | OK (EMatch c) => Some (c, TMatch)
              | OK (EReplace c) => Some (c, TReplace)
              | _ => None
              end
  | Lst _ _ _ => match list_dispatch a b with
                 | LMatch0 => Some (0, TMatch)
                 | LReplace => Some (replace_cost a b, TReplace)
                 | _ => None
                 end
  | Kvp ake k _ => match b with
                   | Kvp _ k' _ => if ake || node_eqb k k' then None else Some (replace_cost a b, TReplace)
                   | _ => None
                   end
  | _ => None
  end.

Definition str_astate (s t : str) : ast :=
  let '(p, q) := trim Z.eqb s t in
  let s' := middle p q s in
  let t' := middle p q t in
  AED (Some (s, t)) p q
      (ed_init (map (fun _ => 1) s) (map (fun _ => 1) t) p q
               (map (fun d => map (fun c => AConst (char_cost c d) TMatch) s') t')).

Fixpoint initA (a b : tree) {struct a} : option ast :=
  match const_tag_of a b with
  | Some (c, t) => Some (AConst c t)
  | None =>
      match a with
      | Leaf x =>
          match b with
          | Leaf y => match lk x, lk y with
                      | KStr, KStr => Some (str_astate (ltext x) (ltext y))
                      | _, _ => None
                      end
          | _ => None
          end
      | Lst ale alsl cs =>
          let ds := match b with Lst _ _ ds => ds | _ => [] end in
          let M := map (fun c => map (fun d => initA c d) ds) cs in
          match list_dispatch a b with
          | LFixed =>
              let n := length cs in
              let m := length ds in
              let pairs := map (fun i => match mget M i i with Some (Some s) => Some s | _ => None end)
                               (seq 0 (Nat.min n m)) in
              let rems := if Nat.ltb m n
                          then map (fun i => remove_cost (nth i cs dummy) 1) (seq (remove_from_pos n m) (n - remove_from_pos n m))
                          else [] in
              let inss := if Nat.ltb n m
                          then map (fun j => insert_cost (nth j ds dummy) 1) (seq (insert_from_pos n m) (m - insert_from_pos n m))
                          else [] in
              match all_some_l pairs with
              | Some l => Some (AFixed l rems inss false)
              | None => None
              end
          | LEditDist penalty =>
              let '(p, q) := trim node_eqb cs ds in
              let nc := length (middle p q cs) in
              let nr := length (middle p q ds) in
              let kids := map (fun r => all_some_l (map (fun c => match mget M (p + c) (p + r) with
                                                                  | Some (Some s) => Some s | _ => None end)
                                                        (seq 0 nc))) (seq 0 nr) in
              match all_some_l kids with
              | Some ks => Some (AED None p q (ed_init (map (fun c => remove_cost c penalty) cs)
                                                       (map (fun d => insert_cost d penalty) ds) p q ks))
              | None => None
              end
          | _ => None
          end
      | Kvp ake k v =>
          match b with
          | Kvp _ k' v' =>
              let ke := if node_eqb k k' then Some (AConst 0 TMatch) else initA k k' in
              let ve := if node_eqb v v' then Some (AConst 0 TMatch) else initA v v' in
              match ke, ve with
              | Some x, Some y => Some (ASum [x; y])
              | _, _ => None
              end
          | _ => None
          end
      | _ => None
      end
  end.

(* ---------------------------------------------------------------- correspondence *)
Definition oedit_eqb (x y : option edit) : bool :=
  match x, y with
  | Some e, Some e' => script_eqb e e'
  | None, None => true
  | _, _ => false
  end.

Definition modelled_C05 (c : case) : bool :=
  match initA (c_a c) (c_b c) with Some _ => true | None => false end.

(* the model fed the same history under the same quiet setting reproduces every outcome and the final script;
   the canonical drive is the empty history under a quiet printer *)
Definition corr_run (s0 : ast) (h : history) (r : run) : bool :=
  let m := run_model (r_quiet r) s0 h in
  outcomes_eqb (fst m) (r_outs r) && oedit_eqb (snd m) (r_final r).

Definition corr_C05 (c : case) : bool :=
  match initA (c_a c) (c_b c) with
  | None => true
  | Some s0 =>
      oedit_eqb (snd (run_model true s0 [])) (c_canon c) &&
      forallb (corr_run s0 (c_hist c)) (c_runs c)
  end.
