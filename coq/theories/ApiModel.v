(* C05: the machines of MachineModel.v extended with the other public operations of an edit, at the granularity of
   single method calls.  Definitions only (no proofs).
   What is new with respect to MachineModel.v (whose EditDistance state record `ed`, setters, `diag`, `add_border`,
   `cell_value`, `ed_bnd`, `ed_init` are REUSED by import):
     - bounds() and is_complete() are operations that may change the state: EditDistance.bounds() on a completed matrix
       calls edits(), which tightens the lower right cell, back-traces, records the cost and frees the matrix
       (_cleanup); the state "matrix complete, not yet finalised" (F2: e_d = m + n + 1, e_done = None), which the
       tighten-then-bounds observer of C04 never sees, is a state here;
     - every read of a child's bounds() made by the code is a step of the child (levenshtein.py:245,260,278-302,370);
     - DEFAULT_PRINTER.quiet selects whether tighten_bounds() reads the bounds of the fringe cells before and between
       their refinements (levenshtein.py:273-301);
     - edits() (memoised in __edits = e_done), is_complete(), valid, has_non_zero_cost(), the listing of sub-edits,
       addressing of sub-edits by their position in a listing, the library's completion idiom and the serialisation of
       the final nested script.
   Errors: an `assert` of the code that fails, or a loop of the model that runs out of fuel, sets a sticky error flag
   (e_err of the EditDistance state / the flag of AFixed); an operation that leaves a flag set is reported as RErr. *)
From Coq Require Import ZArith List Bool Lia.
Require Import GT.PyBase GT.Data GT.EdTypes GT.EdEngine GT.LevModel GTgen.EdGen GT.EdParams GT.ScriptSpec GT.ScriptModel
               GT.MachineSpec GT.MachineModel GT.ApiSpec.
Import ListNotations.
Open Scope Z_scope.

(* the operations of a child as its parent uses them *)
Record cops (X : Type) := mk_cops {
  k_bnd : X -> X * zr;
  k_tig : X -> X * bool;
  k_cmp : X -> X * bool;
  k_err : X -> bool;
  k_mu : X -> nat
}.
Arguments mk_cops {X}. Arguments k_bnd {X}. Arguments k_tig {X}. Arguments k_cmp {X}. Arguments k_err {X}. Arguments k_mu {X}.

(* apply a state-changing read to every element, left to right *)
Fixpoint thread {X R} (f : X -> X * R) (l : list X) : list X * list R :=
  match l with
  | [] => ([], [])
  | x :: l' => let p := f x in let r := thread f l' in (fst p :: fst r, snd p :: snd r)
  end.

(* all(f(x) for x in l): stops at the first False *)
Fixpoint thread_all {X} (f : X -> X * bool) (l : list X) : list X * bool :=
  match l with
  | [] => ([], true)
  | x :: l' => let p := f x in
               if snd p then let r := thread_all f l' in (fst p :: fst r, snd r)
               else (fst p :: l', false)
  end.

Definition nat_sum (l : list nat) : nat := fold_right Nat.add O l.

(* `a.tighten_bounds() or b.tighten_bounds() or ...` (MachineModel.first_true, sharing the evaluation of each call) *)
Fixpoint first_true {X} (t : X -> X * bool) (l : list X) : list X * bool :=
  match l with
  | [] => ([], false)
  | s :: l' => let p := t s in
               if snd p then (fst p :: l', true)
               else let r := first_true t l' in (fst p :: fst r, snd r)
  end.

(* ---------------------------------------------------------------- EditDistance, call by call *)
Section FED.
  Context {X : Type}.
  Variable C : cops X.
  Variable quiet : bool.                        (* DEFAULT_PRINTER.quiet *)

  Definition fempty (s : ed X) : bool := Nat.eqb (en s) 0 && Nat.eqb (em s) 0.
  Definition finner (s : ed X) : bool := Nat.leb 1 (em s) && Nat.leb 1 (en s).
  (* is_complete(): edit_matrix is None or edit_matrix[-1][-1] is not None *)
  Definition fcomplete (s : ed X) : bool :=
    match e_done s with Some _ => true | None => Nat.eqb (e_d s) (S (em s + en s)) end.

  (* self.edit_matrix[r+1][c+1].bounds() *)
  Definition read_kid (s : ed X) (r c : nat) : ed X * zr :=
    match kid_at s r c with
    | None => (set_err s, (0, 1))
    | Some x => let p := k_bnd C x in (set_kid s r c (fst p), snd p)
    end.

  (* while x.tighten_bounds(): [x.bounds()] *)
  Fixpoint kid_run (ft : bool) (fuel : nat) (x : X) : option X :=
    match fuel with
    | O => None
    | S f => let p := k_tig C x in
             if snd p
             then kid_run ft f (if ft then fst (k_bnd C (fst p)) else fst p)
             else Some (fst p)
    end.

  (* while not x.bounds().definitive() and x.tighten_bounds(): pass *)
  Fixpoint kid_run_def (fuel : nat) (x : X) : option X :=
    let p := k_bnd C x in
    if zdefb (snd p) then Some (fst p) else
    match fuel with
    | O => None
    | S f => let t := k_tig C (fst p) in
             if snd t then kid_run_def f (fst t) else Some (fst t)
    end.

  (* edits() on a complete matrix whose __edits is None: tighten the lower right cell until it is a single value,
     back-trace (_best_match(m, n) fills its cost; the cells of the path are recomputed from unchanged neighbours),
     _cleanup() *)
  Definition finalize_last (s : ed X) : ed X :=
    let m := em s in
    let n := en s in
    if finner s then
      match kid_at s (m - 1) (n - 1) with
      | None => set_err s
      | Some x =>
          match kid_run_def (S (k_mu C x)) x with
          | None => set_err s
          | Some x2 =>
              let p := k_bnd C x2 in
              let x3 := fst p in
              let b := snd p in
              if zdefb b then
                let s2 := set_kid s (m - 1) (n - 1) x3 in
                let cl := cell_value s2 m n (fst b) in
                set_done (set_cost s2 m n cl) (ccost cl)
              else set_err (set_kid s (m - 1) (n - 1) x3)
          end
      end
    else set_done s (ccost (cell_at (e_cost s) m n)).

  (* bounds() *)
  Definition fed_bnd (s : ed X) : ed X * zr :=
    if fempty s && (e_K s =? 0) then (s, (0, 0))
    else if fcomplete s then
      match e_done s with
      | Some c => (s, (c, c))
      | None => let s' := finalize_last s in
                (s', match e_done s' with Some c => (c, c) | None => (e_K s, e_U s) end)
      end
    else (s, ed_bnd s).

  (* tighten_bounds() on a complete matrix that is still there (levenshtein.py:245-251) *)
  Definition tig_complete (s : ed X) : ed X * bool :=
    if finner s then
      match kid_at s (em s - 1) (en s - 1) with
      | None => (set_err s, false)
      | Some x =>
          let p := k_bnd C x in
          let x1 := fst p in
          if zdefb (snd p) then (finalize_last (set_kid s (em s - 1) (en s - 1) x1), false)
          else let t := k_tig C x1 in (set_kid s (em s - 1) (en s - 1) (fst t), snd t)
      end
    else (finalize_last s, false).

  (* one inner cell of the fringe: while cell.tighten_bounds(): [cell.bounds()]; assert cell.bounds().definitive();
     _best_match(row, col) *)
  Definition fproc_cell (ft : bool) (s : ed X) (r c : nat) : ed X :=
    match kid_at s (r - 1) (c - 1) with
    | None => set_err s
    | Some x =>
        match kid_run ft (S (k_mu C x)) x with
        | None => set_err s
        | Some x1 =>
            let p := k_bnd C x1 in
            let x2 := fst p in
            let b := snd p in
            if zdefb b then set_cost (set_kid s (r - 1) (c - 1) x2) r c (cell_value s r c (fst b))
            else set_err (set_kid s (r - 1) (c - 1) x2)
        end
    end.

  (* fringe_ranges: upper_bound - lower_bound of every cell of the diagonal, two bounds() reads each (status on) *)
  Definition read_widths (s : ed X) (k : nat) : ed X * Z :=
    fold_left (fun acc p =>
                 if Nat.leb 1 (fst p) && Nat.leb 1 (snd p)
                 then let r1 := read_kid (fst acc) (fst p - 1) (snd p - 1) in
                      let r2 := read_kid (fst r1) (fst p - 1) (snd p - 1) in
                      (fst r2, snd acc + (snd (snd r1) - fst (snd r2)))
                 else acc)
              (diag (em s) (en s) k) (s, 0).

  Definition fproc_diag (s : ed X) (k : nat) : ed X :=
    let rw := if quiet then (s, 0) else read_widths s k in
    let s1 := fst rw in
    let ft := negb (snd rw =? 0) in
    fold_left (fun s p => if Nat.leb 1 (fst p) && Nat.leb 1 (snd p) then fproc_cell ft s (fst p) (snd p) else s)
              (diag (em s) (en s) k) s1.

  (* _next_fringe() returned False: the lower right cell has just been added (levenshtein.py:258-270) *)
  Definition fed_finalize (initial : zr) (s : ed X) : ed X * bool :=
    let k := (em s + en s)%nat in
    let s1 := add_border (set_d s (S k)) k in
    let sr :=
        if finner s1 then
          match kid_at s1 (em s - 1) (en s - 1) with
          | None => (set_err s1, false)
          | Some x =>
              let p := k_bnd C x in
              let s1' := set_kid s1 (em s - 1) (en s - 1) (fst p) in
              if zdefb (snd p) then (s1', false) else tig_complete s1'
          end
        else (s1, false) in
    if snd sr then (fst sr, true)
    else let fb := fed_bnd (fst sr) in (fst fb, tighter (snd fb) initial).

  (* the `while True` loop of tighten_bounds() while the matrix is being built *)
  Fixpoint fed_loop (fuel : nat) (initial : zr) (s : ed X) : ed X * bool :=
    match fuel with
    | O => (set_err s, false)
    | S f =>
        let k := e_d s in
        if Nat.leb (em s + en s) k then fed_finalize initial s
        else
          let s1 := add_border (set_d s (S k)) k in
          let s2 := if Nat.eqb k 0 then s1 else fproc_diag s1 k in
          if e_err s2 then (s2, false)
          else if tighter (ed_bnd s2) initial then (s2, true)
          else fed_loop f initial s2
    end.

  (* tighten_bounds() *)
  Definition fed_tig (s : ed X) : ed X * bool :=
    if fempty s then (s, false)
    else match e_done s with
         | Some _ => (s, false)                                  (* edit_matrix is None *)
         | None =>
             if e_err s then (s, false)
             else if fcomplete s then tig_complete s
             else fed_loop (S (em s + en s)) (ed_bnd s) s
         end.

  (* while not self.is_complete() and self.tighten_bounds(): pass *)
  Fixpoint drive_complete (fuel : nat) (s : ed X) : ed X :=
    if fcomplete s then s else
    match fuel with
    | O => set_err s
    | S f => let t := fed_tig s in if snd t then drive_complete f (fst t) else fst t
    end.

  (* edits() (the state change; the listing is read off the state afterwards) *)
  Definition fed_edits (s : ed X) : ed X :=
    match e_done s with
    | Some _ => s
    | None =>
        if fempty s then set_done s 0
        else
          let s1 := drive_complete (S (S (em s + en s))) s in
          if e_err s1 then s1
          else if fcomplete s1 then match e_done s1 with Some _ => s1 | None => finalize_last s1 end
          else set_err s1
    end.

  Definition fed_mu (s : ed X) : nat :=
    match e_done s with
    | Some _ => O
    | None => (S (S (em s + en s)) - e_d s) + nat_sum (map (fun row => nat_sum (map (k_mu C) row)) (e_kids s))
    end.

  Definition fed_err (s : ed X) : bool :=
    e_err s || existsb (fun row => existsb (k_err C) row) (e_kids s).

  (* the alignment the finalised state holds (positions in the trimmed sequences), in listing order *)
  Definition fed_alignment (s : ed X) : list op :=
    rev (backtrace (em s + en s) (e_cost s) (em s) (en s)).
End FED.

(* ---------------------------------------------------------------- repeat_until_tightened with a state-changing bounds() *)
Section ARut.
  Context {S : Type}.
  Variables (b : S -> S * zr) (f : S -> S).
  Fixpoint arut_loop (fuel : nat) (start : zr) (s : S) : S * bool * bool :=       (* state, result, fuel exhausted *)
    match fuel with
    | O => (s, false, true)
    | Datatypes.S fuel' =>
        let p := b (f s) in
        let s1 := fst p in
        let nb := snd p in
        if widened nb start then arut_loop fuel' start s1
        else if zdefb nb || tighter nb start then (s1, true, false)
        else arut_loop fuel' start s1
    end.
  Definition arut (fuel : nat) (s : S) : S * bool * bool :=
    let p := b s in
    if zdefb (snd p) then (fst p, false, false) else arut_loop fuel (snd p) (fst p).
End ARut.

(* ---------------------------------------------------------------- EditCollection / FixedKeyDictNodeEdit, call by call
   (edits.py:401-522; explode_edits = False, collection = list).  The state record `coll` of MachineModel.v is reused:
   k_pend = what _edit_iter still holds (creation of an edit is pure, so the edits exist up front; an edit's
   initial_bounds is read when the iterator produces it), k_subs = _sub_edits with initial_bounds.upper_bound,
   k_cost = _cost, k_valid = valid.  The working state carries a flag: an `assert` failed, the edit invalidated itself
   (the model does not follow Range() = (-inf, inf) any further), or a loop of the model ran out of fuel. *)
Inductive afor (S : Type) := AExit (s : S) | ADone (s : S) (tightened : bool).
Arguments AExit {S}. Arguments ADone {S}.

Section ACollS.
  Context {X : Type}.
  Variable C : cops X.
  (* working state: the collection, initial_bounds.upper_bound of the edits the iterator has not produced yet (an edit's
     initial bounds are a function of the fresh edit: computed up front), the failure flag *)
  Definition cst := (coll X * list Z * bool)%type.
  Definition ccl (s : cst) : coll X := fst (fst s).
  Definition cius (s : cst) : list Z := snd (fst s).
  Definition cerr (s : cst) : bool := snd s.

  Definition c_set_subs (s : cst) (l : list (X * Z)) : cst := (set_subs (ccl s) l, cius s, cerr s).
  Definition c_set_memo (s : cst) (c : option zr) : cst := (set_memo (ccl s) c, cius s, cerr s).
  Definition c_fail (s : cst) : cst := (ccl s, cius s, true).
  Definition c_invalid (s : cst) : cst := (set_invalid (ccl s), cius s, true).

  (* e.bounds() of one sub-edit (iterator exhausted) *)
  Definition rd1 (p : X * Z) : (X * Z) * zr := let q := k_bnd C (fst p) in ((fst q, snd p), snd q).
  (* e.bounds().lower_bound, then e.initial_bounds.upper_bound - e.bounds().upper_bound (iterator not exhausted) *)
  Definition rd2 (p : X * Z) : (X * Z) * zr :=
    let q1 := k_bnd C (fst p) in
    let q2 := k_bnd C (fst q1) in
    ((fst q2, snd p), (fst (snd q1), snd p - snd (snd q2))).

  (* bounds() *)
  Definition acoll_bounds (s : cst) : cst * zr :=
    let c := ccl s in
    if negb (k_valid c) then (c_fail s, (0, 0))
    else match k_cost c with
         | Some r => (s, r)
         | None =>
             match k_pend c with
             | None =>
                 let t := thread rd1 (k_subs c) in
                 let tot := zr_sum (snd t) in
                 let s1 := c_set_subs s (fst t) in
                 if k_U c <? fst tot then (c_invalid s1, (0, 0))
                 else let r := (fst tot, Z.min (k_U c) (snd tot)) in
                      if zdefb r then (c_set_memo s1 (Some r), r) else (s1, r)
             | Some _ =>
                 let t := thread rd2 (k_subs c) in
                 let lo := zsum (map fst (snd t)) in
                 let hi := k_U c - zsum (map snd (snd t)) in
                 let s1 := c_set_subs s (fst t) in
                 if k_U c <? lo then (c_invalid s1, (0, 0))
                 else (s1, (lo, Z.min (k_U c) hi))
             end
         end.

  (* _is_tightened(starting_bounds): not valid or bounds().lower_bound > start.lower_bound or bounds().upper_bound < ... *)
  Definition acoll_is_tightened (start : zr) (s : cst) : cst * bool :=
    if negb (k_valid (ccl s)) then (s, true)
    else let q1 := acoll_bounds s in
         if fst start <? fst (snd q1) then (fst q1, true)
         else let q2 := acoll_bounds (fst q1) in (fst q2, snd (snd q2) <? snd start).

  (* _expand_edits(): the next edit of the iterator (constructed now: its __init__ reads its bounds) is appended and
     _cost is reset; an exhausted iterator is dropped *)
  Definition acoll_expand (s : cst) : cst * bool :=
    let c := ccl s in
    match k_pend c with
    | None => (s, false)
    | Some [] => ((mk_coll (k_U c) None (k_subs c) (k_cost c) (k_valid c), cius s, cerr s), false)
    | Some (x :: rest) =>
        ((mk_coll (k_U c) (Some rest) (k_subs c ++ [(fst (k_bnd C x), hd 0 (cius s))]) None (k_valid c), tl (cius s), cerr s), true)
    end.

  (* list(edits()): everything the iterator still holds is appended *)
  Definition acoll_edits (s : cst) : cst :=
    let c := ccl s in
    match k_pend c with
    | None => s
    | Some l =>
        (mk_coll (k_U c) None
                 (k_subs c ++ map (fun xi => (fst (k_bnd C (fst xi)), snd xi)) (combine l (cius s)))
                 (match l with [] => k_cost c | _ => None end) (k_valid c), [], cerr s)
    end.

  (* `for child in self._sub_edits:` from position i on, at most n children *)
  Fixpoint acoll_for (n i : nat) (start : zr) (s : cst) (tg : bool) : afor cst :=
    match n with
    | O => ADone s tg
    | S n' =>
        match nth_error (k_subs (ccl s)) i with
        | None => ADone s tg
        | Some xi =>
            let p := k_tig C (fst xi) in
            if snd p then
              let q := acoll_bounds (c_set_memo (c_set_subs s (set_nth i (fst p, snd xi) (k_subs (ccl s)))) None) in
              if cerr (fst q) then AExit (fst q)
              else if tighter (snd q) start then AExit (fst q)
              else acoll_for n' (S i) start (fst q) true
            else
              (* assert not child.valid or child.bounds().definitive() *)
              let b := k_bnd C (fst p) in
              let s1 := c_set_subs s (set_nth i (fst b, snd xi) (k_subs (ccl s))) in
              if zdefb (snd b) then acoll_for n' (S i) start s1 tg else AExit (c_fail s1)
        end
    end.

  (* the `while True` loop of tighten_bounds() *)
  Fixpoint acoll_loop (fuel : nat) (start : zr) (s : cst) : cst * bool :=
    match fuel with
    | O => (c_fail s, false)
    | S f =>
        let e := acoll_expand s in
        let q := if snd e then acoll_is_tightened start (fst e) else (fst e, false) in
        if snd q then (fst q, true)
        else
          match acoll_for (length (k_subs (ccl (fst q)))) 0 start (fst q) false with
          | AExit s3 => (s3, true)
          | ADone s3 tg =>
              match k_pend (ccl s3) with
              | None => if tg then acoll_loop f start s3 else acoll_is_tightened start s3
              | Some _ => acoll_loop f start s3
              end
          end
    end.

  Definition acoll_mu (c : coll X) : nat :=
    match k_pend c with Some l => S (length l + nat_sum (map (k_mu C) l)) | None => O end +
    nat_sum (map (fun p => k_mu C (fst p)) (k_subs c)).

  (* tighten_bounds() *)
  Definition acoll_tig (s : cst) : cst * bool :=
    if negb (k_valid (ccl s)) then (s, false)
    else let q := acoll_bounds s in
         if cerr (fst q) then (fst q, false)
         else acoll_loop (S (S (acoll_mu (ccl (fst q))))) (snd q) (fst q).

  (* is_complete(): not self.valid or self.bounds().definitive() *)
  Definition acoll_cmp (s : cst) : cst * bool :=
    if negb (k_valid (ccl s)) then (s, true)
    else let q := acoll_bounds s in (fst q, zdefb (snd q)).
End ACollS.

(* ---------------------------------------------------------------- WeightedBipartiteMatcher + MultiSetEdit, call by call
   (matching.py:566-710, multiset.py).  The state record `mset` of MachineModel.v is reused, with the same oracles:
   m_counts (how many tighten_bounds() calls bounds.make_distinct makes on each edge) and m_asg (the assignment the
   solver returns; used if it is a full matching, otherwise the diagonal).  New here: every bounds() read of an edge or
   of a pre-matched key/value edit is a step of that edit; the `matching` property (forced by edits(), by
   tighten_bounds() and by MultiSetEdit.tighten_bounds() itself) calls _make_edges_distinct() first when that has not
   happened yet, then reads every edge's bounds for the solver. *)
Section AMSetS.
  Context {X : Type}.
  Variable C : cops X.

  (* for (_, (_, edge)) in self._match.items(): lb += edge.bounds().lower_bound; ub += edge.bounds().upper_bound *)
  Fixpoint aread_matched (e : list (list X)) (mt : list (nat * nat)) : list (list X) * zr :=
    match mt with
    | [] => (e, (0, 0))
    | ij :: rest =>
        match mget e (fst ij) (snd ij) with
        | None => aread_matched e rest
        | Some x =>
            let p1 := k_bnd C x in
            let p2 := k_bnd C (fst p1) in
            let r := aread_matched (set2 e (fst ij) (snd ij) (fst p2)) rest in
            (fst r, (fst (snd p1) + fst (snd r), snd (snd p2) + snd (snd r)))
        end
    end.

  (* WeightedBipartiteMatcher.bounds() *)
  Definition amt_bounds (s : mset X) : mset X * zr :=
    match m_memo s with
    | Some r => (s, r)
    | None =>
        if m_empty s then (with_memo s (0, 0), (0, 0))
        else match m_match s with
             | None =>
                 let t1 := thread (thread (k_bnd C)) (m_edges s) in           (* the pass of the lower bounds *)
                 let t2 := thread (thread (k_bnd C)) (fst t1) in              (* the pass of the upper bounds *)
                 let k := Nat.min (mn s) (mm s) in
                 let r := (sum_smallest k (map (fun row => zmin_list (map fst row)) (snd t1)),
                           sum_largest k (map (fun row => zmax_list (map snd row)) (snd t2))) in
                 let s1 := with_edges s (fst t2) in
                 if zdefb r then (with_memo s1 r, r) else (s1, r)
             | Some mt =>
                 let p := aread_matched (m_edges s) mt in
                 let s1 := with_edges s (fst p) in
                 if zdefb (snd p) then (with_memo s1 (snd p), snd p) else (s1, snd p)
             end
    end.

  (* make_distinct: every edge's bounds are read, then it is tightened some number of times (oracle), its bounds being
     read after every call *)
  Fixpoint aiter_tb (n : nat) (x : X) : X :=
    match n with O => x | S n' => aiter_tb n' (fst (k_bnd C (fst (k_tig C x)))) end.
  Definition amd_edges (cnt : list (list nat)) (e : list (list X)) : list (list X) :=
    map (fun ir => map (fun jx => aiter_tb (nth (fst jx) (nth (fst ir) cnt []) O) (fst (k_bnd C (snd jx))))
                       (combine (seq 0 (length (snd ir))) (snd ir)))
        (combine (seq 0 (length e)) e).

  (* the `matching` property *)
  Definition amt_force (s : mset X) : mset X :=
    match m_match s with
    | Some _ => s
    | None =>
        if m_empty s then with_match s []
        else let s1 := if m_distinct s then s else with_distinct (with_edges s (amd_edges (m_counts s) (m_edges s))) in
             let t := thread (thread (k_bnd C)) (m_edges s1) in                (* get_edges: edge.bounds().upper_bound *)
             let s2 := with_edges s1 (fst t) in
             with_match s2 (chosen s2)
    end.

  (* for (_, (_, edge)) in self.matching.items(): if edge.tighten_bounds(): return True *)
  Fixpoint amt_matched (e : list (list X)) (mt : list (nat * nat)) : list (list X) * bool :=
    match mt with
    | [] => (e, false)
    | ij :: rest =>
        match mget e (fst ij) (snd ij) with
        | None => amt_matched e rest
        | Some x => let p := k_tig C x in
                    let e' := set2 e (fst ij) (snd ij) (fst p) in
                    if snd p then (e', true) else amt_matched e' rest
        end
    end.

  (* the undecorated WeightedBipartiteMatcher.tighten_bounds() *)
  Definition amt_func (s : mset X) : mset X :=
    match m_match s with
    | None => if m_distinct s then amt_force s
              else with_distinct (with_edges s (amd_edges (m_counts s) (m_edges s)))
    | Some mt => with_edges s (fst (amt_matched (m_edges s) mt))
    end.

  Definition amset_mu (s : mset X) : nat :=
    nat_sum (map (k_mu C) (m_kvp s)) + nat_sum (map (fun row => nat_sum (map (k_mu C) row)) (m_edges s)) +
    (if m_distinct s then O else 1%nat) + (match m_match s with Some _ => O | None => 1%nat end).

  (* MultiSetEdit.bounds() *)
  Definition ams_bounds (s : mset X) : mset X * zr :=
    let q := amt_bounds s in
    let t := thread (k_bnd C) (m_kvp (fst q)) in
    let s2 := with_kvp (fst q) (fst t) in
    let base := zr_add (snd q) (zr_sum (snd t)) in
    (s2,
     match m_match s2 with
     | Some mt => zr_add base (zconst (unmatched_cost s2 mt))
     | None =>
         if Nat.ltb (mm s2) (mn s2)
         then zr_add base (sum_smallest (mn s2 - mm s2) (m_rem s2), sum_largest (mn s2 - mm s2) (m_rem s2))
         else if Nat.ltb (mn s2) (mm s2)
         then zr_add base (sum_smallest (mm s2 - mn s2) (m_ins s2), sum_largest (mm s2 - mn s2) (m_ins s2))
         else base
     end).

  (* MultiSetEdit.tighten_bounds() after the loop over the key-matched pairs found nothing to tighten; the flag: the model's
     repeat_until_tightened ran out of fuel *)
  Definition ams_tig_rest (fuel : nat) (s1 : mset X) : (mset X * bool) * bool :=
    let r := arut amt_bounds amt_func fuel s1 in
    let s2 := fst (fst r) in
    if snd r then ((s2, true), false)
    else if snd (fst r) then ((s2, false), true)
    else match m_match s2 with
         | Some _ => ((s2, false), false)
         | None => let q0 := ams_bounds s2 in
                   let q1 := ams_bounds (amt_force (fst q0)) in
                   ((fst q1, false), tighter (snd q1) (snd q0))
         end.

  (* MultiSetEdit.tighten_bounds() *)
  Definition ams_tig (s : mset X) : (mset X * bool) * bool :=
    let p := first_true (k_tig C) (m_kvp s) in
    let s1 := with_kvp s (fst p) in
    if snd p then ((s1, false), true)
    else ams_tig_rest (S (S (S (amset_mu s1)))) s1.

  (* __init__ (initial_bounds = self.bounds()) *)
  Definition amset_init (kvp : list X) (edges : list (list X)) (rem ins : list Z) (cnt : list (list nat)) (asg : list (nat * nat))
    : mset X := fst (ams_bounds (mk_mset kvp edges rem ins false None None cnt asg)).
End AMSetS.

(* the rows (from_nodes) / columns (to_nodes) a matching leaves unmatched, ascending *)
Definition unm_rows {X} (s : mset X) (mt : list (nat * nat)) : list nat :=
  filter (fun i => negb (existsb (Nat.eqb i) (map fst mt))) (seq 0 (mn s)).
Definition unm_cols {X} (s : mset X) (mt : list (nat * nat)) : list nat :=
  filter (fun j => negb (existsb (Nat.eqb j) (map snd mt))) (seq 0 (mm s)).

(* serialisation of the matched edges, in the order of the matching *)
Fixpoint ser_matched {X E} (f : X -> X * option E) (e : list (list X)) (mt : list (nat * nat)) : list (list X) * list (option E) :=
  match mt with
  | [] => (e, [])
  | ij :: rest =>
      match mget e (fst ij) (snd ij) with
      | None => let r := ser_matched f e rest in (fst r, None :: snd r)
      | Some x => let p := f x in
                  let r := ser_matched f (set2 e (fst ij) (snd ij) (fst p)) rest in
                  (fst r, snd p :: snd r)
      end
  end.

(* ---------------------------------------------------------------- the universal machine *)
(* what the serialiser needs to name the sub-edits of a mapping edit by the positions of the children *)
Inductive ksub := KP (i j : nat) | KR (i : nat) | KI (j : nat).
Record midx := mk_midx { x_exact : list (nat * nat); x_pre : list (nat * nat); x_R : list nat; x_I : list nat }.

Inductive ast :=
  | AConst (c : Z) (t : tag)                                   (* ConstantCostEdit: Match / Replace / Remove / Insert *)
  | ASum (l : list ast)                                        (* KeyValuePairEdit: [key_edit; value_edit] *)
  | AFixed (l : list ast) (rems inss : list Z) (err : bool)    (* FixedLengthSequenceEdit: _sub_edits, costs of the surplus *)
  | AED (sk : option (str * str)) (p q : nat) (e : ed ast)     (* EditDistance (sk = None) / StringEdit over one (Some (s, t)) *)
  | AColl (ks : list ksub) (ius : list Z) (c : coll ast) (err : bool)   (* FixedKeyDictNodeEdit (an EditCollection over a list) *)
  | AMSet (ix : midx) (m : mset ast) (err : bool).             (* MultiSetEdit with its WeightedBipartiteMatcher *)

Definition tag_of (s : ast) : tag :=
  match s with
  | AConst _ t => t
  | ASum _ => TKvp
  | AFixed _ _ _ _ => TFixed
  | AED None _ _ _ => TEditDist
  | AED (Some _) _ _ _ => TString
  | AColl _ _ _ _ => TFixedDict
  | AMSet _ _ _ => TMultiSet
  end.

Fixpoint muA (s : ast) : nat :=
  match s with
  | AConst _ _ => O
  | ASum l => nat_sum (map muA l)
  | AFixed l _ _ _ => nat_sum (map muA l)
  | AED _ _ _ e =>
      match e_done e with
      | Some _ => O
      | None => (S (S (length (e_ic e) + length (e_rc e))) - e_d e) + nat_sum (map (fun row => nat_sum (map muA row)) (e_kids e))
      end
  | AColl _ _ c _ =>
      match k_pend c with Some l => S (length l + nat_sum (map muA l)) | None => O end +
      nat_sum (map (fun p => muA (fst p)) (k_subs c))
  | AMSet _ m _ =>
      nat_sum (map muA (m_kvp m)) + nat_sum (map (fun row => nat_sum (map muA row)) (m_edges m)) +
      (if m_distinct m then O else 1%nat) + (match m_match m with Some _ => O | None => 1%nat end)
  end.

Fixpoint errA (s : ast) : bool :=
  match s with
  | AConst _ _ => false
  | ASum l => existsb errA l
  | AFixed l _ _ err => err || existsb errA l
  | AED _ _ _ e => e_err e || existsb (fun row => existsb errA row) (e_kids e)
  | AColl _ _ c err =>
      err || match k_pend c with Some l => existsb errA l | None => false end || existsb (fun p => errA (fst p)) (k_subs c)
  | AMSet _ m err => err || existsb errA (m_kvp m) || existsb (fun row => existsb errA row) (m_edges m)
  end.

Definition sum_bnd {X} (C : cops X) (l : list X) : list X * zr :=
  let t := thread (k_bnd C) l in (fst t, zr_sum (snd t)).

Section Universal.
  Variable quiet : bool.

  (* operations on states of nesting depth <= d *)
  Fixpoint opsA (d : nat) : cops ast :=
    match d with
    | O => mk_cops (fun s => match s with AConst c _ => (s, (c, c)) | _ => (s, (0, 0)) end)
                   (fun s => (s, false)) (fun s => (s, true)) errA muA
    | S d' =>
        let C := opsA d' in
        let bnd := fun s =>
          match s with
          | AConst c _ => (s, (c, c))
          | ASum l => let sb := sum_bnd C l in (ASum (fst sb), snd sb)
          | AFixed l rems inss err =>
              let sb := sum_bnd C l in
              let r := snd sb in
              (AFixed (fst sb) rems inss err, (fst r + zsum rems + zsum inss, snd r + zsum rems + zsum inss))
          | AED sk p q e => let fb := fed_bnd C e in (AED sk p q (fst fb), snd fb)
          | AColl ks ius c err => let q := acoll_bounds C (c, ius, err) in (AColl ks (cius (fst q)) (ccl (fst q)) (cerr (fst q)), snd q)
          | AMSet ix m err => let q := ams_bounds C m in (AMSet ix (fst q) err, snd q)
          end in
        let fixed_bnd := fun rems inss (l : list ast) =>
          let sb := sum_bnd C l in
          let r := snd sb in
          (fst sb, (fst r + zsum rems + zsum inss, snd r + zsum rems + zsum inss)) in
        let tig := fun s =>
          match s with
          | AConst _ _ => (s, false)
          | ASum l => let ft := first_true (k_tig C) l in (ASum (fst ft), snd ft)
          | AFixed l rems inss err =>
              let r := arut (fixed_bnd rems inss) (fun l => fst (first_true (k_tig C) l)) (S (nat_sum (map (k_mu C) l))) l in
              (AFixed (fst (fst r)) rems inss (err || snd r), snd (fst r))
          | AED sk p q e => let ft := fed_tig C quiet e in (AED sk p q (fst ft), snd ft)
          | AColl ks ius c err => let q := acoll_tig C (c, ius, err) in (AColl ks (cius (fst q)) (ccl (fst q)) (cerr (fst q)), snd q)
          | AMSet ix m err => let q := ams_tig C m in (AMSet ix (fst (fst q)) (err || snd (fst q)), snd q)
          end in
        let cmp := fun s =>
          match s with
          | AConst _ _ => (s, true)
          | ASum _ => let bs := bnd s in (fst bs, zdefb (snd bs))                (* AbstractEdit.is_complete *)
          | AFixed l rems inss err => let ta := thread_all (k_cmp C) l in (AFixed (fst ta) rems inss err, snd ta)
          | AED None _ _ e => (s, fcomplete e)
          | AED (Some _) _ _ _ => let bs := bnd s in (fst bs, zdefb (snd bs))    (* StringEdit: AbstractEdit.is_complete *)
          | AColl ks ius c err => let q := acoll_cmp C (c, ius, err) in (AColl ks (cius (fst q)) (ccl (fst q)) (cerr (fst q)), snd q)
          | AMSet _ m _ => (s, match m_match m with Some _ => true | None => false end)   (* the matching is known *)
          end in
        mk_cops bnd tig cmp errA muA
    end.

  Fixpoint nat_max_list (l : list nat) : nat := match l with [] => O | x :: l' => Nat.max x (nat_max_list l') end.
  Fixpoint aheight (s : ast) : nat :=
    match s with
    | AConst _ _ => O
    | ASum l => S (nat_max_list (map aheight l))
    | AFixed l _ _ _ => S (nat_max_list (map aheight l))
    | AED _ _ _ e => S (nat_max_list (map (fun row => nat_max_list (map aheight row)) (e_kids e)))
    | AColl _ _ c _ => S (Nat.max (match k_pend c with Some l => nat_max_list (map aheight l) | None => O end)
                                  (nat_max_list (map (fun p => aheight (fst p)) (k_subs c))))
    | AMSet _ m _ => S (Nat.max (nat_max_list (map aheight (m_kvp m)))
                                (nat_max_list (map (fun row => nat_max_list (map aheight row)) (m_edges m))))
    end.

  (* ---------------------------------------------------------------- the public operations on one object *)
  Section Ops.
    Variable d : nat.
    Let C := opsA d.

    (* Edit.has_non_zero_cost (tree.py:100-108) *)
    Fixpoint hnz (fuel : nat) (s : ast) : ast * bool :=
      let p1 := k_bnd C s in
      let p2 := k_bnd C (fst p1) in
      if zdefb (snd p1) then (fst p2, 0 <? fst (snd p2))
      else
        let s2 := fst p2 in
        if fst (snd p2) <=? 0 then
          match fuel with
          | O => (s2, false)
          | S f => let t := k_tig C s2 in
                   if snd t then hnz f (fst t)
                   else let p3 := k_bnd C (fst t) in (fst p3, 0 <? fst (snd p3))
          end
        else let p3 := k_bnd C s2 in (fst p3, 0 <? fst (snd p3)).

    (* list(e.edits()) of a CompoundEdit: new state, classes of the listed edits *)
    Definition listing (s : ast) : ast * option (list tag) :=
      match s with
      | AConst _ _ => (s, None)
      | ASum l => (s, Some (map tag_of l))
      | AFixed l rems inss _ => (s, Some (map tag_of l ++ map (fun _ => TRemove) rems ++ map (fun _ => TInsert) inss))
      | AED (Some _) _ _ _ => (s, None)                       (* StringEdit is not a CompoundEdit *)
      | AED None p q e =>
          let e' := fed_edits (opsA (d - 1)) quiet e in
          (AED None p q e',
           Some (repeat TMatch p ++
                 map (fun o => match o with
                               | OMatch c r => match kid_at e' r c with Some x => tag_of x | None => TOther end
                               | ORem _ => TRemove
                               | OIns _ => TInsert
                               end) (fed_alignment e') ++
                 repeat TMatch q))
      | AColl ks ius c err =>
          let c' := acoll_edits (opsA (d - 1)) (c, ius, err) in
          (AColl ks (cius c') (ccl c') (cerr c'), Some (map (fun p => tag_of (fst p)) (k_subs (ccl c'))))
      | AMSet ix m err =>
          let m' := amt_force (opsA (d - 1)) m in
          let mt := match m_match m' with Some mt => mt | None => [] end in
          (AMSet ix m' err,
           Some (map (fun _ => TMatch) (x_exact ix) ++ map tag_of (m_kvp m') ++
                 map (fun ij => match mget (m_edges m') (fst ij) (snd ij) with Some x => tag_of x | None => TOther end) mt ++
                 map (fun _ => TRemove) (unm_rows m' mt) ++ map (fun _ => TInsert) (unm_cols m' mt)))
      end.

    Definition apply_op (o : bop) (s : ast) : ast * outcome :=
      let r :=
        match o with
        | OBounds => let p := k_bnd C s in (fst p, RRange (rng_of (snd p)))
        | OTighten => let p := k_tig C s in (fst p, RBool (snd p))
        | OIsComplete => let p := k_cmp C s in (fst p, RBool (snd p))
        | OValid => (s, RBool (match s with AColl _ _ c _ => k_valid c | _ => true end))
        | OEdits => let p := listing s in (fst p, match snd p with Some l => REdits l | None => RNA end)
        | OHasNonZero => let p := hnz (S (muA s)) s in (fst p, RBool (snd p))
        end in
      if errA (fst r) then (fst r, RErr 2) else r.

    (* the i-th edit of the listing of s *)
    Definition sub_get (s : ast) (i : nat) : option ast :=
      match s with
      | AConst _ _ => None
      | ASum l => nth_error l i
      | AFixed l rems inss _ =>
          if Nat.ltb i (length l) then nth_error l i
          else if Nat.ltb i (length l + length rems) then Some (AConst (nth (i - length l) rems 0) TRemove)
          else if Nat.ltb i (length l + length rems + length inss)
               then Some (AConst (nth (i - length l - length rems) inss 0) TInsert)
               else None
      | AED (Some _) _ _ _ => None
      | AED None p q e =>
          match e_done e with
          | None => None
          | Some _ =>
              if Nat.ltb i p then Some (AConst 0 TMatch)
              else match nth_error (fed_alignment e) (i - p) with
                   | Some (OMatch c r) => kid_at e r c
                   | Some (ORem c) => Some (AConst (nth c (e_rc e) 0) TRemove)
                   | Some (OIns r) => Some (AConst (nth r (e_ic e) 0) TInsert)
                   | None => if Nat.ltb (i - p - length (fed_alignment e)) q then Some (AConst 0 TMatch) else None
                   end
          end
      | AColl _ _ c _ => match k_pend c with
                         | None => match nth_error (k_subs c) i with Some p => Some (fst p) | None => None end
                         | Some _ => None
                         end
      | AMSet ix m _ =>
          match m_match m with
          | None => None
          | Some mt =>
              let n0 := length (x_exact ix) in
              let n1 := length (m_kvp m) in
              let n2 := length mt in
              if Nat.ltb i n0 then Some (AConst 0 TMatch)
              else if Nat.ltb i (n0 + n1) then nth_error (m_kvp m) (i - n0)
              else if Nat.ltb i (n0 + n1 + n2)
                   then match nth_error mt (i - n0 - n1) with
                        | Some ij => mget (m_edges m) (fst ij) (snd ij)
                        | None => None
                        end
              else match nth_error (unm_rows m mt) (i - n0 - n1 - n2) with
                   | Some r => Some (AConst (nth r (m_rem m) 0) TRemove)
                   | None => match nth_error (unm_cols m mt) (i - n0 - n1 - n2 - length (unm_rows m mt)) with
                             | Some c => Some (AConst (nth c (m_ins m) 0) TInsert)
                             | None => None
                             end
                   end
          end
      end.

    Definition sub_put (s : ast) (i : nat) (x : ast) : ast :=
      match s with
      | ASum l => ASum (set_nth i x l)
      | AFixed l rems inss err => if Nat.ltb i (length l) then AFixed (set_nth i x l) rems inss err else s
      | AED None p q e =>
          match e_done e with
          | None => s
          | Some _ =>
              if Nat.ltb i p then s
              else match nth_error (fed_alignment e) (i - p) with
                   | Some (OMatch c r) => AED None p q (set_kid e r c x)
                   | _ => s
                   end
          end
      | AColl ks ius c err =>
          match k_pend c, nth_error (k_subs c) i with
          | None, Some p => AColl ks ius (set_subs c (set_nth i (x, snd p) (k_subs c))) err
          | _, _ => s
          end
      | AMSet ix m err =>
          match m_match m with
          | None => s
          | Some mt =>
              let n0 := length (x_exact ix) in
              let n1 := length (m_kvp m) in
              let n2 := length mt in
              if Nat.ltb i n0 then s
              else if Nat.ltb i (n0 + n1) then AMSet ix (with_kvp m (set_nth (i - n0) x (m_kvp m))) err
              else if Nat.ltb i (n0 + n1 + n2)
                   then match nth_error mt (i - n0 - n1) with
                        | Some ij => match mget (m_edges m) (fst ij) (snd ij) with
                                     | Some _ => AMSet ix (with_edges m (set2 (m_edges m) (fst ij) (snd ij) x)) err
                                     | None => s
                                     end
                        | None => s
                        end
              else s
          end
      | _ => s
      end.

    (* while edit.valid and not edit.is_complete() and edit.tighten_bounds(): pass   (TreeNode.diff) *)
    Fixpoint idiom (fuel : nat) (s : ast) : ast :=
      let p := k_cmp C s in
      if snd p then fst p else
      match fuel with
      | O => fst p
      | S f => let t := k_tig C (fst p) in if snd t then idiom f (fst t) else fst t
      end.

    (* while not e.bounds().definitive() and e.tighten_bounds(): pass *)
    Fixpoint tighten_def (fuel : nat) (s : ast) : ast :=
      let p := k_bnd C s in
      if zdefb (snd p) then fst p else
      match fuel with
      | O => fst p
      | S f => let t := k_tig C (fst p) in if snd t then tighten_def f (fst t) else fst t
      end.

    (* the final cost: completion idiom, then tighten until single-valued, then bounds() *)
    Definition final_cost_of (s : ast) : option Z :=
      let s1 := tighten_def (S (muA s)) s in
      let p := k_bnd C s1 in
      let b := snd p in
      if errA (fst p) then None else if zdefb b then Some (fst b) else None.
  End Ops.

  (* a call addressed to a sub-edit: the sub-edit is one nesting level down, where its parent operates it, too *)
  Fixpoint nav (path : list nat) (d : nat) (o : bop) (s : ast) : ast * outcome :=
    match path with
    | [] => apply_op d o s
    | i :: rest =>
        match sub_get s i with
        | None => (s, RNoSub)
        | Some x => let p := nav rest (d - 1) o x in (sub_put s i (fst p), snd p)
        end
    end.

  Definition step (d : nat) (s : ast) (c : call) : ast * outcome := nav (fst c) d (snd c) s.

  (* the history; execution stops at the first call that raises *)
  Fixpoint run_hist (d : nat) (h : history) (s : ast) : ast * list outcome :=
    match h with
    | [] => (s, [])
    | c :: h' =>
        let p := step d s c in
        let s1 := fst p in
        let o := snd p in
        if is_err o then (s1, [o]) else let r := run_hist d h' s1 in (fst r, o :: snd r)
    end.

  (* the universal machine at depth d as an API machine (ApiSpec.amachine) *)
  Definition AM (d : nat) : amachine :=
    {| ASt := ast; a_bnd := k_bnd (opsA d); a_tig := k_tig (opsA d); a_cmp := k_cmp (opsA d);
       a_eds := fun s => fst (listing d s); a_err := errA; a_mu := muA |}.

  (* ---------------------------------------------------------------- the final nested script (scriptlib.ser_edit):
     sub-edits are listed (which finalises an EditDistance), serialised recursively, then the edit itself is tightened
     until its bounds are a single value, which is its own cost *)
  Fixpoint all_some_e (l : list (option edit)) : option (list edit) :=
    match l with
    | [] => Some []
    | Some x :: l' => match all_some_e l' with Some r => Some (x :: r) | None => None end
    | None :: _ => None
    end.

  Fixpoint serA (d : nat) (s : ast) : ast * option edit :=
    match d with
    | O => (s, match s with
               | AConst c t => Some (match t with TReplace => EReplace c | _ => EMatch c end)
               | _ => None
               end)
    | S d' =>
        let own := fun s1 => let s2 := tighten_def d (S (muA s1)) s1 in
                             let p := k_bnd (opsA d) s2 in
                             (fst p, if errA (fst p) then None else if zdefb (snd p) then Some (fst (snd p)) else None) in
        match s with
        | AConst c t => (s, Some (match t with TReplace => EReplace c | _ => EMatch c end))
        | ASum l =>
            let th := thread (serA d') l in
            let l' := fst th in
            let es := snd th in
            let s1 := ASum l' in
            let ow := own s1 in
            (fst ow,
             match all_some_e es, snd ow with
             | Some es', Some c => Some (EComp KKvp c (mapi (fun i e => SPair i i e) es'))
             | _, _ => None
             end)
        | AFixed l rems inss err =>
            let th := thread (serA d') l in
            let l' := fst th in
            let es := snd th in
            let s1 := AFixed l' rems inss err in
            let k := length l in
            let ow := own s1 in
            (fst ow,
             match all_some_e es, snd ow with
             | Some es', Some c =>
                 Some (EComp KFixedLen c (mapi (fun i e => SPair i i e) es' ++
                                          mapi (fun i c => SRem (k + i) c) rems ++ mapi (fun j c => SIns (k + j) c) inss))
             | _, _ => None
             end)
        | AED None p q e =>
            let e' := fed_edits (opsA d') quiet e in
            let nf := (p + length (e_rc e) + q)%nat in
            let mf := (p + length (e_ic e) + q)%nat in
            let subs := map (fun o => match o with
                                      | OMatch c r =>
                                          match kid_at e' r c with
                                          | Some x => match snd (serA d' x) with
                                                      | Some ed => Some (SPair (p + c) (p + r) ed)
                                                      | None => None
                                                      end
                                          | None => None
                                          end
                                      | ORem c => Some (SRem (p + c) (nth c (e_rc e) 0))
                                      | OIns r => Some (SIns (p + r) (nth r (e_ic e) 0))
                                      end) (fed_alignment e') in
            let s1 := AED None p q e' in
            let ow := own s1 in
            (fst ow,
             match all_some subs, snd ow with
             | Some ss, Some c =>
                 Some (EComp KEditDist c (map (fun i => SPair i i (EMatch 0)) (seq 0 p) ++ ss ++
                                          map (fun k => SPair (nf - q + k) (mf - q + k) (EMatch 0)) (seq 0 q)))
             | _, _ => None
             end)
        | AED (Some (u, t)) p q e =>
            let e' := fed_edits (opsA d') quiet e in
            let u' := middle p q u in
            let t' := middle p q t in
            let sops := map (fun o => match o with
                                      | OMatch c r => let x := nth c u' 0 in let y := nth r t' 0 in
                                                      if x =? y then SKeep x else SSub x y
                                      | ORem c => SDel (nth c u' 0)
                                      | OIns r => SAdd (nth r t' 0)
                                      end) (fed_alignment e') in
            let s1 := AED (Some (u, t)) p q e' in
            let ow := own s1 in
            (fst ow,
             match snd ow with
             | Some c => Some (EStr c (map SKeep (firstn p u) ++ sops ++ map SKeep (skipn (length u - q) u)))
             | None => None
             end)
        | AColl ks ius c err =>
            let c1 := acoll_edits (opsA d') (c, ius, err) in
            let th := thread (serA d') (map fst (k_subs (ccl c1))) in
            let subs' := combine (fst th) (map snd (k_subs (ccl c1))) in
            let s1 := AColl ks (cius c1) (set_subs (ccl c1) subs') (cerr c1) in
            let ow := own s1 in
            (fst ow,
             match all_some_e (snd th), snd ow with
             | Some es, Some cst =>
                 if Nat.eqb (length ks) (length es)
                 then Some (EComp KFixedDict cst (map (fun ke => match fst ke with
                                                                 | KP i j => SPair i j (snd ke)
                                                                 | KR i => SRem i (cost (snd ke))
                                                                 | KI j => SIns j (cost (snd ke))
                                                                 end) (combine ks es)))
                 else None
             | _, _ => None
             end)
        | AMSet ix m err =>
            let m1 := amt_force (opsA d') m in
            let mt := match m_match m1 with Some mt => mt | None => [] end in
            let thk := thread (serA d') (m_kvp m1) in
            let thm := ser_matched (serA d') (m_edges m1) mt in
            let m2 := with_edges (with_kvp m1 (fst thk)) (fst thm) in
            let s1 := AMSet ix m2 err in
            let ow := own s1 in
            (fst ow,
             match all_some_e (snd thk), all_some_e (snd thm), snd ow with
             | Some ek, Some em, Some cst =>
                 if Nat.eqb (length ek) (length (x_pre ix))
                 then Some (EComp KMultiSet cst
                              (map (fun ij => SPair (fst ij) (snd ij) (EMatch 0)) (x_exact ix) ++
                               map (fun pe => SPair (fst (fst pe)) (snd (fst pe)) (snd pe)) (combine (x_pre ix) ek) ++
                               map (fun pe => SPair (nth (fst (fst pe)) (x_R ix) O) (nth (snd (fst pe)) (x_I ix) O) (snd pe))
                                   (combine mt em) ++
                               map (fun r => SRem (nth r (x_R ix) O) (nth r (m_rem m2) 0)) (unm_rows m2 mt) ++
                               map (fun c => SIns (nth c (x_I ix) O) (nth c (m_ins m2) 0)) (unm_cols m2 mt)))
                 else None
             | _, _, _ => None
             end)
        end
    end.

  (* one run: the history, then the completion idiom, then the script *)
  Definition finish (d : nat) (s : ast) : option edit :=
    snd (serA d (idiom d (S (muA s)) s)).

  Definition finish_cost (d : nat) (s : ast) : option Z :=
    final_cost_of d (idiom d (S (muA s)) s).

  Definition run_model (s0 : ast) (h : history) : list outcome * option edit :=
    let d := aheight s0 in
    let r := run_hist d h s0 in
    (snd r, if existsb is_err (snd r) then None else finish d (fst r)).
End Universal.

(* ---------------------------------------------------------------- a.edits(b) for the modelled fragment *)
Definition const_tag_of (a b : tree) : option (Z * tag) :=
  match a with
  | Leaf x => match leaf_script x a b with
              | OK (EMatch c) => Some (c, TMatch)
              | OK (EReplace c) => Some (c, TReplace)
              | _ => None
              end
  | Lst _ _ _ => match list_dispatch a b with
                 | LMatch0 => Some (0, TMatch)
                 | LReplace => Some (replace_cost a b, TReplace)
                 | _ => None
                 end
  | Kvp ake k _ => match b with
                   | Kvp _ k' _ => if ake || node_eqb k k' then None else Some (replace_cost a b, TReplace)
                   | _ => None
                   end
  | MSet _ cs => match b with
                 | MSet _ ds => if (match cs, ds with [], [] => true | _, _ => false end) || node_eqb a b then Some (0, TMatch) else None
                 | FDict _ => None
                 | _ => Some (replace_cost a b, TReplace)
                 end
  | FDict cs => match b with
                | FDict ds =>
                    if (match cs, ds with [], [] => true | _, _ => false end) ||
                       (forallb (fun c => existsb (fun d => node_eqb c d) ds) cs &&
                        forallb (fun d => existsb (fun c => node_eqb c d) cs) ds)
                    then Some (0, TMatch) else None
                | MSet _ _ => None
                | _ => Some (replace_cost a b, TReplace)
                end
  end.

(* initial_bounds.upper_bound of a fresh edit (AbstractEdit.__init__ reads bounds() once) *)
Definition ubA (s : ast) : Z := snd (snd (k_bnd (opsA true (aheight s)) s)).

Definition str_astate (s t : str) : ast :=
  let '(p, q) := trim Z.eqb s t in
  let s' := middle p q s in
  let t' := middle p q t in
  AED (Some (s, t)) p q
      (ed_init (map (fun _ => 1) s) (map (fun _ => 1) t) p q
               (map (fun d => map (fun c => AConst (char_cost c d) TMatch) s') t')).

Fixpoint initA (orc : oracle) (a b : tree) {struct a} : option ast :=
  match const_tag_of a b with
  | Some (c, t) => Some (AConst c t)
  | None =>
      match a with
      | Leaf x =>
          match b with
          | Leaf y => match lk x, lk y with
                      | KStr, KStr => Some (str_astate (ltext x) (ltext y))
                      | _, _ => None
                      end
          | _ => None
          end
      | Lst ale alsl cs =>
          let ds := match b with Lst _ _ ds => ds | _ => [] end in
          let M := map (fun c => map (fun d => initA orc c d) ds) cs in
          match list_dispatch a b with
          | LFixed =>
              let n := length cs in
              let m := length ds in
              let pairs := map (fun i => match mget M i i with Some (Some s) => Some s | _ => None end)
                               (seq 0 (Nat.min n m)) in
              let rems := if Nat.ltb m n
                          then map (fun i => remove_cost (nth i cs dummy) 1) (seq (remove_from_pos n m) (n - remove_from_pos n m))
                          else [] in
              let inss := if Nat.ltb n m
                          then map (fun j => insert_cost (nth j ds dummy) 1) (seq (insert_from_pos n m) (m - insert_from_pos n m))
                          else [] in
              match all_some_l pairs with
              | Some l => Some (AFixed l rems inss false)
              | None => None
              end
          | LEditDist penalty =>
              let '(p, q) := trim node_eqb cs ds in
              let nc := length (middle p q cs) in
              let nr := length (middle p q ds) in
              let kids := map (fun r => all_some_l (map (fun c => match mget M (p + c) (p + r) with
                                                                  | Some (Some s) => Some s | _ => None end)
                                                        (seq 0 nc))) (seq 0 nr) in
              match all_some_l kids with
              | Some ks => Some (AED None p q (ed_init (map (fun c => remove_cost c penalty) cs)
                                                       (map (fun d => insert_cost d penalty) ds) p q ks))
              | None => None
              end
          | _ => None
          end
      | Kvp ake k v =>
          match b with
          | Kvp _ k' v' =>
              let ke := if node_eqb k k' then Some (AConst 0 TMatch) else initA orc k k' in
              let ve := if node_eqb v v' then Some (AConst 0 TMatch) else initA orc v v' in
              match ke, ve with
              | Some x, Some y => Some (ASum [x; y])
              | _, _ => None
              end
          | _ => None
          end
      | FDict cs =>
          (* FixedKeyDictNode._child_edits: the pairs sharing a key in the order of self, then the removals, then the
             insertions in the order of the other mapping; cost_upper_bound = total sizes + 1.  Domain (as for C04): members
             are key/value pairs and the children's initial upper bounds fit the budget (then the edit never invalidates
             itself; a computed guard) *)
          match b with
          | FDict ds =>
              let M := map (fun c => map (fun d => initA orc c d) ds) cs in
              let partner := fun c => find_index (fun d => node_eqb (kvp_key c) (kvp_key d)) ds 0 in
              let shared := flat_map (fun i => match partner (nth i cs dummy) with Some j => [(i, j)] | None => [] end)
                                     (seq 0 (length cs)) in
              let unshared := filter (fun i => match partner (nth i cs dummy) with Some _ => false | None => true end)
                                     (seq 0 (length cs)) in
              let inserted := filter (fun j => negb (existsb (fun c => node_eqb (kvp_key c) (kvp_key (nth j ds dummy))) cs))
                                     (seq 0 (length ds)) in
              let get := fun (ij : nat * nat) =>
                  if node_eqb (nth (fst ij) cs dummy) (nth (snd ij) ds dummy) then Some (AConst 0 TMatch)
                  else match mget M (fst ij) (snd ij) with Some (Some s) => Some s | _ => None end in
              if fixed_dict_removals_in_hash_order || negb (forallb is_kvp cs && forallb is_kvp ds) then None
              else
                match all_some_l (map get shared) with
                | Some sh =>
                    let kids := sh ++ map (fun i => AConst (remove_cost (nth i cs dummy) 1) TRemove) unshared
                                   ++ map (fun j => AConst (insert_cost (nth j ds dummy) 1) TInsert) inserted in
                    let ks := map (fun ij => KP (fst ij) (snd ij)) shared ++ map KR unshared ++ map KI inserted in
                    let U := size a + 1 + size b in
                    let ius := map ubA kids in
                    if zsum ius <=? U then Some (AColl ks ius (mk_coll U (Some kids) [] None true) false) else None
                | None => None
                end
          | _ => None
          end
      | MSet amk cs =>
          (* MultiSetEdit.__init__: key pre-matching (auto_match_keys), exact matches, then the matcher between what is
             left (to_remove x to_insert).  Domain: the elements of each side are pairwise different (D36) *)
          match b with
          | MSet _ ds =>
              let M := map (fun c => map (fun d => initA orc c d) ds) cs in
              let pre := if amk then prematch cs 0 ds [] else [] in
              let fl := filter (fun i => negb (nat_in i (map fst pre))) (seq 0 (length cs)) in
              let tl := filter (fun j => negb (nat_in j (map snd pre))) (seq 0 (length ds)) in
              let eq_ij := fun i j => node_eqb (nth i cs dummy) (nth j ds dummy) in
              let exact := flat_map (fun i => match find (fun j => eq_ij i j) tl with Some j => [(i, j)] | None => [] end) fl in
              let R := filter (fun i => negb (existsb (fun j => eq_ij i j) tl)) fl in              (* to_remove *)
              let I := filter (fun j => negb (existsb (fun i => eq_ij i j) fl)) tl in              (* to_insert *)
              let get := fun i j => match mget M i j with Some (Some s) => Some s | _ => None end in
              if negb (distinct_nodes cs && distinct_nodes ds) then None
              else
                match all_some_l (map (fun ij => get (fst ij) (snd ij)) pre),
                      all_some_l (map (fun i => all_some_l (map (fun j => get i j) I)) R) with
                | Some kv, Some edges =>
                    let ans := orc_lookup orc (map (fun i => nth i cs dummy) R) (map (fun j => nth j ds dummy) I) in
                    (* __init__ reads bounds() once (initial_bounds): on a fresh edit that read changes no sub-edit (their
                       reads are pure) and only pre-computes the matcher's memo, which the first modelled read computes
                       identically; it is not a separate step of the model *)
                    Some (AMSet (mk_midx exact pre R I)
                                (mk_mset kv edges (map (fun i => remove_cost (nth i cs dummy) 1) R)
                                         (map (fun j => insert_cost (nth j ds dummy) 1) I) false None None (fst ans) (snd ans)) false)
                | _, _ => None
                end
          | _ => None
          end
      end
  end.

(* ---------------------------------------------------------------- correspondence *)
Definition oedit_eqb (x y : option edit) : bool :=
  match x, y with
  | Some e, Some e' => script_eqb e e'
  | None, None => true
  | _, _ => false
  end.

Definition orc_of (o : option orc_data) : oracle := match o with Some d => d | None => [] end.

Definition modelled_C05 (c : case) : bool :=
  match initA (orc_of (c_canon_orc c)) (c_a c) (c_b c) with Some _ => true | None => false end.

(* the model fed the same history under the same quiet setting reproduces every outcome and the final script;
   the canonical drive is the empty history under a quiet printer *)
(* a run whose oracle table is ambiguous (one (from_nodes, to_nodes) key received two answers within the run) has no
   correspondence; otherwise the model is started with the answers observed in that run *)
Definition corr_run (a b : tree) (h : history) (r : run) : bool :=
  match r_orc r with
  | None => true
  | Some orc =>
      match initA orc a b with
      | None => true
      | Some s0 =>
          let m := run_model (r_quiet r) s0 h in
          outcomes_eqb (fst m) (r_outs r) && oedit_eqb (snd m) (r_final r)
      end
  end.

Definition corr_C05 (c : case) : bool :=
  match c_canon_orc c with
  | None => true
  | Some orc =>
      match initA orc (c_a c) (c_b c) with
      | None => true
      | Some s0 => oedit_eqb (snd (run_model true s0 [])) (c_canon c)
      end
  end && forallb (corr_run (c_a c) (c_b c) (c_hist c)) (c_runs c).

(* the oracle answers are a function of the (from_nodes, to_nodes) key: every run of the case observed, for the keys it
   shares with the canonical drive, the same assignment (reported separately; not part of corr_C05) *)
Definition asg_of (o : orc_data) (k : list tree * list tree) : option (list (nat * nat)) :=
  match find (fun e => trees_beq (fst (fst e)) (fst k) && trees_beq (snd (fst e)) (snd k)) o with
  | Some e => Some (snd (snd e))
  | None => None
  end.
Definition asg_eqb (x y : list (nat * nat)) : bool :=
  Nat.eqb (length x) (length y) && forallb (fun p => Nat.eqb (fst (fst p)) (fst (snd p)) && Nat.eqb (snd (fst p)) (snd (snd p))) (combine x y).
Definition orc_agree (o1 o2 : orc_data) : bool :=
  forallb (fun e => match asg_of o2 (fst e) with Some a2 => asg_eqb (snd (snd e)) a2 | None => true end) o1.
Definition oracle_stable_C05 (c : case) : bool :=
  match c_canon_orc c with
  | None => true
  | Some o0 => forallb (fun r => match r_orc r with Some o => orc_agree o0 o | None => true end) (c_runs c)
  end.
