(* C02, direction "equal documents cost nothing": if two trees are equal as data (typed, lists ordered, mappings
   unordered) then the model script for them has total cost 0, for every oracle and option set. *)
From Coq Require Import ZArith List Bool Lia.
Require Import GT.PyBase GT.Data GT.ScriptSpec GT.EdEngine GT.LevModel GT.LevProofs GT.EdTypes GTgen.EdGen GT.EdParams
               GT.ScriptModel GT.KeyEq GT.ScriptProofs.
Import ListNotations.
Open Scope Z_scope.

Lemma lkind_eqb_eq : forall a b, lkind_eqb a b = true -> a = b.
Proof. intros [] []; cbn; intro H; try discriminate; reflexivity. Qed.

Lemma leaf_data_py : forall x y, leaf_consistent x y = true -> leaf_data_eqb x y = true -> py_eqb x y = true.
Proof.
  intros x y Hc Hd. unfold leaf_data_eqb in Hd. apply andb_prop in Hd as [Hk Ht].
  pose proof (lkind_eqb_eq _ _ Hk) as Hkk. unfold py_eqb, leaf_consistent in *. rewrite <- Hkk in *.
  destruct (lk x); cbn in *; try exact Ht; try reflexivity; rewrite Ht in Hc; exact Hc.
Qed.

(* consistency is inherited by sub-trees *)
Lemma consistent_sub : forall a b a' b', incl (leaves a') (leaves a) -> incl (leaves b') (leaves b) ->
  consistent a b = true -> consistent a' b' = true.
Proof.
  intros a b a' b' Ha Hb H. unfold consistent in *. rewrite forallb_forall in *. intros x Hx.
  specialize (H x (Ha x Hx)). rewrite forallb_forall in *. intros y Hy. apply H. apply Hb. exact Hy.
Qed.

Lemma leaves_child : forall t c, In c (children t) -> incl (leaves c) (leaves t).
Proof.
  intros t c Hin x Hx. destruct t as [l|? ? cs|? k v|? cs|cs]; cbn in *.
  - destruct Hin.
  - apply in_flat_map. eauto.
  - destruct Hin as [<-|[<-|[]]]; apply in_or_app; auto.
  - apply in_flat_map. eauto.
  - apply in_flat_map. eauto.
Qed.

Definition Pdn (a : tree) : Prop := forall b, consistent a b = true -> data_eqb a b = true -> node_eqb a b = true.

Lemma mutual_exists : forall (P Q : tree -> tree -> bool) xs ys,
  (forall x y, In x xs -> In y ys -> P x y = true -> Q x y = true) ->
  (fix all (xs : list tree) : bool :=
     match xs with [] => true | x :: xs' => existsb (fun y => P x y) ys && all xs' end) xs = true ->
  (fix all (xs : list tree) : bool :=
     match xs with [] => true | x :: xs' => existsb (fun y => Q x y) ys && all xs' end) xs = true.
Proof.
  intros P Q xs ys. induction xs as [|x xs IH]; intros HPQ H; [reflexivity|].
  apply andb_prop in H as [H1 H2]. apply andb_true_intro. split.
  - apply existsb_exists in H1. destruct H1 as [y [Hy HP]]. apply existsb_exists. exists y. split; [exact Hy|].
    apply HPQ; [left; reflexivity|exact Hy|exact HP].
  - apply IH; [|exact H2]. intros x' y Hx' Hy. apply HPQ; [right; exact Hx'|exact Hy].
Qed.

Theorem data_node : forall a, Pdn a.
Proof.
  apply tree_rect'.
  - intros x [y| | | |] Hc Hd; try discriminate. cbn in *. apply leaf_data_py; [|exact Hd].
    unfold consistent in Hc. cbn in Hc. rewrite !andb_true_r in Hc. exact Hc.
  - intros ale alsl cs IH [y|ale' alsl' ds| | |] Hc Hd; try discriminate. cbn [data_eqb node_eqb] in *.
    assert (Hsub : forall c d, In c cs -> In d ds -> consistent c d = true).
    { intros c d Hc' Hd'. eapply consistent_sub; [| |exact Hc]; apply leaves_child; assumption. }
    clear Hc. revert ds Hd Hsub. induction IH as [|c cs Hpc _ IHcs]; intros [|d ds] Hd Hsub; try discriminate; [reflexivity|].
    apply andb_prop in Hd as [H1 H2]. apply andb_true_intro. split.
    + apply Hpc; [apply Hsub; left; reflexivity|exact H1].
    + apply IHcs; [exact H2|]. intros c' d' Hc' Hd'. apply Hsub; right; assumption.
  - intros ake k v IHk IHv [y| |ake' k' v'| |] Hc Hd; try discriminate. cbn [data_eqb node_eqb] in *.
    apply andb_prop in Hd as [H1 H2]. apply andb_true_intro. split.
    + apply IHk; [|exact H1]. eapply consistent_sub; [| |exact Hc]; apply leaves_child; cbn; auto.
    + apply IHv; [|exact H2]. eapply consistent_sub; [| |exact Hc]; apply leaves_child; cbn; auto.
  - intros amk cs IH [y| | |amk' ds|] Hc Hd; try discriminate. cbn [data_eqb node_eqb] in *.
    apply andb_prop in Hd as [Hd _]. apply andb_prop in Hd as [Hl Hall]. rewrite Hl. cbn [andb].
    eapply mutual_exists; [|exact Hall]. intros x y Hx Hy Hxy.
    rewrite Forall_forall in IH. apply (IH x Hx); [|exact Hxy].
    eapply consistent_sub; [| |exact Hc]; apply leaves_child; assumption.
  - intros cs IH [y| | | |ds] Hc Hd; try discriminate. cbn [data_eqb node_eqb] in *.
    apply andb_prop in Hd as [Hd _]. apply andb_prop in Hd as [Hl Hall]. rewrite Hl. cbn [andb].
    eapply mutual_exists; [|exact Hall]. intros x y Hx Hy Hxy.
    rewrite Forall_forall in IH. apply (IH x Hx); [|exact Hxy].
    eapply consistent_sub; [| |exact Hc]; apply leaves_child; assumption.
Qed.

Lemma lev_refl : forall s, lev s s = 0.
Proof. intro s. unfold lev. destruct lev_returns_loop_var_cell; [destruct s; [reflexivity|]|]; apply lev_dp_refl. Qed.

Lemma list_dispatch_equal : forall ale alsl lf lt la lb, list_dispatch_gen true true ale alsl lf lt la lb = LMatch0.
Proof. intros. reflexivity. Qed.

Theorem equal_zero : forall O pa pb a b e,
  consistent a b = true -> data_eqb a b = true -> script O pa pb a b = OK e -> cost e = 0.
Proof.
  intros O pa pb a b e Hc Hd H. pose proof (data_node a b Hc Hd) as Hn.
  destruct a as [x|ale alsl cs|ake k v|amk cs|cs].
  - destruct b as [y| | | |]; try discriminate. cbn in H, Hd, Hn. unfold leaf_data_eqb in Hd.
    apply andb_prop in Hd as [Hk Ht]. apply lkind_eqb_eq in Hk. unfold leaf_script in H. rewrite <- Hk in H.
    assert (Hnum : OK (EMatch (leaf_match_cost x y)) = OK e -> cost e = 0).
    { intro He. inversion He; subst e. cbn. unfold leaf_match_cost.
      destruct (lk x) eqn:Ekx; cbn in Ht; try (apply str_eqb_eq in Ht; rewrite Ht, lev_refl, Hn, !andb_false_r; reflexivity).
      unfold py_eqb in Hn. rewrite <- Hk, Ekx in Hn. cbn in Hn.
      (* null against null is decided before; unreachable here but harmless *)
      destruct (leaf_zero_cost_adjusted && (lev (ltext x) (ltext y) =? 0) && negb true) eqn:E; cbn in E;
        rewrite andb_false_r in E; discriminate. }
    destruct (lk x) eqn:Ekx; try (apply Hnum; exact H).
    + cbn in Ht. rewrite Ht in H. inversion H; reflexivity.
    + inversion H; reflexivity.
  - destruct b as [y|ale' alsl' ds| | |]; try discriminate. cbn [script] in H.
    assert (Hce : (fix go (xs ys : list tree) : bool :=
                     match xs, ys with
                     | [], [] => true
                     | x :: xs', y :: ys' => node_eqb x y && go xs' ys'
                     | _, _ => false
                     end) cs ds = true) by exact Hn.
    rewrite Hce, list_dispatch_equal in H. inversion H; reflexivity.
  - destruct b as [y| |ake' k' v'| |]; try discriminate. cbn [script] in H. cbn [node_eqb] in Hn.
    apply andb_prop in Hn as [Hk Hv]. rewrite Hk, Hv, orb_true_r in H. inversion H; reflexivity.
  - destruct b as [y| | |amk' ds|]; try discriminate. cbn [script] in H. rewrite Hn, orb_true_r in H. inversion H; reflexivity.
  - destruct b as [y| | | |ds]; try discriminate. cbn [script] in H. cbn [data_eqb] in Hd.
    apply andb_prop in Hd as [Hd Hback]. apply andb_prop in Hd as [Hl Hall].
    assert (Hsub : forall c d, In c cs -> In d ds -> consistent c d = true).
    { intros c d Hc' Hd'. eapply consistent_sub; [| |exact Hc]; apply leaves_child; assumption. }
    assert (H1 : forallb (fun c => existsb (fun d => node_eqb c d) ds) cs = true).
    { clear H Hn Hback. induction cs as [|c cs IH]; [reflexivity|]. apply andb_prop in Hall as [Ha Hb].
      cbn. apply andb_true_intro. split.
      - apply existsb_exists in Ha. destruct Ha as [d [Hd' Hcd]]. apply existsb_exists. exists d. split; [exact Hd'|].
        apply data_node; [apply Hsub; [left; reflexivity|exact Hd']|exact Hcd].
      - apply IH; [cbn in Hl; destruct ds; [discriminate|]; cbn | exact Hb | intros; apply Hsub; [right|]; assumption].
        (* the length equation is not needed for the inclusion *) exact (eq_refl). }
    assert (H2 : forallb (fun d => existsb (fun c => node_eqb c d) cs) ds = true).
    { rewrite forallb_forall in Hback. apply forallb_forall. intros d Hd'. specialize (Hback d Hd').
      apply existsb_exists in Hback. destruct Hback as [c [Hc' Hcd]]. apply existsb_exists. exists c. split; [exact Hc'|].
      apply data_node; [apply Hsub; assumption|exact Hcd]. }
    rewrite H1, H2, orb_true_r in H. inversion H; reflexivity.
Qed.
