(* C02 for the big-step script model.
   1. equal_zero: documents that are equal as data (typed, lists ordered, mappings unordered) cost 0.
   2. script_priced: every script of the model is `priced` (EqualSpec): a zero-cost Match only between == nodes,
      Replace / string edits cost > 0, Remove / Insert cost size + penalty.  With C01 (valid) and C03 (additive)
      the script-level theorem EqualSpec.spec_sound gives  cost 0 -> zsim  ("equal up to D4 and D16").
   3. zsim_data: zsim implies equal-as-data when no two scalars are Python-== without being equal as data (D4)
      and no list of leaves contains a zero-size leaf (D16).
   4. script_zero_iff: under these two carve-outs, cost 0 <-> equal as data; the refutations of the full
      statement ([1] vs [1.0]; [] vs [null]) and the classification of every failure of the full statement. *)
From Coq Require Import ZArith List Bool Lia Permutation.
Require Import GT.PyBase GT.Data GT.ScriptSpec GT.EdEngine GT.LevModel GT.LevProofs GT.EdTypes GTgen.EdGen GT.EdParams
               GT.ScriptModel GT.ListAux GT.KeyEq GT.EdFacts GT.EdEngineProofs GT.ScriptProofs GT.MSetProofs GT.CostProofs
               GT.RestrictProofs GT.StrSpec GT.LcsProofs GT.EqualSpec GT.ScriptKnown.
Import ListNotations.
Open Scope Z_scope.

Lemma lkind_eqb_eq : forall a b, lkind_eqb a b = true -> a = b.
Proof. intros [] []; cbn; intro H; try discriminate; reflexivity. Qed.

Lemma leaf_data_py : forall x y, leaf_consistent x y = true -> leaf_data_eqb x y = true -> py_eqb x y = true.
Proof.
  intros x y Hc Hd. unfold leaf_data_eqb in Hd. apply andb_prop in Hd as [Hk Ht].
  pose proof (lkind_eqb_eq _ _ Hk) as Hkk. unfold py_eqb, leaf_consistent in *. rewrite <- Hkk in *.
  destruct (lk x); cbn in *; try exact Ht; try reflexivity; rewrite Ht in Hc; exact Hc.
Qed.

(* consistency is inherited by sub-trees *)
Lemma consistent_sub : forall a b a' b', incl (leaves a') (leaves a) -> incl (leaves b') (leaves b) ->
  consistent a b = true -> consistent a' b' = true.
Proof.
  intros a b a' b' Ha Hb H. unfold consistent in *. rewrite forallb_forall in *. intros x Hx.
  specialize (H x (Ha x Hx)). rewrite forallb_forall in *. intros y Hy. apply H. apply Hb. exact Hy.
Qed.

Definition Pdn (a : tree) : Prop := forall b, consistent a b = true -> data_eqb a b = true -> node_eqb a b = true.

Lemma mutual_exists : forall (P Q : tree -> tree -> bool) xs ys,
  (forall x y, In x xs -> In y ys -> P x y = true -> Q x y = true) ->
  (fix all (xs : list tree) : bool :=
     match xs with [] => true | x :: xs' => existsb (fun y => P x y) ys && all xs' end) xs = true ->
  (fix all (xs : list tree) : bool :=
     match xs with [] => true | x :: xs' => existsb (fun y => Q x y) ys && all xs' end) xs = true.
Proof.
  intros P Q xs ys. induction xs as [|x xs IH]; intros HPQ H; [reflexivity|].
  apply andb_prop in H as [H1 H2]. apply andb_true_intro. split.
  - apply existsb_exists in H1. destruct H1 as [y [Hy HP]]. apply existsb_exists. exists y. split; [exact Hy|].
    apply HPQ; [left; reflexivity|exact Hy|exact HP].
  - apply IH; [|exact H2]. intros x' y Hx' Hy. apply HPQ; [right; exact Hx'|exact Hy].
Qed.

Theorem data_node : forall a, Pdn a.
Proof.
  apply tree_rect'.
  - intros x [y| | | |] Hc Hd; try discriminate. cbn in *. apply leaf_data_py; [|exact Hd].
    unfold consistent in Hc. cbn in Hc. rewrite !andb_true_r in Hc. exact Hc.
  - intros ale alsl cs IH [y|ale' alsl' ds| | |] Hc Hd; try discriminate. cbn [data_eqb node_eqb] in *.
    assert (Hsub : forall c d, In c cs -> In d ds -> consistent c d = true).
    { intros c d Hc' Hd'. eapply consistent_sub; [| |exact Hc]; apply leaves_child; assumption. }
    clear Hc. revert ds Hd Hsub. induction IH as [|c cs Hpc _ IHcs]; intros [|d ds] Hd Hsub; try discriminate; [reflexivity|].
    apply andb_prop in Hd as [H1 H2]. apply andb_true_intro. split.
    + apply Hpc; [apply Hsub; left; reflexivity|exact H1].
    + apply IHcs; [exact H2|]. intros c' d' Hc' Hd'. apply Hsub; right; assumption.
  - intros ake k v IHk IHv [y| |ake' k' v'| |] Hc Hd; try discriminate. cbn [data_eqb node_eqb] in *.
    apply andb_prop in Hd as [H1 H2]. apply andb_true_intro. split.
    + apply IHk; [|exact H1]. eapply consistent_sub; [| |exact Hc]; apply leaves_child; cbn; auto.
    + apply IHv; [|exact H2]. eapply consistent_sub; [| |exact Hc]; apply leaves_child; cbn; auto.
  - intros amk cs IH [y| | |amk' ds|] Hc Hd; try discriminate. cbn [data_eqb node_eqb] in *.
    apply andb_prop in Hd as [Hd _]. apply andb_prop in Hd as [Hl Hall]. rewrite Hl. cbn [andb].
    eapply mutual_exists; [|exact Hall]. intros x y Hx Hy Hxy.
    rewrite Forall_forall in IH. apply (IH x Hx); [|exact Hxy].
    eapply consistent_sub; [| |exact Hc]; apply leaves_child; assumption.
  - intros cs IH [y| | | |ds] Hc Hd; try discriminate. cbn [data_eqb node_eqb] in *.
    apply andb_prop in Hd as [Hd _]. apply andb_prop in Hd as [Hl Hall]. rewrite Hl. cbn [andb].
    eapply mutual_exists; [|exact Hall]. intros x y Hx Hy Hxy.
    rewrite Forall_forall in IH. apply (IH x Hx); [|exact Hxy].
    eapply consistent_sub; [| |exact Hc]; apply leaves_child; assumption.
Qed.

Lemma lev_refl : forall s, lev s s = 0.
Proof. intro s. unfold lev. destruct lev_returns_loop_var_cell; [destruct s; [reflexivity|]|]; apply lev_dp_refl. Qed.

Lemma list_dispatch_equal : forall ale alsl lf lt la lb, list_dispatch_gen true true ale alsl lf lt la lb = LMatch0.
Proof. intros. reflexivity. Qed.

Theorem equal_zero : forall O pa pb a b e,
  consistent a b = true -> data_eqb a b = true -> script O pa pb a b = OK e -> cost e = 0.
Proof.
  intros O pa pb a b e Hc Hd H. pose proof (data_node a b Hc Hd) as Hn.
  destruct a as [x|ale alsl cs|ake k v|amk cs|cs].
  - destruct b as [y| | | |]; try discriminate. cbn in H, Hd, Hn. unfold leaf_data_eqb in Hd.
    apply andb_prop in Hd as [Hk Ht]. apply lkind_eqb_eq in Hk. unfold leaf_script in H. rewrite <- Hk in H.
    assert (Hnum : lk x <> KNull -> OK (EMatch (leaf_match_cost x y)) = OK e -> cost e = 0).
    { intros Hnn He. inversion He; subst e. cbn [cost]. unfold leaf_match_cost, leaf_match_cost_raw.
      destruct (lk x) eqn:Ekx; cbn in Ht;
        try (apply str_eqb_true_eq in Ht; rewrite Ht, lev_refl, Hn, !andb_false_r; apply leaf_cap_zero).
      exfalso. apply Hnn. reflexivity. }
    destruct (lk x) eqn:Ekx; try (apply Hnum; [discriminate|exact H]).
    + cbn in Ht. rewrite Ht in H. inversion H; reflexivity.
    + inversion H; reflexivity.
  - destruct b as [y|ale' alsl' ds| | |]; try discriminate. cbn [script] in H.
    assert (Hce : (fix go (xs ys : list tree) : bool :=
                     match xs, ys with
                     | [], [] => true
                     | x :: xs', y :: ys' => node_eqb x y && go xs' ys'
                     | _, _ => false
                     end) cs ds = true) by exact Hn.
    rewrite Hce, list_dispatch_equal in H. inversion H; reflexivity.
  - destruct b as [y| |ake' k' v'| |]; try discriminate. cbn [script] in H. cbn [node_eqb] in Hn.
    apply andb_prop in Hn as [Hk Hv]. rewrite Hk, Hv, orb_true_r in H. inversion H; reflexivity.
  - destruct b as [y| | |amk' ds|]; try discriminate. cbn [script] in H. rewrite Hn, orb_true_r in H. inversion H; reflexivity.
  - destruct b as [y| | | |ds]; try discriminate. cbn [script] in H. cbn [data_eqb] in Hd.
    apply andb_prop in Hd as [Hd Hback]. apply andb_prop in Hd as [Hl Hall].
    assert (Hsub : forall c d, In c cs -> In d ds -> consistent c d = true).
    { intros c d Hc' Hd'. eapply consistent_sub; [| |exact Hc]; apply leaves_child; assumption. }
    assert (H1 : forallb (fun c => existsb (fun d => node_eqb c d) ds) cs = true).
    { apply forallb_forall. intros c Hc'.
      assert (Hex : existsb (fun d => data_eqb c d) ds = true).
      { clear -Hall Hc'. induction cs as [|c0 cs IH]; [destruct Hc'|]. apply andb_prop in Hall as [Ha Hb].
        destruct Hc' as [->|Hc']; [exact Ha|apply IH; assumption]. }
      apply existsb_exists in Hex. destruct Hex as [d [Hd' Hcd]]. apply existsb_exists. exists d. split; [exact Hd'|].
      apply data_node; [apply Hsub; assumption|exact Hcd]. }
    assert (H2 : forallb (fun d => existsb (fun c => node_eqb c d) cs) ds = true).
    { rewrite forallb_forall in Hback. apply forallb_forall. intros d Hd'. specialize (Hback d Hd').
      apply existsb_exists in Hback. destruct Hback as [c [Hc' Hcd]]. apply existsb_exists. exists c. split; [exact Hc'|].
      apply data_node; [apply Hsub; assumption|exact Hcd]. }
    rewrite H1, H2, orb_true_r in H. inversion H; reflexivity.
Qed.

(* ================================================================ 2. the model's scripts are priced *)
Definition Ppr (x y : tree) (e : edit) : Prop := priced x y e = true.

Definition sub_pr (a b : tree) (k : kind) (s : sub) : Prop :=
  match s with
  | SPair i j e => sub_ok Ppr a b (SPair i j e)
  | SRem i c => exists x, nth_error (children a) i = Some x /\ size x + pen_of k a b <= c
  | SIns j c => exists y, nth_error (children b) j = Some y /\ size y + pen_of k a b <= c
  end.

Lemma priced_comp : forall a b k c subs, Forall (sub_pr a b k) subs -> priced a b (EComp k c subs) = true.
Proof.
  intros a b k c subs H. cbn [priced]. induction H as [|s ss Hs _ IH]; [reflexivity|].
  destruct s as [i j e|i c'|j c']; cbn in Hs.
  - destruct Hs as [x [y [Hx [Hy Hp]]]]. rewrite Hx, Hy. unfold Ppr in Hp. rewrite Hp. exact IH.
  - destruct Hs as [x [Hx Hle]]. rewrite Hx. apply Z.leb_le in Hle. rewrite Hle. exact IH.
  - destruct Hs as [y [Hy Hle]]. rewrite Hy. apply Z.leb_le in Hle. rewrite Hle. exact IH.
Qed.

(* the cost formulas of Replace / Remove / Insert as translated from the current source *)
Lemma remove_cost_eq : forall x p, remove_cost x p = size x + p. Proof. reflexivity. Qed.
Lemma insert_cost_eq : forall x p, insert_cost x p = size x + p. Proof. reflexivity. Qed.
Lemma replace_cost_pos : forall a b, 0 < replace_cost a b.
Proof. intros a b. unfold replace_cost, replace_cost_gen. pose proof (size_nonneg a). pose proof (size_nonneg b). lia. Qed.

Lemma replace_priced : forall a b, priced a b (EReplace (replace_cost a b)) = true.
Proof. intros a b. cbn. apply Z.ltb_lt. apply replace_cost_pos. Qed.

Lemma rem_pr : forall a b k i p, (i < length (children a))%nat -> pen_of k a b <= p ->
  sub_pr a b k (SRem i (remove_cost (nth i (children a) dummy) p)).
Proof.
  intros a b k i p Hi Hp. cbn. exists (nth i (children a) dummy). split; [apply nth_error_nth_lt; exact Hi|].
  rewrite remove_cost_eq. lia.
Qed.

Lemma ins_pr : forall a b k j p, (j < length (children b))%nat -> pen_of k a b <= p ->
  sub_pr a b k (SIns j (insert_cost (nth j (children b) dummy) p)).
Proof.
  intros a b k j p Hj Hp. cbn. exists (nth j (children b) dummy). split; [apply nth_error_nth_lt; exact Hj|].
  rewrite insert_cost_eq. lia.
Qed.

Lemma match0_pr : forall a b k i j, (i < length (children a))%nat -> (j < length (children b))%nat ->
  node_eqb (nth i (children a) dummy) (nth j (children b) dummy) = true -> sub_pr a b k (SPair i j (EMatch 0)).
Proof.
  intros a b k i j Hi Hj He. cbn. exists (nth i (children a) dummy), (nth j (children b) dummy).
  repeat split; try (apply nth_error_nth_lt; assumption). unfold Ppr. cbn [priced]. rewrite He. reflexivity.
Qed.

Lemma matrix_pr : forall O pa pb cs ds i j e a b k,
  Forall (Pgen Ppr) cs -> (forall c, In c cs -> wf c = true) -> (forall d, In d ds -> wf d = true) ->
  children a = cs -> children b = ds ->
  mget (sub_matrix O pa pb cs ds) i j = Some (OK e) -> sub_pr a b k (SPair i j e).
Proof. intros. cbn [sub_pr]. eapply (from_matrix Ppr); eauto. Qed.

(* ---------------------------------------------------------------- lists *)
Lemma fixed_len_pr : forall O pa pb ale alsl cs ale' alsl' ds subs,
  Forall (Pgen Ppr) cs -> wf (Lst ale alsl cs) = true -> wf (Lst ale' alsl' ds) = true ->
  fixed_len_subs cs ds (sub_matrix O pa pb cs ds) = Some subs ->
  Forall (sub_pr (Lst ale alsl cs) (Lst ale' alsl' ds) KFixedLen) subs.
Proof.
  intros O pa pb ale alsl cs ale' alsl' ds subs IH Hwa Hwb H. unfold fixed_len_subs in H. cbv zeta in H.
  destruct (all_some _) as [ps|] eqn:Eps; [|discriminate]. inversion H; subst subs; clear H.
  apply all_some_map in Eps. cbn in Hwa, Hwb. rewrite !Forall_app. repeat split.
  - induction Eps as [|i y l r Hy _ IHf]; constructor; [|exact IHf].
    destruct (mget _ i i) as [[e|]|] eqn:Em; inversion Hy; subst y.
    eapply matrix_pr; [exact IH|intros c0 Hc0; eapply wf_child_lst; [exact Hwa|exact Hc0]|
                       intros d0 Hd0; eapply wf_child_lst; [exact Hwb|exact Hd0]|reflexivity|reflexivity|exact Em].
  - destruct (length ds <? length cs)%nat eqn:E; [apply Nat.ltb_lt in E|constructor].
    apply Forall_forall. intros s Hs. apply in_map_iff in Hs. destruct Hs as [i [<- Hi]]. apply in_seq in Hi.
    rewrite remove_from_pos_spec in Hi by exact E.
    apply (rem_pr (Lst ale alsl cs) (Lst ale' alsl' ds) KFixedLen i 1); cbn; lia.
  - destruct (length cs <? length ds)%nat eqn:E; [apply Nat.ltb_lt in E|constructor].
    apply Forall_forall. intros s Hs. apply in_map_iff in Hs. destruct Hs as [j [<- Hj]]. apply in_seq in Hj.
    rewrite insert_from_pos_spec in Hj by exact E.
    apply (ins_pr (Lst ale alsl cs) (Lst ale' alsl' ds) KFixedLen j 1); cbn; lia.
Qed.

Lemma dispatch_penalty : forall ce ale alsl lf lt la lb p,
  list_dispatch_gen true ce ale alsl lf lt la lb = LEditDist p -> p = if la && lb then 0 else 1.
Proof.
  intros ce ale alsl lf lt la lb p H. unfold list_dispatch_gen in H. destruct ce; [discriminate|].
  destruct (negb ale || _); [discriminate|]. inversion H. reflexivity.
Qed.

Lemma dispatch_match0 : forall il ce ale alsl lf lt la lb,
  list_dispatch_gen il ce ale alsl lf lt la lb = LMatch0 -> ce = true.
Proof.
  intros il ce ale alsl lf lt la lb H. unfold list_dispatch_gen in H. destruct il; [|discriminate].
  destruct ce; [reflexivity|]. destruct (negb ale || _); discriminate.
Qed.

Lemma edit_dist_pr : forall O pa pb ale alsl cs ale' alsl' ds c k subs,
  Forall (Pgen Ppr) cs -> wf (Lst ale alsl cs) = true -> wf (Lst ale' alsl' ds) = true ->
  edit_dist_script (if all_leaves cs && all_leaves ds then 0 else 1) cs ds (sub_matrix O pa pb cs ds) = OK (EComp k c subs) ->
  Forall (sub_pr (Lst ale alsl cs) (Lst ale' alsl' ds) KEditDist) subs.
Proof.
  intros O pa pb ale alsl cs ale' alsl' ds c0 k subs IH Hwa Hwb H.
  assert (Hpen : pen_of KEditDist (Lst ale alsl cs) (Lst ale' alsl' ds) <= (if all_leaves cs && all_leaves ds then 0 else 1))
    by (unfold pen_of; cbn [children]; apply Z.le_refl).
  set (penalty := if all_leaves cs && all_leaves ds then 0 else 1) in *.
  set (A := Lst ale alsl cs) in *. set (B := Lst ale' alsl' ds) in *.
  assert (HcA : children A = cs) by reflexivity. assert (HcB : children B = ds) by reflexivity.
  destruct (trim node_eqb cs ds) as [p q] eqn:Et.
  rewrite (edit_dist_script_unfold _ _ _ _ _ _ Et) in H. cbv zeta in H.
  pose proof (trim_bounds _ _ _ _ _ Et) as [Hp1 [Hp2 [Hpq1 Hpq2]]].
  set (cs' := middle p q cs) in *. set (ds' := middle p q ds) in *.
  set (rc := map (fun c => remove_cost c penalty) cs') in *. set (ic := map (fun d => insert_cost d penalty) ds') in *.
  set (M := sub_matrix O pa pb cs ds) in *.
  destruct (ed_costs _) as [mcs|] eqn:Ec; [|discriminate]. inversion H as [[Hk Hc0 Hsubs]]; clear H Hk Hc0 Hsubs.
  assert (Hlrc : length rc = length cs') by (unfold rc; apply map_length).
  assert (Hlic : length ic = length ds') by (unfold ic; apply map_length).
  assert (Hd : dims_ok rc ic mcs) by (eapply ed_costs_dims; eauto).
  assert (Hlc : length cs' = (length cs - p - q)%nat) by (apply middle_length; exact Hpq1).
  assert (Hld : length ds' = (length ds - p - q)%nat) by (apply middle_length; exact Hpq2).
  assert (Hwc : forall c1, In c1 cs -> wf c1 = true) by (intros c1 Hc1; eapply wf_child_lst; [exact Hwa|exact Hc1]).
  assert (Hwd : forall d1, In d1 ds -> wf d1 = true) by (intros d1 Hd1; eapply wf_child_lst; [exact Hwb|exact Hd1]).
  rewrite !Forall_app. repeat split.
  - apply Forall_forall. intros s Hs. apply in_map_iff in Hs. destruct Hs as [i [<- Hi]]. apply in_seq in Hi.
    apply match0_pr; rewrite ?HcA, ?HcB; try lia.
    apply (trim_prefix_nth node_eqb cs ds p q i dummy dummy Et). lia.
  - pose proof (alignment_in_range _ _ _ Hd) as Hr. rewrite Forall_forall in Hr.
    apply Forall_forall. intros s Hs. apply in_map_iff in Hs. destruct Hs as [o [<- Ho]]. specialize (Hr o Ho).
    destruct o as [c r|c|r]; cbn in Hr.
    + destruct Hr as [Hc Hr]. unfold ed_sub.
      destruct (ed_costs_nth M p (length cs') (length ds') mcs r c Ec) as [res [Hm Hcost]]; [lia|lia|].
      rewrite Hm. destruct res as [e|x]; [|discriminate].
      eapply matrix_pr; [exact IH|exact Hwc|exact Hwd|exact HcA|exact HcB|exact Hm].
    + cbn [ed_sub].
      assert (Hn : nth c rc 0 = remove_cost (nth (p + c) (children A) dummy) penalty).
      { unfold rc. rewrite (nth_map_lt _ cs' c dummy 0) by lia. f_equal. rewrite HcA. apply middle_nth. fold cs'. lia. }
      rewrite Hn. apply rem_pr; [rewrite HcA; lia|exact Hpen].
    + cbn [ed_sub].
      assert (Hn : nth r ic 0 = insert_cost (nth (p + r) (children B) dummy) penalty).
      { unfold ic. rewrite (nth_map_lt _ ds' r dummy 0) by lia. f_equal. rewrite HcB. apply middle_nth. fold ds'. lia. }
      rewrite Hn. apply ins_pr; [rewrite HcB; lia|exact Hpen].
  - apply Forall_forall. intros s Hs. apply in_map_iff in Hs. destruct Hs as [i [<- Hi]]. apply in_seq in Hi.
    apply match0_pr; rewrite ?HcA, ?HcB; try lia.
    apply (trim_suffix_nth node_eqb cs ds p q i dummy dummy Et). lia.
Qed.

(* ---------------------------------------------------------------- multisets *)
Lemma multiset_pr : forall O pa pb amk cs amk' ds c k subs,
  Forall (Pgen Ppr) cs -> wf (MSet amk cs) = true -> wf (MSet amk' ds) = true ->
  multiset_script O pa pb amk cs ds (sub_matrix O pa pb cs ds) = OK (EComp k c subs) ->
  Forall (sub_pr (MSet amk cs) (MSet amk' ds) KMultiSet) subs.
Proof.
  intros O pa pb amk cs amk' ds c0 k subs IH Hwa Hwb H. cbn in Hwa, Hwb.
  apply andb_prop in Hwa as [Hwa Kcs]. apply andb_prop in Hwb as [Hwb Kds].
  destruct (wf_mset_parts _ Hwa) as [Hcs Hwcs]. destruct (wf_mset_parts _ Hwb) as [Hds Hwds].
  set (M := sub_matrix O pa pb cs ds) in *.
  rewrite multiset_script_unfold in H.
  destruct (ms_matching O pa pb amk cs ds) as [mt|] eqn:Emt; [|destruct (lookup pa pb (o_match O)); discriminate].
  destruct (all_some (map (ms_get M) (ms_pre amk cs ds))) as [pre_subs|] eqn:Epre; [|discriminate].
  destruct (all_some (map (ms_get M) mt)) as [mt_subs|] eqn:Emts; [|discriminate].
  cbv zeta in H. inversion H as [[Hk Hc0 Hsubs]]; clear H Hk Hc0 Hsubs. apply all_some_map in Epre, Emts.
  assert (Hsub : forall l subs, Forall2 (fun x y => ms_get M x = Some y) l subs ->
                 Forall (sub_pr (MSet amk cs) (MSet amk' ds) KMultiSet) subs).
  { intros l subs0 HF. induction HF as [|ij s l r Hs _ IHF]; constructor; [|exact IHF].
    apply ms_get_sub in Hs. destruct Hs as [e [-> Hm]]. eapply matrix_pr; eauto. }
  rewrite !Forall_app. repeat split.
  - apply Forall_forall. intros s Hs. apply in_map_iff in Hs. destruct Hs as [[i j] [<- Hij]]. cbn [fst snd].
    apply in_partner in Hij. destruct Hij as [Hi Hf]. apply find_some in Hf. destruct Hf as [Hj Heq].
    apply fl_lt in Hi. apply tl_lt in Hj. apply match0_pr; [exact Hi|exact Hj|exact Heq].
  - eapply Hsub; exact Epre.
  - eapply Hsub; exact Emts.
  - apply Forall_forall. intros s Hs. apply in_map_iff in Hs. destruct Hs as [i [<- Hi]].
    apply filter_In in Hi. destruct Hi as [Hi _]. unfold ms_R in Hi. apply filter_In in Hi. destruct Hi as [Hi _].
    apply fl_lt in Hi. apply (rem_pr (MSet amk cs) (MSet amk' ds) KMultiSet i 1); [exact Hi|cbn; lia].
  - apply Forall_forall. intros s Hs. apply in_map_iff in Hs. destruct Hs as [j [<- Hj]].
    apply filter_In in Hj. destruct Hj as [Hj _]. unfold ms_I in Hj. apply filter_In in Hj. destruct Hj as [Hj _].
    apply tl_lt in Hj. apply (ins_pr (MSet amk cs) (MSet amk' ds) KMultiSet j 1); [exact Hj|cbn; lia].
Qed.

(* ---------------------------------------------------------------- fixed-key dictionaries *)
Lemma fixed_dict_pr : forall O pa pb cs ds c k subs,
  Forall (Pgen Ppr) cs -> wf (FDict cs) = true -> wf (FDict ds) = true ->
  fixed_dict_script O pa pb (FDict cs) (FDict ds) cs ds (sub_matrix O pa pb cs ds) = OK (EComp k c subs) ->
  Forall (sub_pr (FDict cs) (FDict ds) KFixedDict) subs.
Proof.
  intros O pa pb cs ds c0 k subs IH Hwa Hwb H. cbn in Hwa, Hwb.
  apply andb_prop in Hwa as [Hwa Kcs]. apply andb_prop in Hwb as [Hwb Kds].
  destruct (wf_mset_parts _ Hwa) as [Hcs Hwcs]. destruct (wf_mset_parts _ Hwb) as [Hds Hwds].
  set (M := sub_matrix O pa pb cs ds) in *.
  rewrite fixed_dict_script_unfold in H.
  destruct (fd_order O pa pb cs ds) as [ord|] eqn:Eo; [|destruct (lookup pa pb (o_order O)); discriminate].
  destruct (all_some (map (fd_get cs ds M) (fd_shared cs ds))) as [sh|] eqn:Esh; [|discriminate].
  cbv zeta in H. destruct (_ <=? _); [|discriminate]. inversion H as [[Hk Hc0 Hsubs]]; clear H Hk Hc0 Hsubs.
  apply all_some_map in Esh. rewrite !Forall_app. repeat split.
  - assert (Hlt : forall ij, In ij (fd_shared cs ds) -> (fst ij < length cs)%nat /\ (snd ij < length ds)%nat).
    { intros [i j] Hin. apply in_fd_shared in Hin. destruct Hin as [Hi Hp]. cbn.
      split; [exact Hi|]. apply (fd_partner_spec cs ds i j Hi Hp). }
    induction Esh as [|ij s l r Hs _ IHF]; constructor; [|apply IHF; intros; apply Hlt; right; assumption].
    destruct (Hlt ij (or_introl eq_refl)) as [Hi Hj]. unfold fd_get in Hs.
    destruct (node_eqb (nth (fst ij) cs dummy) (nth (snd ij) ds dummy)) eqn:En.
    + inversion Hs. apply match0_pr; [exact Hi|exact Hj|exact En].
    + destruct (mget M (fst ij) (snd ij)) as [[e|]|] eqn:Em; inversion Hs. eapply matrix_pr; eauto.
  - apply Forall_forall. intros s Hs. apply in_map_iff in Hs. destruct Hs as [i [<- Hi]].
    apply (Permutation_in i (fd_order_perm O pa pb cs ds ord Eo)) in Hi. unfold fd_unshared in Hi. apply filter_seq_lt in Hi.
    apply (rem_pr (FDict cs) (FDict ds) KFixedDict i 1); [exact Hi|cbn; lia].
  - apply Forall_forall. intros s Hs. apply in_map_iff in Hs. destruct Hs as [j [<- Hj]].
    unfold fd_inserted in Hj. apply filter_seq_lt in Hj.
    apply (ins_pr (FDict cs) (FDict ds) KFixedDict j 1); [exact Hj|cbn; lia].
Qed.

(* ---------------------------------------------------------------- leaves *)
Lemma lev_dp_nonneg : forall s t, 0 <= lev_dp s t.
Proof.
  intros s t. unfold lev_dp, lev_last_col. change (fold_left _ t (lev_col0 s)) with (lev_cols s t).
  rewrite last_nth, lev_cols_length. apply lev_cols_nonneg. lia.
Qed.

Lemma lev_nonneg : forall s t, 0 <= lev s t.
Proof.
  intros s t. unfold lev. destruct lev_returns_loop_var_cell; [destruct t; [lia|]|]; apply lev_dp_nonneg.
Qed.

(* LeafNode.edits as the current source has it (GTgen.EdGen.leaf_zero_cost_adjusted): a Match of two leaves costs 0
   only if they are == *)
Lemma leaf_match_priced_raw : forall x y, priced (Leaf x) (Leaf y) (EMatch (leaf_match_cost_raw x y)) = true.
Proof.
  intros x y. cbn [priced node_eqb]. unfold leaf_match_cost_raw.
  pose proof (lev_nonneg (ltext x) (ltext y)) as Hd. set (d := lev (ltext x) (ltext y)) in *.
  change leaf_zero_cost_adjusted with true. cbn [andb].
  destruct (Z.eqb_spec d 0) as [E|E]; destruct (py_eqb x y) eqn:Ep; cbn [negb andb].
  - rewrite E. reflexivity.
  - reflexivity.
  - apply andb_true_intro. split; [apply Z.leb_le; lia|]. destruct (d =? 0); reflexivity.
  - apply andb_true_intro. split; [apply Z.leb_le; lia|]. apply Z.eqb_neq in E. rewrite E. reflexivity.
Qed.
(* the cap (min with the replace cost, which is >= 1) keeps that: it never turns a positive cost into 0 *)
Lemma leaf_match_priced : forall x y, priced (Leaf x) (Leaf y) (EMatch (leaf_match_cost x y)) = true.
Proof.
  intros x y. pose proof (leaf_match_priced_raw x y) as H. cbn [priced node_eqb] in *. unfold leaf_match_cost.
  apply andb_prop in H as [H0 H1]. apply Z.leb_le in H0.
  destruct (leaf_cap_spec x y _ H0) as [[L U] Z0].
  apply andb_true_intro. split; [apply Z.leb_le; exact L|].
  destruct (Z.eqb_spec (leaf_cap x y (leaf_match_cost_raw x y)) 0) as [E|E]; [|reflexivity].
  apply (proj1 Z0) in E. rewrite E in H1. exact H1.
Qed.

Lemma str_script_pos : forall s t, str_eqb s t = false -> 0 < fst (str_script s t).
Proof.
  intros s t Hne. rewrite C11_cost. destruct (lcs_witness s t) as [w [H1 [H2 H3]]].
  pose proof (subseq_length _ _ H1) as L1. pose proof (subseq_length _ _ H2) as L2. rewrite H3 in L1, L2.
  destruct (Z_lt_le_dec 0 (Z.of_nat (length s) + Z.of_nat (length t) - 2 * Z.of_nat (lcs s t))) as [Hpos|Hle];
    [exact Hpos|exfalso].
  assert (Es : w = s) by (apply subseq_full_length; [exact H1|lia]).
  assert (Et : w = t) by (apply subseq_full_length; [exact H2|lia]).
  subst s. subst t. rewrite LcsProofs.str_eqb_refl in Hne. discriminate.
Qed.

Lemma leaf_script_pr : forall x b e, leaf_script x (Leaf x) b = OK e -> priced (Leaf x) b e = true.
Proof.
  intros x b e H. unfold leaf_script in H.
  destruct (lk x) eqn:Ekx; destruct b as [y| | | |];
    try (inversion H; subst e; first [apply leaf_match_priced|apply replace_priced]).
  - (* string *)
    destruct (lk y) eqn:Eky; try (inversion H; subst e; apply leaf_match_priced).
    destruct (str_eqb (ltext x) (ltext y)) eqn:Es.
    + inversion H; subst e. cbn [priced node_eqb]. unfold py_eqb. rewrite Ekx, Eky, Es. reflexivity.
    + destruct (Nat.eqb (length (ltext x)) 1 && Nat.eqb (length (ltext y)) 1); [inversion H; subst e; reflexivity|].
      destruct (str_script (ltext x) (ltext y)) as [c ops] eqn:E. inversion H; subst e. cbn [priced].
      apply Z.ltb_lt. pose proof (str_script_pos _ _ Es) as Hp. rewrite E in Hp. exact Hp.
  - (* null *)
    destruct (lk y) eqn:Eky; try (inversion H; subst e; apply replace_priced).
    inversion H; subst e. cbn [priced node_eqb]. unfold py_eqb. rewrite Ekx, Eky. reflexivity.
Qed.

(* ---------------------------------------------------------------- mappings: a key-respecting inclusion between
   mappings of the same size is onto *)
Lemma filter_nil_iff : forall {A} (f : A -> bool) l, filter f l = [] <-> (forall x, In x l -> f x = false).
Proof.
  intros A f l. induction l as [|x l IH]; cbn; [split; [intros _ y []|reflexivity]|].
  destruct (f x) eqn:E; split.
  - discriminate.
  - intro H. rewrite (H x (or_introl eq_refl)) in E. discriminate.
  - intros H y [<-|Hy]; [exact E|apply IH; assumption].
  - intro H. apply IH. intros y Hy. apply H. right. exact Hy.
Qed.

Lemma incl_surj : forall (R : tree -> tree -> bool) cs ds,
  Forall kvp_ok cs -> Forall kvp_ok ds -> keys_distinct node_eqb cs = true -> keys_distinct node_eqb ds = true ->
  (forall c d, In c cs -> In d ds -> R c d = true -> key_eqb c d = true) ->
  (forall c, In c cs -> exists d, In d ds /\ R c d = true) ->
  (length cs <= length ds)%nat /\
  (length cs = length ds -> forall d, In d ds -> exists c, In c cs /\ R c d = true).
Proof.
  intros R cs ds Hcs Hds Kcs Kds HR Hincl.
  assert (Hun : fd_unshared cs ds = []).
  { unfold fd_unshared. apply filter_nil_iff. intros i Hi. apply in_seq in Hi.
    destruct (fd_partner cs ds i) as [j|] eqn:E; [reflexivity|exfalso].
    assert (Hin : In (nth i cs dummy) cs) by (apply nth_In; lia).
    destruct (Hincl _ Hin) as [d [Hd HRd]].
    unfold fd_partner in E. pose proof (find_index_none _ _ _ E d Hd) as Hn.
    pose proof (HR _ _ Hin Hd HRd) as Hk. unfold key_eqb in Hk. congruence. }
  pose proof (fd_from cs ds) as Hfrom. rewrite Hun, app_nil_r in Hfrom. apply Permutation_length in Hfrom.
  rewrite map_length, seq_length in Hfrom.
  pose proof (fd_to cs ds Hcs Hds Kcs Kds) as Hto. apply Permutation_length in Hto.
  rewrite app_length, map_length, seq_length in Hto.
  split; [lia|]. intros Hlen d Hd.
  assert (Hins : fd_inserted cs ds = []) by (apply length_zero_iff_nil; lia).
  apply (In_nth _ _ dummy) in Hd. destruct Hd as [j [Hj <-]].
  unfold fd_inserted in Hins. pose proof (proj1 (filter_nil_iff _ _) Hins j) as Hf.
  assert (Hjs : In j (seq 0 (length ds))) by (apply in_seq; lia). specialize (Hf Hjs).
  apply negb_false_iff in Hf. apply existsb_exists in Hf. destruct Hf as [c [Hc Hk]].
  destruct (Hincl c Hc) as [d' [Hd' HR']]. exists c. split; [exact Hc|].
  assert (Heq : d' = nth j ds dummy).
  { pose proof (HR _ _ Hc Hd' HR') as Hk'.
    assert (Kc : kvp_ok c) by (eapply Forall_forall; [exact Hcs|exact Hc]).
    assert (Kd' : kvp_ok d') by (eapply Forall_forall; [exact Hds|exact Hd']).
    assert (Kj : kvp_ok (nth j ds dummy)) by (eapply Forall_forall; [exact Hds|apply nth_In; exact Hj]).
    apply In_nth_error in Hd'. destruct Hd' as [j' Hj'].
    assert (j' = j).
    { apply (keys_distinct_nth ds j' j d' (nth j ds dummy) Kds Hds Hj' (nth_error_nth_lt ds j dummy Hj)).
      apply (key_eqb_trans _ c); auto. rewrite key_eqb_sym by assumption. exact Hk'. }
    subst j'. rewrite (nth_error_nth_lt ds j dummy Hj) in Hj'. inversion Hj'. reflexivity. }
  rewrite <- Heq. exact HR'.
Qed.

Lemma forallb_inline : forall (f : tree -> tree -> bool) xs ys,
  forallb (fun x => existsb (fun y => f x y) ys) xs =
  (fix all (xs : list tree) : bool :=
     match xs with [] => true | x :: xs' => existsb (fun y => f x y) ys && all xs' end) xs.
Proof. intros f xs ys. induction xs as [|x xs IH]; [reflexivity|]. cbn. rewrite IH. reflexivity. Qed.

(* FixedKeyDictNode.__eq__ is dictionary equality; the model's short cut tests mutual inclusion *)
Lemma fdict_mutual_eq : forall cs ds, wf (FDict cs) = true -> wf (FDict ds) = true ->
  forallb (fun c => existsb (fun d => node_eqb c d) ds) cs = true ->
  forallb (fun d => existsb (fun c => node_eqb c d) cs) ds = true ->
  node_eqb (FDict cs) (FDict ds) = true.
Proof.
  intros cs ds Hwa Hwb H1 H2. cbn in Hwa, Hwb.
  apply andb_prop in Hwa as [Hwa Kcs]. apply andb_prop in Hwb as [Hwb Kds].
  destruct (wf_mset_parts _ Hwa) as [Hcs _]. destruct (wf_mset_parts _ Hwb) as [Hds _].
  rewrite forallb_forall in H1, H2.
  assert (L1 : (length cs <= length ds)%nat).
  { apply (incl_surj node_eqb cs ds Hcs Hds Kcs Kds).
    - intros c d Hc Hd He.
      apply node_eqb_key; [exact (proj1 (Forall_forall _ _) Hcs c Hc)|exact (proj1 (Forall_forall _ _) Hds d Hd)|exact He].
    - intros c Hc. specialize (H1 c Hc). apply existsb_exists in H1. exact H1. }
  assert (L2 : (length ds <= length cs)%nat).
  { apply (incl_surj (fun d c => node_eqb c d) ds cs Hds Hcs Kds Kcs).
    - intros d c Hd Hc He.
      assert (Kc : kvp_ok c) by exact (proj1 (Forall_forall _ _) Hcs c Hc).
      assert (Kd : kvp_ok d) by exact (proj1 (Forall_forall _ _) Hds d Hd).
      rewrite key_eqb_sym by assumption. apply node_eqb_key; assumption.
    - intros d Hd. specialize (H2 d Hd). apply existsb_exists in H2. exact H2. }
  cbn [node_eqb]. rewrite <- forallb_inline. apply andb_true_intro. split; [apply Nat.eqb_eq; lia|].
  apply forallb_forall. exact H1.
Qed.

(* ---------------------------------------------------------------- the whole model *)
Theorem script_priced : forall a, Pgen Ppr a.
Proof.
  apply tree_rect'.
  - intros x O pa pb b e _ _ H. cbn in H. apply leaf_script_pr. exact H.
  - intros ale alsl cs IH O pa pb b e Hwa Hwb H. unfold Ppr. cbn [script] in H.
    destruct b as [y|ale' alsl' ds|? ? ?|? ?|?];
      try (rewrite list_dispatch_not_list in H; inversion H; subst e; apply replace_priced).
    fold (sub_matrix O pa pb cs ds) in H.
    match type of H with context [list_dispatch_gen true ?c] => set (ce := c) in * end.
    destruct (list_dispatch_gen _ _ _ _ _ _ _ _) as [| |penalty|] eqn:Ed.
    + inversion H; subst e. apply dispatch_match0 in Ed. cbn [priced]. cbn [Z.leb Z.eqb Z.compare andb].
      change (node_eqb (Lst ale alsl cs) (Lst ale' alsl' ds)) with ce. exact Ed.
    + destruct (fixed_len_subs cs ds _) as [subs|] eqn:Ef; [|discriminate]. inversion H; subst e.
      apply priced_comp. eapply fixed_len_pr; eauto.
    + apply dispatch_penalty in Ed. subst penalty.
      assert (He : exists c subs, e = EComp KEditDist c subs).
      { destruct (trim node_eqb cs ds) as [p q] eqn:Et. rewrite (edit_dist_script_unfold _ _ _ _ _ _ Et) in H.
        cbv zeta in H. destruct (ed_costs _); [|discriminate]. inversion H. eauto. }
      destruct He as [c [subs ->]]. apply priced_comp. eapply edit_dist_pr; eauto.
    + inversion H; subst e. apply replace_priced.
  - intros ake k v IHk IHv O pa pb b e Hwa Hwb H. unfold Ppr. cbn [script] in H.
    destruct b as [y|? ? ?|ake' k' v'|? ?|?]; try discriminate.
    destruct (ake || node_eqb k k'); [|inversion H; subst e; apply replace_priced].
    cbn in Hwa, Hwb.
    apply andb_prop in Hwa as [Hwa Hwv]. apply andb_prop in Hwa as [Hwa _]. apply andb_prop in Hwa as [_ Hwk].
    apply andb_prop in Hwb as [Hwb Hwv']. apply andb_prop in Hwb as [Hwb _]. apply andb_prop in Hwb as [_ Hwk'].
    assert (Hke : forall e1, (if node_eqb k k' then OK (EMatch 0) else script O (pa ++ [0%nat]) (pb ++ [0%nat]) k k') = OK e1 ->
                  priced k k' e1 = true).
    { intros e1 He. destruct (node_eqb k k') eqn:En; [inversion He; cbn [priced]; rewrite En; reflexivity|]. eapply IHk; eauto. }
    assert (Hve : forall e2, (if node_eqb v v' then OK (EMatch 0) else script O (pa ++ [1%nat]) (pb ++ [1%nat]) v v') = OK e2 ->
                  priced v v' e2 = true).
    { intros e2 He. destruct (node_eqb v v') eqn:En; [inversion He; cbn [priced]; rewrite En; reflexivity|]. eapply IHv; eauto. }
    destruct (if node_eqb k k' then _ else _) as [e1|x1]; [|destruct (if node_eqb v v' then _ else _); discriminate].
    destruct (if node_eqb v v' then _ else _) as [e2|x2]; [|discriminate].
    inversion H; subst e. cbn. rewrite (Hke e1 eq_refl), (Hve e2 eq_refl). reflexivity.
  - intros amk cs IH O pa pb b e Hwa Hwb H. unfold Ppr. cbn [script] in H.
    destruct b as [y|? ? ?|? ? ?|amk' ds|?]; try (inversion H; subst e; apply replace_priced).
    destruct ((match cs, ds with [], [] => true | _, _ => false end) || node_eqb (MSet amk cs) (MSet amk' ds)) eqn:Eq.
    + inversion H; subst e. cbn [priced]. cbn [Z.leb Z.eqb Z.compare andb].
      apply orb_prop in Eq. destruct Eq as [Eq|Eq]; [|exact Eq].
      destruct cs; [|discriminate]. destruct ds; [|discriminate]. reflexivity.
    + assert (He : exists c subs, e = EComp KMultiSet c subs).
      { rewrite multiset_script_unfold in H. destruct (ms_matching _ _ _ _ _ _); [|destruct (lookup _ _ _); discriminate].
        destruct (all_some _); [|discriminate]. destruct (all_some _); [|discriminate]. inversion H. eauto. }
      destruct He as [c [subs ->]]. apply priced_comp. eapply multiset_pr; eauto.
  - intros cs IH O pa pb b e Hwa Hwb H. unfold Ppr. cbn [script] in H.
    destruct b as [y|? ? ?|? ? ?|? ?|ds]; try (inversion H; subst e; apply replace_priced); try discriminate.
    destruct ((match cs, ds with [], [] => true | _, _ => false end) || _) eqn:Eq.
    + inversion H; subst e. cbn [priced]. cbn [Z.leb Z.eqb Z.compare andb].
      apply orb_prop in Eq. destruct Eq as [Eq|Eq].
      * destruct cs; [|discriminate]. destruct ds; [|discriminate]. reflexivity.
      * apply andb_prop in Eq as [E1 E2]. apply fdict_mutual_eq; assumption.
    + assert (He : exists c subs, e = EComp KFixedDict c subs).
      { rewrite fixed_dict_script_unfold in H. destruct (fd_order _ _ _ _ _); [|destruct (lookup _ _ _); discriminate].
        destruct (all_some _); [|discriminate]. cbv zeta in H. destruct (_ <=? _); [|discriminate]. inversion H. eauto. }
      destruct He as [c [subs ->]]. apply priced_comp. eapply fixed_dict_pr; eauto.
Qed.

(* the direction  cost 0 -> equal up to D4 and D16,  for the model *)
Theorem script_zero_sim : forall O pa pb a b e,
  wf a = true -> wf b = true -> numtext_ok a = true -> numtext_ok b = true ->
  script O pa pb a b = OK e -> 0 <= cost e /\ (cost e = 0 -> zsim a b = true).
Proof.
  intros O pa pb a b e Hwa Hwb Hna Hnb H. apply spec_sound; try assumption.
  - exact (script_valid a O pa pb b e Hwa Hwb H).
  - exact (script_additive a O pa pb b e H).
  - exact (script_priced a O pa pb b e Hwa Hwb H).
Qed.

(* ================================================================ 3. zsim is data equality outside D4 and D16 *)
Lemma typed_sub : forall a b a' b', incl (leaves a') (leaves a) -> incl (leaves b') (leaves b) ->
  typed a b = true -> typed a' b' = true.
Proof.
  intros a b a' b' Ha Hb H. unfold typed in *. rewrite forallb_forall in *. intros x Hx.
  specialize (H x (Ha x Hx)). rewrite forallb_forall in *. intros y Hy. apply H. apply Hb. exact Hy.
Qed.

Lemma leaf_sim_zsim : forall x y, leaf_sim x y = true -> zsim x y = true.
Proof. intros [p| | | |] [q| | | |] H; try discriminate. exact H. Qed.

Lemma list_eqb_inline : forall (f g : tree -> tree -> bool) cs ds,
  (forall c d, In c cs -> In d ds -> f c d = true -> g c d = true) ->
  list_eqb f cs ds = true ->
  (fix go (xs ys : list tree) {struct xs} : bool :=
     match xs, ys with
     | [], [] => true
     | x :: xs', y :: ys' => g x y && go xs' ys'
     | _, _ => false
     end) cs ds = true.
Proof.
  intros f g cs. induction cs as [|c cs IH]; intros [|d ds] Hfg H; try discriminate; [reflexivity|].
  cbn [list_eqb] in H. apply andb_prop in H as [H1 H2]. apply andb_true_intro. split.
  - apply Hfg; [left; reflexivity|left; reflexivity|exact H1].
  - apply IH; [|exact H2]. intros c' d' Hc' Hd'. apply Hfg; right; assumption.
Qed.

Lemma list_eqb_mono : forall (f g : tree -> tree -> bool) cs ds,
  (forall c d, f c d = true -> g c d = true) -> list_eqb f cs ds = true -> list_eqb g cs ds = true.
Proof.
  intros f g cs. induction cs as [|c cs IH]; intros [|d ds] Hfg H; try discriminate; [reflexivity|].
  cbn [list_eqb] in *. apply andb_prop in H as [H1 H2]. rewrite (Hfg _ _ H1). apply IH; assumption.
Qed.

Lemma zsim_key : forall c d, kvp_ok c -> kvp_ok d -> zsim c d = true -> key_eqb c d = true.
Proof.
  intros c d [a1 [l1 [v1 [-> H1]]]] [a2 [l2 [v2 [-> H2]]]] H. unfold key_eqb. cbn in *.
  apply andb_prop in H. tauto.
Qed.

Definition Pzd (a : tree) : Prop := forall b,
  wf a = true -> wf b = true -> typed a b = true -> nozero a = true -> nozero b = true ->
  zsim a b = true -> data_eqb a b = true.

(* members of two similar mappings *)
Lemma mapping_zsim_data : forall cs ds,
  Forall Pzd cs ->
  forallb (fun c => is_kvp c && wf c) cs = true -> keys_distinct node_eqb cs = true ->
  forallb (fun c => is_kvp c && wf c) ds = true -> keys_distinct node_eqb ds = true ->
  (forall c d, In c cs -> In d ds -> typed c d = true) ->
  forallb nozero cs = true -> forallb nozero ds = true ->
  Nat.eqb (length cs) (length ds) && forallb (fun x => existsb (fun y => zsim x y) ds) cs = true ->
  Nat.eqb (length cs) (length ds) &&
  (fix all (xs : list tree) : bool :=
     match xs with [] => true | x :: xs' => existsb (fun y => data_eqb x y) ds && all xs' end) cs &&
  forallb (fun y => existsb (fun x => data_eqb x y) cs) ds = true.
Proof.
  intros cs ds IH Hwa Kcs Hwb Kds Ht Hna Hnb Hz.
  destruct (wf_mset_parts _ Hwa) as [Hcs Hwcs]. destruct (wf_mset_parts _ Hwb) as [Hds Hwds].
  apply andb_prop in Hz as [Hlen Hinc]. rewrite forallb_forall in Hinc, Hna, Hnb. rewrite Forall_forall in IH.
  assert (HD : forall c d, In c cs -> In d ds -> zsim c d = true -> data_eqb c d = true).
  { intros c d Hc Hd Hzz. apply (IH c Hc d); auto. }
  rewrite Hlen. cbn [andb]. apply andb_true_intro. split.
  - rewrite <- forallb_inline. apply forallb_forall. intros c Hc. specialize (Hinc c Hc).
    apply existsb_exists in Hinc. destruct Hinc as [d [Hd Hzz]]. apply existsb_exists. exists d. split; [exact Hd|]. auto.
  - apply forallb_forall. intros d Hd. apply Nat.eqb_eq in Hlen.
    destruct (incl_surj zsim cs ds Hcs Hds Kcs Kds) as [_ Hsurj].
    + intros c d' Hc Hd' Hzz. apply zsim_key; [exact (proj1 (Forall_forall _ _) Hcs c Hc)|
                                               exact (proj1 (Forall_forall _ _) Hds d' Hd')|exact Hzz].
    + intros c Hc. specialize (Hinc c Hc). apply existsb_exists in Hinc. exact Hinc.
    + destruct (Hsurj Hlen d Hd) as [c [Hc Hzz]]. apply existsb_exists. exists c. split; [exact Hc|]. auto.
Qed.

Theorem zsim_data : forall a, Pzd a.
Proof.
  apply tree_rect'.
  - intros x [y| | | |] _ _ Ht _ _ Hz; try discriminate. cbn in *. rewrite Hz in Ht. cbn in Ht.
    rewrite !andb_true_r in Ht. exact Ht.
  - intros ale alsl cs IH [y|ale' alsl' ds| | |] Hwa Hwb Ht Hna Hnb Hz; try discriminate.
    cbn [zsim] in Hz. cbn [nozero] in Hna, Hnb. cbn [wf] in Hwa, Hwb.
    apply andb_prop in Hna as [Hna1 Hna2]. apply andb_prop in Hnb as [Hnb1 Hnb2].
    assert (Hl : list_eqb zsim cs ds = true).
    { destruct (list_eqb zsim cs ds) eqn:El; [reflexivity|]. cbn [orb] in Hz.
      apply andb_prop in Hz as [Hz Hf]. apply andb_prop in Hz as [HA HB].
      rewrite HA in Hna1. rewrite HB in Hnb1. cbn [andb] in Hna1, Hnb1.
      apply negb_true_iff in Hna1. apply negb_true_iff in Hnb1.
      assert (Fa : filter nonempty cs = cs).
      { apply filter_all_true. intros c Hc. unfold nonempty. destruct (empty_leaf c) eqn:Ee; [|reflexivity].
        assert (existsb empty_leaf cs = true) by (apply existsb_exists; eauto). congruence. }
      assert (Fb : filter nonempty ds = ds).
      { apply filter_all_true. intros d Hd. unfold nonempty. destruct (empty_leaf d) eqn:Ee; [|reflexivity].
        assert (existsb empty_leaf ds = true) by (apply existsb_exists; eauto). congruence. }
      rewrite Fa, Fb in Hf. rewrite (list_eqb_mono leaf_sim zsim cs ds leaf_sim_zsim Hf) in El. discriminate. }
    cbn [data_eqb]. apply (list_eqb_inline zsim data_eqb cs ds); [|exact Hl].
    intros c d Hc Hd Hzz. rewrite Forall_forall in IH. rewrite forallb_forall in Hna2, Hnb2. apply (IH c Hc d); auto.
    + eapply wf_child_lst; [exact Hwa|exact Hc].
    + eapply wf_child_lst; [exact Hwb|exact Hd].
    + eapply typed_sub; [| |exact Ht]; apply leaves_child; assumption.
  - intros ake k v IHk IHv [y| |ake' k' v'| |] Hwa Hwb Ht Hna Hnb Hz; try discriminate.
    cbn [zsim data_eqb] in *. cbn [nozero] in Hna, Hnb. cbn [wf] in Hwa, Hwb.
    apply andb_prop in Hz as [Hz1 Hz2]. apply andb_prop in Hna as [Hna1 Hna2]. apply andb_prop in Hnb as [Hnb1 Hnb2].
    apply andb_prop in Hwa as [Hwa Hwv]. apply andb_prop in Hwa as [Hwa _]. apply andb_prop in Hwa as [_ Hwk].
    apply andb_prop in Hwb as [Hwb Hwv']. apply andb_prop in Hwb as [Hwb _]. apply andb_prop in Hwb as [_ Hwk'].
    apply andb_true_intro. split.
    + apply IHk; auto. eapply typed_sub; [| |exact Ht]; apply leaves_child; cbn; auto.
    + apply IHv; auto. eapply typed_sub; [| |exact Ht]; apply leaves_child; cbn; auto.
  - intros amk cs IH [y| | |amk' ds|] Hwa Hwb Ht Hna Hnb Hz; try discriminate.
    cbn [zsim data_eqb nozero wf] in *.
    apply andb_prop in Hwa as [Hwa Kcs]. apply andb_prop in Hwb as [Hwb Kds].
    apply mapping_zsim_data; auto.
    intros c d Hc Hd. eapply typed_sub; [| |exact Ht]; apply leaves_child; assumption.
  - intros cs IH [y| | | |ds] Hwa Hwb Ht Hna Hnb Hz; try discriminate.
    cbn [zsim data_eqb nozero wf] in *.
    apply andb_prop in Hwa as [Hwa Kcs]. apply andb_prop in Hwb as [Hwb Kds].
    apply mapping_zsim_data; auto.
    intros c d Hc Hd. eapply typed_sub; [| |exact Ht]; apply leaves_child; assumption.
Qed.

(* ================================================================ 4. C02 for the model *)
(* with exactly the carve-outs of the open findings D4 (typed) and D16 (nozero) *)
Theorem script_zero_iff : forall O pa pb a b e,
  wf a = true -> wf b = true -> numtext_ok a = true -> numtext_ok b = true -> consistent a b = true ->
  typed a b = true -> nozero a = true -> nozero b = true ->
  script O pa pb a b = OK e -> (cost e = 0 <-> data_eqb a b = true).
Proof.
  intros O pa pb a b e Hwa Hwb Hna Hnb Hc Ht Hza Hzb H. split.
  - intro H0. apply zsim_data; try assumption.
    destruct (script_zero_sim O pa pb a b e Hwa Hwb Hna Hnb H) as [_ Hz]. apply Hz. exact H0.
  - intro Hd. eapply equal_zero; eauto.
Qed.

(* the full statement is false for the current code: the two open findings *)
Definition mk_leaf (k : lkind) (t : str) (n : Z) : tree := Leaf {| lk := k; ltext := t; lnum := n; lexp := 0 |}.
Definition no_oracle : oracle := {| o_match := []; o_order := [] |}.

Definition full_C02_fails (a b : tree) (e : edit) : Prop :=
  wf a = true /\ wf b = true /\ numtext_ok a = true /\ numtext_ok b = true /\ consistent a b = true /\
  script no_oracle [] [] a b = OK e /\ cost e = 0 /\ data_eqb a b = false.

(* D4: [1] vs [1.0] *)
Theorem refuted_cross_type : exists a b e, full_C02_fails a b e /\ typed a b = false.
Proof.
  exists (Lst true true [mk_leaf KInt [49] 1]), (Lst true true [mk_leaf KFloat [49; 46; 48] 1]), (EMatch 0).
  vm_compute. repeat split; reflexivity.
Qed.

(* D16: [] vs [null] *)
Theorem refuted_zero_size : exists a b e, full_C02_fails a b e /\ nozero b = false.
Proof.
  exists (Lst true true []), (Lst true true [mk_leaf KNull [78; 111; 110; 101] 0]), (EComp KEditDist 0 [SIns 0 0]).
  vm_compute. repeat split; reflexivity.
Qed.

(* every failure of the full statement lies in one of the two classes the harness uses to recognise the open findings *)
Theorem script_failures_classified : forall O pa pb a b e ft ec,
  wf a = true -> wf b = true -> numtext_ok a = true -> numtext_ok b = true -> consistent a b = true ->
  script O pa pb a b = OK e ->
  let c := {| sc_a := a; sc_b := b; sc_edit := e; sc_flat_total := ft; sc_edited_cost := ec |} in
  spec_ok c = true /\
  (holds_C02 c = false -> kf_cross_type_py_equal c || kf_zero_size_in_leaf_list c = true).
Proof.
  intros O pa pb a b e ft ec Hwa Hwb Hna Hnb Hc H c.
  assert (Hs : spec_ok c = true).
  { apply spec_ok_sound; cbn [sc_a sc_b sc_edit c]; try assumption.
    - exact (script_valid a O pa pb b e Hwa Hwb H).
    - exact (script_additive a O pa pb b e H).
    - exact (script_priced a O pa pb b e Hwa Hwb H). }
  split; [exact Hs|]. intro Hf. unfold holds_C02 in Hf. cbn [sc_a sc_b sc_edit c] in Hf.
  unfold kf_cross_type_py_equal, kf_zero_size_in_leaf_list, zero_but_different. rewrite Hs.
  cbn [sc_a sc_b sc_edit c andb].
  destruct (Z.eqb_spec (cost e) 0) as [E0|E0]; destruct (data_eqb a b) eqn:Ed; try discriminate Hf.
  - cbn [negb andb]. destruct (node_eqb a b); [reflexivity|]. cbn [negb andb orb].
    destruct (script_zero_sim O pa pb a b e Hwa Hwb Hna Hnb H) as [_ Hz]. apply Hz. exact E0.
  - exfalso. apply E0. eapply equal_zero; eauto.
Qed.

(* the hypotheses are satisfiable by non-trivial documents: {"a": [1, "x"], "b": null} against a copy with the keys
   in the other order (cost 0, equal), and against {"a": [1, "y"], "b": null} (cost 2, different) *)
Definition ex_doc (order : bool) (c : Z) : tree :=
  let pa := Kvp true (mk_leaf KStr [97] 0) (Lst true true [mk_leaf KInt [49] 1; mk_leaf KStr [c] 0]) in
  let pb := Kvp true (mk_leaf KStr [98] 0) (mk_leaf KNull [78; 111; 110; 101] 0) in
  MSet true (if order then [pa; pb] else [pb; pa]).

Definition hyps_C02 (a b : tree) : bool :=
  wf a && wf b && numtext_ok a && numtext_ok b && consistent a b && typed a b && nozero a && nozero b.

Example zero_iff_example_equal : exists e,
  hyps_C02 (ex_doc true 120) (ex_doc false 120) = true /\
  script no_oracle [] [] (ex_doc true 120) (ex_doc false 120) = OK e /\ cost e = 0 /\
  data_eqb (ex_doc true 120) (ex_doc false 120) = true.
Proof. eexists. vm_compute. repeat split; reflexivity. Qed.

Example zero_iff_example_different : exists e,
  hyps_C02 (ex_doc true 120) (ex_doc false 121) = true /\
  script no_oracle [] [] (ex_doc true 120) (ex_doc false 121) = OK e /\ cost e = 2 /\
  data_eqb (ex_doc true 120) (ex_doc false 121) = false.
Proof. eexists. vm_compute. repeat split; reflexivity. Qed.
