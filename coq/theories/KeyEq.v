(* Python equality on leaves is an equivalence (given non-negative binary exponents); consequences for
   mappings whose keys are pairwise different leaves. *)
From Coq Require Import ZArith List Bool Lia.
Require Import GT.Data.
Import ListNotations.
Open Scope Z_scope.

Lemma str_eqb_eq : forall a b, str_eqb a b = true <-> a = b.
Proof.
  induction a as [|x a IH]; destruct b as [|y b]; cbn; split; intro H; try reflexivity; try discriminate.
  - apply andb_prop in H as [H1 H2]. apply Z.eqb_eq in H1. apply IH in H2. congruence.
  - inversion H; subst. rewrite Z.eqb_refl. apply IH. reflexivity.
Qed.

Lemma str_eqb_sym : forall a b, str_eqb a b = str_eqb b a.
Proof.
  intros a b. destruct (str_eqb a b) eqn:E.
  - apply str_eqb_eq in E. subst. symmetry. apply str_eqb_eq. reflexivity.
  - destruct (str_eqb b a) eqn:E'; [|reflexivity]. apply str_eqb_eq in E'. subst.
    assert (str_eqb a a = true) by (apply str_eqb_eq; reflexivity). congruence.
Qed.

Definition leaf_ok (l : leaf) : Prop := 0 <= lexp l.

Lemma num_eqb_sym : forall a b, num_eqb a b = num_eqb b a.
Proof. intros a b. unfold num_eqb. apply Z.eqb_sym. Qed.

Lemma num_eqb_trans : forall a b c, leaf_ok a -> leaf_ok b -> leaf_ok c ->
  num_eqb a b = true -> num_eqb b c = true -> num_eqb a c = true.
Proof.
  unfold num_eqb, leaf_ok. intros a b c Ha Hb Hc H1 H2. apply Z.eqb_eq in H1, H2. apply Z.eqb_eq.
  assert (Hpb : 0 < 2 ^ lexp b) by (apply Z.pow_pos_nonneg; lia).
  apply (Z.mul_reg_r _ _ (2 ^ lexp b)); [lia|].
  transitivity (lnum b * 2 ^ lexp a * 2 ^ lexp c); [rewrite <- H1; ring|].
  transitivity (lnum c * 2 ^ lexp b * 2 ^ lexp a); [rewrite <- H2; ring|ring].
Qed.

Lemma py_eqb_sym : forall a b, py_eqb a b = py_eqb b a.
Proof.
  intros a b. unfold py_eqb. destruct (lk a), (lk b); try reflexivity; try apply num_eqb_sym; apply str_eqb_sym.
Qed.

Lemma py_eqb_trans : forall a b c, leaf_ok a -> leaf_ok b -> leaf_ok c ->
  py_eqb a b = true -> py_eqb b c = true -> py_eqb a c = true.
Proof.
  intros a b c Ha Hb Hc. unfold py_eqb.
  destruct (lk a), (lk b), (lk c); intros H1 H2; try discriminate; try reflexivity;
    try exact (num_eqb_trans a b c Ha Hb Hc H1 H2).
  apply str_eqb_eq in H1, H2. apply str_eqb_eq. congruence.
Qed.

(* keys of well-formed mappings are leaves *)
Definition key_eqb (c d : tree) : bool := node_eqb (kvp_key c) (kvp_key d).

Definition kvp_ok (c : tree) : Prop :=
  exists ake l v, c = Kvp ake (Leaf l) v /\ leaf_ok l.

Lemma wf_kvp_ok : forall c, is_kvp c = true -> wf c = true -> kvp_ok c.
Proof.
  intros c Hk Hw. destruct c as [|? ? ?|ake k v|? ?|?]; try discriminate. cbn in Hw.
  apply andb_prop in Hw as [Hw _]. apply andb_prop in Hw as [Hw _]. apply andb_prop in Hw as [Hl Hwk].
  destruct k as [l|? ? ?|? ? ?|? ?|?]; try discriminate.
  exists ake, l, v. split; [reflexivity|]. unfold leaf_ok. cbn in Hwk. lia.
Qed.

Lemma key_eqb_sym : forall c d, kvp_ok c -> kvp_ok d -> key_eqb c d = key_eqb d c.
Proof.
  intros c d [a1 [l1 [v1 [-> _]]]] [a2 [l2 [v2 [-> _]]]]. unfold key_eqb. cbn. apply py_eqb_sym.
Qed.

Lemma key_eqb_trans : forall c d e, kvp_ok c -> kvp_ok d -> kvp_ok e ->
  key_eqb c d = true -> key_eqb d e = true -> key_eqb c e = true.
Proof.
  intros c d e [a1 [l1 [v1 [-> H1]]]] [a2 [l2 [v2 [-> H2]]]] [a3 [l3 [v3 [-> H3]]]]. unfold key_eqb. cbn.
  apply py_eqb_trans; assumption.
Qed.

Lemma node_eqb_key : forall c d, kvp_ok c -> kvp_ok d -> node_eqb c d = true -> key_eqb c d = true.
Proof.
  intros c d [a1 [l1 [v1 [-> H1]]]] [a2 [l2 [v2 [-> H2]]]] H. unfold key_eqb. cbn in *.
  apply andb_prop in H. tauto.
Qed.

(* pairwise different keys: two positions with equal keys coincide *)
Lemma keys_distinct_nth : forall cs i j c d,
  keys_distinct node_eqb cs = true -> Forall kvp_ok cs ->
  nth_error cs i = Some c -> nth_error cs j = Some d -> key_eqb c d = true -> i = j.
Proof.
  induction cs as [|x cs IH]; intros i j c d Hk Hok Hi Hj He; [destruct i; discriminate|].
  cbn in Hk. apply andb_prop in Hk as [Hx Hk]. apply negb_true_iff in Hx.
  inversion Hok as [|? ? Hokx Hokcs]; subst.
  assert (Hnone : forall k y, nth_error cs k = Some y -> key_eqb x y = false).
  { intros k y Hy. destruct (key_eqb x y) eqn:E; [|reflexivity].
    assert (existsb (fun d0 => node_eqb (kvp_key x) (kvp_key d0)) cs = true).
    { apply existsb_exists. exists y. split; [eapply nth_error_In; exact Hy|exact E]. }
    congruence. }
  destruct i as [|i], j as [|j]; cbn in Hi, Hj.
  - reflexivity.
  - inversion Hi; subst. rewrite (Hnone _ _ Hj) in He. discriminate.
  - inversion Hj; subst.
    assert (Hc : kvp_ok c) by (eapply Forall_forall; [exact Hokcs|eapply nth_error_In; exact Hi]).
    rewrite (key_eqb_sym c d Hc Hokx), (Hnone _ _ Hi) in He. discriminate.
  - f_equal. eapply IH; eauto.
Qed.
