(* C18 - Python objects are converted faithfully and cycles never hang.

   Data types of a case (object graph + build options + what every builder entry point of /repo did on it)
   and the executable statement of the property, `fails_C18 : c18_case -> list clause` (the clauses of
   the property the observed output violates; `holds_C18 c = true` iff there is none).
   Nothing here depends on the model of the code (BuilderModel.v) nor on anything translated from /repo.

   Object graphs are finite maps (association lists) from object ids to nodes; identity = id.  Strings
   are ASCII (the harness generates ASCII only); a float is its repr plus its integral value if it has
   one (needed for Python's 1 == 1.0 == True); NaN is outside the domain (it is not equal to itself). *)
From Coq Require Import String List Bool ZArith Lia.
Require Import GT.PyBase.
Import ListNotations.
Open Scope string_scope.
Open Scope list_scope.

(* ------------------------------------------------------------------ scalars *)

Inductive scalar :=
| SNone
| SBool (b : bool)
| SInt (z : Z)
| SFloat (repr : string) (integral : option Z)
| SStr (s : string)
| SBytes (s : string).

Definition oz_eqb (a b : option Z) : bool :=
  match a, b with Some x, Some y => Z.eqb x y | None, None => true | _, _ => false end.

(* typed equality: the very same Python value *)
Definition scalar_eqb (a b : scalar) : bool :=
  match a, b with
  | SNone, SNone => true
  | SBool x, SBool y => Bool.eqb x y
  | SInt x, SInt y => Z.eqb x y
  | SFloat r1 i1, SFloat r2 i2 => String.eqb r1 r2 && oz_eqb i1 i2
  | SStr x, SStr y => String.eqb x y
  | SBytes x, SBytes y => String.eqb x y
  | _, _ => false
  end.

Definition scalar_num (a : scalar) : option Z :=
  match a with
  | SBool b => Some (if b then 1 else 0)%Z
  | SInt z => Some z
  | SFloat _ (Some z) => Some z
  | _ => None
  end.

(* Python's == on scalars: bool, int and float compare by numeric value *)
Definition scalar_pyeq (a b : scalar) : bool :=
  match scalar_num a, scalar_num b with
  | Some x, Some y => Z.eqb x y
  | _, _ =>
    match a, b with
    | SNone, SNone => true
    | SFloat r1 None, SFloat r2 None => String.eqb r1 r2
    | SStr x, SStr y => String.eqb x y
    | SBytes x, SBytes y => String.eqb x y
    | _, _ => false
    end
  end.

(* ------------------------------------------------------------------ object graphs *)

Inductive pnode :=
| PScalar (s : scalar)
| PList (l : list Z)
| PTuple (l : list Z)
| PSet (l : list Z)                    (* set or frozenset, in iteration order *)
| PDict (kvs : list (Z * Z))           (* (key id, value id) in insertion order *)
| PObj (cls : string) (fields : list (string * Z)).   (* instance of a plain class; fields in dir() order *)

Definition graph := list (Z * pnode).

Fixpoint lookup (g : graph) (i : Z) : option pnode :=
  match g with [] => None | (j, n) :: r => if Z.eqb i j then Some n else lookup r i end.

(* the ids a node refers to *)
Definition succs (n : pnode) : list Z :=
  match n with
  | PScalar _ => []
  | PList l | PTuple l | PSet l => l
  | PDict kvs => map fst kvs ++ map snd kvs
  | PObj _ fs => map snd fs
  end.

Definition edge (g : graph) (i j : Z) : Prop := exists n, lookup g i = Some n /\ In j (succs n).

Inductive reach (g : graph) : Z -> Z -> Prop :=
| reach_refl : forall i, reach g i i
| reach_step : forall i j k, edge g i j -> reach g j k -> reach g i k.

(* a cycle can be reached from root *)
Definition reaches_cycle (g : graph) (root : Z) : Prop :=
  exists c d, reach g root c /\ edge g c d /\ reach g d c.

(* ------------------------------------------------------------------ plain Python values *)

Inductive pyval :=
| VScalar (s : scalar)
| VLeafNode (s : scalar)               (* a graphtage LeafNode left inside the value (PyObj.to_obj's key);
                                          == and hash are those of the wrapped scalar *)
| VIdHash (depth : nat) (i : Z)        (* IdentityHash^(depth+1)(object i): the payload of a placeholder *)
| VList (l : list pyval)
| VMSet (l : list pyval)               (* HashableCounter *)
| VDict (kvs : list (pyval * pyval)).

Fixpoint map_opt {A B} (f : A -> option B) (l : list A) : option (list B) :=
  match l with
  | [] => Some []
  | x :: r => match f x with
              | None => None
              | Some y => match map_opt f r with None => None | Some ys => Some (y :: ys) end
              end
  end.

(* The plain value of the object graph below i: tuples read back as lists, sets as multisets, an
   instance of a class as {class name: {attribute: value}} (what PyObj.to_obj documents).
   `None` = no finite unfolding within depth d (a cycle, or an id that is not in the graph). *)
Fixpoint unfold (d : nat) (g : graph) (i : Z) : option pyval :=
  match d with
  | O => None
  | S d' =>
    match lookup g i with
    | None => None
    | Some (PScalar s) => Some (VScalar s)
    | Some (PList l) | Some (PTuple l) => option_map VList (map_opt (unfold d' g) l)
    | Some (PSet l) => option_map VMSet (map_opt (unfold d' g) l)
    | Some (PDict kvs) =>
        option_map VDict
          (map_opt (fun kv => match unfold d' g (fst kv), unfold d' g (snd kv) with
                              | Some k, Some v => Some (k, v) | _, _ => None end) kvs)
    | Some (PObj cls fs) =>
        option_map (fun vs => VDict [(VScalar (SStr cls), VDict vs)])
          (map_opt (fun f => match unfold d' g (snd f) with
                             | Some v => Some (VScalar (SStr (fst f)), v) | None => None end) fs)
    end
  end.

(* the object graph below root is finite: it has a plain value *)
Definition acyclic (g : graph) (root : Z) : Prop := exists d v, unfold d g root = Some v.

(* ------------------------------------------------------------------ equality of plain values *)

Fixpoint remove_first {A} (p : A -> bool) (l : list A) : option (list A) :=
  match l with
  | [] => None
  | x :: r => if p x then Some r
              else match remove_first p r with Some r' => Some (x :: r') | None => None end
  end.

Definition is_nil {A} (l : list A) : bool := match l with [] => true | _ => false end.

(* equality of values, parametrised by the equality of scalars: lists in order, multisets and dicts up
   to permutation *)
Fixpoint val_eqb (seq : scalar -> scalar -> bool) (a b : pyval) {struct a} : bool :=
  match a, b with
  | VScalar s1, VScalar s2 => seq s1 s2
  | VLeafNode s1, VLeafNode s2 => seq s1 s2
  | VIdHash d1 i1, VIdHash d2 i2 => Nat.eqb d1 d2 && Z.eqb i1 i2
  | VList l1, VList l2 =>
      (fix go (l1 l2 : list pyval) {struct l1} : bool :=
         match l1, l2 with
         | [], [] => true
         | x :: xs, y :: ys => val_eqb seq x y && go xs ys
         | _, _ => false
         end) l1 l2
  | VMSet l1, VMSet l2 =>
      (fix go (l1 l2 : list pyval) {struct l1} : bool :=
         match l1 with
         | [] => is_nil l2
         | x :: xs => match remove_first (val_eqb seq x) l2 with
                      | Some r => go xs r
                      | None => false
                      end
         end) l1 l2
  | VDict k1, VDict k2 =>
      (fix go (l1 : list (pyval * pyval)) (l2 : list (pyval * pyval)) {struct l1} : bool :=
         match l1 with
         | [] => is_nil l2
         | (k, v) :: xs =>
             match remove_first (fun kv => val_eqb seq k (fst kv) && val_eqb seq v (snd kv)) l2 with
             | Some r => go xs r
             | None => false
             end
         end) k1 k2
  | _, _ => false
  end.

(* a LeafNode inside a value compares (and hashes) like the scalar it wraps *)
Fixpoint norm (v : pyval) : pyval :=
  match v with
  | VLeafNode s => VScalar s
  | VList l => VList (map norm l)
  | VMSet l => VMSet (map norm l)
  | VDict kvs => VDict (map (fun kv => (norm (fst kv), norm (snd kv))) kvs)
  | _ => v
  end.

(* the value read back equals the original: typed scalars, multisets/dicts up to order *)
Definition same_value (read original : pyval) : bool := val_eqb scalar_eqb (norm read) original.

(* ------------------------------------------------------------------ graphtage trees *)

Inductive leafkind := KNull | KBool | KInt | KFloat | KStr.

Definition leafkind_eqb (a b : leafkind) : bool :=
  match a, b with
  | KNull, KNull | KBool, KBool | KInt, KInt | KFloat, KFloat | KStr, KStr => true
  | _, _ => false
  end.

Inductive tree :=
| TLeaf (k : leafkind) (s : scalar)       (* NullNode / BoolNode / IntegerNode / FloatNode / StringNode *)
| TCyc (depth : nat) (i : Z)              (* CyclicReference whose .object is IdentityHash^(depth+1)(object i) *)
| TList (l : list tree)                   (* ListNode *)
| TMSet (l : list tree)                   (* MultiSetNode *)
| TDict (attrs : bool) (kvs : list (tree * tree))   (* DictNode of KeyValuePairNodes (PyObjAttributes of
                                                       KeywordArguments when attrs) *)
| TFDict (attrs : bool) (kvs : list (tree * tree))  (* FixedKeyDictNode (PyObjFixedAttributes) *)
| TObj (name : tree) (members : tree).    (* pydiff.PyObj(class_name, attrs) *)

(* structural equality of trees: ListNode and FixedKeyDictNode in order, MultiSetNode and DictNode
   (a multiset of pairs, stored sorted) up to permutation *)
Fixpoint tree_eqv (a b : tree) {struct a} : bool :=
  match a, b with
  | TLeaf k1 s1, TLeaf k2 s2 => leafkind_eqb k1 k2 && scalar_eqb s1 s2
  | TCyc d1 i1, TCyc d2 i2 => Nat.eqb d1 d2 && Z.eqb i1 i2
  | TList l1, TList l2 =>
      (fix go (l1 l2 : list tree) {struct l1} : bool :=
         match l1, l2 with
         | [], [] => true
         | x :: xs, y :: ys => tree_eqv x y && go xs ys
         | _, _ => false
         end) l1 l2
  | TMSet l1, TMSet l2 =>
      (fix go (l1 l2 : list tree) {struct l1} : bool :=
         match l1 with
         | [] => is_nil l2
         | x :: xs => match remove_first (tree_eqv x) l2 with
                      | Some r => go xs r
                      | None => false
                      end
         end) l1 l2
  | TDict a1 k1, TDict a2 k2 =>
      Bool.eqb a1 a2 &&
      (fix go (l1 : list (tree * tree)) (l2 : list (tree * tree)) {struct l1} : bool :=
         match l1 with
         | [] => is_nil l2
         | (k, v) :: xs =>
             match remove_first (fun kv => tree_eqv k (fst kv) && tree_eqv v (snd kv)) l2 with
             | Some r => go xs r
             | None => false
             end
         end) k1 k2
  | TFDict a1 k1, TFDict a2 k2 =>
      Bool.eqb a1 a2 &&
      (fix go (l1 : list (tree * tree)) (l2 : list (tree * tree)) {struct l1} : bool :=
         match l1, l2 with
         | [], [] => true
         | (k, v) :: xs, (k', v') :: ys => tree_eqv k k' && tree_eqv v v' && go xs ys
         | _, _ => false
         end) k1 k2
  | TObj n1 m1, TObj n2 m2 => tree_eqv n1 n2 && tree_eqv m1 m2
  | _, _ => false
  end.

(* does the tree contain a placeholder for a cyclic reference? *)
Fixpoint has_placeholder (t : tree) : bool :=
  match t with
  | TLeaf _ _ => false
  | TCyc _ _ => true
  | TList l | TMSet l => existsb has_placeholder l
  | TDict _ kvs | TFDict _ kvs => existsb (fun kv => has_placeholder (fst kv) || has_placeholder (snd kv)) kvs
  | TObj n m => has_placeholder n || has_placeholder m
  end.

(* ------------------------------------------------------------------ options, entry points, observations *)

Record opts := { allow_key_edits : bool; auto_match_keys : bool; check_cycles : bool; ignore_cycles : bool }.

Inductive entry := EJson | EBasic | EPyObj.   (* json.build_tree, BasicBuilder().build_tree, pydiff.build_tree *)

Definition entry_eqb (a b : entry) : bool :=
  match a, b with EJson, EJson | EBasic, EBasic | EPyObj, EPyObj => true | _, _ => false end.

(* the result of to_obj() / copy(): a value, or the class of the exception *)
Inductive res (A : Type) := ROk (a : A) | RErr (cls : string).
Arguments ROk {A} a.
Arguments RErr {A} cls.

Inductive observed :=
| OBuilt (t : tree) (to_obj : res pyval) (copy : res tree) (copy_eq : bool)
    (* the tree, t.to_obj(), t.copy(), and Python's `t.copy() == t` *)
| ORaised (cls : string) (cycle_msg : bool)   (* exception class; message starts with "Detected a cycle" *)
| OTimeout.

Record c18_case := {
  c_opts : opts;
  c_graph : graph;
  c_root : Z;
  c_outs : list (entry * observed)
}.

(* ------------------------------------------------------------------ the domain of each entry point *)

Definition node_of (g : graph) (i : Z) : pnode :=
  match lookup g i with Some n => n | None => PScalar SNone end.

Definition is_scalar_node (n : pnode) : bool := match n with PScalar _ => true | _ => false end.
Definition is_set_node (n : pnode) : bool := match n with PSet _ => true | _ => false end.
Definition is_obj_node (n : pnode) : bool := match n with PObj _ _ => true | _ => false end.
Definition is_bytes_node (n : pnode) : bool := match n with PScalar (SBytes _) => true | _ => false end.
Definition is_none_node (n : pnode) : bool := match n with PScalar SNone => true | _ => false end.

(* every id mentioned is in the graph *)
Definition closed (g : graph) : bool :=
  forallb (fun e => forallb (fun j => is_some (lookup g j)) (succs (snd e))) g.

(* keys of dictionaries and elements of sets are hashable in Python; graphtage can give them back only if
   they are scalars, or (for set elements) sets again - D18, D28 *)
Definition hashable_positions (g : graph) : bool :=
  forallb (fun e => match snd e with
                    | PDict kvs => forallb (fun kv => is_scalar_node (node_of g (fst kv))) kvs
                    | PSet l => forallb (fun j => is_scalar_node (node_of g j) || is_set_node (node_of g j)) l
                    | _ => true
                    end) g.

Fixpoint pairwise {A} (r : A -> A -> bool) (l : list A) : bool :=
  match l with [] => true | x :: xs => forallb (r x) xs && pairwise r xs end.

Definition scalar_of (g : graph) (i : Z) : scalar :=
  match node_of g i with PScalar s => s | _ => SNone end.

(* invariants of Python itself: the keys of one dict are pairwise unequal, attribute names are distinct *)
Definition python_wf (g : graph) : bool :=
  forallb (fun e => match snd e with
                    | PDict kvs =>
                        pairwise (fun a b => negb (is_scalar_node (node_of g a) && is_scalar_node (node_of g b)
                                                   && scalar_pyeq (scalar_of g a) (scalar_of g b)))
                                 (map fst kvs)
                    | PObj _ fs => pairwise (fun a b => negb (String.eqb a b)) (map fst fs)
                    | _ => true
                    end) g.

(* ---- the same two predicates, extended to the hashable containers graphtage CAN give back: (frozen)sets.
   A set as dictionary key is built as a MultiSetNode, whose to_obj() is a hashable HashableCounter.  The
   boundary is then exactly the two open findings: a tuple or an instance in a hashable position (D18), and,
   under the strategies that sort the pairs (allow_key_edits), a key that is not a leaf anywhere but in the
   first pair (D28). *)
Definition key_positions (o : opts) (g : graph) : bool :=
  forallb (fun e => match snd e with
                    | PDict kvs =>
                        forallb (fun kv => is_scalar_node (node_of g (fst kv)) || is_set_node (node_of g (fst kv))) kvs
                        && (negb (allow_key_edits o)
                            || forallb (fun kv => is_scalar_node (node_of g (fst kv))) (tl kvs))
                    | PSet l => forallb (fun j => is_scalar_node (node_of g j) || is_set_node (node_of g j)) l
                    | _ => true
                    end) g.

(* Python's == between the objects a and b of the graph (false when one of them has no finite unfolding) *)
Definition key_pyeq (g : graph) (a b : Z) : bool :=
  match unfold (S (length g)) g a, unfold (S (length g)) g b with
  | Some va, Some vb => val_eqb scalar_pyeq va vb
  | _, _ => false
  end.

(* invariants of Python itself, for keys of any hashable type: the keys of one dict are pairwise unequal
   (frozenset({1}) == frozenset({True})), attribute names are distinct *)
Definition python_wf_keys (g : graph) : bool :=
  forallb (fun e => match snd e with
                    | PDict kvs => pairwise (fun a b => negb (key_pyeq g a b)) (map fst kvs)
                    | PObj _ fs => pairwise (fun a b => negb (String.eqb a b)) (map fst fs)
                    | _ => true
                    end) g.

(* lists and dicts are not hashable in Python: never a dictionary key or a set element *)
Definition is_unhashable_node (n : pnode) : bool := match n with PList _ | PDict _ => true | _ => false end.

Definition python_hashable (g : graph) : bool :=
  forallb (fun e => match snd e with
                    | PDict kvs => forallb (fun kv => negb (is_unhashable_node (node_of g (fst kv)))) kvs
                    | PSet l => forallb (fun j => negb (is_unhashable_node (node_of g j))) l
                    | _ => true
                    end) g.

Definition has_objects (g : graph) : bool := existsb (fun e => is_obj_node (snd e)) g.
Definition has_bytes (g : graph) : bool := existsb (fun e => is_bytes_node (snd e)) g.

(* json.build_tree is documented for int/float/bool/str/bytes/list/dict (None and tuples are accepted too);
   dictionary keys must be int/float/bool/str/bytes *)
Definition json_supported (g : graph) : bool :=
  forallb (fun e => match snd e with
                    | PSet _ | PObj _ _ => false
                    | PDict kvs => forallb (fun kv => is_scalar_node (node_of g (fst kv))
                                                      && negb (is_none_node (node_of g (fst kv)))) kvs
                    | _ => true
                    end) g.

(* is the entry point defined on (every object of) the graph? *)
Definition defined_on (ep : entry) (g : graph) : bool :=
  match ep with
  | EJson => json_supported g
  | EBasic => negb (has_objects g)
  | EPyObj => true
  end.

(* ------------------------------------------------------------------ the executable statement *)

Inductive ckind :=
| ClTimeout          (* an entry point did not return within the wall-clock guard *)
| ClBuilt            (* acyclic input on which the entry point is defined: a tree is returned *)
| ClNoPlaceholder    (* ... without a placeholder (sharing is not a cycle) *)
| ClValue            (* ... whose to_obj() equals the original *)
| ClCopy             (* copy() returns a tree that is structurally the same *)
| ClCopyEq           (* ... and Python-equal to the original *)
| ClSameTree         (* every entry point defined on the input builds the same tree *)
| ClCycleError       (* cyclic input, cycles checked and not ignored: ValueError "Detected a cycle" *)
| ClCyclePlaceholder (* cyclic input, cycles ignored: a tree with a placeholder *)
| ClUndefined.       (* input outside the entry point's domain: an exception, never a hang or a tree *)

Definition ckind_eqb (a b : ckind) : bool :=
  match a, b with
  | ClTimeout, ClTimeout | ClBuilt, ClBuilt | ClNoPlaceholder, ClNoPlaceholder | ClValue, ClValue
  | ClCopy, ClCopy | ClCopyEq, ClCopyEq | ClSameTree, ClSameTree | ClCycleError, ClCycleError
  | ClCyclePlaceholder, ClCyclePlaceholder | ClUndefined, ClUndefined => true
  | _, _ => false
  end.

Definition when (b : bool) (c : ckind) : list ckind := if b then [] else [c].

(* a violated clause: the entry point (None: across entry points) and what failed *)
Definition clause := (option entry * ckind)%type.

Definition copy_clauses (t : tree) (cp : res tree) (ceq : bool) : list ckind :=
  match cp with
  | ROk t' => when (tree_eqv t' t) ClCopy ++ when ceq ClCopyEq
  | RErr _ => [ClCopy]
  end.

(* depth sufficient to unfold any acyclic graph: a path without repetition visits at most |g| ids *)
Definition unfold_depth (g : graph) : nat := S (length g).

(* the clauses violated by what one entry point did *)
Definition fails_entry (o : opts) (g : graph) (root : Z) (ep : entry) (out : observed) : list ckind :=
  match out with
  | OTimeout => [ClTimeout]
  | _ =>
    if negb (defined_on ep g) then
      match out with ORaised _ _ => [] | _ => [ClUndefined] end
    else
      match unfold (unfold_depth g) g root with
      | Some v =>
          match out with
          | OBuilt t tv cp ceq =>
              when (negb (has_placeholder t)) ClNoPlaceholder
              ++ match tv with ROk v' => when (same_value v' v) ClValue | RErr _ => [ClValue] end
              ++ copy_clauses t cp ceq
          | _ => [ClBuilt]
          end
      | None =>
          (* cyclic (the graph is closed) *)
          match ep with
          | EJson => match out with ORaised _ cyc => when cyc ClCycleError | _ => [ClCycleError] end
          | _ =>
            if negb (check_cycles o) then []       (* documented divergence; not generated *)
            else if ignore_cycles o then
              match out with
              | OBuilt t _ cp ceq => when (has_placeholder t) ClCyclePlaceholder ++ copy_clauses t cp ceq
              | _ => [ClCyclePlaceholder]
              end
            else
              match out with
              | ORaised cls cyc => when (String.eqb cls "ValueError" && cyc) ClCycleError
              | _ => [ClCycleError]
              end
          end
      end
  end.

Definition built_tree (out : observed) : option tree :=
  match out with OBuilt t _ _ _ => Some t | _ => None end.

(* all entry points that are defined on the input and returned a tree returned the same tree *)
Fixpoint same_trees (g : graph) (outs : list (entry * observed)) : bool :=
  match outs with
  | [] => true
  | (ep, out) :: r =>
      (if defined_on ep g then
         match built_tree out with
         | Some t => forallb (fun eo => if defined_on (fst eo) g then
                                          match built_tree (snd eo) with
                                          | Some t' => tree_eqv t t' | None => true end
                                        else true) r
         | None => true
         end
       else true) && same_trees g r
  end.

Definition fails_C18 (c : c18_case) : list clause :=
  flat_map (fun eo => map (pair (Some (fst eo)))
                          (fails_entry (c_opts c) (c_graph c) (c_root c) (fst eo) (snd eo))) (c_outs c)
  ++ map (pair None) (when (same_trees (c_graph c) (c_outs c)) ClSameTree).

Definition holds_C18 (c : c18_case) : bool := is_nil (fails_C18 c).

(* ------------------------------------------------------------------ classes of the known findings *)

Definition is_hashable_container (n : pnode) : bool :=
  match n with PTuple _ | PObj _ _ => true | _ => false end.

(* D18: a tuple (or an instance of a class) as dictionary key or set element is built as a ListNode
   (PyObj), whose to_obj() is unhashable *)
Definition kf_unhashable_key (c : c18_case) : bool :=
  existsb (fun e => match snd e with
                    | PDict kvs => existsb (fun kv => is_hashable_container (node_of (c_graph c) (fst kv))) kvs
                    | PSet l => existsb (fun j => is_hashable_container (node_of (c_graph c) j)) l
                    | _ => false
                    end) (c_graph c).

(* D28: DictNode.from_dict sorts its pairs; a key that is not a leaf has no __lt__ *)
Definition kf_container_key_sort (c : c18_case) : bool :=
  allow_key_edits (c_opts c) &&
  existsb (fun e => match snd e with
                    | PDict kvs => existsb (fun kv => negb (is_scalar_node (node_of (c_graph c) (fst kv)))) (tl kvs)
                    | _ => false
                    end) (c_graph c).

Definition is_cyclic (c : c18_case) : bool :=
  closed (c_graph c) && negb (is_some (unfold (unfold_depth (c_graph c)) (c_graph c) (c_root c))).

(* D31: json.build_tree decodes bytes to str *)
Definition kf_json_bytes (c : c18_case) : bool := has_bytes (c_graph c).

(* D32: json.build_tree has no cycle check: RecursionError *)
Definition kf_json_cycle (c : c18_case) : bool := is_cyclic c.

Inductive kf_class := KfUnhashableKey | KfContainerKeySort | KfJsonBytes | KfJsonCycle.

(* which clauses a finding explains, on which cases *)
Definition on_entry (cl : clause) (p : entry -> bool) : bool :=
  match fst cl with Some ep => p ep | None => false end.
Definition is_kind (cl : clause) (k : ckind) : bool := ckind_eqb (snd cl) k.
Definition not_json (ep : entry) : bool := negb (entry_eqb ep EJson).

Definition kf_explains (k : kf_class) (c : c18_case) (cl : clause) : bool :=
  match k with
  | KfUnhashableKey => kf_unhashable_key c && on_entry cl not_json && is_kind cl ClValue
  | KfContainerKeySort => kf_container_key_sort c && on_entry cl not_json
                          && (is_kind cl ClBuilt || is_kind cl ClCyclePlaceholder || is_kind cl ClCycleError)
  | KfJsonBytes => kf_json_bytes c && ((on_entry cl (entry_eqb EJson) && is_kind cl ClValue)
                                       || is_kind cl ClSameTree)
  | KfJsonCycle => kf_json_cycle c && on_entry cl (entry_eqb EJson) && is_kind cl ClCycleError
  end.

(* the violated clauses that no open finding explains *)
Definition unexplained (open : list kf_class) (c : c18_case) : list clause :=
  filter (fun cl => negb (existsb (fun k => kf_explains k c cl) open)) (fails_C18 c).

Definition explained_by (k : kf_class) (c : c18_case) : bool :=
  existsb (kf_explains k c) (fails_C18 c).
