(* C03 for the big-step script model: every compound's own cost is the sum of its sub-edits' own costs at
   every nesting level, and the flat list of non-zero leaf edits sums to the same total. *)
From Coq Require Import ZArith List Bool Lia Permutation.
Require Import GT.PyBase GT.Data GT.ScriptSpec GT.EdEngine GT.LevModel GT.EdTypes GTgen.EdGen GT.EdParams
               GT.ScriptModel GT.ListAux GT.EdFacts GT.EdEngineProofs GT.ScriptProofs GT.MSetProofs.
Import ListNotations.
Open Scope Z_scope.

(* ---------------------------------------------------------------- reading `additive` *)
Definition sub_add (s : sub) : Prop := match s with SPair _ _ e => additive e = true | _ => True end.

Lemma additive_all_spec : forall subs, Forall sub_add subs ->
  (fix all (ss : list sub) : bool :=
     match ss with
     | [] => true
     | SPair _ _ e' :: ss' => additive e' && all ss'
     | _ :: ss' => all ss'
     end) subs = true.
Proof.
  intros subs H. induction H as [|s ss Hs _ IH]; [reflexivity|].
  destruct s as [i j e|i c|j c]; try exact IH. cbn in Hs. rewrite Hs. exact IH.
Qed.

Lemma additive_comp : forall k c subs, c = zsum (map sub_cost subs) -> Forall sub_add subs -> additive (EComp k c subs) = true.
Proof. intros k c subs -> H. cbn. rewrite Z.eqb_refl. apply additive_all_spec. exact H. Qed.

(* ---------------------------------------------------------------- the flat view *)
Lemma zsum_nz : forall c, zsum (nz c) = c.
Proof. intro c. unfold nz. destruct (Z.eqb_spec c 0); cbn; lia. Qed.

Lemma additive_all_inv : forall subs,
  (fix all (ss : list sub) : bool :=
     match ss with
     | [] => true
     | SPair _ _ e' :: ss' => additive e' && all ss'
     | _ :: ss' => all ss'
     end) subs = true -> Forall sub_add subs.
Proof.
  induction subs as [|s ss IH]; intro H; [constructor|].
  destruct s as [i j e|i c|j c]; [apply andb_prop in H as [H1 H2]|..]; constructor; cbn; auto.
Qed.

Section EditInd.
  Variable P : edit -> Prop.
  Hypothesis Hm : forall c, P (EMatch c).
  Hypothesis Hr : forall c, P (EReplace c).
  Hypothesis Hs : forall c ops, P (EStr c ops).
  Hypothesis Hc : forall k c subs, Forall (fun s => match s with SPair _ _ e => P e | _ => True end) subs -> P (EComp k c subs).
  Fixpoint edit_rect' (e : edit) : P e :=
    match e with
    | EMatch c => Hm c
    | EReplace c => Hr c
    | EStr c ops => Hs c ops
    | EComp k c subs =>
        Hc k c subs ((fix go (ss : list sub) : Forall (fun s => match s with SPair _ _ e => P e | _ => True end) ss :=
                        match ss with
                        | [] => Forall_nil _
                        | SPair i j e' :: ss' => Forall_cons (SPair i j e') (edit_rect' e') (go ss')
                        | SRem i c' :: ss' => Forall_cons (SRem i c') I (go ss')
                        | SIns j c' :: ss' => Forall_cons (SIns j c') I (go ss')
                        end) subs)
    end.
End EditInd.

Theorem flat_view_total : forall e, additive e = true -> zsum (flat_costs e) = cost e.
Proof.
  apply (edit_rect' (fun e => additive e = true -> zsum (flat_costs e) = cost e)).
  - intros c _. apply zsum_nz.
  - intros c _. apply zsum_nz.
  - intros c ops _. apply zsum_nz.
  - intros k c subs IH H. cbn in H. apply andb_prop in H as [Hc Hall]. apply Z.eqb_eq in Hc. subst c.
    apply additive_all_inv in Hall. cbn [flat_costs cost].
    induction subs as [|s ss IHs]; [reflexivity|].
    inversion IH as [|? ? IHhd IHtl]; subst. inversion Hall as [|? ? Hhd Htl]; subst.
    destruct s as [i j e|i c|j c]; cbn [map sub_cost zsum fold_right].
    + rewrite zsum_app. cbn in Hhd. rewrite (IHhd Hhd). f_equal. apply IHs; assumption.
    + rewrite zsum_app, zsum_nz. f_equal. apply IHs; assumption.
    + rewrite zsum_app, zsum_nz. f_equal. apply IHs; assumption.
Qed.

(* ---------------------------------------------------------------- the list edit's cost table *)
Lemma ed_costs_nth : forall M p nc nr mcs r c,
  ed_costs (ed_cells M p nc nr) = Some mcs -> (r < nr)%nat -> (c < nc)%nat ->
  exists res, mget M (p + c) (p + r) = Some res /\ res_cost res = Some (nth c (nth r mcs []) 0).
Proof.
  intros M p nc nr mcs r c H Hr Hc. unfold ed_costs in H. apply all_some_map in H.
  assert (Hrow : nth_error (ed_cells M p nc nr) r = Some (map (fun c => mget M (p + c) (p + r)) (seq 0 nc))).
  { unfold ed_cells. rewrite nth_error_map, nth_error_seq by lia. reflexivity. }
  destruct (Forall2_nth_error _ _ _ _ _ H Hrow) as [y [Hy Hall]].
  apply all_some_map in Hall.
  assert (Hcell : nth_error (map (fun c => mget M (p + c) (p + r)) (seq 0 nc)) c = Some (mget M (p + c) (p + r))).
  { rewrite nth_error_map, nth_error_seq by lia. reflexivity. }
  destruct (Forall2_nth_error _ _ _ _ _ Hall Hcell) as [z [Hz Hh]].
  rewrite (nth_error_nth _ _ [] Hy), (nth_error_nth _ _ 0 Hz).
  destruct (mget M (p + c) (p + r)) as [res|]; [|discriminate]. exists res. auto.
Qed.

Lemma nth_map_default : forall {A B} (f : A -> B) l n dA dB, (n < length l)%nat -> nth n (map f l) dB = f (nth n l dA).
Proof. intros. apply nth_map_lt. assumption. Qed.

Definition Padd (a : tree) : Prop := forall O pa pb b e, script O pa pb a b = OK e -> additive e = true.

Lemma edit_dist_additive : forall O pa pb penalty cs ds e,
  Forall Padd cs -> edit_dist_script penalty cs ds (sub_matrix O pa pb cs ds) = OK e -> additive e = true.
Proof.
  intros O pa pb penalty cs ds e IH H.
  destruct (trim node_eqb cs ds) as [p q] eqn:Et.
  rewrite (edit_dist_script_unfold _ _ _ _ _ _ Et) in H. cbv zeta in H.
  pose proof (trim_bounds _ _ _ _ _ Et) as [Hp1 [Hp2 [Hpq1 Hpq2]]].
  set (cs' := middle p q cs) in *. set (ds' := middle p q ds) in *.
  set (rc := map (fun c => remove_cost c penalty) cs') in *. set (ic := map (fun d => insert_cost d penalty) ds') in *.
  set (M := sub_matrix O pa pb cs ds) in *.
  destruct (ed_costs _) as [mcs|] eqn:Ec; [|discriminate]. inversion H; subst e; clear H.
  assert (Hlrc : length rc = length cs') by (unfold rc; apply map_length).
  assert (Hlic : length ic = length ds') by (unfold ic; apply map_length).
  assert (Hd : dims_ok rc ic mcs) by (eapply ed_costs_dims; eauto).
  pose proof (alignment_in_range _ _ _ Hd) as Hrange. rewrite Forall_forall in Hrange.
  apply additive_comp.
  - rewrite !map_app, !zsum_app, !map_map. cbn [sub_cost cost].
    rewrite (zsum_map_const0 (fun _ : nat => 0)) by reflexivity.
    rewrite (zsum_map_const0 (fun _ : nat => 0) (seq 0 q)) by reflexivity.
    rewrite (alignment_cost _ _ _ Hd). rewrite Z.add_0_l, Z.add_0_r. f_equal.
    apply map_ext_in. intros o Ho. specialize (Hrange o Ho).
    destruct o as [c r|c|r]; cbn [op_cost ed_sub sub_cost]; try reflexivity.
    cbn in Hrange. destruct Hrange as [Hc Hr].
    destruct (ed_costs_nth M p (length cs') (length ds') mcs r c Ec) as [res [Hm Hcost]]; [lia|lia|].
    rewrite Hm. destruct res as [e|x]; cbn in Hcost; [|discriminate]. inversion Hcost. reflexivity.
  - rewrite !Forall_app. repeat split.
    + apply Forall_forall. intros s Hs. apply in_map_iff in Hs. destruct Hs as [i [<- _]]. reflexivity.
    + apply Forall_forall. intros s Hs. apply in_map_iff in Hs. destruct Hs as [o [<- Ho]].
      destruct o as [c r|c|r]; cbn [ed_sub]; try exact I.
      destruct (mget M (p + c) (p + r)) as [[e|]|] eqn:Em; cbn; try reflexivity.
      apply mget_sub_matrix in Em. destruct Em as [c0 [d0 [Hc0 [Hd0 He]]]].
      pose proof (Forall_nth_error _ _ _ _ IH Hc0) as Hpa. eapply Hpa. symmetry. exact He.
    + apply Forall_forall. intros s Hs. apply in_map_iff in Hs. destruct Hs as [i [<- _]]. reflexivity.
Qed.

Lemma fixed_len_additive : forall O pa pb cs ds subs,
  Forall Padd cs -> fixed_len_subs cs ds (sub_matrix O pa pb cs ds) = Some subs -> Forall sub_add subs.
Proof.
  intros O pa pb cs ds subs IH H. unfold fixed_len_subs in H.
  destruct (all_some _) as [ps|] eqn:Eps; [|discriminate]. inversion H; subst subs; clear H.
  apply all_some_map in Eps. rewrite !Forall_app. repeat split.
  - induction Eps as [|i y l r Hy _ IHf]; constructor; [|exact IHf].
    destruct (mget _ i i) as [[e|]|] eqn:Em; inversion Hy; subst y. cbn.
    apply mget_sub_matrix in Em. destruct Em as [c [d [Hc [Hd He]]]].
    pose proof (Forall_nth_error _ _ _ _ IH Hc) as Hpa. eapply Hpa. symmetry. exact He.
  - destruct (_ <? _)%nat; [|constructor]. apply Forall_forall. intros s Hs. apply in_map_iff in Hs.
    destruct Hs as [i [<- _]]. exact I.
  - destruct (_ <? _)%nat; [|constructor]. apply Forall_forall. intros s Hs. apply in_map_iff in Hs.
    destruct Hs as [i [<- _]]. exact I.
Qed.

Lemma leftover_actual : forall all_r all_i left_r left_i,
  multiset_leftover_cost all_r all_i left_r left_i = zsum left_r + zsum left_i.
Proof. intros. reflexivity. Qed.

Lemma multiset_additive : forall O pa pb amk cs ds e,
  Forall Padd cs -> multiset_script O pa pb amk cs ds (sub_matrix O pa pb cs ds) = OK e -> additive e = true.
Proof.
  intros O pa pb amk cs ds e IH H. set (M := sub_matrix O pa pb cs ds) in *.
  rewrite multiset_script_unfold in H.
  destruct (ms_matching O pa pb amk cs ds) as [mt|] eqn:Emt; [|destruct (lookup pa pb (o_match O)); discriminate].
  destruct (all_some (map (ms_get M) (ms_pre amk cs ds))) as [pre_subs|] eqn:Epre; [|discriminate].
  destruct (all_some (map (ms_get M) mt)) as [mt_subs|] eqn:Emts; [|discriminate].
  cbv zeta in H. inversion H; subst e; clear H.
  apply all_some_map in Epre, Emts.
  assert (Hsub : forall l subs, Forall2 (fun x y => ms_get M x = Some y) l subs -> Forall sub_add subs).
  { intros l subs HF. induction HF as [|ij s l r Hs _ IHF]; constructor; [|exact IHF].
    apply ms_get_sub in Hs. destruct Hs as [e [-> Hm]]. cbn.
    apply mget_sub_matrix in Hm. destruct Hm as [c [d [Hc [Hd He]]]].
    pose proof (Forall_nth_error _ _ _ _ IH Hc) as Hpa. eapply Hpa. symmetry. exact He. }
  apply additive_comp.
  - rewrite leftover_actual. rewrite !map_app, !zsum_app, !map_map. cbn [sub_cost cost].
    rewrite (zsum_map_const0 (fun _ : nat * nat => 0)) by reflexivity. lia.
  - rewrite !Forall_app. repeat split.
    + apply Forall_forall. intros s Hs. apply in_map_iff in Hs. destruct Hs as [i [<- _]]. reflexivity.
    + eapply Hsub; exact Epre.
    + eapply Hsub; exact Emts.
    + apply Forall_forall. intros s Hs. apply in_map_iff in Hs. destruct Hs as [i [<- _]]. exact I.
    + apply Forall_forall. intros s Hs. apply in_map_iff in Hs. destruct Hs as [i [<- _]]. exact I.
Qed.

Lemma fixed_dict_additive : forall O pa pb a b cs ds e,
  Forall Padd cs -> fixed_dict_script O pa pb a b cs ds (sub_matrix O pa pb cs ds) = OK e -> additive e = true.
Proof.
  intros O pa pb a b cs ds e IH H. set (M := sub_matrix O pa pb cs ds) in *.
  rewrite fixed_dict_script_unfold in H.
  destruct (fd_order O pa pb cs ds) as [ord|] eqn:Eo; [|destruct (lookup pa pb (o_order O)); discriminate].
  destruct (all_some (map (fd_get cs ds M) (fd_shared cs ds))) as [sh|] eqn:Esh; [|discriminate].
  cbv zeta in H. destruct (_ <=? _); [|discriminate]. inversion H; subst e; clear H.
  apply all_some_map in Esh. apply additive_comp; [reflexivity|]. rewrite !Forall_app. repeat split.
  - induction Esh as [|ij s l r Hs _ IHF]; constructor; [|exact IHF].
    apply fd_get_sub in Hs. destruct Hs as [e [-> [->|Hm]]]; cbn; [reflexivity|].
    apply mget_sub_matrix in Hm. destruct Hm as [c [d [Hc [Hd He]]]].
    pose proof (Forall_nth_error _ _ _ _ IH Hc) as Hpa. eapply Hpa. symmetry. exact He.
  - apply Forall_forall. intros s Hs. apply in_map_iff in Hs. destruct Hs as [i [<- _]]. exact I.
  - apply Forall_forall. intros s Hs. apply in_map_iff in Hs. destruct Hs as [i [<- _]]. exact I.
Qed.

Lemma leaf_script_additive : forall x a b e, leaf_script x a b = OK e -> additive e = true.
Proof.
  intros x a b e H. unfold leaf_script in H.
  destruct (lk x); destruct b as [y| | | |]; try (inversion H; subst; reflexivity);
    try (destruct (lk y); inversion H; subst; reflexivity).
  destruct (lk y); try (inversion H; subst; reflexivity).
  destruct (str_eqb (ltext x) (ltext y)); [inversion H; subst; reflexivity|].
  destruct (Nat.eqb (length (ltext x)) 1 && Nat.eqb (length (ltext y)) 1); [inversion H; subst; reflexivity|].
  destruct (str_script (ltext x) (ltext y)) as [c ops] eqn:E. inversion H; subst. cbn.
  pose proof (str_script_cost (ltext x) (ltext y)) as Hc. rewrite E in Hc. cbn in Hc. rewrite Hc. apply Z.eqb_refl.
Qed.

Theorem script_additive : forall a, Padd a.
Proof.
  apply tree_rect'.
  - intros x O pa pb b e H. cbn in H. eapply leaf_script_additive; eauto.
  - intros ale alsl cs IH O pa pb b e H. cbn [script] in H.
    fold (sub_matrix O pa pb cs (match b with Lst _ _ ds => ds | _ => [] end)) in H.
    destruct (list_dispatch_gen _ _ _ _ _ _ _ _) as [| |penalty|]; try (inversion H; subst; reflexivity).
    + destruct (fixed_len_subs cs _ _) as [subs|] eqn:Ef; [|discriminate]. inversion H; subst e.
      apply additive_comp; [reflexivity|]. eapply fixed_len_additive; eauto.
    + eapply edit_dist_additive; eauto.
  - intros ake k v IHk IHv O pa pb b e H. cbn [script] in H.
    destruct b as [y|? ? ?|ake' k' v'|? ?|?]; try discriminate.
    destruct (ake || node_eqb k k'); [|inversion H; subst; reflexivity].
    assert (Hke : forall e1, (if node_eqb k k' then OK (EMatch 0) else script O (pa ++ [0%nat]) (pb ++ [0%nat]) k k') = OK e1 ->
                  additive e1 = true).
    { intros e1 He. destruct (node_eqb k k'); [inversion He; reflexivity|]. eapply IHk; eauto. }
    assert (Hve : forall e2, (if node_eqb v v' then OK (EMatch 0) else script O (pa ++ [1%nat]) (pb ++ [1%nat]) v v') = OK e2 ->
                  additive e2 = true).
    { intros e2 He. destruct (node_eqb v v'); [inversion He; reflexivity|]. eapply IHv; eauto. }
    destruct (if node_eqb k k' then _ else _) as [e1|x1]; [|destruct (if node_eqb v v' then _ else _); discriminate].
    destruct (if node_eqb v v' then _ else _) as [e2|x2]; [|discriminate].
    inversion H; subst e. apply additive_comp; [cbn; lia|].
    repeat constructor; cbn; [apply Hke|apply Hve]; reflexivity.
  - intros amk cs IH O pa pb b e H. cbn [script] in H.
    destruct b as [y|? ? ?|? ? ?|amk' ds|?]; try (inversion H; subst; reflexivity).
    destruct ((match cs, ds with [], [] => true | _, _ => false end) || node_eqb (MSet amk cs) (MSet amk' ds));
      [inversion H; subst; reflexivity|].
    eapply multiset_additive; eauto.
  - intros cs IH O pa pb b e H. cbn [script] in H.
    destruct b as [y|? ? ?|? ? ?|? ?|ds]; try (inversion H; subst; reflexivity); try discriminate.
    destruct ((match cs, ds with [], [] => true | _, _ => false end) || _); [inversion H; subst; reflexivity|].
    eapply fixed_dict_additive; eauto.
Qed.
