(* C12: proofs about the JSON model.  Main results:
   - string codec:  punits (escape_string s ++ quote :: rest) decodes exactly the units the printer wrote, and
     combining / not combining surrogate pairs gives s back on the JSON / JSON5 string domains;
   - pval_jp: the reader inverts the printer on every well-formed value, any layout, any indentation;
   - C12_json, C12_json5, C12_json5_refuted. *)
From Coq Require Import List Bool ZArith Lia.
Require Import GT.PyBase GT.JsonSpec GT.JsonModel.
Import ListNotations.
Open Scope Z_scope.

(* ================================================================== hexadecimal *)

Lemma unhex_hexd : forall d, 0 <= d < 16 -> unhex (hexd d) = Some d.
Proof.
  intros d H. unfold hexd, unhex.
  destruct (d <? 10) eqn:E.
  - apply Z.ltb_lt in E.
    replace ((48 <=? 48 + d) && (48 + d <=? 57)) with true
      by (symmetry; apply andb_true_iff; split; apply Z.leb_le; lia).
    f_equal; lia.
  - apply Z.ltb_ge in E.
    replace ((48 <=? 87 + d) && (87 + d <=? 57)) with false
      by (symmetry; apply andb_false_iff; right; apply Z.leb_gt; lia).
    replace ((97 <=? 87 + d) && (87 + d <=? 102)) with true
      by (symmetry; apply andb_true_iff; split; apply Z.leb_le; lia).
    f_equal; lia.
Qed.

Lemma hex4_u4 : forall c, 0 <= c < 65536 ->
  hex4 (hexd (c / 16 / 16 / 16)) (hexd ((c / 16 / 16) mod 16)) (hexd ((c / 16) mod 16)) (hexd (c mod 16)) = Some c.
Proof.
  intros c H. unfold hex4.
  rewrite !unhex_hexd by (Z.div_mod_to_equations; lia).
  f_equal. Z.div_mod_to_equations; lia.
Qed.

(* ================================================================== the string codec *)

(* what the printer writes for one code point, as decoded units *)
Definition units_of (c : Z) : list unit :=
  match short_escape c with
  | Some _ => [(c, false)]
  | None =>
      if (32 <=? c) && (c <=? 126) then [(c, false)]
      else if c <? 65536 then [(c, true)]
      else [(sur_hi c, true); (sur_lo c, true)]
  end.

Lemma short_escape_inv : forall c e, short_escape c = Some e -> unesc_short e = Some c /\ (e =? 117) = false.
Proof.
  intros c e. unfold short_escape.
  repeat match goal with
  | |- context [if ?x =? ?k then _ else _] => destruct (Z.eqb_spec x k); [subst; intros [= <-]; split; reflexivity|]
  end.
  discriminate.
Qed.

Lemma short_escape_none : forall c, short_escape c = None -> (c =? 34) = false /\ (c =? 92) = false.
Proof.
  intros c. unfold short_escape.
  destruct (c =? 34); [discriminate|]. destruct (c =? 92); [discriminate|]. auto.
Qed.

Lemma punits_short : forall e x r, unesc_short e = Some x -> (e =? 117) = false ->
  punits (92 :: e :: r) = pcons (x, false) (punits r).
Proof. intros e x r H1 H2. cbn [punits]. change (92 =? 34) with false. change (92 =? 92) with true. cbv iota. rewrite H2, H1. reflexivity. Qed.

Lemma punits_lit : forall c r, (c =? 34) = false -> (c =? 92) = false -> (c <? 32) = false ->
  punits (c :: r) = pcons (c, false) (punits r).
Proof. intros c r H1 H2 H3. cbn [punits]. rewrite H1, H2, H3. reflexivity. Qed.

Lemma punits_u : forall h1 h2 h3 h4 u r, hex4 h1 h2 h3 h4 = Some u ->
  punits (92 :: 117 :: h1 :: h2 :: h3 :: h4 :: r) = pcons (u, true) (punits r).
Proof.
  intros. cbn [punits]. change (92 =? 34) with false. change (92 =? 92) with true.
  change (117 =? 117) with true. cbv iota. rewrite H. reflexivity.
Qed.

Lemma punits_u4 : forall c r, 0 <= c < 65536 -> punits (u4 c ++ r) = pcons (c, true) (punits r).
Proof. intros c r H. unfold u4. cbn [app]. apply punits_u. apply hex4_u4. exact H. Qed.

Lemma cp_ok_range : forall c, cp_ok c = true -> 0 <= c <= 1114111.
Proof. intros c H. unfold cp_ok in H. apply andb_true_iff in H. destruct H as [H1 H2]. apply Z.leb_le in H1, H2. lia. Qed.

Lemma sur_hi_range : forall c, 65536 <= c <= 1114111 -> 55296 <= sur_hi c <= 56319.
Proof. intros c H. unfold sur_hi. Z.div_mod_to_equations. lia. Qed.
Lemma sur_lo_range : forall c, 65536 <= c <= 1114111 -> 56320 <= sur_lo c <= 57343.
Proof. intros c H. unfold sur_lo. Z.div_mod_to_equations. lia. Qed.
Lemma sur_combine : forall c, 65536 + (sur_hi c - 55296) * 1024 + (sur_lo c - 56320) = c.
Proof. intros c. unfold sur_hi, sur_lo. Z.div_mod_to_equations. lia. Qed.

(* the reader decodes exactly the units the printer wrote, for EVERY string of code points *)
Lemma punits_escape : forall s rest, forallb cp_ok s = true ->
  punits (escape_string s ++ 34 :: rest) = Some (flat_map units_of s, rest).
Proof.
  induction s as [|c s IH]; intros rest H.
  - reflexivity.
  - cbn [forallb] in H. apply andb_true_iff in H. destruct H as [Hc Hs].
    apply cp_ok_range in Hc.
    unfold escape_string in *. cbn [flat_map]. rewrite <- app_assoc.
    unfold escape_cp, units_of.
    destruct (short_escape c) as [e|] eqn:E.
    + apply short_escape_inv in E. destruct E as [E1 E2].
      cbn [app]. rewrite (punits_short _ _ _ E1 E2), IH by exact Hs. reflexivity.
    + apply short_escape_none in E. destruct E as [E1 E2].
      destruct ((32 <=? c) && (c <=? 126)) eqn:L.
      * apply andb_true_iff in L. destruct L as [L1 L2]. apply Z.leb_le in L1.
        cbn [app]. rewrite punits_lit, IH; auto. apply Z.ltb_ge. lia.
      * destruct (c <? 65536) eqn:B.
        -- apply Z.ltb_lt in B. rewrite punits_u4, IH by (auto; lia). reflexivity.
        -- apply Z.ltb_ge in B. rewrite <- app_assoc.
           pose proof (sur_hi_range c ltac:(lia)). pose proof (sur_lo_range c ltac:(lia)).
           rewrite punits_u4 by lia. rewrite punits_u4 by lia. rewrite IH by exact Hs. reflexivity.
Qed.

(* ---- recombination of surrogate pairs (json) ---- *)

Definition head_not_elow (t : list unit) : bool :=
  match t with (b, eb) :: _ => negb (eb && is_low b) | [] => true end.

Lemma combine_cons : forall a ea t, head_not_elow t = true \/ ea = false \/ is_high a = false ->
  combine_sur ((a, ea) :: t) = a :: combine_sur t.
Proof.
  intros a ea [|[b eb] t] H; [reflexivity|].
  cbn [combine_sur]. cbn [head_not_elow] in H.
  destruct ea, eb, (is_high a), (is_low b); cbn in *; try reflexivity;
    destruct H as [H|[H|H]]; discriminate.
Qed.

Lemma combine_pair : forall a b t, is_high a = true -> is_low b = true ->
  combine_sur ((a, true) :: (b, true) :: t) = (65536 + (a - 55296) * 1024 + (b - 56320)) :: combine_sur t.
Proof. intros a b t Ha Hb. cbn [combine_sur]. rewrite Ha, Hb. reflexivity. Qed.

Lemma range_high : forall c, 55296 <= c <= 56319 -> is_high c = true.
Proof. intros c H. unfold is_high. apply andb_true_iff. split; apply Z.leb_le; lia. Qed.
Lemma range_low : forall c, 56320 <= c <= 57343 -> is_low c = true.
Proof. intros c H. unfold is_low. apply andb_true_iff. split; apply Z.leb_le; lia. Qed.
Lemma range_not_low : forall c, c < 56320 \/ 57343 < c -> is_low c = false.
Proof. intros c H. unfold is_low. apply andb_false_iff. destruct H; [left; apply Z.leb_gt|right; apply Z.leb_gt]; lia. Qed.

Lemma units_head : forall c t, cp_ok c = true -> is_low c = false -> head_not_elow (units_of c ++ t) = true.
Proof.
  intros c t Hc Hl. apply cp_ok_range in Hc. unfold units_of.
  destruct (short_escape c); [reflexivity|].
  destruct ((32 <=? c) && (c <=? 126)); [reflexivity|].
  destruct (c <? 65536) eqn:B; cbn [app head_not_elow andb].
  - rewrite Hl. reflexivity.
  - apply Z.ltb_ge in B. rewrite range_not_low; [reflexivity|].
    pose proof (sur_hi_range c ltac:(lia)). lia.
Qed.

Lemma combine_units : forall s, forallb cp_ok s = true -> no_pair s = true ->
  combine_sur (flat_map units_of s) = s.
Proof.
  induction s as [|c s IH]; intros Hok Hnp; [reflexivity|].
  cbn [forallb] in Hok. apply andb_true_iff in Hok. destruct Hok as [Hc Hs].
  cbn [no_pair] in Hnp. apply andb_true_iff in Hnp. destruct Hnp as [Hadj Hnp].
  specialize (IH Hs Hnp). cbn [flat_map].
  assert (Hnext : is_high c = true -> head_not_elow (flat_map units_of s) = true).
  { intros Hh. destruct s as [|b s']; [reflexivity|].
    rewrite Hh in Hadj. cbn [andb] in Hadj. apply negb_true_iff in Hadj.
    cbn [forallb] in Hs. apply andb_true_iff in Hs. destruct Hs as [Hb _].
    cbn [flat_map]. apply units_head; assumption. }
  pose proof (cp_ok_range c Hc) as Hr.
  unfold units_of at 1.
  destruct (short_escape c).
  { cbn [app]. rewrite combine_cons by auto. f_equal. exact IH. }
  destruct ((32 <=? c) && (c <=? 126)).
  { cbn [app]. rewrite combine_cons by auto. f_equal. exact IH. }
  destruct (c <? 65536) eqn:B.
  - cbn [app]. rewrite combine_cons; [f_equal; exact IH|].
    destruct (is_high c) eqn:Hh; [left; apply Hnext; reflexivity | right; right; reflexivity].
  - apply Z.ltb_ge in B. cbn [app].
    rewrite combine_pair.
    + rewrite sur_combine. f_equal. exact IH.
    + apply range_high. apply sur_hi_range. lia.
    + apply range_low. apply sur_lo_range. lia.
Qed.

(* ---- no recombination (json5) ---- *)
Lemma fst_units : forall s, forallb (fun c => (0 <=? c) && (c <? 65536)) s = true ->
  map fst (flat_map units_of s) = s.
Proof.
  induction s as [|c s IH]; intros H; [reflexivity|].
  cbn [forallb] in H. apply andb_true_iff in H. destruct H as [Hc Hs].
  apply andb_true_iff in Hc. destruct Hc as [_ Hc].
  specialize (IH Hs). cbn [flat_map]. rewrite map_app. unfold unit in *. rewrite IH.
  unfold units_of. destruct (short_escape c); [reflexivity|].
  destruct ((32 <=? c) && (c <=? 126)); [reflexivity|]. rewrite Hc. reflexivity.
Qed.

Lemma str_ok_cp : forall j5 s, str_okb j5 s = true -> forallb cp_ok s = true.
Proof.
  intros [|] s H; unfold str_okb in H.
  - apply forallb_forall. intros c Hin. rewrite forallb_forall in H. specialize (H c Hin).
    apply andb_true_iff in H. destruct H as [H1 H2]. apply Z.leb_le in H1. apply Z.ltb_lt in H2.
    unfold cp_ok. apply andb_true_iff. split; apply Z.leb_le; lia.
  - apply andb_true_iff in H. tauto.
Qed.

Lemma decode_units_ok : forall j5 s, str_okb j5 s = true -> decode_units j5 (flat_map units_of s) = s.
Proof.
  intros [|] s H; unfold decode_units.
  - apply fst_units. exact H.
  - unfold str_okb in H. apply andb_true_iff in H. destruct H. apply combine_units; assumption.
Qed.

(* C12 for strings, full strength: every string of the domain, read back after its opening quote *)
Theorem pstring_escape : forall j5 s rest, str_okb j5 s = true ->
  pstring j5 (escape_string s ++ 34 :: rest) = Some (s, rest).
Proof.
  intros j5 s rest H. unfold pstring.
  rewrite punits_escape by (eapply str_ok_cp; exact H).
  rewrite decode_units_ok by exact H. reflexivity.
Qed.

(* ================================================================== whitespace, tokens *)

Lemma skip_ws_app : forall ws s, forallb is_ws ws = true -> skip_ws (ws ++ s) = skip_ws s.
Proof.
  induction ws as [|c ws IH]; intros s H; [reflexivity|].
  cbn [forallb] in H. apply andb_true_iff in H. destruct H as [Hc Hw].
  cbn [app skip_ws]. rewrite Hc. apply IH. exact Hw.
Qed.

Lemma skip_ws_head : forall c r, is_ws c = false -> skip_ws (c :: r) = c :: r.
Proof. intros c r H. cbn [skip_ws]. rewrite H. reflexivity. Qed.

Lemma indent_ws : forall n, forallb is_ws (indent n) = true.
Proof. intros n. unfold indent. induction (4 * n)%nat as [|k IH]; [reflexivity|]. cbn [repeat forallb]. rewrite IH. reflexivity. Qed.
Lemma sep_ws : forall b n, forallb is_ws (sep b n) = true.
Proof. intros [|] n; [reflexivity|]. unfold sep, nl. cbn [forallb]. rewrite indent_ws. reflexivity. Qed.

Lemma ws_not_num : forall c, is_ws c = true -> is_numchar c = false.
Proof.
  intros c. unfold is_ws.
  destruct (Z.eqb_spec c 32); [subst; reflexivity|].
  destruct (Z.eqb_spec c 10); [subst; reflexivity|].
  destruct (Z.eqb_spec c 13); [subst; reflexivity|].
  destruct (Z.eqb_spec c 9); [subst; reflexivity|]. discriminate.
Qed.

(* the text after a value must not continue a number token *)
Definition follow_ok (rest : list Z) : bool :=
  match rest with [] => true | c :: _ => negb (is_numchar c) end.

Lemma follow_ws : forall ws c rest, forallb is_ws ws = true -> is_numchar c = false ->
  follow_ok (ws ++ c :: rest) = true.
Proof.
  intros [|w ws] c rest H Hc; cbn [app follow_ok].
  - rewrite Hc. reflexivity.
  - cbn [forallb] in H. apply andb_true_iff in H. destruct H as [Hw _]. rewrite (ws_not_num _ Hw). reflexivity.
Qed.

Lemma span_num_tok : forall t rest, forallb is_numchar t = true -> follow_ok rest = true ->
  span_num (t ++ rest) = (t, rest).
Proof.
  induction t as [|c t IH]; intros rest Ht Hf.
  - cbn [app]. destruct rest as [|c r]; [reflexivity|].
    cbn [follow_ok] in Hf. apply negb_true_iff in Hf. cbn [span_num]. rewrite Hf. reflexivity.
  - cbn [forallb] in Ht. apply andb_true_iff in Ht. destruct Ht as [Hc Ht].
    cbn [app span_num]. rewrite Hc, IH by assumption. reflexivity.
Qed.

Lemma pnum_tok : forall t rest, num_ok t = true -> follow_ok rest = true -> pnum (t ++ rest) = Some (JNum t, rest).
Proof.
  intros t rest H Hf. unfold pnum. pose proof H as H'. unfold num_ok in H'. apply andb_true_iff in H'. destruct H' as [Hc _].
  rewrite span_num_tok by assumption. rewrite H. reflexivity.
Qed.

Lemma num_ok_head : forall t, num_ok t = true -> exists c r, t = c :: r /\ is_numchar c = true.
Proof.
  intros [|c r] H; [discriminate|]. exists c, r. split; [reflexivity|].
  unfold num_ok in H. apply andb_true_iff in H. destruct H as [H _]. cbn [forallb] in H.
  apply andb_true_iff in H. tauto.
Qed.

Lemma num_not_ws : forall c, is_numchar c = true -> is_ws c = false.
Proof. intros c H. destruct (is_ws c) eqn:E; [|reflexivity]. rewrite (ws_not_num _ E) in H. discriminate. Qed.

Lemma num_not_close : forall c, is_numchar c = true -> (c =? 93) = false /\ (c =? 125) = false.
Proof.
  intros c H. split.
  - destruct (Z.eqb_spec c 93); [subst; discriminate|reflexivity].
  - destruct (Z.eqb_spec c 125); [subst; discriminate|reflexivity].
Qed.

(* ================================================================== one step of the reader *)

Lemma pval_num : forall j5 f ws c r, forallb is_ws ws = true -> is_numchar c = true ->
  pval j5 (S f) (ws ++ c :: r) = pnum (c :: r).
Proof.
  intros. cbn [pval]. rewrite skip_ws_app by assumption. rewrite skip_ws_head by (apply num_not_ws; assumption).
  rewrite H0. reflexivity.
Qed.

Lemma pval_str : forall j5 f ws r, forallb is_ws ws = true ->
  pval j5 (S f) (ws ++ 34 :: r) = match pstring j5 r with Some (str, r') => Some (JStr str, r') | None => None end.
Proof. intros. cbn [pval]. rewrite skip_ws_app by assumption. reflexivity. Qed.

Lemma pval_lit : forall j5 f ws p v rest, forallb is_ws ws = true ->
  (p, v) = (lit_null, JNull) \/ (p, v) = (lit_true, JBool true) \/ (p, v) = (lit_false, JBool false) ->
  pval j5 (S f) (ws ++ p ++ rest) = Some (v, rest).
Proof.
  intros j5 f ws p v rest H Hp. cbn [pval]. rewrite skip_ws_app by assumption.
  destruct Hp as [Hp|[Hp|Hp]]; inversion Hp; subst; reflexivity.
Qed.

Lemma pval_arr : forall j5 f ws r, forallb is_ws ws = true ->
  pval j5 (S f) (ws ++ 91 :: r) =
  match skip_ws r with
  | [] => None
  | c2 :: r2 => if c2 =? 93 then Some (JArr [], r2)
                else match pelems j5 f r with Some (l, r') => Some (JArr l, r') | None => None end
  end.
Proof. intros. cbn [pval]. rewrite skip_ws_app by assumption. reflexivity. Qed.

Lemma pval_obj : forall j5 f ws r, forallb is_ws ws = true ->
  pval j5 (S f) (ws ++ 123 :: r) =
  match skip_ws r with
  | [] => None
  | c2 :: r2 => if c2 =? 125 then Some (JObj [], r2)
                else match pmembers j5 f r with Some (l, r') => Some (JObj l, r') | None => None end
  end.
Proof. intros. cbn [pval]. rewrite skip_ws_app by assumption. reflexivity. Qed.

Lemma pelems_S : forall j5 f s, pelems j5 (S f) s =
  match pval j5 f s with
  | None => None
  | Some (v, r) =>
      match skip_ws r with
      | [] => None
      | c :: r' =>
          if c =? 44 then match pelems j5 f r' with Some (l, r'') => Some (v :: l, r'') | None => None end
          else if c =? 93 then Some ([v], r') else None
      end
  end.
Proof. reflexivity. Qed.

Lemma pmembers_key : forall j5 f ws k x rest, forallb is_ws ws = true -> str_okb j5 k = true ->
  pmembers j5 (S f) (ws ++ jstring k ++ 58 :: 32 :: x ++ rest) =
  match pval j5 f (32 :: x ++ rest) with
  | None => None
  | Some (v, r3) =>
      match skip_ws r3 with
      | [] => None
      | c :: r4 =>
          if c =? 44 then match pmembers j5 f r4 with Some (l, r5) => Some ((k, v) :: l, r5) | None => None end
          else if c =? 125 then Some ([(k, v)], r4) else None
      end
  end.
Proof.
  intros. cbn [pmembers]. rewrite skip_ws_app by assumption.
  unfold jstring. cbn [app skip_ws]. change (is_ws 34) with false. cbv iota. change (34 =? 34) with true. cbv iota.
  rewrite <- app_assoc. cbn [app]. rewrite pstring_escape by assumption.
  cbn [skip_ws]. change (is_ws 58) with false. cbv iota. change (58 =? 58) with true. cbv iota. reflexivity.
Qed.

(* ================================================================== containers *)

Lemma seq_text_app : forall o c spi spc x r rest,
  seq_text o c spi spc (x :: r) ++ rest = o :: spi ++ x ++ flat_map (fun t => 44 :: spi ++ t) r ++ spc ++ c :: rest.
Proof. intros. unfold seq_text. cbn [app]. rewrite <- !app_assoc. reflexivity. Qed.

Lemma seq_text_len : forall o c spi spc x r,
  length (seq_text o c spi spc (x :: r)) =
  (2 + length (spi ++ x ++ flat_map (fun t => 44%Z :: spi ++ t) r) + length spc)%nat.
Proof. intros. unfold seq_text. cbn [length]. rewrite !app_length. cbn [length]. lia. Qed.

(* a printed value starts with a character that is neither whitespace nor a closing bracket *)
Lemma jp_head : forall j5 lay n v, jwfb j5 v = true ->
  exists c t, jp lay n v = c :: t /\ is_ws c = false /\ (c =? 93) = false /\ (c =? 125) = false.
Proof.
  intros j5 lay n v H. destruct v as [|[|]|t|s|l|kvs]; cbn [jp].
  - eexists _, _. split; [reflexivity|]. repeat split.
  - eexists _, _. split; [reflexivity|]. repeat split.
  - eexists _, _. split; [reflexivity|]. repeat split.
  - cbn [jwfb] in H. destruct (num_ok_head _ H) as (c & r & -> & Hc). exists c, r.
    split; [reflexivity|]. split; [apply num_not_ws; exact Hc | apply num_not_close; exact Hc].
  - eexists _, _. split; [reflexivity|]. repeat split.
  - destruct l; eexists _, _; (split; [reflexivity|]); repeat split.
  - destruct kvs; eexists _, _; (split; [reflexivity|]); repeat split.
Qed.

Ltac norm_app := cbn [app]; repeat (rewrite <- app_assoc; cbn [app]).

Section Structure.
  Variable j5 : bool.
  Variable lay : layout.

  (* the reader inverts the printer on v, whatever whitespace precedes and whatever follows *)
  Definition inv_ok (v : jvalue) : Prop :=
    jwfb j5 v = true -> forall n f ws rest, forallb is_ws ws = true -> follow_ok rest = true ->
    (length (jp lay n v) < f)%nat -> pval j5 f (ws ++ jp lay n v ++ rest) = Some (v, rest).

  Lemma pelems_ok : forall r x n f spi spc rest,
    forallb is_ws spi = true -> forallb is_ws spc = true ->
    Forall inv_ok (x :: r) -> forallb (jwfb j5) (x :: r) = true ->
    (length (spi ++ jp lay n x ++ flat_map (fun t => 44%Z :: spi ++ t) (map (jp lay n) r)) + 1 < f)%nat ->
    pelems j5 f (spi ++ jp lay n x ++ flat_map (fun t => 44 :: spi ++ t) (map (jp lay n) r) ++ spc ++ 93 :: rest)
    = Some (x :: r, rest).
  Proof.
    induction r as [|y r IH]; intros x n f spi spc rest Hspi Hspc HP Hwf Hlen.
    - destruct f as [|f]; [lia|]. rewrite pelems_S.
      inversion HP as [|? ? Hx _]; subst.
      cbn [forallb] in Hwf. apply andb_true_iff in Hwf. destruct Hwf as [Hwx _].
      cbn [map flat_map app] in *. rewrite app_nil_r in Hlen. rewrite app_length in Hlen.
      rewrite (Hx Hwx n f spi (spc ++ 93 :: rest)); [|assumption|apply follow_ws; [assumption|reflexivity]|lia].
      rewrite skip_ws_app by assumption. reflexivity.
    - destruct f as [|f]; [lia|]. rewrite pelems_S.
      inversion HP as [|? ? Hx HP']; subst.
      cbn [forallb] in Hwf. apply andb_true_iff in Hwf. destruct Hwf as [Hwx Hwf'].
      cbn [map flat_map] in *. norm_app.
      rewrite !app_length in Hlen. cbn [length] in Hlen. rewrite !app_length in Hlen.
      rewrite (Hx Hwx n f spi (44 :: spi ++ jp lay n y ++
                 flat_map (fun t => 44 :: spi ++ t) (map (jp lay n) r) ++ spc ++ 93 :: rest));
        [|assumption|reflexivity|lia].
      cbn [skip_ws]. change (is_ws 44) with false. cbv iota. change (44 =? 44) with true. cbv iota.
      rewrite (IH y n f spi spc rest); try assumption; [reflexivity|].
      rewrite !app_length. lia.
  Qed.

  Lemma inv_ok_sp : forall x, inv_ok x -> jwfb j5 x = true -> forall n f rest, follow_ok rest = true ->
    (length (jp lay n x) < f)%nat -> pval j5 f (32 :: jp lay n x ++ rest) = Some (x, rest).
  Proof. intros x H Hw n f rest Hf Hl. apply (H Hw n f [32] rest); auto. Qed.

  Definition member_text (n : nat) (kv : list Z * jvalue) : list Z :=
    match kv with (k, x) => jstring k ++ [58; 32] ++ jp lay n x end.
  Definition member_wf (kv : list Z * jvalue) : bool :=
    match kv with (k, x) => str_okb j5 k && jwfb j5 x end.

  Lemma pmembers_ok : forall r kv n f spi spc rest,
    forallb is_ws spi = true -> forallb is_ws spc = true ->
    Forall (fun kv => inv_ok (snd kv)) (kv :: r) -> forallb member_wf (kv :: r) = true ->
    (length (spi ++ member_text n kv ++ flat_map (fun t => 44%Z :: spi ++ t) (map (member_text n) r)) + 1 < f)%nat ->
    pmembers j5 f (spi ++ member_text n kv ++ flat_map (fun t => 44 :: spi ++ t) (map (member_text n) r)
                       ++ spc ++ 125 :: rest)
    = Some (kv :: r, rest).
  Proof.
    induction r as [|kv' r IH]; intros [k x] n f spi spc rest Hspi Hspc HP Hwf Hlen.
    - destruct f as [|f]; [lia|].
      inversion HP as [|? ? Hx _]; subst. cbn [snd] in Hx.
      cbn [forallb member_wf] in Hwf. apply andb_true_iff in Hwf. destruct Hwf as [Hwx _].
      apply andb_true_iff in Hwx. destruct Hwx as [Hk Hwx].
      cbn [map flat_map member_text] in *. rewrite app_nil_r in Hlen.
      rewrite !app_length in Hlen. cbn [length] in Hlen.
      norm_app. rewrite (pmembers_key j5 f spi k (jp lay n x)) by assumption.
      rewrite (inv_ok_sp x Hx Hwx n f (spc ++ 125 :: rest)); [|apply follow_ws; [assumption|reflexivity]|lia].
      rewrite skip_ws_app by assumption. reflexivity.
    - destruct f as [|f]; [lia|].
      inversion HP as [|? ? Hx HP']; subst. cbn [snd] in Hx.
      cbn [forallb] in Hwf. apply andb_true_iff in Hwf. destruct Hwf as [Hwx Hwf'].
      cbn [member_wf] in Hwx. apply andb_true_iff in Hwx. destruct Hwx as [Hk Hwx].
      cbn [map flat_map] in *. unfold member_text in Hlen at 1. unfold member_text at 1.
      rewrite !app_length in Hlen. cbn [length] in Hlen. rewrite !app_length in Hlen.
      norm_app. rewrite (pmembers_key j5 f spi k (jp lay n x)) by assumption.
      rewrite (inv_ok_sp x Hx Hwx n f); [|reflexivity|lia].
      cbn [skip_ws]. change (is_ws 44) with false. cbv iota. change (44 =? 44) with true. cbv iota.
      rewrite (IH kv' n f spi spc rest); try assumption; [reflexivity|].
      rewrite !app_length. lia.
  Qed.

  Theorem pval_jp : forall v, inv_ok v.
  Proof.
    induction v as [| b | t | s | l IHl | kvs IHk] using jvalue_ind2; intros Hwf n f ws rest Hws Hf Hlen;
      (destruct f as [|f]; [cbn in Hlen; lia|]).
    - cbn [jp]. apply pval_lit; auto.
    - destruct b; cbn [jp]; apply pval_lit; auto.
    - cbn [jp jwfb] in *. destruct (num_ok_head _ Hwf) as (c & r & E & Hc).
      rewrite E. cbn [app]. rewrite pval_num by assumption.
      change (c :: r ++ rest) with ((c :: r) ++ rest). rewrite <- E. apply pnum_tok; assumption.
    - cbn [jp jwfb] in *. unfold jstring. cbn [app]. rewrite pval_str by assumption.
      rewrite <- app_assoc. cbn [app]. rewrite pstring_escape by assumption. reflexivity.
    - cbn [jp jwfb] in *. destruct l as [|x r].
      + cbn [map seq_text app]. rewrite pval_arr by assumption. reflexivity.
      + cbn [map] in *. rewrite seq_text_app. rewrite seq_text_len in Hlen. rewrite pval_arr by assumption.
        rewrite skip_ws_app by apply sep_ws.
        assert (Hx : jwfb j5 x = true) by (cbn [forallb] in Hwf; apply andb_true_iff in Hwf; tauto).
        destruct (jp_head j5 lay (S n) x Hx) as (c & t & E & Hc1 & Hc2 & _).
        rewrite E at 1. cbn [app]. rewrite skip_ws_head by assumption. rewrite Hc2.
        rewrite pelems_ok; try assumption; try apply sep_ws; [reflexivity|lia].
    - cbn [jp jwfb] in *. destruct kvs as [|[k x] r].
      + cbn [map seq_text app]. rewrite pval_obj by assumption. reflexivity.
      + cbn [map] in *. rewrite seq_text_app. rewrite seq_text_len in Hlen. rewrite pval_obj by assumption.
        rewrite skip_ws_app by apply sep_ws.
        unfold jstring at 1. cbn [app]. rewrite skip_ws_head by reflexivity.
        change (34 =? 125) with false. cbv iota.
        change (2 + length (sep (snd lay) (S n) ++ member_text (S n) (k, x) ++
                  flat_map (fun t => 44%Z :: sep (snd lay) (S n) ++ t) (map (member_text (S n)) r)) +
                length (sep (snd lay) n) < S f)%nat in Hlen.
        assert (HM : pmembers j5 f (sep (snd lay) (S n) ++ member_text (S n) (k, x) ++
                       flat_map (fun t => 44 :: sep (snd lay) (S n) ++ t) (map (member_text (S n)) r) ++
                       sep (snd lay) n ++ 125 :: rest) = Some ((k, x) :: r, rest)).
        { apply pmembers_ok; try apply sep_ws; [exact IHk|exact Hwf|lia]. }
        match goal with |- match ?A with _ => _ end = _ =>
          assert (E : A = Some ((k, x) :: r, rest)) by exact HM; rewrite E; reflexivity end.
  Qed.
End Structure.

(* ================================================================== canonical form *)

Lemma forallb_ins : forall p kv l, forallb p (ins_member kv l) = p kv && forallb p l.
Proof.
  intros p kv. induction l as [|h t IH]; cbn [ins_member forallb]; [reflexivity|].
  destruct (zlist_leb (fst kv) (fst h)); cbn [forallb]; [reflexivity|].
  rewrite IH. destruct (p h), (p kv); reflexivity.
Qed.

Lemma forallb_sort : forall p l, forallb p (sort_members l) = forallb p l.
Proof.
  intros p. induction l as [|h t IH]; [reflexivity|].
  unfold sort_members in *. cbn [fold_right forallb]. rewrite forallb_ins, IH. reflexivity.
Qed.

Lemma jwfb_canon : forall j5 v, jwfb j5 v = true -> jwfb j5 (canon v) = true.
Proof.
  intros j5. induction v as [| b | t | s | l IHl | kvs IHk] using jvalue_ind2; intros H; cbn [canon jwfb] in *; auto.
  - induction l as [|x r IHr]; [reflexivity|].
    inversion IHl; subst. cbn [map forallb] in *. apply andb_true_iff in H. destruct H as [Hx Hr].
    apply andb_true_iff. split; auto.
  - rewrite forallb_sort.
    induction kvs as [|[k x] r IHr]; [reflexivity|].
    inversion IHk; subst. cbn [map forallb snd] in *. apply andb_true_iff in H. destruct H as [Hx Hr].
    apply andb_true_iff in Hx. destruct Hx as [Hk Hx].
    apply andb_true_iff. split; [apply andb_true_iff; split; auto|auto].
Qed.

(* ================================================================== the property *)

Lemma parse_print : forall j5 lay v, jwfb j5 v = true -> parse_doc j5 (jp lay 0 v) = Some v.
Proof.
  intros j5 lay v H. unfold parse_doc.
  pose proof (pval_jp j5 lay v H 0%nat (S (length (jp lay 0 v))) [] [] eq_refl eq_refl (Nat.lt_succ_diag_r _)) as E.
  cbn [app] in E. rewrite app_nil_r in E. rewrite E. reflexivity.
Qed.

(* JSON: for every layout and every document of the domain - any nesting, any strings (all code points, lone
   surrogates, never a high surrogate immediately followed by a low one), well-formed number tokens - the
   printed text parses back to the document (entries of mappings in the printer's sorted order). *)
Theorem C12_json_all : forall lay v, json_domain v -> jparse (jprint lay v) = Some (canon v).
Proof.
  intros lay v H. unfold json_domain, json_domainb in H. apply andb_true_iff in H. destruct H as [H _].
  unfold jparse, jprint. apply parse_print. apply jwfb_canon. exact H.
Qed.

(* JSON5 (the json5 library keeps escaped surrogate pairs apart): holds for documents without astral code points *)
Theorem C12_json5_bmp : forall lay v, json5_domain v -> j5parse (jprint lay v) = Some (canon v).
Proof.
  intros lay v H. unfold json5_domain, json5_domainb in H. apply andb_true_iff in H. destruct H as [H _].
  unfold j5parse, jprint. apply parse_print. apply jwfb_canon. exact H.
Qed.

(* ... and fails for a document of the JSON domain containing U+1F600 (D17) *)
Theorem C12_json5_astral_refuted :
  exists lay v, json_domain v /\ j5parse (jprint lay v) <> Some (canon v).
Proof. exists (false, false), (JStr [128512]). split; [reflexivity|]. vm_compute. discriminate. Qed.

(* the string codec on its own, full strength (JSON): escape then unescape is the identity on every string of
   the domain; the hypothesis is necessary (a high surrogate followed by a low one is recombined) *)
Theorem C12_json_string_codec : forall s rest, str_okb false s = true ->
  pstring false (escape_string s ++ 34 :: rest) = Some (s, rest).
Proof. intros. apply pstring_escape. assumption. Qed.

Theorem C12_json_string_pair_refuted :
  exists s, forallb cp_ok s = true /\ pstring false (escape_string s ++ [34]) <> Some (s, []).
Proof. exists [55357; 56832]. split; [reflexivity|]. vm_compute. discriminate. Qed.

(* ---- the hypotheses are satisfiable by non-trivial values ---- *)
Definition example_doc : jvalue :=
  JObj [([98], JArr [JNum [49; 101; 43; 49; 54]; JArr []; JObj []; JNum [45; 48; 46; 48];
                     JStr [113; 34; 92; 10; 0; 127; 233; 8232; 65535; 128512; 56832; 55296; 55357]]);
        ([97; 128512], JBool true); ([], JNull);
        ([99], JObj [([122], JArr [JArr [JArr [JStr []]]]); ([121], JNum [49; 56; 52; 52; 54; 55; 52; 52; 48; 55; 51; 55; 48; 57; 53; 53; 49; 54; 49; 54])])].

Example C12_json_domain_inhabited : json_domain example_doc /\ canon example_doc <> example_doc.
Proof. split; [reflexivity|]. vm_compute. discriminate. Qed.

Definition example_doc5 : jvalue :=
  JObj [([98], JArr [JNum [49]; JStr [113; 34; 92; 10; 0; 127; 233; 8232; 65535; 55357; 56832]]); ([97], JArr [])].
Example C12_json5_domain_inhabited : json5_domain example_doc5 /\ canon example_doc5 <> example_doc5.
Proof. split; [reflexivity|]. vm_compute. discriminate. Qed.

Example C12_json_example : forall lay, jparse (jprint lay example_doc) = Some (canon example_doc).
Proof. intros lay. apply C12_json_all. reflexivity. Qed.
