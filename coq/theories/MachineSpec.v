(* C04 - cost bounds only tighten, stay sound, and converge.
   Vocabulary of the Bounded protocol (graphtage/bounds.py: Range, Bounded.bounds / tighten_bounds):
   - ranges with infinite ends as the implementation can expose them (Range() of an invalid EditCollection,
     the initial bounds of a search), observed event traces of Bounded objects and the EXECUTABLE statement
     of the property on such traces (holds_C04; evaluated on the IMPLEMENTATION's recorded traces);
   - machines (one bounds / one tighten_bounds operation over a state) and the Contract predicate, which is
     what the theorems of MachineProofs.v establish for the models of MachineModel.v.
   Independent of the model and of everything translated from the code. *)
From Coq Require Import ZArith List Bool Lia.
Require Import GT.PyBase GT.Data.
Import ListNotations.
Open Scope Z_scope.

(* ---------------------------------------------------------------- ranges as observed *)
Inductive rv := NegInf | Fin (z : Z) | PosInf.

Definition rv_leb (a b : rv) : bool :=
  match a, b with
  | NegInf, _ => true
  | _, PosInf => true
  | Fin x, Fin y => x <=? y
  | _, _ => false
  end.
Definition rv_eqb (a b : rv) : bool :=
  match a, b with
  | NegInf, NegInf | PosInf, PosInf => true
  | Fin x, Fin y => x =? y
  | _, _ => false
  end.

Definition rng := (rv * rv)%type.                    (* (lower_bound, upper_bound) *)
Definition rng_ok (r : rng) : bool := rv_leb (fst r) (snd r).             (* Range.__init__ guard *)
Definition rng_eqb (a b : rng) : bool := rv_eqb (fst a) (fst b) && rv_eqb (snd a) (snd b).
(* Range.__contains__: inner in outer *)
Definition contains_b (outer inner : rng) : bool :=
  rv_leb (fst outer) (fst inner) && rv_leb (snd inner) (snd outer).
(* Range.definitive *)
Definition definitive_b (r : rng) : bool :=
  match r with (Fin x, Fin y) => x =? y | _ => false end.

(* ---------------------------------------------------------------- observed traces
   One Bounded object, in program order: EB r = a bounds() call on the object returned r (outermost call only;
   calls made from inside the object's own tighten_bounds()/bounds() are not observations);
   ET b = an outermost tighten_bounds() call on the object returned b.
   The active observer queries bounds() directly before and after every outermost tighten_bounds() call
   (EB, ET, EB per call); the passive observer only sees the bounds() calls the library itself makes. *)
Inductive ev := EB (r : rng) | ET (res : bool).

Inductive cls := CConst | CSum | CFixedLen | CEditDist | CStr | CMultiSet | CMatcher | CEdge
               | CCollection | CSearch | CPossible | COther.
Definition cls_eqb (a b : cls) : bool :=
  match a, b with
  | CConst, CConst | CSum, CSum | CFixedLen, CFixedLen | CEditDist, CEditDist | CStr, CStr
  | CMultiSet, CMultiSet | CMatcher, CMatcher | CEdge, CEdge | CCollection, CCollection
  | CSearch, CSearch | CPossible, CPossible | COther, COther => true
  | _, _ => false
  end.

Definition all_true (l : list bool) : bool := forallb (fun b => b) l.
Definition all_false (l : list bool) : bool := forallb negb l.
(* chronological list of results: no True after a False *)
Fixpoint no_true_after_false (l : list bool) : bool :=
  match l with
  | [] => true
  | true :: l' => no_true_after_false l'
  | false :: l' => all_false l'
  end.

(* The clauses between two consecutive observations p (earlier) and b (later) of the same object with the
   tighten_bounds() results `since` (chronological) in between:
     never widens:            b in p
     True => strictly shrunk: if every call in between returned True (and there was one), b <> p
     False => single value:   if only False was returned in between, p is a single value and b = p  (strict = true);
                              the weak reading (strict = false, used to delimit a known-finding class) only asks that
                              b is a single value when the last call returned False;
                              after a False no call returns True; on a single-valued interval every call returns False *)
Definition clause_step (strict : bool) (p b : rng) (since : list bool) : bool :=
  contains_b p b &&
  match since with
  | [] => true
  | _ => (if all_true since then negb (rng_eqb p b) else true) &&
         (if last since true then true else definitive_b b) &&
         (if strict && all_false since then definitive_b p && rng_eqb p b else true) &&
         no_true_after_false since &&
         (if definitive_b p then all_false since else true)
  end.

Fixpoint scan (strict : bool) (prev : option rng) (since : list bool) (evs : list ev) : bool :=
  match evs with
  | [] => true
  | ET r :: evs' => scan strict prev (since ++ [r]) evs'
  | EB b :: evs' =>
      rng_ok b &&
      match prev with
      | None => true
      | Some p => clause_step strict p b since
      end && scan strict (Some b) [] evs'
  end.

Fixpoint last_bounds (evs : list ev) (acc : option rng) : option rng :=
  match evs with
  | [] => acc
  | EB b :: evs' => last_bounds evs' (Some b)
  | ET _ :: evs' => last_bounds evs' acc
  end.

(* soundness with the object's OWN final value: the run drives every object to completion and queries it, so the
   last observation must be a single value, and every earlier observation must contain it *)
Definition sound_events (evs : list ev) : bool :=
  match last_bounds evs None with
  | Some f => definitive_b f && forallb (fun e => match e with EB b => contains_b b f | ET _ => true end) evs
  | None => true
  end.

Definition holds_events (evs : list ev) : bool := scan true None [] evs && sound_events evs.
Definition weak_events (evs : list ev) : bool := scan false None [] evs && sound_events evs.

Record otrace := { ot_cls : cls; ot_events : list ev }.

(* one run of the implementation on a pair of documents: the monitored objects (the root edit first) *)
Record case := {
  c_a : tree; c_b : tree;
  c_crashed : bool;              (* the drive raised (the traces end where it did) *)
  c_collapsed : bool;            (* some WeightedBipartiteMatcher of the run ended with fewer matched pairs than
                                    min(#from_nodes, #to_nodes): repeated nodes collapsed in its node-keyed dictionary
                                    (read off the implementation's objects by the harness; used by the D36 class only) *)
  c_objs : list otrace
}.

Definition holds_C04 (c : case) : bool :=
  negb (c_crashed c) && forallb (fun o => holds_events (ot_events o)) (c_objs c).

(* which classes fail in a case (for the evidence) *)
Definition failing_classes (c : case) : list cls :=
  map ot_cls (filter (fun o => negb (holds_events (ot_events o))) (c_objs c)).

(* ---------------------------------------------------------------- known-finding classes
   D23 (MultiSetEdit gave up before its matching was computed), D24 (EditDistance reported False on the call that
   completed its matrix) and D25 (IterativeTighteningSearch returned its best item's flag) are repaired in the code;
   their replays stay in corpus/C04.jsonl.
   D36 (open; only reachable with directly built MultiSetNodes that repeat an element, which no JSON file produces):
   WeightedBipartiteMatcher keys its dictionaries by node, so repeated elements collapse; the MATCHER's own bounds
   then widen / lose their final value once the matching is computed (and repeat_until_tightened may spin for ever:
   those runs are cut by the wall-clock guard).  Class: the trace of some WeightedBipartiteMatcher object itself
   violates a clause, or a collapsed matching was observed (c_collapsed).  A case in which only other objects fail (e.g. a MultiSetEdit whose bounds do not contain its
   final value while its matcher's trace is fine) is NOT in the class. *)
Definition kf_matcher_fails (c : case) : bool :=
  existsb (fun o => cls_eqb (ot_cls o) CMatcher && negb (holds_events (ot_events o))) (c_objs c).
(* ... or the collapse itself was observed: the matcher's pre-matching bracket can be memoised as a single value, so
   its own trace stays clean while the MultiSetEdit above it counts the collapsed pairs as unmatched
   (MultiSetNode{1,1,2} -> {3,3}: [4,4] -True-> [8,8]) *)
Definition kf_multiset_duplicates_C04 (c : case) : bool := kf_matcher_fails c || c_collapsed c.

(* ---------------------------------------------------------------- machines and their contract *)
Definition zr := (Z * Z)%type.                        (* finite range (lower, upper) *)
Definition zcontains (outer inner : zr) : Prop := fst outer <= fst inner /\ snd inner <= snd outer.
Definition zdefinitive (r : zr) : Prop := fst r = snd r.
Definition width (r : zr) : Z := snd r - fst r.
Definition rng_of (r : zr) : rng := (Fin (fst r), Fin (snd r)).

Record machine := {
  St : Type;
  bnd : St -> zr;                 (* bounds() *)
  tig : St -> St * bool           (* tighten_bounds(): new state, returned flag *)
}.

(* one step from a state t of the invariant: the invariant is kept, the final value is inside the interval,
   the interval does not widen, True means it changed (hence strictly shrank), False means it is a single value
   afterwards and - strict reading, the property as stated - that it already was one and did not change *)
Definition step_ok (strict : bool) (M : machine) (Inv : St M -> Prop) (fin : Z) (t : St M) : Prop :=
  let t' := fst (tig M t) in
  let r := snd (tig M t) in
  Inv t' /\
  fst (bnd M t) <= fin <= snd (bnd M t) /\
  zcontains (bnd M t) (bnd M t') /\
  (r = true -> bnd M t' <> bnd M t) /\
  (r = false -> zdefinitive (bnd M t') /\ (strict = true -> bnd M t' = bnd M t)).

Definition ContractV (strict : bool) (M : machine) (s : St M) (fin : Z) : Prop :=
  exists Inv : St M -> Prop, Inv s /\ forall t, Inv t -> step_ok strict M Inv fin t.

(* the property as stated / with the weak reading of the False clause *)
Definition Contract (M : machine) (s : St M) : Prop := exists fin, ContractV true M s fin.
Definition ContractW (M : machine) (s : St M) : Prop := exists fin, ContractV false M s fin.

(* the trace the active observer records when it drives a machine:  bounds, tighten, bounds  per call, until a
   call returns False (or the fuel is used up) *)
Fixpoint trace_of (M : machine) (fuel : nat) (s : St M) : list ev :=
  match fuel with
  | O => []
  | S fuel' =>
      let p := tig M s in          (* one call: evaluation shares it *)
      EB (rng_of (bnd M s)) :: ET (snd p) :: EB (rng_of (bnd M (fst p))) :: (if snd p then trace_of M fuel' (fst p) else [])
  end.

(* n steps *)
Fixpoint steps (M : machine) (n : nat) (s : St M) : St M :=
  match n with O => s | S n' => steps M n' (fst (tig M s)) end.
