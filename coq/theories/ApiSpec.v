(* C05 - results do not depend on how the edit API is driven or on status settings.
   Vocabulary: the six public operations of an edit (graphtage.tree.Edit / CompoundEdit), addressed to the root edit
   or to a sub-edit named by its position in its parent's listing; outcomes as observed from outside; histories;
   one observed case (a pair of documents, a history, the implementation's per-call outcomes and final nested script
   under each setting of DEFAULT_PRINTER.quiet / through the command line, and the canonical drive of a fresh edit);
   and the EXECUTABLE statement of the property on such a case (holds_C05, evaluated on the IMPLEMENTATION's
   observations alone).
   Independent of the model and of everything translated from the code. *)
From Coq Require Import ZArith List Bool Lia.
Require Import GT.PyBase GT.Data GT.ScriptSpec GT.MachineSpec.
Import ListNotations.
Open Scope Z_scope.

(* ---------------------------------------------------------------- operations and outcomes *)
Inductive bop := OBounds | OTighten | OIsComplete | OValid | OEdits | OHasNonZero.
Definition all_bops : list bop := [OBounds; OTighten; OIsComplete; OValid; OEdits; OHasNonZero].

(* a call: the path of the addressed edit (positions in the listings edits() returned; [] = the root edit), the operation *)
Definition call := (list nat * bop)%type.
Definition history := list call.

(* what a listing shows of each sub-edit: its class *)
Inductive tag := TMatch | TReplace | TRemove | TInsert | TKvp | TFixed | TEditDist | TString | TMultiSet | TFixedDict | TOther.
Definition tag_eqb (a b : tag) : bool :=
  match a, b with
  | TMatch, TMatch | TReplace, TReplace | TRemove, TRemove | TInsert, TInsert | TKvp, TKvp | TFixed, TFixed
  | TEditDist, TEditDist | TString, TString | TMultiSet, TMultiSet | TFixedDict, TFixedDict | TOther, TOther => true
  | _, _ => false
  end.

Inductive outcome :=
  | RBool (b : bool)            (* tighten_bounds(), is_complete(), valid, has_non_zero_cost() *)
  | RRange (r : rng)            (* bounds() *)
  | REdits (l : list tag)       (* list(edits()) of a CompoundEdit *)
  | RNA                         (* edits() asked of an edit that is not a CompoundEdit (nothing is called) *)
  | RNoSub                      (* the path names no listed sub-edit (nothing is called) *)
  | RErr (cls : Z).             (* the call raised; cls: 1 TypeError, 2 AssertionError, 3 RecursionError, 0 anything else *)

Definition is_err (o : outcome) : bool := match o with RErr _ => true | _ => false end.
Definition is_nosub (o : outcome) : bool := match o with RNoSub => true | _ => false end.

Fixpoint tags_eqb (a b : list tag) : bool :=
  match a, b with
  | [], [] => true
  | x :: a', y :: b' => tag_eqb x y && tags_eqb a' b'
  | _, _ => false
  end.

(* equality of outcomes; the class of an exception is not compared *)
Definition outcome_eqb (x y : outcome) : bool :=
  match x, y with
  | RBool a, RBool b => Bool.eqb a b
  | RRange a, RRange b => rng_eqb a b
  | REdits a, REdits b => tags_eqb a b
  | RNA, RNA | RNoSub, RNoSub => true
  | RErr _, RErr _ => true
  | _, _ => false
  end.

Fixpoint outcomes_eqb (a b : list outcome) : bool :=
  match a, b with
  | [], [] => true
  | x :: a', y :: b' => outcome_eqb x y && outcomes_eqb a' b'
  | _, _ => false
  end.

(* ---------------------------------------------------------------- equality of nested scripts (own costs included) *)
Definition sop_eqb (a b : sop) : bool :=
  match a, b with
  | SKeep c, SKeep d | SDel c, SDel d | SAdd c, SAdd d => c =? d
  | SSub c c', SSub d d' => (c =? d) && (c' =? d')
  | _, _ => false
  end.

Fixpoint script_eqb (x y : edit) {struct x} : bool :=
  match x, y with
  | EMatch c, EMatch d | EReplace c, EReplace d => c =? d
  | EStr c ops, EStr d ops' =>
      (c =? d) && (fix go (a b : list sop) : bool :=
                     match a, b with
                     | [], [] => true
                     | p :: a', q :: b' => sop_eqb p q && go a' b'
                     | _, _ => false
                     end) ops ops'
  | EComp k c ss, EComp k' d ss' =>
      kind_eqb k k' && (c =? d) &&
      (fix go (a b : list sub) : bool :=
         match a, b with
         | [], [] => true
         | SPair i j e :: a', SPair i' j' e' :: b' => Nat.eqb i i' && Nat.eqb j j' && script_eqb e e' && go a' b'
         | SRem i c1 :: a', SRem i' c2 :: b' => Nat.eqb i i' && (c1 =? c2) && go a' b'
         | SIns j c1 :: a', SIns j' c2 :: b' => Nat.eqb j j' && (c1 =? c2) && go a' b'
         | _, _ => false
         end) ss ss'
  | _, _ => false
  end.

(* ---------------------------------------------------------------- observed cases *)
(* one execution of the history on a fresh edit of the pair, then completion by the library's idiom
   (while e.valid and not e.is_complete() and e.tighten_bounds()) and serialisation of the complete nested script *)
(* answers of code that is not modelled, as observed in one run: for the WeightedBipartiteMatcher between the node lists
   (from_nodes, to_nodes): the number of tighten_bounds() calls bounds.make_distinct made on each edge, and the assignment
   the solver returned.  Plain data (used by the correspondence only; holds_C05 does not look at it). *)
Definition orc_data := list ((list tree * list tree) * (list (list nat) * list (nat * nat))).

Record run := {
  r_quiet : bool;                 (* DEFAULT_PRINTER.quiet (library runs) / --no-status (command line runs) *)
  r_orc : option orc_data;        (* the oracle answers observed in this run; None: ambiguous (one key, two answers) *)
  r_outs : list outcome;          (* one per call of the history, in order; ends with the RErr of a call that raised *)
  r_final : option edit           (* the complete script with all own costs; None: completion or serialisation raised *)
}.

(* the other views of the total on fresh trees of the same pair under one setting of DEFAULT_PRINTER.quiet (the views of
   C03): the sum over TreeNode.get_all_edits and TreeNode.diff(...).edited_cost() *)
Record view := { v_quiet : bool; v_flat_total : Z; v_edited_cost : Z }.

Record case := {
  c_a : tree; c_b : tree;
  c_hist : history;
  c_canon : option edit;          (* canonical drive: no history, quiet printer; None: it raised *)
  c_canon_orc : option orc_data;  (* the oracle answers observed in the canonical drive *)
  c_timeout : bool;               (* the wall-clock guard fired *)
  c_runs : list run;
  c_views : list view
}.

(* no call raised, every call was answered (the histories of a case only address sub-edits that were listed in its
   first run: a missing one means the listings differ between runs), and the final cost and script are those of the
   canonical drive *)
Definition run_ok (h : history) (canon : edit) (r : run) : bool :=
  negb (existsb is_err (r_outs r)) && negb (existsb is_nosub (r_outs r)) &&
  Nat.eqb (length (r_outs r)) (length h) &&
  match r_final r with
  | Some e => (cost e =? cost canon) && script_eqb e canon &&
              (cost e =? zsum (flat_costs e))           (* the reported total is the sum of the leaves of the script *)
  | None => false
  end.

(* the final costs of the runs of one history under quiet and under non-quiet printers are the same number *)
Definition quiet_agree (rs : list run) : bool :=
  forallb (fun r1 => forallb (fun r2 =>
     match r_final r1, r_final r2 with
     | Some e1, Some e2 => cost e1 =? cost e2
     | _, _ => false
     end) rs) rs.

Definition view_ok (canon : edit) (w : view) : bool :=
  (v_flat_total w =? cost canon) && (v_edited_cost w =? cost canon).

Definition holds_C05 (c : case) : bool :=
  negb (c_timeout c) &&
  match c_canon c with
  | Some canon => forallb (run_ok (c_hist c) canon) (c_runs c) && quiet_agree (c_runs c) &&
                  (cost canon =? zsum (flat_costs canon)) && forallb (view_ok canon) (c_views c)
  | None => false
  end.

(* transport encoding of many histories on one pair: the scripts are sent once, in a table *)
Record prun := { pr_quiet : bool; pr_orc : option nat; pr_outs : list outcome; pr_final : option nat }.
Record pcase := {
  pc_a : tree; pc_b : tree;
  pc_scripts : list edit;
  pc_orcs : list orc_data;
  pc_canon : option nat;
  pc_canon_orc : option nat;
  pc_timeout : bool;
  pc_views : list view;
  pc_items : list (history * list prun)
}.
Definition lookup_script (tbl : list edit) (o : option nat) : option edit :=
  match o with Some i => nth_error tbl i | None => None end.
Definition lookup_orc (tbl : list orc_data) (o : option nat) : option orc_data :=
  match o with Some i => nth_error tbl i | None => None end.
Definition expand (pc : pcase) : list case :=
  map (fun it => {| c_a := pc_a pc; c_b := pc_b pc; c_hist := fst it;
                    c_canon := lookup_script (pc_scripts pc) (pc_canon pc);
                    c_canon_orc := lookup_orc (pc_orcs pc) (pc_canon_orc pc);
                    c_timeout := pc_timeout pc;
                    c_runs := map (fun r => {| r_quiet := pr_quiet r; r_orc := lookup_orc (pc_orcs pc) (pr_orc r);
                                               r_outs := pr_outs r;
                                               r_final := lookup_script (pc_scripts pc) (pr_final r) |}) (snd it);
                    c_views := pc_views pc |})
      (pc_items pc).
(* positions (within the case) of the histories on which the property fails *)
Definition bad_items (f : case -> bool) (pc : pcase) : list nat :=
  map fst (filter (fun c => negb (f (snd c))) (combine (seq 0 (length (pc_items pc))) (expand pc))).
Definition holds_pC05 (pc : pcase) : bool :=
  negb (pc_timeout pc) && match pc_canon pc with Some _ => true | None => false end && forallb holds_C05 (expand pc).

(* short names used by the harness when it writes histories and outcomes *)
Definition cB : call := ([], OBounds).
Definition cT : call := ([], OTighten).
Definition cC : call := ([], OIsComplete).
Definition cV : call := ([], OValid).
Definition cE : call := ([], OEdits).
Definition cH : call := ([], OHasNonZero).
Definition oT : outcome := RBool true.
Definition oF : outcome := RBool false.
Definition oR (x y : Z) : outcome := RRange (Fin x, Fin y).

(* ---------------------------------------------------------------- API machines
   The public protocol of one edit object as a state machine: every operation may change the state
   (EditDistance.bounds() finalises a completed matrix and frees it). *)
Record amachine := {
  ASt : Type;
  a_bnd : ASt -> ASt * zr;          (* bounds() *)
  a_tig : ASt -> ASt * bool;        (* tighten_bounds() *)
  a_cmp : ASt -> ASt * bool;        (* is_complete() *)
  a_eds : ASt -> ASt;               (* list(edits()) (the listing itself is read off the state) *)
  a_err : ASt -> bool;              (* an internal error has been raised *)
  a_mu : ASt -> nat                 (* a bound on the number of tighten_bounds() calls that can still return True *)
}.

Section Generic.
  Variable M : amachine.

  (* Edit.has_non_zero_cost (tree.py:100-108): while not bounds().definitive() and bounds().lower_bound <= 0 and
     tighten_bounds(): pass; return bounds().lower_bound > 0 *)
  Fixpoint g_hnz (fuel : nat) (s : ASt M) : ASt M * bool :=
    let p1 := a_bnd M s in
    let p2 := a_bnd M (fst p1) in
    if fst (snd p1) =? snd (snd p1) then (fst p2, 0 <? fst (snd p2))
    else
      let s2 := fst p2 in
      if fst (snd p2) <=? 0 then
        match fuel with
        | O => (s2, false)
        | S f => let t := a_tig M s2 in
                 if snd t then g_hnz f (fst t)
                 else let p3 := a_bnd M (fst t) in (fst p3, 0 <? fst (snd p3))
        end
      else let p3 := a_bnd M s2 in (fst p3, 0 <? fst (snd p3)).

  (* the state after one public call on the object *)
  Definition g_step (s : ASt M) (o : bop) : ASt M :=
    match o with
    | OBounds => fst (a_bnd M s)
    | OTighten => fst (a_tig M s)
    | OIsComplete => fst (a_cmp M s)
    | OValid => s
    | OEdits => a_eds M s
    | OHasNonZero => fst (g_hnz (S (a_mu M s)) s)
    end.

  Definition g_run (h : list bop) (s : ASt M) : ASt M := fold_left g_step h s.

  (* while edit.valid and not edit.is_complete() and edit.tighten_bounds(): pass *)
  Fixpoint g_idiom (fuel : nat) (s : ASt M) : ASt M :=
    let p := a_cmp M s in
    if snd p then fst p else
    match fuel with
    | O => fst p
    | S f => let t := a_tig M (fst p) in if snd t then g_idiom f (fst t) else fst t
    end.

  (* while not e.bounds().definitive() and e.tighten_bounds(): pass *)
  Fixpoint g_tighten_def (fuel : nat) (s : ASt M) : ASt M :=
    let p := a_bnd M s in
    if fst (snd p) =? snd (snd p) then fst p else
    match fuel with
    | O => fst p
    | S f => let t := a_tig M (fst p) in if snd t then g_tighten_def f (fst t) else fst t
    end.

  (* completion by the library's idiom, then the own cost as the serialiser reads it *)
  Definition g_final_cost (s : ASt M) : option Z :=
    let s0 := g_idiom (S (a_mu M s)) s in
    let s1 := g_tighten_def (S (a_mu M s0)) s0 in
    let p := a_bnd M s1 in
    if a_err M (fst p) then None else if fst (snd p) =? snd (snd p) then Some (fst (snd p)) else None.
End Generic.

(* The contract C05 needs of an edit with final value v: there is an invariant containing the state, closed under
   the operations in ANY order, on which no operation raises, the measure never grows and strictly shrinks on a
   tighten_bounds() that returns True, bounds() contains the final value and is idempotent, and tighten_bounds()
   returns False only where bounds() already was (v, v), after which bounds() is (v, v) and leaves the state unchanged. *)
Definition astep_ok (M : amachine) (Inv : ASt M -> Prop) (v : Z) (t : ASt M) : Prop :=
  a_err M t = false /\
  (let t' := fst (a_bnd M t) in let r := snd (a_bnd M t) in
   Inv t' /\ (a_mu M t' <= a_mu M t)%nat /\ fst r <= v <= snd r /\ a_bnd M t' = (t', r)) /\
  (let t' := fst (a_tig M t) in let b := snd (a_tig M t) in
   Inv t' /\ (b = true -> (a_mu M t' < a_mu M t)%nat) /\
   (b = false -> (a_mu M t' <= a_mu M t)%nat /\ a_bnd M t' = (t', (v, v)) /\ snd (a_bnd M t) = (v, v))) /\
  (let t' := fst (a_cmp M t) in Inv t' /\ (a_mu M t' <= a_mu M t)%nat) /\
  (let t' := a_eds M t in Inv t' /\ (a_mu M t' <= a_mu M t)%nat).

Definition AContract (M : amachine) (s : ASt M) (v : Z) : Prop :=
  exists Inv : ASt M -> Prop, Inv s /\ forall t, Inv t -> astep_ok M Inv v t.
