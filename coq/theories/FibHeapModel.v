(* Executable model of /repo/graphtage/fibonacci.py (FibonacciHeap, HeapNode; MaxFibonacciHeap through the
   reversed key order).  Structure-exact: sibling rings are lists starting at `_root` / `child` going `.right`.
   Definitions only.  The key order `lt` is a parameter (HeapNode.__lt__ / ReversedComparator.__lt__). *)
From Coq Require Import List Bool ZArith Lia.
Require Import GT.PyBase GT.FibHeapSpec.
Import ListNotations.
Open Scope Z_scope.

Section Model.
Variable lt : Z -> Z -> bool.

(* HeapNode.__lt__ : (self.deleted and not other.deleted) or self.key < other.key *)
Definition node_lt (a b : hnode) : bool := (ndel a && negb (ndel b)) || lt (nkey a) (nkey b).
(* HeapNode.__le__ : self < other or self.key == other.key *)
Definition node_le (a b : hnode) : bool := node_lt a b || Z.eqb (nkey a) (nkey b).

Definition set_mark (m : bool) (t : hnode) : hnode := HNode (nid t) (nkey t) m (ndel t) (nkids t).
Definition set_kids (ks : list hnode) (t : hnode) : hnode := HNode (nid t) (nkey t) (nmark t) (ndel t) ks.
Definition set_kd (k : Z) (d : bool) (t : hnode) : hnode := HNode (nid t) k (nmark t) d (nkids t).
Definition deg (t : hnode) : nat := length (nkids t).

(* _append_root / the ring insertion of add_child: right after the head; an empty ring becomes [x] *)
Definition ring_add (x : hnode) (l : list hnode) : list hnode :=
  match l with [] => [x] | r :: rest => r :: x :: rest end.

(* _link(y, x) minus the root removal: y becomes a child of x, y.mark = False *)
Definition add_child (y x : hnode) : hnode := set_kids (ring_add (set_mark false y) (nkids x)) x.

(* _remove_root / remove_child: removing the head moves the head to head.right, i.e. the tail of the list;
   removing any other node deletes it from the list *)
Fixpoint del (i : Z) (l : list hnode) : list hnode :=
  match l with [] => [] | r :: rest => if Z.eqb (nid r) i then rest else r :: del i rest end.

Fixpoint find_root (i : Z) (l : list hnode) : option hnode :=
  match l with [] => None | r :: rest => if Z.eqb (nid r) i then Some r else find_root i rest end.

(* locate a node by id anywhere *)
Fixpoint find_node (i : Z) (t : hnode) : option hnode :=
  match t with HNode j _ _ _ ks => if Z.eqb j i then Some t else first_some (map (find_node i) ks) end.
Definition find_forest (i : Z) (l : list hnode) : option hnode := first_some (map (find_node i) l).

(* ---- _consolidate ----
   The snapshot of the root ring is processed left to right.  While root x is being placed, the ring is
   pre ++ x :: post where pre ++ post are exactly the roots currently held in the degree table `a`
   (so `a[d]` is the root of degree d among them; degrees in the table are distinct), followed by the
   not yet visited roots (kept outside).  Each iteration of the inner `while` removes one root. *)
Fixpoint split_deg (d : nat) (l : list hnode) : option (list hnode * hnode * list hnode) :=
  match l with
  | [] => None
  | y :: r => if Nat.eqb (deg y) d then Some ([], y, r)
              else match split_deg d r with Some (a, z, b) => Some (y :: a, z, b) | None => None end
  end.

(* None = out of fuel (shown unreachable: cons_loop_fuel) *)
Fixpoint cons_loop (fuel : nat) (pre : list hnode) (x : hnode) (post : list hnode) : option (list hnode) :=
  match fuel with
  | O => None
  | S f =>
      match split_deg (deg x) pre with
      | Some (a, y, b) => if node_lt y x then cons_loop f a (add_child x y) (b ++ post)
                          else cons_loop f (a ++ b) (add_child y x) post
      | None =>
          match split_deg (deg x) post with
          | Some (a, y, b) => if node_lt y x then cons_loop f (pre ++ a) (add_child x y) b
                              else cons_loop f pre (add_child y x) (a ++ b)
          | None => Some (pre ++ x :: post)
          end
      end
  end.

Fixpoint cons_fold (acc : list hnode) (todo : list hnode) : option (list hnode) :=
  match todo with
  | [] => Some acc
  | x :: rest => match cons_loop (S (length acc)) acc x [] with
                 | Some acc' => cons_fold acc' rest
                 | None => None end
  end.

(* the final scan `for i in range(len(a))`: table order = by degree *)
Fixpoint ins_deg (x : hnode) (l : list hnode) : list hnode :=
  match l with [] => [x] | y :: r => if Nat.leb (deg x) (deg y) then x :: l else y :: ins_deg x r end.
Definition sort_deg (l : list hnode) : list hnode := fold_right ins_deg [] l.
Definition scan_min (l : list hnode) (m : hnode) : hnode :=
  fold_left (fun m r => if node_le r m then r else m) l m.

(* ---- _extract_min ---- *)
Definition splice (rs ks : list hnode) : list hnode := fold_left (fun l c => ring_add c l) ks rs.

(* z.right in the ring l (first = head of the ring) *)
Fixpoint next_after (z : Z) (first : hnode) (l : list hnode) : option hnode :=
  match l with
  | [] => None
  | r :: rest => if Z.eqb (nid r) z then Some (match rest with [] => first | s :: _ => s end)
                 else next_after z first rest
  end.

Inductive xres := XEmpty | XOk (z : hnode) (h : heap) | XErr.

Definition extract_min (h : heap) : xres :=
  match minp h with
  | None => XEmpty
  | Some z =>
      match find_root z (roots h) with
      | None => XErr                                  (* _min is not a root: unreachable under Inv *)
      | Some zn =>
          let l1 := splice (roots h) (nkids zn) in
          match l1 with
          | [] => XErr
          | f :: _ =>
              match next_after z f l1 with
              | None => XErr
              | Some nx =>
                  match del z l1 with
                  | [] => XOk zn {| roots := []; minp := None; hn := hn h - 1 |}
                  | l2 => match cons_fold [] l2 with
                          | None => XErr
                          | Some l3 => XOk zn {| roots := l3; minp := Some (nid (scan_min (sort_deg l3) nx));
                                                hn := hn h - 1 |}
                          end
                  end
              end
          end
      end
  end.

(* ---- _cut / _cascading_cut ----
   `upd` is what the caller did to node x before looking at its parent (new key, or deleted := True).
   cut_node x upd t searches x strictly below t.
     CDone t' cuts : found; t' is t afterwards, `cuts` the nodes handed to _append_root, in that order;
     CCasc t' cuts : same, and t' has just lost a child: _cascading_cut(t') is still to be decided by
                     whoever is t's parent (mark it, or cut it and go on). *)
Inductive cres := CNot | CDone (t : hnode) (cuts : list hnode) | CCasc (t : hnode) (cuts : list hnode).
Inductive kres := KNot | KDone (ks : list hnode) (cuts : list hnode) | KCasc (ks : list hnode) (cuts : list hnode).

Section Cut.
Variable x : Z.
Variable upd : hnode -> hnode.

Fixpoint cut_node (t : hnode) : cres :=
  match t with
  | HNode i k m d ks =>
      match (fix go (ks : list hnode) : kres :=
               match ks with
               | [] => KNot
               | c :: r =>
                   if Z.eqb (nid c) x then
                     let c' := upd c in
                     if node_lt c' t then KCasc r [set_mark false c']       (* _cut(x, y) *)
                     else KDone (c' :: r) []
                   else
                     match cut_node c with
                     | CNot => match go r with
                               | KNot => KNot
                               | KDone r' cu => KDone (c :: r') cu
                               | KCasc r' cu => KCasc (c :: r') cu end
                     | CDone c' cu => KDone (c' :: r) cu
                     | CCasc c' cu =>                                       (* _cascading_cut(c'), parent t *)
                         if nmark c' then KCasc r (cu ++ [set_mark false c'])
                         else KDone (set_mark true c' :: r) cu
                     end
               end) ks with
      | KNot => CNot
      | KDone ks' cu => CDone (HNode i k m d ks') cu
      | KCasc ks' cu => CCasc (HNode i k m d ks') cu
      end
  end.

(* over the root ring: a root has no parent, so x itself is only updated and a cascade stops *)
Fixpoint cut_roots (rs : list hnode) : option (list hnode * list hnode) :=
  match rs with
  | [] => None
  | r :: rest =>
      if Z.eqb (nid r) x then Some (upd r :: rest, [])
      else match cut_node r with
           | CNot => match cut_roots rest with
                     | None => None
                     | Some (rest', cu) => Some (r :: rest', cu) end
           | CDone r' cu | CCasc r' cu => Some (r' :: rest, cu)
           end
  end.
End Cut.

(* ---- public operations ---- *)
Definition empty : heap := {| roots := []; minp := None; hn := 0 |}.

(* result of an operation: new heap, return value, internal-error flag (shown unreachable) *)
Definition res := (heap * ret * bool)%type.

Definition push (i k : Z) (h : heap) : res :=
  let node := HNode i k false false [] in
  let rs := ring_add node (roots h) in
  match minp h with
  | None => ({| roots := rs; minp := Some i; hn := hn h + 1 |}, RItem i k, false)
  | Some m =>
      match find_forest m (roots h) with
      | None => (h, RNone, true)
      | Some mn => ({| roots := rs; minp := Some (if node_lt node mn then i else m); hn := hn h + 1 |},
                    RItem i k, false)
      end
  end.

(* while self._min is not None and self._min.deleted: self._extract_min() *)
Fixpoint drop_deleted (fuel : nat) (h : heap) : heap * bool :=
  match fuel with
  | O => (h, true)
  | S f =>
      match minp h with
      | None => (h, false)
      | Some m =>
          match find_forest m (roots h) with
          | None => (h, true)
          | Some mn => if ndel mn then
                         match extract_min h with XOk _ h' => drop_deleted f h' | _ => (h, true) end
                       else (h, false)
          end
      end
  end.

Definition peek (h : heap) : res :=
  match drop_deleted (S (Z.to_nat (hn h))) h with
  | (h', e) =>
      match minp h' with
      | None => (h', RExc AttributeError, e)                (* None.item *)
      | Some m => match find_forest m (roots h') with
                  | Some mn => (h', RItem m (nkey mn), e)
                  | None => (h', RNone, true) end
      end
  end.

Definition pop (h : heap) : res :=
  match drop_deleted (S (Z.to_nat (hn h))) h with
  | (h', e) =>
      match extract_min h' with
      | XEmpty => (h', RExc AttributeError, e)              (* None.item *)
      | XOk z h'' => (h'', RItem (nid z) (nkey z), e)
      | XErr => (h', RNone, true)
      end
  end.

Definition decrease_key (x k : Z) (h : heap) : res :=
  match find_forest x (roots h) with
  | None => (h, RNone, false)                               (* not a member: outside the domain, no-op *)
  | Some xn =>
      if lt (nkey xn) k then (h, RExc ValueError, false)
      else
        match cut_roots x (set_kd k (ndel xn)) (roots h), minp h with
        | Some (rs, cuts), Some m =>
            let rs2 := splice rs cuts in
            match find_forest m rs2 with
            | Some mn => ({| roots := rs2; minp := Some (if node_lt (set_kd k (ndel xn) xn) mn then x else m);
                             hn := hn h |}, RNone, false)
            | None => (h, RNone, true) end
        | _, _ => (h, RNone, true)
        end
  end.

Definition remove (x : Z) (h : heap) : res :=
  match find_forest x (roots h) with
  | None => (h, RNone, false)                               (* not a member: outside the domain, no-op *)
  | Some xn =>
      match cut_roots x (set_kd (nkey xn) true) (roots h) with
      | Some (rs, cuts) =>
          match extract_min {| roots := splice rs cuts; minp := Some x; hn := hn h |} with
          | XOk _ h' => (h', RNone, false)
          | _ => (h, RNone, true) end
      | None => (h, RNone, true)
      end
  end.

(* ---- histories ---- *)
Record mstate := { sh : heap; snext : Z; serr : bool }.
Definition init : mstate := {| sh := empty; snext := 0; serr := false |}.

Definition apply_op (o : op) (s : mstate) : res * Z :=
  match o with
  | Push k => (push (snext s) k (sh s), snext s + 1)
  | Pop => (pop (sh s), snext s)
  | Peek => (peek (sh s), snext s)
  | DecreaseKey i k => (decrease_key i k (sh s), snext s)
  | Remove i => (remove i (sh s), snext s)
  end.

Definition step (s : mstate) (o : op) : mstate :=
  match apply_op o s with
  | ((h, _, e), nx) => {| sh := h; snext := nx; serr := serr s || e |} end.
Definition step_ret (s : mstate) (o : op) : ret := match apply_op o s with ((_, r, _), _) => r end.

Definition run (ops : list op) : mstate := fold_left step ops init.

(* ---- smallest / largest (utils.py) ----
   `if isinstance(sequence, AbstractSized) and len(sequence) <= n: yield from sequence`, else push everything
   and `for _ in range(n): if not heap: break; yield heap.pop()`.  Items are (key, id), id = position. *)
Fixpoint pop_n (n : nat) (h : heap) : list (Z * Z) :=
  match n with
  | O => []
  | S n' => if Z.leb (hn h) 0 then []
            else match pop h with
                 | (h', RItem i k, _) => (k, i) :: pop_n n' h'
                 | _ => []                  (* unreachable: small_model_spec fixes the length *)
                 end
  end.

Definition small_model (keys : list Z) (n : Z) : list (Z * Z) :=
  if Z.leb (Z.of_nat (length keys)) n then kitems 0 keys
  else pop_n (Z.to_nat n) (sh (run (map Push keys))).

End Model.

(* ---- correspondence: the model replay reproduces every dump exactly ---- *)
Fixpoint hnode_eqb (a b : hnode) : bool :=
  match a, b with
  | HNode i k m d ks, HNode i' k' m' d' ks' =>
      Z.eqb i i' && Z.eqb k k' && Bool.eqb m m' && Bool.eqb d d' &&
      (fix go (l l' : list hnode) : bool :=
         match l, l' with
         | [], [] => true
         | u :: r, v :: r' => hnode_eqb u v && go r r'
         | _, _ => false end) ks ks'
  end.
Fixpoint list_eqb {A} (e : A -> A -> bool) (l l' : list A) : bool :=
  match l, l' with [], [] => true | u :: r, v :: r' => e u v && list_eqb e r r' | _, _ => false end.
Definition oz_eqb (a b : option Z) : bool :=
  match a, b with Some u, Some v => Z.eqb u v | None, None => true | _, _ => false end.
Definition heap_eqb (a b : heap) : bool :=
  list_eqb hnode_eqb (roots a) (roots b) && oz_eqb (minp a) (minp b) && Z.eqb (hn a) (hn b).
Definition exc_eqb (a b : exc) : bool :=
  match a, b with ValueError, ValueError | AttributeError, AttributeError | OtherExc, OtherExc => true
  | _, _ => false end.
Definition ret_eqb (a b : ret) : bool :=
  match a, b with
  | RNone, RNone => true
  | RItem i k, RItem i' k' => Z.eqb i i' && Z.eqb k k'
  | RExc e, RExc e' => exc_eqb e e'
  | _, _ => false end.

(* per node in pre-order: (id, degree = number of children, parent id) *)
Fixpoint aux_of (p : option Z) (t : hnode) : list (Z * Z * option Z) :=
  match t with
  | HNode i _ _ _ ks => (i, Z.of_nat (length ks), p) :: flat_map (aux_of (Some i)) ks end.
Definition aux_eqb (a b : Z * Z * option Z) : bool :=
  match a, b with (i, d, p), (i', d', p') => Z.eqb i i' && Z.eqb d d' && oz_eqb p p' end.

Fixpoint corr_run (lt : Z -> Z -> bool) (s : mstate) (h : list (op * obs)) : bool :=
  match h with
  | [] => true
  | (o, ob) :: rest =>
      let s' := step lt s o in
      negb (serr s') &&
      ret_eqb (step_ret lt s o) (o_ret ob) &&
      heap_eqb (sh s') (o_heap ob) &&
      Z.eqb (hn (sh s')) (o_len ob) &&
      list_eqb aux_eqb (flat_map (aux_of None) (roots (sh s'))) (o_aux ob) &&
      corr_run lt s' rest
  end.

Definition corr_C16 (c : case) : bool := corr_run (key_lt (c_max c)) init (c_ops c).

(* the model's state after the first disagreeing step (diagnostics only) *)
Fixpoint first_bad (lt : Z -> Z -> bool) (s : mstate) (n : nat) (h : list (op * obs)) : option (nat * mstate * ret) :=
  match h with
  | [] => None
  | (o, ob) :: rest =>
      if corr_run lt s [(o, ob)] then first_bad lt (step lt s o) (S n) rest
      else Some (n, step lt s o, step_ret lt s o)
  end.

Definition corr_C16s (c : scase) : bool :=
  list_eqb pair_eqb (s_out c) (small_model (key_lt (s_max c)) (s_keys c) (s_n c)).

(* the case the model itself produces for a history: its own return values, lengths and dumps *)
Fixpoint model_obs (lt : Z -> Z -> bool) (s : mstate) (ops : list op) : list (op * obs) :=
  match ops with
  | [] => []
  | o :: rest =>
      let s' := step lt s o in
      (o, {| o_ret := step_ret lt s o; o_len := hn (sh s'); o_heap := sh s';
             o_aux := flat_map (aux_of None) (roots (sh s')) |}) :: model_obs lt s' rest
  end.
Definition model_case (mx : bool) (ops : list op) : case :=
  {| c_max := mx; c_ops := model_obs (key_lt mx) init ops |}.
