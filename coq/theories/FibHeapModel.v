(* Executable model of /repo/graphtage/fibonacci.py (FibonacciHeap, HeapNode; MaxFibonacciHeap through the
   reversed key order).  Structure-exact: sibling rings are lists starting at `_root` / `child` going `.right`.
   Definitions only.  The key order `lt` is a parameter (HeapNode.__lt__ / ReversedComparator.__lt__). *)
From Coq Require Import List Bool ZArith Lia.
Require Import GT.PyBase GT.FibHeapSpec.
Import ListNotations.
Open Scope Z_scope.

Section Model.
Variable lt : Z -> Z -> bool.

(* HeapNode.__lt__ : (self.deleted and not other.deleted) or self.key < other.key *)
Definition node_lt (a b : hnode) : bool := (ndel a && negb (ndel b)) || lt (nkey a) (nkey b).
(* HeapNode.__le__ : self < other or self.key == other.key *)
Definition node_le (a b : hnode) : bool := node_lt a b || Z.eqb (nkey a) (nkey b).

Definition set_mark (m : bool) (t : hnode) : hnode := HNode (nid t) (nkey t) m (ndel t) (nkids t).
Definition set_kids (ks : list hnode) (t : hnode) : hnode := HNode (nid t) (nkey t) (nmark t) (ndel t) ks.
Definition set_kd (k : Z) (d : bool) (t : hnode) : hnode := HNode (nid t) k (nmark t) d (nkids t).
Definition deg (t : hnode) : nat := length (nkids t).

(* _append_root / the ring insertion of add_child: right after the head; an empty ring becomes [x] *)
Definition ring_add (x : hnode) (l : list hnode) : list hnode :=
  match l with [] => [x] | r :: rest => r :: x :: rest end.

(* _link(y, x) minus the root removal: y becomes a child of x, y.mark = False *)
Definition add_child (y x : hnode) : hnode := set_kids (ring_add (set_mark false y) (nkids x)) x.

(* _remove_root / remove_child: removing the head moves the head to head.right, i.e. the tail of the list;
   removing any other node deletes it from the list *)
Fixpoint del (i : Z) (l : list hnode) : list hnode :=
  match l with [] => [] | r :: rest => if Z.eqb (nid r) i then rest else r :: del i rest end.

Fixpoint find_root (i : Z) (l : list hnode) : option hnode :=
  match l with [] => None | r :: rest => if Z.eqb (nid r) i then Some r else find_root i rest end.

(* locate a node by id anywhere *)
Fixpoint find_node (i : Z) (t : hnode) : option hnode :=
  match t with HNode j _ _ _ ks => if Z.eqb j i then Some t else first_some (map (find_node i) ks) end.
Definition find_forest (i : Z) (l : list hnode) : option hnode := first_some (map (find_node i) l).

(* ---- _consolidate ----
   The snapshot of the root ring is processed left to right.  While root x is being placed, the ring is
   pre ++ x :: post where pre ++ post are exactly the roots currently held in the degree table `a`
   (so `a[d]` is the root of degree d among them; degrees in the table are distinct), followed by the
   not yet visited roots (kept outside).  Each iteration of the inner `while` removes one root. *)
Fixpoint split_deg (d : nat) (l : list hnode) : option (list hnode * hnode * list hnode) :=
  match l with
  | [] => None
  | y :: r => if Nat.eqb (deg y) d then Some ([], y, r)
              else match split_deg d r with Some (a, z, b) => Some (y :: a, z, b) | None => None end
  end.

(* None = out of fuel (shown unreachable: cons_loop_fuel) *)
Fixpoint cons_loop (fuel : nat) (pre : list hnode) (x : hnode) (post : list hnode) : option (list hnode) :=
  match fuel with
  | O => None
  | S f =>
      match split_deg (deg x) pre with
      | Some (a, y, b) => if node_lt y x then cons_loop f a (add_child x y) (b ++ post)
                          else cons_loop f (a ++ b) (add_child y x) post
      | None =>
          match split_deg (deg x) post with
          | Some (a, y, b) => if node_lt y x then cons_loop f (pre ++ a) (add_child x y) b
                              else cons_loop f pre (add_child y x) (a ++ b)
          | None => Some (pre ++ x :: post)
          end
      end
  end.

Fixpoint cons_fold (acc : list hnode) (todo : list hnode) : option (list hnode) :=
  match todo with
  | [] => Some acc
  | x :: rest => match cons_loop (S (length acc)) acc x [] with
                 | Some acc' => cons_fold acc' rest
                 | None => None end
  end.

(* the final scan `for i in range(len(a))`: table order = by degree *)
Fixpoint ins_deg (x : hnode) (l : list hnode) : list hnode :=
  match l with [] => [x] | y :: r => if Nat.leb (deg x) (deg y) then x :: l else y :: ins_deg x r end.
Definition sort_deg (l : list hnode) : list hnode := fold_right ins_deg [] l.
Definition scan_min (l : list hnode) (m : hnode) : hnode :=
  fold_left (fun m r => if node_le r m then r else m) l m.

(* ---- _extract_min ---- *)
Definition splice (rs ks : list hnode) : list hnode := fold_left (fun l c => ring_add c l) ks rs.

(* z.right in the ring l (first = head of the ring) *)
Fixpoint next_after (z : Z) (first : hnode) (l : list hnode) : option hnode :=
  match l with
  | [] => None
  | r :: rest => if Z.eqb (nid r) z then Some (match rest with [] => first | s :: _ => s end)
                 else next_after z first rest
  end.

Inductive xres := XEmpty | XOk (z : hnode) (h : heap) | XErr.

Definition extract_min (h : heap) : xres :=
  match minp h with
  | None => XEmpty
  | Some z =>
      match find_root z (roots h) with
      | None => XErr                                  (* _min is not a root: unreachable under Inv *)
      | Some zn =>
          let l1 := splice (roots h) (nkids zn) in
          match l1 with
          | [] => XErr
          | f :: _ =>
              match next_after z f l1 with
              | None => XErr
              | Some nx =>
                  match del z l1 with
                  | [] => XOk zn {| roots := []; minp := None; hn := hn h - 1 |}
                  | l2 => match cons_fold [] l2 with
                          | None => XErr
                          | Some l3 => XOk zn {| roots := l3; minp := Some (nid (scan_min (sort_deg l3) nx));
                                                hn := hn h - 1 |}
                          end
                  end
              end
          end
      end
  end.
