(* C06 for the MODEL's own scripts (ScriptModel.script): the hypotheses of the script-level theorems of RenderProofs.v
   (valid, additive, priced, shaped) are theorems about the model, so that only the classes of the open findings
   remain as hypotheses: D4 (EqualSpec.typed), D16 (EqualSpec.nozero), D33 (RenderProofs.clean). *)
From Coq Require Import ZArith List Bool Lia Permutation.
Require Import GT.PyBase GT.Data GT.ScriptSpec GT.EdEngine GT.LevModel GT.LevProofs GT.EdTypes GTgen.EdGen GT.EdParams
               GT.ScriptModel GT.ListAux GT.KeyEq GT.EdFacts GT.EdEngineProofs GT.ScriptProofs GT.MSetProofs GT.CostProofs
               GT.RestrictProofs GT.EqualSpec GT.ScriptKnown GT.EqualProofs.
Require Import GT.JsonSpec GT.JsonModel GT.RenderSpec GT.RenderModel GT.RenderProofs.
Import ListNotations.
Open Scope Z_scope.

(* ------------------------------------------------------------------ the model's scripts are `shaped` *)
Definition Sp (x y : tree) (e : edit) : Prop := shaped x y e = true.
Lemma Sp_match0 : forall x y, Sp x y (EMatch 0). Proof. reflexivity. Qed.

Lemma shaped_comp : forall a b k c subs,
  (if is_seq_kind k then true else match subs with [SPair _ _ _; SPair _ _ _] => true | _ => false end) = true ->
  Forall (sub_ok Sp a b) subs -> shaped a b (EComp k c subs) = true.
Proof.
  intros a b k c subs Htop H. cbn [shaped]. rewrite Htop. cbn [andb]. clear Htop.
  induction H as [|s ss Hs _ IH]; [reflexivity|].
  destruct s as [i j e|i c'|j c']; try exact IH.
  destruct Hs as [x [y [Hx [Hy Hv]]]]. rewrite Hx, Hy. unfold Sp in Hv. rewrite Hv. exact IH.
Qed.

Theorem script_shaped : forall a, Pgen Sp a.
Proof.
  apply tree_rect'.
  - intros x O pa pb b e _ _ H. cbn in H. unfold Sp. unfold leaf_script in H.
    destruct (lk x) eqn:Ex; destruct b as [y| | | |]; try (inversion H; subst; reflexivity);
      try (destruct (lk y) eqn:Ey; inversion H; subst; reflexivity).
    destruct (lk y) eqn:Ey; try (inversion H; subst; reflexivity).
    destruct (str_eqb _ _); [inversion H; subst; reflexivity|].
    destruct (_ && _); [inversion H; subst; reflexivity|].
    destruct (str_script _ _). inversion H; subst. cbn. rewrite Ex, Ey. reflexivity.
  - intros ale alsl cs IH O pa pb b e Hwa Hwb H. unfold Sp. cbn [script] in H.
    destruct b as [y|ale' alsl' ds|? ? ?|? ?|?];
      try (rewrite list_dispatch_not_list in H; inversion H; subst; reflexivity).
    fold (sub_matrix O pa pb cs ds) in H.
    destruct (list_dispatch_gen _ _ _ _ _ _ _ _) as [| |penalty|] eqn:Ed; try (inversion H; subst; reflexivity).
    + destruct (fixed_len_subs cs ds _) as [subs|] eqn:Ef; [|discriminate]. inversion H; subst e.
      apply shaped_comp; [reflexivity|eapply (fixed_len_subs_ok Sp); eauto].
    + assert (He : exists c subs, e = EComp KEditDist c subs).
      { destruct (trim node_eqb cs ds) as [p q] eqn:Et. rewrite (edit_dist_script_unfold _ _ _ _ _ _ Et) in H.
        cbv zeta in H. destruct (ed_costs _); [|discriminate]. inversion H. eauto. }
      destruct He as [c [subs ->]].
      apply shaped_comp; [reflexivity|eapply (edit_dist_subs_ok Sp Sp_match0); eauto].
  - intros ake k v IHk IHv O pa pb b e Hwa Hwb H. unfold Sp. cbn [script] in H.
    destruct b as [y|? ? ?|ake' k' v'|? ?|?]; try discriminate.
    destruct (ake || node_eqb k k'); [|inversion H; subst; reflexivity].
    cbn in Hwa, Hwb.
    apply andb_prop in Hwa as [Hwa Hwv]. apply andb_prop in Hwa as [Hwa _]. apply andb_prop in Hwa as [_ Hwk].
    apply andb_prop in Hwb as [Hwb Hwv']. apply andb_prop in Hwb as [Hwb _]. apply andb_prop in Hwb as [_ Hwk'].
    assert (Hke : forall e1, (if node_eqb k k' then OK (EMatch 0) else script O (pa ++ [0%nat]) (pb ++ [0%nat]) k k') = OK e1 ->
                  shaped k k' e1 = true).
    { intros e1 He. destruct (node_eqb k k'); [inversion He; reflexivity|]. eapply IHk; eauto. }
    assert (Hve : forall e2, (if node_eqb v v' then OK (EMatch 0) else script O (pa ++ [1%nat]) (pb ++ [1%nat]) v v') = OK e2 ->
                  shaped v v' e2 = true).
    { intros e2 He. destruct (node_eqb v v'); [inversion He; reflexivity|]. eapply IHv; eauto. }
    destruct (if node_eqb k k' then _ else _) as [e1|x1]; [|destruct (if node_eqb v v' then _ else _); discriminate].
    destruct (if node_eqb v v' then _ else _) as [e2|x2]; [|discriminate].
    inversion H; subst e. cbn. rewrite (Hke e1 eq_refl), (Hve e2 eq_refl). reflexivity.
  - intros amk cs IH O pa pb b e Hwa Hwb H. unfold Sp. cbn [script] in H.
    destruct b as [y|? ? ?|? ? ?|amk' ds|?]; try (inversion H; subst; reflexivity).
    destruct ((match cs, ds with [], [] => true | _, _ => false end) || node_eqb (MSet amk cs) (MSet amk' ds));
      [inversion H; subst; reflexivity|].
    assert (He : exists c subs, e = EComp KMultiSet c subs).
    { rewrite multiset_script_unfold in H. destruct (ms_matching _ _ _ _ _ _); [|destruct (lookup _ _ _); discriminate].
      destruct (all_some _); [|discriminate]. destruct (all_some _); [|discriminate]. inversion H. eauto. }
    destruct He as [c [subs ->]].
    apply shaped_comp; [reflexivity|eapply (multiset_subs_ok Sp Sp_match0); eauto].
  - intros cs IH O pa pb b e Hwa Hwb H. unfold Sp. cbn [script] in H.
    destruct b as [y|? ? ?|? ? ?|? ?|ds]; try (inversion H; subst; reflexivity); try discriminate.
    destruct ((match cs, ds with [], [] => true | _, _ => false end) || _); [inversion H; subst; reflexivity|].
    assert (He : exists c subs, e = EComp KFixedDict c subs).
    { rewrite fixed_dict_script_unfold in H. destruct (fd_order _ _ _ _ _); [|destruct (lookup _ _ _); discriminate].
      destruct (all_some _); [|discriminate]. cbv zeta in H. destruct (_ <=? _); [|discriminate]. inversion H. eauto. }
    destruct He as [c [subs ->]].
    apply shaped_comp; [reflexivity|eapply (fixed_dict_subs_ok Sp Sp_match0); eauto].
Qed.

(* ------------------------------------------------------------------ C06 for the model *)

(* both documents read back from the rendering of the model's script; carve-outs: D4 (typed), D33 (clean) *)
Theorem C06_model_text_all : forall O pa pb lay a b e,
  wf a = true -> wf b = true -> jdoc a -> jdoc b -> script O pa pb a b = OK e ->
  typed a b = true -> clean false a e = true ->
  reads_as (erase Inserted (jrender lay a b e)) a = true /\
  reads_as (erase Removed (jrender lay a b e)) b = true.
Proof.
  intros O pa pb lay a b e Hwa Hwb Da Db H Ht Hc.
  apply C06_priced_text_all; auto.
  - exact (script_valid a O pa pb b e Hwa Hwb H).
  - exact (script_priced a O pa pb b e Hwa Hwb H).
  - exact (script_shaped a O pa pb b e Hwa Hwb H).
Qed.

(* no change marks exactly at cost 0; carve-out: D16 (nozero) *)
Theorem C06_model_marks_all : forall O pa pb lay a b e,
  wf a = true -> wf b = true -> jdoc a -> jdoc b -> numtext_ok a = true -> numtext_ok b = true ->
  script O pa pb a b = OK e -> nozero a = true -> nozero b = true ->
  (no_marks (jrender lay a b e) = true <-> cost e = 0).
Proof.
  intros O pa pb lay a b e Hwa Hwb Da Db Hna Hnb H Hza Hzb.
  apply C06_priced_marks_all; auto.
  - exact (script_valid a O pa pb b e Hwa Hwb H).
  - exact (script_additive a O pa pb b e H).
  - exact (script_priced a O pa pb b e Hwa Hwb H).
  - exact (script_shaped a O pa pb b e Hwa Hwb H).
Qed.

Theorem C06_model_all : forall O pa pb lay a b e,
  wf a = true -> wf b = true -> jdoc a -> jdoc b -> numtext_ok a = true -> numtext_ok b = true ->
  script O pa pb a b = OK e ->
  typed a b = true (* D4 *) -> nozero a = true -> nozero b = true (* D16 *) -> clean false a e = true (* D33 *) ->
  reads_as (erase Inserted (jrender lay a b e)) a = true /\
  reads_as (erase Removed (jrender lay a b e)) b = true /\
  (no_marks (jrender lay a b e) = true <-> cost e = 0).
Proof.
  intros O pa pb lay a b e Hwa Hwb Da Db Hna Hnb H Ht Hza Hzb Hc.
  destruct (C06_model_text_all O pa pb lay a b e Hwa Hwb Da Db H Ht Hc) as [H1 H2].
  split; [exact H1|]. split; [exact H2|]. eapply C06_model_marks_all; eauto.
Qed.

(* the same with every carve-out stated on the documents: no mapping is an element of a list of the first document
   (nomil; then no script can show the D33 shape) *)
Theorem C06_model_docs_all : forall O pa pb lay a b e,
  wf a = true -> wf b = true -> jdoc a -> jdoc b -> numtext_ok a = true -> numtext_ok b = true ->
  script O pa pb a b = OK e ->
  typed a b = true (* D4 *) -> nozero a = true -> nozero b = true (* D16 *) -> nomil a = true (* D33 *) ->
  reads_as (erase Inserted (jrender lay a b e)) a = true /\
  reads_as (erase Removed (jrender lay a b e)) b = true /\
  (no_marks (jrender lay a b e) = true <-> cost e = 0).
Proof.
  intros O pa pb lay a b e Hwa Hwb Da Db Hna Hnb H Ht Hza Hzb Hn.
  apply (C06_model_all O pa pb); auto. apply nomil_clean; [exact Hn|discriminate].
Qed.

(* the executable statement of the property (RenderSpec.holds_C06, the boolean the harness evaluates on the
   implementation's output) is true of the model's output *)
Theorem C06_model_holds_all : forall O pa pb lay a b e ft ec obs,
  wf a = true -> wf b = true -> jdoc a -> jdoc b -> numtext_ok a = true -> numtext_ok b = true -> consistent a b = true ->
  script O pa pb a b = OK e ->
  typed a b = true -> nozero a = true -> nozero b = true -> clean false a e = true ->
  classify obs = Some (jrender lay a b e) ->
  holds_C06 {| rc_lay := lay;
               rc_script := {| sc_a := a; sc_b := b; sc_edit := e; sc_flat_total := ft; sc_edited_cost := ec |};
               rc_obs := obs |} = true.
Proof.
  intros O pa pb lay a b e ft ec obs Hwa Hwb Da Db Hna Hnb Hcons H Ht Hza Hzb Hc Hobs.
  destruct (C06_model_all O pa pb lay a b e Hwa Hwb Da Db Hna Hnb H Ht Hza Hzb Hc) as [H1 [H2 H3]].
  pose proof (script_zero_iff O pa pb a b e Hwa Hwb Hna Hnb Hcons Ht Hza Hzb H) as Hz.
  unfold holds_C06. cbn [rc_obs rc_script sc_a sc_b]. rewrite Hobs, H1, H2. cbn [andb].
  apply Bool.eqb_true_iff.
  destruct (no_marks (jrender lay a b e)), (data_eqb a b); try reflexivity.
  - symmetry. apply Hz. apply H3. reflexivity.
  - apply H3. apply Hz. reflexivity.
Qed.

(* ------------------------------------------------------------------ the carve-outs are necessary: the open findings,
   on the model's own scripts *)
Definition hyps_C06 (a b : tree) : bool :=
  wf a && wf b && jshape a && negb (is_kvp a) && json_domainb (value_of a) &&
  jshape b && negb (is_kvp b) && json_domainb (value_of b) && numtext_ok a && numtext_ok b && consistent a b.

(* D4: [1] vs [1.0] *)
Theorem C06_model_refuted_D4 : exists a b e,
  hyps_C06 a b = true /\ script no_oracle [] [] a b = OK e /\ nozero a = true /\ nozero b = true /\
  clean false a e = true /\ typed a b = false /\
  reads_as (erase Removed (jrender (true, true) a b e)) b = false.
Proof.
  exists (Lst true true [mk_leaf KInt [49] 1]), (Lst true true [mk_leaf KFloat [49; 46; 48] 1]), (EMatch 0).
  vm_compute. repeat split; reflexivity.
Qed.

(* D16: ["", 1] vs [1] *)
Theorem C06_model_refuted_D16 : exists a b e,
  hyps_C06 a b = true /\ script no_oracle [] [] a b = OK e /\ typed a b = true /\ clean false a e = true /\
  nozero a = false /\ cost e = 0 /\ no_marks (jrender (true, true) a b e) = false.
Proof.
  exists (Lst true true [mk_leaf KStr [] 0; mk_leaf KInt [49] 1]), (Lst true true [mk_leaf KInt [49] 1]),
         (EComp KEditDist 0 [SRem 0 0; SPair 1 0 (EMatch 0)]).
  vm_compute. repeat split; reflexivity.
Qed.

(* D33: [{}] vs [5] *)
Theorem C06_model_refuted_D33 : exists a b e,
  hyps_C06 a b = true /\ script no_oracle [] [] a b = OK e /\ typed a b = true /\ nozero a = true /\ nozero b = true /\
  clean false a e = false /\
  reads_as (erase Inserted (jrender (true, true) a b e)) a = false /\
  reads_as (erase Removed (jrender (true, true) a b e)) b = false.
Proof.
  exists (Lst true true [MSet true []]), (Lst true true [mk_leaf KInt [53] 5]), (EComp KFixedLen 2 [SPair 0 0 (EReplace 2)]).
  vm_compute. repeat split; reflexivity.
Qed.

(* the hypotheses are satisfiable by non-trivial documents: {"a": [1, "x"], "b": null} against
   {"b": null, "a": [1, "y"]} - a mapping edit with reordered members and a string edit *)
Definition ex_script : edit :=
  EComp KMultiSet 2
    [SPair 0 1 (EComp KKvp 2 [SPair 0 0 (EMatch 0);
                              SPair 1 1 (EComp KEditDist 2 [SPair 0 0 (EMatch 0); SIns 1 1; SRem 1 1])]);
     SPair 1 0 (EComp KKvp 0 [SPair 0 0 (EMatch 0); SPair 1 1 (EMatch 0)])].

Example C06_model_hypotheses_inhabited : exists e,
  hyps_C06 (ex_doc true 120) (ex_doc false 121) = true /\
  script no_oracle [] [] (ex_doc true 120) (ex_doc false 121) = OK e /\
  typed (ex_doc true 120) (ex_doc false 121) = true /\ nozero (ex_doc true 120) = true /\
  nozero (ex_doc false 121) = true /\ clean false (ex_doc true 120) e = true /\ cost e = 2 /\
  ordered_only e = false.
Proof. exists ex_script. vm_compute. repeat split; reflexivity. Qed.

Lemma hyps_C06_spec : forall a b, hyps_C06 a b = true ->
  wf a = true /\ wf b = true /\ jdoc a /\ jdoc b /\ numtext_ok a = true /\ numtext_ok b = true /\ consistent a b = true.
Proof.
  intros a b H. unfold hyps_C06 in H.
  repeat match type of H with (_ && _) = true => let H' := fresh "H" in apply andb_prop in H as [H H'] end.
  unfold jdoc. repeat split; try assumption; apply negb_true_iff; assumption.
Qed.

Example C06_model_example : forall lay, exists e,
  script no_oracle [] [] (ex_doc true 120) (ex_doc false 121) = OK e /\ cost e = 2 /\
  reads_as (erase Inserted (jrender lay (ex_doc true 120) (ex_doc false 121) e)) (ex_doc true 120) = true /\
  reads_as (erase Removed (jrender lay (ex_doc true 120) (ex_doc false 121) e)) (ex_doc false 121) = true /\
  no_marks (jrender lay (ex_doc true 120) (ex_doc false 121) e) = false.
Proof.
  intro lay. destruct C06_model_hypotheses_inhabited as [e [Hh [Hs [Ht [Hza [Hzb [Hc [Hcost _]]]]]]]].
  destruct (hyps_C06_spec _ _ Hh) as [Hwa [Hwb [Da [Db [Hna [Hnb _]]]]]].
  destruct (C06_model_all no_oracle [] [] lay _ _ e Hwa Hwb Da Db Hna Hnb Hs Ht Hza Hzb Hc) as [H1 [H2 H3]].
  exists e. repeat split; try assumption.
  destruct (no_marks _); [|reflexivity]. rewrite (proj1 H3 eq_refl) in Hcost. discriminate.
Qed.
