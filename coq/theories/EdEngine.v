(* The cost / path-length matrix of graphtage.levenshtein.EditDistance and its back-trace
   (levenshtein.py: _add_node, _best_match, edits()).  Generic in the costs: rc = cost of removing each
   element of the (trimmed) source sequence, ic = cost of inserting each element of the target sequence,
   mc r c = final cost of the edit between source element c and target element r (0-based).
   Cells are filled row by row; every cell depends only on its three predecessors, so the fill order
   (the implementation goes diagonal by diagonal) does not matter.  numpy's uint16 path-length cells wrap
   at 2^16, written out explicitly; the uint64 cost cells are modelled by Z (faithful below 2^64). *)
From Coq Require Import ZArith List Bool Lia.
Require Import GT.PyBase.
Import ListNotations.
Open Scope Z_scope.

Inductive dir := DStart | DDiag | DUp | DLeft.
Record cell := { ccost : Z; cpath : Z; cdir : dir }.

Definition wrap16 (z : Z) : Z := z mod 65536.

(* _best_match for row > 0, col > 0.  d/l/u: the diagonal, left and upper predecessor cells;
   m: cost of the cell's own edit, i: cost of Insert(to[row-1]), r: cost of Remove(from[col-1]). *)
Definition best (d l u : cell) (m i r : Z) : cell :=
  let dc := (ccost d, cpath d) in
  let lc := (ccost l, cpath l) in
  let uc := (ccost u, cpath u) in
  let diag_is_best := zz_leb dc lc && zz_leb dc uc in
  if diag_is_best && (m <? i) && (m <? r)
  then {| ccost := ccost d + m; cpath := wrap16 (cpath d + 1); cdir := DDiag |}
  else if zz_leb uc dc
  then {| ccost := ccost u + i; cpath := wrap16 (cpath u + 1); cdir := DUp |}
  else {| ccost := ccost l + r; cpath := wrap16 (cpath l + 1); cdir := DLeft |}.

Definition start_cell : cell := {| ccost := 0; cpath := 0; cdir := DStart |}.

(* row 0: costs[0][c] = costs[0][c-1] + Remove cost *)
Fixpoint row0_from (prev : cell) (rc : list Z) : list cell :=
  match rc with
  | [] => []
  | r :: rc' =>
      let c := {| ccost := ccost prev + r; cpath := wrap16 (cpath prev + 1); cdir := DLeft |} in
      c :: row0_from c rc'
  end.
Definition row0 (rc : list Z) : list cell := start_cell :: row0_from start_cell rc.

(* the rest of a row, given the diagonal cell, the remaining cells of the previous row (ups), the remove
   costs and match costs of the remaining columns, and the cell to the left *)
Fixpoint row_rest (i : Z) (d : cell) (ups : list cell) (rc mcs : list Z) (l : cell) : list cell :=
  match ups, rc, mcs with
  | u :: ups', r :: rc', m :: mcs' =>
      let c := best d l u m i r in
      c :: row_rest i u ups' rc' mcs' c
  | _, _, _ => []
  end.

Definition next_row (prev : list cell) (i : Z) (rc mcs : list Z) : list cell :=
  match prev with
  | [] => []
  | u0 :: ups =>
      let c0 := {| ccost := ccost u0 + i; cpath := wrap16 (cpath u0 + 1); cdir := DUp |} in
      c0 :: row_rest i u0 ups rc mcs c0
  end.

(* all rows; mcs : for each target element r, the list over source elements c of mc r c *)
Fixpoint rows_from (prev : list cell) (ic : list Z) (rc : list Z) (mcs : list (list Z)) : list (list cell) :=
  match ic, mcs with
  | i :: ic', m :: mcs' =>
      let row := next_row prev i rc m in
      row :: rows_from row ic' rc mcs'
  | _, _ => []
  end.

Definition matrix (rc ic : list Z) (mcs : list (list Z)) : list (list cell) :=
  row0 rc :: rows_from (row0 rc) ic rc mcs.

Definition cell_at (mx : list (list cell)) (r c : nat) : cell :=
  nth c (nth r mx []) start_cell.

(* an alignment operation, 0-based positions into the trimmed sequences *)
Inductive op := OMatch (c r : nat) (* source c with target r *) | ORem (c : nat) | OIns (r : nat).

(* back-trace from (r, c) following the recorded directions; returns the operations in REVERSE order
   (lower right first), as edits() collects them *)
Fixpoint backtrace (fuel : nat) (mx : list (list cell)) (r c : nat) : list op :=
  match fuel with
  | O => []
  | S fuel' =>
      match cdir (cell_at mx r c), r, c with
      | DDiag, S r', S c' => OMatch c' r' :: backtrace fuel' mx r' c'
      | DUp, S r', _ => OIns r' :: backtrace fuel' mx r' c
      | DLeft, _, S c' => ORem c' :: backtrace fuel' mx r c'
      | _, _, _ => []
      end
  end.

Definition final_cost (rc ic : list Z) (mcs : list (list Z)) : Z :=
  ccost (cell_at (matrix rc ic mcs) (length ic) (length rc)).

Definition alignment (rc ic : list Z) (mcs : list (list Z)) : list op :=
  rev (backtrace (length rc + length ic) (matrix rc ic mcs) (length ic) (length rc)).
