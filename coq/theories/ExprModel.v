(* C19: executable model of Expression.eval / get_value / get_member (graphtage/expressions.py) as a
   stack machine over ARBITRARY RPN token lists, with an event log.  Definitions only.
   The guard, the whitelist and the operator table are the TRANSLATED ones (GTgen.ExprGen).
   Calls of built-ins are summarised; the capability table `fmt_methods` (trusted, hand-audited and
   probed by the harness) names the only members of built-in types that read attributes named by data:
   str.format / str.format_map, which are modelled down to the replacement-field grammar (D12). *)
From Coq Require Import String List Bool ZArith Ascii Lia DecimalString.
Require Import GT.PyBase GT.ExprSpec GTgen.ExprGen.
Import ListNotations.
Open Scope string_scope.

(* ------------------------------------------------------------------ trusted capability table *)
Definition fmt_methods : list string := ["format"; "format_map"].
Definition is_fmt (n : string) : bool := mem_str n fmt_methods.
(* does the translated guard refuse every attribute-reading member? (true once D12 is repaired) *)
Definition guard_denies_format : bool := forallb (fun n => negb (member_allowed n)) fmt_methods.

(* public members of the built-in types whose values the model carries (CPython 3.8 - 3.12 common subset);
   a member not listed is "unknown" (the model goes on, tainted) *)
Definition str_members : list string :=
  ["capitalize"; "casefold"; "center"; "count"; "encode"; "endswith"; "expandtabs"; "find"; "format"; "format_map";
   "index"; "isalnum"; "isalpha"; "isascii"; "isdecimal"; "isdigit"; "isidentifier"; "islower"; "isnumeric";
   "isprintable"; "isspace"; "istitle"; "isupper"; "join"; "ljust"; "lower"; "lstrip"; "maketrans"; "partition";
   "replace"; "rfind"; "rindex"; "rjust"; "rpartition"; "rsplit"; "rstrip"; "split"; "splitlines"; "startswith";
   "strip"; "swapcase"; "title"; "translate"; "upper"; "zfill"].
Definition int_members : list string :=
  ["as_integer_ratio"; "bit_length"; "conjugate"; "denominator"; "from_bytes"; "imag"; "numerator"; "real"; "to_bytes"].
Definition list_members : list string :=
  ["append"; "clear"; "copy"; "count"; "extend"; "index"; "insert"; "pop"; "remove"; "reverse"; "sort"].
Definition tuple_members : list string := ["count"; "index"].
Definition dict_members : list string :=
  ["clear"; "copy"; "fromkeys"; "get"; "items"; "keys"; "pop"; "popitem"; "setdefault"; "update"; "values"].

(* ------------------------------------------------------------------ cleanliness *)
(* a value is clean when it contains no attribute-reading callable and nothing foreign *)
Fixpoint cleanb (v : val) : bool :=
  match v with
  | VList l | VTuple l => forallb cleanb l
  | VDict kvs => forallb (fun kv => match kv with (k, x) => cleanb k && cleanb x end) kvs
  | VBoundMethod s n => cleanb s && negb (is_fmt n)
  | VForeign => false
  | _ => true
  end.
Definition clean_heap (h : heap) : bool := forallb (fun o => forallb (fun a => cleanb (snd a)) (snd o)) h.
Definition clean_env (e : env) : bool := forallb (fun a => cleanb (snd a)) e.

(* ------------------------------------------------------------------ results of one operation *)
Inductive opres :=
| RV (v : val) (evs : list event) (taint : bool)     (* value, events emitted, "reality may have raised / differ" *)
| RX (cls : string) (evs : list event).              (* exception of class cls ("?" = some exception) *)

Definition ret (v : val) : opres := RV v [] false.
Definition exc (c : string) : opres := RX c [].
(* anything the model does not compute: clean operands give an opaque value; otherwise control may
   have reached an attribute-reading callable *)
Definition unk (args : list val) : opres :=
  if forallb cleanb args then RV VOpaque [] true else RV VForeign [ReadAny] true.

Definition add_evs (pre : list event) (r : opres) : opres :=
  match r with RV v e t => RV v (pre ++ e) t | RX c e => RX c (pre ++ e) end.

(* ------------------------------------------------------------------ small Python semantics *)
Definition simple (v : val) : bool :=
  match v with VInt _ | VStr _ | VList _ | VTuple _ | VDict _ | VNone | VObj _ => true | _ => false end.

Definition truthy (v : val) : option bool :=
  match v with
  | VInt z => Some (negb (Z.eqb z 0))
  | VStr s => Some (negb (String.eqb s ""))
  | VBool b => Some b
  | VNone => Some false
  | VList l | VTuple l => Some (match l with [] => false | _ => true end)
  | VDict k => Some (match k with [] => false | _ => true end)
  | VObj _ => Some true
  | VBuiltin _ => Some true
  | _ => None
  end.

Definition as_int (v : val) : option Z :=
  match v with VInt z => Some z | VBool b => Some (if b then 1 else 0)%Z | _ => None end.

(* Python == on the scalars the model decides (None: not decided) *)
Definition py_eq (a b : val) : option bool :=
  match as_int a, as_int b with
  | Some x, Some y => Some (Z.eqb x y)
  | _, _ =>
    match a, b with
    | VStr x, VStr y => Some (String.eqb x y)
    | VNone, VNone => Some true
    | VObj i, VObj j => Some (Nat.eqb i j)
    | _, _ => if simple a && simple b then
                match a, b with
                | VList _, VList _ | VTuple _, VTuple _ | VDict _, VDict _ => None
                | _, _ => Some false
                end
              else match as_int a, b with
                   | Some _, (VStr _ | VNone | VObj _ | VList _ | VTuple _ | VDict _) => Some false
                   | _, _ => match a, as_int b with
                             | (VStr _ | VNone | VObj _ | VList _ | VTuple _ | VDict _), Some _ => Some false
                             | _, _ => None
                             end
                   end
    end
  end.

Definition hashable (v : val) : option bool :=
  match v with
  | VInt _ | VStr _ | VBool _ | VNone | VObj _ | VFloat _ | VBuiltin _ => Some true
  | VList _ | VDict _ => Some false
  | _ => None
  end.

(* lookup of a key among association keys; None = cannot decide *)
Fixpoint dict_lookup (k : val) (kvs : list (val * val)) : option (option val) :=
  match kvs with
  | [] => Some None
  | (k', v) :: r => match py_eq k k' with
                    | Some true => Some (Some v)
                    | Some false => dict_lookup k r
                    | None => None
                    end
  end.

Fixpoint is_ascii (s : string) : bool :=
  match s with EmptyString => true | String c r => (Nat.ltb (nat_of_ascii c) 128) && is_ascii r end.

Definition str_index (s : string) (n : nat) : option val :=
  match String.get n s with Some c => Some (VStr (String c EmptyString)) | None => None end.

(* Python index normalisation for a sequence of length len *)
Definition norm_index (z : Z) (len : nat) : option nat :=
  let l := Z.of_nat len in
  if (0 <=? z)%Z && (z <? l)%Z then Some (Z.to_nat z)
  else if (z <? 0)%Z && (- l <=? z)%Z then Some (Z.to_nat (l + z)) else None.

Definition getitem (a b : val) : opres :=
  match a with
  | VList l | VTuple l =>
      match as_int b with
      | Some z => match norm_index z (List.length l) with
                  | Some n => match nth_error l n with Some v => ret v | None => exc "IndexError" end
                  | None => exc "IndexError" end
      | None => if simple b then exc "TypeError" else unk [a; b]
      end
  | VStr s =>
      match as_int b with
      | Some z => if is_ascii s then
                    match norm_index z (String.length s) with
                    | Some n => match str_index s n with Some v => ret v | None => exc "IndexError" end
                    | None => exc "IndexError" end
                  else unk [a; b]
      | None => if simple b then exc "TypeError" else unk [a; b]
      end
  | VDict kvs =>
      match hashable b with
      | Some false => exc "TypeError"
      | Some true => match dict_lookup b kvs with
                     | Some (Some v) => ret v
                     | Some None => exc "KeyError"
                     | None => unk [a; b] end
      | None => unk [a; b]
      end
  | VInt _ | VNone | VObj _ | VBool _ | VFloat _ => if cleanb b then exc "TypeError" else unk [a; b]
  | _ => unk [a; b]
  end.

Definition bool_val (b : bool) : opres := ret (VBool b).

Definition binop_int (o : binop) (x y : Z) : opres :=
  match o with
  | BAdd => ret (VInt (x + y))
  | BSub => ret (VInt (x - y))
  | BMul => ret (VInt (x * y))
  | BDiv => if Z.eqb y 0 then exc "ZeroDivisionError" else RV VOpaque [] false
  | BFloorDiv => if Z.eqb y 0 then exc "ZeroDivisionError" else ret (VInt (x / y))
  | BMod => if Z.eqb y 0 then exc "ZeroDivisionError" else ret (VInt (x mod y))
  | BLShift => if (y <? 0)%Z then exc "ValueError"
               else if (y <=? 256)%Z then ret (VInt (Z.shiftl x y)) else unk [VInt x; VInt y]
  | BRShift => if (y <? 0)%Z then exc "ValueError"
               else if (y <=? 100000)%Z then ret (VInt (Z.shiftr x y)) else unk [VInt x; VInt y]
  | BBitAnd => ret (VInt (Z.land x y))
  | BBitXor => ret (VInt (Z.lxor x y))
  | BBitOr => ret (VInt (Z.lor x y))
  end.

Definition exec_bin (o : binop) (a b : val) : opres :=
  match a, b with
  | VInt x, VInt y => binop_int o x y
  | _, _ =>
    if simple a && simple b then
      match o, a, b with
      | BAdd, VStr x, VStr y => ret (VStr (x ++ y))
      | BAdd, VList x, VList y => ret (VList (x ++ y))
      | BAdd, VTuple x, VTuple y => ret (VTuple (x ++ y))
      | BAdd, _, _ => exc "TypeError"
      | BMul, (VStr _ | VList _ | VTuple _), VInt _ => unk [a; b]
      | BMul, VInt _, (VStr _ | VList _ | VTuple _) => unk [a; b]
      | BMod, VStr _, _ => unk [a; b]
      | BBitOr, VDict _, VDict _ => unk [a; b]
      | _, _, _ => exc "TypeError"
      end
    else unk [a; b]
  end.

Definition cmp_of (c : cmpop) (r : comparison) : bool :=
  match c, r with
  | CLt, Lt => true | CLe, (Lt | Eq) => true | CGt, Gt => true | CGe, (Gt | Eq) => true | _, _ => false
  end.

Fixpoint is_prefix (p s : string) : bool :=
  match p, s with
  | EmptyString, _ => true
  | String a p', String b s' => Ascii.eqb a b && is_prefix p' s'
  | _, EmptyString => false
  end.
Fixpoint is_substring (p s : string) : bool :=
  is_prefix p s || match s with EmptyString => false | String _ s' => is_substring p s' end.

Fixpoint contains_val (a : val) (l : list val) : option bool :=
  match l with
  | [] => Some false
  | x :: r => match py_eq a x with
              | Some true => Some true
              | Some false => contains_val a r
              | None => None end
  end.

Definition exec_cmp (c : cmpop) (a b : val) : opres :=
  match c with
  | CEq => match py_eq a b with Some r => bool_val r | None => unk [a; b] end
  | CNe => match py_eq a b with Some r => bool_val (negb r) | None => unk [a; b] end
  | CIn =>
      match b with
      | VList l | VTuple l => match contains_val a l with Some r => bool_val r | None => unk [a; b] end
      | VStr s => match a with
                  | VStr p => bool_val (is_substring p s)
                  | _ => if simple a then exc "TypeError" else unk [a; b] end
      | VDict kvs => match hashable a with
                     | Some false => exc "TypeError"
                     | Some true => match dict_lookup a kvs with
                                    | Some (Some _) => bool_val true
                                    | Some None => bool_val false
                                    | None => unk [a; b] end
                     | None => unk [a; b] end
      | VInt _ | VNone | VObj _ | VBool _ | VFloat _ => if cleanb a then exc "TypeError" else unk [a; b]
      | _ => unk [a; b]
      end
  | _ =>
      match a, b with
      | VInt x, VInt y => bool_val (cmp_of c (Z.compare x y))
      | VStr x, VStr y => bool_val (cmp_of c (String.compare x y))
      | _, _ => if simple a && simple b then
                  match a, b with
                  | VList _, VList _ | VTuple _, VTuple _ => unk [a; b]
                  | _, _ => exc "TypeError"
                  end
                else unk [a; b]
      end
  end.

Definition exec_un (u : unop) (a : val) : opres :=
  match u with
  | UId => ret a
  | UNot => match truthy a with Some t => bool_val (negb t) | None => unk [a] end
  | _ => match a with
         | VInt x => ret (VInt (match u with UNeg => - x | UInvert => - x - 1 | _ => x end))
         | _ => if simple a then exc "TypeError" else unk [a]
         end
  end.

(* ------------------------------------------------------------------ getattr *)
Fixpoint heap_attrs (h : heap) (i : nat) : list (string * val) :=
  match h with [] => [] | (j, a) :: r => if Nat.eqb i j then a else heap_attrs r i end.

Definition builtin_member_known (v : val) (n : string) : bool :=
  match v with
  | VStr _ => mem_str n str_members
  | VInt _ | VBool _ => mem_str n int_members
  | VList _ => mem_str n list_members
  | VTuple _ => mem_str n tuple_members
  | VDict _ => mem_str n dict_members
  | VBuiltin b => (String.eqb b "str" && mem_str n str_members) || (String.eqb b "int" && mem_str n int_members)
                  || (String.eqb b "list" && mem_str n list_members) || (String.eqb b "dict" && mem_str n dict_members)
                  || (String.eqb b "tuple" && mem_str n tuple_members)
  | _ => false
  end.

(* getattr(obj, n): value or exception class, and whether the answer is only a guess *)
Inductive gres := GVal (v : val) (taint : bool) | GExc (cls : string).
(* names of the runtime's own namespace (__class__, __dict__, __init__, ...): every Python value has some
   of them and what they give (classes, functions, module globals) is outside the value universe *)
Definition is_dunder (n : string) : bool := String.prefix "__" n.
Definition getattr_val (h : heap) (obj : val) (n : string) : gres :=
  match obj with
  | VObj i => match assoc n (heap_attrs h i) with
              | Some v => GVal v false
              | None => if is_dunder n then GVal VForeign true else GExc "AttributeError" end
  | VOpaque => GVal VOpaque true
  | VForeign => GVal VForeign true
  | _ => if is_dunder n then GVal VForeign true
         else match obj with
              | VNone => GExc "AttributeError"
              | _ => GVal (VBoundMethod obj n) (negb (builtin_member_known obj n))
              end
  end.

(* ------------------------------------------------------------------ str.format / str.format_map *)
Inductive fargs := FPos (l : list val) | FMap (m : val).
Inductive anstate := AnsInit | AnsAuto | AnsManual.
Record fstate := { f_out : option string;            (* rendered text, when the model knows it *)
                   f_reads : list (val * string);    (* getattr performed for replacement fields, in order *)
                   f_an : anstate; f_next : nat;     (* automatic field numbering *)
                   f_any : bool;                     (* control reached foreign code *)
                   f_taint : bool }.
Inductive fres := FOk (s : fstate) | FExc (cls : string) (s : fstate).

Definition f_emit (s : fstate) (t : option string) : fstate :=
  {| f_out := match f_out s, t with Some a, Some b => Some (a ++ b) | _, _ => None end;
     f_reads := f_reads s; f_an := f_an s; f_next := f_next s; f_any := f_any s; f_taint := f_taint s |}.
Definition f_read (s : fstate) (v : val) (n : string) : fstate :=
  {| f_out := f_out s; f_reads := f_reads s ++ [(v, n)]; f_an := f_an s; f_next := f_next s;
     f_any := f_any s; f_taint := f_taint s |}.
Definition f_flag (s : fstate) (any taint : bool) : fstate :=
  {| f_out := f_out s; f_reads := f_reads s; f_an := f_an s; f_next := f_next s;
     f_any := f_any s || any; f_taint := f_taint s || taint |}.
Definition f_auto (s : fstate) (a : anstate) (next : nat) : fstate :=
  {| f_out := f_out s; f_reads := f_reads s; f_an := a; f_next := next; f_any := f_any s; f_taint := f_taint s |}.
Definition f_set_out (s : fstate) (o : option string) : fstate :=
  {| f_out := o; f_reads := f_reads s; f_an := f_an s; f_next := f_next s; f_any := f_any s; f_taint := f_taint s |}.

Definition is_digit (c : ascii) : bool := let n := nat_of_ascii c in Nat.leb 48 n && Nat.leb n 57.
Fixpoint all_digits (s : string) : bool :=
  match s with EmptyString => true | String c r => is_digit c && all_digits r end.
Fixpoint digits_val (s : string) (acc : Z) : Z :=
  match s with EmptyString => acc | String c r => digits_val r (acc * 10 + Z.of_nat (nat_of_ascii c - 48))%Z end.
(* get_integer: Some index if the name is a non-empty digit string *)
Definition get_integer (s : string) : option Z :=
  match s with EmptyString => None | _ => if all_digits s then Some (digits_val s 0) else None end.

Definition snoc (s : string) (c : ascii) : string := s ++ String c EmptyString.
Definition ch (s : string) : ascii := match s with String c _ => c | _ => zero end.

(* the part of a field name after its first component, split into steps *)
Inductive fstep := SAttr (n : string) | SItem (n : string) | SErr.
Inductive tstate := TStart | TAttr (acc : string) | TItem (acc : string).
Definition close_attr (acc : string) : fstep := match acc with EmptyString => SErr | _ => SAttr acc end.
Fixpoint field_steps (s : string) (t : tstate) : list fstep :=
  match s with
  | EmptyString => match t with TStart => [] | TAttr acc => [close_attr acc] | TItem _ => [SErr] end
  | String c r =>
      match t with
      | TStart => if Ascii.eqb c (ch ".") then field_steps r (TAttr "")
                  else if Ascii.eqb c (ch "[") then field_steps r (TItem "") else [SErr]
      | TAttr acc => if Ascii.eqb c (ch ".") then close_attr acc :: match acc with EmptyString => [] | _ => field_steps r (TAttr "") end
                     else if Ascii.eqb c (ch "[") then close_attr acc :: match acc with EmptyString => [] | _ => field_steps r (TItem "") end
                     else field_steps r (TAttr (snoc acc c))
      | TItem acc => if Ascii.eqb c (ch "]") then
                       match acc with EmptyString => [SErr] | _ => SItem acc :: field_steps r TStart end
                     else field_steps r (TItem (snoc acc c))
      end
  end.

(* first component of a field name: up to the first '.' or '[' *)
Fixpoint split_first (s : string) (acc : string) : string * string :=
  match s with
  | EmptyString => (acc, EmptyString)
  | String c r => if Ascii.eqb c (ch ".") || Ascii.eqb c (ch "[") then (acc, s) else split_first r (snoc acc c)
  end.

Inductive vres := VOk (v : val) (s : fstate) | VExc (cls : string) (s : fstate).

Definition of_opres (r : opres) (s : fstate) : vres :=
  match r with
  | RV v evs t => VOk v (f_flag s (existsb (fun e => match e with ReadAny => true | _ => false end) evs) t)
  | RX c evs => VExc c s
  end.

Fixpoint walk_steps (h : heap) (steps : list fstep) (v : val) (s : fstate) : vres :=
  match steps with
  | [] => VOk v s
  | SErr :: _ => VExc "ValueError" s
  | SAttr n :: r =>
      let s1 := f_read s v n in
      match getattr_val h v n with
      | GVal x t => walk_steps h r x (f_flag s1 false t)
      | GExc c => VExc c s1
      end
  | SItem n :: r =>
      let key := match get_integer n with Some z => VInt z | None => VStr n end in
      match of_opres (getitem v key) s with
      | VOk x s1 => walk_steps h r x s1
      | e => e
      end
  end.

Definition get_field (h : heap) (args : fargs) (name : string) (s : fstate) : vres :=
  let (first, rest) := split_first name "" in
  let steps := field_steps rest TStart in
  if Nat.ltb 18 (String.length first) && all_digits first then VExc "?" (f_flag s false true) else
  match first, get_integer first with
  | EmptyString, _ =>
      match f_an s with
      | AnsManual => VExc "ValueError" s
      | _ => let idx := f_next s in
             let s1 := f_auto s AnsAuto (S idx) in
             match args with
             | FMap _ => VExc "ValueError" s1
             | FPos l => match nth_error l idx with Some v => walk_steps h steps v s1 | None => VExc "IndexError" s1 end
             end
      end
  | _, Some z =>
      match f_an s with
      | AnsAuto => VExc "ValueError" s
      | _ => let s1 := f_auto s AnsManual (f_next s) in
             match args with
             | FMap _ => VExc "ValueError" s1
             | FPos l => match nth_error l (Z.to_nat z) with Some v => walk_steps h steps v s1 | None => VExc "IndexError" s1 end
             end
      end
  | _, None =>
      match args with
      | FPos _ => VExc "KeyError" s
      | FMap m => match of_opres (getitem m (VStr first)) s with
                  | VOk v s1 => walk_steps h steps v s1
                  | e => e end
      end
  end.

(* render_field: format(value, spec) after the optional conversion; only decides exception / text *)
Definition render (v : val) (conv : option ascii) (spec : option string) (s : fstate) : fres :=
  let conv_ok := match conv with
                 | None => true
                 | Some c => Ascii.eqb c (ch "r") || Ascii.eqb c (ch "s") || Ascii.eqb c (ch "a") end in
  if negb conv_ok then FExc "ValueError" s else
  let foreign := negb (cleanb v) in
  match conv with
  | Some _ =>
      (* repr()/str()/ascii() of the value, then str.__format__ *)
      let s1 := f_flag s foreign (foreign || match spec with Some EmptyString => false | _ => true end) in
      FOk (f_emit s1 None)
  | None =>
      match spec with
      | Some EmptyString =>
          match v with
          | VStr x => FOk (f_emit s (Some x))
          | VInt z => FOk (f_emit s (Some (NilZero.string_of_int (Z.to_int z))))
          | VOpaque => FOk (f_emit (f_flag s false true) None)
          | _ => FOk (f_emit (f_flag s foreign foreign) None)
          end
      | Some _ =>
          match v with
          | VNone | VList _ | VTuple _ | VDict _ | VObj _ | VBuiltin _ =>
              if foreign then FOk (f_emit (f_flag s true true) None) else FExc "TypeError" s
          | _ => FOk (f_emit (f_flag s foreign true) None)
          end
      | None => FOk (f_emit (f_flag s foreign true) None)     (* expanded spec not known *)
      end
  end.

Inductive pstate :=
| PLit | POpen | PClose
| PName (acc : string) | PNameBr (acc : string)
| PConv1 (name : string) | PConv2 (name : string) (c : ascii)
| PSpec (name : string) (conv : option ascii) (acc : string) (count : nat) (needs : bool).

Section Formatter.
  Variable h : heap.
  Variable args : fargs.
  (* expansion of a format spec that contains replacement fields (one recursion level down) *)
  Variable expand : string -> fstate -> fres.

  Definition conv_known (conv : option ascii) : bool :=
    match conv with
    | Some c => Ascii.eqb c (ch "r") || Ascii.eqb c (ch "s") || Ascii.eqb c (ch "a")
    | None => true
    end.

  Definition do_field (name : string) (conv : option ascii) (spec : string) (needs : bool) (s : fstate) : fres :=
    match get_field h args name s with
    | VExc c s1 => FExc c s1
    | VOk v s1 =>
        if negb (conv_known conv) then FExc "ValueError" s1
        else if needs then
          match expand spec (f_set_out s1 (Some "")) with
          | FExc c s2 => FExc c (f_set_out s2 (f_out s1))
          | FOk s2 => render v conv (f_out s2) (f_set_out s2 (f_out s1))
          end
        else render v conv (Some spec) s1
    end.

  Definition name_char (acc : string) (c : ascii) (s : fstate) : fres * pstate :=
    if Ascii.eqb c (ch "{") then (FExc "ValueError" s, PLit)
    else if Ascii.eqb c (ch "[") then (FOk s, PNameBr (snoc acc c))
    else if Ascii.eqb c (ch "}") then (do_field acc None "" false s, PLit)
    else if Ascii.eqb c (ch ":") then (FOk s, PSpec acc None "" 1 false)
    else if Ascii.eqb c (ch "!") then (FOk s, PConv1 acc)
    else (FOk s, PName (snoc acc c)).

  Fixpoint fmt_run (str : string) (p : pstate) (s : fstate) : fres :=
    match str with
    | EmptyString => match p with PLit => FOk s | _ => FExc "ValueError" s end
    | String c r =>
        let lit := String c EmptyString in
        match p with
        | PLit => if Ascii.eqb c (ch "{") then fmt_run r POpen s
                  else if Ascii.eqb c (ch "}") then fmt_run r PClose s
                  else fmt_run r PLit (f_emit s (Some lit))
        | POpen => if Ascii.eqb c (ch "{") then fmt_run r PLit (f_emit s (Some lit))
                   else match name_char "" c s with
                        | (FOk s1, p1) => fmt_run r p1 s1
                        | (e, _) => e end
        | PClose => if Ascii.eqb c (ch "}") then fmt_run r PLit (f_emit s (Some lit)) else FExc "ValueError" s
        | PName acc => match name_char acc c s with
                       | (FOk s1, p1) => fmt_run r p1 s1
                       | (e, _) => e end
        | PNameBr acc => if Ascii.eqb c (ch "]") then fmt_run r (PName (snoc acc c)) s
                         else fmt_run r (PNameBr (snoc acc c)) s
        | PConv1 name => fmt_run r (PConv2 name c) s
        | PConv2 name cv => if Ascii.eqb c (ch "}") then
                              match do_field name (Some cv) "" false s with
                              | FOk s1 => fmt_run r PLit s1
                              | e => e end
                            else if Ascii.eqb c (ch ":") then fmt_run r (PSpec name (Some cv) "" 1 false) s
                            else FExc "ValueError" s
        | PSpec name cv acc count needs =>
            if Ascii.eqb c (ch "{") then fmt_run r (PSpec name cv (snoc acc c) (S count) true) s
            else if Ascii.eqb c (ch "}") then
              match count with
              | 1 => match do_field name cv acc needs s with
                     | FOk s1 => fmt_run r PLit s1
                     | e => e end
              | _ => fmt_run r (PSpec name cv (snoc acc c) (pred count) needs) s
              end
            else fmt_run r (PSpec name cv (snoc acc c) count needs) s
        end
    end.
End Formatter.

Definition f_init : fstate :=
  {| f_out := Some ""; f_reads := []; f_an := AnsInit; f_next := 0; f_any := false; f_taint := false |}.

(* two recursion levels, as in CPython (build_string is entered with recursion_depth = 2) *)
Definition expand0 (spec : string) (s : fstate) : fres := FExc "ValueError" s.
Definition expand1 (h : heap) (args : fargs) (spec : string) (s : fstate) : fres :=
  fmt_run h args expand0 spec PLit s.
Definition format_string (h : heap) (args : fargs) (str : string) : fres :=
  fmt_run h args (expand1 h args) str PLit f_init.

Definition fmt_events (s : fstate) : list event :=
  map (fun r => ReadAttr ByFormat (fst r) (snd r)) (f_reads s) ++ (if f_any s then [ReadAny] else []).

Definition format_call (h : heap) (args : fargs) (str : string) : opres :=
  if is_ascii str then
    match format_string h args str with
    | FOk s => RV (match f_out s with Some t => VStr t | None => VOpaque end) (fmt_events s) (f_taint s)
    | FExc c s => if f_taint s then RV VOpaque (fmt_events s) true else RX c (fmt_events s)
    end
  else RV VOpaque [ReadAny] true.

(* a call of an attribute-reading method: receiver.format( *args ) / receiver.format_map(m) *)
Definition call_fmt (h : heap) (recv : val) (meth : string) (args : list val) : opres :=
  let go (s : string) (rest : list val) : opres :=
    if String.eqb meth "format" then format_call h (FPos rest) s
    else match rest with
         | [m] => format_call h (FMap m) s
         | _ => exc "TypeError" end in
  match recv with
  | VStr s => go s args
  | VBuiltin _ =>
      match recv, args with
      | VBuiltin "str", VStr s :: rest => go s rest
      | VBuiltin "str", (VOpaque | VForeign | VBoundMethod _ _) :: _ => RV VForeign [ReadAny] true
      | VBuiltin "str", _ => exc "TypeError"
      | _, _ => RV VForeign [ReadAny] true
      end
  | _ => RV VForeign [ReadAny] true
  end.

(* ------------------------------------------------------------------ summarised built-ins *)
Definition distinct_keys (kvs : list (val * val)) : bool :=
  (fix go (l : list (val * val)) : bool :=
     match l with
     | [] => true
     | (k, _) :: r => match k with VStr _ | VInt _ => true | _ => false end &&
                      match dict_lookup k r with Some None => true | _ => false end && go r
     end) kvs.

Fixpoint pairs_of (l : list val) : option (list (val * val)) :=
  match l with
  | [] => Some []
  | (VList [k; v] | VTuple [k; v]) :: r => match pairs_of r with Some p => Some ((k, v) :: p) | None => None end
  | _ => None
  end.

Definition not_iterable (v : val) : bool :=
  match v with VInt _ | VNone | VObj _ | VBool _ | VFloat _ => true | _ => false end.

Definition call_builtin (name : string) (args : list val) : opres :=
  if String.eqb name "len" then
    match args with
    | [VList l] | [VTuple l] => ret (VInt (Z.of_nat (List.length l)))
    | [VDict k] => ret (VInt (Z.of_nat (List.length k)))
    | [VStr s] => if is_ascii s then ret (VInt (Z.of_nat (String.length s))) else unk args
    | [x] => if not_iterable x then exc "TypeError" else unk args
    | _ => if forallb cleanb args then exc "TypeError" else unk args
    end
  else if String.eqb name "bool" then
    match args with
    | [] => ret (VBool false)
    | [x] => match truthy x with Some t => ret (VBool t) | None => unk args end
    | _ => if forallb cleanb args then exc "TypeError" else unk args
    end
  else if String.eqb name "list" then
    match args with
    | [] => ret (VList [])
    | [VList l] | [VTuple l] => ret (VList l)
    | [VDict k] => ret (VList (map fst k))
    | [x] => if not_iterable x then exc "TypeError" else unk args
    | _ => if forallb cleanb args then exc "TypeError" else unk args
    end
  else if String.eqb name "tuple" then
    match args with
    | [] => ret (VTuple [])
    | [VList l] | [VTuple l] => ret (VTuple l)
    | [VDict k] => ret (VTuple (map fst k))
    | [x] => if not_iterable x then exc "TypeError" else unk args
    | _ => if forallb cleanb args then exc "TypeError" else unk args
    end
  else if String.eqb name "dict" then
    match args with
    | [] => ret (VDict [])
    | [VDict k] => ret (VDict k)
    | [VList l] | [VTuple l] =>
        match pairs_of l with
        | Some p => if distinct_keys p then ret (VDict p) else unk args
        | None => unk args end
    | [VInt _] | [VNone] | [VBool _] | [VFloat _] => exc "TypeError"
    | _ => unk args
    end
  else if String.eqb name "str" then
    match args with
    | [] => ret (VStr "")
    | [VStr s] => ret (VStr s)
    | [VInt z] => ret (VStr (NilZero.string_of_int (Z.to_int z)))
    | [VNone] => ret (VStr "None")
    | [VBool b] => ret (VStr (if b then "True" else "False"))
    | _ => unk args
    end
  else if String.eqb name "int" then
    match args with
    | [] => ret (VInt 0)
    | [VInt z] => ret (VInt z)
    | [VBool b] => ret (VInt (if b then 1 else 0))
    | [VNone] | [VList _] | [VTuple _] | [VDict _] | [VObj _] => exc "TypeError"
    | _ => unk args
    end
  else unk args.

(* f(args) *)
Definition apply_call (h : heap) (f : val) (args : list val) : opres :=
  match f with
  | VInt _ | VFloat _ | VStr _ | VBool _ | VNone | VList _ | VTuple _ | VDict _ | VObj _ =>
      if forallb cleanb (f :: args) then exc "TypeError" else unk (f :: args)
  | VBoundMethod recv n =>
      if is_fmt n then add_evs [Call f args] (call_fmt h recv n args)
      else add_evs [Call f args] (unk (f :: args))
  | VBuiltin name =>
      if forallb cleanb args then add_evs [Call f args] (call_builtin name args)
      else add_evs [Call f args] (unk args)
  | VOpaque | VForeign => add_evs [Call f args] (unk (f :: args))
  end.

(* the argument list `*b` unpacks to: Some (Some l) = arguments; Some None = not iterable; None = not modelled *)
Definition unpack (b : val) : option (option (list val)) :=
  match b with
  | VTuple l | VList l => Some (Some l)
  | VDict k => Some (Some (map fst k))
  | VInt _ | VNone | VObj _ | VBool _ | VFloat _ | VBuiltin _ => Some None
  | _ => None
  end.

(* a( *b ) *)
Definition exec_call (h : heap) (f b : val) : opres :=
  match unpack b with
  | None => unk [f; b]
  | Some None => if cleanb f then exc "TypeError" else unk [f; b]
  | Some (Some args) => apply_call h f args
  end.

(* ------------------------------------------------------------------ get_value / get_member *)
Inductive xres := XV (v : val) (evs : list event) | XX (cls : string) (evs : list event).

Definition get_value (locals : env) (i : item) : xres :=
  match i with
  | IVal v => XV v []
  | ITok (TInt z) => XV (VInt z) []
  | ITok (TFloat r) => XV (VFloat r) []
  | ITok (TStr s) => XV (VStr s) []
  | ITok (TId n) =>
      match assoc n locals with
      | Some v => XV v [Resolve n]
      | None => if mem_str n whitelist then XV (VBuiltin n) [Resolve n] else XX "KeyError" []
      end
  | ITok _ => XX "ValueError" []
  end.

(* `guard` is get_member's test on the member name; the model of the code instantiates it with the TRANSLATED
   guard (eval, below); the theorems are proved for any guard so that a repaired guard can be shown sufficient *)
Definition get_member (guard : string -> bool) (h : heap) (obj : val) (member : item) : opres :=
  match member with
  | ITok (TId n) =>
      if guard n then
        match getattr_val h obj n with
        | GVal v t => RV v [ReadAttr ByMember obj n] t
        | GExc c => RX c [ReadAttr ByMember obj n]
        end
      else exc "ParseError"
  | ITok _ => exc "ParseError"
  | IVal m =>
      (* f"{member}" then member.offset: a fixed-name read on whatever value sits there *)
      match getattr_val h m "offset" with
      | GVal _ t => if t then RX "?" [ReadAttr ByOffset m "offset"] else RX "ParseError" [ReadAttr ByOffset m "offset"]
      | GExc c => RX c [ReadAttr ByOffset m "offset"]
      end
  end.

(* ------------------------------------------------------------------ the operators *)
Definition exec_sem (guard : string -> bool) (h : heap) (sem : opsem) (args : list item) : opres :=
  match sem, args with
  | SMember, [IVal a; m] => get_member guard h a m
  | SMember, _ => RV VOpaque [] true        (* expand flags changed: not modelled *)
  | SGetitem, [IVal a; IVal b] => getitem a b
  | SCall, [IVal a; IVal b] => exec_call h a b
  | SUn u, [IVal a] => exec_un u a
  | SBin o, [IVal a; IVal b] => exec_bin o a b
  | SCmp c, [IVal a; IVal b] => exec_cmp c a b
  | SAnd, [IVal a; IVal b] => match truthy a with Some t => ret (if t then b else a) | None => unk [a; b] end
  | SOr, [IVal a; IVal b] => match truthy a with Some t => ret (if t then a else b) | None => unk [a; b] end
  | SPair, [IVal a; IVal b] => ret (VTuple [a; b])
  | STernary, [IVal a; IVal b] => match truthy a with Some t => getitem b (VBool t) | None => unk [a; b] end
  | _, _ => RV VOpaque [] true
  end.

Fixpoint find_op (name : string) (ops : list opdef) : option opdef :=
  match ops with [] => None | o :: r => if String.eqb (op_name o) name then Some o else find_op name r end.

(* values[-n:] and values[:-n] on a stack kept top-first; Python's -0 quirk: values[-0:] is everything *)
Definition take_top (n : nat) (stack : list item) : list item * list item :=
  match n with
  | 0 => (rev stack, [])
  | _ => (rev (firstn n stack), skipn n stack)
  end.

(* expand the selected operands left to right; the first failing get_value raises *)
Fixpoint expand_args (locals : env) (flags : list bool) (items : list item) : list item * list event * option string :=
  match flags, items with
  | f :: fr, i :: ir =>
      if f then
        match get_value locals i with
        | XV v e => let '(r, e2, x) := expand_args locals fr ir in (IVal v :: r, (e ++ e2)%list, x)
        | XX c e => ([], e, Some c)
        end
      else let '(r, e2, x) := expand_args locals fr ir in (i :: r, e2, x)
  | _, _ => ([], [], None)
  end.

Fixpoint all_values (l : list item) : list val :=
  match l with [] => [] | IVal v :: r => v :: all_values r | ITok _ :: r => all_values r end.

Record mstate := { m_stack : list item; m_log : list event; m_taint : bool }.
Inductive mres := MOk (s : mstate) | MExc (cls : string) (log : list event) (taint : bool).

Definition step (guard : string -> bool) (h : heap) (locals : env) (t : token) (s : mstate) : mres :=
  match t with
  | TColl size kind =>
      let (top, rest) := take_top size (m_stack s) in
      let '(vals, evs, x) := expand_args locals (map (fun _ => true) top) top in
      match x with
      | Some c => MExc c (m_log s ++ evs) (m_taint s)
      | None => let l := all_values vals in
                MOk {| m_stack := IVal (match kind with CTuple => VTuple l | CList => VList l end) :: rest;
                       m_log := m_log s ++ evs; m_taint := m_taint s |}
      end
  | TOp name =>
      match find_op name operators with
      | None => MExc "NoSuchOperator" (m_log s) (m_taint s)
      | Some o =>
          let (top, rest) := take_top (op_arity o) (m_stack s) in
          let '(args, evs, x) := expand_args locals (op_expand o) top in
          match x with
          | Some c => MExc c (m_log s ++ evs) (m_taint s)
          | None =>
              if negb (Nat.eqb (List.length args) (op_params o)) then MExc "TypeError" (m_log s ++ evs) (m_taint s)
              else match exec_sem guard h (op_sem o) args with
                   | RV v e t => MOk {| m_stack := IVal v :: rest; m_log := m_log s ++ evs ++ e; m_taint := m_taint s || t |}
                   | RX c e => MExc c (m_log s ++ evs ++ e) (m_taint s)
                   end
          end
      end
  | _ => MOk {| m_stack := ITok t :: m_stack s; m_log := m_log s; m_taint := m_taint s |}
  end.

Fixpoint run (guard : string -> bool) (h : heap) (locals : env) (rpn : list token) (s : mstate) : mres :=
  match rpn with
  | [] => MOk s
  | t :: r => match step guard h locals t s with
              | MOk s1 => run guard h locals r s1
              | e => e end
  end.

Inductive outcome := OutItem (i : item) | OutExc (cls : string).
Record result := { r_out : outcome; log : list event; r_taint : bool }.

Definition m_init : mstate := {| m_stack := []; m_log := []; m_taint := false |}.

Definition finish (locals : env) (r : mres) : result :=
  match r with
  | MExc c l t => {| r_out := OutExc c; log := l; r_taint := t |}
  | MOk s =>
      match m_stack s with
      | [i] => match i with
               | ITok (TId n) => match get_value locals i with
                                 | XV v e => {| r_out := OutItem (IVal v); log := m_log s ++ e; r_taint := m_taint s |}
                                 | XX c e => {| r_out := OutExc c; log := m_log s ++ e; r_taint := m_taint s |}
                                 end
               | _ => {| r_out := OutItem i; log := m_log s; r_taint := m_taint s |}
               end
      | _ => {| r_out := OutExc "RuntimeError"; log := m_log s; r_taint := m_taint s |}
      end
  end.

Definition eval_g (guard : string -> bool) (rpn : list token) (h : heap) (locals : env) : result :=
  finish locals (run guard h locals rpn m_init).

(* Expression(rpn).eval(locals=locals) with the default globals (the translated whitelist) and the translated guard *)
Definition eval (rpn : list token) (h : heap) (locals : env) : result := eval_g member_allowed rpn h locals.

(* the guard the repair of D12 would install: also refuse the attribute-reading members *)
Definition repaired_guard (n : string) : bool := negb (is_private n) && negb (is_fmt n).

(* ------------------------------------------------------------------ correspondence *)
Definition planted (h : heap) (i : nat) (n : string) : bool := is_some (assoc n (heap_attrs h i)).

Fixpoint proj_reads (h : heap) (l : list event) : list (nat * string) :=
  match l with
  | [] => []
  | ReadAttr _ (VObj i) n :: r => if planted h i n then (i, n) :: proj_reads h r else proj_reads h r
  | _ :: r => proj_reads h r
  end.
Fixpoint proj_resolved (l : list event) : list string :=
  match l with [] => [] | Resolve n :: r => n :: proj_resolved r | _ :: r => proj_resolved r end.

Definition read_eqb (a b : nat * string) : bool := Nat.eqb (fst a) (fst b) && String.eqb (snd a) (snd b).
Fixpoint list_eqb {A} (eqb : A -> A -> bool) (x y : list A) : bool :=
  match x, y with
  | [], [] => true
  | a :: x', b :: y' => eqb a b && list_eqb eqb x' y'
  | _, _ => false
  end.
Fixpoint list_prefix {A} (eqb : A -> A -> bool) (x y : list A) : bool :=
  match x, y with
  | [], _ => true
  | a :: x', b :: y' => eqb a b && list_prefix eqb x' y'
  | _, _ => false
  end.

(* may the model's log account for the observed read (i, n)? *)
Definition covers (l : list event) (r : nat * string) : bool :=
  existsb (fun e => match e with
                    | ReadAny => true
                    | ReadAttr _ (VObj j) m => Nat.eqb j (fst r) && String.eqb m (snd r)
                    | ReadAttr _ (VOpaque | VForeign) m => String.eqb m (snd r)
                    | _ => false end) l.

(* does the observed value fit the model's?  VOpaque / VBoundMethod in the model fit anything *)
Fixpoint val_fits (m o : val) : bool :=
  match m, o with
  | VOpaque, _ | VBoundMethod _ _, _ | VForeign, _ => true
  | VInt a, VInt b => Z.eqb a b
  | VFloat a, VFloat b => String.eqb a b
  | VStr a, VStr b => String.eqb a b
  | VBool a, VBool b => Bool.eqb a b
  | VNone, VNone => true
  | VList a, VList b | VTuple a, VTuple b =>
      (fix go (x y : list val) : bool :=
         match x, y with
         | [], [] => true
         | p :: x', q :: y' => val_fits p q && go x' y'
         | _, _ => false end) a b
  | VDict a, VDict b =>
      (fix go (x y : list (val * val)) : bool :=
         match x, y with
         | [], [] => true
         | (k, p) :: x', (k', q) :: y' => val_fits k k' && val_fits p q && go x' y'
         | _, _ => false end) a b
  | VObj i, VObj j => Nat.eqb i j
  | VBuiltin a, VBuiltin b => String.eqb a b
  | _, _ => false
  end.

Definition token_eqb (a b : token) : bool :=
  match a, b with
  | TInt x, TInt y => Z.eqb x y
  | TFloat x, TFloat y => String.eqb x y
  | TStr x, TStr y => String.eqb x y
  | TId x, TId y => String.eqb x y
  | TColl n k, TColl m k' => Nat.eqb n m && match k, k' with CTuple, CTuple | CList, CList => true | _, _ => false end
  | TOp x, TOp y => String.eqb x y
  | TOther, TOther => true
  | _, _ => false
  end.

Definition out_fits (m : outcome) (o : obs) : bool :=
  match m, o with
  | OutExc c, ObsExc c' => String.eqb c "?" || String.eqb c c'
  | OutItem (ITok t), ObsTok t' => token_eqb t t'
  | OutItem (IVal v), ObsVal v' => val_fits v v'
  | _, _ => false
  end.

Definition corr_C19 (c : case) : bool :=
  let r := eval (c_rpn c) (c_heap c) (c_locals c) in
  if r_taint r then
    (* over-approximation: everything observed is accounted for by the model's log *)
    forallb (covers (log r)) (c_reads c) &&
    (list_prefix String.eqb (c_resolved c) (proj_resolved (log r)) ||
     list_prefix String.eqb (proj_resolved (log r)) (c_resolved c))
  else
    list_eqb read_eqb (proj_reads (c_heap c) (log r)) (c_reads c) &&
    list_eqb String.eqb (proj_resolved (log r)) (c_resolved c) &&
    out_fits (r_out r) (c_out c).

(* what the model computes for a case (printed by the harness for disagreeing cases) *)
Definition model_view (c : case) :=
  let r := eval (c_rpn c) (c_heap c) (c_locals c) in
  (r_out r, proj_reads (c_heap c) (log r), proj_resolved (log r), r_taint r).

(* is the case inside the exactly-modelled fragment? (counted in the evidence) *)
Definition exact_C19 (c : case) : bool := negb (r_taint (eval (c_rpn c) (c_heap c) (c_locals c))).
