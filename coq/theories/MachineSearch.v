(* C04 (Bounded protocol contract) for the model of IterativeTighteningSearch.tighten_bounds() in SearchModel.v:
   the search seen as a machine whose bounds() is `sbounds s m` and whose tighten_bounds() is
   `search_tighten fuel s m = Done (r, s', m')`.

   For every state of an invariant that contains the initial state of a search over non-empty, sound
   (`wf_sched`) and strict (`strict_sched`: consecutive ranges of a schedule differ, i.e. an item's
   tighten_bounds() returns True only when its bounds changed) items, and that is closed under search_tighten:
     (1) the bounds never widen;
     (2) they contain the final value V (the minimum of the items' final values);
     (3) a call that returns True changed the bounds;
     (4) a call that returns False left them unchanged, and they are the single value V;
     (5) a natural-number measure strictly decreases on every call that returns True;
   and the call never runs out of fuel, crashes or leaves the modelled fragment.

   Built on the C17 development (SearchProofs.v, Section Search): invariant `sinv`, `stb_loop_spec`, `final_result`.
   New here: `cinvU` (the stale key of a node of _untightened contains the item's current bounds) and strictness
   of the remaining schedules. *)
From Coq Require Import List Bool ZArith Lia Arith Permutation.
Require Import GT.BoundsSpec GT.SearchSpec GT.SearchModel GT.SearchProofs.
Import ListNotations.
Open Scope Z_scope.

(* ------------------------------------------------------------------ strict schedules *)

Fixpoint strict_schedb (s : schedule) : bool :=
  match s with
  | r :: ((r' :: _) as rest) => negb (range_eqb r r') && strict_schedb rest
  | _ => true
  end.
(* consecutive ranges differ *)
Definition strict_sched (s : schedule) : Prop := strict_schedb s = true.
Definition strict_ms (m : ms) : Prop := Forall strict_sched (its m).

Lemma tighten_strict m i t m' : strict_ms m -> tighten m i = (t, m') -> strict_ms m'.
Proof.
  unfold tighten, strict_ms. intros S.
  destruct (sched_of m i) as [|r [|r2 rest]] eqn:E; intros H; inversion H; subst; simpl; auto.
  apply Forall_upd; auto.
  assert (Hi : (i < nitems m)%nat).
  { destruct (Nat.lt_ge_cases i (nitems m)); auto. rewrite sched_nil_out in E by auto. discriminate. }
  assert (X : strict_sched (r :: r2 :: rest)).
  { rewrite Forall_forall in S. apply S. rewrite <- E. unfold sched_of. apply nth_In. exact Hi. }
  unfold strict_sched in *. simpl in X. apply andb_true_iff in X. tauto.
Qed.

(* a definitive item of a sound strict collection is exhausted: its tighten_bounds() returns False *)
Lemma tighten_def_false m i t m' :
  wf_ms m -> strict_ms m -> (i < nitems m)%nat -> definitive (bounds m i) = true ->
  tighten m i = (t, m') -> t = false.
Proof.
  intros W S Hi D. pose proof (wf_ms_sched m i W Hi) as Ws.
  assert (X : strict_sched (sched_of m i)).
  { unfold strict_ms in S. rewrite Forall_forall in S. apply S. unfold sched_of. apply nth_In. exact Hi. }
  unfold tighten, bounds in *.
  destruct (sched_of m i) as [|r [|r2 rest]] eqn:E; intros H; inversion H; subst; auto.
  exfalso. apply wf_sched_cons in Ws as (Ok & C & W2). apply wf_sched_ok in W2. simpl in W2, D.
  apply definitive_iff in D as [z ->]. apply contains_point in C; auto. subst r2.
  unfold strict_sched in X. simpl in X. apply andb_true_iff in X as [X _]. apply negb_true_iff in X.
  assert (Y : range_eqb (point z) (point z) = true) by (apply range_eqb_eq; reflexivity).
  unfold point in *. congruence.
Qed.

(* ------------------------------------------------------------------ order facts *)

Lemma rv_min_mono a b a' b' : rle a a' -> rle b b' -> rle (rv_min a b) (rv_min a' b').
Proof.
  intros A B. apply rv_min_glb.
  - eapply rle_trans; [apply rv_min_le_l|exact A].
  - eapply rle_trans; [apply rv_min_le_r|exact B].
Qed.
Lemma rv_min_posinf_l a : rv_min PosInf a = a.
Proof. unfold rv_min. destruct a; reflexivity. Qed.
Lemma rv_min_posinf_r a : rv_min a PosInf = a.
Proof. unfold rv_min. destruct a; reflexivity. Qed.
Lemma rle_posinf a : rle a PosInf. Proof. unfold rle; destruct a; reflexivity. Qed.
Lemma contains_full r : contains full_range r = true.
Proof. apply contains_iff. split; [apply rle_neginf|apply rle_posinf]. Qed.

(* the upper bound of the Range.__lt__-smaller of two ranges is the smaller upper bound *)
Lemma ltb_pick_hi a b : hi (if range_ltb a b then a else b) = rv_min (hi a) (hi b).
Proof.
  destruct a as [la ha], b as [lb hb]. unfold range_ltb, rv_min; simpl.
  destruct ha, hb; simpl; auto; try (destruct (rv_ltb la lb); reflexivity).
  destruct (Z.ltb_spec z z0), (Z.ltb_spec z0 z), (Z.eqb_spec z z0); simpl; auto; try lia;
    try (destruct (rv_ltb la lb); simpl; auto; f_equal; lia); f_equal; lia.
Qed.

(* ------------------------------------------------------------------ keys, upper value *)

(* the (possibly stale) key of every node contains the item's current bounds *)
Definition cinvU (m : ms) (U : heap) : Prop :=
  forall x, In x U -> contains (snd x) (bounds m (fst x)) = true.

Lemma cinvU_evolves m m' U : wf_ms m -> evolves m m' -> cinvU m U -> cinvU m' U.
Proof. intros W E C x Hx. eapply contains_trans; [apply C; auto|]. apply E; auto. Qed.
Lemma cinvU_sub m U U' : cinvU m U -> (forall x, In x U' -> In x U) -> cinvU m U'.
Proof. intros C S x Hx. apply C, S, Hx. Qed.
Lemma cinvU_ext m U U' i : cinvU m U -> (forall x, In x U' -> x = (i, bounds m i) \/ In x U) -> cinvU m U'.
Proof. intros C S x Hx. destruct (S x Hx) as [->|H]; [apply contains_refl|apply C, H]. Qed.

Definition hdhi (m : ms) (h : heap) : rv :=
  match h with [] => PosInf | x :: _ => hi (bounds m (fst x)) end.
(* bounds().upper_bound when _unprocessed is None *)
Definition ubv (s : sst) (m : ms) : rv := rv_min (hdhi m (unt s)) (hdhi m (tig s)).
(* the minimum of the keys' lower bounds *)
Definition lbk (s : sst) : rv :=
  fold_left (fun lb (y : nat * range) => rv_min (lo (snd y)) lb) (unt s ++ tig s) PosInf.

Lemma best_ub s m b : best_match s m = Some b -> hi (bounds m b) = ubv s m.
Proof.
  unfold best_match, ubv, hdhi. destruct (unp s); [discriminate|].
  destruct (unt s) as [|[u ku] ur], (tig s) as [|[t kt] tr]; simpl; intros H; inversion H; subst; clear H.
  - now rewrite rv_min_posinf_l.
  - now rewrite rv_min_posinf_r.
  - rewrite <- ltb_pick_hi. destruct (range_ltb (bounds m u) (bounds m t)); inversion H1; subst; reflexivity.
Qed.

Lemma hdhi_hpush_le m h i b :
  (forall z, In z h -> rle (hi (bounds m (fst z))) (hi (snd z))) -> bounds m i = b ->
  rle (hdhi m (hpush h (i, b))) (hi b).
Proof.
  intros K E. unfold hpush. destruct h as [|z r]; simpl; [rewrite E; apply rle_refl|].
  destruct (range_ltb b (snd z)) eqn:L; simpl; [rewrite E; apply rle_refl|].
  eapply rle_trans; [apply K; left; auto|].
  revert L. generalize (snd z). intros k L. clear - L. unfold rle. rv_solve.
Qed.
Lemma hdhi_hpush_tig m h i b :
  (forall z, In z h -> snd z = bounds m (fst z)) -> bounds m i = b ->
  rle (hdhi m (hpush h (i, b))) (hdhi m h).
Proof.
  intros K E. unfold hpush. destruct h as [|z r]; simpl; [apply rle_posinf|].
  destruct (range_ltb b (snd z)) eqn:L; simpl; [|apply rle_refl].
  rewrite E. rewrite (K z) in L by (left; auto). revert L. generalize (bounds m (fst z)). intros k L.
  clear - L. unfold rle. rv_solve.
Qed.
Lemma hdhi_other m i t m' T : tighten m i = (t, m') -> ~ In i (ids T) -> hdhi m' T = hdhi m T.
Proof.
  intros Tg N. destruct T as [|z r]; simpl; auto. rewrite (tighten_other _ _ _ _ (fst z) Tg); auto.
  intros Q. apply N. rewrite <- Q. simpl. auto.
Qed.

(* ------------------------------------------------------------------ the search as a machine *)

Section Machine.
  Variable F : nat -> Z.
  Variable n : nat.
  Hypothesis Hn : (0 < n)%nat.

  Definition xinv (s : sst) (m : ms) : Prop := sinv F n s m /\ cinvU m (unt s) /\ strict_ms m.

  Lemma heap_entry s j : unp s = None -> In j (live s) -> exists y, In y (unt s ++ tig s) /\ fst y = j.
  Proof.
    intros Eu Hj. rewrite live_none in Hj by auto. unfold ids in Hj. apply in_map_iff in Hj as (y & <- & Hy). eauto.
  Qed.

  Lemma lbk_le s m i : sinv F n s m -> unp s = None -> (i < n)%nat -> rle (lbk s) (Fin (F i)).
  Proof.
    intros (L & M & H) Eu Hi. destruct (l_dom _ _ _ L i Hi) as (j & Hj & Le).
    destruct (heap_entry s j Eu Hj) as (y & Hy & <-).
    eapply rle_trans; [apply fold_min_le; exact Hy|]. eapply rle_trans; [apply (h_key _ _ _ _ H); exact Hy|].
    now apply rle_fin.
  Qed.

  Lemma best_some s m : sinv F n s m -> unp s = None -> exists b, best_match s m = Some b.
  Proof.
    intros (L & M & H) Eu. destruct (l_dom _ _ _ L 0%nat Hn) as (j & Hj & _).
    destruct (heap_entry s j Eu Hj) as (y & Hy & _).
    unfold best_match. rewrite Eu.
    destruct (unt s) as [|[u ku] ur], (tig s) as [|[t kt] tr]; simpl in *; eauto; [tauto|].
    destruct (range_ltb (bounds m u) (bounds m t)); eauto.
  Qed.

  Lemma best_lt s m b : sinv F n s m -> best_match s m = Some b -> (b < n)%nat.
  Proof. intros (L & _) Bm. apply (l_lt _ _ _ L). now apply (best_match_live s m b). Qed.

  Lemma sbounds_form s m :
    sinv F n s m -> unp s = None -> sbounds s m = mkR (rv_min (lbk s) (ubv s m)) (ubv s m).
  Proof.
    intros I Eu. destruct (best_some s m I Eu) as (b & Bm).
    unfold sbounds. rewrite Bm. fold (lbk s). rewrite (best_ub _ _ _ Bm).
    pose proof (lbk_le s m 0%nat I Eu Hn) as A.
    destruct (lbk s); simpl in *; auto. unfold rle in A. discriminate.
  Qed.

  Lemma sbounds_some s m l : unp s = Some l -> sbounds s m = full_range.
  Proof. intros E. unfold sbounds, best_match. rewrite E. reflexivity. Qed.

  (* V <= upper value *)
  Lemma ubv_ge s m i : sinv F n s m -> unp s = None -> (forall j, (j < n)%nat -> F i <= F j) -> rle (Fin (F i)) (ubv s m).
  Proof.
    intros I Eu Mn. destruct (best_some s m I Eu) as (b & Bm). rewrite <- (best_ub _ _ _ Bm).
    pose proof (best_lt _ _ _ I Bm) as Hb. destruct I as (L & M & H). destruct M as [W N Fm].
    destruct (inrange m b W) as [_ B]; [lia|]. rewrite Fm in B.
    eapply rle_trans; [|exact B]. apply rle_fin. auto.
  Qed.

  (* one step of the machine state: keys only move up, the upper value only moves down *)
  Lemma step_mono s m s' m' :
    sinv F n s m -> sinv F n s' m' -> unp s = None -> unp s' = None ->
    (forall y', In y' (unt s' ++ tig s') -> exists y, In y (unt s ++ tig s) /\ rle (lo (snd y)) (lo (snd y'))) ->
    rle (ubv s' m') (ubv s m) ->
    contains (sbounds s m) (sbounds s' m') = true.
  Proof.
    intros I I' Eu Eu' K Ub. rewrite (sbounds_form s m), (sbounds_form s' m') by auto.
    apply contains_iff; simpl. split; auto.
    apply rv_min_glb.
    - eapply rle_trans; [apply rv_min_le_l|]. apply fold_min_glb; [apply rle_posinf|].
      intros y' Hy'. destruct (K y' Hy') as (y & Hy & Le).
      eapply rle_trans; [apply fold_min_le; exact Hy|exact Le].
    - eapply rle_trans; [apply rv_min_le_l|].
      destruct (best_some s' m' I' Eu') as (b & Bm). rewrite <- (best_ub _ _ _ Bm).
      pose proof (best_lt _ _ _ I' Bm) as Hb.
      eapply rle_trans; [apply (lbk_le s m b); auto|].
      destruct I' as (L & M & H). destruct M as [W N Fm].
      destruct (inrange m' b W) as [_ B]; [lia|]. rewrite Fm in B. exact B.
  Qed.

  Lemma key_contains s m y : xinv s m -> In y (unt s ++ tig s) -> contains (snd y) (bounds m (fst y)) = true.
  Proof.
    intros ((L & M & H) & C & _) Hy. apply in_app_or in Hy as [Hy|Hy]; [apply C; auto|].
    destruct (h_tig _ _ _ _ H y Hy) as [-> ->]. apply contains_refl.
  Qed.

  Lemma tig_key_bounds s m z : sinv F n s m -> In z (tig s) -> snd z = bounds m (fst z).
  Proof. intros (L & M & H) Hz. destruct (h_tig _ _ _ _ H z Hz) as [-> ->]. reflexivity. Qed.

  Lemma cinv_hi m U z : cinvU m U -> In z U -> rle (hi (bounds m (fst z))) (hi (snd z)).
  Proof. intros C Hz. specialize (C z Hz). apply contains_iff in C. tauto. Qed.


  (* ---------------- `if len(self._untightened) == 1` *)
  Lemma len1_step s1 m :
    xinv s1 m -> unp s1 = None -> unt s1 <> [] ->
    xinv (fst (stb_len1 s1 m)) (snd (stb_len1 s1 m)) /\
    contains (sbounds s1 m) (sbounds (fst (stb_len1 s1 m)) (snd (stb_len1 s1 m))) = true.
  Proof.
    intros (I & C & S) Eu Ne.
    destruct (stb_len1_spec F n s1 m I Eu Ne) as (I2 & E2 & U2 & _).
    revert I2 E2 U2. unfold stb_len1. destruct (unt s1) as [|[u k] [|z r]] eqn:E; [congruence| |].
    2:{ simpl. intros. split; [split; [auto|split; [rewrite E|]; auto]|apply contains_refl]. }
    destruct (tighten m u) as [t m'] eqn:Tg.
    pose proof (tighten_strict _ _ _ _ S Tg) as S'.
    assert (W : wf_ms m) by (destruct I as (_ & M & _); apply M).
    assert (ND : ~ In u (ids (tig s1))).
    { destruct I as (L & _). pose proof (l_nd _ _ _ L) as X. unfold live, unp_ids in X. rewrite Eu, E in X.
      simpl in X. now inversion X. }
    assert (Sh : rle (hi (bounds m' u)) (hi (bounds m u)) /\ rle (lo (bounds m u)) (lo (bounds m' u))).
    { pose proof (ev_shrink _ _ (proj1 (tighten_spec _ _ _ _ Tg)) W u) as X. apply contains_iff in X. tauto. }
    destruct (t && definitive (bounds m' u)) eqn:Cd; simpl; intros I2 E2 U2.
    - split; [split; [auto|split; auto]; intros x []|].
      apply (step_mono s1 m _ m'); auto.
      + simpl. intros y' Hy'. apply In_hpush in Hy' as [->|Hy'].
        * exists (u, k). split; [rewrite E; left; auto|]. simpl.
          pose proof (C (u, k)) as X. specialize (X (or_introl eq_refl)).
          apply contains_iff in X. simpl in X. eapply rle_trans; [apply X|apply Sh].
        * exists y'. split; [apply in_or_app; auto|apply rle_refl].
      + unfold ubv. rewrite E. simpl. rewrite rv_min_posinf_l. apply rv_min_glb.
        * eapply rle_trans; [|apply Sh]. apply hdhi_hpush_le; auto.
          intros z Hz. rewrite (tig_key_bounds _ _ z I2) by (simpl; apply In_hpush; auto). apply rle_refl.
        * rewrite <- (hdhi_other m u t m' (tig s1) Tg ND). apply hdhi_hpush_tig; auto.
          intros z Hz. apply (tig_key_bounds _ _ z I2). simpl. apply In_hpush; auto.
    - split; [split; [auto|split; auto]; rewrite E; eapply cinvU_evolves; eauto|].
      apply (step_mono s1 m s1 m'); auto.
      + intros y' Hy'. exists y'. split; auto. apply rle_refl.
      + unfold ubv. rewrite E. simpl. rewrite (hdhi_other m u t m' (tig s1) Tg ND).
        apply rv_min_mono; [apply Sh|apply rle_refl].
  Qed.

  (* ---------------- the goal-test branch: everything but the best match is discarded *)
  Lemma goal_step s2 m2 b ret m3 h :
    xinv s2 m2 -> goal_test s2 m2 = true -> best_match s2 m2 = Some b -> tighten m2 b = (ret, m3) ->
    xinv (push_item (mkS None [] [] h) m3 b) m3 /\
    contains (sbounds s2 m2) (sbounds (push_item (mkS None [] [] h) m3 b) m3) = true /\ ret = false.
  Proof.
    intros X G Bm Tg. pose proof X as (I & C & S).
    destruct (goal_sound F n s2 m2 I G) as (b' & Bm' & Eu & Hb & Mn). rewrite Bm in Bm'. inversion Bm'; subst b'.
    pose proof (goal_state_inv F n s2 m2 b ret m3 h I Hb Mn Tg) as I3.
    destruct (heap_entry s2 b Eu Hb) as (y & Hy & Fy).
    pose proof (key_contains s2 m2 y X Hy) as Ky. rewrite Fy in Ky. apply contains_iff in Ky as [Ky1 Ky2].
    destruct (tighten_spec _ _ _ _ Tg) as (Ev & _).
    pose proof I as (_ & M & _). destruct M as [Wm N Fm].
    pose proof (best_lt s2 m2 b I Bm) as Hbn.
    pose proof (ev_shrink _ _ Ev Wm b) as Sh. apply contains_iff in Sh as [Sh1 Sh2].
    split; [|split].
    - split; [auto|split; [|eapply tighten_strict; eauto]]. unfold push_item.
      destruct (definitive (bounds m3 b)); simpl; intros x Hx; [destruct Hx|].
      destruct Hx as [<-|[]]. apply contains_refl.
    - apply step_mono; auto; [apply unp_push_item| |].
      + intros y' Hy'. exists y. split; auto.
        assert (Q : y' = (b, bounds m3 b)).
        { unfold push_item in Hy'. destruct (definitive (bounds m3 b)); simpl in Hy'; intuition. }
        subst y'. simpl. eapply rle_trans; eauto.
      + rewrite <- (best_ub _ _ _ Bm). unfold ubv, push_item.
        destruct (definitive (bounds m3 b)); simpl; rewrite ?rv_min_posinf_l, ?rv_min_posinf_r; auto.
    - apply (tighten_def_false m2 b ret m3); auto; [lia|].
      unfold goal_test in G. rewrite Eu, Bm in G. apply dominates_iff in G.
      rewrite (sbounds_form s2 m2) in G by auto. simpl in G.
      assert (A : rle (hi (bounds m2 b)) (lo (bounds m2 b))).
      { eapply rle_trans; [exact G|]. eapply rle_trans; [apply rv_min_le_l|].
        eapply rle_trans; [apply fold_min_le; exact Hy|exact Ky1]. }
      destruct (inrange m2 b Wm) as [B1 B2]; [lia|].
      pose proof (rle_antisym _ _ (rle_trans _ _ _ A B1) B2) as Q1.
      pose proof (rle_antisym _ _ B1 (rle_trans _ _ _ B2 A)) as Q2.
      unfold definitive. rewrite Q1, Q2. simpl. rewrite Z.eqb_refl. reflexivity.
  Qed.

  (* ---------------- the main branch: heap._min of _untightened is tightened, then _update_bounds(node) *)
  Lemma main_step s2 m2 i k0 rest t m3 :
    xinv s2 m2 -> unt s2 = (i, k0) :: rest -> tighten m2 i = (t, m3) ->
    xinv (update_bounds s2 m3 i k0) m3 /\
    (unp s2 = None -> contains (sbounds s2 m2) (sbounds (update_bounds s2 m3 i k0) m3) = true) /\
    unp (update_bounds s2 m3 i k0) = unp s2.
  Proof.
    intros X E Tg. pose proof X as (I & C & S).
    destruct (update_bounds_inv F n s2 m2 m3 t i k0 rest I E Tg) as (I3 & U3).
    destruct (tighten_spec _ _ _ _ Tg) as (Ev & _).
    pose proof I as (L & M & H). destruct M as [Wm N Fm].
    pose proof (ev_shrink _ _ Ev Wm i) as Sh. apply contains_iff in Sh as [Sh1 Sh2].
    assert (Lx : live s2 = unp_ids s2 ++ i :: ids rest ++ ids (tig s2))
      by (unfold live; rewrite E; reflexivity).
    assert (Hi : (i < n)%nat) by (apply (l_lt _ _ _ L); rewrite Lx; apply in_or_app; right; left; auto).
    assert (ND : ~ In i (ids (tig s2))).
    { pose proof (l_nd _ _ _ L) as Q. rewrite Lx in Q. apply nodup_app_r in Q. inversion Q as [|? ? Ni _]; subst.
      intros Q'. apply Ni. apply in_or_app; auto. }
    assert (C3 : cinvU m3 (unt s2)) by (eapply cinvU_evolves; eauto).
    assert (M3 : minv F n m3) by apply I3.
    assert (Ok3 : rle (lo (bounds m3 i)) (hi (bounds m3 i))).
    { apply range_ok_iff. apply bounds_ok; [apply M3|]. rewrite (m_n _ _ _ M3). auto. }
    assert (HT : hdhi m3 (tig s2) = hdhi m2 (tig s2)) by (eapply hdhi_other; eauto).
    assert (Tk : forall z, In z (tig s2) -> snd z = bounds m3 (fst z)).
    { intros z Hz. rewrite (tighten_other _ _ _ _ (fst z) Tg).
      - apply (tig_key_bounds s2 m2 z I Hz).
      - intros Q. apply ND. rewrite <- Q. unfold ids. now apply in_map. }
    assert (K0 : rle (lo k0) (lo (bounds m3 i))).
    { pose proof (C (i, k0)) as Q. rewrite E in Q. specialize (Q (or_introl eq_refl)).
      apply contains_iff in Q. simpl in Q. eapply rle_trans; [apply Q|exact Sh1]. }
    destruct (pop_unt_spec s2 (i, k0) rest E) as (P1 & P2 & P3 & _).
    assert (Pu : forall y, In y (unt (pop_unt s2)) -> In y (unt s2)) by (intros y Hy; rewrite E; right; auto).
    assert (Old : ubv s2 m2 = rv_min (hi (bounds m2 i)) (hdhi m2 (tig s2))) by (unfold ubv; rewrite E; reflexivity).
    assert (Sp : (forall y, In y (unt (update_bounds s2 m3 i k0)) -> y = (i, bounds m3 i) \/ In y (unt s2)) /\
                 (forall y, In y (tig (update_bounds s2 m3 i k0)) -> y = (i, bounds m3 i) \/ In y (tig s2)) /\
                 (unp s2 = None -> rle (ubv (update_bounds s2 m3 i k0) m3) (ubv s2 m2))).
    { rewrite Old. clear I3 U3. unfold update_bounds.
      destruct (match best_match s2 m3 with
                | Some b => negb (Nat.eqb b i) && dominates (bounds m3 b) (bounds m3 i)
                | None => false end) eqn:Dm.
      - rewrite P2. split; [auto|split; [auto|]]. intros Eu.
        destruct (best_match s2 m3) as [b|] eqn:Bm; [|discriminate].
        apply andb_true_iff in Dm as [Nb Db]. apply negb_true_iff in Nb. apply Nat.eqb_neq in Nb.
        unfold best_match in Bm. rewrite Eu, E in Bm.
        destruct (tig s2) as [|[t0 kt] tr] eqn:Et; [inversion Bm; congruence|].
        assert (b = t0) by (destruct (range_ltb (bounds m3 i) (bounds m3 t0)); inversion Bm; congruence). subst b.
        unfold ubv. rewrite P2. apply rv_min_glb.
        + eapply rle_trans; [apply rv_min_le_r|]. simpl. apply dominates_iff in Db.
          eapply rle_trans; [exact Db|]. eapply rle_trans; [exact Ok3|exact Sh2].
        + eapply rle_trans; [apply rv_min_le_r|]. rewrite HT. apply rle_refl.
      - rewrite (not_init_dominates F n) by auto.
        destruct (definitive (bounds m3 i)) eqn:Df; [|destruct (rv_ltb (lo k0) (lo (bounds m3 i))) eqn:Lw].
        + cbn [unt tig unp]. rewrite P2. split; [auto|split].
          * intros y Hy. apply In_hpush in Hy. tauto.
          * intros Eu. unfold ubv. cbn [unt tig]. eapply rle_trans; [apply rv_min_le_r|]. apply rv_min_glb.
            -- eapply rle_trans; [|exact Sh2]. apply hdhi_hpush_le; auto.
               intros z Hz. rewrite (Tk z Hz). apply rle_refl.
            -- rewrite <- HT. apply hdhi_hpush_tig; auto.
        + cbn [unt tig unp]. rewrite P2. split; [|split; [auto|]].
          * intros y Hy. apply In_hpush in Hy as [Hy|Hy]; auto.
          * intros Eu. unfold ubv. cbn [unt tig]. apply rv_min_mono.
            -- eapply rle_trans; [|exact Sh2]. apply hdhi_hpush_le; auto.
               intros z Hz. apply (cinv_hi m3 (unt s2)); auto.
            -- rewrite HT. apply rle_refl.
        + split; [auto|split; [auto|]]. intros Eu. unfold ubv. rewrite E. simpl.
          apply rv_min_mono; [exact Sh2|rewrite HT; apply rle_refl]. }
    destruct Sp as (Sp1 & Sp2 & Sp3).
    split; [|split; [|exact U3]].
    - split; [auto|split; [|eapply tighten_strict; eauto]]. eapply cinvU_ext; [exact C3|exact Sp1].
    - intros Eu. apply step_mono; auto; [rewrite U3; auto|].
      intros y' Hy'. apply in_app_or in Hy' as [Hy'|Hy'].
      + destruct (Sp1 y' Hy') as [->|Q]; [exists (i, k0); split; [rewrite E; left; auto|exact K0]|].
        exists y'. split; [apply in_or_app; auto|apply rle_refl].
      + destruct (Sp2 y' Hy') as [->|Q]; [exists (i, k0); split; [rewrite E; left; auto|exact K0]|].
        exists y'. split; [apply in_or_app; auto|apply rle_refl].
  Qed.

  (* ---------------- one call of tighten_bounds() *)
  Definition moved (start nb : range) : bool := rv_ltb (lo start) (lo nb) || rv_ltb (hi nb) (hi start).

  Definition post2 (start : range) (s : sst) (m : ms) (res : stb_result) : Prop :=
    forall r s' m', res = Done (r, s', m') ->
      xinv s' m' /\ (unp s = None -> contains (sbounds s m) (sbounds s' m') = true) /\
      moved start (sbounds s' m') = r.

  Lemma stb_finish_post2 k start s m s1 m1 tg :
    xinv s1 m1 -> (unp s = None -> unp s1 = None /\ contains (sbounds s m) (sbounds s1 m1) = true) ->
    post2 start s1 m1 (k s1 m1) -> post2 start s m (stb_finish k start s1 m1 tg).
  Proof.
    intros X Hc Hk r s' m'. unfold stb_finish. cbv zeta. fold (moved start (sbounds s1 m1)).
    destruct (moved start (sbounds s1 m1)) eqn:Mv.
    - intros H; inversion H; subst. split; auto. split; auto. intros; apply Hc; auto.
    - destruct (is_none (unp s1) && negb tg).
      + intros H; inversion H; subst. split; auto. split; auto. intros; apply Hc; auto.
      + intros H. destruct (Hk _ _ _ H) as (X' & Hc' & Mv'). split; auto. split; auto.
        intros Eu. destruct (Hc Eu) as [Eu1 C1]. eapply contains_trans; [exact C1|auto].
  Qed.

  Lemma stb_body_post2 k start s m :
    xinv s m -> (forall s1 m1, xinv s1 m1 -> post2 start s1 m1 (k s1 m1)) ->
    post2 start s m (stb_body k start s m).
  Proof.
    intros X Hk. pose proof X as (I & C & S). unfold stb_body. cbv zeta.
    assert (X1 : xinv (stb_pull s m) m /\ (unp s = None -> stb_pull s m = s)).
    { destruct (stb_pull_spec F n s m I) as (I1 & Ps & _). split; auto. split; auto. split; auto.
      unfold stb_pull. destruct (unp s) as [[|x rest]|]; simpl; auto.
      unfold push_item. destruct (definitive (bounds m x)); simpl; auto.
      eapply cinvU_ext; [exact C|]. intros y Hy. apply In_hpush in Hy. exact Hy. }
    destruct X1 as (X1 & Ps).
    assert (Pn : unp s = None -> unp (stb_pull s m) = None) by (intros Eu; rewrite (Ps Eu); auto).
    assert (Pc : unp s = None -> sbounds (stb_pull s m) m = sbounds s m) by (intros Eu; rewrite (Ps Eu); auto).
    clear Ps. set (s1 := stb_pull s m) in *.
    destruct (unt s1) as [|[u ku] urest] eqn:Eu1.
    - apply stb_finish_post2; auto. intros Eu. split; auto. rewrite (Pc Eu). apply contains_refl.
    - destruct (unp s1) eqn:Ep; cbn [is_none andb].
      + rewrite Eu1. destruct (tighten m u) as [t m3] eqn:Tg.
        destruct t; [|intros r s' m' H; discriminate].
        destruct (main_step s1 m u ku urest true m3 X1 Eu1 Tg) as (X3 & _).
        apply stb_finish_post2; auto. intros Eu. pose proof (Pn Eu) as Q. congruence.
      + pose proof X1 as (I1 & _).
        assert (Ne : unt s1 <> []) by (rewrite Eu1; discriminate).
        destruct (len1_step s1 m X1 Ep Ne) as (X2 & C2).
        destruct (stb_len1_spec F n s1 m I1 Ep Ne) as (_ & _ & U2 & _).
        destruct (stb_len1 s1 m) as [s2 m2]. simpl in X2, C2, U2.
        assert (Cs : unp s = None -> contains (sbounds s m) (sbounds s2 m2) = true).
        { intros Eu. rewrite <- (Pc Eu). exact C2. }
        destruct (goal_test s2 m2) eqn:G.
        * destruct (best_match s2 m2) as [b|] eqn:Bm; [|intros r s' m' H; discriminate].
          destruct (tighten m2 b) as [ret m3] eqn:Tg.
          destruct (goal_step s2 m2 b ret m3 (hints s2) X2 G Bm Tg) as (X3 & C3 & Rf). subst ret.
          rewrite U2. intros r s' m' H. inversion H; subst. split; auto. split; [|reflexivity].
          intros Eu. eapply contains_trans; [apply Cs; auto|exact C3].
        * destruct (unt s2) as [|[i k0] rest] eqn:Eu2; [intros r s' m' H; discriminate|].
          destruct (tighten m2 i) as [t m3] eqn:Tg.
          destruct t; [|intros r s' m' H; discriminate].
          destruct (main_step s2 m2 i k0 rest true m3 X2 Eu2 Tg) as (X3 & C3 & U3).
          apply stb_finish_post2; auto.
          intros Eu. split; [rewrite U3; auto|]. eapply contains_trans; [apply Cs; auto|apply C3; auto].
  Qed.

  Lemma stb_loop_post2 fuel : forall start s m, xinv s m -> post2 start s m (stb_loop fuel start s m).
  Proof.
    induction fuel; intros start s m X; simpl; [intros r s' m' H; discriminate|].
    apply stb_body_post2; auto.
  Qed.

End Machine.

(* ------------------------------------------------------------------ the contract *)

Lemma exists_min (F : nat -> Z) : forall n, (0 < n)%nat ->
  exists b, (b < n)%nat /\ forall i, (i < n)%nat -> F b <= F i.
Proof.
  induction n; [lia|]. intros _. destruct n.
  - exists 0%nat. split; [lia|]. intros i Hi. replace i with 0%nat by lia. lia.
  - destruct IHn as (b & Hb & Mn); [lia|]. destruct (Z_le_gt_dec (F b) (F (S n))).
    + exists b. split; [lia|]. intros i Hi. destruct (Nat.eq_dec i (S n)); [subst; lia|apply Mn; lia].
    + exists (S n). split; [lia|]. intros i Hi. destruct (Nat.eq_dec i (S n)); [subst; lia|].
      specialize (Mn i ltac:(lia)). lia.
Qed.

(* the search has finished: nothing unprocessed, nothing untightened *)
Definition is_final (s : sst) : bool := is_none (unp s) && match unt s with [] => true | _ => false end.
Lemma is_final_iff s : is_final s = true <-> unp s = None /\ unt s = [].
Proof.
  unfold is_final. destruct (unp s), (unt s); simpl; split; intros H; try discriminate; auto;
    destruct H; discriminate.
Qed.
(* remaining schedule entries + unprocessed inputs (+1), +1 until the search has finished *)
Definition mu2 (s : sst) (m : ms) : nat := (mu s m + if is_final s then 0 else 1)%nat.

(* what one call `search_tighten fuel s m = Done (r, s', m')` guarantees *)
Record search_step_ok (V : Z) (Inv : sst -> ms -> Prop) (measure : sst -> ms -> nat)
       (s : sst) (m : ms) (r : bool) (s' : sst) (m' : ms) : Prop := {
  ok_inv     : Inv s' m';
  ok_narrow  : contains (sbounds s m) (sbounds s' m') = true;                                   (* (1) *)
  ok_sound   : rle (lo (sbounds s m)) (Fin V) /\ rle (Fin V) (hi (sbounds s m));                (* (2) *)
  ok_true    : r = true -> sbounds s' m' <> sbounds s m;                                        (* (3) *)
  ok_false   : r = false -> sbounds s m = point V /\ sbounds s' m' = sbounds s m;               (* (4) *)
  ok_measure : r = true -> (measure s' m' < measure s m)%nat                                    (* (5) *)
}.

Lemma search_step F n V s m fuel :
  (0 < n)%nat -> (exists b, (b < n)%nat /\ F b = V /\ forall i, (i < n)%nat -> V <= F i) ->
  xinv F n s m -> (mu s m < fuel)%nat ->
  exists r s' m', search_tighten fuel s m = Done (r, s', m') /\ (mu s' m' <= mu s m)%nat /\
    search_step_ok V (xinv F n) mu2 s m r s' m'.
Proof.
  intros Hn (b & Hb & Fb & Mn) X Lt. pose proof X as (I & _). unfold search_tighten.
  destruct (stb_loop_spec F n fuel (sbounds s m) s m I Lt) as (r & s' & m' & R & I' & Ev & Le & Pt & Pf).
  destruct (stb_loop_post2 F n Hn fuel (sbounds s m) s m X r s' m' R) as (X' & Cn & Mv).
  exists r, s', m'. split; [exact R|]. split; [exact Le|].
  assert (C1 : contains (sbounds s m) (sbounds s' m') = true).
  { destruct (unp s) eqn:Eu; [rewrite (sbounds_some s m l Eu); apply contains_full|apply Cn; auto]. }
  constructor; auto.
  - destruct (unp s) eqn:Eu.
    + rewrite (sbounds_some s m l Eu). simpl. split; [apply rle_neginf|apply rle_posinf].
    + rewrite (sbounds_form F n Hn s m I Eu). simpl. subst V. split.
      * eapply rle_trans; [apply rv_min_le_l|]. apply (lbk_le F n s m b); auto.
      * apply (ubv_ge F n Hn); auto.
  - intros -> Q. rewrite Q in Mv. unfold moved in Mv. rewrite !rv_ltb_irrefl in Mv. discriminate.
  - intros ->. destruct (Pf eq_refl) as [U1 U2].
    destruct (final_result F n s' m' I' U1 U2 Hn) as (b' & _ & Hb' & Mn' & Sb).
    assert (Q : F b' = V) by (specialize (Mn b' Hb'); specialize (Mn' b Hb); lia).
    rewrite Q in Sb.
    assert (E : sbounds s' m' = sbounds s m).
    { unfold moved in Mv. apply orb_false_iff in Mv as [M1 M2]. apply rv_ltb_false in M1, M2.
      apply contains_iff in C1 as [C1 C2].
      destruct (sbounds s m) as [a1 a2], (sbounds s' m') as [b1 b2]; simpl in *.
      f_equal; apply rle_antisym; auto. }
    split; auto. rewrite <- E. exact Sb.
  - intros ->.
    assert (Nf : is_final s = false).
    { destruct (is_final s) eqn:Fs; auto. apply is_final_iff in Fs as [U1 U2].
      destruct fuel as [|f]; [lia|]. rewrite (stb_final_state f s m U1 U2) in R. discriminate. }
    unfold mu2. rewrite Nf.
    destruct (Pt eq_refl) as [Lt'|[Ne|[U1 U2]]]; [|congruence|].
    + destruct (is_final s'); lia.
    + rewrite (proj2 (is_final_iff s') (conj U1 U2)). lia.
Qed.

(* Bounded protocol contract of IterativeTighteningSearch (model), for sound strict items *)
Theorem search_contract : forall (items : list schedule) (hints : list nat),
  items <> [] -> Forall (fun s => wf_sched s = true) items -> Forall strict_sched items ->
  exists (Inv : sst -> ms -> Prop) (V : Z) (measure : sst -> ms -> nat),
    Inv (mkS (Some (seq 0 (length items))) [] [] hints) (mkMs items []) /\
    (exists b, (b < length items)%nat /\ fin_at items b = V /\
               forall i, (i < length items)%nat -> V <= fin_at items i) /\
    forall s m, Inv s m -> forall fuel, (fuel_for items <= fuel)%nat ->
      exists r s' m', search_tighten fuel s m = Done (r, s', m') /\
                      search_step_ok V Inv measure s m r s' m'.
Proof.
  intros items hints Ne W St.
  set (F := fin_at items). set (n := length items). set (m0 := mkMs items []).
  set (s0 := mkS (Some (seq 0 n)) [] [] hints).
  assert (Hn : (0 < n)%nat) by (unfold n; destruct items; simpl; [congruence|lia]).
  destruct (exists_min F n Hn) as (b & Hb & Mn).
  assert (HV : exists b0, (b0 < n)%nat /\ F b0 = F b /\ forall i, (i < n)%nat -> F b <= F i) by eauto.
  exists (fun s m => xinv F n s m /\ (mu s m <= mu s0 m0)%nat), (F b), mu2.
  split; [|split; [exact HV|]].
  - split; [|lia]. split; [|split].
    + split; [|split].
      * unfold live, unp_ids; simpl. rewrite app_nil_r. constructor.
        -- intros i Hi. apply in_seq in Hi. lia.
        -- apply seq_NoDup.
        -- intros i Hi. exists i. split; [apply in_seq; lia|lia].
      * constructor; [exact W | reflexivity | intros; reflexivity].
      * constructor; simpl; try tauto; intros; discriminate.
    + intros x [].
    + exact St.
  - intros s m [X Le] fuel Hf.
    assert (Lt : (mu s m < fuel)%nat).
    { unfold mu, SearchProofs.rem, s0, m0, fuel_for in *. simpl in Le. rewrite seq_length in Le. fold n in Hf. lia. }
    destruct (search_step F n (F b) s m fuel Hn HV X Lt) as (r & s' & m' & R & Le' & [A1 A2 A3 A4 A5 A6]).
    exists r, s', m'. split; [exact R|]. constructor; auto. split; auto. lia.
Qed.

(* ------------------------------------------------------------------ example: the hypotheses are satisfiable *)

Definition mc_R (a b : Z) : range := mkR (Fin a) (Fin b).
Definition mc_items : list schedule :=
  [ [mc_R 0 10; mc_R 0 8; mc_R 0 7; mc_R 5 5];
    [mc_R 1 9; mc_R 2 9; mc_R 6 6];
    [mc_R 0 20; mc_R 4 12; mc_R 5 7; mc_R 7 7] ].

Example mc_items_hyps :
  mc_items <> [] /\ Forall (fun s => wf_sched s = true) mc_items /\ Forall strict_sched mc_items.
Proof. split; [discriminate|]. split; repeat constructor. Qed.

(* values returned by successive calls of search_tighten, with the bounds after each call *)
Fixpoint mc_run (fuel k : nat) (s : sst) (m : ms) : list (bool * range) :=
  match k with
  | O => []
  | S k' => match search_tighten fuel s m with
            | Done (r, s', m') => (r, sbounds s' m') :: (if r then mc_run fuel k' s' m' else [])
            | _ => []
            end
  end.

Example mc_run_trace :
  mc_run (fuel_for mc_items) 10 (mkS (Some (seq 0 (length mc_items))) [] [] []) (mkMs mc_items []) =
  [(true, mc_R 0 6); (true, mc_R 0 5); (true, point 5); (false, point 5)].
Proof. vm_compute. reflexivity. Qed.

Example mc_contract :
  exists (Inv : sst -> ms -> Prop) (V : Z) (measure : sst -> ms -> nat),
    Inv (mkS (Some (seq 0 (length mc_items))) [] [] []) (mkMs mc_items []) /\
    (exists b, (b < length mc_items)%nat /\ fin_at mc_items b = V /\
               forall i, (i < length mc_items)%nat -> V <= fin_at mc_items i) /\
    forall s m, Inv s m -> forall fuel, (fuel_for mc_items <= fuel)%nat ->
      exists r s' m', search_tighten fuel s m = Done (r, s', m') /\
                      search_step_ok V Inv measure s m r s' m'.
Proof.
  destruct mc_items_hyps as (A & B & C). exact (search_contract mc_items [] A B C).
Qed.

(* strictness cannot be dropped from clause (3): with a sound item that answers True without changing its
   bounds ([5,5] -> [5,5]) the goal-test branch returns True (`ret`) although the bounds stay [5,5] *)
Definition mc_nonstrict : list schedule :=
  [ [mc_R 5 5; mc_R 5 5];
    [mc_R 3 20; mc_R 3 19; mc_R 3 18; mc_R 6 18; mc_R 7 7];
    [mc_R 6 30; mc_R 6 29; mc_R 6 28; mc_R 8 8] ].
Example mc_strict_needed :
  forallb wf_sched mc_nonstrict = true /\ forallb strict_schedb mc_nonstrict = false /\
  mc_run (fuel_for mc_nonstrict) 10 (mkS (Some (seq 0 (length mc_nonstrict))) [] [] []) (mkMs mc_nonstrict []) =
  [(true, point 5); (true, point 5); (false, point 5)].
Proof. vm_compute. auto. Qed.

Print Assumptions search_contract.
