(* C04, Part D: the universal machine and the closing induction over trees (scalars, strings, lists, key/value pairs,
   FixedKeyDictNodes, DictNodes / MultiSetNodes without repeated elements).  Parts A-C are in MachineCore.v (re-exported),
   EditCollection in MachineColl.v, the matcher and MultiSetEdit in MachineMatch.v. *)
From Coq Require Import ZArith List Bool Lia Permutation Sorted.
Require Import GT.PyBase GT.Data GT.EdTypes GT.EdEngine GT.EdFacts GT.EdEngineProofs GT.LevModel GTgen.EdGen GT.EdParams
               GT.EdTie GT.ScriptSpec GT.ScriptModel GT.ListAux GT.ScriptProofs GT.EqualSpec GT.EqualProofs
               GT.MachineSpec GT.MachineModel GT.MachineColl GT.MachineMatch.
Require Export GT.MachineCore.
Import ListNotations.
Open Scope Z_scope.

Section Orc.
Variable orc : oracle.      (* the answers of make_distinct and of the assignment solver: arbitrary *)

(* ================================================================ Part D: the universal machine, induction over trees *)

Lemma um_const : forall k d c, ContractV k (UM d) (SConst c) c.
Proof.
  intros k d c. exists (fun t => t = SConst c). split; [reflexivity|].
  intros t ->. unfold step_ok. cbn [UM St bnd tig]. destruct d; cbn [tigU bndU fst snd];
    (split; [reflexivity|]; split; [lia|]; split; [apply contains_refl|]; split; [discriminate|]; intros _; split; reflexivity).
Qed.

Lemma um_sum : forall k d l vs, Forall2 (fun s v => ContractV k (UM d) s v) l vs ->
  ContractV k (UM (S d)) (SSum l) (zsum vs).
Proof.
  intros k d l vs H.
  apply (cv_embed k (sumM (UM d)) (UM (S d)) SSum); [reflexivity|reflexivity|].
  apply sum_contract. exact H.
Qed.

Lemma um_fixed : forall k d l vs x, Forall2 (fun s v => ContractV k (UM d) s v) l vs ->
  ContractV true (UM (S d)) (SFixed l x) (zsum vs + x).
Proof.
  intros k d l vs x H.
  apply (cv_embed true (fixedM (UM d)) (UM (S d)) (fun s => SFixed (fst s) (snd s))
                  (fun s => match s with (_, _) => eq_refl end) (fun s => match s with (_, _) => eq_refl end) (l, x)).
  apply (fixed_contract k). exact H.
Qed.

Lemma um_ed : forall k d e v, ContractV k (edM (UM d)) e v -> ContractV k (UM (S d)) (SED e) v.
Proof.
  intros k d e v H. apply (cv_embed k (edM (UM d)) (UM (S d)) SED); [reflexivity|reflexivity|exact H].
Qed.

Lemma um_coll : forall d c v, ContractV true (collM (UM d)) c v -> ContractV true (UM (S d)) (SColl c) v.
Proof.
  intros d c v H. apply (cv_embed true (collM (UM d)) (UM (S d)) SColl); [reflexivity|reflexivity|exact H].
Qed.

Lemma um_mset : forall d m v, ContractV true (msetM (UM d)) m v -> ContractV true (UM (S d)) (SMSet m) v.
Proof.
  intros d m v H. apply (cv_embed true (msetM (UM d)) (UM (S d)) SMSet); [reflexivity|reflexivity|exact H].
Qed.

Lemma Forall_exists_Forall2 : forall {A B} (P : A -> B -> Prop) l, Forall (fun x => exists y, P x y) l ->
  exists ys, Forall2 P l ys.
Proof.
  induction 1 as [|x l [y Hy] _ [ys IH]]; [exists []; constructor|exists (y :: ys); constructor; assumption].
Qed.

Lemma all_some_l_spec : forall {A} (xs : list (option A)) l, all_some_l xs = Some l -> Forall2 (fun x y => x = Some y) xs l.
Proof.
  induction xs as [|[x|] xs IH]; intros l H; cbn [all_some_l] in H; try discriminate.
  - injection H as <-. constructor.
  - destruct (all_some_l xs) as [r|] eqn:E; [|discriminate]. injection H as <-. constructor; [reflexivity|apply IH; reflexivity].
Qed.

Lemma mget_init_matrix : forall cs ds i j r,
  mget (map (fun c => map (fun d => initO orc c d) ds) cs) i j = Some r ->
  exists c d, nth_error cs i = Some c /\ nth_error ds j = Some d /\ r = initO orc c d.
Proof.
  intros cs ds i j r H. unfold mget in H. rewrite nth_error_map in H.
  destruct (nth_error cs i) as [c|] eqn:Ec; [|discriminate]. cbn [option_map] in H.
  rewrite nth_error_map in H. destruct (nth_error ds j) as [d|] eqn:Ed; [|discriminate].
  injection H as <-. exists c, d. auto.
Qed.

Lemma nat_max_list_ge : forall l x, In x l -> (x <= nat_max_list l)%nat.
Proof. induction l as [|y l IH]; intros x H; [contradiction|]. cbn [nat_max_list]. destruct H as [<-|H]; [lia|]. specialize (IH x H). lia. Qed.

(* what the induction establishes for the state of every modelled edit *)
Definition Good (s : st) : Prop :=
  0 <= fst (bndU s) /\ forall d, (sheight s <= d)%nat -> exists v, ContractV true (UM d) s v.

Lemma good_const : forall c, 0 <= c -> Good (SConst c).
Proof. intros c H. split; [exact H|]. intros d _. exists c. apply um_const. Qed.

Lemma good_kids : forall l d, Forall Good l -> (nat_max_list (map sheight l) <= d)%nat ->
  exists vs, Forall2 (fun s v => ContractV true (UM d) s v) l vs.
Proof.
  intros l d H Hd. apply Forall_exists_Forall2. apply Forall_forall. intros s Hs.
  rewrite Forall_forall in H. destruct (H s Hs) as [_ Hc]. apply Hc.
  pose proof (nat_max_list_ge (map sheight l) (sheight s) (in_map sheight l s Hs)). lia.
Qed.

Lemma zr_sum_lo_nonneg : forall l, Forall (fun r : zr => 0 <= fst r) l -> 0 <= fst (zr_sum l).
Proof. induction 1 as [|r l H _ IH]; simpl; [lia|]. unfold zr_add. cbn [fst]. lia. Qed.

Lemma good_fixed : forall l x, Forall Good l -> 0 <= x -> Good (SFixed l x).
Proof.
  intros l x H Hx. split.
  - cbn [bndU fst]. assert (0 <= fst (zr_sum (map bndU l))); [|lia].
    apply zr_sum_lo_nonneg. apply Forall_forall. intros r Hr. apply in_map_iff in Hr. destruct Hr as (s & <- & Hs).
    rewrite Forall_forall in H. apply (H s Hs).
  - intros d Hd. cbn [sheight] in Hd. destruct d as [|d]; [lia|].
    destruct (good_kids l d H ltac:(lia)) as [vs Hvs]. exists (zsum vs + x). apply (um_fixed true d l vs x Hvs).
Qed.

Lemma good_sum : forall l, Forall Good l -> Good (SSum l).
Proof.
  intros l H. split.
  - cbn [bndU]. apply zr_sum_lo_nonneg. apply Forall_forall. intros r Hr. apply in_map_iff in Hr. destruct Hr as (s & <- & Hs).
    rewrite Forall_forall in H. apply (H s Hs).
  - intros d Hd. cbn [sheight] in Hd. destruct d as [|d]; [lia|].
    destruct (good_kids l d H ltac:(lia)) as [vs Hvs]. exists (zsum vs). apply (um_sum true d l vs Hvs).
Qed.

(* bounds() changes neither the iterator nor the expanded edits *)
Lemma coll_bounds_shape : forall {X} (b : X -> zr) (s : coll X),
  k_pend (fst (coll_bounds b s)) = k_pend s /\ k_subs (fst (coll_bounds b s)) = k_subs s.
Proof.
  intros X b s. unfold coll_bounds. destruct (negb (k_valid s)); [auto|]. destruct (k_cost s); [auto|].
  destruct (k_U s <? fst (coll_total b s)); [auto|]. destruct (k_pend s) eqn:E; cbn [fst]; [rewrite E; auto|].
  destruct (zdefb _); cbn [fst set_memo k_pend k_subs]; rewrite ?E; auto.
Qed.

(* FixedKeyDictNodeEdit over good children whose initial upper bounds fit its cost_upper_bound *)
Lemma good_coll : forall kids U, Forall Good kids -> zsum (map (fun s => snd (bndU s)) kids) <= U ->
  Good (SColl (coll_init bndU U kids)).
Proof.
  intros kids U H Hb.
  assert (Hk : forall d, (nat_max_list (map sheight kids) <= d)%nat ->
               exists vs, Forall2 (kid_okc (UM d)) kids vs).
  { intros d Hd. apply Forall_exists_Forall2. apply Forall_forall. intros x Hx.
    rewrite Forall_forall in H. destruct (H x Hx) as [L Hc].
    pose proof (nat_max_list_ge (map sheight kids) (sheight x) (in_map sheight kids x Hx)).
    destruct (Hc d ltac:(lia)) as [v Hv]. exists v. split; [exact Hv|exact L]. }
  split.
  - destruct (Hk _ (le_n _)) as [vs Hvs]. change (0 <= fst (coll_bnd bndU (coll_init bndU U kids))).
    pose proof (coll_init_bnd (UM (nat_max_list (map sheight kids))) U kids vs Hvs Hb) as E. cbn [UM bnd St] in E.
    rewrite E. cbn [fst]. lia.
  - intros d Hd. cbn [sheight] in Hd. unfold coll_init in Hd.
    destruct (coll_bounds_shape bndU (mk_coll U (Some kids) [] None true)) as [E1 E2]. rewrite E1, E2 in Hd.
    cbn [k_pend k_subs map nat_max_list] in Hd.
    destruct d as [|d]; [lia|]. destruct (Hk d ltac:(lia)) as [vs Hvs].
    exists (zsum vs). apply um_coll. apply (coll_contract (UM d) U kids vs Hvs Hb).
Qed.

Lemma ed_constant_cost_nonneg : forall frc fic, Forall (fun x => 0 <= x) frc -> Forall (fun x => 0 <= x) fic ->
  0 <= ed_constant_cost frc fic.
Proof.
  intros frc fic H1 H2. unfold ed_constant_cost. destruct (Nat.ltb (length frc) (length fic)); [apply ss_nonneg; exact H2|].
  destruct (Nat.ltb (length fic) (length frc)); [apply ss_nonneg; exact H1|lia].
Qed.

Lemma good_ed : forall frc fic p q (kids : list (list st)),
  (p + q <= length frc)%nat -> (p + q <= length fic)%nat ->
  Forall (fun x => 0 <= x) frc -> Forall (fun x => 0 <= x) fic ->
  length kids = length (middle p q fic) -> Forall (fun row => length row = length (middle p q frc)) kids ->
  Forall (Forall Good) kids ->
  ((1 <= length (middle p q fic))%nat -> (1 <= length (middle p q frc))%nat ->
   forall x, nth_error (nth (length (middle p q fic) - 1) kids []) (length (middle p q frc) - 1) = Some x ->
             ~ zdefinitive (bndU x) ->
             0 < nth (length (middle p q fic) - 1) (middle p q fic) 0 + nth (length (middle p q frc) - 1) (middle p q frc) 0) ->
  Good (SED (ed_init frc fic p q kids)).
Proof.
  intros frc fic p q kids Hp1 Hp2 Hf1 Hf2 Kl Kr Kg Hpos. split.
  - cbn [bndU]. unfold ed_bnd, em, en. cbn [ed_init e_K e_U e_rc e_ic e_d e_done].
    pose proof (ed_constant_cost_nonneg frc fic Hf1 Hf2).
    destruct (Nat.eqb _ 0 && Nat.eqb _ 0 && (_ =? 0)); cbn [fst]; [lia|]. cbn [Nat.leb orb fst]. exact H.
  - intros d Hd. cbn [sheight ed_init e_kids] in Hd. destruct d as [|d]; [lia|].
    eexists. apply um_ed.
    apply (ed_init_contract (UM d) frc fic p q kids Hp1 Hp2 Hf1 Hf2 Kl Kr); [|exact Hpos].
    apply Forall_forall. intros row Hrow. apply Forall_forall. intros x Hx.
    rewrite Forall_forall in Kg. specialize (Kg row Hrow). rewrite Forall_forall in Kg. destruct (Kg x Hx) as [L Hc].
    assert (Hh : (sheight x <= d)%nat).
    { pose proof (nat_max_list_ge (map sheight row) (sheight x) (in_map sheight row x Hx)).
      pose proof (nat_max_list_ge (map (fun row => nat_max_list (map sheight row)) kids) _
                                  (in_map (fun row => nat_max_list (map sheight row)) kids row Hrow)). lia. }
    destruct (Hc d Hh) as [v Hv]. split; [exists v; apply cv_weaken; exact Hv|exact L].
Qed.

Lemma middle_map : forall {A B} (f : A -> B) p q l, middle p q (map f l) = map f (middle p q l).
Proof. intros. unfold middle. rewrite map_length, skipn_map, firstn_map. reflexivity. Qed.

Lemma in_matrix : forall {A} (kids : list (list A)) i j x, nth_error (nth i kids []) j = Some x ->
  exists row, In row kids /\ In x row.
Proof.
  intros A kids i j x H. destruct (nth_in_or_default i kids []) as [Hi|Hd].
  - exists (nth i kids []). split; [exact Hi|apply (nth_error_In _ _ H)].
  - rewrite Hd in H. destruct j; discriminate.
Qed.

Lemma char_cost_nonneg : forall c d, 0 <= char_cost c d.
Proof. intros c d. unfold char_cost. destruct (c =? d); lia. Qed.

(* StringEdit: an EditDistance over the one-character edits *)
Theorem good_str : forall s t, Good (str_state s t).
Proof.
  intros s t. unfold str_state. destruct (trim Z.eqb s t) as [p q] eqn:E.
  destruct (trim_bounds Z.eqb s t p q E) as (_ & _ & B1 & B2).
  assert (N : forall l : str, Forall (fun x => 0 <= x) (map (fun _ : Z => 1) l)).
  { intros l. apply Forall_forall. intros x Hx. apply in_map_iff in Hx. destruct Hx as (_ & <- & _). lia. }
  apply good_ed; try (rewrite map_length; assumption); try apply N.
  - rewrite middle_map, !map_length. reflexivity.
  - apply Forall_forall. intros row Hrow. apply in_map_iff in Hrow. destruct Hrow as (d & <- & _).
    rewrite middle_map, !map_length. reflexivity.
  - apply Forall_forall. intros row Hrow. apply in_map_iff in Hrow. destruct Hrow as (d & <- & _).
    apply Forall_forall. intros x Hx. apply in_map_iff in Hx. destruct Hx as (c & <- & _).
    apply good_const. apply char_cost_nonneg.
  - intros _ _ x Hx N0. exfalso. apply N0. destruct (in_matrix _ _ _ _ Hx) as (row & Hrow & Hin).
    apply in_map_iff in Hrow. destruct Hrow as (d & <- & _). apply in_map_iff in Hin. destruct Hin as (c & <- & _).
    reflexivity.
Qed.

(* ---------------------------------------------------------------- constant edits cost >= 0 *)
Lemma leaf_match_cost_nonneg : forall x y, 0 <= leaf_match_cost x y.
Proof.
  intros x y. unfold leaf_match_cost. apply leaf_cap_spec. unfold leaf_match_cost_raw.
  pose proof (lev_nonneg (ltext x) (ltext y)).
  destruct (leaf_zero_cost_adjusted && (lev (ltext x) (ltext y) =? 0) && negb (py_eqb x y)); lia.
Qed.

Lemma const_of_nonneg : forall a b c, const_of a b = Some c -> 0 <= c.
Proof.
  intros a b c H. destruct a as [x|ale alsl cs|ake k v|amk cs|cs]; cbn [const_of] in H; try discriminate.
  - unfold leaf_script in H. pose proof (replace_cost_pos (Leaf x) b) as Rp.
    destruct (lk x); destruct b as [y| | | |]; try (injection H as <-; lia);
      try (destruct (lk y); injection H as <-; try lia; apply leaf_match_cost_nonneg);
      try (injection H as <-; apply leaf_match_cost_nonneg).
    destruct (lk y); try (injection H as <-; apply leaf_match_cost_nonneg).
    destruct (str_eqb (ltext x) (ltext y)); [injection H as <-; lia|].
    destruct (Nat.eqb (length (ltext x)) 1 && Nat.eqb (length (ltext y)) 1); [injection H as <-; lia|].
    destruct (str_script (ltext x) (ltext y)). discriminate.
  - pose proof (replace_cost_pos (Lst ale alsl cs) b).
    destruct (list_dispatch (Lst ale alsl cs) b); try discriminate; injection H as <-; lia.
  - destruct b as [y| |ake' k' v'| |]; try discriminate.
    destruct (ake || node_eqb k k'); [discriminate|]. injection H as <-.
    pose proof (replace_cost_pos (Kvp ake k v) (Kvp ake' k' v')). lia.
  - pose proof (replace_cost_pos (MSet amk cs) b).
    destruct b as [y| | |amk' ds|]; try discriminate; try (injection H as <-; lia).
    destruct (_ || _); [injection H as <-; lia|discriminate].
  - pose proof (replace_cost_pos (FDict cs) b).
    destruct b as [y| | | |ds]; try discriminate; try (injection H as <-; lia).
    destruct (_ || _); [injection H as <-; lia|discriminate].
Qed.

(* ---------------------------------------------------------------- facts about the dispatch *)
Lemma dispatch_penalty : forall ale alsl cs b pen, list_dispatch (Lst ale alsl cs) b = LEditDist pen ->
  exists ale' alsl' ds, b = Lst ale' alsl' ds /\ pen = (if all_leaves cs && all_leaves ds then 0 else 1).
Proof.
  intros ale alsl cs b pen H. destruct b as [y|ale' alsl' ds|? ? ?|? ?|?]; cbn [list_dispatch] in H;
    unfold list_dispatch_gen in H; try discriminate.
  exists ale', alsl', ds. split; [reflexivity|].
  destruct (children_eqb cs ds); [discriminate|].
  destruct (negb ale || (zlen cs =? zlen ds) && (negb alsl || (zlen cs =? 1))); [discriminate|].
  injection H as <-. reflexivity.
Qed.

Lemma dispatch_fixed : forall ale alsl cs b, list_dispatch (Lst ale alsl cs) b = LFixed ->
  exists ale' alsl' ds, b = Lst ale' alsl' ds.
Proof.
  intros ale alsl cs b H. destruct b as [y|ale' alsl' ds|? ? ?|? ?|?]; cbn [list_dispatch] in H;
    unfold list_dispatch_gen in H; try discriminate. eauto.
Qed.

(* a string edit that can still be tightened is between two strings that are not both empty *)
Lemma leaf_pair_pos : forall x y s, initO orc (Leaf x) (Leaf y) = Some s -> ~ zdefinitive (bndU s) ->
  0 < leaf_size x + leaf_size y.
Proof.
  intros x y s H N. cbn [initO] in H. destruct (const_of (Leaf x) (Leaf y)) as [c|] eqn:Ec.
  - injection H as <-. exfalso. apply N. reflexivity.
  - destruct (lk x) eqn:Kx; try discriminate. destruct (lk y) eqn:Ky; try discriminate.
    cbn [const_of] in Ec. unfold leaf_script in Ec. rewrite Kx, Ky in Ec.
    destruct (str_eqb (ltext x) (ltext y)) eqn:Es; [discriminate|].
    unfold leaf_size. rewrite Kx, Ky. unfold zlen.
    destruct (ltext x) as [|cx tx], (ltext y) as [|cy ty]; cbn [length]; try lia. discriminate.
Qed.

Lemma all_leaves_nth : forall cs i, all_leaves cs = true -> (i < length cs)%nat -> exists x, nth i cs dummy = Leaf x.
Proof.
  intros cs i H Hi. unfold all_leaves in H. rewrite forallb_forall in H.
  specialize (H (nth i cs dummy) (nth_In cs dummy Hi)). destruct (nth i cs dummy); try discriminate. eauto.
Qed.

Lemma all_some_l_nth : forall {A} (xs : list (option A)) l i y, all_some_l xs = Some l -> nth_error l i = Some y ->
  nth_error xs i = Some (Some y).
Proof.
  intros A xs l i y H. apply all_some_l_spec in H. revert i. induction H as [|x z xs l Hx _ IH]; intros i Hi.
  - destruct i; discriminate.
  - destruct i as [|i]; cbn [nth_error] in *; [congruence|apply IH; exact Hi].
Qed.

Lemma all_some_l_length : forall {A} (xs : list (option A)) l, all_some_l xs = Some l -> length l = length xs.
Proof. intros A xs l H. apply all_some_l_spec in H. symmetry. apply (Forall2_length' _ _ _ H). Qed.

Lemma nth_error_map_seq : forall {A} (f : nat -> A) k i y, nth_error (map f (seq 0 k)) i = Some y -> (i < k)%nat /\ y = f i.
Proof.
  intros A f k i y H. rewrite nth_error_map in H. destruct (nth_error (seq 0 k) i) as [j|] eqn:E; [|discriminate].
  injection H as <-. assert (Hi : (i < k)%nat).
  { assert (nth_error (seq 0 k) i <> None) by congruence. apply nth_error_Some in H. rewrite seq_length in H. exact H. }
  rewrite (nth_error_seq k 0 i Hi) in E. injection E as <-. auto.
Qed.

(* the children matrix of an EditDistance built by initO orc: where each entry comes from *)
Lemma ed_kids_entry : forall cs ds p nr nc ks r c x,
  all_some_l (map (fun r => all_some_l (map (fun c => match mget (map (fun c => map (fun d => initO orc c d) ds) cs) (p + c) (p + r) with
                                                         | Some (Some s) => Some s | _ => None end) (seq 0 nc))) (seq 0 nr)) = Some ks ->
  nth_error (nth r ks []) c = Some x ->
  (r < nr)%nat /\ (c < nc)%nat /\
  exists c0 d0, nth_error cs (p + c) = Some c0 /\ nth_error ds (p + r) = Some d0 /\ initO orc c0 d0 = Some x.
Proof.
  intros cs ds p nr nc ks r c x Hk Hx.
  assert (Hr : (r < length ks)%nat).
  { destruct (Nat.lt_ge_cases r (length ks)) as [L|L]; [exact L|]. rewrite nth_overflow in Hx by exact L. destruct c; discriminate. }
  destruct (nth_error ks r) as [row|] eqn:Er; [|apply nth_error_None in Er; lia].
  rewrite (nth_nth_error ks r row [] Er) in Hx.
  pose proof (all_some_l_nth _ _ _ _ Hk Er) as H1. apply nth_error_map_seq in H1. destruct H1 as [Lr H1].
  symmetry in H1. pose proof (all_some_l_nth _ _ _ _ H1 Hx) as H2. apply nth_error_map_seq in H2. destruct H2 as [Lc H2].
  split; [exact Lr|]. split; [exact Lc|].
  destruct (mget _ (p + c) (p + r)) as [[s'|]|] eqn:Em; try discriminate. injection H2 as ->.
  destruct (mget_init_matrix _ _ _ _ _ Em) as (c0 & d0 & E1 & E2 & E3). exists c0, d0. auto.
Qed.

Lemma rcost_nonneg : forall pen cs, 0 <= pen -> Forall (fun x => 0 <= x) (map (fun c => remove_cost c pen) cs).
Proof.
  intros pen cs Hp. apply Forall_forall. intros x Hx. apply in_map_iff in Hx. destruct Hx as (c & <- & _).
  rewrite remove_cost_eq. pose proof (size_nonneg c). lia.
Qed.

Lemma icost_nonneg : forall pen ds, 0 <= pen -> Forall (fun x => 0 <= x) (map (fun d => insert_cost d pen) ds).
Proof.
  intros pen ds Hp. apply Forall_forall. intros x Hx. apply in_map_iff in Hx. destruct Hx as (c & <- & _).
  rewrite insert_cost_eq. pose proof (size_nonneg c). lia.
Qed.

Definition Pgood (a : tree) : Prop := forall b s, initO orc a b = Some s -> Good s.

Lemma good_list_ed : forall ale alsl cs b pen s, Forall Pgood cs ->
  list_dispatch (Lst ale alsl cs) b = LEditDist pen ->
  (let ds := match b with Lst _ _ ds => ds | _ => [] end in
   let M := map (fun c => map (fun d => initO orc c d) ds) cs in
   let '(p, q) := trim node_eqb cs ds in
   let nc := length (middle p q cs) in
   let nr := length (middle p q ds) in
   let kids := map (fun r => all_some_l (map (fun c => match mget M (p + c) (p + r) with
                                                       | Some (Some s) => Some s | _ => None end)
                                             (seq 0 nc))) (seq 0 nr) in
   match all_some_l kids with
   | Some ks => Some (SED (ed_init (map (fun c => remove_cost c pen) cs) (map (fun d => insert_cost d pen) ds) p q ks))
   | None => None
   end) = Some s -> Good s.
Proof.
  intros ale alsl cs b pen s IH Ed H.
  destruct (dispatch_penalty _ _ _ _ _ Ed) as (ale' & alsl' & ds & -> & Epen). cbn zeta in H.
  destruct (trim node_eqb cs ds) as [p q] eqn:Et.
  destruct (trim_bounds node_eqb cs ds p q Et) as (_ & _ & B1 & B2).
  destruct (all_some_l _) as [ks|] eqn:Ek; [|discriminate]. injection H as <-.
  assert (Hpen : 0 <= pen) by (rewrite Epen; destruct (all_leaves cs && all_leaves ds); lia).
  assert (Lc : length (middle p q cs) = (length cs - p - q)%nat) by (apply middle_length; exact B1).
  assert (Lr : length (middle p q ds) = (length ds - p - q)%nat) by (apply middle_length; exact B2).
  apply good_ed; try (rewrite map_length; assumption); try (apply rcost_nonneg; exact Hpen); try (apply icost_nonneg; exact Hpen).
  - rewrite middle_map, map_length. rewrite (all_some_l_length _ _ Ek), map_length, seq_length. reflexivity.
  - apply Forall_forall. intros row Hrow. rewrite middle_map, map_length.
    destruct (In_nth_error _ _ Hrow) as [r Er]. pose proof (all_some_l_nth _ _ _ _ Ek Er) as H1.
    apply nth_error_map_seq in H1. destruct H1 as [_ H1]. symmetry in H1.
    rewrite (all_some_l_length _ _ H1), map_length, seq_length. reflexivity.
  - apply Forall_forall. intros row Hrow. apply Forall_forall. intros x Hx.
    destruct (In_nth_error _ _ Hrow) as [r Er]. destruct (In_nth_error _ _ Hx) as [c Ec].
    rewrite <- (nth_nth_error ks r row [] Er) in Ec.
    destruct (ed_kids_entry cs ds p _ _ ks r c x Ek Ec) as (_ & _ & c0 & d0 & E1 & _ & E3).
    rewrite Forall_forall in IH. apply (IH c0 (nth_error_In _ _ E1) d0 x E3).
  - rewrite !middle_map, !map_length. intros Hm Hn x Hx Nd.
    destruct (ed_kids_entry cs ds p _ _ ks _ _ x Ek Hx) as (_ & _ & c0 & d0 & E1 & E2 & E3).
    rewrite (nth_map_lt (fun d => insert_cost d pen) (middle p q ds) _ dummy 0) by lia.
    rewrite (nth_map_lt (fun c => remove_cost c pen) (middle p q cs) _ dummy 0) by lia.
    rewrite !middle_nth by lia. rewrite remove_cost_eq, insert_cost_eq.
    rewrite (nth_nth_error cs _ c0 dummy E1), (nth_nth_error ds _ d0 dummy E2).
    pose proof (size_nonneg c0). pose proof (size_nonneg d0).
    destruct (all_leaves cs && all_leaves ds) eqn:El; [|lia]. subst pen.
    apply andb_true_iff in El. destruct El as [L1 L2].
    destruct (all_leaves_nth cs (p + (length (middle p q cs) - 1)) L1 ltac:(lia)) as [x' Ex'].
    destruct (all_leaves_nth ds (p + (length (middle p q ds) - 1)) L2 ltac:(lia)) as [y' Ey'].
    rewrite (nth_nth_error cs _ c0 dummy E1) in Ex'. rewrite (nth_nth_error ds _ d0 dummy E2) in Ey'. subst c0 d0.
    pose proof (leaf_pair_pos x' y' x E3 Nd). cbn [size]. lia.
Qed.

Lemma zsum_map_nonneg : forall {A} (f : A -> Z) l, (forall x, 0 <= f x) -> 0 <= zsum (map f l).
Proof. intros A f l H. apply zsum_nonneg. apply Forall_forall. intros y Hy. apply in_map_iff in Hy. destruct Hy as (x & <- & _). apply H. Qed.

Lemma good_list_fixed : forall cs ds s, Forall Pgood cs ->
  (let M := map (fun c => map (fun d => initO orc c d) ds) cs in
   let n := length cs in
   let m := length ds in
   let pairs := map (fun i => match mget M i i with Some (Some s) => Some s | _ => None end) (seq 0 (Nat.min n m)) in
   let extra :=
       (if Nat.ltb m n
        then zsum (map (fun i => remove_cost (nth i cs dummy) 1) (seq (remove_from_pos n m) (n - remove_from_pos n m)))
        else 0) +
       (if Nat.ltb n m
        then zsum (map (fun j => insert_cost (nth j ds dummy) 1) (seq (insert_from_pos n m) (m - insert_from_pos n m)))
        else 0) in
   match all_some_l pairs with
   | Some l => Some (SFixed l extra)
   | None => None
   end) = Some s -> Good s.
Proof.
  intros cs ds s IH H. cbn zeta in H. destruct (all_some_l _) as [l|] eqn:El; [|discriminate]. injection H as <-.
  apply good_fixed.
  - apply Forall_forall. intros x Hx. destruct (In_nth_error _ _ Hx) as [i Ei].
    pose proof (all_some_l_nth _ _ _ _ El Ei) as H1. apply nth_error_map_seq in H1. destruct H1 as [_ H1].
    destruct (mget _ i i) as [[s'|]|] eqn:Em; try discriminate. injection H1 as ->.
    destruct (mget_init_matrix _ _ _ _ _ Em) as (c0 & d0 & E1 & _ & E3).
    rewrite Forall_forall in IH. apply (IH c0 (nth_error_In _ _ E1) d0 _ (eq_sym E3)).
  - assert (A : forall (f : nat -> Z) l0, (forall i, 0 <= f i) -> 0 <= zsum (map f l0)) by (intros; apply zsum_map_nonneg; assumption).
    assert (R : forall i, 0 <= remove_cost (nth i cs dummy) 1) by (intros; rewrite remove_cost_eq; pose proof (size_nonneg (nth i cs dummy)); lia).
    assert (I : forall j, 0 <= insert_cost (nth j ds dummy) 1) by (intros; rewrite insert_cost_eq; pose proof (size_nonneg (nth j ds dummy)); lia).
    destruct (Nat.ltb (length ds) (length cs)), (Nat.ltb (length cs) (length ds));
      try pose proof (A _ (seq (remove_from_pos (length cs) (length ds)) (length cs - remove_from_pos (length cs) (length ds))) R);
      try pose proof (A _ (seq (insert_from_pos (length cs) (length ds)) (length ds - insert_from_pos (length cs) (length ds))) I); lia.
Qed.

Lemma good_fdict : forall cs ds s, Forall Pgood cs ->
  (let a := FDict cs in let b := FDict ds in
   let M := map (fun c => map (fun d => initO orc c d) ds) cs in
   let partner := fun c => find_index (fun d => node_eqb (kvp_key c) (kvp_key d)) ds 0 in
   let shared := flat_map (fun i => match partner (nth i cs dummy) with Some j => [(i, j)] | None => [] end)
                          (seq 0 (length cs)) in
   let unshared := filter (fun i => match partner (nth i cs dummy) with Some _ => false | None => true end)
                          (seq 0 (length cs)) in
   let inserted := filter (fun j => negb (existsb (fun c => node_eqb (kvp_key c) (kvp_key (nth j ds dummy))) cs))
                          (seq 0 (length ds)) in
   let get := fun (ij : nat * nat) =>
       if node_eqb (nth (fst ij) cs dummy) (nth (snd ij) ds dummy) then Some (SConst 0)
       else match mget M (fst ij) (snd ij) with Some (Some s) => Some s | _ => None end in
   if fixed_dict_removals_in_hash_order || negb (forallb is_kvp cs && forallb is_kvp ds) then None
   else
     match all_some_l (map get shared) with
     | Some sh =>
         let kids := sh ++ map (fun i => SConst (remove_cost (nth i cs dummy) 1)) unshared
                        ++ map (fun j => SConst (insert_cost (nth j ds dummy) 1)) inserted in
         let U := size a + 1 + size b in
         if zsum (map (fun s => snd (bndU s)) kids) <=? U then Some (SColl (coll_init bndU U kids)) else None
     | None => None
     end) = Some s -> Good s.
Proof.
  intros cs ds s IH H. cbn zeta in H.
  destruct (_ || _); [discriminate|]. destruct (all_some_l _) as [sh|] eqn:Es; [|discriminate].
  destruct (_ <=? _) eqn:Eb; [|discriminate]. injection H as <-. apply Z.leb_le in Eb.
  apply good_coll; [|exact Eb].
  apply Forall_app. split; [|apply Forall_app; split].
  - apply Forall_forall. intros x Hx. destruct (In_nth_error _ _ Hx) as [i Ei].
    pose proof (all_some_l_nth _ _ _ _ Es Ei) as H1. rewrite nth_error_map in H1.
    destruct (nth_error (flat_map _ _) i) as [[i0 j0]|]; [|discriminate]. cbn [option_map fst snd] in H1.
    destruct (node_eqb _ _); [injection H1 as <-; apply good_const; lia|].
    destruct (mget _ i0 j0) as [[s'|]|] eqn:Em; try discriminate. injection H1 as ->.
    destruct (mget_init_matrix _ _ _ _ _ Em) as (c0 & d0 & E1 & _ & E3).
    rewrite Forall_forall in IH. apply (IH c0 (nth_error_In _ _ E1) d0 _ (eq_sym E3)).
  - apply Forall_forall. intros x Hx. apply in_map_iff in Hx. destruct Hx as (i & <- & _). apply good_const.
    rewrite remove_cost_eq. pose proof (size_nonneg (nth i cs dummy)). lia.
  - apply Forall_forall. intros x Hx. apply in_map_iff in Hx. destruct Hx as (j & <- & _). apply good_const.
    rewrite insert_cost_eq. pose proof (size_nonneg (nth j ds dummy)). lia.
Qed.

(* matcher.bounds() only touches the memo *)
Lemma mt_bounds_shape : forall {X} (b : X -> zr) (s : mset X),
  m_kvp (fst (mt_bounds b s)) = m_kvp s /\ m_edges (fst (mt_bounds b s)) = m_edges s.
Proof. intros X b s. unfold mt_bounds. destruct (m_memo s); [auto|]. destruct (zdefb _); auto. Qed.

Lemma zmin_list_nonneg : forall l, Forall (fun x => 0 <= x) l -> 0 <= zmin_list l.
Proof.
  intros [|x l] H; [simpl; lia|]. apply zmin_list_ge; [discriminate|]. intros y Hy. rewrite Forall_forall in H. apply H. exact Hy.
Qed.

(* MultiSetEdit (with its matcher) over good pre-matched edits and good edges *)
Lemma good_mset : forall kv edges rem ins cnt asg,
  Forall Good kv -> Forall (Forall Good) edges ->
  length edges = length rem -> Forall (fun row => length row = length ins) edges ->
  Forall (fun x => 0 <= x) rem -> Forall (fun x => 0 <= x) ins ->
  Good (SMSet (mset_init bndU kv edges rem ins cnt asg)).
Proof.
  intros kv edges rem ins cnt asg Hkv Hed L1 L2 Hrem Hins.
  set (raw := mk_mset kv edges rem ins false None None cnt asg).
  set (hk := Nat.max (nat_max_list (map sheight kv)) (nat_max_list (map (fun row => nat_max_list (map sheight row)) edges))).
  assert (Inv : forall d, (hk <= d)%nat ->
            MInv (UM d) rem ins cnt asg (fun i j => match mget edges i j with Some x => finv (UM d) x | None => 0 end)
                 (map (finv (UM d)) kv) raw).
  { intros d Hd. constructor; cbn [raw m_rem m_ins m_asg m_counts m_edges m_match m_memo m_kvp]; try reflexivity; try discriminate.
    - split; [exact L1|]. split.
      + intros i Hi. rewrite Forall_forall in L2. apply L2. apply nth_In.
        assert (Q : (i < length rem)%nat -> (i < @length (list st) edges)%nat) by (rewrite L1; auto). exact (Q Hi).
      + intros i j x Hx. cbn [UM St] in *. rewrite Hx. destruct (in_matrix edges i j x) as (row & Hrow & Hin); [rewrite <- mget_nth; exact Hx|].
        rewrite Forall_forall in Hed. specialize (Hed row Hrow). rewrite Forall_forall in Hed. destruct (Hed x Hin) as [_ Hc].
        assert (Hh : (sheight x <= d)%nat).
        { pose proof (nat_max_list_ge (map sheight row) (sheight x) (in_map sheight row x Hin)).
          pose proof (nat_max_list_ge (map (fun row => nat_max_list (map sheight row)) edges) _
                                      (in_map (fun row => nat_max_list (map sheight row)) edges row Hrow)). lia. }
        destruct (Hc d Hh) as [v Hv]. rewrite (finv_spec _ _ _ _ Hv). exact Hv.
    - clear - Hkv Hd. assert (Hd' : (nat_max_list (map sheight kv) <= d)%nat) by lia. clear Hd.
      induction Hkv as [|x l [_ Hc] _ IH]; cbn [map]; constructor.
      + cbn [map nat_max_list] in Hd'. destruct (Hc d ltac:(lia)) as [v Hv]. rewrite (finv_spec _ _ _ _ Hv). exact Hv.
      + apply IH. cbn [map nat_max_list] in Hd'. lia. }
  split.
  - pose proof (Inv hk (le_n _)) as I. destruct (ms_norm _ _ _ _ _ _ _ _ I) as [_ E].
    change (0 <= fst (msb (UM hk) (fst (ms_bounds (bnd (UM hk)) raw)))). rewrite E, msb_eq.
    assert (A : 0 <= fst (mtb (UM hk) raw)).
    { unfold mtb, mt_bounds. cbn [raw m_memo]. destruct (zdefb _); cbn [snd]; unfold mt_compute; destruct (m_empty _); cbn [fst]; try lia;
        cbn [raw m_match]; cbn [fst]; apply ss_nonneg; apply Forall_forall; intros z Hz; apply in_map_iff in Hz; destruct Hz as (row & <- & Hrow);
        apply zmin_list_nonneg; apply Forall_forall; intros y Hy; apply in_map_iff in Hy; destruct Hy as (r & <- & Hr);
        unfold bmat in Hrow; apply in_map_iff in Hrow; destruct Hrow as (row0 & <- & Hrow0); apply in_map_iff in Hr; destruct Hr as (x & <- & Hx);
        rewrite Forall_forall in Hed; specialize (Hed row0 Hrow0); rewrite Forall_forall in Hed; apply (Hed x Hx). }
    assert (B : 0 <= fst (KB (UM hk) raw)).
    { unfold KB. cbn [raw m_kvp]. apply zr_sum_lo_nonneg. apply Forall_forall. intros r Hr. apply in_map_iff in Hr. destruct Hr as (x & <- & Hx).
      rewrite Forall_forall in Hkv. apply (Hkv x Hx). }
    assert (D : 0 <= fst (LP (UM hk) raw)).
    { unfold LP. cbn [raw m_match]. destruct (Nat.ltb _ _); [cbn [fst]; apply ss_nonneg; exact Hrem|].
      destruct (Nat.ltb _ _); [cbn [fst]; apply ss_nonneg; exact Hins|cbn [fst]; lia]. }
    unfold zr_add. cbn [fst]. lia.
  - intros d Hd. cbn [sheight] in Hd. unfold mset_init in Hd. change (ms_bounds bndU raw) with (ms_bounds bndU raw) in Hd.
    assert (Sh : m_kvp (fst (ms_bounds bndU raw)) = kv /\ m_edges (fst (ms_bounds bndU raw)) = edges).
    { change (fst (ms_bounds bndU raw)) with (fst (mt_bounds bndU raw)). apply (mt_bounds_shape bndU raw). }
    destruct Sh as [Sh1 Sh2]. fold raw in Hd. rewrite Sh1, Sh2 in Hd.
    destruct d as [|d]; [lia|]. eexists. apply um_mset.
    apply (mset_contract (UM d) rem ins cnt asg _ _ raw (Inv d ltac:(unfold hk; lia))).
Qed.

Lemma good_msetnode : forall (amk : bool) cs ds s, Forall Pgood cs ->
  (let M := map (fun c => map (fun d => initO orc c d) ds) cs in
   let pre := if amk then prematch cs 0 ds [] else [] in
   let fl := filter (fun i => negb (nat_in i (map fst pre))) (seq 0 (length cs)) in
   let tl := filter (fun j => negb (nat_in j (map snd pre))) (seq 0 (length ds)) in
   let eq_ij := fun i j => node_eqb (nth i cs dummy) (nth j ds dummy) in
   let R := filter (fun i => negb (existsb (fun j => eq_ij i j) tl)) fl in
   let I := filter (fun j => negb (existsb (fun i => eq_ij i j) fl)) tl in
   let get := fun i j => match mget M i j with Some (Some s) => Some s | _ => None end in
   if negb (distinct_nodes cs && distinct_nodes ds) then None
   else
     match all_some_l (map (fun ij => get (fst ij) (snd ij)) pre),
           all_some_l (map (fun i => all_some_l (map (fun j => get i j) I)) R) with
     | Some kv, Some edges =>
         let ans := orc_lookup orc (map (fun i => nth i cs dummy) R) (map (fun j => nth j ds dummy) I) in
         Some (SMSet (mset_init bndU kv edges (map (fun i => remove_cost (nth i cs dummy) 1) R)
                                (map (fun j => insert_cost (nth j ds dummy) 1) I) (fst ans) (snd ans)))
     | _, _ => None
     end) = Some s -> Good s.
Proof.
  intros amk cs ds s IH H. cbn zeta in H.
  destruct (negb _); [discriminate|].
  destruct (all_some_l (map _ (if amk then _ else _))) as [kv|] eqn:Ek; [|discriminate].
  destruct (all_some_l (map _ (filter _ (filter _ (seq 0 (length cs)))))) as [edges|] eqn:Ee; [|discriminate].
  injection H as <-.
  assert (G : forall i j x, match mget (map (fun c => map (fun d => initO orc c d) ds) cs) i j with Some (Some s) => Some s | _ => None end = Some x -> Good x).
  { intros i j x Hx. destruct (mget _ i j) as [[s'|]|] eqn:Em; try discriminate. injection Hx as ->.
    destruct (mget_init_matrix _ _ _ _ _ Em) as (c0 & d0 & E1 & _ & E3).
    rewrite Forall_forall in IH. apply (IH c0 (nth_error_In _ _ E1) d0 _ (eq_sym E3)). }
  apply good_mset.
  - apply Forall_forall. intros x Hx. destruct (In_nth_error _ _ Hx) as [i Ei].
    pose proof (all_some_l_nth _ _ _ _ Ek Ei) as H1. rewrite nth_error_map in H1.
    destruct (nth_error (if amk then _ else _) i) as [[i0 j0]|]; [|discriminate]. cbn [option_map fst snd] in H1.
    injection H1 as H1. apply (G i0 j0 x H1).
  - apply Forall_forall. intros row Hrow. apply Forall_forall. intros x Hx.
    destruct (In_nth_error _ _ Hrow) as [r Er]. destruct (In_nth_error _ _ Hx) as [c Ec].
    pose proof (all_some_l_nth _ _ _ _ Ee Er) as H1. rewrite nth_error_map in H1.
    destruct (nth_error (filter _ (filter _ (seq 0 (length cs)))) r) as [i0|]; [|discriminate]. cbn [option_map] in H1. injection H1 as H1.
    pose proof (all_some_l_nth _ _ _ _ H1 Ec) as H2. rewrite nth_error_map in H2.
    destruct (nth_error (filter _ (filter _ (seq 0 (length ds)))) c) as [j0|]; [|discriminate]. cbn [option_map] in H2. injection H2 as H2.
    apply (G i0 j0 x H2).
  - rewrite (all_some_l_length _ _ Ee), !map_length. reflexivity.
  - apply Forall_forall. intros row Hrow. destruct (In_nth_error _ _ Hrow) as [r Er].
    pose proof (all_some_l_nth _ _ _ _ Ee Er) as H1. rewrite nth_error_map in H1.
    destruct (nth_error (filter _ (filter _ (seq 0 (length cs)))) r) as [i0|]; [|discriminate]. cbn [option_map] in H1. injection H1 as H1.
    rewrite (all_some_l_length _ _ H1), !map_length. reflexivity.
  - apply Forall_forall. intros x Hx. apply in_map_iff in Hx. destruct Hx as (i & <- & _).
    rewrite remove_cost_eq. pose proof (size_nonneg (nth i cs dummy)). lia.
  - apply Forall_forall. intros x Hx. apply in_map_iff in Hx. destruct Hx as (j & <- & _).
    rewrite insert_cost_eq. pose proof (size_nonneg (nth j ds dummy)). lia.
Qed.

(* C04, closing induction: the edit of every pair of trees of the modelled fragment (scalars, strings, nested lists under
   all list options, key/value pairs) satisfies the strict contract, at every depth the machine is run with *)
Theorem initO_good : forall a, Pgood a.
Proof.
  apply tree_rect'.
  - intros x b s H. cbn [initO] in H. destruct (const_of (Leaf x) b) as [c|] eqn:Ec.
    + injection H as <-. apply good_const. apply (const_of_nonneg _ _ _ Ec).
    + destruct b as [y| | | |]; try discriminate. destruct (lk x); try discriminate; destruct (lk y); try discriminate.
      injection H as <-. apply good_str.
  - intros ale alsl cs IH b s H. cbn [initO] in H. destruct (const_of (Lst ale alsl cs) b) as [c|] eqn:Ec.
    + injection H as <-. apply good_const. apply (const_of_nonneg _ _ _ Ec).
    + destruct (list_dispatch (Lst ale alsl cs) b) eqn:Ed; try discriminate.
      * apply (good_list_fixed cs (match b with Lst _ _ ds => ds | _ => [] end) s IH H).
      * apply (good_list_ed ale alsl cs b penalty s IH Ed H).
  - intros ake k v IHk IHv b s H. cbn [initO] in H. destruct (const_of (Kvp ake k v) b) as [c|] eqn:Ec.
    + injection H as <-. apply good_const. apply (const_of_nonneg _ _ _ Ec).
    + destruct b as [y| |ake' k' v'| |]; try discriminate.
      assert (Hk : forall x, (if node_eqb k k' then Some (SConst 0) else initO orc k k') = Some x -> Good x).
      { intros x Hx. destruct (node_eqb k k'); [injection Hx as <-; apply good_const; lia|apply (IHk k' x Hx)]. }
      assert (Hv : forall x, (if node_eqb v v' then Some (SConst 0) else initO orc v v') = Some x -> Good x).
      { intros x Hx. destruct (node_eqb v v'); [injection Hx as <-; apply good_const; lia|apply (IHv v' x Hx)]. }
      destruct (if node_eqb k k' then _ else _) as [x|]; [|discriminate].
      destruct (if node_eqb v v' then _ else _) as [y|]; [|discriminate]. injection H as <-.
      apply good_sum. constructor; [apply Hk; reflexivity|]. constructor; [apply Hv; reflexivity|constructor].
  - intros amk cs IH b s H. cbn [initO] in H. destruct (const_of (MSet amk cs) b) as [c|] eqn:Ec.
    + injection H as <-. apply good_const. apply (const_of_nonneg _ _ _ Ec).
    + destruct b as [y| | |amk' ds|]; try discriminate. apply (good_msetnode amk cs ds s IH H).
  - intros cs IH b s H. cbn [initO] in H. destruct (const_of (FDict cs) b) as [c|] eqn:Ec.
    + injection H as <-. apply good_const. apply (const_of_nonneg _ _ _ Ec).
    + destruct b as [y| | | |ds]; try discriminate. apply (good_fdict cs ds s IH H).
Qed.

Theorem initO_contract : forall a b s, initO orc a b = Some s -> Contract (UM (sheight s)) s.
Proof. intros a b s H. destruct (initO_good a b s H) as [_ Hc]. apply (Hc (sheight s) (le_n _)). Qed.

(* the fragment is not empty: nested lists with strings, all three classes below the root *)
Example initO_instance :
  exists s, initO orc (Lst true true [Leaf (Build_leaf KStr [97;98] 0 0); Lst true true [Leaf (Build_leaf KInt [49] 1 0)]])
                  (Lst true true [Leaf (Build_leaf KStr [97;99] 0 0); Lst true true [Leaf (Build_leaf KInt [50] 2 0)];
                                  Leaf (Build_leaf KNull [] 0 0)]) = Some s /\ sheight s = 2%nat /\ bndU s = (1, 13).
Proof. eexists. split; [vm_compute; reflexivity|]. split; reflexivity. Qed.

(* the executable statement (the boolean evaluated on the implementation's traces) on the model's own trace *)
Theorem model_trace_holds : forall a b s, initO orc a b = Some s ->
  holds_events (trace_of (UM (sheight s)) (S (S (Z.to_nat (width (bndU s))))) s) = true.
Proof.
  intros a b s H. destruct (initO_contract a b s H) as [v Hv].
  apply (contract_trace_holds (UM (sheight s)) s v); [exact Hv|]. cbn [UM bnd]. lia.
Qed.

Lemma nat_max_list_zero : forall l, (forall x, In x l -> x = O) -> nat_max_list l = O.
Proof.
  induction l as [|y l IH]; intros H; [reflexivity|]. cbn [nat_max_list].
  rewrite (H y (or_introl eq_refl)), IH; [reflexivity|]. intros x Hx. apply H. right. exact Hx.
Qed.

Lemma str_state_height : forall s t, sheight (str_state s t) = 1%nat.
Proof.
  intros s t. unfold str_state. destruct (trim Z.eqb s t) as [p q]. cbn [sheight ed_init e_kids]. f_equal.
  apply nat_max_list_zero. intros x Hx. apply in_map_iff in Hx. destruct Hx as (row & <- & Hrow).
  apply in_map_iff in Hrow. destruct Hrow as (d & <- & _).
  apply nat_max_list_zero. intros y Hy. apply in_map_iff in Hy. destruct Hy as (k & <- & Hk).
  apply in_map_iff in Hk. destruct Hk as (c & <- & _). reflexivity.
Qed.

Theorem str_contract : forall s t d, exists v, ContractV true (UM (S d)) (str_state s t) v.
Proof. intros s t d. destruct (good_str s t) as [_ H]. apply H. rewrite str_state_height. lia. Qed.
End Orc.

(* without oracle answers (initU = initO []): make_distinct makes no calls and the diagonal matching is taken *)
Theorem initU_contract : forall a b s, initU a b = Some s -> Contract (UM (sheight s)) s.
Proof. intros a b s H. apply (initO_contract [] a b s H). Qed.

(* the mapping fragments are not empty: {"a": "ab", "b": 1} -> {"a": "ac", "c": 1} as FixedKeyDictNodes and as DictNodes *)
Definition ex_kvp (ake : bool) (k : Z) (v : tree) : tree := Kvp ake (Leaf (Build_leaf KStr [k] 0 0)) v.
Definition ex_str (l : list Z) : tree := Leaf (Build_leaf KStr l 0 0).
Definition ex_int : tree := Leaf (Build_leaf KInt [49] 1 0).
Example initO_fdict_instance :
  exists s c, initO [] (FDict [ex_kvp false 97 (ex_str [97; 98]); ex_kvp false 98 ex_int])
                       (FDict [ex_kvp false 97 (ex_str [97; 99]); ex_kvp false 99 ex_int]) = Some (SColl c) /\
              s = SColl c /\ bndU s = (0, 23) /\ length (match k_pend c with Some l => l | None => [] end) = 3%nat.
Proof. eexists. eexists. split; [vm_compute; reflexivity|]. split; [reflexivity|]. split; reflexivity. Qed.

Example initO_dict_instance :
  exists m, initO [] (MSet true [ex_kvp true 97 (ex_str [97; 98]); ex_kvp true 98 ex_int])
                     (MSet true [ex_kvp true 97 (ex_str [97; 99]); ex_kvp true 99 ex_int]) = Some (SMSet m) /\
            length (m_kvp m) = 1%nat /\ length (m_edges m) = 1%nat /\ fst (bndU (SMSet m)) < snd (bndU (SMSet m)).
Proof. eexists. split; [vm_compute; reflexivity|]. split; [reflexivity|]. split; [reflexivity|vm_compute; reflexivity]. Qed.
