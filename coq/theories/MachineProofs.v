(* C04: the contract of the Bounded protocol for the models of MachineModel.v, for ALL inputs.
   Part A: consequences of the contract (stability on single values, termination within `width` steps, the
           executable statement holds_events on the trace the observer records).
   Part B: ConstantCostEdit, the component-wise sum (KeyValuePairEdit ...), repeat_until_tightened /
           FixedLengthSequenceEdit.
   Part C: EditDistance (fringe minimum, constant lower bound, upper bound, completion).
   Part D: the universal machine and the closing induction over list / string / key-value trees. *)
From Coq Require Import ZArith List Bool Lia Permutation Sorted.
Require Import GT.PyBase GT.Data GT.EdTypes GT.EdEngine GT.EdFacts GT.EdEngineProofs GT.LevModel GTgen.EdGen GT.EdParams
               GT.EdTie GT.ScriptSpec GT.ScriptModel GT.MachineSpec GT.MachineModel.
Import ListNotations.
Open Scope Z_scope.

(* ================================================================ Part A: the contract *)

Lemma zr_eta : forall r : zr, r = (fst r, snd r).
Proof. intros [a b]. reflexivity. Qed.

Lemma zr_eq : forall a b : zr, fst a = fst b -> snd a = snd b -> a = b.
Proof. intros [a1 a2] [b1 b2]; simpl; intros; subst; reflexivity. Qed.

Lemma zdefb_spec : forall r, zdefb r = true <-> zdefinitive r.
Proof. intros r. unfold zdefb, zdefinitive. apply Z.eqb_eq. Qed.

Lemma zdefb_false : forall r, zdefb r = false <-> ~ zdefinitive r.
Proof. intros r. unfold zdefb, zdefinitive. apply Z.eqb_neq. Qed.

(* a contained range that differs is strictly tighter at one end *)
Lemma contained_neq_tighter : forall a a' : zr, zcontains a a' -> a' <> a -> fst a < fst a' \/ snd a' < snd a.
Proof.
  intros a a' [H1 H2] N.
  destruct (Z.eq_dec (fst a) (fst a')) as [E1|E1]; [|lia].
  destruct (Z.eq_dec (snd a) (snd a')) as [E2|E2]; [|lia].
  exfalso. apply N. apply zr_eq; congruence.
Qed.

Lemma tighter_spec : forall n o, tighter n o = true <-> (fst o < fst n \/ snd n < snd o).
Proof.
  intros n o. unfold tighter. rewrite orb_true_iff, !Z.ltb_lt. tauto.
Qed.

Lemma tighter_false : forall n o, tighter n o = false <-> (fst n <= fst o /\ snd o <= snd n).
Proof.
  intros n o. unfold tighter. rewrite orb_false_iff, !Z.ltb_ge. tauto.
Qed.

Lemma contained_not_tighter_eq : forall a a', zcontains a a' -> tighter a' a = false -> a' = a.
Proof.
  intros a a' [H1 H2] T. apply tighter_false in T. apply zr_eq; lia.
Qed.

(* the contract is its own invariant *)
Lemma cv_step : forall k M t v, ContractV k M t v -> step_ok k M (fun t' => ContractV k M t' v) v t.
Proof.
  intros k M t v (Inv & Hi & Hs). destruct (Hs t Hi) as (H1 & H2 & H3 & H4 & H5).
  unfold step_ok. cbn zeta. split; [exists Inv; split; assumption|]. tauto.
Qed.

Lemma cv_next : forall k M t v, ContractV k M t v -> ContractV k M (fst (tig M t)) v.
Proof. intros k M t v H. apply (cv_step k M t v H). Qed.

Lemma cv_sound : forall k M t v, ContractV k M t v -> fst (bnd M t) <= v <= snd (bnd M t).
Proof. intros k M t v H. apply (cv_step k M t v H). Qed.

Lemma cv_weaken : forall M t v, ContractV true M t v -> ContractV false M t v.
Proof.
  intros M t v (Inv & Hi & Hs). exists Inv. split; [assumption|].
  intros u Hu. destruct (Hs u Hu) as (H1 & H2 & H3 & H4 & H5).
  unfold step_ok. cbn zeta. split; [exact H1|]. split; [exact H2|]. split; [exact H3|]. split; [exact H4|].
  intros R. split; [apply H5; exact R|discriminate].
Qed.

Lemma cv_weaken_any : forall k M t v, ContractV k M t v -> ContractV false M t v.
Proof. intros [|] M t v H; [apply cv_weaken|]; assumption. Qed.

(* on a single value every call returns False and changes nothing; the value is the final one *)
Lemma cv_definitive : forall k M t v, ContractV k M t v -> zdefinitive (bnd M t) ->
  bnd M t = (v, v) /\ snd (tig M t) = false /\ bnd M (fst (tig M t)) = bnd M t.
Proof.
  intros k M t v H D. pose proof (cv_step k M t v H) as (H1 & H2 & H3 & H4 & H5).
  pose proof (cv_sound _ _ _ _ H1) as H2'. unfold zdefinitive in D. destruct H3 as [C1 C2].
  assert (E : bnd M (fst (tig M t)) = bnd M t) by (apply zr_eq; lia).
  split; [apply zr_eq; simpl; lia|]. split; [|exact E].
  destruct (snd (tig M t)) eqn:R; [|reflexivity]. exfalso. apply (H4 eq_refl). exact E.
Qed.

(* a True step shrinks the width *)
Lemma cv_true_width : forall k M t v, ContractV k M t v -> snd (tig M t) = true ->
  0 <= width (bnd M (fst (tig M t))) < width (bnd M t).
Proof.
  intros k M t v H R. pose proof (cv_step k M t v H) as (H1 & H2 & H3 & H4 & H5).
  pose proof (cv_sound _ _ _ _ H1) as H2'.
  destruct (contained_neq_tighter _ _ H3 (H4 R)); destruct H3; unfold width; lia.
Qed.

Lemma cv_width_nonneg : forall k M t v, ContractV k M t v -> 0 <= width (bnd M t).
Proof. intros k M t v H. pose proof (cv_sound _ _ _ _ H). unfold width. lia. Qed.

(* transfer along an embedding of machines *)
Lemma cv_embed : forall k (M1 M2 : machine) (f : St M1 -> St M2),
  (forall s, bnd M2 (f s) = bnd M1 s) ->
  (forall s, tig M2 (f s) = (f (fst (tig M1 s)), snd (tig M1 s))) ->
  forall s v, ContractV k M1 s v -> ContractV k M2 (f s) v.
Proof.
  intros k M1 M2 f Hb Ht s v H.
  exists (fun t => exists s, t = f s /\ ContractV k M1 s v). split; [exists s; auto|].
  intros t (u & -> & Hu). pose proof (cv_step k M1 u v Hu) as (H1 & H2 & H3 & H4 & H5).
  unfold step_ok. cbn zeta. rewrite Ht. cbn [fst snd]. rewrite !Hb.
  split; [exists (fst (tig M1 u)); auto|]. tauto.
Qed.

(* `while x.tighten_bounds(): pass` terminates within width+1 calls on a single value, the final one *)
Lemma run_fix_ok : forall k C fuel x v, ContractV k C x v -> (Z.to_nat (width (bnd C x)) < fuel)%nat ->
  exists x', run_fix (tig C) fuel x = Some x' /\ ContractV k C x' v /\ bnd C x' = (v, v).
Proof.
  intros k C fuel. induction fuel as [|fuel IH]; intros x v H F; [lia|].
  cbn [run_fix]. pose proof (cv_step k C x v H) as (H1 & H2 & H3 & H4 & H5).
  destruct (snd (tig C x)) eqn:R.
  - apply IH; [exact H1|]. pose proof (cv_true_width _ _ _ _ H R). lia.
  - exists (fst (tig C x)). split; [reflexivity|]. split; [exact H1|].
    destruct (H5 eq_refl) as [D _]. apply (cv_definitive _ _ _ _ H1 D).
Qed.

Lemma run_def_ok : forall k C fuel x v, ContractV k C x v -> (Z.to_nat (width (bnd C x)) < fuel)%nat ->
  exists x', run_def (bnd C) (tig C) fuel x = Some x' /\ ContractV k C x' v /\ bnd C x' = (v, v).
Proof.
  intros k C fuel. induction fuel as [|fuel IH]; intros x v H F; [lia|].
  cbn [run_def]. destruct (zdefb (bnd C x)) eqn:D.
  - exists x. split; [reflexivity|]. split; [exact H|]. apply zdefb_spec in D. apply (cv_definitive _ _ _ _ H D).
  - pose proof (cv_step k C x v H) as (H1 & H2 & H3 & H4 & H5).
    destruct (snd (tig C x)) eqn:R.
    + assert (Hw : (Z.to_nat (width (bnd C (fst (tig C x)))) < fuel)%nat)
        by (pose proof (cv_true_width _ _ _ _ H R); lia).
      destruct fuel as [|fuel']; [lia|]. apply IH; assumption.
    + exists (fst (tig C x)). split; [reflexivity|]. split; [exact H1|].
      destruct (H5 eq_refl) as [D' _]. apply (cv_definitive _ _ _ _ H1 D').
Qed.

(* ---------------------------------------------------------------- the executable statement on the observer's trace *)
Lemma rv_leb_fin : forall x y, rv_leb (Fin x) (Fin y) = (x <=? y).
Proof. reflexivity. Qed.

Lemma contains_b_of : forall a a', zcontains a a' -> contains_b (rng_of a) (rng_of a') = true.
Proof.
  intros a a' [H1 H2]. unfold contains_b, rng_of. simpl. apply andb_true_iff. split; apply Z.leb_le; assumption.
Qed.

Lemma rng_eqb_of : forall a a', rng_eqb (rng_of a) (rng_of a') = true <-> a = a'.
Proof.
  intros a a'. unfold rng_eqb, rng_of. simpl. rewrite andb_true_iff, !Z.eqb_eq. split.
  - intros [H1 H2]. apply zr_eq; assumption.
  - intros ->. auto.
Qed.

Lemma definitive_b_of : forall a, definitive_b (rng_of a) = zdefb a.
Proof. intros [x y]. reflexivity. Qed.

Lemma rng_ok_of : forall a, fst a <= snd a -> rng_ok (rng_of a) = true.
Proof. intros a H. unfold rng_ok, rng_of. simpl. apply Z.leb_le. exact H. Qed.

Lemma contains_refl : forall a, zcontains a a.
Proof. intros a. split; lia. Qed.

(* every step of the trace satisfies the clauses, whatever the fuel *)
Lemma trace_scan : forall M v fuel s, ContractV true M s v ->
  forall p, zcontains p (bnd M s) -> scan true (Some (rng_of p)) [] (trace_of M fuel s) = true.
Proof.
  intros M v fuel. induction fuel as [|fuel IH]; intros s H p Hp; [reflexivity|].
  cbn [trace_of scan app]. pose proof (cv_step true M s v H) as (H1 & H2 & H3 & H4 & H5).
  pose proof (cv_sound _ _ _ _ H1) as H2'.
  rewrite rng_ok_of by lia. rewrite rng_ok_of by lia.
  assert (S1 : clause_step true (rng_of p) (rng_of (bnd M s)) [] = true).
  { unfold clause_step. rewrite contains_b_of by assumption. reflexivity. }
  rewrite S1.
  assert (S2 : clause_step true (rng_of (bnd M s)) (rng_of (bnd M (fst (tig M s)))) [snd (tig M s)] = true).
  { unfold clause_step. rewrite contains_b_of by assumption. rewrite !definitive_b_of.
    destruct (snd (tig M s)) eqn:R; cbn [all_true all_false forallb last no_true_after_false negb andb].
    - assert (N : rng_eqb (rng_of (bnd M s)) (rng_of (bnd M (fst (tig M s)))) = false).
      { destruct (rng_eqb _ _) eqn:E; [|reflexivity]. apply rng_eqb_of in E. exfalso. apply (H4 eq_refl). congruence. }
      rewrite N. simpl.
      destruct (zdefb (bnd M s)) eqn:D; [|reflexivity].
      apply zdefb_spec in D. destruct (cv_definitive _ _ _ _ H D) as (_ & R' & _). congruence.
    - destruct (H5 eq_refl) as [D E]. specialize (E eq_refl).
      assert (D0 : zdefb (bnd M s) = true) by (apply zdefb_spec; rewrite <- E; exact D).
      assert (D1 : zdefb (bnd M (fst (tig M s))) = true) by (apply zdefb_spec; exact D).
      rewrite D0, D1. simpl.
      assert (Q : rng_eqb (rng_of (bnd M s)) (rng_of (bnd M (fst (tig M s)))) = true) by (apply rng_eqb_of; congruence).
      rewrite Q. reflexivity. }
  rewrite S2. simpl.
  destruct (snd (tig M s)); [|reflexivity].
  apply IH; [exact H1|apply contains_refl].
Qed.

Lemma trace_first : forall M v fuel s, ContractV true M s v -> scan true None [] (trace_of M fuel s) = true.
Proof.
  intros M v [|fuel] s H; [reflexivity|].
  pose proof (trace_scan M v (S fuel) s H (bnd M s) (contains_refl _)) as T.
  cbn [trace_of scan] in *. apply andb_true_iff in T. destruct T as [T1 T2].
  apply andb_true_iff in T1. destruct T1 as [T1 _]. rewrite T1. exact T2.
Qed.

(* the trace ends on the single value v once the fuel exceeds the width, and every observation contains v *)
Lemma trace_last : forall M v fuel s, ContractV true M s v -> (Z.to_nat (width (bnd M s)) < fuel)%nat ->
  forall acc, last_bounds (trace_of M fuel s) acc = Some (Fin v, Fin v).
Proof.
  intros M v fuel. induction fuel as [|fuel IH]; intros s H F acc; [lia|].
  cbn [trace_of last_bounds]. pose proof (cv_step true M s v H) as (H1 & H2 & H3 & H4 & H5).
  destruct (snd (tig M s)) eqn:R.
  - apply IH; [exact H1|]. pose proof (cv_true_width _ _ _ _ H R). lia.
  - simpl. destruct (H5 eq_refl) as [D _]. destruct (cv_definitive _ _ _ _ H1 D) as (E & _). rewrite E. reflexivity.
Qed.

Lemma trace_all_contain : forall M v fuel s, ContractV true M s v ->
  forallb (fun e => match e with EB b => contains_b b (Fin v, Fin v) | ET _ => true end) (trace_of M fuel s) = true.
Proof.
  intros M v fuel. induction fuel as [|fuel IH]; intros s H; [reflexivity|].
  cbn [trace_of forallb]. pose proof (cv_step true M s v H) as (H1 & H2 & H3 & H4 & H5).
  pose proof (cv_sound _ _ _ _ H1) as H2'.
  assert (C0 : contains_b (rng_of (bnd M s)) (Fin v, Fin v) = true).
  { unfold contains_b, rng_of. simpl. apply andb_true_iff. split; apply Z.leb_le; lia. }
  assert (C1 : contains_b (rng_of (bnd M (fst (tig M s)))) (Fin v, Fin v) = true).
  { unfold contains_b, rng_of. simpl. apply andb_true_iff. split; apply Z.leb_le; lia. }
  rewrite C0, C1. simpl. destruct (snd (tig M s)); [apply IH; exact H1|reflexivity].
Qed.

(* C04 on traces: the executable statement of the property holds on what the active observer records when it
   drives a machine that satisfies the contract (with enough fuel to reach the first False) *)
Theorem contract_trace_holds : forall M s v fuel, ContractV true M s v -> (Z.to_nat (width (bnd M s)) < fuel)%nat ->
  holds_events (trace_of M fuel s) = true.
Proof.
  intros M s v fuel H F. unfold holds_events. rewrite (trace_first M v fuel s H). simpl.
  unfold sound_events. rewrite (trace_last M v fuel s H F None).
  simpl. rewrite Z.eqb_refl. simpl. apply trace_all_contain. exact H.
Qed.

(* termination: a False is reached after at most `width` True steps, on the single value v *)
Theorem contract_terminates : forall k M s v, ContractV k M s v ->
  exists n, (n <= Z.to_nat (width (bnd M s)))%nat /\
            snd (tig M (steps M n s)) = false /\ bnd M (fst (tig M (steps M n s))) = (v, v) /\
            forall i, (i < n)%nat -> snd (tig M (steps M i s)) = true.
Proof.
  intros k M s v H. remember (Z.to_nat (width (bnd M s))) as w eqn:W.
  revert s H W. induction w as [w IH] using lt_wf_ind. intros s H W.
  pose proof (cv_step k M s v H) as (H1 & H2 & H3 & H4 & H5).
  destruct (snd (tig M s)) eqn:R.
  - pose proof (cv_true_width _ _ _ _ H R) as Wd.
    destruct (IH (Z.to_nat (width (bnd M (fst (tig M s))))) ltac:(lia) (fst (tig M s)) H1 eq_refl)
      as (n & Hn & Hf & Hb & Ht).
    exists (S n). split; [lia|]. cbn [steps]. split; [exact Hf|]. split; [exact Hb|].
    intros [|i] Hi; [exact R|]. cbn [steps]. apply Ht. lia.
  - exists O. split; [lia|]. cbn [steps]. split; [exact R|]. split.
    + destruct (H5 eq_refl) as [D _]. apply (cv_definitive _ _ _ _ H1 D).
    + intros i Hi. lia.
Qed.

(* ================================================================ Part B *)

(* ---------------------------------------------------------------- ConstantCostEdit *)
Theorem const_contract : forall c, ContractV true constM c c.
Proof.
  intros c. exists (fun t => t = c). split; [reflexivity|].
  intros t ->. unfold step_ok. simpl. repeat split; try lia; try reflexivity; discriminate.
Qed.

(* ---------------------------------------------------------------- sums *)
Lemma zr_sum_cons : forall a l, zr_sum (a :: l) = zr_add a (zr_sum l).
Proof. reflexivity. Qed.

Section Sum.
  Variable k : bool.
  Variable C : machine.

  Definition kids_ok (l : list (St C)) (vs : list Z) : Prop := Forall2 (fun s v => ContractV k C s v) l vs.

  Lemma kids_sound : forall l vs, kids_ok l vs ->
    fst (zr_sum (map (bnd C) l)) <= zsum vs <= snd (zr_sum (map (bnd C) l)).
  Proof.
    induction 1 as [|s v l vs H _ IH]; simpl; [lia|].
    pose proof (cv_sound _ _ _ _ H). lia.
  Qed.

  (* one pass of `for e in edits: if e.tighten_bounds(): return True` *)
  Lemma first_true_spec : forall l vs, kids_ok l vs ->
    let l' := fst (first_true (tig C) l) in
    let r := snd (first_true (tig C) l) in
    let b := zr_sum (map (bnd C) l) in
    let b' := zr_sum (map (bnd C) l') in
    kids_ok l' vs /\ zcontains b b' /\
    (r = true -> fst b < fst b' \/ snd b' < snd b) /\
    (r = false -> zdefinitive b' /\ (k = true -> b' = b)).
  Proof.
    induction 1 as [|s v l vs H Hl IH]; cbn zeta.
    - simpl. repeat split; try constructor; try lia; try discriminate.
    - cbn [first_true]. pose proof (cv_step k C s v H) as (H1 & H2 & H3 & H4 & H5).
      destruct (snd (tig C s)) eqn:R; cbn [fst snd map].
      + rewrite !zr_sum_cons. unfold zr_add, zcontains. cbn [fst snd].
        split; [constructor; assumption|]. destruct H3 as [C1 C2].
        split; [split; lia|]. split; [|discriminate].
        intros _. destruct (contained_neq_tighter _ _ (conj C1 C2) (H4 eq_refl)); lia.
      + cbn zeta in IH. destruct IH as (I1 & [I2a I2b] & I3 & I4).
        rewrite !zr_sum_cons. unfold zr_add, zcontains. cbn [fst snd].
        split; [constructor; assumption|]. destruct H3 as [C1 C2].
        split; [split; lia|]. split.
        * intros E. destruct (I3 E); lia.
        * intros E. destruct (I4 E) as [D Eq]. destruct (H5 eq_refl) as [D1 Eq1].
          unfold zdefinitive in *. cbn [fst snd]. split; [lia|].
          intros K. rewrite (Eq K), (Eq1 K). reflexivity.
  Qed.

  (* KeyValuePairEdit (and the other component-wise compounds): the contract of the components carries over *)
  Theorem sum_contract : forall l vs, kids_ok l vs -> ContractV k (sumM C) l (zsum vs).
  Proof.
    intros l vs H. exists (fun t => kids_ok t vs). split; [exact H|].
    intros t Ht. pose proof (first_true_spec t vs Ht) as (S1 & S2 & S3 & S4). cbn zeta in *.
    unfold step_ok. cbn [sumM St bnd tig].
    split; [exact S1|]. split; [apply kids_sound; exact Ht|]. split; [exact S2|]. split.
    - intros R E. destruct (S3 R); rewrite E in *; lia.
    - intros R. destruct (S4 R) as [D Eq]. split; [exact D|]. intros K. apply Eq. exact K.
  Qed.
End Sum.

(* ---------------------------------------------------------------- repeat_until_tightened / FixedLengthSequenceEdit *)
Section Fixed.
  Variable k : bool.
  Variable C : machine.

  Lemma fixed_bnd_eq : forall (l : list (St C)) x,
    fixed_bnd (bnd C) (l, x) = (fst (zr_sum (map (bnd C) l)) + x, snd (zr_sum (map (bnd C) l)) + x).
  Proof. reflexivity. Qed.

  (* the decorated function is  first sub-edit that tightens ; whatever the reading of False its components follow,
     the decorator makes the class satisfy the STRICT contract: it returns False only on a single value, untouched *)
  Theorem fixed_contract : forall l vs x, kids_ok k C l vs -> ContractV true (fixedM C) (l, x) (zsum vs + x).
  Proof.
    intros l vs x H. exists (fun t => kids_ok k C (fst t) vs /\ snd t = x). split; [split; [exact H|reflexivity]|].
    intros [t x'] [Ht Hx]. cbn [fst snd] in Ht, Hx. subst x'.
    pose proof (first_true_spec k C t vs Ht) as (S1 & S2 & S3 & S4). cbn zeta in *.
    pose proof (kids_sound k C t vs Ht) as So.
    unfold step_ok. cbn [fixedM St bnd tig]. unfold fixed_tig, rut.
    destruct (zdefb (fixed_bnd (bnd C) (t, x))) eqn:D.
    - cbn [fst snd]. rewrite fixed_bnd_eq. cbn [fst snd].
      split; [split; [exact Ht|reflexivity]|]. split; [lia|]. split; [split; lia|]. split; [discriminate|].
      intros _. apply zdefb_spec in D. rewrite fixed_bnd_eq in D. split; [exact D|reflexivity].
    - unfold rut_fuel. cbn [rut_loop fst snd].
      set (t' := fst (first_true (tig C) t)) in *. set (r := snd (first_true (tig C) t)) in *.
      pose proof (kids_sound k C t' vs S1) as So'.
      rewrite !fixed_bnd_eq. unfold widened, tighter. cbn [fst snd].
      destruct S2 as [C1 C2].
      replace ((fst (zr_sum (map (bnd C) t')) + x <? fst (zr_sum (map (bnd C) t)) + x)
               || (snd (zr_sum (map (bnd C) t)) + x <? snd (zr_sum (map (bnd C) t')) + x)) with false
        by (symmetry; apply orb_false_iff; split; apply Z.ltb_ge; lia).
      apply zdefb_false in D. rewrite fixed_bnd_eq in D. unfold zdefinitive in D. cbn [fst snd] in D.
      assert (T : zdefb (fst (zr_sum (map (bnd C) t')) + x, snd (zr_sum (map (bnd C) t')) + x)
                  || ((fst (zr_sum (map (bnd C) t)) + x <? fst (zr_sum (map (bnd C) t')) + x)
                      || (snd (zr_sum (map (bnd C) t')) + x <? snd (zr_sum (map (bnd C) t)) + x)) = true).
      { destruct r eqn:R.
        - apply orb_true_iff. right. apply orb_true_iff. destruct (S3 eq_refl); [left|right]; apply Z.ltb_lt; lia.
        - apply orb_true_iff. left. apply zdefb_spec. destruct (S4 eq_refl) as [D' _].
          unfold zdefinitive in *. cbn [fst snd]. lia. }
      rewrite T. cbn [fst snd]. rewrite !fixed_bnd_eq. cbn [fst snd].
      split; [split; [exact S1|reflexivity]|]. split; [lia|]. split; [split; cbn [fst snd]; lia|]. split; [|discriminate].
      intros _ E. injection E as E1 E2.
      apply orb_true_iff in T. destruct T as [T|T].
      + apply zdefb_spec in T. unfold zdefinitive in T. cbn [fst snd] in T. lia.
      + apply orb_true_iff in T. destruct T as [T|T]; apply Z.ltb_lt in T; lia.
  Qed.
End Fixed.

(* ================================================================ Part C: EditDistance *)

(* ---------------------------------------------------------------- sums of the j smallest elements *)
Lemma zinsert_comm : forall x y s, zinsert x (zinsert y s) = zinsert y (zinsert x s).
Proof.
  intros x y s. induction s as [|z s IH]; cbn [zinsert].
  - destruct (Z.leb_spec x y), (Z.leb_spec y x); try reflexivity; try lia.
    assert (x = y) by lia. subst. reflexivity.
  - destruct (Z.leb_spec y z), (Z.leb_spec x z); cbn [zinsert].
    + destruct (Z.leb_spec x y), (Z.leb_spec y x), (Z.leb_spec x z), (Z.leb_spec y z); try reflexivity; try lia.
      assert (x = y) by lia. subst. reflexivity.
    + destruct (Z.leb_spec x y), (Z.leb_spec y z), (Z.leb_spec x z); try reflexivity; lia.
    + destruct (Z.leb_spec y x), (Z.leb_spec y z), (Z.leb_spec x z); try reflexivity; lia.
    + destruct (Z.leb_spec x z), (Z.leb_spec y z); try lia. rewrite IH. reflexivity.
Qed.

Lemma zsort_perm : forall l l', Permutation l l' -> zsort l = zsort l'.
Proof.
  induction 1; cbn [zsort fold_right]; try reflexivity.
  - fold (zsort l). fold (zsort l'). rewrite IHPermutation. reflexivity.
  - fold (zsort l). apply zinsert_comm.
  - congruence.
Qed.

Lemma zinsert_perm : forall x s, Permutation (x :: s) (zinsert x s).
Proof.
  intros x s. induction s as [|y s IH]; cbn [zinsert]; [reflexivity|].
  destruct (x <=? y); [reflexivity|]. rewrite perm_swap. constructor. exact IH.
Qed.

Lemma zsort_is_perm : forall l, Permutation l (zsort l).
Proof.
  induction l as [|x l IH]; [reflexivity|]. cbn [zsort fold_right]. fold (zsort l).
  rewrite <- zinsert_perm. constructor. exact IH.
Qed.

Lemma zsum_perm : forall l l', Permutation l l' -> zsum l = zsum l'.
Proof. induction 1; simpl; lia. Qed.

Lemma zinsert_sorted : forall x s, StronglySorted Z.le s -> StronglySorted Z.le (zinsert x s).
Proof.
  intros x s H. induction H as [|y s Hs IH Hy]; cbn [zinsert].
  - constructor; constructor.
  - destruct (Z.leb_spec x y).
    + constructor; [constructor; assumption|]. constructor; [assumption|].
      rewrite Forall_forall in *. intros z Hz. specialize (Hy z Hz). lia.
    + constructor; [exact IH|]. rewrite Forall_forall in *. intros z Hz.
      apply (Permutation_in _ (Permutation_sym (zinsert_perm x s))) in Hz. destruct Hz as [<-|Hz]; [lia|auto].
Qed.

Lemma zsort_sorted : forall l, StronglySorted Z.le (zsort l).
Proof.
  induction l as [|x l IH]; [constructor|]. cbn [zsort fold_right]. fold (zsort l). apply zinsert_sorted. exact IH.
Qed.

Lemma zsort_length : forall l, length (zsort l) = length l.
Proof. intros l. symmetry. apply Permutation_length. apply zsort_is_perm. Qed.

(* shifting the window to the right in a sorted list does not decrease the sum *)
Lemma sorted_shift : forall s y j, StronglySorted Z.le (y :: s) -> (j <= length s)%nat ->
  zsum (firstn j (y :: s)) <= zsum (firstn j s).
Proof.
  induction s as [|z s IH]; intros y j H L; simpl in L.
  - assert (j = O) by lia. subst. simpl. lia.
  - destruct j as [|j]; [simpl; lia|].
    cbn [firstn zsum fold_right]. inversion H as [|? ? Hs Hy]; subst.
    assert (y <= z) by (inversion Hy; assumption).
    specialize (IH z j Hs ltac:(lia)). cbn [firstn zsum fold_right] in IH. unfold zsum in *. lia.
Qed.

Lemma firstn_insert_le : forall s x j, StronglySorted Z.le s -> (j <= length s)%nat ->
  zsum (firstn j (zinsert x s)) <= zsum (firstn j s).
Proof.
  induction s as [|y s IH]; intros x j H L; simpl in L.
  - assert (j = O) by lia. subst. simpl. lia.
  - destruct j as [|j]; [simpl; lia|]. cbn [zinsert]. destruct (Z.leb_spec x y).
    + cbn [firstn]. change (zsum (x :: firstn j (y :: s))) with (x + zsum (firstn j (y :: s))).
      change (zsum (y :: firstn j s)) with (y + zsum (firstn j s)).
      pose proof (sorted_shift s y j H ltac:(lia)). lia.
    + cbn [firstn]. change (zsum (y :: firstn j (zinsert x s))) with (y + zsum (firstn j (zinsert x s))).
      change (zsum (y :: firstn j s)) with (y + zsum (firstn j s)).
      inversion H; subst. specialize (IH x j ltac:(assumption) ltac:(lia)). lia.
Qed.

Lemma firstn_insert_S : forall s x j, zsum (firstn (S j) (zinsert x s)) <= zsum (firstn j s) + x.
Proof.
  induction s as [|y s IH]; intros x j.
  - cbn [zinsert firstn]. destruct j; simpl; lia.
  - cbn [zinsert]. destruct (Z.leb_spec x y).
    + cbn [firstn]. change (zsum (x :: firstn j (y :: s))) with (x + zsum (firstn j (y :: s))). lia.
    + change (firstn (S j) (y :: zinsert x s)) with (y :: firstn j (zinsert x s)).
      change (zsum (y :: firstn j (zinsert x s))) with (y + zsum (firstn j (zinsert x s))).
      destruct j as [|j]; [simpl; lia|].
      specialize (IH x j). change (firstn (S j) (y :: s)) with (y :: firstn j s).
      change (zsum (y :: firstn j s)) with (y + zsum (firstn j s)). lia.
Qed.

Lemma firstn_S_nonneg : forall s j, Forall (fun x => 0 <= x) s -> zsum (firstn j s) <= zsum (firstn (S j) s).
Proof.
  induction s as [|y s IH]; intros j H; [destruct j; simpl; lia|].
  inversion H; subst. destruct j as [|j].
  - simpl. pose proof (zsum_nonneg (firstn 0 s)). simpl in *. lia.
  - change (firstn (S (S j)) (y :: s)) with (y :: firstn (S j) s).
    change (firstn (S j) (y :: s)) with (y :: firstn j s).
    change (zsum (y :: firstn (S j) s)) with (y + zsum (firstn (S j) s)).
    change (zsum (y :: firstn j s)) with (y + zsum (firstn j s)).
    specialize (IH j ltac:(assumption)). lia.
Qed.

Lemma zsort_nonneg : forall l, Forall (fun x => 0 <= x) l -> Forall (fun x => 0 <= x) (zsort l).
Proof.
  intros l H. rewrite Forall_forall in *. intros x Hx.
  apply H. apply (Permutation_in _ (Permutation_sym (zsort_is_perm l))). exact Hx.
Qed.

(* the pool grows by x: the sum of the j smallest can only fall; one more element costs at most x more *)
Lemma ss_cons_le : forall x l j, (j <= length l)%nat -> sum_smallest j (x :: l) <= sum_smallest j l.
Proof.
  intros x l j L. unfold sum_smallest. cbn [zsort fold_right]. fold (zsort l).
  apply firstn_insert_le; [apply zsort_sorted|rewrite zsort_length; exact L].
Qed.

Lemma ss_cons_S : forall x l j, sum_smallest (S j) (x :: l) <= sum_smallest j l + x.
Proof.
  intros x l j. unfold sum_smallest. cbn [zsort fold_right]. fold (zsort l). apply firstn_insert_S.
Qed.

Lemma ss_S_nonneg : forall l j, Forall (fun x => 0 <= x) l -> sum_smallest j l <= sum_smallest (S j) l.
Proof. intros l j H. unfold sum_smallest. apply firstn_S_nonneg. apply zsort_nonneg. exact H. Qed.

Lemma ss_nonneg : forall l j, Forall (fun x => 0 <= x) l -> 0 <= sum_smallest j l.
Proof.
  intros l j H. unfold sum_smallest. apply zsum_nonneg.
  pose proof (zsort_nonneg l H) as H'. rewrite Forall_forall in *. intros x Hx. apply H'.
  revert Hx. generalize (zsort l). clear. intros s. revert j.
  induction s as [|y s IH]; intros [|j] Hx; simpl in Hx; try contradiction.
  destruct Hx as [<-|Hx]; [left; reflexivity|right; apply (IH j Hx)].
Qed.

(* ---------------------------------------------------------------- lists of minima, fringe diagonals *)
Lemma fold_min_le_init : forall l x, fold_right Z.min x l <= x.
Proof. induction l; intros; simpl; lia. Qed.

Lemma fold_min_le_in : forall l x y, In y l -> fold_right Z.min x l <= y.
Proof. induction l; intros x y H; simpl in *; [contradiction|]. destruct H as [<-|H]; [lia|]. specialize (IHl x y H). lia. Qed.

Lemma zmin_list_le : forall l x, In x l -> zmin_list l <= x.
Proof.
  intros [|y l] x H; [contradiction|]. cbn [zmin_list]. destruct H as [<-|H]; [apply fold_min_le_init|apply fold_min_le_in; exact H].
Qed.

Lemma fold_min_ge : forall l x b, b <= x -> (forall y, In y l -> b <= y) -> b <= fold_right Z.min x l.
Proof. induction l; intros x b Hx H; simpl; [exact Hx|]. apply Z.min_glb; [apply H; left; reflexivity|apply IHl; [exact Hx|intros; apply H; right; assumption]]. Qed.

Lemma zmin_list_ge : forall l b, l <> [] -> (forall y, In y l -> b <= y) -> b <= zmin_list l.
Proof.
  intros [|y l] b N H; [congruence|]. cbn [zmin_list]. apply fold_min_ge; [apply H; left; reflexivity|intros; apply H; right; assumption].
Qed.

Lemma in_diag : forall m n k r c, In (r, c) (diag m n k) <-> (r + c = k /\ r <= m /\ c <= n)%nat.
Proof.
  intros m n k r c. unfold diag. rewrite filter_In, in_map_iff. cbn [snd]. rewrite Nat.leb_le. split.
  - intros [(r' & E & Hr) Hc]. injection E as -> <-. rewrite <- in_rev, in_seq in Hr. lia.
  - intros (E & Hr & Hc). split; [|exact Hc]. exists r. split; [f_equal; lia|]. rewrite <- in_rev, in_seq. lia.
Qed.

Lemma diag_nonempty : forall m n k, (k <= m + n)%nat -> diag m n k <> [].
Proof.
  intros m n k H E.
  assert (I : In (Nat.min k m, (k - Nat.min k m)%nat) (diag m n k)) by (apply in_diag; lia).
  rewrite E in I. contradiction.
Qed.

(* ---------------------------------------------------------------- the cost matrix *)
Lemma nth_nonneg : forall l i, Forall (fun x => 0 <= x) l -> 0 <= nth i l 0.
Proof.
  intros l i H. destruct (Nat.lt_ge_cases i (length l)) as [L|L].
  - rewrite Forall_forall in H. apply H. apply nth_In. exact L.
  - rewrite nth_overflow by exact L. lia.
Qed.

Lemma zsum_firstn_S : forall l i, (i < length l)%nat -> zsum (firstn (S i) l) = zsum (firstn i l) + nth i l 0.
Proof. intros l i H. rewrite (firstn_S_nth l i 0 H), zsum_app. simpl. lia. Qed.

Lemma rev_firstn_S : forall l i, (i < length l)%nat -> rev (firstn (S i) l) = nth i l 0 :: rev (firstn i l).
Proof. intros l i H. rewrite (firstn_S_nth l i 0 H), rev_app_distr. reflexivity. Qed.

Section Matrix.
  Variables (rc ic : list Z) (mcs : list (list Z)).
  Hypothesis Hd : dims_ok rc ic mcs.
  Hypothesis Hrc : Forall (fun x => 0 <= x) rc.
  Hypothesis Hic : Forall (fun x => 0 <= x) ic.
  Hypothesis Hmc : Forall (Forall (fun x => 0 <= x)) mcs.

  Let n := length rc.
  Let m := length ic.
  Definition cc (r c : nat) : Z := ccost (cell_at (matrix rc ic mcs) r c).
  Definition mcv (r c : nat) : Z := nth c (nth r mcs []) 0.

  Lemma mcv_nonneg : forall r c, 0 <= mcv r c.
  Proof.
    intros r c. unfold mcv. apply nth_nonneg.
    destruct (Nat.lt_ge_cases r (length mcs)) as [L|L].
    - rewrite Forall_forall in Hmc. apply Hmc. apply nth_In. exact L.
    - rewrite nth_overflow by exact L. constructor.
  Qed.

  (* every cell is a predecessor's cost plus the cost of one edit *)
  Lemma cell_step : forall r c, (r <= m)%nat -> (c <= n)%nat ->
    (r = O /\ c = O /\ cc r c = 0) \/
    (exists c', c = S c' /\ cc r c = cc r c' + nth c' rc 0) \/
    (exists r', r = S r' /\ cc r c = cc r' c + nth r' ic 0) \/
    (exists r' c', r = S r' /\ c = S c' /\ cc r c = cc r' c' + mcv r' c' /\
                   mcv r' c' < nth r' ic 0 /\ mcv r' c' < nth c' rc 0).
  Proof.
    intros r c Hr Hc. unfold cc. destruct r as [|r], c as [|c].
    - left. auto.
    - right. left. exists c. split; [reflexivity|]. rewrite (cell_0S rc ic mcs c) by (fold n; lia). reflexivity.
    - right. right. left. exists r. split; [reflexivity|]. rewrite (cell_S0 rc ic mcs Hd r) by (fold m; lia). reflexivity.
    - rewrite (cell_SS rc ic mcs Hd r c) by (fold m n; lia).
      destruct (best_cases (cell_at (matrix rc ic mcs) r c) (cell_at (matrix rc ic mcs) (S r) c)
                           (cell_at (matrix rc ic mcs) r (S c)) (nth c (nth r mcs []) 0) (nth r ic 0) (nth c rc 0))
        as [(_ & Cq & L1 & L2)|[(_ & Cq)|(_ & Cq)]]; rewrite Cq.
      + right. right. right. exists r, c. unfold mcv. auto.
      + right. right. left. exists r. auto.
      + right. left. exists c. auto.
  Qed.

  (* upper bound: removing and inserting everything *)
  Lemma cc_upper : forall s r c, (r + c = s)%nat -> (r <= m)%nat -> (c <= n)%nat ->
    cc r c <= zsum (firstn c rc) + zsum (firstn r ic).
  Proof.
    induction s as [s IH] using lt_wf_ind. intros r c Hs Hr Hc.
    destruct (cell_step r c Hr Hc) as [(-> & -> & E)|[(c' & -> & E)|[(r' & -> & E)|(r' & c' & -> & -> & E & L1 & L2)]]].
    - rewrite E. simpl. lia.
    - rewrite E, zsum_firstn_S by (fold n; lia). specialize (IH (r + c')%nat ltac:(lia) r c' eq_refl Hr ltac:(lia)). lia.
    - rewrite E, (zsum_firstn_S ic) by (fold m; lia). specialize (IH (r' + c)%nat ltac:(lia) r' c eq_refl ltac:(lia) Hc). lia.
    - rewrite E, zsum_firstn_S by (fold n; lia). rewrite (zsum_firstn_S ic) by (fold m; lia).
      specialize (IH (r' + c')%nat ltac:(lia) r' c' eq_refl ltac:(lia) ltac:(lia)).
      pose proof (nth_nonneg rc c' Hrc). lia.
  Qed.

  (* a diagonal step is strictly below that bound *)
  Lemma cc_nonneg : forall s r c, (r + c = s)%nat -> (r <= m)%nat -> (c <= n)%nat -> 0 <= cc r c.
  Proof.
    induction s as [s IH] using lt_wf_ind. intros r c Hs Hr Hc.
    destruct (cell_step r c Hr Hc) as [(-> & -> & E)|[(c' & -> & E)|[(r' & -> & E)|(r' & c' & -> & -> & E & L1 & L2)]]].
    - lia.
    - specialize (IH (r + c')%nat ltac:(lia) r c' eq_refl Hr ltac:(lia)). pose proof (nth_nonneg rc c' Hrc). lia.
    - specialize (IH (r' + c)%nat ltac:(lia) r' c eq_refl ltac:(lia) Hc). pose proof (nth_nonneg ic r' Hic). lia.
    - specialize (IH (r' + c')%nat ltac:(lia) r' c' eq_refl ltac:(lia) ltac:(lia)). pose proof (mcv_nonneg r' c'). lia.
  Qed.

  (* lower bound: at least |c - r| elements of the longer prefix are removed (inserted), each at its own cost *)
  Definition lbc (r c : nat) : Z :=
    if (r <=? c)%nat then sum_smallest (c - r) (rev (firstn c rc)) else sum_smallest (r - c) (rev (firstn r ic)).

  Lemma Forall_rev_firstn : forall l i, Forall (fun x => 0 <= x) l -> Forall (fun x => 0 <= x) (rev (firstn i l)).
  Proof.
    intros l i H. rewrite Forall_forall in *. intros x Hx. apply H. rewrite <- in_rev in Hx.
    revert i Hx. induction l as [|y l IHl]; intros [|i] Hx; simpl in Hx; try contradiction.
    destruct Hx as [<-|Hx]; [left; reflexivity|right; apply (IHl i Hx)].
  Qed.

  Lemma rev_firstn_length : forall (l : list Z) i, (i <= length l)%nat -> length (rev (firstn i l)) = i.
  Proof. intros l i H. rewrite rev_length, firstn_length. lia. Qed.

  Lemma cc_lower : forall s r c, (r + c = s)%nat -> (r <= m)%nat -> (c <= n)%nat -> lbc r c <= cc r c.
  Proof.
    induction s as [s IH] using lt_wf_ind. intros r c Hs Hr Hc.
    destruct (cell_step r c Hr Hc) as [(-> & -> & E)|[(c' & -> & E)|[(r' & -> & E)|(r' & c' & -> & -> & E & L1 & L2)]]].
    - rewrite E. unfold lbc. simpl. lia.
    - rewrite E. specialize (IH (r + c')%nat ltac:(lia) r c' eq_refl Hr ltac:(lia)).
      pose proof (nth_nonneg rc c' Hrc) as P. unfold lbc in *.
      destruct (Nat.leb_spec r (S c')), (Nat.leb_spec r c'); try lia.
      + rewrite rev_firstn_S by (fold n; lia). replace (S c' - r)%nat with (S (c' - r)) by lia.
        pose proof (ss_cons_S (nth c' rc 0) (rev (firstn c' rc)) (c' - r)). lia.
      + assert (r = S c') by lia. subst r. replace (S c' - S c')%nat with O by lia.
        unfold sum_smallest at 1. simpl.
        pose proof (ss_nonneg (rev (firstn (S c') ic)) (S c' - c') (Forall_rev_firstn ic _ Hic)). lia.
      + pose proof (ss_S_nonneg (rev (firstn r ic)) (r - S c') (Forall_rev_firstn ic _ Hic)) as Q.
        replace (S (r - S c')) with (r - c')%nat in Q by lia. lia.
    - rewrite E. specialize (IH (r' + c)%nat ltac:(lia) r' c eq_refl ltac:(lia) Hc).
      pose proof (nth_nonneg ic r' Hic) as P. unfold lbc in *.
      destruct (Nat.leb_spec (S r') c), (Nat.leb_spec r' c); try lia.
      + pose proof (ss_S_nonneg (rev (firstn c rc)) (c - S r') (Forall_rev_firstn rc _ Hrc)) as Q.
        replace (S (c - S r')) with (c - r')%nat in Q by lia. lia.
      + assert (c = r') by lia. subst c. rewrite rev_firstn_S by (fold m; lia).
        replace (S r' - r')%nat with 1%nat by lia. replace (r' - r')%nat with O in IH by lia.
        pose proof (ss_cons_S (nth r' ic 0) (rev (firstn r' ic)) 0) as Q. unfold sum_smallest at 2 in Q. simpl in Q. lia.
      + rewrite rev_firstn_S by (fold m; lia). replace (S r' - c)%nat with (S (r' - c)) by lia.
        pose proof (ss_cons_S (nth r' ic 0) (rev (firstn r' ic)) (r' - c)). lia.
    - rewrite E. specialize (IH (r' + c')%nat ltac:(lia) r' c' eq_refl ltac:(lia) ltac:(lia)).
      pose proof (mcv_nonneg r' c') as P. unfold lbc in *. cbn [Nat.leb]. replace (S c' - S r')%nat with (c' - r')%nat by lia.
      replace (S r' - S c')%nat with (r' - c')%nat by lia.
      destruct (Nat.leb_spec r' c').
      + rewrite rev_firstn_S by (fold n; lia).
        pose proof (ss_cons_le (nth c' rc 0) (rev (firstn c' rc)) (c' - r')
                               ltac:(rewrite rev_firstn_length by (fold n; lia); lia)). lia.
      + rewrite rev_firstn_S by (fold m; lia).
        pose proof (ss_cons_le (nth r' ic 0) (rev (firstn r' ic)) (r' - c')
                               ltac:(rewrite rev_firstn_length by (fold m; lia); lia)). lia.
  Qed.

  (* every cell but (0,0) has a predecessor on one of the two previous diagonals that costs no more *)
  Lemma cc_pred : forall r c, (r <= m)%nat -> (c <= n)%nat -> (1 <= r + c)%nat ->
    exists r' c', (r' <= m)%nat /\ (c' <= n)%nat /\ (r' + c' < r + c)%nat /\ (r + c <= r' + c' + 2)%nat /\ cc r' c' <= cc r c.
  Proof.
    intros r c Hr Hc H1.
    destruct (cell_step r c Hr Hc) as [(-> & -> & E)|[(c' & -> & E)|[(r' & -> & E)|(r' & c' & -> & -> & E & L1 & L2)]]].
    - lia.
    - exists r, c'. pose proof (nth_nonneg rc c' Hrc). repeat split; lia.
    - exists r', c. pose proof (nth_nonneg ic r' Hic). repeat split; lia.
    - exists r', c'. pose proof (mcv_nonneg r' c'). repeat split; lia.
  Qed.

  (* minimum over a fringe diagonal / over the fringe and the previous one *)
  Definition gmin (k : nat) : Z := zmin_list (map (fun p => cc (fst p) (snd p)) (diag m n k)).
  Definition hmin (j : nat) : Z := Z.min (gmin j) (gmin (j - 1)).

  Lemma gmin_le : forall r c, (r <= m)%nat -> (c <= n)%nat -> gmin (r + c) <= cc r c.
  Proof.
    intros r c Hr Hc. unfold gmin. apply zmin_list_le.
    apply (in_map (fun p => cc (fst p) (snd p)) _ (r, c)). apply in_diag. lia.
  Qed.

  (* the fringe bound: every cell on the fringe diagonals or beyond costs at least the fringe minimum *)
  Lemma fringe_min_le : forall j s r c, (r + c = s)%nat -> (r <= m)%nat -> (c <= n)%nat -> (j <= s + 1)%nat ->
    hmin j <= cc r c.
  Proof.
    intros j. induction s as [s IH] using lt_wf_ind. intros r c Hs Hr Hc Hj. unfold hmin.
    destruct (Nat.eq_dec s j) as [E|N1]; [subst j; rewrite <- Hs; pose proof (gmin_le r c Hr Hc); lia|].
    destruct (Nat.eq_dec s (j - 1)) as [E|N2].
    { rewrite <- E, <- Hs. pose proof (gmin_le r c Hr Hc). lia. }
    destruct (cc_pred r c Hr Hc ltac:(lia)) as (r' & c' & Hr' & Hc' & L1 & L2 & Le).
    specialize (IH (r' + c')%nat ltac:(lia) r' c' eq_refl Hr' Hc' ltac:(lia)). unfold hmin in IH. lia.
  Qed.

  (* it is non-decreasing along the diagonals *)
  Lemma hmin_mono : forall j, (1 <= j)%nat -> (S j <= m + n)%nat -> hmin j <= hmin (S j).
  Proof.
    intros j H1 H2. unfold hmin at 2. replace (S j - 1)%nat with j by lia. apply Z.min_glb.
    - unfold gmin. apply zmin_list_ge.
      + intros E. apply map_eq_nil in E. revert E. apply diag_nonempty. fold m n. lia.
      + intros y Hy. apply in_map_iff in Hy. destruct Hy as ([r c] & <- & Hi). apply in_diag in Hi. cbn [fst snd].
        apply (fringe_min_le j (r + c) r c eq_refl); lia.
    - unfold hmin. lia.
  Qed.
End Matrix.
