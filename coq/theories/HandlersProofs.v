(* C20: theorems about the model of the error handlers and main()'s error path.
   In the general lemmas `raises` (the exception classes a loader raises on malformed bytes) is a
   Section variable; C20_full instantiates it with HandlersSpec.raises_table and discharges the
   totality hypothesis by computation over the (finite) tables translated from /repo: if a handler
   of the current source stops covering a tabulated class, this file no longer compiles. *)
From Coq Require Import String Ascii List Bool ZArith Lia.
Require Import GT.PyBase GT.HandlersSpec GTgen.HandlersGen GT.HandlersModel.
Import ListNotations.
Open Scope string_scope.

(* ------------------------------------------------------------------ strings *)

Lemma sapp_assoc : forall a b c : string, (a ++ b) ++ c = a ++ (b ++ c).
Proof. induction a; simpl; intros; [reflexivity | now rewrite IHa]. Qed.

Lemma sapp_nil_r : forall a : string, a ++ "" = a.
Proof. induction a; simpl; [reflexivity | now rewrite IHa]. Qed.

Lemma starts_with_app : forall p q, starts_with p (p ++ q) = true.
Proof. induction p; simpl; intros; [reflexivity | now rewrite Ascii.eqb_refl, IHp]. Qed.

Lemma starts_with_elim : forall p s, starts_with p s = true -> exists q, s = p ++ q.
Proof.
  induction p; simpl; intros s H.
  - now exists s.
  - destruct s as [|b s]; [discriminate|].
    apply andb_true_iff in H as [H1 H2]. apply Ascii.eqb_eq in H1. subst b.
    destruct (IHp _ H2) as [q ->]. now exists q.
Qed.

Lemma contains_unfold : forall sub s,
  contains sub s = starts_with sub s || match s with EmptyString => false | String _ s' => contains sub s' end.
Proof. destruct s; reflexivity. Qed.

Lemma contains_app_r : forall sub a s, contains sub s = true -> contains sub (a ++ s) = true.
Proof.
  induction a; simpl; intros s H; [exact H|].
  rewrite (IHa _ H). apply orb_true_r.
Qed.

Lemma contains_intro : forall sub pre post, contains sub (pre ++ sub ++ post) = true.
Proof.
  intros. apply contains_app_r. rewrite contains_unfold, starts_with_app. reflexivity.
Qed.

Lemma contains_elim : forall sub s, contains sub s = true -> exists pre post, s = pre ++ sub ++ post.
Proof.
  induction s as [|a s IH]; intros H; rewrite contains_unfold in H; apply orb_true_iff in H as [H|H].
  - destruct (starts_with_elim _ _ H) as [q ->]. now exists "", q.
  - discriminate.
  - destruct (starts_with_elim _ _ H) as [q ->]. now exists "", q.
  - destruct (IH H) as (pre & post & ->). now exists (String a pre), post.
Qed.

Lemma contains_app_l : forall sub s b, contains sub s = true -> contains sub (s ++ b) = true.
Proof.
  intros sub s b H. destruct (contains_elim _ _ H) as (pre & post & ->).
  rewrite !sapp_assoc. apply contains_intro.
Qed.

Lemma contains_refl : forall s, contains s s = true.
Proof. intros s. pose proof (contains_intro s "" "") as H. simpl in H. now rewrite sapp_nil_r in H. Qed.

(* the basename is a suffix of the path *)
Lemma basename_suffix : forall p, exists pre, p = pre ++ basename p.
Proof.
  induction p as [|c r IH]; simpl.
  - now exists "".
  - destruct (has_slash r).
    + destruct IH as [pre E]. exists (String c pre). simpl. now rewrite <- E.
    + destruct (is_slash c).
      * now exists (String c "").
      * now exists "".
Qed.

Lemma contains_basename_path : forall p, contains (basename p) p = true.
Proof.
  intros p. destruct (basename_suffix p) as [pre E].
  rewrite E at 2. rewrite <- (sapp_nil_r (basename p)) at 2. apply contains_intro.
Qed.

(* ------------------------------------------------------------------ messages *)

Lemma render_mentions : forall path e ps,
  existsb piece_mentions ps = true -> contains (basename path) (render path e ps) = true.
Proof.
  induction ps as [|p r IH]; simpl; intros H; [discriminate|].
  apply orb_true_iff in H as [H|H].
  - apply contains_app_l.
    destruct p as [s|ex cv spec]; [discriminate|].
    destruct ex; try discriminate; destruct cv; try discriminate; simpl;
      first [ apply contains_refl | apply contains_basename_path ].
  - apply contains_app_r. exact (IH H).
Qed.

Lemma render_writes_mentions : forall bn m ws,
  existsb is_wtree ws = true -> contains bn m = true -> contains bn (render_writes m ws) = true.
Proof.
  induction ws as [|w r IH]; simpl; intros H Hm; [discriminate|].
  destruct w; simpl in *.
  - now apply contains_app_l.
  - apply contains_app_r. now apply IH.
Qed.

(* ------------------------------------------------------------------ the handler *)

Lemma class_ok_sound : forall ft path e, class_ok ft (e_class e) = true ->
  exists m, handler ft path e = Message m /\ contains (basename path) m = true.
Proof.
  intros ft path e H. unfold class_ok in H. unfold handler.
  destruct (handler_sym ft (e_class e)) as [ps|x]; [|discriminate].
  exists (render path e ps). split; [reflexivity | now apply render_mentions].
Qed.

(* the symbolic outcome determines the concrete one: an escaping class does not depend on the texts *)
Lemma escapes_sound : forall ft path e x, handler_sym ft (e_class e) = SEscapes x ->
  handler ft path e = Escapes x.
Proof. intros ft path e x H. unfold handler. now rewrite H. Qed.

(* ------------------------------------------------------------------ main() *)

(* the error blocks of main() for both positions write the message to stderr, return non-zero and
   return before any diff is printed: computed from the translated blocks *)
Lemma main_path_ok : main_ok = true.
Proof. vm_compute. reflexivity. Qed.

Lemma main_err_ok_pos : forall pos, main_err_ok (main_err_of pos) = true.
Proof.
  pose proof main_path_ok as H. unfold main_ok in H. apply andb_true_iff in H as [H1 H2].
  destruct pos; assumption.
Qed.

Lemma main_message : forall pos bn m, contains bn m = true ->
  exists st err, main_on_error pos (Message m) = Exit st "" err
    /\ st <> 0%Z /\ contains bn err = true
    /\ err = render_writes m (me_writes (main_err_of pos)).
Proof.
  intros pos bn m Hm. pose proof (main_err_ok_pos pos) as H. unfold main_err_ok in H.
  apply andb_true_iff in H as [H H3]. apply andb_true_iff in H as [H H2].
  apply andb_true_iff in H as [H1 H0].
  unfold main_on_error. rewrite H3.
  destruct (me_stdout (main_err_of pos)) as [|w ws]; [|discriminate]. simpl.
  exists (me_status (main_err_of pos)), (render_writes m (me_writes (main_err_of pos))).
  repeat split.
  - apply negb_true_iff, Z.eqb_neq in H2. exact H2.
  - now apply render_writes_mentions.
Qed.

Lemma reported_message : forall pos path m, contains (basename path) m = true ->
  reported path (main_on_error pos (Message m)) = true.
Proof.
  intros pos path m Hm. destruct (main_message pos _ _ Hm) as (st & err & E & Hst & Hc & _).
  rewrite E. unfold reported. rewrite Hc. simpl. apply Z.eqb_neq in Hst. now rewrite Hst.
Qed.

(* an exception escaping the handler that main() does not catch is a crash: not reported *)
Lemma escape_not_reported : forall ft path pos e x,
  handler ft path e = Escapes x -> main_catch x = None ->
  main_on_error pos (handler ft path e) = Crash x /\
  reported path (main_on_error pos (handler ft path e)) = false.
Proof.
  intros ft path pos e x H Hc. rewrite H. unfold main_on_error. rewrite Hc. split; reflexivity.
Qed.

(* ------------------------------------------------------------------ C20 *)

Definition C20_for (ft : string) (e : exn) (path : string) (pos : position) : Prop :=
  exists m st err,
    handler ft path e = Message m
    /\ contains (basename path) m = true
    /\ main_on_error pos (Message m) = Exit st "" err      (* stdout: no diff *)
    /\ st <> 0%Z
    /\ err = render_writes m (me_writes (main_err_of pos))
    /\ contains (basename path) err = true
    /\ reported path (main_on_error pos (handler ft path e)) = true.

Theorem C20_class : forall ft e path pos, class_ok ft (e_class e) = true -> C20_for ft e path pos.
Proof.
  intros ft e path pos H. destruct (class_ok_sound ft path e H) as (m & Hm & Hc).
  destruct (main_message pos _ _ Hc) as (st & err & E & Hst & Hce & Herr).
  exists m, st, err. repeat split; try assumption.
  rewrite Hm. now apply reported_message.
Qed.

Section Raises.
  Variable raises : string -> list string.

  Definition C20_statement (ft : string) : Prop :=
    forall e path pos, In (e_class e) (raises ft) -> C20_for ft e path pos.

  Theorem C20_ft : forall ft, handler_total raises ft = true -> C20_statement ft.
  Proof.
    intros ft H e path pos Hin. apply C20_class.
    unfold handler_total in H. rewrite forallb_forall in H. now apply H.
  Qed.

  Theorem C20_all : forallb (handler_total raises) text_types = true ->
    forall ft, In ft text_types -> C20_statement ft.
  Proof.
    intros H ft Hin. apply C20_ft. rewrite forallb_forall in H. now apply H.
  Qed.

  (* handler_total is exact about escapes: where it is false because some listed class escapes,
     every exception of that class crashes main() (unless main() itself catches it) *)
  Theorem total_false_escape : forall ft c x, In (c, SEscapes x) (failures raises ft) ->
    main_catch x = None ->
    In c (raises ft) /\
    forall e path pos, e_class e = c ->
      main_on_error pos (handler ft path e) = Crash x /\
      reported path (main_on_error pos (handler ft path e)) = false.
  Proof.
    intros ft c x Hin Hc. unfold failures in Hin. apply filter_In in Hin as [Hin _].
    apply in_map_iff in Hin as (c' & E & Hin). inversion E; subst c'. split; [assumption|].
    intros e path pos Hcls. apply escape_not_reported; [|assumption].
    apply escapes_sound. now rewrite Hcls.
  Qed.

  (* handler_total ft = true exactly when there are no failures *)
  Theorem total_iff_no_failures : forall ft, handler_total raises ft = true <-> failures raises ft = [].
  Proof.
    intros ft. unfold handler_total, failures. induction (raises ft) as [|c r IH]; simpl.
    - tauto.
    - destruct (class_ok ft c); simpl.
      + exact IH.
      + split; discriminate.
  Qed.
End Raises.

(* ------------------------------------------------------------------ unconditional theorems *)

(* every tabulated loader exception of every text format is covered by the handler translated from
   the current source: a finite table, decided by computation *)
Lemma table_total : forallb (handler_total raises_table) text_types = true.
Proof. vm_compute. reflexivity. Qed.

(* C20, unconditionally, for the tables translated from the current source *)
Theorem C20_full : forall ft e path pos, In ft text_types -> In (e_class e) (raises_table ft) ->
  C20_for ft e path pos.
Proof. intros ft e path pos Hft Hin. exact (C20_all raises_table table_total ft Hft e path pos Hin). Qed.

Lemma for_reported : forall ft e path pos, C20_for ft e path pos ->
  reported path (main_on_error pos (handler ft path e)) = true.
Proof. intros ft e path pos (m & st & err & A). apply A. Qed.

Corollary C20_full_reported : forall ft e path pos, In ft text_types -> In (e_class e) (raises_table ft) ->
  reported path (main_on_error pos (handler ft path e)) = true.
Proof. intros. now apply for_reported, C20_full. Qed.

(* no tabulated class is left uncovered *)
Corollary no_failures : forall ft, In ft text_types -> failures raises_table ft = [].
Proof.
  intros ft Hft. apply total_iff_no_failures.
  pose proof table_total as H. rewrite forallb_forall in H. now apply H.
Qed.

(* transfer to observed cases: if the observed loader exception is tabulated and main() did what the
   model says (corr_C20), the observed outcome satisfies the property (holds_C20) *)
Lemma result_eqb_eq : forall a b, result_eqb a b = true -> a = b.
Proof.
  intros [s o e|c] [s' o' e'|c']; simpl; intros H; try discriminate.
  - apply andb_true_iff in H as [H H3]. apply andb_true_iff in H as [H1 H2].
    apply Z.eqb_eq in H1. apply String.eqb_eq in H2. apply String.eqb_eq in H3. now subst.
  - apply String.eqb_eq in H. now subst.
Qed.

Theorem C20_transfer : forall c, In (c_ft c) text_types -> corr_C20 c = true -> holds_C20 c = true.
Proof.
  intros c Hft H. unfold corr_C20 in H. apply andb_true_iff in H as [Hr Hc].
  unfold in_raises in Hr. unfold corr_outcome, model_result in Hc. unfold holds_C20.
  destruct (c_exn c) as [e|]; [|discriminate].
  apply result_eqb_eq in Hc. rewrite <- Hc.
  apply C20_full_reported; [assumption|].
  apply existsb_exists in Hr as (k & Hin & Hk). apply String.eqb_eq in Hk. now subst k.
Qed.

(* the hypotheses are satisfiable by non-trivial values: a scanner error in the second YAML file, a
   malformed JSON5 file in the first position (D13a before the repair), an IndexError of plistlib
   caught through its superclass LookupError (D13b), a JSON file that is not UTF-8 (D13c), an unknown
   declared encoding in an XML file (D13d) *)
Example C20_witness :
  let e := {| e_class := "yaml.scanner.ScannerError"; e_str := "mapping values are not allowed here";
              e_repr := "ScannerError()"; e_attrs := [] |} in
  In "yaml" text_types /\ In (e_class e) (raises_table "yaml") /\
  class_ok "yaml" (e_class e) = true /\
  reported "/tmp/dir/b.yaml" (main_on_error Second (handler "yaml" "/tmp/dir/b.yaml" e)) = true.
Proof. vm_compute. repeat split; tauto. Qed.

Example C20_full_witness :
  let e5 := {| e_class := "builtins.ValueError"; e_str := "<string>:1 Unexpected ""}"" at column 10";
               e_repr := "ValueError()"; e_attrs := [] |} in
  let ep := {| e_class := "builtins.IndexError"; e_str := "list index out of range";
               e_repr := "IndexError('list index out of range')"; e_attrs := [] |} in
  let ej := {| e_class := "builtins.UnicodeDecodeError"; e_str := "'utf-8' codec can't decode byte 0xff";
               e_repr := ""; e_attrs := [("reason", ("invalid start byte", "'invalid start byte'"))] |} in
  let ex := {| e_class := "builtins.LookupError"; e_str := "unknown encoding: TF-8";
               e_repr := ""; e_attrs := [] |} in
  (In "json5" text_types /\ In (e_class e5) (raises_table "json5") /\
   main_on_error First (handler "json5" "d/a.json5" e5)
   = Exit 1 "" "Error parsing a.json5: <string>:1 Unexpected ""}"" at column 10

")
  /\ (In "plist" text_types /\ In (e_class ep) (raises_table "plist") /\
      reported "b.plist" (main_on_error Second (handler "plist" "b.plist" ep)) = true)
  /\ (In (e_class ej) (raises_table "json") /\
      reported "x/c.json" (main_on_error Second (handler "json" "x/c.json" ej)) = true)
  /\ (In (e_class ex) (raises_table "xml") /\ In (e_class ex) (raises_table "html") /\
      reported "c.xml" (main_on_error First (handler "xml" "c.xml" ex)) = true /\
      reported "c.html" (main_on_error Second (handler "html" "c.html" ex)) = true).
Proof. vm_compute. repeat split; tauto. Qed.

(* corr_C20 is satisfiable: the observed record of a run on a truncated JSON file *)
Example C20_transfer_witness :
  let c := {| c_ft := "json"; c_pos := First; c_path := "/w/a_bad.json";
              c_exn := Some {| e_class := "json.decoder.JSONDecodeError"; e_str := ""; e_repr := "";
                               e_attrs := [("msg", ("Expecting value", "'Expecting value'"));
                                           ("lineno", ("1", "1")); ("colno", ("2", "2")); ("pos", ("1", "1"))] |};
              c_out := Exit 1 "" "Error parsing a_bad.json: Expecting value: line 1, column 2 (char 1)

" |} in
  In (c_ft c) text_types /\ corr_C20 c = true /\ holds_C20 c = true.
Proof. vm_compute. repeat split; tauto. Qed.
