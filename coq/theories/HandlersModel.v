(* C20: executable model of build_tree_handling_errors (every Filetype) and of main()'s error path,
   assembled from the tables TRANSLATED from /repo on every run (GTgen.HandlersGen).  Definitions only.

   Python rules built in:
   - `try: .. except A: .. except (B, C): ..` - the first clause one of whose classes is a superclass of
     the raised exception's class wins; if none does the exception escapes;
   - an exception raised while the winning clause formats its message escapes (it is not offered
     to the later clauses of the same try);
   - f-string pieces are evaluated left to right; reading a missing attribute raises AttributeError;
     `{e:spec}` with a non-empty spec on an object whose class does not define __format__ raises
     TypeError (object.__format__); with an empty spec it is str(e); `!s` / `!r` are str / repr. *)
From Coq Require Import String Ascii List Bool ZArith.
Require Import GT.PyBase GT.HandlersSpec GTgen.HandlersGen.
Import ListNotations.
Open Scope string_scope.

(* ---- the exception class lattice ---- *)
Definition mro (c : string) : list string := match assoc c mro_table with Some l => l | None => [] end.
Definition is_subclass (c d : string) : bool := existsb (String.eqb d) (mro c).
Definition has_attr (c a : string) : bool :=
  match assoc c attr_table with Some l => existsb (String.eqb a) l | None => false end.

(* ---- the handler, symbolically: which message pieces, or which exception escapes ---- *)
Inductive sym_outcome := SMessage (ps : list piece) | SEscapes (cls : string).

Fixpoint find_clause (c : string) (cls : list clause) : option clause :=
  match cls with
  | [] => None
  | cl :: r => if existsb (is_subclass c) (cl_classes cl) then Some cl else find_clause c r
  end.

(* evaluating one piece for an exception of class c: None = fine, Some x = raises x *)
Definition piece_raises (c : string) (p : piece) : option string :=
  match p with
  | PLit _ => None
  | PVal e cv spec =>
      match e with
      | EExnAttr a => if has_attr c a
                      then if String.eqb spec "" then None else Some "<format spec on an attribute: not modelled>"
                      else Some "builtins.AttributeError"
      | EExn => if String.eqb spec "" then None
                else match cv with
                     | CNone => Some "builtins.TypeError"
                     | _ => Some "<format spec on a str: not modelled>"
                     end
      | _ => if String.eqb spec "" then None else Some "<format spec on a str: not modelled>"
      end
  end.

Fixpoint first_raise (c : string) (ps : list piece) : option string :=
  match ps with
  | [] => None
  | p :: r => match piece_raises c p with Some x => Some x | None => first_raise c r end
  end.

Definition clauses_of (ft : string) : list clause :=
  match assoc ft handlers with Some l => l | None => [] end.

Definition handler_sym (ft c : string) : sym_outcome :=
  match find_clause c (clauses_of ft) with
  | None => SEscapes c
  | Some cl => match first_raise c (cl_pieces cl) with
               | Some x => SEscapes x
               | None => SMessage (cl_pieces cl)
               end
  end.

(* ---- the message text, from the oracle texts of the exception ---- *)
Definition attr_text (e : exn) (a : string) (cv : conv) : string :=
  match assoc a (e_attrs e) with
  | Some (s, r) => match cv with CRepr => r | _ => s end
  | None => ""
  end.
Definition render_piece (path : string) (e : exn) (p : piece) : string :=
  match p with
  | PLit s => s
  | PVal ex cv _ =>
      match ex with
      | EBasename => basename path
      | EPath => path
      | EExn => match cv with CRepr => e_repr e | _ => e_str e end
      | EExnAttr a => attr_text e a cv
      end
  end.
Fixpoint render (path : string) (e : exn) (ps : list piece) : string :=
  match ps with [] => "" | p :: r => render_piece path e p ++ render path e r end.

Inductive outcome := Message (m : string) | Escapes (cls : string).

Definition handler (ft path : string) (e : exn) : outcome :=
  match handler_sym ft (e_class e) with
  | SMessage ps => Message (render path e ps)
  | SEscapes c => Escapes c
  end.

(* ---- main(): what happens with the handler's outcome for the file in position pos ---- *)
Definition main_err_of (pos : position) : main_err :=
  match pos with First => main_err_first | Second => main_err_second end.
Fixpoint render_writes (m : string) (ws : list write) : string :=
  match ws with
  | [] => ""
  | WTree :: r => m ++ render_writes m r
  | WLit s :: r => s ++ render_writes m r
  end.
Definition main_catch (c : string) : option Z :=
  match find (fun h => existsb (is_subclass c) (fst h)) main_catches with
  | Some h => Some (snd h)
  | None => None
  end.
Definition main_on_error (pos : position) (o : outcome) : cli_result :=
  match o with
  | Message m =>
      let me := main_err_of pos in
      if me_skips_diff me
      then Exit (me_status me) (render_writes m (me_stdout me)) (render_writes m (me_writes me))
      else Crash "builtins.AttributeError"      (* main() would go on to diff a str *)
  | Escapes c => match main_catch c with Some st => Exit st "" "" | None => Crash c end
  end.

(* ---- correspondence: the observed loader exception is tabulated and main() did what the model says ---- *)
Definition result_eqb (a b : cli_result) : bool :=
  match a, b with
  | Exit s o e, Exit s' o' e' => Z.eqb s s' && String.eqb o o' && String.eqb e e'
  | Crash c, Crash c' => String.eqb c c'
  | _, _ => false
  end.
Definition model_result (c : c20_case) : option cli_result :=
  match c_exn c with
  | Some e => Some (main_on_error (c_pos c) (handler (c_ft c) (c_path c) e))
  | None => None
  end.
Definition corr_outcome (c : c20_case) : bool :=
  match model_result c with Some r => result_eqb r (c_out c) | None => false end.
Definition corr_C20 (c : c20_case) : bool := in_raises c && corr_outcome c.

(* ---- which loader exceptions a file type's handler turns into a message naming the file ---- *)
Definition piece_mentions (p : piece) : bool :=
  match p with
  | PVal EBasename CNone _ | PVal EBasename CStr _ | PVal EPath CNone _ | PVal EPath CStr _ => true
  | _ => false
  end.
Definition class_ok (ft c : string) : bool :=
  match handler_sym ft c with
  | SMessage ps => existsb piece_mentions ps
  | SEscapes _ => false
  end.
Definition handler_total (raises : string -> list string) (ft : string) : bool :=
  forallb (class_ok ft) (raises ft).

Definition is_wtree (w : write) : bool := match w with WTree => true | WLit _ => false end.
Definition no_writes (ws : list write) : bool := match ws with [] => true | _ :: _ => false end.
Definition main_err_ok (me : main_err) : bool :=
  existsb is_wtree (me_writes me) && no_writes (me_stdout me) && negb (Z.eqb (me_status me) 0)
  && me_skips_diff me.
Definition main_ok : bool := main_err_ok main_err_first && main_err_ok main_err_second.

(* the classes of `raises ft` the handler does not cover, with what the model says happens *)
Definition failures (raises : string -> list string) (ft : string) : list (string * sym_outcome) :=
  filter (fun x => negb (class_ok ft (fst x))) (map (fun c => (c, handler_sym ft c)) (raises ft)).
