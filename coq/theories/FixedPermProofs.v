(* C08, 'none' strategy: FixedKeyDictNode keeps the order of the keys in the file, so two copies of a document
   whose mappings list their keys in different orders build trees that differ by a permutation of the children
   of every FDict, at every depth (`tperm`).  Sizes, the implementation's ==, the final cost of the edit script
   (for every pair of oracles and positions: no oracle is consulted) and the pairing at the top level of a mapping
   are invariant under `tperm`; a document and its key-permuted copy are equal as data and diff to cost 0;
   swapping two unequal elements of a list costs more than 0 (corollary of C02, with its carve-outs). *)
From Coq Require Import ZArith List Bool Lia Permutation.
Require Import GT.PyBase GT.Data GT.ScriptSpec GT.EdEngine GT.LevModel GT.EdTypes GTgen.EdGen GT.EdParams
               GT.ScriptModel GT.ListAux GT.KeyEq GT.EdFacts GT.EdEngineProofs GT.ScriptProofs GT.MSetProofs
               GT.BuildModel GT.BuildProofs GT.BuildSpec GT.EqualSpec GT.EqualProofs GT.LoadProofs.
Import ListNotations.
Open Scope Z_scope.

(* ---------------------------------------------------------------- generic list facts *)
Lemma zsum_perm : forall l l', Permutation l l' -> zsum l = zsum l'.
Proof. intros l l' H. unfold zsum. induction H; cbn in *; lia. Qed.

Lemma Forall2_map_eq : forall {A B} (T : A -> A -> Prop) (f g : A -> B) l l',
  Forall2 T l l' -> (forall x y, In x l -> T x y -> f x = g y) -> map f l = map g l'.
Proof.
  intros A B T f g l l' H. induction H as [|x y l l' Hxy _ IH]; intro Hf; [reflexivity|].
  cbn. f_equal; [apply Hf; [left; reflexivity|exact Hxy]|]. apply IH. intros a b Ha. apply Hf. right. exact Ha.
Qed.

Lemma forallb_perm : forall {A} (f : A -> bool) l l', Permutation l l' -> forallb f l = forallb f l'.
Proof.
  intros A f l l' H. induction H; cbn; try congruence.
  - destruct (f x), (f y); reflexivity.
Qed.

Lemma existsb_perm : forall {A} (f : A -> bool) l l', Permutation l l' -> existsb f l = existsb f l'.
Proof.
  intros A f l l' H. induction H; cbn; try congruence.
  - destruct (f x), (f y); reflexivity.
Qed.

Lemma forallb_Forall2 : forall {A} (T : A -> A -> Prop) (f g : A -> bool) l l',
  Forall2 T l l' -> (forall x y, In x l -> T x y -> f x = g y) -> forallb f l = forallb g l'.
Proof.
  intros A T f g l l' H. induction H as [|x y l l' Hxy _ IH]; intro Hf; [reflexivity|].
  cbn. rewrite (Hf x y (or_introl eq_refl) Hxy). f_equal. apply IH. intros a b Ha. apply Hf. right. exact Ha.
Qed.

Lemma existsb_Forall2 : forall {A} (T : A -> A -> Prop) (f g : A -> bool) l l',
  Forall2 T l l' -> (forall x y, In x l -> T x y -> f x = g y) -> existsb f l = existsb g l'.
Proof.
  intros A T f g l l' H. induction H as [|x y l l' Hxy _ IH]; intro Hf; [reflexivity|].
  cbn. rewrite (Hf x y (or_introl eq_refl) Hxy). f_equal. apply IH. intros a b Ha. apply Hf. right. exact Ha.
Qed.

(* forall x in xs, exists y in ys, f x y: invariant under a pointwise relation followed by permutations *)
Lemma forallb_existsb_inv : forall {A} (T : A -> A -> Prop) (f : A -> A -> bool) xs xs' xs'' ys ys' ys'',
  Forall2 T xs xs' -> Permutation xs' xs'' -> Forall2 T ys ys' -> Permutation ys' ys'' ->
  (forall x x' y y', In x xs -> In y ys -> T x x' -> T y y' -> f x y = f x' y') ->
  forallb (fun x => existsb (f x) ys) xs = forallb (fun x => existsb (f x) ys'') xs''.
Proof.
  intros A T f xs xs' xs'' ys ys' ys'' Hx Px Hy Py Hf.
  rewrite <- (forallb_perm _ _ _ Px).
  apply (forallb_Forall2 T _ _ _ _ Hx). intros x x' Hin Hxx.
  rewrite <- (existsb_perm _ _ _ Py).
  apply (existsb_Forall2 T _ _ _ _ Hy). intros y y' Hiny Hyy. apply Hf; assumption.
Qed.

Lemma Forall2_firstn : forall {A B} (R : A -> B -> Prop) n l l', Forall2 R l l' -> Forall2 R (firstn n l) (firstn n l').
Proof.
  intros A B R n. induction n as [|n IH]; intros l l' H; [constructor|].
  destruct H; cbn; constructor; auto.
Qed.

Lemma Forall2_skipn : forall {A B} (R : A -> B -> Prop) n l l', Forall2 R l l' -> Forall2 R (skipn n l) (skipn n l').
Proof.
  intros A B R n. induction n as [|n IH]; intros l l' H; [exact H|].
  destruct H; cbn; [constructor|]. apply IH. assumption.
Qed.

Lemma Forall2_In_l : forall {A B} (R : A -> B -> Prop) l l' x, Forall2 R l l' -> In x l -> exists y, In y l' /\ R x y.
Proof. intros. eapply Forall2_in_l; eauto. Qed.

Lemma Forall2_nth_error_both : forall {A B} (R : A -> B -> Prop) l l' i,
  Forall2 R l l' ->
  match nth_error l i, nth_error l' i with
  | Some x, Some y => R x y
  | None, None => True
  | _, _ => False
  end.
Proof.
  intros A B R l l' i H. revert i. induction H as [|x y l l' Hxy _ IH]; intros [|i]; cbn; auto. apply IH.
Qed.

Lemma map_nth_seq_fun : forall {A B} (h : A -> B) (l : list A) d,
  map (fun i => h (nth i l d)) (seq 0 (length l)) = map h l.
Proof. intros A B h l d. rewrite <- (map_map (fun i => nth i l d) h). rewrite map_nth_seq. reflexivity. Qed.

(* ---------------------------------------------------------------- the relation *)
Inductive tperm : tree -> tree -> Prop :=
  | tp_leaf : forall l, tperm (Leaf l) (Leaf l)
  | tp_lst : forall p q cs cs', Forall2 tperm cs cs' -> tperm (Lst p q cs) (Lst p q cs')
  | tp_kvp : forall p k k' v v', tperm k k' -> tperm v v' -> tperm (Kvp p k v) (Kvp p k' v')
  | tp_fd : forall cs cs' cs'', Forall2 tperm cs cs' -> Permutation cs' cs'' -> tperm (FDict cs) (FDict cs'').

Lemma tperm_is_leaf : forall a a', tperm a a' -> is_leaf a = is_leaf a'.
Proof. intros a a' H. destruct H; reflexivity. Qed.
Lemma tperm_is_kvp : forall a a', tperm a a' -> is_kvp a = is_kvp a'.
Proof. intros a a' H. destruct H; reflexivity. Qed.
Lemma tperm_kvp_key : forall a a', tperm a a' -> tperm (kvp_key a) (kvp_key a').
Proof. intros a a' H. destruct H; cbn; try assumption; econstructor; eassumption. Qed.

Lemma tperm_all_leaves : forall cs cs', Forall2 tperm cs cs' -> all_leaves cs = all_leaves cs'.
Proof.
  intros cs cs' H. unfold all_leaves. apply (forallb_Forall2 tperm _ _ _ _ H). intros x y _ Hxy. apply tperm_is_leaf. exact Hxy.
Qed.

Lemma tperm_inv_leaf : forall l a', tperm (Leaf l) a' -> a' = Leaf l.
Proof. intros l a' H. inversion H. reflexivity. Qed.
Lemma tperm_inv_lst : forall p q cs a', tperm (Lst p q cs) a' -> exists cs', a' = Lst p q cs' /\ Forall2 tperm cs cs'.
Proof. intros p q cs a' H. inversion H; subst. eauto. Qed.
Lemma tperm_inv_kvp : forall p k v a', tperm (Kvp p k v) a' -> exists k' v', a' = Kvp p k' v' /\ tperm k k' /\ tperm v v'.
Proof. intros p k v a' H. inversion H; subst. eauto. Qed.
Lemma tperm_inv_mset : forall p cs a', tperm (MSet p cs) a' -> False.
Proof. intros p cs a' H. inversion H. Qed.
Lemma tperm_inv_fd : forall cs a', tperm (FDict cs) a' ->
  exists cs' cs'', a' = FDict cs'' /\ Forall2 tperm cs cs' /\ Permutation cs' cs''.
Proof. intros cs a' H. inversion H; subst. eauto. Qed.

Lemma Forall2_refl_l : forall cs cs', Forall (fun a => forall a', tperm a a' -> tperm a a) cs -> Forall2 tperm cs cs' ->
  Forall2 tperm cs cs.
Proof.
  intros cs cs' IH H. induction H as [|x y l l' Hxy _ IHl]; constructor; inversion IH; subst; eauto.
Qed.

(* the first tree of a related pair is related to itself *)
Lemma tperm_refl_l : forall a a', tperm a a' -> tperm a a.
Proof.
  apply (tree_rect' (fun a => forall a', tperm a a' -> tperm a a)).
  - intros l a' _. constructor.
  - intros p q cs IH a' H. apply tperm_inv_lst in H. destruct H as [cs' [-> H]]. constructor. eapply Forall2_refl_l; eauto.
  - intros p k v IHk IHv a' H. apply tperm_inv_kvp in H. destruct H as [k' [v' [-> [Hk Hv]]]]. constructor; eauto.
  - intros p cs _ a' H. destruct (tperm_inv_mset _ _ _ H).
  - intros cs IH a' H. apply tperm_inv_fd in H. destruct H as [cs' [cs'' [-> [H P]]]].
    apply tp_fd with (cs' := cs); [|reflexivity]. eapply Forall2_refl_l; eauto.
Qed.

(* ---------------------------------------------------------------- L1: sizes *)
Lemma tperm_size : forall a a', tperm a a' -> size a = size a'.
Proof.
  apply (tree_rect' (fun a => forall a', tperm a a' -> size a = size a')).
  - intros l a' H. apply tperm_inv_leaf in H. subst. reflexivity.
  - intros p q cs IH a' H. apply tperm_inv_lst in H. destruct H as [cs' [-> H]]. cbn. f_equal.
    apply (Forall2_map_eq tperm _ _ _ _ H). intros x y Hx Hxy. rewrite Forall_forall in IH. rewrite (IH x Hx y Hxy). reflexivity.
  - intros p k v IHk IHv a' H. apply tperm_inv_kvp in H. destruct H as [k' [v' [-> [Hk Hv]]]].
    cbn. rewrite (IHk _ Hk), (IHv _ Hv). reflexivity.
  - intros p cs _ a' H. destruct (tperm_inv_mset _ _ _ H).
  - intros cs IH a' H. apply tperm_inv_fd in H. destruct H as [cs' [cs'' [-> [H P]]]]. cbn.
    rewrite <- (zsum_perm _ _ (Permutation_map (fun c => size c + 1) P)). f_equal.
    apply (Forall2_map_eq tperm _ _ _ _ H). intros x y Hx Hxy. rewrite Forall_forall in IH. rewrite (IH x Hx y Hxy). reflexivity.
Qed.

Lemma tperm_remove_cost : forall a a' p, tperm a a' -> remove_cost a p = remove_cost a' p.
Proof. intros a a' p H. unfold remove_cost. rewrite (tperm_size _ _ H). reflexivity. Qed.
Lemma tperm_insert_cost : forall a a' p, tperm a a' -> insert_cost a p = insert_cost a' p.
Proof. intros a a' p H. unfold insert_cost. rewrite (tperm_size _ _ H). reflexivity. Qed.
Lemma tperm_replace_cost : forall a a' b b', tperm a a' -> tperm b b' -> replace_cost a b = replace_cost a' b'.
Proof. intros a a' b b' H1 H2. unfold replace_cost. rewrite (tperm_size _ _ H1), (tperm_size _ _ H2). reflexivity. Qed.

(* ---------------------------------------------------------------- L2: the implementation's == *)
Definition list_eq_inline (f : tree -> tree -> bool) : list tree -> list tree -> bool :=
  fix go (xs ys : list tree) {struct xs} : bool :=
    match xs, ys with
    | [], [] => true
    | x :: xs', y :: ys' => f x y && go xs' ys'
    | _, _ => false
    end.

Lemma node_eqb_lst : forall p q xs p' q' ys, node_eqb (Lst p q xs) (Lst p' q' ys) = list_eq_inline node_eqb xs ys.
Proof. reflexivity. Qed.

Lemma node_eqb_fdict : forall xs ys,
  node_eqb (FDict xs) (FDict ys) = Nat.eqb (length xs) (length ys) && forallb (fun x => existsb (node_eqb x) ys) xs.
Proof.
  intros xs ys. reflexivity.
Qed.

Lemma list_eq_inline_inv : forall (f : tree -> tree -> bool) xs xs' ys ys',
  Forall2 tperm xs xs' -> Forall2 tperm ys ys' ->
  (forall x x' y y', In x xs -> tperm x x' -> tperm y y' -> f x y = f x' y') ->
  list_eq_inline f xs ys = list_eq_inline f xs' ys'.
Proof.
  intros f xs xs' ys ys' Hx. revert ys ys'. induction Hx as [|x x' xs xs' Hxx _ IH]; intros ys ys' Hy Hf.
  - destruct Hy; reflexivity.
  - destruct Hy as [|y y' ys ys' Hyy Hy]; [reflexivity|]. cbn.
    rewrite (Hf x x' y y' (or_introl eq_refl) Hxx Hyy). f_equal.
    apply IH; [exact Hy|]. intros a a' b b' Ha. apply Hf. right. exact Ha.
Qed.

Theorem tperm_node_eqb : forall a a' b b', tperm a a' -> tperm b b' -> node_eqb a b = node_eqb a' b'.
Proof.
  apply (tree_rect' (fun a => forall a' b b', tperm a a' -> tperm b b' -> node_eqb a b = node_eqb a' b')).
  - intros l a' b b' Ha Hb. apply tperm_inv_leaf in Ha. subst. destruct Hb; reflexivity.
  - intros p q cs IH a' b b' Ha Hb. apply tperm_inv_lst in Ha. destruct Ha as [cs' [-> Ha]]. destruct Hb; try reflexivity.
    rewrite !node_eqb_lst. apply list_eq_inline_inv; try assumption.
    intros x x' y y' Hx. rewrite Forall_forall in IH. apply IH. exact Hx.
  - intros p k v IHk IHv a' b b' Ha Hb. apply tperm_inv_kvp in Ha. destruct Ha as [k' [v' [-> [Hk Hv]]]].
    destruct Hb as [| |p2 k2 k2' v2 v2' Hk2 Hv2|]; try reflexivity.
    cbn. rewrite (IHk _ _ _ Hk Hk2), (IHv _ _ _ Hv Hv2). reflexivity.
  - intros p cs _ a' b b' Ha. destruct (tperm_inv_mset _ _ _ Ha).
  - intros cs IH a' b b' Ha Hb. apply tperm_inv_fd in Ha. destruct Ha as [cs' [cs'' [-> [Hc Pc]]]].
    destruct Hb as [| | |ds ds' ds'' Hd Pd]; try reflexivity.
    rewrite !node_eqb_fdict. f_equal.
    + rewrite <- (Permutation_length Pc), <- (Permutation_length Pd), (Forall2_length' _ _ _ Hc), (Forall2_length' _ _ _ Hd).
      reflexivity.
    + apply (forallb_existsb_inv tperm node_eqb _ _ _ _ _ _ Hc Pc Hd Pd).
      intros x x' y y' Hx _. rewrite Forall_forall in IH. apply IH. exact Hx.
Qed.

Lemma tperm_key_eqb : forall c c' d d', tperm c c' -> tperm d d' -> key_eqb c d = key_eqb c' d'.
Proof. intros c c' d d' Hc Hd. unfold key_eqb. apply tperm_node_eqb; apply tperm_kvp_key; assumption. Qed.

(* ---------------------------------------------------------------- L3: the cost of the script *)
Definition ocell (x : option res) : option Z := match x with Some r => res_cost r | None => None end.

Definition Pinv (a : tree) : Prop := forall O O' pa pb pa' pb' a' b b',
  tperm a a' -> tperm b b' -> wf a = true -> wf a' = true -> wf b = true -> wf b' = true ->
  res_cost (script O pa pb a b) = res_cost (script O' pa' pb' a' b').

Lemma mget_sub_matrix_eq : forall O pa pb cs ds i j,
  mget (sub_matrix O pa pb cs ds) i j =
  match nth_error cs i, nth_error ds j with
  | Some c, Some d => Some (script O (pa ++ [i]) (pb ++ [j]) c d)
  | _, _ => None
  end.
Proof.
  intros. unfold mget, sub_matrix. rewrite nth_error_mapi. destruct (nth_error cs i) as [c|]; [|reflexivity].
  rewrite nth_error_mapi. destruct (nth_error ds j); reflexivity.
Qed.

Lemma cell_inv : forall O O' pa pb pa' pb' cs cs' ds ds' i j,
  Forall Pinv cs -> Forall2 tperm cs cs' -> Forall2 tperm ds ds' ->
  (forall c, In c cs -> wf c = true) -> (forall c, In c cs' -> wf c = true) ->
  (forall c, In c ds -> wf c = true) -> (forall c, In c ds' -> wf c = true) ->
  ocell (mget (sub_matrix O pa pb cs ds) i j) = ocell (mget (sub_matrix O' pa' pb' cs' ds') i j).
Proof.
  intros O O' pa pb pa' pb' cs cs' ds ds' i j IH Hc Hd W1 W2 W3 W4. rewrite !mget_sub_matrix_eq.
  pose proof (Forall2_nth_error_both _ _ _ i Hc) as Hi. pose proof (Forall2_nth_error_both _ _ _ j Hd) as Hj.
  destruct (nth_error cs i) as [c|] eqn:E1, (nth_error cs' i) as [c'|] eqn:E2; try contradiction; [|reflexivity].
  destruct (nth_error ds j) as [d|] eqn:E3, (nth_error ds' j) as [d'|] eqn:E4; try contradiction; [|reflexivity].
  cbn. apply (Forall_nth_error _ _ _ _ IH E1); auto; [apply W1|apply W2|apply W3|apply W4]; eapply nth_error_In; eauto.
Qed.

Lemma tperm_nth_size : forall cs cs' i, Forall2 tperm cs cs' -> size (nth i cs dummy) = size (nth i cs' dummy).
Proof.
  intros cs cs' i H. revert i. induction H as [|x y l l' Hxy _ IH]; intros [|i]; cbn; auto. apply tperm_size. exact Hxy.
Qed.

(* -------- FixedLengthSequenceEdit *)
Definition osub_cost (x : option sub) : option Z := match x with Some s => Some (sub_cost s) | None => None end.
Definition osum_subs (x : option (list sub)) : option Z := match x with Some r => Some (zsum (map sub_cost r)) | None => None end.

Lemma all_some_cost : forall (l l' : list (option sub)),
  Forall2 (fun x y => osub_cost x = osub_cost y) l l' -> osum_subs (all_some l) = osum_subs (all_some l').
Proof.
  intros l l' H. induction H as [|x y l l' Hxy _ IH]; [reflexivity|]. cbn [all_some].
  destruct x as [s|], y as [s'|]; cbn in Hxy; try discriminate; [|reflexivity].
  destruct (all_some l) as [r|], (all_some l') as [r'|]; unfold osum_subs in *; try discriminate; [|reflexivity].
  inversion Hxy as [H1]. inversion IH as [H2]. cbn [map]. unfold zsum in *. cbn [fold_right]. rewrite H1, H2. reflexivity.
Qed.

Definition fl_cost (cs ds : list tree) (M : list (list res)) : option Z := osum_subs (fixed_len_subs cs ds M).

Lemma fl_cost_inv : forall cs cs' ds ds' M M',
  length cs = length cs' -> length ds = length ds' ->
  (forall i, ocell (mget M i i) = ocell (mget M' i i)) ->
  (forall i, size (nth i cs dummy) = size (nth i cs' dummy)) ->
  (forall i, size (nth i ds dummy) = size (nth i ds' dummy)) ->
  fl_cost cs ds M = fl_cost cs' ds' M'.
Proof.
  intros cs cs' ds ds' M M' Lc Ld HM Sc Sd. unfold fl_cost, fixed_len_subs. rewrite <- Lc, <- Ld.
  set (f := fun i => match mget M i i with Some (OK e) => Some (SPair i i e) | _ => None end).
  set (f' := fun i => match mget M' i i with Some (OK e) => Some (SPair i i e) | _ => None end).
  assert (Hp : osum_subs (all_some (map f (seq 0 (Nat.min (length cs) (length ds))))) =
               osum_subs (all_some (map f' (seq 0 (Nat.min (length cs) (length ds)))))).
  { apply all_some_cost. induction (seq 0 (Nat.min (length cs) (length ds))) as [|i L IH]; constructor; [|exact IH].
    unfold f, f'. specialize (HM i). destruct (mget M i i) as [[e|x]|], (mget M' i i) as [[e'|x']|]; cbn in *; congruence. }
  destruct (all_some (map f _)) as [ps|], (all_some (map f' _)) as [ps'|]; unfold osum_subs in Hp |- *; try discriminate; [|reflexivity].
  inversion Hp as [Hp']. f_equal. rewrite !map_app, !zsum_app, Hp'. f_equal. f_equal.
  - destruct (Nat.ltb (length ds) (length cs)); [|reflexivity]. rewrite !map_map. f_equal.
    apply map_ext. intro i. cbn [sub_cost]. unfold remove_cost. rewrite Sc. reflexivity.
  - destruct (Nat.ltb (length cs) (length ds)); [|reflexivity]. rewrite !map_map. f_equal.
    apply map_ext. intro i. cbn [sub_cost]. unfold insert_cost. rewrite Sd. reflexivity.
Qed.

(* -------- EditDistance *)
Lemma cpl_inv : forall xs xs' ys ys', Forall2 tperm xs xs' -> Forall2 tperm ys ys' ->
  common_prefix_len node_eqb xs ys = common_prefix_len node_eqb xs' ys'.
Proof.
  intros xs xs' ys ys' Hx. revert ys ys'. induction Hx as [|x x' xs xs' Hxx _ IH]; intros ys ys' Hy.
  - destruct Hy; reflexivity.
  - destruct Hy as [|y y' ys ys' Hyy Hy]; [reflexivity|]. cbn. rewrite (tperm_node_eqb _ _ _ _ Hxx Hyy).
    destruct (node_eqb x' y'); [|reflexivity]. f_equal. apply IH. exact Hy.
Qed.

Lemma trim_inv : forall xs xs' ys ys', Forall2 tperm xs xs' -> Forall2 tperm ys ys' ->
  trim node_eqb xs ys = trim node_eqb xs' ys'.
Proof.
  intros xs xs' ys ys' Hx Hy. unfold trim. rewrite <- (cpl_inv _ _ _ _ Hx Hy). f_equal.
  apply cpl_inv; apply Forall2_rev; apply Forall2_skipn; assumption.
Qed.

Lemma Forall2_middle : forall p q xs xs', Forall2 tperm xs xs' -> Forall2 tperm (middle p q xs) (middle p q xs').
Proof.
  intros p q xs xs' H. unfold middle. rewrite <- (Forall2_length' _ _ _ H). apply Forall2_firstn, Forall2_skipn. exact H.
Qed.

Definition ed_cost (penalty : Z) (cs ds : list tree) (M : list (list res)) : option Z :=
  res_cost (edit_dist_script penalty cs ds M).

Lemma ed_cost_inv : forall penalty cs cs' ds ds' M M',
  Forall2 tperm cs cs' -> Forall2 tperm ds ds' ->
  (forall i j, ocell (mget M i j) = ocell (mget M' i j)) ->
  ed_cost penalty cs ds M = ed_cost penalty cs' ds' M'.
Proof.
  intros penalty cs cs' ds ds' M M' Hc Hd HM. unfold ed_cost.
  destruct (trim node_eqb cs ds) as [p q] eqn:Et. pose proof Et as Et'. rewrite (trim_inv _ _ _ _ Hc Hd) in Et'.
  rewrite (edit_dist_script_unfold _ _ _ _ _ _ Et), (edit_dist_script_unfold _ _ _ _ _ _ Et'). cbv zeta.
  pose proof (Forall2_middle p q _ _ Hc) as Hmc. pose proof (Forall2_middle p q _ _ Hd) as Hmd.
  rewrite <- (Forall2_length' _ _ _ Hmc), <- (Forall2_length' _ _ _ Hmd).
  assert (Hrc : map (fun c => remove_cost c penalty) (middle p q cs) = map (fun c => remove_cost c penalty) (middle p q cs')).
  { apply (Forall2_map_eq tperm _ _ _ _ Hmc). intros x y _ Hxy. apply tperm_remove_cost. exact Hxy. }
  assert (Hic : map (fun c => insert_cost c penalty) (middle p q ds) = map (fun c => insert_cost c penalty) (middle p q ds')).
  { apply (Forall2_map_eq tperm _ _ _ _ Hmd). intros x y _ Hxy. apply tperm_insert_cost. exact Hxy. }
  rewrite <- Hrc, <- Hic.
  assert (He : ed_costs (ed_cells M p (length (middle p q cs)) (length (middle p q ds))) =
               ed_costs (ed_cells M' p (length (middle p q cs)) (length (middle p q ds)))).
  { unfold ed_costs, ed_cells. rewrite !map_map. f_equal. apply map_ext. intro r. f_equal. rewrite !map_map.
    apply map_ext. intro c. apply (HM (p + c)%nat (p + r)%nat). }
  rewrite <- He. destruct (ed_costs _); reflexivity.
Qed.

(* -------- FixedKeyDictNode: the total as a sum over the ELEMENTS of the two mappings *)
Fixpoint osum (l : list (option Z)) : option Z :=
  match l with
  | [] => Some 0
  | x :: l' => match x, osum l' with Some a, Some b => Some (a + b) | _, _ => None end
  end.

Lemma osum_perm : forall l l', Permutation l l' -> osum l = osum l'.
Proof.
  intros l l' H. induction H as [|x l l' _ IH|x y l|l l' l'' _ IH1 _ IH2]; cbn; try congruence.
  - rewrite IH. reflexivity.
  - destruct x as [a|], y as [b|], (osum l) as [c|]; try reflexivity. f_equal. lia.
Qed.

Definition fd_ototal (cs ds : list tree) (M : list (list res)) : option Z :=
  match all_some (map (fd_get cs ds M) (fd_shared cs ds)) with
  | Some sh => Some (zsum (map sub_cost (sh ++ map (fun i => SRem i (remove_cost (nth i cs dummy) 1)) (fd_unshared cs ds) ++
                                          map (fun j => SIns j (insert_cost (nth j ds dummy) 1)) (fd_inserted cs ds))))
  | None => None
  end.

(* no oracle is consulted: FixedKeyDictNode._child_edits lists its removals in insertion order *)
Lemma fd_order_plain : forall O pa pb cs ds, fd_order O pa pb cs ds = Some (fd_unshared cs ds).
Proof. reflexivity. Qed.

Lemma fd_res_cost : forall O pa pb a b cs ds M,
  res_cost (fixed_dict_script O pa pb a b cs ds M) =
  match fd_ototal cs ds M with
  | Some t => if t <=? size a + 1 + size b then Some t else None
  | None => None
  end.
Proof.
  intros. rewrite fixed_dict_script_unfold, fd_order_plain. unfold fd_ototal.
  destruct (all_some _) as [sh|]; [|reflexivity]. cbv zeta. destruct (_ <=? _); reflexivity.
Qed.

Definition fdF (cs ds : list tree) (M : list (list res)) (i : nat) : option Z :=
  match fd_partner cs ds i with
  | Some j => osub_cost (fd_get cs ds M (i, j))
  | None => Some (remove_cost (nth i cs dummy) 1)
  end.
Definition fdG (cs ds : list tree) (j : nat) : Z :=
  if existsb (fun c => node_eqb (kvp_key c) (kvp_key (nth j ds dummy))) cs then 0 else insert_cost (nth j ds dummy) 1.

Lemma fd_shared_sum : forall cs ds M (L : list nat),
  match all_some (map (fd_get cs ds M) (flat_map (fun i => match fd_partner cs ds i with Some j => [(i, j)] | None => [] end) L)) with
  | Some sh => Some (zsum (map sub_cost sh) +
                     zsum (map (fun i => remove_cost (nth i cs dummy) 1)
                               (filter (fun i => match fd_partner cs ds i with Some _ => false | None => true end) L)))
  | None => None
  end = osum (map (fdF cs ds M) L).
Proof.
  intros cs ds M L. induction L as [|i L IH]; [reflexivity|].
  cbn [flat_map filter map osum]. unfold fdF at 1. destruct (fd_partner cs ds i) as [j|].
  - cbn [app map all_some]. destruct (fd_get cs ds M (i, j)) as [s|]; cbn [osub_cost]; [|reflexivity].
    rewrite <- IH. destruct (all_some _) as [sh|]; [|reflexivity]. f_equal. cbn [map]. unfold zsum. cbn [fold_right]. lia.
  - cbn [app]. rewrite <- IH. destruct (all_some _) as [sh|]; [|reflexivity]. f_equal. cbn [map]. unfold zsum. cbn [fold_right]. lia.
Qed.

Lemma fd_inserted_sum : forall cs ds (L : list nat),
  zsum (map (fun j => insert_cost (nth j ds dummy) 1)
            (filter (fun j => negb (existsb (fun c => node_eqb (kvp_key c) (kvp_key (nth j ds dummy))) cs)) L)) =
  zsum (map (fdG cs ds) L).
Proof.
  intros cs ds L. induction L as [|j L IH]; [reflexivity|]. cbn [filter map]. unfold fdG at 1.
  destruct (existsb _ cs); cbn [negb map]; unfold zsum in *; cbn [fold_right]; rewrite IH; reflexivity.
Qed.

Lemma fd_ototal_sum : forall cs ds M,
  fd_ototal cs ds M =
  match osum (map (fdF cs ds M) (seq 0 (length cs))) with
  | Some s => Some (s + zsum (map (fdG cs ds) (seq 0 (length ds))))
  | None => None
  end.
Proof.
  intros cs ds M. rewrite <- fd_shared_sum. unfold fd_ototal, fd_shared, fd_unshared, fd_inserted.
  destruct (all_some _) as [sh|]; [|reflexivity]. f_equal.
  rewrite !map_app, !zsum_app, !map_map. cbn [sub_cost]. rewrite fd_inserted_sum. lia.
Qed.

Lemma find_index_find : forall {A} (f : A -> bool) (l : list A) n,
  match find_index f l n with
  | Some k => exists x, find f l = Some x /\ nth_error l (k - n) = Some x /\ (n <= k)%nat
  | None => find f l = None
  end.
Proof.
  intros A f l. induction l as [|a l IH]; intro n; cbn; [reflexivity|].
  destruct (f a).
  - exists a. rewrite Nat.sub_diag. auto.
  - specialize (IH (S n)). destruct (find_index f l (S n)) as [k|]; [|exact IH].
    destruct IH as [x [H1 [H2 H3]]]. exists x. split; [exact H1|]. split; [|lia].
    replace (k - n)%nat with (S (k - S n)) by lia. exact H2.
Qed.

Section FE.
  Variable kappa : tree -> tree -> option Z.
  Definition fdFe (ds : list tree) (c : tree) : option Z :=
    match find (fun d => key_eqb c d) ds with
    | Some d => if node_eqb c d then Some 0 else kappa c d
    | None => Some (remove_cost c 1)
    end.
  Definition fdGe (cs : list tree) (d : tree) : Z := if existsb (fun c => key_eqb c d) cs then 0 else insert_cost d 1.

  Lemma fdF_elem : forall cs ds M i,
    (forall j d, nth_error ds j = Some d -> ocell (mget M i j) = kappa (nth i cs dummy) d) ->
    fdF cs ds M i = fdFe ds (nth i cs dummy).
  Proof.
    intros cs ds M i HM. unfold fdF, fd_partner, fdFe.
    pose proof (find_index_find (fun d => node_eqb (kvp_key (nth i cs dummy)) (kvp_key d)) ds 0) as H.
    destruct (find_index _ ds 0) as [j|].
    - destruct H as [d [Hf [Hn _]]]. rewrite Nat.sub_0_r in Hn. unfold key_eqb. rewrite Hf.
      unfold fd_get. cbn [fst snd]. rewrite (nth_error_nth _ _ dummy Hn).
      destruct (node_eqb (nth i cs dummy) d); [reflexivity|]. rewrite <- (HM j d Hn).
      destruct (mget M i j) as [[e|x]|]; reflexivity.
    - unfold key_eqb. rewrite H. reflexivity.
  Qed.

  Lemma fdG_elem : forall cs ds j, fdG cs ds j = fdGe cs (nth j ds dummy).
  Proof. reflexivity. Qed.
End FE.

Lemma find_Forall2 : forall {A} (T : A -> A -> Prop) (f g : A -> bool) l l',
  Forall2 T l l' -> (forall x y, In x l -> T x y -> f x = g y) ->
  match find f l, find g l' with
  | Some x, Some y => T x y /\ In x l /\ In y l'
  | None, None => True
  | _, _ => False
  end.
Proof.
  intros A T f g l l' H. induction H as [|x y l l' Hxy _ IH]; intro Hf; [exact I|]. cbn [find].
  rewrite <- (Hf x y (or_introl eq_refl) Hxy). destruct (f x); [split; [exact Hxy|split; left; reflexivity]|].
  assert (IH' := IH (fun a b Ha => Hf a b (or_intror Ha))).
  destruct (find f l), (find g l'); try exact IH'. destruct IH' as [H1 [H2 H3]]. split; [assumption|split; right; assumption].
Qed.

Lemma find_perm_unique : forall {A} (g : A -> bool) l l', Permutation l l' ->
  (forall x y, In x l -> In y l -> g x = true -> g y = true -> x = y) -> find g l = find g l'.
Proof.
  intros A g l l' P U. destruct (find g l) as [x|] eqn:E1, (find g l') as [y|] eqn:E2; [| | |reflexivity].
  - apply find_some in E1, E2. destruct E1 as [I1 G1], E2 as [I2 G2]. f_equal. apply U; auto.
    eapply Permutation_in; [apply Permutation_sym; exact P|exact I2].
  - apply find_some in E1. destruct E1 as [I1 G1].
    rewrite (find_none _ _ E2 x (Permutation_in _ P I1)) in G1. discriminate.
  - apply find_some in E2. destruct E2 as [I2 G2].
    rewrite (find_none _ _ E1 y (Permutation_in _ (Permutation_sym P) I2)) in G2. discriminate.
Qed.

Lemma keys_unique : forall ds c, keys_distinct node_eqb ds = true -> Forall kvp_ok ds -> kvp_ok c ->
  forall x y, In x ds -> In y ds -> key_eqb c x = true -> key_eqb c y = true -> x = y.
Proof.
  intros ds c K Hok Hc x y Ix Iy Ex Ey.
  destruct (In_nth_error _ _ Ix) as [i Hi]. destruct (In_nth_error _ _ Iy) as [j Hj].
  assert (Kx : kvp_ok x) by (eapply Forall_forall; eauto). assert (Ky : kvp_ok y) by (eapply Forall_forall; eauto).
  assert (i = j).
  { apply (keys_distinct_nth ds i j x y K Hok Hi Hj). apply (key_eqb_trans x c y); auto.
    rewrite key_eqb_sym by assumption. exact Ex. }
  subst j. congruence.
Qed.

Lemma fdFe_inv : forall kappa kappa' ds ds' ds'' c c',
  tperm c c' -> Forall2 tperm ds ds' -> Permutation ds' ds'' ->
  keys_distinct node_eqb ds'' = true -> Forall kvp_ok ds'' -> kvp_ok c' ->
  (forall d d', In d ds -> In d' ds'' -> tperm d d' -> kappa c d = kappa' c' d') ->
  fdFe kappa ds c = fdFe kappa' ds'' c'.
Proof.
  intros kappa kappa' ds ds' ds'' c c' Hc Hd P K Hok Kc Hk. unfold fdFe.
  rewrite <- (find_perm_unique (fun d => key_eqb c' d) ds' ds'' P).
  - pose proof (find_Forall2 tperm (fun d => key_eqb c d) (fun d => key_eqb c' d) ds ds' Hd) as H.
    assert (H' := H (fun x y _ Hxy => tperm_key_eqb _ _ _ _ Hc Hxy)). clear H.
    destruct (find _ ds) as [d|], (find _ ds') as [d'|]; try contradiction.
    + destruct H' as [Hdd [Hin Hin']]. rewrite (tperm_node_eqb _ _ _ _ Hc Hdd), (Hk d d' Hin (Permutation_in _ P Hin') Hdd). reflexivity.
    + rewrite (tperm_remove_cost _ _ 1 Hc). reflexivity.
  - intros x y Ix Iy. apply (keys_unique ds'' c' K Hok Kc); eapply Permutation_in; eauto.
Qed.

Lemma fdGe_inv : forall cs cs' cs'' d d', tperm d d' -> Forall2 tperm cs cs' -> Permutation cs' cs'' ->
  fdGe cs d = fdGe cs'' d'.
Proof.
  intros cs cs' cs'' d d' Hd Hc P. unfold fdGe. rewrite <- (existsb_perm _ _ _ P).
  rewrite (existsb_Forall2 tperm (fun c => key_eqb c d) (fun c => key_eqb c d') _ _ Hc).
  - rewrite (tperm_insert_cost _ _ 1 Hd). reflexivity.
  - intros x y _ Hxy. apply tperm_key_eqb; assumption.
Qed.

Lemma empty_test : forall (cs ds : list tree),
  (match cs, ds with [], [] => true | _, _ => false end) = (Nat.eqb (length cs) 0 && Nat.eqb (length ds) 0)%bool.
Proof. intros [|c cs] [|d ds]; reflexivity. Qed.

Lemma Forall2_map_eq2 : forall {A B} (T : A -> A -> Prop) (f g : A -> B) l l',
  Forall2 T l l' -> (forall x y, In x l -> In y l' -> T x y -> f x = g y) -> map f l = map g l'.
Proof.
  intros A B T f g l l' H. induction H as [|x y l l' Hxy _ IH]; intro Hf; [reflexivity|].
  cbn. f_equal; [apply Hf; [left; reflexivity|left; reflexivity|exact Hxy]|]. apply IH. intros a b Ha Hb. apply Hf; right; assumption.
Qed.

Lemma fdF_map_elem : forall kappa O pa pb cs ds,
  (forall i j c d, nth_error cs i = Some c -> nth_error ds j = Some d ->
     res_cost (script O (pa ++ [i]) (pb ++ [j]) c d) = kappa c d) ->
  map (fdF cs ds (sub_matrix O pa pb cs ds)) (seq 0 (length cs)) = map (fdFe kappa ds) cs.
Proof.
  intros kappa O pa pb cs ds H. rewrite <- (map_nth_seq_fun (fdFe kappa ds) cs dummy).
  apply map_ext_in. intros i Hi. apply in_seq in Hi. apply fdF_elem. intros j d Hj.
  rewrite mget_sub_matrix_eq, (nth_error_nth' cs dummy) by lia. rewrite Hj. cbn.
  apply H; [apply nth_error_nth'; lia|exact Hj].
Qed.

Lemma wf_fd_parts : forall cs, wf (FDict cs) = true ->
  Forall kvp_ok cs /\ (forall c, In c cs -> wf c = true) /\ keys_distinct node_eqb cs = true.
Proof.
  intros cs H. cbn in H. apply andb_prop in H as [H K]. destruct (wf_mset_parts _ H) as [H1 H2]. auto.
Qed.

Lemma fd_total_inv : forall O O' pa pb pa' pb' cs cs' cs'' ds ds' ds'',
  Forall Pinv cs -> Forall2 tperm cs cs' -> Permutation cs' cs'' -> Forall2 tperm ds ds' -> Permutation ds' ds'' ->
  wf (FDict cs) = true -> wf (FDict cs'') = true -> wf (FDict ds) = true -> wf (FDict ds'') = true ->
  fd_ototal cs ds (sub_matrix O pa pb cs ds) = fd_ototal cs'' ds'' (sub_matrix O' pa' pb' cs'' ds'').
Proof.
  intros O O' pa pb pa' pb' cs cs' cs'' ds ds' ds'' IH Hc Pc Hd Pd Wa Wa' Wb Wb'.
  destruct (wf_fd_parts _ Wa) as [Ka [Wca Da]]. destruct (wf_fd_parts _ Wa') as [Ka' [Wca' Da']].
  destruct (wf_fd_parts _ Wb) as [Kb [Wcb Db]]. destruct (wf_fd_parts _ Wb') as [Kb' [Wcb' Db']].
  set (kappa := fun c d => res_cost (script O [] [] c d)).
  set (kappa' := fun c d => res_cost (script O' [] [] c d)).
  rewrite !fd_ototal_sum.
  (* every related pair of children costs the same, whatever the oracle and the position *)
  assert (Hpair : forall c c' d d' X Y p1 p2 p3 p4, In c cs -> In c' cs'' -> In d ds -> In d' ds'' -> tperm c c' -> tperm d d' ->
            res_cost (script X p1 p2 c d) = res_cost (script Y p3 p4 c' d')).
  { intros c c' d d' X Y p1 p2 p3 p4 Ic Ic' Id Id' Hcc Hdd. rewrite Forall_forall in IH. apply (IH c Ic); auto. }
  assert (Hself : forall c d X Y p1 p2 p3 p4, In c cs -> In d ds ->
            res_cost (script X p1 p2 c d) = res_cost (script Y p3 p4 c d)).
  { intros c d X Y p1 p2 p3 p4 Ic Id. rewrite Forall_forall in IH.
    destruct (Forall2_In_l _ _ _ _ Hc Ic) as [c' [_ Hcc]]. destruct (Forall2_In_l _ _ _ _ Hd Id) as [d' [_ Hdd]].
    apply (IH c Ic); auto; eapply tperm_refl_l; eauto. }
  assert (Hpre_c : forall c', In c' cs'' -> exists c, In c cs /\ tperm c c').
  { intros c' Ic'. apply (Permutation_in _ (Permutation_sym Pc)) in Ic'. apply (Forall2_in_r _ _ _ _ Hc Ic'). }
  assert (Hpre_d : forall d', In d' ds'' -> exists d, In d ds /\ tperm d d').
  { intros d' Id'. apply (Permutation_in _ (Permutation_sym Pd)) in Id'. apply (Forall2_in_r _ _ _ _ Hd Id'). }
  rewrite (fdF_map_elem kappa O pa pb cs ds), (fdF_map_elem kappa' O' pa' pb' cs'' ds'').
  - assert (HF : osum (map (fdFe kappa ds) cs) = osum (map (fdFe kappa' ds'') cs'')).
    { rewrite <- (osum_perm _ _ (Permutation_map (fdFe kappa' ds'') Pc)). f_equal.
      apply (Forall2_map_eq2 tperm _ _ _ _ Hc). intros c c' Ic Ic' Hcc.
      assert (Ic'' : In c' cs'') by (eapply Permutation_in; eauto).
      apply (fdFe_inv kappa kappa' ds ds' ds'' c c' Hcc Hd Pd Db' Kb').
      - exact (proj1 (Forall_forall _ _) Ka' c' Ic'').
      - intros d d' Id Id' Hdd. unfold kappa, kappa'. apply Hpair; assumption. }
    assert (HG : zsum (map (fdG cs ds) (seq 0 (length ds))) = zsum (map (fdG cs'' ds'') (seq 0 (length ds'')))).
    { change (fdG cs ds) with (fun j => fdGe cs (nth j ds dummy)). change (fdG cs'' ds'') with (fun j => fdGe cs'' (nth j ds'' dummy)).
      rewrite (map_nth_seq_fun (fdGe cs) ds dummy), (map_nth_seq_fun (fdGe cs'') ds'' dummy).
      rewrite <- (zsum_perm _ _ (Permutation_map (fdGe cs'') Pd)). f_equal.
      apply (Forall2_map_eq2 tperm _ _ _ _ Hd). intros d d' _ _ Hdd. apply (fdGe_inv cs cs' cs'' d d' Hdd Hc Pc). }
    rewrite HF, HG. reflexivity.
  - intros i j c' d' Hi Hj. apply nth_error_In in Hi, Hj.
    destruct (Hpre_c c' Hi) as [c [Ic Hcc]]. destruct (Hpre_d d' Hj) as [d [Id Hdd]].
    unfold kappa'. rewrite <- (Hpair c c' d d' O O' [] [] (pa' ++ [i]) (pb' ++ [j])) by assumption.
    apply Hpair; assumption.
  - intros i j c d Hi Hj. apply nth_error_In in Hi, Hj. unfold kappa. apply Hself; assumption.
Qed.

(* -------- the script, unfolded per pair of constructors *)
Definition lst_dispatch (ale alsl : bool) (cs ds : list tree) : ldispatch :=
  list_dispatch_gen true (list_eq_inline node_eqb cs ds) ale alsl (zlen cs) (zlen ds) (all_leaves cs) (all_leaves ds).

Lemma script_lst_cost : forall O pa pb ale alsl cs p2 q2 ds,
  res_cost (script O pa pb (Lst ale alsl cs) (Lst p2 q2 ds)) =
  match lst_dispatch ale alsl cs ds with
  | LMatch0 => Some 0
  | LReplace => Some (replace_cost (Lst ale alsl cs) (Lst p2 q2 ds))
  | LFixed => fl_cost cs ds (sub_matrix O pa pb cs ds)
  | LEditDist penalty => ed_cost penalty cs ds (sub_matrix O pa pb cs ds)
  end.
Proof.
  intros. cbn [script]. fold (sub_matrix O pa pb cs ds). fold (list_eq_inline node_eqb cs ds). fold (lst_dispatch ale alsl cs ds).
  destruct (lst_dispatch ale alsl cs ds); try reflexivity.
  unfold fl_cost. destruct (fixed_len_subs _ _ _); reflexivity.
Qed.

Lemma script_lst_other : forall O pa pb ale alsl cs b, (match b with Lst _ _ _ => false | _ => true end) = true ->
  res_cost (script O pa pb (Lst ale alsl cs) b) = Some (replace_cost (Lst ale alsl cs) b).
Proof. intros O pa pb ale alsl cs b H. destruct b; try discriminate; reflexivity. Qed.

Definition ocost_or0 (eq : bool) (r : res) : option Z := if eq then Some 0 else res_cost r.

Lemma script_kvp_cost : forall O pa pb ake k v p2 k2 v2,
  res_cost (script O pa pb (Kvp ake k v) (Kvp p2 k2 v2)) =
  if ake || node_eqb k k2
  then match ocost_or0 (node_eqb k k2) (script O (pa ++ [0%nat]) (pb ++ [0%nat]) k k2),
             ocost_or0 (node_eqb v v2) (script O (pa ++ [1%nat]) (pb ++ [1%nat]) v v2) with
       | Some c1, Some c2 => Some (c1 + c2)
       | _, _ => None
       end
  else Some (replace_cost (Kvp ake k v) (Kvp p2 k2 v2)).
Proof.
  intros. cbn [script]. destruct (ake || node_eqb k k2); [|reflexivity]. unfold ocost_or0.
  destruct (node_eqb k k2), (node_eqb v v2);
    try destruct (script O (pa ++ [0%nat]) (pb ++ [0%nat]) k k2); try destruct (script O (pa ++ [1%nat]) (pb ++ [1%nat]) v v2);
    reflexivity.
Qed.

Definition fd_same (cs ds : list tree) : bool :=
  (Nat.eqb (length cs) 0 && Nat.eqb (length ds) 0) ||
  (forallb (fun c => existsb (fun d => node_eqb c d) ds) cs && forallb (fun d => existsb (fun c => node_eqb c d) cs) ds).

Lemma script_fd_cost : forall O pa pb cs ds,
  res_cost (script O pa pb (FDict cs) (FDict ds)) =
  if fd_same cs ds then Some 0
  else match fd_ototal cs ds (sub_matrix O pa pb cs ds) with
       | Some t => if t <=? size (FDict cs) + 1 + size (FDict ds) then Some t else None
       | None => None
       end.
Proof.
  intros. cbn [script]. fold (sub_matrix O pa pb cs ds). rewrite empty_test. fold (fd_same cs ds).
  destruct (fd_same cs ds); [reflexivity|]. apply fd_res_cost.
Qed.

Lemma fd_same_inv : forall cs cs' cs'' ds ds' ds'',
  Forall2 tperm cs cs' -> Permutation cs' cs'' -> Forall2 tperm ds ds' -> Permutation ds' ds'' ->
  fd_same cs ds = fd_same cs'' ds''.
Proof.
  intros cs cs' cs'' ds ds' ds'' Hc Pc Hd Pd. unfold fd_same.
  rewrite <- (Permutation_length Pc), <- (Permutation_length Pd), <- (Forall2_length' _ _ _ Hc), <- (Forall2_length' _ _ _ Hd).
  f_equal. f_equal.
  - apply (forallb_existsb_inv tperm (fun c d => node_eqb c d) _ _ _ _ _ _ Hc Pc Hd Pd).
    intros x x' y y' _ _ Hx Hy. apply tperm_node_eqb; assumption.
  - apply (forallb_existsb_inv tperm (fun d c => node_eqb c d) _ _ _ _ _ _ Hd Pd Hc Pc).
    intros x x' y y' _ _ Hx Hy. apply tperm_node_eqb; assumption.
Qed.

Lemma wf_lst_child : forall p q cs c, wf (Lst p q cs) = true -> In c cs -> wf c = true.
Proof. intros p q cs c H Hin. cbn in H. eapply wf_child_lst; eauto. Qed.

Lemma wf_kvp_parts : forall p k v, wf (Kvp p k v) = true -> wf k = true /\ wf v = true.
Proof.
  intros p k v H. cbn in H. apply andb_prop in H as [H Hv]. apply andb_prop in H as [H _]. apply andb_prop in H as [_ Hk]. auto.
Qed.

(* C08 (strategy none): the final cost of the edit script - and whether there is one - is the same for two pairs of
   trees that differ only by the order of the children of their fixed-key dictionaries; no oracle is consulted,
   so the two sides may even be given different oracles and positions *)
Theorem tperm_cost : forall a, Pinv a.
Proof.
  apply tree_rect'.
  - intros x O O' pa pb pa' pb' a' b b' Ha Hb _ _ _ _. apply tperm_inv_leaf in Ha. subst a'.
    pose proof (tperm_size _ _ Hb) as Hs. cbn [script]. unfold leaf_script.
    destruct Hb; try reflexivity; destruct (lk x); cbn [res_cost cost]; unfold replace_cost; rewrite Hs; reflexivity.
  - intros p q cs IH O O' pa pb pa' pb' a' b b' Ha Hb Wa Wa' Wb Wb'.
    pose proof (tperm_replace_cost _ _ _ _ Ha Hb) as Hr.
    apply tperm_inv_lst in Ha. destruct Ha as [cs' [-> Hc]].
    destruct Hb as [l|p2 q2 ds ds' Hd|p2 k k' v v' Hk Hv|ds ds' ds'' Hd Pd];
      try (rewrite !script_lst_other by reflexivity; rewrite Hr; reflexivity).
    rewrite !script_lst_cost.
    assert (Hdis : lst_dispatch p q cs ds = lst_dispatch p q cs' ds').
    { unfold lst_dispatch, zlen. rewrite (Forall2_length' _ _ _ Hc), (Forall2_length' _ _ _ Hd).
      rewrite (tperm_all_leaves _ _ Hc), (tperm_all_leaves _ _ Hd). f_equal.
      apply list_eq_inline_inv; try assumption. intros x x' y y' _. apply tperm_node_eqb. }
    rewrite <- Hdis.
    assert (HM : forall i j, ocell (mget (sub_matrix O pa pb cs ds) i j) = ocell (mget (sub_matrix O' pa' pb' cs' ds') i j)).
    { intros i j. apply cell_inv; try assumption; intros c Hin;
        [exact (wf_lst_child _ _ _ c Wa Hin)|exact (wf_lst_child _ _ _ c Wa' Hin)|exact (wf_lst_child _ _ _ c Wb Hin)|exact (wf_lst_child _ _ _ c Wb' Hin)]. }
    destruct (lst_dispatch p q cs ds).
    + reflexivity.
    + apply fl_cost_inv; [eapply Forall2_length'; eauto|eapply Forall2_length'; eauto|intro i; apply HM| |];
        intro i; apply tperm_nth_size; assumption.
    + apply ed_cost_inv; assumption.
    + rewrite Hr. reflexivity.
  - intros p k v IHk IHv O O' pa pb pa' pb' a' b b' Ha Hb Wa Wa' Wb Wb'.
    pose proof (tperm_replace_cost _ _ _ _ Ha Hb) as Hr.
    apply tperm_inv_kvp in Ha. destruct Ha as [k' [v' [-> [Hk Hv]]]].
    destruct Hb as [l|p2 q2 ds ds' Hd|p2 k2 k2' v2 v2' Hk2 Hv2|ds ds' ds'' Hd Pd]; try reflexivity.
    rewrite !script_kvp_cost, Hr, <- (tperm_node_eqb _ _ _ _ Hk Hk2), <- (tperm_node_eqb _ _ _ _ Hv Hv2).
    destruct (wf_kvp_parts _ _ _ Wa) as [W1 W2]. destruct (wf_kvp_parts _ _ _ Wa') as [W1' W2'].
    destruct (wf_kvp_parts _ _ _ Wb) as [W3 W4]. destruct (wf_kvp_parts _ _ _ Wb') as [W3' W4'].
    destruct (p || node_eqb k k2); [|reflexivity]. unfold ocost_or0.
    rewrite (IHk O O' (pa ++ [0%nat]) (pb ++ [0%nat]) (pa' ++ [0%nat]) (pb' ++ [0%nat]) k' k2 k2') by assumption.
    rewrite (IHv O O' (pa ++ [1%nat]) (pb ++ [1%nat]) (pa' ++ [1%nat]) (pb' ++ [1%nat]) v' v2 v2') by assumption.
    reflexivity.
  - intros p cs _ O O' pa pb pa' pb' a' b b' Ha. destruct (tperm_inv_mset _ _ _ Ha).
  - intros cs IH O O' pa pb pa' pb' a' b b' Ha Hb Wa Wa' Wb Wb'.
    pose proof (tperm_replace_cost _ _ _ _ Ha Hb) as Hr. pose proof (tperm_size _ _ Ha) as Hsa. pose proof (tperm_size _ _ Hb) as Hsb.
    apply tperm_inv_fd in Ha. destruct Ha as [cs' [cs'' [-> [Hc Pc]]]].
    destruct Hb as [l|p2 q2 ds ds' Hd|p2 k2 k2' v2 v2' Hk2 Hv2|ds ds' ds'' Hd Pd];
      try (cbn [script res_cost cost]; rewrite Hr; reflexivity).
    rewrite !script_fd_cost, <- (fd_same_inv _ _ _ _ _ _ Hc Pc Hd Pd).
    destruct (fd_same cs ds); [reflexivity|].
    rewrite <- (fd_total_inv O O' pa pb pa' pb' _ _ _ _ _ _ IH Hc Pc Hd Pd Wa Wa' Wb Wb'), <- Hsa, <- Hsb. reflexivity.
Qed.

(* ---------------------------------------------------------------- the builder under the 'none' strategy *)
Theorem build_tperm : forall o, o_ake o = false ->
  (forall d d', dperm d d' -> tperm (build o d) (build o d')) /\
  (forall l l', dperm_list l l' -> Forall2 tperm (map (build o) l) (map (build o) l')) /\
  (forall kvs kvs', dperm_kvs kvs kvs' -> Forall2 tperm (build_pairs o kvs) (build_pairs o kvs')).
Proof.
  intros o Hake. apply dperm_mutind.
  - intro l. constructor.
  - intros l l' _ IH. rewrite !build_arr. constructor. exact IH.
  - intros kvs kvs' kvs'' _ IH P. rewrite !build_obj, Hake. apply tp_fd with (cs' := build_pairs o kvs'); [exact IH|].
    unfold build_pairs. apply Permutation_map. exact P.
  - constructor.
  - intros x y l l' _ IHx _ IHl. cbn [map]. constructor; assumption.
  - constructor.
  - intros k x y l l' _ IHx _ IHl. unfold build_pairs in *. cbn [map fst snd]. constructor; [|exact IHl].
    constructor; [constructor|exact IHx].
Qed.

(* -------- documents in the domain build well-formed trees *)
Lemma leaves_ok_arr : forall l, leaves_ok (DArr l) = forallb leaves_ok l.
Proof. intro l. cbn [leaves_ok]. induction l as [|x l IH]; [reflexivity|]. cbn [forallb]. rewrite <- IH. reflexivity. Qed.

Lemma leaves_ok_obj : forall kvs, leaves_ok (DObj kvs) = forallb (fun kv => leaf_exp_ok (fst kv) && leaves_ok (snd kv)) kvs.
Proof.
  intro kvs. cbn [leaves_ok]. induction kvs as [|[k v] r IH]; [reflexivity|]. cbn [forallb fst snd]. rewrite <- IH. reflexivity.
Qed.

Lemma build_not_kvp : forall o d, is_kvp (build o d) = false.
Proof. intros o [l|l|kvs]; [reflexivity|reflexivity|]. rewrite build_obj. destruct (o_ake o); reflexivity. Qed.

Lemma str_keys_node_distinct : forall o kvs, str_keys_distinct (map fst kvs) = true ->
  keys_distinct node_eqb (build_pairs o kvs) = true.
Proof.
  intros o kvs. unfold build_pairs. induction kvs as [|[k v] r IH]; intro H; [reflexivity|].
  cbn [map fst snd str_keys_distinct keys_distinct] in *. apply andb_prop in H as [H H3]. apply andb_prop in H as [H1 H2].
  rewrite (IH H3), andb_true_r. apply negb_true_iff in H2. apply negb_true_iff.
  match goal with |- existsb ?f ?l = false => destruct (existsb f l) eqn:E end; [|reflexivity]. apply existsb_exists in E. destruct E as [c [Hin He]].
  apply in_map_iff in Hin. destruct Hin as [[k' v'] [<- Hin]]. cbn [fst snd kvp_key node_eqb] in He.
  assert (Hk' : is_str_leaf k' = true).
  { destruct (str_keys_distinct_spec _ H3) as [Hf _]. rewrite Forall_forall in Hf. apply Hf. apply in_map_iff. exists (k', v'). auto. }
  rewrite <- H2. symmetry. apply existsb_exists. exists k'. split; [apply in_map_iff; exists (k', v'); auto|].
  unfold py_eqb, is_str_leaf in *. destruct (lk k); try discriminate. destruct (lk k'); try discriminate. exact He.
Qed.

Theorem build_wf : forall o, o_ake o = false -> forall d, keys_ok d = true -> leaves_ok d = true -> wf (build o d) = true.
Proof.
  intros o Hake. fix IH 1. intros [x|l|kvs] Hk Hl.
  - exact Hl.
  - rewrite build_arr. cbn [wf]. rewrite keys_ok_arr in Hk. rewrite leaves_ok_arr in Hl.
    induction l as [|y l IHl]; [reflexivity|]. cbn [map forallb] in *.
    apply andb_prop in Hk as [Hk1 Hk2]. apply andb_prop in Hl as [Hl1 Hl2].
    rewrite build_not_kvp, (IH y Hk1 Hl1). cbn [negb andb]. apply IHl; assumption.
  - rewrite build_obj, Hake. rewrite keys_ok_obj in Hk. rewrite leaves_ok_obj in Hl. apply andb_prop in Hk as [Hd Hk].
    cbn [wf]. rewrite (str_keys_node_distinct o kvs Hd), andb_true_r. clear Hd. unfold build_pairs.
    induction kvs as [|[k v] r IHr]; [reflexivity|]. cbn [map forallb fst snd] in *.
    apply andb_prop in Hk as [Hk1 Hk2]. apply andb_prop in Hl as [Hl1 Hl2]. apply andb_prop in Hl1 as [Hl0 Hl1].
    cbn [is_kvp wf is_leaf]. rewrite build_not_kvp, (IH v Hk1 Hl1). unfold leaf_exp_ok in Hl0. rewrite Hl0. cbn [negb andb].
    apply IHr; assumption.
Qed.

(* -------- a key-permuted copy of a document in the domain is in the domain *)
Lemma str_keys_distinct_intro : forall ks, Forall (fun k => is_str_leaf k = true) ks -> NoDup (map ltext ks) ->
  str_keys_distinct ks = true.
Proof.
  induction ks as [|k r IH]; intros Hf Hn; [reflexivity|]. cbn [str_keys_distinct map] in *.
  inversion Hf; subst. inversion Hn as [|? ? Hni Hn']; subst. rewrite IH by assumption. rewrite andb_true_r.
  apply andb_true_intro. split; [assumption|]. apply negb_true_iff. destruct (existsb _ r) eqn:E; [|reflexivity].
  apply existsb_exists in E. destruct E as [k' [Hin He]]. apply str_eqb_eq in He. exfalso. apply Hni. rewrite He.
  apply in_map. exact Hin.
Qed.

Lemma str_keys_distinct_perm : forall ks ks', Permutation ks ks' -> str_keys_distinct ks = true -> str_keys_distinct ks' = true.
Proof.
  intros ks ks' P H. destruct (str_keys_distinct_spec _ H) as [Hf Hn]. apply str_keys_distinct_intro.
  - eapply Permutation_Forall; eauto.
  - eapply Permutation_NoDup; [apply Permutation_map; exact P|exact Hn].
Qed.

Theorem doc_ok_dperm :
  (forall d d', dperm d d' -> keys_ok d = true -> leaves_ok d = true -> keys_ok d' = true /\ leaves_ok d' = true) /\
  (forall l l', dperm_list l l' -> forallb keys_ok l = true -> forallb leaves_ok l = true ->
     forallb keys_ok l' = true /\ forallb leaves_ok l' = true) /\
  (forall kvs kvs', dperm_kvs kvs kvs' ->
     forallb (fun kv => keys_ok (snd kv)) kvs = true -> forallb (fun kv => leaf_exp_ok (fst kv) && leaves_ok (snd kv)) kvs = true ->
     forallb (fun kv => keys_ok (snd kv)) kvs' = true /\ forallb (fun kv => leaf_exp_ok (fst kv) && leaves_ok (snd kv)) kvs' = true).
Proof.
  apply dperm_mutind.
  - auto.
  - intros l l' _ IH Hk Hl. rewrite keys_ok_arr in *. rewrite leaves_ok_arr in *. auto.
  - intros kvs kvs' kvs'' Hkv IH P Hk Hl. rewrite keys_ok_obj in *. rewrite leaves_ok_obj in *.
    apply andb_prop in Hk as [Hd Hk]. destruct (IH Hk Hl) as [Hk' Hl'].
    rewrite <- (forallb_perm _ _ _ P), <- (forallb_perm _ _ _ P), Hk', Hl', andb_true_r.
    split; [|reflexivity]. apply (str_keys_distinct_perm (map fst kvs')); [apply Permutation_map; exact P|].
    rewrite <- (dperm_kvs_fst _ _ Hkv). exact Hd.
  - auto.
  - intros x y l l' _ IHx _ IHl Hk Hl. cbn [forallb] in *. apply andb_prop in Hk as [H1 H2]. apply andb_prop in Hl as [H3 H4].
    destruct (IHx H1 H3) as [-> ->]. destruct (IHl H2 H4) as [-> ->]. auto.
  - auto.
  - intros k x y l l' _ IHx _ IHl Hk Hl. cbn [forallb fst snd] in *. apply andb_prop in Hk as [H1 H2]. apply andb_prop in Hl as [H3 H4].
    apply andb_prop in H3 as [H0 H3]. destruct (IHx H1 H3) as [-> ->]. destruct (IHl H2 H4) as [-> ->]. rewrite H0. auto.
Qed.

Lemma doc_ok_parts : forall d, doc_ok d = true -> keys_ok d = true /\ leaves_ok d = true.
Proof. intros d H. unfold doc_ok in H. apply andb_prop in H. exact H. Qed.

Lemma doc_ok_perm : forall d d', doc_ok d = true -> dperm d d' -> doc_ok d' = true.
Proof.
  intros d d' H P. destruct (doc_ok_parts _ H) as [Hk Hl]. destruct doc_ok_dperm as [Hd _]. destruct (Hd d d' P Hk Hl) as [H1 H2].
  unfold doc_ok. rewrite H1, H2. reflexivity.
Qed.

(* ---------------------------------------------------------------- C08: reordering keys does not change the cost *)
(* (A) strategies auto / match: the engine's input is literally the same *)
Theorem C08_dict_script : forall o O pa pb a a' b b', o_ake o = true -> doc_ok a = true -> doc_ok b = true ->
  dperm a a' -> dperm b b' ->
  script O pa pb (build o a) (build o b) = script O pa pb (build o a') (build o b').
Proof.
  intros o O pa pb a a' b b' Hake Ha Hb Pa Pb.
  rewrite (C08_build_canonical o a a' Hake (proj1 (doc_ok_parts _ Ha)) Pa),
          (C08_build_canonical o b b' Hake (proj1 (doc_ok_parts _ Hb)) Pb). reflexivity.
Qed.

(* (B) strategy none: same final cost, for any two oracles and positions *)
Theorem C08_fixed_cost : forall o O O' pa pb pa' pb' a a' b b', o_ake o = false -> doc_ok a = true -> doc_ok b = true ->
  dperm a a' -> dperm b b' ->
  res_cost (script O pa pb (build o a) (build o b)) = res_cost (script O' pa' pb' (build o a') (build o b')).
Proof.
  intros o O O' pa pb pa' pb' a a' b b' Hake Ha Hb Pa Pb.
  pose proof (doc_ok_perm _ _ Ha Pa) as Ha'. pose proof (doc_ok_perm _ _ Hb Pb) as Hb'.
  destruct (build_tperm o Hake) as [Ht _].
  apply tperm_cost; try (apply Ht; assumption);
    apply build_wf; try assumption; apply doc_ok_parts; assumption.
Qed.

(* all strategies *)
Theorem C08_cost : forall o O pa pb a a' b b', doc_ok a = true -> doc_ok b = true -> dperm a a' -> dperm b b' ->
  res_cost (script O pa pb (build o a) (build o b)) = res_cost (script O pa pb (build o a') (build o b')).
Proof.
  intros o O pa pb a a' b b' Ha Hb Pa Pb. destruct (o_ake o) eqn:Hake.
  - rewrite (C08_dict_script o O pa pb a a' b b') by assumption. reflexivity.
  - apply C08_fixed_cost; assumption.
Qed.

(* ---------------------------------------------------------------- C08: a document and its key-permuted copy are equal *)
Lemma leaf_data_eqb_refl : forall x, leaf_data_eqb x x = true.
Proof.
  intro x. unfold leaf_data_eqb. destruct (lk x); cbn; try reflexivity; apply str_eqb_refl.
Qed.

Lemma data_eqb_lst : forall p q xs p' q' ys, data_eqb (Lst p q xs) (Lst p' q' ys) = list_eq_inline data_eqb xs ys.
Proof. reflexivity. Qed.

Lemma data_eqb_mapping : forall xs ys,
  data_eqb (FDict xs) (FDict ys) =
  Nat.eqb (length xs) (length ys) && forallb (fun x => existsb (data_eqb x) ys) xs &&
  forallb (fun y => existsb (fun x => data_eqb x y) xs) ys.
Proof. reflexivity. Qed.

Lemma data_eqb_mset : forall p xs p' ys,
  data_eqb (MSet p xs) (MSet p' ys) =
  Nat.eqb (length xs) (length ys) && forallb (fun x => existsb (data_eqb x) ys) xs &&
  forallb (fun y => existsb (fun x => data_eqb x y) xs) ys.
Proof. reflexivity. Qed.

Lemma list_eq_inline_refl : forall (f : tree -> tree -> bool) xs, Forall (fun x => f x x = true) xs -> list_eq_inline f xs xs = true.
Proof. intros f xs H. induction H as [|x xs Hx _ IH]; [reflexivity|]. cbn. rewrite Hx. exact IH. Qed.

Lemma mutual_refl : forall (f : tree -> tree -> bool) xs, Forall (fun x => f x x = true) xs ->
  forallb (fun x => existsb (f x) xs) xs = true /\ forallb (fun y => existsb (fun x => f x y) xs) xs = true.
Proof.
  intros f xs H. rewrite Forall_forall in H. split; apply forallb_forall; intros x Hx; apply existsb_exists; exists x; auto.
Qed.

Lemma data_eqb_refl : forall a, data_eqb a a = true.
Proof.
  apply tree_rect'.
  - intro x. apply leaf_data_eqb_refl.
  - intros p q cs IH. rewrite data_eqb_lst. apply list_eq_inline_refl. exact IH.
  - intros p k v Hk Hv. cbn. rewrite Hk, Hv. reflexivity.
  - intros p cs IH. rewrite data_eqb_mset, Nat.eqb_refl. destruct (mutual_refl data_eqb cs IH) as [-> ->]. reflexivity.
  - intros cs IH. rewrite data_eqb_mapping, Nat.eqb_refl. destruct (mutual_refl data_eqb cs IH) as [-> ->]. reflexivity.
Qed.

Theorem tperm_data_eqb : forall a a', tperm a a' -> data_eqb a a' = true.
Proof.
  apply (tree_rect' (fun a => forall a', tperm a a' -> data_eqb a a' = true)).
  - intros x a' H. apply tperm_inv_leaf in H. subst. apply leaf_data_eqb_refl.
  - intros p q cs IH a' H. apply tperm_inv_lst in H. destruct H as [cs' [-> H]]. rewrite data_eqb_lst.
    induction H as [|x y l l' Hxy _ IHl]; [reflexivity|]. inversion IH; subst. cbn. rewrite (H1 _ Hxy). apply IHl. assumption.
  - intros p k v IHk IHv a' H. apply tperm_inv_kvp in H. destruct H as [k' [v' [-> [Hk Hv]]]]. cbn.
    rewrite (IHk _ Hk), (IHv _ Hv). reflexivity.
  - intros p cs _ a' H. destruct (tperm_inv_mset _ _ _ H).
  - intros cs IH a' H. apply tperm_inv_fd in H. destruct H as [cs' [cs'' [-> [H P]]]]. rewrite data_eqb_mapping.
    rewrite <- (Permutation_length P), (Forall2_length' _ _ _ H), Nat.eqb_refl. cbn [andb]. rewrite Forall_forall in IH.
    apply andb_true_intro. split; apply forallb_forall.
    + intros x Hx. destruct (Forall2_In_l _ _ _ _ H Hx) as [y [Hy Hxy]]. apply existsb_exists. exists y.
      split; [eapply Permutation_in; eauto|]. apply IH; assumption.
    + intros y Hy. apply (Permutation_in _ (Permutation_sym P)) in Hy. destruct (Forall2_in_r _ _ _ _ H Hy) as [x [Hx Hxy]].
      apply existsb_exists. exists x. split; [exact Hx|]. apply IH; assumption.
Qed.

Theorem C08_equal : forall o d d', doc_ok d = true -> dperm d d' -> data_eqb (build o d) (build o d') = true.
Proof.
  intros o d d' Hd P. destruct (o_ake o) eqn:Hake.
  - rewrite <- (C08_build_canonical o d d' Hake (proj1 (doc_ok_parts _ Hd)) P). apply data_eqb_refl.
  - apply tperm_data_eqb. destruct (build_tperm o Hake) as [Ht _]. apply Ht. exact P.
Qed.

(* the implementation's own == agrees *)
Theorem C08_node_equal : forall o d d', doc_ok d = true -> dperm d d' -> node_eqb (build o d) (build o d') = true.
Proof.
  intros o d d' Hd P. destruct (o_ake o) eqn:Hake.
  - rewrite <- (C08_build_canonical o d d' Hake (proj1 (doc_ok_parts _ Hd)) P). apply node_eqb_refl.
  - destruct (build_tperm o Hake) as [Ht _]. pose proof (Ht d d' P) as H.
    rewrite <- (tperm_node_eqb _ _ _ _ (tperm_refl_l _ _ H) H). apply node_eqb_refl.
Qed.

(* ... and diffing the two costs nothing: the script exists (whatever the oracle) and its cost is 0 *)
Theorem C08_copy_zero : forall o O pa pb d d', doc_ok d = true -> dperm d d' ->
  res_cost (script O pa pb (build o d) (build o d')) = Some 0.
Proof.
  intros o O pa pb d d' Hd P.
  rewrite <- (C08_cost o O pa pb d d d d' Hd Hd (dperm_refl d) P).
  destruct (self_script O pa pb (build o d)) as [e He]. rewrite He. cbn. f_equal. eapply self_zero. exact He.
Qed.

(* ---------------------------------------------------------------- C08: lists are ordered (corollary of C02) *)
Lemma nth_swap_i : forall (l : list tree) i j d, (i < length l)%nat -> nth i (swap i j l d) d = nth j l d.
Proof.
  intros l i j d Hi. unfold swap.
  rewrite (nth_indep _ d (nth (if Nat.eqb 0 i then j else if Nat.eqb 0 j then i else 0%nat) l d)) by (rewrite map_length, seq_length; exact Hi).
  rewrite (map_nth (fun k => nth (if Nat.eqb k i then j else if Nat.eqb k j then i else k) l d) (seq 0 (length l)) 0%nat i).
  rewrite seq_nth by exact Hi. cbn [Nat.add]. rewrite Nat.eqb_refl. reflexivity.
Qed.

Lemma list_eq_inline_nth : forall (f : tree -> tree -> bool) xs ys i d, list_eq_inline f xs ys = true -> (i < length xs)%nat ->
  f (nth i xs d) (nth i ys d) = true.
Proof.
  intros f xs. induction xs as [|x xs IH]; intros [|y ys] i d H Hi; cbn in *; try discriminate; try lia.
  apply andb_prop in H as [H1 H2]. destruct i as [|i]; [exact H1|]. apply IH; [exact H2|lia].
Qed.

Theorem C08_swap_partial : forall O pa pb p q l i j e,
  let a := Lst p q l in
  let b := Lst p q (swap i j l dummy) in
  (i < j < length l)%nat -> data_eqb (nth i l dummy) (nth j l dummy) = false ->
  wf a = true -> wf b = true -> numtext_ok a = true -> numtext_ok b = true -> consistent a b = true ->
  typed a b = true -> nozero a = true -> nozero b = true ->
  script O pa pb a b = OK e -> 0 < cost e.
Proof.
  intros O pa pb p q l i j e a b Hij Hne Wa Wb Na Nb Hc Ht Za Zb He.
  destruct (script_zero_sim O pa pb a b e Wa Wb Na Nb He) as [Hpos _].
  assert (Hnz : cost e <> 0).
  { intro Hz. apply (script_zero_iff O pa pb a b e Wa Wb Na Nb Hc Ht Za Zb He) in Hz.
    unfold a, b in Hz. rewrite data_eqb_lst in Hz.
    assert (Hi : (i < length l)%nat) by lia.
    pose proof (list_eq_inline_nth data_eqb _ _ i dummy Hz Hi) as H.
    rewrite nth_swap_i in H by lia. congruence. }
  lia.
Qed.

(* ---------------------------------------------------------------- the carve-outs are needed; the hypotheses are satisfiable *)
Definition swap_hyps (p q : bool) (l : list tree) (i j : nat) : bool :=
  let a := Lst p q l in
  let b := Lst p q (swap i j l dummy) in
  Nat.ltb i j && Nat.ltb j (length l) && negb (data_eqb (nth i l dummy) (nth j l dummy)) &&
  wf a && wf b && numtext_ok a && numtext_ok b && consistent a b.

(* D4: [1, 1.0] -> [1.0, 1] costs 0 *)
Definition l_D4 : list tree := [mk_leaf KInt [49] 1; mk_leaf KFloat [49; 46; 48] 1].
Theorem swap_refuted_cross_type : exists p q l i j e,
  swap_hyps p q l i j = true /\ nozero (Lst p q l) = true /\ nozero (Lst p q (swap i j l dummy)) = true /\
  typed (Lst p q l) (Lst p q (swap i j l dummy)) = false /\
  script no_oracle [] [] (Lst p q l) (Lst p q (swap i j l dummy)) = OK e /\ cost e = 0.
Proof. exists true, true, l_D4, 0%nat, 1%nat, (EMatch 0). vm_compute. repeat split. Qed.

(* D16: ["", 1] -> [1, ""] costs 0 *)
Definition l_D16 : list tree := [mk_leaf KStr [] 0; mk_leaf KInt [49] 1].
Theorem swap_refuted_zero_size : exists p q l i j e,
  swap_hyps p q l i j = true /\ typed (Lst p q l) (Lst p q (swap i j l dummy)) = true /\
  nozero (Lst p q l) = false /\
  script no_oracle [] [] (Lst p q l) (Lst p q (swap i j l dummy)) = OK e /\ cost e = 0.
Proof.
  eexists true, true, l_D16, 0%nat, 1%nat, _. repeat split; try (vm_compute; reflexivity).
Qed.

(* a list inside the domain: ["ab", 7, [1]] with positions 0 and 2 exchanged costs 8 *)
Definition l_ok : list tree := [mk_leaf KStr [97; 98] 0; mk_leaf KInt [55] 7; Lst true true [mk_leaf KInt [49] 1]].
Example swap_example : exists e,
  swap_hyps true true l_ok 0 2 = true /\ typed (Lst true true l_ok) (Lst true true (swap 0 2 l_ok dummy)) = true /\
  nozero (Lst true true l_ok) = true /\ nozero (Lst true true (swap 0 2 l_ok dummy)) = true /\
  script no_oracle [] [] (Lst true true l_ok) (Lst true true (swap 0 2 l_ok dummy)) = OK e /\ 0 < cost e.
Proof. eexists. repeat split; try (vm_compute; reflexivity). Qed.

(* two documents with nested mappings and key-permuted copies of both *)
Definition sleaf (s : str) : leaf := {| lk := KStr; ltext := s; lnum := 0; lexp := 0 |}.
Definition ileaf (z : Z) (t : str) : leaf := {| lk := KInt; ltext := t; lnum := z; lexp := 0 |}.
Definition ex_inner : list (leaf * doc) := [(sleaf [99], DLeaf (ileaf 1 [49])); (sleaf [100], DLeaf (ileaf 2 [50]))].
Definition ex_inner' : list (leaf * doc) := [(sleaf [100], DLeaf (ileaf 2 [50])); (sleaf [99], DLeaf (ileaf 1 [49]))].
Definition ex_list : doc := DArr [DLeaf (ileaf 1 [49]); DLeaf (sleaf [120])].
(* a = {"b": [1, "x"], "a": {"c": 1, "d": 2}}    a' = {"a": {"d": 2, "c": 1}, "b": [1, "x"]} *)
Definition ex_a : doc := DObj [(sleaf [98], ex_list); (sleaf [97], DObj ex_inner)].
Definition ex_a' : doc := DObj [(sleaf [97], DObj ex_inner'); (sleaf [98], ex_list)].
(* b = {"a": {"c": 1, "e": 3}, "z": null-ish 0, "b": [1, "y"]}    b' = {"z": 0, "b": [1, "y"], "a": {"e": 3, "c": 1}} *)
Definition ex_list2 : doc := DArr [DLeaf (ileaf 1 [49]); DLeaf (sleaf [121])].
Definition ex_inner2 : list (leaf * doc) := [(sleaf [99], DLeaf (ileaf 1 [49])); (sleaf [101], DLeaf (ileaf 3 [51]))].
Definition ex_inner2' : list (leaf * doc) := [(sleaf [101], DLeaf (ileaf 3 [51])); (sleaf [99], DLeaf (ileaf 1 [49]))].
Definition ex_b : doc := DObj [(sleaf [97], DObj ex_inner2); (sleaf [122], DLeaf (ileaf 0 [48])); (sleaf [98], ex_list2)].
Definition ex_b' : doc := DObj [(sleaf [122], DLeaf (ileaf 0 [48])); (sleaf [98], ex_list2); (sleaf [97], DObj ex_inner2')].

Lemma dperm_kvs_refl : forall kvs, dperm_kvs kvs kvs.
Proof. induction kvs as [|[k v] r IH]; constructor; [apply dperm_refl|exact IH]. Qed.

Lemma ex_a_perm : dperm ex_a ex_a'.
Proof.
  apply dp_obj with (kvs' := [(sleaf [98], ex_list); (sleaf [97], DObj ex_inner')]); [|apply perm_swap].
  constructor; [apply dperm_refl|]. constructor; [|constructor].
  apply dp_obj with (kvs' := ex_inner); [apply dperm_kvs_refl|apply perm_swap].
Qed.

Lemma ex_b_perm : dperm ex_b ex_b'.
Proof.
  apply dp_obj with (kvs' := [(sleaf [97], DObj ex_inner2'); (sleaf [122], DLeaf (ileaf 0 [48])); (sleaf [98], ex_list2)]).
  - constructor; [|apply dperm_kvs_refl]. apply dp_obj with (kvs' := ex_inner2); [apply dperm_kvs_refl|apply perm_swap].
  - apply Permutation_cons_append.
Qed.

Definition opts_none : bopts := {| o_ake := false; o_amk := false; o_ale := true; o_alsl := true |}.
Definition opts_auto : bopts := {| o_ake := true; o_amk := true; o_ale := true; o_alsl := true |}.

Example perm_example :
  doc_ok ex_a = true /\ doc_ok ex_b = true /\ dperm ex_a ex_a' /\ dperm ex_b ex_b' /\
  tree_exact_eqb (build opts_none ex_a) (build opts_none ex_a') = false /\
  res_cost (script no_oracle [] [] (build opts_none ex_a) (build opts_none ex_b)) = Some 17 /\
  res_cost (script no_oracle [] [] (build opts_none ex_a') (build opts_none ex_b')) = Some 17 /\
  build opts_auto ex_a = build opts_auto ex_a' /\
  res_cost (script no_oracle [] [] (build opts_none ex_a) (build opts_none ex_a')) = Some 0.
Proof.
  split; [reflexivity|]. split; [reflexivity|]. split; [exact ex_a_perm|]. split; [exact ex_b_perm|].
  repeat split; vm_compute; reflexivity.
Qed.

(* ---------------------------------------------------------------- C08: which members are paired, removed, inserted *)
(* the sub-edits of a FixedKeyDictNode edit, read by key *)
Definition pcost (O : oracle) (pa pb : path) (i j : nat) (c d : tree) : option Z :=
  if node_eqb c d then Some 0 else res_cost (script O (pa ++ [i]) (pb ++ [j]) c d).

Record fd_spec (O : oracle) (pa pb : path) (cs ds : list tree) (subs : list sub) : Prop := {
  fs_pair : forall i j e, In (SPair i j e) subs ->
      (i < length cs)%nat /\ (j < length ds)%nat /\ key_eqb (nth i cs dummy) (nth j ds dummy) = true /\
      pcost O pa pb i j (nth i cs dummy) (nth j ds dummy) = Some (cost e);
  fs_pair_ex : forall i j, (i < length cs)%nat -> (j < length ds)%nat -> key_eqb (nth i cs dummy) (nth j ds dummy) = true ->
      exists e, In (SPair i j e) subs;
  fs_rem : forall i c, In (SRem i c) subs <->
      (i < length cs)%nat /\ (forall d, In d ds -> key_eqb (nth i cs dummy) d = false) /\ c = remove_cost (nth i cs dummy) 1;
  fs_ins : forall j c, In (SIns j c) subs <->
      (j < length ds)%nat /\ (forall c0, In c0 cs -> key_eqb c0 (nth j ds dummy) = false) /\ c = insert_cost (nth j ds dummy) 1 }.

Lemma fd_partner_none : forall cs ds i, fd_partner cs ds i = None <-> (forall d, In d ds -> key_eqb (nth i cs dummy) d = false).
Proof.
  intros cs ds i. unfold fd_partner. split.
  - intros H d Hd. exact (find_index_none _ _ _ H d Hd).
  - intro H. pose proof (find_index_find (fun d => node_eqb (kvp_key (nth i cs dummy)) (kvp_key d)) ds 0) as Hf.
    destruct (find_index _ ds 0) as [j|]; [|reflexivity]. destruct Hf as [x [Hx _]]. apply find_some in Hx.
    destruct Hx as [Hin Hk]. specialize (H x Hin). unfold key_eqb in H. rewrite H in Hk. discriminate.
Qed.

Lemma fd_script_spec : forall O pa pb cs ds k t subs,
  wf (FDict cs) = true -> wf (FDict ds) = true ->
  script O pa pb (FDict cs) (FDict ds) = OK (EComp k t subs) -> fd_spec O pa pb cs ds subs.
Proof.
  intros O pa pb cs ds k t subs Wa Wb H.
  destruct (wf_fd_parts _ Wa) as [Hcs [_ Kcs]]. destruct (wf_fd_parts _ Wb) as [Hds [_ Kds]].
  cbn [script] in H. fold (sub_matrix O pa pb cs ds) in H. set (M := sub_matrix O pa pb cs ds) in *.
  destruct (_ || _); [discriminate|]. rewrite fixed_dict_script_unfold, fd_order_plain in H.
  destruct (all_some (map (fd_get cs ds M) (fd_shared cs ds))) as [sh|] eqn:Esh; [|discriminate].
  cbv zeta in H. destruct (_ <=? _); [|discriminate]. inversion H; subst k t subs; clear H.
  apply all_some_map in Esh.
  assert (Hsh : forall s, In s sh <-> exists ij, In ij (fd_shared cs ds) /\ fd_get cs ds M ij = Some s).
  { intro s. split.
    - intro Hin. exact (Forall2_in_r _ _ _ _ Esh Hin).
    - intros [ij [Hin Hg]]. destruct (Forall2_in_l _ _ _ _ Esh Hin) as [s' [Hs' Hg']]. congruence. }
  assert (Hshared : forall i j, In (i, j) (fd_shared cs ds) <->
            (i < length cs)%nat /\ (j < length ds)%nat /\ key_eqb (nth i cs dummy) (nth j ds dummy) = true).
  { intros i j. rewrite in_fd_shared. split.
    - intros [Hi Hp]. destruct (fd_partner_spec cs ds i j Hi Hp) as [Hj He]. auto.
    - intros [Hi [Hj He]]. split; [exact Hi|]. apply fd_partner_complete; assumption. }
  constructor.
  - intros i j e Hin. rewrite !in_app_iff in Hin. destruct Hin as [Hin|[Hin|Hin]];
      try (apply in_map_iff in Hin; destruct Hin as [x [Hx _]]; discriminate).
    apply Hsh in Hin. destruct Hin as [[i0 j0] [Hin Hg]].
    pose proof (fd_get_sub _ _ _ _ _ Hg) as [e0 [He0 _]]. cbn [fst snd] in He0. inversion He0; subst i0 j0 e0.
    apply Hshared in Hin. destruct Hin as [Hi [Hj He]]. repeat split; try assumption.
    unfold fd_get in Hg. cbn [fst snd] in Hg. unfold pcost. destruct (node_eqb (nth i cs dummy) (nth j ds dummy)).
    + inversion Hg. reflexivity.
    + unfold M in Hg. rewrite mget_sub_matrix_eq, (nth_error_nth' cs dummy Hi), (nth_error_nth' ds dummy Hj) in Hg.
      destruct (script O (pa ++ [i]) (pb ++ [j]) (nth i cs dummy) (nth j ds dummy)) as [e1|]; [|discriminate].
      inversion Hg. reflexivity.
  - intros i j Hi Hj He. assert (Hin : In (i, j) (fd_shared cs ds)) by (apply Hshared; auto).
    destruct (Forall2_in_l _ _ _ _ Esh Hin) as [s [Hs Hg]]. pose proof (fd_get_sub _ _ _ _ _ Hg) as [e [-> _]].
    exists e. rewrite in_app_iff. left. exact Hs.
  - intros i c. rewrite !in_app_iff. split.
    + intros [Hin|[Hin|Hin]].
      * apply Hsh in Hin. destruct Hin as [ij [_ Hg]]. pose proof (fd_get_sub _ _ _ _ _ Hg) as [e [He _]]. discriminate.
      * apply in_map_iff in Hin. destruct Hin as [i0 [Hx Hin]]. inversion Hx; subst i0 c. unfold fd_unshared in Hin.
        apply filter_In in Hin. destruct Hin as [Hi Hp]. apply in_seq in Hi.
        destruct (fd_partner cs ds i) eqn:Ep; [discriminate|]. split; [lia|]. split; [apply fd_partner_none; exact Ep|reflexivity].
      * apply in_map_iff in Hin. destruct Hin as [x [Hx _]]. discriminate.
    + intros [Hi [Hn ->]]. right. left. apply in_map_iff. exists i. split; [reflexivity|]. unfold fd_unshared.
      apply filter_In. split; [apply in_seq; lia|]. rewrite (proj2 (fd_partner_none cs ds i) Hn). reflexivity.
  - intros j c. rewrite !in_app_iff. split.
    + intros [Hin|[Hin|Hin]].
      * apply Hsh in Hin. destruct Hin as [ij [_ Hg]]. pose proof (fd_get_sub _ _ _ _ _ Hg) as [e [He _]]. discriminate.
      * apply in_map_iff in Hin. destruct Hin as [x [Hx _]]. discriminate.
      * apply in_map_iff in Hin. destruct Hin as [j0 [Hx Hin]]. inversion Hx; subst j0 c. unfold fd_inserted in Hin.
        apply filter_In in Hin. destruct Hin as [Hj Hp]. apply in_seq in Hj. apply negb_true_iff in Hp.
        split; [lia|]. split; [|reflexivity]. intros c0 Hc0. destruct (key_eqb c0 (nth j ds dummy)) eqn:E; [|reflexivity].
        rewrite <- Hp. symmetry. apply existsb_exists. exists c0. split; [exact Hc0|exact E].
    + intros [Hj [Hn ->]]. right. right. apply in_map_iff. exists j. split; [reflexivity|]. unfold fd_inserted.
      apply filter_In. split; [apply in_seq; lia|]. apply negb_true_iff.
      destruct (existsb _ cs) eqn:E; [|reflexivity]. apply existsb_exists in E. destruct E as [c0 [Hc0 He]].
      unfold key_eqb in Hn. rewrite (Hn c0 Hc0) in He. discriminate.
Qed.

(* every sub-edit of the first script has a counterpart in the second acting on R-related members *)
Definition pairing_incl (R : tree -> tree -> Prop) (cs ds : list tree) (subs : list sub) (cs' ds' : list tree) (subs' : list sub) : Prop :=
  (forall i j e, In (SPair i j e) subs -> exists i' j' e', In (SPair i' j' e') subs' /\
      R (nth i cs dummy) (nth i' cs' dummy) /\ R (nth j ds dummy) (nth j' ds' dummy) /\ cost e = cost e') /\
  (forall i c, In (SRem i c) subs -> exists i', In (SRem i' c) subs' /\ R (nth i cs dummy) (nth i' cs' dummy)) /\
  (forall j c, In (SIns j c) subs -> exists j', In (SIns j' c) subs' /\ R (nth j ds dummy) (nth j' ds' dummy)).

Lemma pairing_transfer : forall (R : tree -> tree -> Prop) O O' pa pb pa' pb' cs ds subs cs' ds' subs',
  fd_spec O pa pb cs ds subs -> fd_spec O' pa' pb' cs' ds' subs' ->
  (forall c, In c cs -> exists c', In c' cs' /\ R c c') -> (forall c', In c' cs' -> exists c, In c cs /\ R c c') ->
  (forall d, In d ds -> exists d', In d' ds' /\ R d d') -> (forall d', In d' ds' -> exists d, In d ds /\ R d d') ->
  (forall c c' d d', R c c' -> R d d' -> key_eqb c d = key_eqb c' d') ->
  (forall c c', R c c' -> size c = size c') ->
  (forall c c' d d' i j i' j', In c cs -> In c' cs' -> In d ds -> In d' ds' -> R c c' -> R d d' ->
     pcost O pa pb i j c d = pcost O' pa' pb' i' j' c' d') ->
  pairing_incl R cs ds subs cs' ds' subs'.
Proof.
  intros R O O' pa pb pa' pb' cs ds subs cs' ds' subs' S S' Hc Hc' Hd Hd' Hkey Hsize Hcost.
  repeat split.
  - intros i j e Hin. destruct (fs_pair _ _ _ _ _ _ S i j e Hin) as [Hi [Hj [Hk Hp]]].
    destruct (Hc _ (nth_In cs dummy Hi)) as [c' [Ic' Rc]]. destruct (Hd _ (nth_In ds dummy Hj)) as [d' [Id' Rd]].
    destruct (In_nth _ _ dummy Ic') as [i' [Hi' Ei']]. destruct (In_nth _ _ dummy Id') as [j' [Hj' Ej']].
    subst c' d'. rewrite (Hkey _ _ _ _ Rc Rd) in Hk.
    destruct (fs_pair_ex _ _ _ _ _ _ S' i' j' Hi' Hj' Hk) as [e' Hin'].
    exists i', j', e'. repeat split; try assumption.
    destruct (fs_pair _ _ _ _ _ _ S' i' j' e' Hin') as [_ [_ [_ Hp']]].
    rewrite (Hcost _ _ _ _ i j i' j' (nth_In cs dummy Hi) (nth_In cs' dummy Hi') (nth_In ds dummy Hj) (nth_In ds' dummy Hj') Rc Rd) in Hp.
    congruence.
  - intros i c Hin. apply (fs_rem _ _ _ _ _ _ S) in Hin. destruct Hin as [Hi [Hn ->]].
    destruct (Hc _ (nth_In cs dummy Hi)) as [c' [Ic' Rc]]. destruct (In_nth _ _ dummy Ic') as [i' [Hi' Ei']]. subst c'.
    exists i'. split; [|exact Rc]. apply (fs_rem _ _ _ _ _ _ S'). split; [exact Hi'|]. split.
    + intros d' Id'. destruct (Hd' d' Id') as [d [Id Rd]]. rewrite <- (Hkey _ _ _ _ Rc Rd). apply Hn. exact Id.
    + unfold remove_cost. rewrite (Hsize _ _ Rc). reflexivity.
  - intros j c Hin. apply (fs_ins _ _ _ _ _ _ S) in Hin. destruct Hin as [Hj [Hn ->]].
    destruct (Hd _ (nth_In ds dummy Hj)) as [d' [Id' Rd]]. destruct (In_nth _ _ dummy Id') as [j' [Hj' Ej']]. subst d'.
    exists j'. split; [|exact Rd]. apply (fs_ins _ _ _ _ _ _ S'). split; [exact Hj'|]. split.
    + intros c' Ic'. destruct (Hc' c' Ic') as [c0 [Ic0 Rc]]. rewrite <- (Hkey _ _ _ _ Rc Rd). apply Hn. exact Ic0.
    + unfold insert_cost. rewrite (Hsize _ _ Rd). reflexivity.
Qed.

Definition same_pairing (cs ds : list tree) (subs : list sub) (cs' ds' : list tree) (subs' : list sub) : Prop :=
  pairing_incl tperm cs ds subs cs' ds' subs' /\ pairing_incl (fun x y => tperm y x) cs' ds' subs' cs ds subs.

(* C08 (strategy none, one mapping): the members paired - with the cost of their sub-edit -, removed and inserted by
   the two scripts are the same up to the order of keys (below them), in both directions *)
Theorem fixed_pairing : forall O O' pa pb pa' pb' cs cs' ds ds' k t subs k' t' subs',
  tperm (FDict cs) (FDict cs') -> tperm (FDict ds) (FDict ds') ->
  wf (FDict cs) = true -> wf (FDict cs') = true -> wf (FDict ds) = true -> wf (FDict ds') = true ->
  script O pa pb (FDict cs) (FDict ds) = OK (EComp k t subs) ->
  script O' pa' pb' (FDict cs') (FDict ds') = OK (EComp k' t' subs') ->
  same_pairing cs ds subs cs' ds' subs'.
Proof.
  intros O O' pa pb pa' pb' cs cs' ds ds' k t subs k' t' subs' Ta Tb Wa Wa' Wb Wb' H H'.
  pose proof (fd_script_spec _ _ _ _ _ _ _ _ Wa Wb H) as S. pose proof (fd_script_spec _ _ _ _ _ _ _ _ Wa' Wb' H') as S'.
  apply tperm_inv_fd in Ta. destruct Ta as [cs0 [cs1 [E [Hc Pc]]]]. inversion E; subst cs1; clear E.
  apply tperm_inv_fd in Tb. destruct Tb as [ds0 [ds1 [E [Hd Pd]]]]. inversion E; subst ds1; clear E.
  destruct (wf_fd_parts _ Wa) as [_ [Wca _]]. destruct (wf_fd_parts _ Wa') as [_ [Wca' _]].
  destruct (wf_fd_parts _ Wb) as [_ [Wcb _]]. destruct (wf_fd_parts _ Wb') as [_ [Wcb' _]].
  assert (F1 : forall c, In c cs -> exists c', In c' cs' /\ tperm c c').
  { intros c Ic. destruct (Forall2_In_l _ _ _ _ Hc Ic) as [c' [Ic' Hcc]]. exists c'. split; [eapply Permutation_in; eauto|exact Hcc]. }
  assert (F2 : forall c', In c' cs' -> exists c, In c cs /\ tperm c c').
  { intros c' Ic'. apply (Permutation_in _ (Permutation_sym Pc)) in Ic'. exact (Forall2_in_r _ _ _ _ Hc Ic'). }
  assert (F3 : forall d, In d ds -> exists d', In d' ds' /\ tperm d d').
  { intros d Id. destruct (Forall2_In_l _ _ _ _ Hd Id) as [d' [Id' Hdd]]. exists d'. split; [eapply Permutation_in; eauto|exact Hdd]. }
  assert (F4 : forall d', In d' ds' -> exists d, In d ds /\ tperm d d').
  { intros d' Id'. apply (Permutation_in _ (Permutation_sym Pd)) in Id'. exact (Forall2_in_r _ _ _ _ Hd Id'). }
  assert (Hcost : forall X Y p1 p2 p3 p4 c c' d d' i j i' j', In c cs -> In c' cs' -> In d ds -> In d' ds' -> tperm c c' -> tperm d d' ->
            pcost X p1 p2 i j c d = pcost Y p3 p4 i' j' c' d').
  { intros X Y p1 p2 p3 p4 c c' d d' i j i' j' Ic Ic' Id Id' Rc Rd. unfold pcost. rewrite (tperm_node_eqb _ _ _ _ Rc Rd).
    destruct (node_eqb c' d'); [reflexivity|]. apply tperm_cost; auto. }
  split.
  - apply (pairing_transfer tperm O O' pa pb pa' pb'); try assumption.
    + intros c c' d d'. apply tperm_key_eqb.
    + apply tperm_size.
    + intros. apply Hcost; assumption.
  - apply (pairing_transfer (fun x y => tperm y x) O' O pa' pb' pa pb); try assumption.
    + intros c c' d d' Rc Rd. symmetry. apply tperm_key_eqb; assumption.
    + intros c c' Rc. symmetry. apply tperm_size. exact Rc.
    + intros. symmetry. apply Hcost; assumption.
Qed.
